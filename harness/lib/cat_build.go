package lib

import "strings"

// BuildCatalogue: one small request per expected reason for emitted code not to build / vet / load
// (C13), plus near misses that must build.  Every request is accepted by all five plugins.

func buildReq(id string, enums []*Enum, msgs []*Message, svcs ...*Service) *Request {
	f := &File{Enums: enums, Messages: msgs, Services: svcs}
	r := OneFile(id, id+".v1", f)
	r.Tags = []string{"build"}
	return r
}

func BuildCatalogue() []*Request {
	var out []*Request
	q := func(id, t string) string { return id + ".v1." + t }
	echo := func(id string, tops ...string) *Service {
		svc := &Service{Name: "Echo", BasePath: "/" + id, HasConfig: true}
		for _, t := range tops {
			svc.Methods = append(svc.Methods, RPC("Echo"+t, q(id, t), q(id, t), "POST", "/echo/"+t))
		}
		return svc
	}
	add := func(r *Request) { out = append(out, r) }

	// ---- feature annotation x placement ------------------------------------------------------
	add(buildReq("bi64oneof", nil, []*Message{
		M("A", F("id", 1, "string"), F("n", 2, "int64", I64("NUMBER"), InOneof("c")), F("t", 3, "string", InOneof("c"))).WithOneofs(&Oneof{Name: "c"})}, echo("bi64oneof", "A")))
	add(buildReq("btsoneof", nil, []*Message{
		M("A", F("id", 1, "string"), F("at", 2, "", Msg(Timestamp), TsFmt("UNIX_MILLIS"), InOneof("c")), F("t", 3, "string", InOneof("c"))).WithOneofs(&Oneof{Name: "c"})}, echo("btsoneof", "A")))
	add(buildReq("bbytesoneof", nil, []*Message{
		M("A", F("id", 1, "string"), F("raw", 2, "bytes", BytesEnc("HEX"), InOneof("c")), F("t", 3, "string", InOneof("c"))).WithOneofs(&Oneof{Name: "c"})}, echo("bbytesoneof", "A")))
	add(buildReq("bemptyoneof", nil, []*Message{
		M("Meta", F("k", 1, "string")),
		M("A", F("id", 1, "string"), F("m", 2, "", Msg(q("bemptyoneof", "Meta")), Empty("NULL"), InOneof("c")), F("t", 3, "string", InOneof("c"))).WithOneofs(&Oneof{Name: "c"})}, echo("bemptyoneof", "A")))
	// near misses that build
	add(buildReq("boptok", nil, []*Message{
		M("Meta", F("k", 1, "string")),
		M("A", F("at", 1, "", Msg(Timestamp), TsFmt("DATE"), Opt())),
		M("B", F("m", 1, "", Msg(q("boptok", "Meta")), Empty("OMIT"), Opt())),
		M("C", F("xs", 1, "int64", Rep(), I64("NUMBER")), F("u", 2, "fixed64", I64("NUMBER"))),
		M("D", F("type", 1, "string"), F("func", 2, "int32"), F("range", 3, "bool"), F("select", 4, "string", Opt())),
	}, echo("boptok", "A", "B", "C", "D")))

	// ---- two MarshalJSON-declaring features the conflict detection does not see ----------------
	add(buildReq("bflatoneof", nil, []*Message{
		M("Addr", F("street", 1, "string")), M("TextP", F("body", 1, "string")),
		M("A", F("id", 1, "string"), F("home", 2, "", Msg(q("bflatoneof", "Addr")), Flatten(true)),
			F("text", 3, "", Msg(q("bflatoneof", "TextP")), InOneof("payload"))).WithOneofs(&Oneof{Name: "payload", HasConfig: true, Discriminator: "kind"})}, echo("bflatoneof", "A")))
	add(buildReq("bflatempty", nil, []*Message{
		M("Addr", F("street", 1, "string")),
		M("A", F("id", 1, "string"), F("home", 2, "", Msg(q("bflatempty", "Addr")), Flatten(true), Empty("NULL")))}, echo("bflatempty", "A")))
	add(buildReq("bunwraptwo", nil, []*Message{
		M("Bar", F("t", 1, "int64")), M("BarList", F("bars", 1, "", Msg(q("bunwraptwo", "Bar")), Rep(), Unwrap())),
		M("A", F("series", 1, "", Msg(q("bunwraptwo", "BarList")), MapOf("string")), F("total", 2, "int64", I64("NUMBER")))}, echo("bunwraptwo", "A")))
	add(buildReq("brootunwrapi64", nil, []*Message{
		M("A", F("xs", 1, "int64", Rep(), Unwrap(), I64("NUMBER")))}, echo("brootunwrapi64", "A")))
	add(buildReq("btripple", nil, []*Message{
		M("A", F("n", 1, "int64", I64("NUMBER")), F("raw", 2, "bytes", BytesEnc("BASE64URL")), F("nick", 3, "string", Opt(), Nullable(true)))}, echo("btripple", "A")))

	// ---- unwrap containers -----------------------------------------------------------------------
	bars := func(id string) []*Message {
		return []*Message{M("Bar", F("t", 1, "int64"), F("sym", 2, "string")), M("BarList", F("bars", 1, "", Msg(q(id, "Bar")), Rep(), Unwrap()))}
	}
	add(buildReq("buwoneof", nil, append(bars("buwoneof"),
		M("A", F("series", 1, "", Msg(q("buwoneof", "BarList")), MapOf("string")), F("a", 2, "string", InOneof("c")), F("b", 3, "int32", InOneof("c"))).WithOneofs(&Oneof{Name: "c"})), echo("buwoneof", "A")))
	add(buildReq("buwintkey", nil, append(bars("buwintkey"),
		M("A", F("series", 1, "", Msg(q("buwintkey", "BarList")), MapOf("int32")), F("label", 2, "string"))), echo("buwintkey", "A")))
	add(buildReq("buwopt", nil, append(bars("buwopt"),
		M("A", F("series", 1, "", Msg(q("buwopt", "BarList")), MapOf("string")), F("label", 2, "string", Opt()), F("raw", 3, "bytes", Opt()), F("one", 4, "", Msg(q("buwopt", "Bar")), Opt()))), echo("buwopt", "A")))
	add(buildReq("buwts", nil, append(bars("buwts"),
		M("A", F("series", 1, "", Msg(q("buwts", "BarList")), MapOf("string")), F("at", 2, "", Msg(Timestamp)))), echo("buwts", "A")))
	add(buildReq("buwallkinds", []*Enum{E("Color", "COLOR_UNSPECIFIED", "COLOR_RED")}, append(bars("buwallkinds"),
		M("A", F("series", 1, "", Msg(q("buwallkinds", "BarList")), MapOf("string")), F("s", 2, "string"), F("b", 3, "bool"), F("i", 4, "sint32"), F("d", 5, "double"),
			F("raw", 6, "bytes"), F("c", 7, "", EnumT(q("buwallkinds", "Color"))), F("one", 8, "", Msg(q("buwallkinds", "Bar"))), F("many", 9, "", Msg(q("buwallkinds", "Bar")), Rep()),
			F("names", 10, "string", Rep()), F("plain", 11, "", Msg(q("buwallkinds", "Bar")), MapOf("int64")), F("counts", 12, "int32", MapOf("string")))), echo("buwallkinds", "A")))
	add(buildReq("buwmapunwrap", nil, []*Message{
		M("Bar", F("t", 1, "int64")), M("RootMap", F("by_sym", 1, "", Msg(q("buwmapunwrap", "Bar")), MapOf("string"), Unwrap())),
		M("A", F("series", 1, "", Msg(q("buwmapunwrap", "RootMap")), MapOf("string")), F("label", 2, "string"))}, echo("buwmapunwrap", "A")))
	add(buildReq("brootmapint", nil, []*Message{
		M("Bar", F("t", 1, "int64")), M("A", F("by_id", 1, "", Msg(q("brootmapint", "Bar")), MapOf("int32"), Unwrap())),
		M("B", F("counts", 1, "int64", MapOf("int32"), Unwrap()))}, echo("brootmapint", "A", "B")))

	// ---- bare type names of messages from other Go packages ------------------------------------------
	add(buildReq("bflatts", nil, []*Message{
		M("A", F("id", 1, "string"), F("at", 2, "", Msg(Timestamp), Flatten(true)))}, echo("bflatts", "A")))
	add(buildReq("boneofts", nil, []*Message{
		M("TextP", F("body", 1, "string")),
		M("A", F("id", 1, "string"), F("text", 2, "", Msg(q("boneofts", "TextP")), InOneof("payload")), F("at", 3, "", Msg(Timestamp), InOneof("payload"))).WithOneofs(&Oneof{Name: "payload", HasConfig: true, Discriminator: "kind"})}, echo("boneofts", "A")))

	// ---- duplicate literal keys -------------------------------------------------------------------------
	add(buildReq("boneofdup", nil, []*Message{
		M("TextP", F("body", 1, "string")), M("ImageP", F("url", 1, "string")),
		M("A", F("id", 1, "string"), F("text", 2, "", Msg(q("boneofdup", "TextP")), InOneof("payload"), OneofVal("image")), F("image", 3, "", Msg(q("boneofdup", "ImageP")), InOneof("payload"))).WithOneofs(&Oneof{Name: "payload", HasConfig: true, Discriminator: "kind"})}, echo("boneofdup", "A")))
	add(buildReq("benumdup", []*Enum{{Name: "St", Values: []*EnumValue{{Name: "ST_UNSPECIFIED", Number: 0}, {Name: "ST_ON", Number: 1, EnumValue: Str("ST_OFF")}, {Name: "ST_OFF", Number: 2}}}},
		[]*Message{M("A", F("st", 1, "", EnumT(q("benumdup", "St"))))}, echo("benumdup", "A")))
	add(buildReq("benumself", []*Enum{{Name: "St", Values: []*EnumValue{{Name: "ST_UNSPECIFIED", Number: 0}, {Name: "ST_ON", Number: 1, EnumValue: Str("ST_ON")}}}},
		[]*Message{M("A", F("st", 1, "", EnumT(q("benumself", "St"))))}, echo("benumself", "A")))

	// ---- identifiers derived by string conversion -----------------------------------------------------------
	{
		id := "bpathnames"
		var msgs []*Message
		svc := &Service{Name: "Names", BasePath: "/n", HasConfig: true}
		for i, n := range []string{"field_1", "a1b", "x__y", "user_id", "type"} {
			mn := "R" + string(rune('A'+i))
			m := M(mn, F(n, 1, "string"))
			msgs = append(msgs, m)
			svc.Methods = append(svc.Methods, RPC("Get"+mn, q(id, mn), q(id, "Resp"), "GET", "/"+mn+"/{"+n+"}"))
		}
		msgs = append(msgs, M("Resp", F("ok", 1, "bool")),
			M("Uniq", F("x", 1, "string", Opt()), F("x_x", 2, "string"), F("reset", 3, "string"), F("string", 4, "string"), F("get_foo", 5, "string"),
				F("foo", 6, "string"), F("descriptor", 7, "string"), F("marshal", 8, "int32"), F("proto_message", 9, "bool"),
				F("o_a", 10, "string", InOneof("sel")), F("o_b", 11, "int32", InOneof("sel")), F("_lead", 12, "string"), F("tail_", 13, "string"), F("HTTPCode", 14, "int32")).WithOneofs(&Oneof{Name: "sel"}))
		add(buildReq(id, nil, msgs, svc))
	}

	{ // a path identifier that is not a field but resolves to a method of the message: compiles, vet complains
		id := "bpathmeth"
		var msgs []*Message
		svc := &Service{Name: "Names", BasePath: "/n", HasConfig: true}
		for i, n := range []string{"string", "descriptor", "name2", "reset", "plain_name"} {
			mn := "R" + string(rune('A'+i))
			m := M(mn, F(n, 1, "string"))
			if n == "name2" {
				m = M(mn, F("name", 1, "string"), F("get_name", 2, "string")) // get_name -> GetName_ ; path {get_name} -> req.GetName (a method)
				n = "get_name"
				m.Fields[0].Query = &QueryCfg{Name: "name"}
			}
			msgs = append(msgs, m)
			svc.Methods = append(svc.Methods, RPC("Get"+mn, q(id, mn), q(id, "Resp"), "GET", "/"+mn+"/{"+n+"}"))
		}
		msgs = append(msgs, M("Resp", F("ok", 1, "bool")))
		add(buildReq(id, nil, msgs, svc))
	}
	// a file whose only unwrap code is a root unwrap of scalars
	add(buildReq("buwscalar", nil, []*Message{M("Strs", F("vals", 1, "string", Rep(), Unwrap())), M("Counts", F("by", 1, "int64", MapOf("string"), Unwrap()))}, echo("buwscalar", "Strs", "Counts")))

	// ---- client header helpers --------------------------------------------------------------------------------------
	hdrReq := func(id string, svcH, m1H, m2H []*Header) *Request {
		svc := &Service{Name: "Echo", BasePath: "/" + id, HasConfig: true, Headers: svcH}
		svc.Methods = []*Method{RPC("One", q(id, "Ping"), q(id, "Ping"), "POST", "/one").WithHeaders(m1H...), RPC("Two", q(id, "Ping"), q(id, "Ping"), "PUT", "/two").WithHeaders(m2H...)}
		return buildReq(id, nil, []*Message{M("Ping", F("msg", 1, "string"))}, svc)
	}
	H := func(n string) *Header { return &Header{Name: n, Type: "string"} }
	// one helper per helper NAME (service headers first, then method headers): all of these build
	add(hdrReq("bhdrtwo", nil, []*Header{H("X-Tenant")}, []*Header{H("X-Tenant")}))
	add(hdrReq("bhdralias", []*Header{H("X-Trace")}, []*Header{H("Trace")}, nil))
	// two DIFFERENT headers with one helper name: only the first gets a helper (a behaviour question, not a build failure)
	add(hdrReq("bhdrsamefn", []*Header{H("X-Api-Key"), H("Api-Key")}, []*Header{H("X-ApiKey"), H("X-Other")}, []*Header{H("X-Other"), H("Api-Key")}))
	add(hdrReq("bhdrcall", []*Header{H("X-CallTrace")}, []*Header{H("X-Trace")}, nil)) // WithEchoCallTrace twice (client option / call option)
	add(hdrReq("bhdrbuiltin", []*Header{H("Content-Type")}, nil, nil))
	add(hdrReq("bhdrident", nil, []*Header{H("X-Api.Key")}, nil))
	add(hdrReq("bhdrok", []*Header{H("X-API-Key"), H("x-lower-case")}, []*Header{H("X-Request-ID")}, []*Header{H("Accept-Language")}))

	// ---- package-level declarations --------------------------------------------------------------------------------
	{
		id := "bsamemethod"
		ms := []*Message{M("Ping", F("msg", 1, "string"))}
		add(buildReq(id, nil, ms, Svc("Alpha", "/a", RPC("Get", q(id, "Ping"), q(id, "Ping"), "POST", "/g")), Svc("Beta", "/b", RPC("Get", q(id, "Ping"), q(id, "Ping"), "POST", "/g"))))
		id = "bsvcmethod"
		add(buildReq(id, nil, []*Message{M("Msg", F("msg", 1, "string"))}, Svc("Ping", "/p", RPC("Ping", q(id, "Msg"), q(id, "Msg"), "POST", "/ping"))))
		id = "bnomethods"
		add(buildReq(id, nil, []*Message{M("Msg", F("msg", 1, "string"))}, &Service{Name: "Idle"}))
		id = "berrfield"
		add(buildReq(id, nil, []*Message{M("ApiError", F("error", 1, "string"), F("code", 2, "int32")), M("OkError", F("message", 1, "string")), M("Ping", F("msg", 1, "string"))}, echo(id, "Ping")))
		id = "bmsgclash"
		add(buildReq(id, nil, []*Message{M("EchoClient", F("msg", 1, "string")), M("Ping", F("msg", 1, "string"))}, echo(id, "Ping")))
		id = "bmsgclashsrv"
		add(buildReq(id, nil, []*Message{M("EchoServer", F("msg", 1, "string")), M("Ping", F("msg", 1, "string"))}, echo(id, "Ping")))
	}
	{ // two files with services in one Go package
		pkg := "btwofiles.v1"
		a := &File{Path: "btwofiles/a.proto", Package: pkg, GoPackage: "verifgen/btwofiles;btwofiles", Generate: true,
			Messages: []*Message{M("Ping", F("msg", 1, "string"))}, Services: []*Service{Svc("Alpha", "/a", RPC("GetA", pkg+".Ping", pkg+".Ping", "POST", "/g"))}}
		b := &File{Path: "btwofiles/b.proto", Package: pkg, GoPackage: "verifgen/btwofiles;btwofiles", Generate: true, Imports: []string{"btwofiles/a.proto"},
			Services: []*Service{Svc("Beta", "/b", RPC("GetB", pkg+".Ping", pkg+".Ping", "POST", "/g"))}}
		add(&Request{ID: "btwofiles", Files: []*File{a, b}, Tags: []string{"build"}})
	}
	{ // service-less file with int64 NUMBER on an optional field: go-http emits the encoder, go-client does not
		pkg := "bsvcless.v1"
		types := &File{Path: "bsvcless/types.proto", Package: pkg, GoPackage: "verifgen/bsvcless;bsvcless", Generate: true,
			Messages: []*Message{M("Nums", F("x", 1, "int64", Opt(), I64("NUMBER")), F("id", 2, "string"))}}
		api := &File{Path: "bsvcless/api.proto", Package: pkg, GoPackage: "verifgen/bsvcless;bsvcless", Generate: true, Imports: []string{"bsvcless/types.proto"},
			Messages: []*Message{M("Req", F("id", 1, "string"))}, Services: []*Service{Svc("S", "/s", RPC("Get", pkg+".Req", pkg+".Nums", "POST", "/g"))}}
		add(&Request{ID: "bsvcless", Files: []*File{types, api}, Tags: []string{"build"}})
	}

	// ---- client query emitter (GET/DELETE) -------------------------------------------------------------------------------
	{
		id := "bquery"
		pkg := id + ".v1"
		f := &File{Enums: []*Enum{E("Color", "COLOR_UNSPECIFIED", "COLOR_RED")}}
		f.Messages = []*Message{M("Resp", F("ok", 1, "bool")),
			M("Ok", F("s", 1, "string", Query("s", false)), F("b", 2, "bool", Query("b", false)), F("n", 3, "sint64", Query("n", true)), F("d", 4, "float", Query("d", false)))}
		svc := &Service{Name: "Q", BasePath: "/q", HasConfig: true}
		svc.Methods = append(svc.Methods, RPC("GetOk", pkg+".Ok", pkg+".Resp", "GET", "/ok"))
		mk := func(name string, fld *Field) {
			f.Messages = append(f.Messages, M(name, fld))
			svc.Methods = append(svc.Methods, RPC("Get"+name, pkg+"."+name, pkg+".Resp", "GET", "/"+name))
		}
		_ = mk
		f.Services = []*Service{svc}
		r := OneFile(id, pkg, f)
		r.Tags = []string{"build"}
		add(r)
		for _, c := range []struct {
			id  string
			fld *Field
		}{
			{"bqopt", F("v", 1, "string", Opt(), Query("v", false))},
			{"bqrep", F("v", 1, "int32", Rep(), Query("v", false))},
			{"bqenum", F("v", 1, "", EnumT("bqenum.v1.Color"), Query("v", false))},
			{"bqbytes", F("v", 1, "bytes", Query("v", false))},
			{"bqoptbool", F("v", 1, "bool", Opt(), Query("v", false))},
		} {
			p := c.id + ".v1"
			ff := &File{Enums: []*Enum{E("Color", "COLOR_UNSPECIFIED", "COLOR_RED")}, Messages: []*Message{M("Resp", F("ok", 1, "bool")), M("Req", c.fld)},
				Services: []*Service{Svc("Q", "/q", RPC("Get", p+".Req", p+".Resp", "GET", "/g"), RPC("Post", p+".Req", p+".Resp", "POST", "/p"))}}
			rr := OneFile(c.id, p, ff)
			rr.Tags = []string{"build"}
			add(rr)
		}
	}
	return out
}

// RandomBuildRequests: seeded random annotation x kind x cardinality x placement combinations
// (one small package each).  Placements the validators refuse are avoided where cheap; a request
// that is refused anyway is dropped by the check (outside C13's domain).
func RandomBuildRequests(rng interface{ Intn(int) int }, n int) []*Request {
	var out []*Request
	kinds := []string{"string", "int32", "int64", "uint64", "sfixed64", "bool", "double", "bytes", "enum", "inner", "ts"}
	for i := 0; i < n; i++ {
		id := "brnd" + string(rune('a'+i/26%26)) + string(rune('a'+i%26))
		if i >= 676 {
			id = id + "x" + string(rune('a'+i/676))
		}
		pkg := id + ".v1"
		msgs := []*Message{M("Inner", F("a", 1, "string"), F("n", 2, "int64"))}
		var tops []string
		nm := 1 + rng.Intn(3)
		for mi := 0; mi < nm; mi++ {
			name := "M" + string(rune('0'+mi))
			m := M(name)
			nf := 1 + rng.Intn(4)
			hasOneof := false
			for fi := 0; fi < nf; fi++ {
				k := kinds[rng.Intn(len(kinds))]
				f := F("f"+string(rune('0'+fi)), int32(fi+1), k)
				switch k {
				case "enum":
					f = F(f.Name, f.Number, "", EnumT(pkg+".Color"))
				case "inner":
					f = F(f.Name, f.Number, "", Msg(pkg+".Inner"))
				case "ts":
					f = F(f.Name, f.Number, "", Msg(Timestamp))
				}
				switch c := rng.Intn(10); {
				case c < 5:
				case c < 7:
					f.Card = "optional"
				case c < 8:
					f.Card = "repeated"
				case c < 9:
					f.Card = "map"
					f.MapKey = []string{"string", "int32"}[rng.Intn(2)]
				default:
					f.Oneof = "c"
					hasOneof = true
				}
				if rng.Intn(10) < 5 {
					switch {
					case f.Card == "map":
					case k == "int64" || k == "uint64" || k == "sfixed64":
						f.Int64Encoding = "NUMBER"
					case k == "bytes":
						f.BytesEncoding = []string{"HEX", "BASE64URL"}[rng.Intn(2)]
					case k == "ts":
						f.TimestampFormat = []string{"UNIX_SECONDS", "DATE"}[rng.Intn(2)]
					case k == "inner" && f.Card != "repeated":
						if f.Card == "singular" && f.Oneof == "" && rng.Intn(2) == 0 {
							f.Flatten = B(true)
							f.FlattenPrefix = Str("p" + string(rune('0'+fi)) + "_")
						} else {
							f.EmptyBehavior = []string{"NULL", "OMIT"}[rng.Intn(2)]
						}
					case f.Card == "optional" && k != "inner" && k != "ts":
						f.Nullable = B(true)
					}
				}
				m.Fields = append(m.Fields, f)
			}
			if hasOneof {
				m.Oneofs = []*Oneof{{Name: "c"}}
				var plain, members []*Field // members of a oneof are declared consecutively
				for _, f := range m.Fields {
					if f.Oneof != "" {
						members = append(members, f)
					} else {
						plain = append(plain, f)
					}
				}
				m.Fields = append(plain, members...)
			}
			msgs = append(msgs, m)
			tops = append(tops, name)
		}
		svc := &Service{Name: "Echo", BasePath: "/" + id, HasConfig: true}
		for _, t := range tops {
			svc.Methods = append(svc.Methods, RPC("Echo"+t, pkg+"."+t, pkg+"."+t, "POST", "/echo/"+t))
		}
		r := buildReq(id, []*Enum{E("Color", "COLOR_UNSPECIFIED", "COLOR_RED")}, msgs, svc)
		r.Tags = []string{"build", "random"}
		out = append(out, r)
	}
	return out
}

// ---- several annotated things of the same kind in one scope ------------------------------------------
//
// SameKindCatalogue: every emitter that prints a block per annotated thing prints those blocks into ONE
// scope when a message / service / file carries several of them: k discriminated oneofs, k flatten fields,
// k unwrap maps and k annotated fields of one feature per message (one MarshalJSON / UnmarshalJSON body);
// several services per file sharing rpc names, request / response messages and header names (one Go
// package, one TS module per file); several methods of one service sharing messages and headers.
// Everything here is accepted by all five plugins.  Only the requests whose id ends in "samerpc" repeat
// an rpc name across services (a known go-http finding); the others are expected to build, vet and load.

func hdr(n string, required bool) *Header { return &Header{Name: n, Type: "string", Required: required} }

// discOneofs adds k discriminated oneofs o0..o<k-1> to m (field numbers from base): oneof i has a message
// variant, a second message variant and (when not flattened) a scalar variant.
func discOneofs(m *Message, pkg string, k int, base int32, flat func(i int) bool, variantMsgs []string) *Message {
	for i := 0; i < k; i++ {
		on := "o" + string(rune('0'+i))
		fl := flat(i)
		m.Oneofs = append(m.Oneofs, &Oneof{Name: on, HasConfig: true, Discriminator: on + "Kind", Flatten: fl})
		a := variantMsgs[(2*i)%len(variantMsgs)]
		b := variantMsgs[(2*i+1)%len(variantMsgs)]
		m.Fields = append(m.Fields,
			F(on+"_a", base, "", Msg(pkg+"."+a), InOneof(on)),
			F(on+"_b", base+1, "", Msg(pkg+"."+b), InOneof(on), OneofVal("second")))
		if !fl {
			m.Fields = append(m.Fields, F(on+"_s", base+2, "string", InOneof(on)))
		}
		base += 3
	}
	return m
}

func SameKindCatalogue() []*Request {
	var out []*Request
	add := func(r *Request) { r.Tags = []string{"build", "samekind"}; out = append(out, r) }
	q := func(id, t string) string { return id + ".v1." + t }
	echo := func(id string, tops ...string) *Service {
		svc := &Service{Name: "Echo", BasePath: "/" + id, HasConfig: true}
		for _, t := range tops {
			svc.Methods = append(svc.Methods, RPC("Echo"+strings.ReplaceAll(t, ".", ""), q(id, t), q(id, t), "POST", "/echo/"+t))
		}
		return svc
	}

	{ // k discriminated oneofs in one message: one MarshalJSON / UnmarshalJSON body holds k blocks
		id := "bkoneof"
		pkg := id + ".v1"
		// variant payloads with pairwise different field names (flatten lifts them into the parent)
		var vs []*Message
		var vnames []string
		for i := 0; i < 6; i++ {
			n := "V" + string(rune('a'+i))
			vs = append(vs, M(n, F("v"+string(rune('a'+i))+"_text", 1, "string"), F("v"+string(rune('a'+i))+"_n", 2, "int32")))
			vnames = append(vnames, n)
		}
		never := func(int) bool { return false }
		always := func(int) bool { return true }
		msgs := append(vs,
			discOneofs(M("Two", F("id", 1, "string")), pkg, 2, 2, never, vnames),
			discOneofs(M("TwoFlat", F("id", 1, "string")), pkg, 2, 2, always, vnames),
			discOneofs(M("ThreeMixed", F("id", 1, "string")), pkg, 3, 2, func(i int) bool { return i == 1 }, vnames),
			// the same variant type and the same discriminator VALUES in both oneofs (two switch statements)
			discOneofs(M("TwoSameVariants", F("id", 1, "string")), pkg, 2, 2, never, []string{"Va", "Vb", "Va", "Vb"}),
			// an annotated oneof next to plain ones and to a oneof with an empty discriminator
			M("Mixed", F("id", 1, "string"), F("p_a", 2, "string", InOneof("plain")), F("p_b", 3, "int32", InOneof("plain")),
				F("d_a", 4, "", Msg(pkg+".Va"), InOneof("d")), F("d_b", 5, "string", InOneof("d")),
				F("e_a", 6, "", Msg(pkg+".Vb"), InOneof("e")), F("e_b", 7, "bool", InOneof("e")),
				F("n_a", 8, "string", InOneof("nocfg")), F("n_b", 9, "", Msg(pkg+".Vc"), InOneof("nocfg"))).
				WithOneofs(&Oneof{Name: "plain"}, &Oneof{Name: "d", HasConfig: true, Discriminator: "dKind"},
					&Oneof{Name: "e", HasConfig: true, Discriminator: "eKind"}, &Oneof{Name: "nocfg", HasConfig: true}),
			// several messages with one annotated oneof each, all with the same oneof / discriminator / variant names
			M("OneA", F("id", 1, "string"), F("text", 2, "", Msg(pkg+".Va"), InOneof("payload")), F("image", 3, "", Msg(pkg+".Vb"), InOneof("payload"))).
				WithOneofs(&Oneof{Name: "payload", HasConfig: true, Discriminator: "kind"}),
			M("OneB", F("id", 1, "string"), F("text", 2, "", Msg(pkg+".Va"), InOneof("payload")), F("image", 3, "", Msg(pkg+".Vb"), InOneof("payload"))).
				WithOneofs(&Oneof{Name: "payload", HasConfig: true, Discriminator: "kind", Flatten: true}),
			// nested message with two annotated oneofs, parent with one
			discOneofs(M("Outer", F("id", 1, "string")), pkg, 1, 2, never, vnames).
				WithNested(discOneofs(M("Inner", F("id", 1, "string")), pkg, 2, 2, func(i int) bool { return i == 0 }, vnames)))
		add(buildReq(id, nil, msgs, echo(id, "Two", "TwoFlat", "ThreeMixed", "TwoSameVariants", "Mixed", "OneA", "OneB", "Outer", "Outer.Inner")))
		// a service-less file with two annotated oneofs in one message (the codec file is emitted for it too)
		id = "bkoneofnosvc"
		pkg = id + ".v1"
		types := &File{Path: id + "/types.proto", Package: pkg, GoPackage: "verifgen/" + id + ";" + id, Generate: true,
			Messages: []*Message{M("Va", F("va_text", 1, "string")), M("Vb", F("vb_text", 1, "string")),
				discOneofs(M("Drawing", F("id", 1, "string")), pkg, 2, 2, func(i int) bool { return i == 1 }, []string{"Va", "Vb"})}}
		r := &Request{ID: id, Files: []*File{types}}
		add(r)
	}
	{ // k flatten fields in one message
		id := "bkflatten"
		pkg := id + ".v1"
		add(buildReq(id, nil, []*Message{
			M("Addr", F("street", 1, "string"), F("zip_code", 2, "string")), M("Geo", F("lat", 1, "double"), F("lng", 2, "double")), M("Tag", F("label", 1, "string")),
			M("Three", F("id", 1, "string"), F("home", 2, "", Msg(pkg+".Addr"), Flatten(true)), F("work", 3, "", Msg(pkg+".Addr"), Flatten(true), FlattenPrefix("work_")),
				F("geo", 4, "", Msg(pkg+".Geo"), Flatten(true), FlattenPrefix("geo_")), F("tag", 5, "", Msg(pkg+".Tag"), Flatten(true)), F("plain", 6, "", Msg(pkg+".Tag"))),
			// a flattened child that itself flattens two children
			M("Deep", F("three", 1, "", Msg(pkg+".Three"), Flatten(true), FlattenPrefix("t_")), F("tag", 2, "", Msg(pkg+".Tag"), Flatten(true), FlattenPrefix("x_"))),
			// two messages flattening the same children under the same names
			M("TwinA", F("home", 1, "", Msg(pkg+".Addr"), Flatten(true)), F("geo", 2, "", Msg(pkg+".Geo"), Flatten(true))),
			M("TwinB", F("home", 1, "", Msg(pkg+".Addr"), Flatten(true)), F("geo", 2, "", Msg(pkg+".Geo"), Flatten(true))),
		}, echo(id, "Three", "Deep", "TwinA", "TwinB")))
	}
	{ // k unwrap maps in one message; several root unwraps in one file
		id := "bkunwrap"
		pkg := id + ".v1"
		add(buildReq(id, nil, []*Message{
			M("Bar", F("t", 1, "int64"), F("sym", 2, "string")),
			M("BarList", F("bars", 1, "", Msg(pkg+".Bar"), Rep(), Unwrap())),
			M("TickList", F("ticks", 1, "", Msg(pkg+".Bar"), Rep(), Unwrap()), F("n", 2, "int32")),
			M("NameList", F("names", 1, "string", Rep(), Unwrap())),
			M("NumList", F("nums", 1, "double", Rep(), Unwrap())),
			M("Three", F("series", 1, "", Msg(pkg+".BarList"), MapOf("string")), F("again", 2, "", Msg(pkg+".BarList"), MapOf("string")),
				F("ticks", 3, "", Msg(pkg+".TickList"), MapOf("string")), F("names", 4, "", Msg(pkg+".NameList"), MapOf("string")),
				F("nums", 5, "", Msg(pkg+".NumList"), MapOf("string")), F("plain", 6, "", Msg(pkg+".Bar"), MapOf("string")),
				F("label", 7, "string"), F("many", 8, "", Msg(pkg+".Bar"), Rep()), F("one", 9, "", Msg(pkg+".Bar"))),
			M("TwinA", F("series", 1, "", Msg(pkg+".BarList"), MapOf("string")), F("names", 2, "", Msg(pkg+".NameList"), MapOf("string"))),
			M("TwinB", F("series", 1, "", Msg(pkg+".BarList"), MapOf("string")), F("names", 2, "", Msg(pkg+".NameList"), MapOf("string"))),
			M("RootA", F("items", 1, "", Msg(pkg+".Bar"), Rep(), Unwrap())), M("RootB", F("items", 1, "", Msg(pkg+".Bar"), Rep(), Unwrap())),
			M("RootMapA", F("by", 1, "", Msg(pkg+".Bar"), MapOf("string"), Unwrap())), M("RootMapB", F("by", 1, "", Msg(pkg+".BarList"), MapOf("string"), Unwrap())),
		}, echo(id, "Three", "TwinA", "TwinB", "RootA", "RootB", "RootMapA", "RootMapB")))
	}
	{ // k annotated fields of ONE feature per message (one codec body per feature), k enums with custom values
		id := "bkfields"
		pkg := id + ".v1"
		cust := func(name string) *Enum {
			u := strings.ToUpper(name)
			return &Enum{Name: name, Values: []*EnumValue{{Name: u + "_UNSPECIFIED", Number: 0}, {Name: u + "_ON", Number: 1, EnumValue: Str("on")}, {Name: u + "_OFF", Number: 2, EnumValue: Str("off")}}}
		}
		add(buildReq(id, []*Enum{cust("Power"), cust("Light"), cust("Valve")}, []*Message{
			M("Meta", F("k", 1, "string")),
			M("Nums", F("a", 1, "int64", I64("NUMBER")), F("b", 2, "uint64", I64("NUMBER")), F("c", 3, "sfixed64", I64("NUMBER")), F("d", 4, "int64", Rep(), I64("NUMBER")), F("e", 5, "sint64", Rep(), I64("NUMBER")), F("s", 6, "int64", I64("STRING"))),
			M("Nulls", F("a", 1, "string", Opt(), Nullable(true)), F("b", 2, "int32", Opt(), Nullable(true)), F("c", 3, "bool", Opt(), Nullable(true)), F("d", 4, "double", Opt(), Nullable(true))),
			M("Empties", F("a", 1, "", Msg(pkg+".Meta"), Empty("NULL")), F("b", 2, "", Msg(pkg+".Meta"), Empty("OMIT")), F("c", 3, "", Msg(pkg+".Meta"), Empty("PRESERVE")), F("d", 4, "", Msg(pkg+".Meta"), Empty("NULL"), Opt())),
			M("Times", F("a", 1, "", Msg(Timestamp), TsFmt("UNIX_SECONDS")), F("b", 2, "", Msg(Timestamp), TsFmt("UNIX_MILLIS")), F("c", 3, "", Msg(Timestamp), TsFmt("DATE")), F("d", 4, "", Msg(Timestamp), TsFmt("RFC3339")), F("e", 5, "", Msg(Timestamp), TsFmt("DATE"), Opt())),
			M("Blobs", F("a", 1, "bytes", BytesEnc("HEX")), F("b", 2, "bytes", BytesEnc("BASE64URL")), F("c", 3, "bytes", BytesEnc("BASE64_RAW")), F("d", 4, "bytes", BytesEnc("BASE64URL_RAW")), F("e", 5, "bytes", BytesEnc("HEX"), Opt())),
			M("Switches", F("p", 1, "", EnumT(pkg+".Power")), F("l", 2, "", EnumT(pkg+".Light")), F("v", 3, "", EnumT(pkg+".Valve")), F("ps", 4, "", EnumT(pkg+".Power"), Rep())),
		}, echo(id, "Nums", "Nulls", "Empties", "Times", "Blobs", "Switches")))
	}

	// ---- several services in one file ------------------------------------------------------------------
	shared := func(id string) []*Message {
		return []*Message{
			M("GetReq", F("id", 1, "string"), F("page", 2, "int32", Query("page", false)), F("filter", 3, "string", Query("filter", false))),
			M("Item", F("id", 1, "string"), F("title", 2, "string")), M("Empty"),
			M("PutReq", F("id", 1, "string"), F("item", 2, "", Msg(q(id, "Item")))),
		}
	}
	{ // distinct rpc names; shared request / response messages; the same header names at service and method level;
		// several methods of one service with the same messages and headers
		id := "bsvcshare"
		key, trace, req := hdr("X-API-Key", true), hdr("X-Trace-ID", false), hdr("X-Request-ID", true)
		users := Svc("UserService", "/users",
			RPC("GetUser", q(id, "GetReq"), q(id, "Item"), "GET", "/{id}").WithHeaders(req),
			RPC("FindUser", q(id, "GetReq"), q(id, "Item"), "GET", "/find/{id}").WithHeaders(req),
			RPC("PutUser", q(id, "PutReq"), q(id, "Item"), "PUT", "/{id}").WithHeaders(req, trace),
			RPC("DropUser", q(id, "GetReq"), q(id, "Empty"), "DELETE", "/{id}"),
			RPC("PingUsers", q(id, "Empty"), q(id, "Empty"), "POST", "/ping")).WithHeaders(key, trace)
		orders := Svc("OrderService", "/orders",
			RPC("GetOrder", q(id, "GetReq"), q(id, "Item"), "GET", "/{id}").WithHeaders(req),
			RPC("PutOrder", q(id, "PutReq"), q(id, "Item"), "PUT", "/{id}").WithHeaders(req, trace),
			RPC("DropOrder", q(id, "GetReq"), q(id, "Empty"), "DELETE", "/{id}").WithHeaders(req),
			RPC("PingOrders", q(id, "Empty"), q(id, "Empty"), "POST", "/ping")).WithHeaders(key, trace)
		admin := Svc("AdminService", "/admin",
			RPC("LookupUser", q(id, "GetReq"), q(id, "Item"), "GET", "/user/{id}").WithHeaders(key),
			RPC("LookupOrder", q(id, "GetReq"), q(id, "Item"), "GET", "/order/{id}").WithHeaders(key),
			RPC("PingAdmin", q(id, "Empty"), q(id, "Empty"), "POST", "/ping"))
		bare := &Service{Name: "BareService", Methods: []*Method{{Name: "Describe", In: q(id, "GetReq"), Out: q(id, "Item")}, {Name: "Refresh", In: q(id, "Empty"), Out: q(id, "Empty")}}}
		add(buildReq(id, nil, shared(id), users, orders, admin, bare))
	}
	for _, c := range []struct {
		id           string
		svcH, mdH    bool
		secondHasHdr bool
	}{
		{"bsvchdrsamerpc", true, true, true},    // service headers and method headers on both
		{"bsvcmdhsamerpc", false, true, true},   // method headers only
		{"bsvcsvhsamerpc", true, false, true},   // service headers only
		{"bsvconehsamerpc", true, true, false},  // only the first service's rpcs have headers in scope
	} {
		id := c.id
		key, req := hdr("X-API-Key", true), hdr("X-Request-ID", false)
		mh := func(m *Method, on bool) *Method {
			if on && c.mdH {
				return m.WithHeaders(req)
			}
			return m
		}
		users := Svc("UserService", "/users",
			mh(RPC("Get", q(id, "GetReq"), q(id, "Item"), "GET", "/{id}"), true),
			mh(RPC("Put", q(id, "PutReq"), q(id, "Item"), "PUT", "/{id}"), true),
			RPC("List", q(id, "Empty"), q(id, "Item"), "POST", "/list"))
		orders := Svc("OrderService", "/orders",
			mh(RPC("Get", q(id, "GetReq"), q(id, "Item"), "GET", "/{id}"), c.secondHasHdr),
			mh(RPC("Put", q(id, "PutReq"), q(id, "Item"), "PUT", "/{id}"), c.secondHasHdr),
			mh(RPC("list", q(id, "Empty"), q(id, "Item"), "POST", "/list"), c.secondHasHdr)) // lowerFirst(List) = list
		if c.svcH {
			users.Headers = []*Header{key}
			if c.secondHasHdr {
				orders.Headers = []*Header{key}
			}
		}
		add(buildReq(id, nil, shared(id), users, orders))
	}
	return out
}

// RandomSameKindRequests: seeded random members of the same family: per request either one message with
// k in 2..4 annotated things of one kind, or 2..3 services drawing rpc names, messages and headers from
// small shared pools (so that they repeat).
func RandomSameKindRequests(rng interface{ Intn(int) int }, n int) []*Request {
	var out []*Request
	for i := 0; i < n; i++ {
		id := "bksr" + string(rune('a'+i/26%26)) + string(rune('a'+i%26))
		pkg := id + ".v1"
		var r *Request
		switch rng.Intn(4) {
		case 0: // k discriminated oneofs
			k := 2 + rng.Intn(3)
			var msgs []*Message
			var vn []string
			for j := 0; j < 2*k; j++ {
				n := "V" + string(rune('a'+j))
				msgs = append(msgs, M(n, F("v"+string(rune('a'+j))+"_x", 1, []string{"string", "int32", "bool"}[rng.Intn(3)])))
				vn = append(vn, n)
			}
			flat := make([]bool, k)
			for j := range flat {
				flat[j] = rng.Intn(2) == 0
			}
			m := discOneofs(M("A", F("id", 1, "string")), pkg, k, 2, func(j int) bool { return flat[j] }, vn)
			if rng.Intn(2) == 0 { // an unannotated oneof in between
				m.Oneofs = append(m.Oneofs, &Oneof{Name: "plain"})
				m.Fields = append(m.Fields, F("pl_a", 90, "string", InOneof("plain")), F("pl_b", 91, "int64", InOneof("plain")))
			}
			msgs = append(msgs, m)
			svc := Svc("Echo", "/"+id, RPC("EchoA", pkg+".A", pkg+".A", "POST", "/a"))
			if rng.Intn(4) == 0 {
				r = buildReq(id, nil, msgs)
			} else {
				r = buildReq(id, nil, msgs, svc)
			}
		case 1: // k flatten fields / k unwrap maps
			k := 2 + rng.Intn(3)
			msgs := []*Message{M("Child", F("a", 1, "string"), F("b_c", 2, "int32")), M("Bar", F("t", 1, "int64")),
				M("BarList", F("bars", 1, "", Msg(pkg+".Bar"), Rep(), Unwrap())), M("StrList", F("vals", 1, "string", Rep(), Unwrap()))}
			fl := M("Flat", F("id", 1, "string"))
			uw := M("Cont", F("id", 1, "string"))
			for j := 0; j < k; j++ {
				fl.Fields = append(fl.Fields, F("c"+string(rune('0'+j)), int32(j+2), "", Msg(pkg+".Child"), Flatten(true), FlattenPrefix("p"+string(rune('0'+j))+"_")))
				uw.Fields = append(uw.Fields, F("m"+string(rune('0'+j)), int32(j+2), "", Msg(pkg+"."+[]string{"BarList", "StrList"}[rng.Intn(2)]), MapOf("string")))
			}
			msgs = append(msgs, fl, uw)
			r = buildReq(id, nil, msgs, Svc("Echo", "/"+id, RPC("EchoFlat", pkg+".Flat", pkg+".Flat", "POST", "/f"), RPC("EchoCont", pkg+".Cont", pkg+".Cont", "POST", "/c")))
		default: // several services sharing names
			ns := 2 + rng.Intn(2)
			sameRPC := rng.Intn(3) == 0
			hs := []*Header{hdr("X-API-Key", true), hdr("X-Trace", false), hdr("X-Tenant", true)}
			msgs := []*Message{M("GetReq", F("id", 1, "string"), F("page", 2, "int32", Query("page", false))), M("Item", F("id", 1, "string")), M("Other", F("n", 1, "int64"))}
			var svcs []*Service
			for si := 0; si < ns; si++ {
				sn := "Svc" + string(rune('A'+si))
				sv := Svc(sn, "/"+strings.ToLower(sn))
				if rng.Intn(3) != 0 {
					sv.Headers = []*Header{hs[rng.Intn(len(hs))]}
				}
				nm := 1 + rng.Intn(3)
				for mi := 0; mi < nm; mi++ {
					name := []string{"Get", "Find", "Load"}[mi]
					if !sameRPC {
						name += sn
					}
					outT := []string{"Item", "Item", "Other"}[rng.Intn(3)]
					var m *Method
					if rng.Intn(2) == 0 {
						m = RPC(name, pkg+".GetReq", pkg+"."+outT, "GET", "/"+strings.ToLower(name)+"/{id}")
					} else {
						m = RPC(name, pkg+".Item", pkg+"."+outT, "POST", "/"+strings.ToLower(name))
					}
					if rng.Intn(2) == 0 {
						m.Headers = []*Header{hs[rng.Intn(len(hs))]}
					}
					sv.Methods = append(sv.Methods, m)
				}
				svcs = append(svcs, sv)
			}
			r = buildReq(id, nil, msgs, svcs...)
		}
		r.Tags = []string{"build", "samekind", "random"}
		out = append(out, r)
	}
	return out
}

// ---- message and enum types from OTHER Go packages ---------------------------------------------------------
//
// ForeignTypeCatalogue: every position in which a generator prints the NAME of a type — RPC request, RPC
// response, field (singular, optional, repeated, map value, oneof member), enum field — filled with a type
// that lives in another Go package than the service: a well-known type (google.protobuf.Empty, Timestamp,
// Duration, Struct, Value, Any, FieldMask, the wrappers), a message / enum of an imported user package that
// is NOT generated in this run (a shared common/v1), and of a second package generated in the same run.
// protogen qualifies a GoIdent and registers the import; a name printed as a plain string (GoIdent.GoName)
// is unqualified: `undefined: Empty`, or silently the homonymous type of the service's own package.
// No annotation is involved: everything here is expected to build, vet and load.

var wellKnownMsgs = []string{"google.protobuf.Empty", "google.protobuf.Timestamp", "google.protobuf.Duration", "google.protobuf.Struct", "google.protobuf.Value",
	"google.protobuf.ListValue", "google.protobuf.Any", "google.protobuf.FieldMask", "google.protobuf.StringValue", "google.protobuf.Int64Value", "google.protobuf.BoolValue", "google.protobuf.BytesValue"}

func wktShort(fq string) string { return fq[strings.LastIndex(fq, ".")+1:] }

func addImport(f *File, p string) {
	for _, i := range f.Imports {
		if i == p {
			return
		}
	}
	f.Imports = append(f.Imports, p)
}

func ForeignTypeCatalogue() []*Request {
	var out []*Request
	add := func(r *Request, tags ...string) {
		r.Tags = append([]string{"build", "foreign-type"}, tags...)
		out = append(out, r)
	}
	q := func(id, t string) string { return id + ".v1." + t }

	{ // (1) well-known types as RPC response / request / both, per verb: one service per position
		id := "bxwkt"
		f := &File{Messages: []*Message{M("Req", F("id", 1, "string"), F("page", 2, "int32", Query("page", false))), M("Resp", F("ok", 1, "bool"))}}
		for _, c := range []struct {
			svc   string
			verbs []string
		}{{"Out", []string{"POST", "GET", "DELETE"}}, {"In", []string{"POST", "PUT", "PATCH"}}, {"Both", []string{"POST"}}} {
			svc := &Service{Name: "Notes" + c.svc, BasePath: "/" + id + "/" + strings.ToLower(c.svc), HasConfig: true}
			for _, w := range wellKnownMsgs {
				addImport(f, wktPath(w))
				for vi, v := range c.verbs {
					if vi > 0 && !(w == "google.protobuf.Empty" || w == "google.protobuf.Timestamp" || w == "google.protobuf.Struct") {
						continue // every type with POST; the other verbs with three of them
					}
					name := strings.ToUpper(v[:1]) + strings.ToLower(v[1:]) + wktShort(w) + c.svc
					path := "/" + strings.ToLower(name)
					switch c.svc {
					case "Out":
						if v != "POST" {
							path += "/{id}"
						}
						svc.Methods = append(svc.Methods, RPC(name, q(id, "Req"), w, v, path))
					case "In":
						svc.Methods = append(svc.Methods, RPC(name, w, q(id, "Resp"), v, path))
					default:
						svc.Methods = append(svc.Methods, RPC(name, w, w, v, path))
					}
				}
			}
			f.Services = append(f.Services, svc)
		}
		add(OneFile(id, id+".v1", f), "well-known")
	}
	{ // the minimal published shape: rpc DeleteNote(DeleteNoteRequest) returns (google.protobuf.Empty), no HTTP config at all
		id := "bxempty"
		f := &File{Imports: []string{"google/protobuf/empty.proto"}, Messages: []*Message{M("DeleteNoteRequest", F("id", 1, "string"))},
			Services: []*Service{{Name: "NoteService", Methods: []*Method{{Name: "DeleteNote", In: q(id, "DeleteNoteRequest"), Out: "google.protobuf.Empty"},
				{Name: "Ping", In: "google.protobuf.Empty", Out: "google.protobuf.Empty"}}}}}
		add(OneFile(id, id+".v1", f), "well-known")
		// a local message with the short name of the foreign response type: an unqualified name compiles and means the wrong type
		id = "bxhomonym"
		f = &File{Imports: []string{"google/protobuf/empty.proto", "google/protobuf/timestamp.proto"},
			Messages: []*Message{M("Empty", F("why", 1, "string")), M("Timestamp", F("t", 1, "int64")), M("Req", F("id", 1, "string"))},
			Services: []*Service{Svc("S", "/"+id, RPC("Drop", q(id, "Req"), "google.protobuf.Empty", "POST", "/drop"), RPC("Local", q(id, "Req"), q(id, "Empty"), "POST", "/local"),
				RPC("When", q(id, "Req"), "google.protobuf.Timestamp", "GET", "/when/{id}"), RPC("LocalWhen", q(id, "Timestamp"), q(id, "Timestamp"), "POST", "/lwhen"),
				RPC("Send", "google.protobuf.Empty", q(id, "Empty"), "POST", "/send"))}}
		add(OneFile(id, id+".v1", f), "well-known")
	}
	{ // (2) well-known types as field types of a request / response, every cardinality (no annotation)
		id := "bxwktfields"
		var msgs []*Message
		var tops []string
		for i, w := range wellKnownMsgs {
			n := "Has" + wktShort(w)
			msgs = append(msgs, M(n, F("id", 1, "string"), F("one", 2, "", Msg(w)), F("maybe", 3, "", Msg(w), Opt()), F("many", 4, "", Msg(w), Rep()), F("by", 5, "", Msg(w), MapOf([]string{"string", "int32", "bool"}[i%3])),
				F("alt", 6, "", Msg(w), InOneof("c")), F("txt", 7, "string", InOneof("c"))).WithOneofs(&Oneof{Name: "c"}))
			tops = append(tops, n)
		}
		svc := &Service{Name: "Echo", BasePath: "/" + id, HasConfig: true}
		for _, t := range tops {
			svc.Methods = append(svc.Methods, RPC("Echo"+t, q(id, t), q(id, t), "POST", "/echo/"+t))
		}
		add(buildReq(id, nil, msgs, svc), "well-known")
	}

	// (3) an imported user package that is not generated in this run (shared common/v1)
	common := func(id string, generate bool) *File {
		pkg := id + "common.v1"
		return &File{Path: id + "common/common.proto", Package: pkg, GoPackage: "verifgen/" + id + "common;" + id + "common", Generate: generate,
			Enums:    []*Enum{E("Currency", "CURRENCY_UNSPECIFIED", "CURRENCY_EUR", "CURRENCY_USD")},
			Messages: []*Message{M("Empty"), M("Money", F("units", 1, "int64"), F("currency", 2, "", EnumT(pkg+".Currency"))), M("Page", F("size", 1, "int32"), F("token", 2, "string")).WithNested(M("Cursor", F("at", 1, "string"))),
				M("Status", F("code", 1, "int32"), F("message", 2, "string"))}}
	}
	apiFile := func(id string) *File {
		pkg, cp := id+".v1", id+"common.v1."
		return &File{Path: id + "/api.proto", Package: pkg, GoPackage: "verifgen/" + id + ";" + id, Generate: true, Imports: []string{id + "common/common.proto"},
			Messages: []*Message{M("GetReq", F("id", 1, "string"), F("page", 2, "int32", Query("page", false))),
				M("Invoice", F("id", 1, "string"), F("total", 2, "", Msg(cp+"Money")), F("tip", 3, "", Msg(cp+"Money"), Opt()), F("lines", 4, "", Msg(cp+"Money"), Rep()), F("by", 5, "", Msg(cp+"Money"), MapOf("string")),
					F("currency", 6, "", EnumT(cp+"Currency")), F("currencies", 7, "", EnumT(cp+"Currency"), Rep()), F("cursor", 8, "", Msg(cp+"Page.Cursor")),
					F("paid", 9, "", Msg(cp+"Money"), InOneof("settle")), F("note", 10, "string", InOneof("settle")), F("cur", 11, "", EnumT(cp+"Currency"), InOneof("settle"))).WithOneofs(&Oneof{Name: "settle"})},
			Services: []*Service{Svc("Billing", "/"+id,
				RPC("GetStatus", pkg+".GetReq", cp+"Status", "GET", "/status/{id}"), RPC("Drop", pkg+".GetReq", cp+"Empty", "DELETE", "/drop/{id}"),
				RPC("PutMoney", cp+"Money", pkg+".Invoice", "PUT", "/money"), RPC("EchoMoney", cp+"Money", cp+"Money", "POST", "/echo"),
				RPC("Next", cp+"Page", cp+"Page.Cursor", "POST", "/next"), RPC("EchoInvoice", pkg+".Invoice", pkg+".Invoice", "POST", "/invoice"),
				&Method{Name: "Bare", In: cp + "Empty", Out: cp + "Status"})}}
	}
	add(&Request{ID: "bximported", Files: []*File{common("bximported", false), apiFile("bximported")}}, "imported-package")
	// (4) the same with both packages generated in one run
	add(&Request{ID: "bxtwopkg", Files: []*File{common("bxtwopkg", true), apiFile("bxtwopkg")}}, "second-generated-package")
	{ // two generated packages with a service each, referring to each other's... (b imports a only: no import cycle)
		id := "bxtwosvc"
		a := common(id, true)
		a.Services = []*Service{Svc("Rates", "/rates", RPC("GetRate", a.Package+".Money", a.Package+".Money", "POST", "/rate"))}
		add(&Request{ID: id, Files: []*File{a, apiFile(id)}}, "second-generated-package")
	}
	return out
}
