package lib

// BuildCatalogue: one small request per expected reason for emitted code not to build / vet / load
// (C13), plus near misses that must build.  Every request is accepted by all five plugins.

func buildReq(id string, enums []*Enum, msgs []*Message, svcs ...*Service) *Request {
	f := &File{Enums: enums, Messages: msgs, Services: svcs}
	r := OneFile(id, id+".v1", f)
	r.Tags = []string{"build"}
	return r
}

func BuildCatalogue() []*Request {
	var out []*Request
	q := func(id, t string) string { return id + ".v1." + t }
	echo := func(id string, tops ...string) *Service {
		svc := &Service{Name: "Echo", BasePath: "/" + id, HasConfig: true}
		for _, t := range tops {
			svc.Methods = append(svc.Methods, RPC("Echo"+t, q(id, t), q(id, t), "POST", "/echo/"+t))
		}
		return svc
	}
	add := func(r *Request) { out = append(out, r) }

	// ---- feature annotation x placement ------------------------------------------------------
	add(buildReq("bi64oneof", nil, []*Message{
		M("A", F("id", 1, "string"), F("n", 2, "int64", I64("NUMBER"), InOneof("c")), F("t", 3, "string", InOneof("c"))).WithOneofs(&Oneof{Name: "c"})}, echo("bi64oneof", "A")))
	add(buildReq("btsoneof", nil, []*Message{
		M("A", F("id", 1, "string"), F("at", 2, "", Msg(Timestamp), TsFmt("UNIX_MILLIS"), InOneof("c")), F("t", 3, "string", InOneof("c"))).WithOneofs(&Oneof{Name: "c"})}, echo("btsoneof", "A")))
	add(buildReq("bbytesoneof", nil, []*Message{
		M("A", F("id", 1, "string"), F("raw", 2, "bytes", BytesEnc("HEX"), InOneof("c")), F("t", 3, "string", InOneof("c"))).WithOneofs(&Oneof{Name: "c"})}, echo("bbytesoneof", "A")))
	add(buildReq("bemptyoneof", nil, []*Message{
		M("Meta", F("k", 1, "string")),
		M("A", F("id", 1, "string"), F("m", 2, "", Msg(q("bemptyoneof", "Meta")), Empty("NULL"), InOneof("c")), F("t", 3, "string", InOneof("c"))).WithOneofs(&Oneof{Name: "c"})}, echo("bemptyoneof", "A")))
	// near misses that build
	add(buildReq("boptok", nil, []*Message{
		M("Meta", F("k", 1, "string")),
		M("A", F("at", 1, "", Msg(Timestamp), TsFmt("DATE"), Opt())),
		M("B", F("m", 1, "", Msg(q("boptok", "Meta")), Empty("OMIT"), Opt())),
		M("C", F("xs", 1, "int64", Rep(), I64("NUMBER")), F("u", 2, "fixed64", I64("NUMBER"))),
		M("D", F("type", 1, "string"), F("func", 2, "int32"), F("range", 3, "bool"), F("select", 4, "string", Opt())),
	}, echo("boptok", "A", "B", "C", "D")))

	// ---- two MarshalJSON-declaring features the conflict detection does not see ----------------
	add(buildReq("bflatoneof", nil, []*Message{
		M("Addr", F("street", 1, "string")), M("TextP", F("body", 1, "string")),
		M("A", F("id", 1, "string"), F("home", 2, "", Msg(q("bflatoneof", "Addr")), Flatten(true)),
			F("text", 3, "", Msg(q("bflatoneof", "TextP")), InOneof("payload"))).WithOneofs(&Oneof{Name: "payload", HasConfig: true, Discriminator: "kind"})}, echo("bflatoneof", "A")))
	add(buildReq("bflatempty", nil, []*Message{
		M("Addr", F("street", 1, "string")),
		M("A", F("id", 1, "string"), F("home", 2, "", Msg(q("bflatempty", "Addr")), Flatten(true), Empty("NULL")))}, echo("bflatempty", "A")))
	add(buildReq("bunwraptwo", nil, []*Message{
		M("Bar", F("t", 1, "int64")), M("BarList", F("bars", 1, "", Msg(q("bunwraptwo", "Bar")), Rep(), Unwrap())),
		M("A", F("series", 1, "", Msg(q("bunwraptwo", "BarList")), MapOf("string")), F("total", 2, "int64", I64("NUMBER")))}, echo("bunwraptwo", "A")))
	add(buildReq("brootunwrapi64", nil, []*Message{
		M("A", F("xs", 1, "int64", Rep(), Unwrap(), I64("NUMBER")))}, echo("brootunwrapi64", "A")))
	add(buildReq("btripple", nil, []*Message{
		M("A", F("n", 1, "int64", I64("NUMBER")), F("raw", 2, "bytes", BytesEnc("BASE64URL")), F("nick", 3, "string", Opt(), Nullable(true)))}, echo("btripple", "A")))

	// ---- unwrap containers -----------------------------------------------------------------------
	bars := func(id string) []*Message {
		return []*Message{M("Bar", F("t", 1, "int64"), F("sym", 2, "string")), M("BarList", F("bars", 1, "", Msg(q(id, "Bar")), Rep(), Unwrap()))}
	}
	add(buildReq("buwoneof", nil, append(bars("buwoneof"),
		M("A", F("series", 1, "", Msg(q("buwoneof", "BarList")), MapOf("string")), F("a", 2, "string", InOneof("c")), F("b", 3, "int32", InOneof("c"))).WithOneofs(&Oneof{Name: "c"})), echo("buwoneof", "A")))
	add(buildReq("buwintkey", nil, append(bars("buwintkey"),
		M("A", F("series", 1, "", Msg(q("buwintkey", "BarList")), MapOf("int32")), F("label", 2, "string"))), echo("buwintkey", "A")))
	add(buildReq("buwopt", nil, append(bars("buwopt"),
		M("A", F("series", 1, "", Msg(q("buwopt", "BarList")), MapOf("string")), F("label", 2, "string", Opt()), F("raw", 3, "bytes", Opt()), F("one", 4, "", Msg(q("buwopt", "Bar")), Opt()))), echo("buwopt", "A")))
	add(buildReq("buwts", nil, append(bars("buwts"),
		M("A", F("series", 1, "", Msg(q("buwts", "BarList")), MapOf("string")), F("at", 2, "", Msg(Timestamp)))), echo("buwts", "A")))
	add(buildReq("buwallkinds", []*Enum{E("Color", "COLOR_UNSPECIFIED", "COLOR_RED")}, append(bars("buwallkinds"),
		M("A", F("series", 1, "", Msg(q("buwallkinds", "BarList")), MapOf("string")), F("s", 2, "string"), F("b", 3, "bool"), F("i", 4, "sint32"), F("d", 5, "double"),
			F("raw", 6, "bytes"), F("c", 7, "", EnumT(q("buwallkinds", "Color"))), F("one", 8, "", Msg(q("buwallkinds", "Bar"))), F("many", 9, "", Msg(q("buwallkinds", "Bar")), Rep()),
			F("names", 10, "string", Rep()), F("plain", 11, "", Msg(q("buwallkinds", "Bar")), MapOf("int64")), F("counts", 12, "int32", MapOf("string")))), echo("buwallkinds", "A")))
	add(buildReq("buwmapunwrap", nil, []*Message{
		M("Bar", F("t", 1, "int64")), M("RootMap", F("by_sym", 1, "", Msg(q("buwmapunwrap", "Bar")), MapOf("string"), Unwrap())),
		M("A", F("series", 1, "", Msg(q("buwmapunwrap", "RootMap")), MapOf("string")), F("label", 2, "string"))}, echo("buwmapunwrap", "A")))
	add(buildReq("brootmapint", nil, []*Message{
		M("Bar", F("t", 1, "int64")), M("A", F("by_id", 1, "", Msg(q("brootmapint", "Bar")), MapOf("int32"), Unwrap())),
		M("B", F("counts", 1, "int64", MapOf("int32"), Unwrap()))}, echo("brootmapint", "A", "B")))

	// ---- bare type names of messages from other Go packages ------------------------------------------
	add(buildReq("bflatts", nil, []*Message{
		M("A", F("id", 1, "string"), F("at", 2, "", Msg(Timestamp), Flatten(true)))}, echo("bflatts", "A")))
	add(buildReq("boneofts", nil, []*Message{
		M("TextP", F("body", 1, "string")),
		M("A", F("id", 1, "string"), F("text", 2, "", Msg(q("boneofts", "TextP")), InOneof("payload")), F("at", 3, "", Msg(Timestamp), InOneof("payload"))).WithOneofs(&Oneof{Name: "payload", HasConfig: true, Discriminator: "kind"})}, echo("boneofts", "A")))

	// ---- duplicate literal keys -------------------------------------------------------------------------
	add(buildReq("boneofdup", nil, []*Message{
		M("TextP", F("body", 1, "string")), M("ImageP", F("url", 1, "string")),
		M("A", F("id", 1, "string"), F("text", 2, "", Msg(q("boneofdup", "TextP")), InOneof("payload"), OneofVal("image")), F("image", 3, "", Msg(q("boneofdup", "ImageP")), InOneof("payload"))).WithOneofs(&Oneof{Name: "payload", HasConfig: true, Discriminator: "kind"})}, echo("boneofdup", "A")))
	add(buildReq("benumdup", []*Enum{{Name: "St", Values: []*EnumValue{{Name: "ST_UNSPECIFIED", Number: 0}, {Name: "ST_ON", Number: 1, EnumValue: Str("ST_OFF")}, {Name: "ST_OFF", Number: 2}}}},
		[]*Message{M("A", F("st", 1, "", EnumT(q("benumdup", "St"))))}, echo("benumdup", "A")))
	add(buildReq("benumself", []*Enum{{Name: "St", Values: []*EnumValue{{Name: "ST_UNSPECIFIED", Number: 0}, {Name: "ST_ON", Number: 1, EnumValue: Str("ST_ON")}}}},
		[]*Message{M("A", F("st", 1, "", EnumT(q("benumself", "St"))))}, echo("benumself", "A")))

	// ---- identifiers derived by string conversion -----------------------------------------------------------
	{
		id := "bpathnames"
		var msgs []*Message
		svc := &Service{Name: "Names", BasePath: "/n", HasConfig: true}
		for i, n := range []string{"field_1", "a1b", "x__y", "user_id", "type"} {
			mn := "R" + string(rune('A'+i))
			m := M(mn, F(n, 1, "string"))
			msgs = append(msgs, m)
			svc.Methods = append(svc.Methods, RPC("Get"+mn, q(id, mn), q(id, "Resp"), "GET", "/"+mn+"/{"+n+"}"))
		}
		msgs = append(msgs, M("Resp", F("ok", 1, "bool")),
			M("Uniq", F("x", 1, "string", Opt()), F("x_x", 2, "string"), F("reset", 3, "string"), F("string", 4, "string"), F("get_foo", 5, "string"),
				F("foo", 6, "string"), F("descriptor", 7, "string"), F("marshal", 8, "int32"), F("proto_message", 9, "bool"),
				F("o_a", 10, "string", InOneof("sel")), F("o_b", 11, "int32", InOneof("sel")), F("_lead", 12, "string"), F("tail_", 13, "string"), F("HTTPCode", 14, "int32")).WithOneofs(&Oneof{Name: "sel"}))
		add(buildReq(id, nil, msgs, svc))
	}

	{ // a path identifier that is not a field but resolves to a method of the message: compiles, vet complains
		id := "bpathmeth"
		var msgs []*Message
		svc := &Service{Name: "Names", BasePath: "/n", HasConfig: true}
		for i, n := range []string{"string", "descriptor", "name2", "reset", "plain_name"} {
			mn := "R" + string(rune('A'+i))
			m := M(mn, F(n, 1, "string"))
			if n == "name2" {
				m = M(mn, F("name", 1, "string"), F("get_name", 2, "string")) // get_name -> GetName_ ; path {get_name} -> req.GetName (a method)
				n = "get_name"
				m.Fields[0].Query = &QueryCfg{Name: "name"}
			}
			msgs = append(msgs, m)
			svc.Methods = append(svc.Methods, RPC("Get"+mn, q(id, mn), q(id, "Resp"), "GET", "/"+mn+"/{"+n+"}"))
		}
		msgs = append(msgs, M("Resp", F("ok", 1, "bool")))
		add(buildReq(id, nil, msgs, svc))
	}
	// a file whose only unwrap code is a root unwrap of scalars
	add(buildReq("buwscalar", nil, []*Message{M("Strs", F("vals", 1, "string", Rep(), Unwrap())), M("Counts", F("by", 1, "int64", MapOf("string"), Unwrap()))}, echo("buwscalar", "Strs", "Counts")))

	// ---- client header helpers --------------------------------------------------------------------------------------
	hdrReq := func(id string, svcH, m1H, m2H []*Header) *Request {
		svc := &Service{Name: "Echo", BasePath: "/" + id, HasConfig: true, Headers: svcH}
		svc.Methods = []*Method{RPC("One", q(id, "Ping"), q(id, "Ping"), "POST", "/one").WithHeaders(m1H...), RPC("Two", q(id, "Ping"), q(id, "Ping"), "PUT", "/two").WithHeaders(m2H...)}
		return buildReq(id, nil, []*Message{M("Ping", F("msg", 1, "string"))}, svc)
	}
	H := func(n string) *Header { return &Header{Name: n, Type: "string"} }
	// one helper per helper NAME (service headers first, then method headers): all of these build
	add(hdrReq("bhdrtwo", nil, []*Header{H("X-Tenant")}, []*Header{H("X-Tenant")}))
	add(hdrReq("bhdralias", []*Header{H("X-Trace")}, []*Header{H("Trace")}, nil))
	// two DIFFERENT headers with one helper name: only the first gets a helper (a behaviour question, not a build failure)
	add(hdrReq("bhdrsamefn", []*Header{H("X-Api-Key"), H("Api-Key")}, []*Header{H("X-ApiKey"), H("X-Other")}, []*Header{H("X-Other"), H("Api-Key")}))
	add(hdrReq("bhdrcall", []*Header{H("X-CallTrace")}, []*Header{H("X-Trace")}, nil)) // WithEchoCallTrace twice (client option / call option)
	add(hdrReq("bhdrbuiltin", []*Header{H("Content-Type")}, nil, nil))
	add(hdrReq("bhdrident", nil, []*Header{H("X-Api.Key")}, nil))
	add(hdrReq("bhdrok", []*Header{H("X-API-Key"), H("x-lower-case")}, []*Header{H("X-Request-ID")}, []*Header{H("Accept-Language")}))

	// ---- package-level declarations --------------------------------------------------------------------------------
	{
		id := "bsamemethod"
		ms := []*Message{M("Ping", F("msg", 1, "string"))}
		add(buildReq(id, nil, ms, Svc("Alpha", "/a", RPC("Get", q(id, "Ping"), q(id, "Ping"), "POST", "/g")), Svc("Beta", "/b", RPC("Get", q(id, "Ping"), q(id, "Ping"), "POST", "/g"))))
		id = "bsvcmethod"
		add(buildReq(id, nil, []*Message{M("Msg", F("msg", 1, "string"))}, Svc("Ping", "/p", RPC("Ping", q(id, "Msg"), q(id, "Msg"), "POST", "/ping"))))
		id = "bnomethods"
		add(buildReq(id, nil, []*Message{M("Msg", F("msg", 1, "string"))}, &Service{Name: "Idle"}))
		id = "berrfield"
		add(buildReq(id, nil, []*Message{M("ApiError", F("error", 1, "string"), F("code", 2, "int32")), M("OkError", F("message", 1, "string")), M("Ping", F("msg", 1, "string"))}, echo(id, "Ping")))
		id = "bmsgclash"
		add(buildReq(id, nil, []*Message{M("EchoClient", F("msg", 1, "string")), M("Ping", F("msg", 1, "string"))}, echo(id, "Ping")))
		id = "bmsgclashsrv"
		add(buildReq(id, nil, []*Message{M("EchoServer", F("msg", 1, "string")), M("Ping", F("msg", 1, "string"))}, echo(id, "Ping")))
	}
	{ // two files with services in one Go package
		pkg := "btwofiles.v1"
		a := &File{Path: "btwofiles/a.proto", Package: pkg, GoPackage: "verifgen/btwofiles;btwofiles", Generate: true,
			Messages: []*Message{M("Ping", F("msg", 1, "string"))}, Services: []*Service{Svc("Alpha", "/a", RPC("GetA", pkg+".Ping", pkg+".Ping", "POST", "/g"))}}
		b := &File{Path: "btwofiles/b.proto", Package: pkg, GoPackage: "verifgen/btwofiles;btwofiles", Generate: true, Imports: []string{"btwofiles/a.proto"},
			Services: []*Service{Svc("Beta", "/b", RPC("GetB", pkg+".Ping", pkg+".Ping", "POST", "/g"))}}
		add(&Request{ID: "btwofiles", Files: []*File{a, b}, Tags: []string{"build"}})
	}
	{ // service-less file with int64 NUMBER on an optional field: go-http emits the encoder, go-client does not
		pkg := "bsvcless.v1"
		types := &File{Path: "bsvcless/types.proto", Package: pkg, GoPackage: "verifgen/bsvcless;bsvcless", Generate: true,
			Messages: []*Message{M("Nums", F("x", 1, "int64", Opt(), I64("NUMBER")), F("id", 2, "string"))}}
		api := &File{Path: "bsvcless/api.proto", Package: pkg, GoPackage: "verifgen/bsvcless;bsvcless", Generate: true, Imports: []string{"bsvcless/types.proto"},
			Messages: []*Message{M("Req", F("id", 1, "string"))}, Services: []*Service{Svc("S", "/s", RPC("Get", pkg+".Req", pkg+".Nums", "POST", "/g"))}}
		add(&Request{ID: "bsvcless", Files: []*File{types, api}, Tags: []string{"build"}})
	}

	// ---- client query emitter (GET/DELETE) -------------------------------------------------------------------------------
	{
		id := "bquery"
		pkg := id + ".v1"
		f := &File{Enums: []*Enum{E("Color", "COLOR_UNSPECIFIED", "COLOR_RED")}}
		f.Messages = []*Message{M("Resp", F("ok", 1, "bool")),
			M("Ok", F("s", 1, "string", Query("s", false)), F("b", 2, "bool", Query("b", false)), F("n", 3, "sint64", Query("n", true)), F("d", 4, "float", Query("d", false)))}
		svc := &Service{Name: "Q", BasePath: "/q", HasConfig: true}
		svc.Methods = append(svc.Methods, RPC("GetOk", pkg+".Ok", pkg+".Resp", "GET", "/ok"))
		mk := func(name string, fld *Field) {
			f.Messages = append(f.Messages, M(name, fld))
			svc.Methods = append(svc.Methods, RPC("Get"+name, pkg+"."+name, pkg+".Resp", "GET", "/"+name))
		}
		_ = mk
		f.Services = []*Service{svc}
		r := OneFile(id, pkg, f)
		r.Tags = []string{"build"}
		add(r)
		for _, c := range []struct {
			id  string
			fld *Field
		}{
			{"bqopt", F("v", 1, "string", Opt(), Query("v", false))},
			{"bqrep", F("v", 1, "int32", Rep(), Query("v", false))},
			{"bqenum", F("v", 1, "", EnumT("bqenum.v1.Color"), Query("v", false))},
			{"bqbytes", F("v", 1, "bytes", Query("v", false))},
			{"bqoptbool", F("v", 1, "bool", Opt(), Query("v", false))},
		} {
			p := c.id + ".v1"
			ff := &File{Enums: []*Enum{E("Color", "COLOR_UNSPECIFIED", "COLOR_RED")}, Messages: []*Message{M("Resp", F("ok", 1, "bool")), M("Req", c.fld)},
				Services: []*Service{Svc("Q", "/q", RPC("Get", p+".Req", p+".Resp", "GET", "/g"), RPC("Post", p+".Req", p+".Resp", "POST", "/p"))}}
			rr := OneFile(c.id, p, ff)
			rr.Tags = []string{"build"}
			add(rr)
		}
	}
	return out
}

// RandomBuildRequests: seeded random annotation x kind x cardinality x placement combinations
// (one small package each).  Placements the validators refuse are avoided where cheap; a request
// that is refused anyway is dropped by the check (outside C13's domain).
func RandomBuildRequests(rng interface{ Intn(int) int }, n int) []*Request {
	var out []*Request
	kinds := []string{"string", "int32", "int64", "uint64", "sfixed64", "bool", "double", "bytes", "enum", "inner", "ts"}
	for i := 0; i < n; i++ {
		id := "brnd" + string(rune('a'+i/26%26)) + string(rune('a'+i%26))
		if i >= 676 {
			id = id + "x" + string(rune('a'+i/676))
		}
		pkg := id + ".v1"
		msgs := []*Message{M("Inner", F("a", 1, "string"), F("n", 2, "int64"))}
		var tops []string
		nm := 1 + rng.Intn(3)
		for mi := 0; mi < nm; mi++ {
			name := "M" + string(rune('0'+mi))
			m := M(name)
			nf := 1 + rng.Intn(4)
			hasOneof := false
			for fi := 0; fi < nf; fi++ {
				k := kinds[rng.Intn(len(kinds))]
				f := F("f"+string(rune('0'+fi)), int32(fi+1), k)
				switch k {
				case "enum":
					f = F(f.Name, f.Number, "", EnumT(pkg+".Color"))
				case "inner":
					f = F(f.Name, f.Number, "", Msg(pkg+".Inner"))
				case "ts":
					f = F(f.Name, f.Number, "", Msg(Timestamp))
				}
				switch c := rng.Intn(10); {
				case c < 5:
				case c < 7:
					f.Card = "optional"
				case c < 8:
					f.Card = "repeated"
				case c < 9:
					f.Card = "map"
					f.MapKey = []string{"string", "int32"}[rng.Intn(2)]
				default:
					f.Oneof = "c"
					hasOneof = true
				}
				if rng.Intn(10) < 5 {
					switch {
					case f.Card == "map":
					case k == "int64" || k == "uint64" || k == "sfixed64":
						f.Int64Encoding = "NUMBER"
					case k == "bytes":
						f.BytesEncoding = []string{"HEX", "BASE64URL"}[rng.Intn(2)]
					case k == "ts":
						f.TimestampFormat = []string{"UNIX_SECONDS", "DATE"}[rng.Intn(2)]
					case k == "inner" && f.Card != "repeated":
						if f.Card == "singular" && f.Oneof == "" && rng.Intn(2) == 0 {
							f.Flatten = B(true)
							f.FlattenPrefix = Str("p" + string(rune('0'+fi)) + "_")
						} else {
							f.EmptyBehavior = []string{"NULL", "OMIT"}[rng.Intn(2)]
						}
					case f.Card == "optional" && k != "inner" && k != "ts":
						f.Nullable = B(true)
					}
				}
				m.Fields = append(m.Fields, f)
			}
			if hasOneof {
				m.Oneofs = []*Oneof{{Name: "c"}}
				var plain, members []*Field // members of a oneof are declared consecutively
				for _, f := range m.Fields {
					if f.Oneof != "" {
						members = append(members, f)
					} else {
						plain = append(plain, f)
					}
				}
				m.Fields = append(plain, members...)
			}
			msgs = append(msgs, m)
			tops = append(tops, name)
		}
		svc := &Service{Name: "Echo", BasePath: "/" + id, HasConfig: true}
		for _, t := range tops {
			svc.Methods = append(svc.Methods, RPC("Echo"+t, pkg+"."+t, pkg+"."+t, "POST", "/echo/"+t))
		}
		r := buildReq(id, []*Enum{E("Color", "COLOR_UNSPECIFIED", "COLOR_RED")}, msgs, svc)
		r.Tags = []string{"build", "random"}
		out = append(out, r)
	}
	return out
}
