package lib

// MockCatalogue: schemas generated with generate_mock=true (C20).  Recursive response types are
// included: the generator carries the set of message types being filled and leaves a field whose type
// is on that path unset (a message-valued map: empty).

func mockReq(id string, enums []*Enum, msgs []*Message, svcs ...*Service) *Request {
	r := buildReq(id, enums, msgs, svcs...)
	r.Params = map[string]string{"go-http": "generate_mock=true"}
	r.Tags = []string{"mock"}
	return r
}

func MockCatalogue() []*Request {
	var out []*Request
	add := func(r *Request) { out = append(out, r) }
	q := func(id, t string) string { return id + ".v1." + t }
	// one service S with RPC Get<T>(Req) returns (T) per listed response type
	svc := func(id string, outs ...string) *Service {
		s := &Service{Name: "S", BasePath: "/" + id, HasConfig: true}
		for _, t := range outs {
			s.Methods = append(s.Methods, RPC("Get"+t, q(id, "Req"), q(id, t), "POST", "/get/"+t))
		}
		return s
	}
	req := M("Req", F("id", 1, "string"))

	{ // inside Good: every kind the mock handles on the cardinality it handles, examples of every handled kind
		id := "mgood"
		add(mockReq(id, []*Enum{E("Color", "COLOR_UNSPECIFIED", "COLOR_RED")}, []*Message{req,
			M("Inner", F("label", 1, "string", Examples("alpha", "beta")), F("hits", 2, "int64"), F("deep", 3, "", Msg(q(id, "Leaf")))),
			M("Leaf", F("note", 1, "string"), F("on", 2, "bool", Examples("false"))),
			M("Resp", F("user_id", 1, "string"), F("title", 2, "string", Examples("first", "second", "")), F("count", 3, "int64", Examples("7", "-3", "+9000000000")),
				F("ok", 4, "bool", Examples("t", "0")), F("ratio", 5, "double", Examples("1.5", "2e3", "-0.25")), F("inner", 6, "", Msg(q(id, "Inner"))),
				F("maybe", 7, "", Msg(q(id, "Leaf")), Opt()), F("by_key", 8, "", Msg(q(id, "Inner")), MapOf("string")), F("attrs", 9, "string", MapOf("string")),
				F("counts", 10, "int64", MapOf("int32")), F("flags", 11, "double", MapOf("bool")), F("tags", 12, "", Msg(q(id, "Leaf")), Rep()),
				F("color", 13, "", EnumT(q(id, "Color"))), F("raw", 14, "bytes"), F("u", 15, "uint32"), F("names", 16, "uint32", Rep()), F("plain", 17, "double"),
				F("big", 18, "int64"), F("yes", 19, "bool"), F("by_id", 20, "", Msg(q(id, "Leaf")), MapOf("uint64"))),
		}, svc(id, "Resp", "Inner")))
	}
	{ // default generators chosen by field name
		id := "mdefaults"
		add(mockReq(id, nil, []*Message{req,
			M("Resp", F("user_id", 1, "string"), F("email", 2, "string"), F("full_name", 3, "string"), F("phone", 4, "string"), F("address", 5, "string"),
				F("site_url", 6, "string"), F("width", 7, "string"), F("title", 8, "string"), F("EMAIL_ADDRESS", 9, "string"), F("nickname_url", 10, "string"))}, svc(id, "Resp")))
	}
	one := func(id string, f *Field, extra ...*Message) {
		msgs := append([]*Message{req, M("Resp", F("title", 1, "string"), f)}, extra...)
		add(mockReq(id, []*Enum{E("Color", "COLOR_UNSPECIFIED", "COLOR_RED")}, msgs, svc(id, "Resp")))
	}
	one("mint32", F("n", 2, "int32"))
	one("mfloat", F("x", 2, "float"))
	one("mts", F("at", 2, "", Msg(Timestamp)))
	one("moptstr", F("nick", 2, "string", Opt()))
	one("moptint", F("n", 2, "int64", Opt()))
	one("mrepstr", F("names", 2, "string", Rep()))
	one("mrepbool", F("flags", 2, "bool", Rep()))
	one("mmapenum", F("m", 2, "", EnumT("mmapenum.v1.Color"), MapOf("string")))
	one("mmapbytes", F("m", 2, "bytes", MapOf("string")))
	one("mmapuint", F("m", 2, "uint32", MapOf("string")))
	one("mmapfloat", F("m", 2, "float", MapOf("int64")))
	{
		id := "moneof"
		add(mockReq(id, nil, []*Message{req, M("Resp", F("title", 1, "string"), F("a", 2, "string", InOneof("c")), F("b", 3, "uint32", InOneof("c"))).WithOneofs(&Oneof{Name: "c"})}, svc(id, "Resp")))
		id = "moneofmsg"
		add(mockReq(id, nil, []*Message{req, M("Leaf", F("note", 1, "string")),
			M("Resp", F("title", 1, "string"), F("a", 2, "", Msg(q(id, "Leaf")), InOneof("c")), F("b", 3, "uint32", InOneof("c"))).WithOneofs(&Oneof{Name: "c"})}, svc(id, "Resp")))
		id = "moneofskip" // a oneof whose members are all of kinds the mock skips: builds
		add(mockReq(id, nil, []*Message{req, M("Resp", F("title", 1, "string"), F("a", 2, "bytes", InOneof("c")), F("b", 3, "uint32", InOneof("c"))).WithOneofs(&Oneof{Name: "c"})}, svc(id, "Resp")))
	}
	{ // examples on a nested message: stored under Outer.Inner.f, looked up under Inner.f
		id := "mnested"
		add(mockReq(id, nil, []*Message{req,
			M("Resp", F("title", 1, "string"), F("inner", 2, "", Msg(q(id, "Resp.Inner")))).WithNested(M("Inner", F("label", 1, "string", Examples("n1", "n2")), F("hits", 2, "int64", Examples("5"))))}, svc(id, "Resp")))
	}
	{ // a top-level message with the short name of the nested one lends its examples
		id := "mhomonym"
		add(mockReq(id, nil, []*Message{req,
			M("Inner", F("label", 1, "string", Examples("top1", "top2"))),
			M("Resp", F("title", 1, "string"), F("inner", 2, "", Msg(q(id, "Resp.Inner")))).WithNested(M("Inner", F("label", 1, "string")))}, svc(id, "Resp")))
	}
	{ // unparsable examples fall back to the default
		id := "munparsable"
		add(mockReq(id, nil, []*Message{req,
			M("Resp", F("count", 1, "int64", Examples("12", "abc", "1_000", "9223372036854775808")), F("ok", 2, "bool", Examples("yes", "false")), F("ratio", 3, "double", Examples("1.5", "x", "1e999")),
				F("fine", 4, "double", Examples("Inf", "0x1p-2", ".5")))}, svc(id, "Resp")))
	}
	{ // examples on kinds / cardinalities the mock never assigns
		id := "mignored"
		add(mockReq(id, []*Enum{E("Color", "COLOR_UNSPECIFIED", "COLOR_RED")}, []*Message{req,
			M("Resp", F("title", 1, "string"), F("u", 2, "uint32", Examples("7")), F("c", 3, "", EnumT(q(id, "Color")), Examples("COLOR_RED")), F("raw", 4, "bytes", Examples("abc")),
				F("s", 5, "sint64", Examples("-4")), F("nums", 6, "uint32", Rep(), Examples("1", "2")), F("attrs", 7, "string", MapOf("string"), Examples("x")))}, svc(id, "Resp")))
	}
	{ // response type defined in another file of the package: its examples are not in the service file's table
		pkg := "mcross.v1"
		types := &File{Path: "mcross/types.proto", Package: pkg, GoPackage: "verifgen/mcross;mcross", Generate: true,
			Messages: []*Message{M("Resp", F("title", 1, "string", Examples("far1", "far2")), F("count", 2, "int64"))}}
		api := &File{Path: "mcross/api.proto", Package: pkg, GoPackage: "verifgen/mcross;mcross", Generate: true, Imports: []string{"mcross/types.proto"},
			Messages: []*Message{M("Req", F("id", 1, "string")), M("Local", F("title", 1, "string", Examples("near")))},
			Services: []*Service{Svc("S", "/mcross", RPC("GetResp", pkg+".Req", pkg+".Resp", "POST", "/get/Resp"), RPC("GetLocal", pkg+".Req", pkg+".Local", "POST", "/get/Local"))}}
		add(&Request{ID: "mcross", Files: []*File{types, api}, Tags: []string{"mock"}, Params: map[string]string{"go-http": "generate_mock=true"}})
	}
	{ // depth and several services in one file
		id := "mdeep"
		add(mockReq(id, nil, []*Message{req,
			M("L3", F("note", 1, "string", Examples("deep")), F("n", 2, "int64")),
			M("L2", F("l3", 1, "", Msg(q(id, "L3"))), F("by", 2, "", Msg(q(id, "L3")), MapOf("string")), F("ok", 3, "bool")),
			M("L1", F("l2", 1, "", Msg(q(id, "L2"))), F("m", 2, "", Msg(q(id, "L2")), MapOf("int32")), F("ratio", 3, "double", Examples("0.5"))),
			M("Resp", F("l1", 1, "", Msg(q(id, "L1"))), F("again", 2, "", Msg(q(id, "L1")), Opt()), F("title", 3, "string")),
			M("Empty"),
		}, svc(id, "Resp", "L2", "Empty"), &Service{Name: "T", BasePath: "/t" + id, HasConfig: true, Methods: []*Method{RPC("Other", q(id, "Req"), q(id, "L3"), "PUT", "/other")}}))
	}
	{ // recursive response types: through a singular / optional / repeated field and a map value
		id := "mrecself"
		add(mockReq(id, nil, []*Message{req,
			M("Node", F("v", 1, "string", Examples("n1", "n2")), F("next", 2, "", Msg(q(id, "Node"))), F("maybe", 3, "", Msg(q(id, "Node")), Opt()),
				F("kids", 4, "", Msg(q(id, "Node")), Rep()), F("by", 5, "", Msg(q(id, "Node")), MapOf("string")), F("n", 6, "int64")),
			M("Wrap", F("root", 1, "", Msg(q(id, "Node"))), F("title", 2, "string"), F("index", 3, "", Msg(q(id, "Node")), MapOf("int32")))}, svc(id, "Node", "Wrap")))
		id = "mrecmutual"
		add(mockReq(id, nil, []*Message{req,
			M("A", F("b", 1, "", Msg(q(id, "B"))), F("title", 2, "string")),
			M("B", F("a", 1, "", Msg(q(id, "A"))), F("n", 2, "int64", Examples("5", "6")), F("m", 3, "", Msg(q(id, "A")), MapOf("int32")), F("c", 4, "", Msg(q(id, "C")))),
			M("C", F("b", 1, "", Msg(q(id, "B"))), F("ok", 2, "bool"), F("self", 3, "", Msg(q(id, "C")), MapOf("string")), F("fresh", 4, "", Msg(q(id, "D")))),
			M("D", F("note", 1, "string"), F("again", 2, "", Msg(q(id, "D")), MapOf("bool")))}, svc(id, "A", "B", "C")))
		id = "mrecsibling" // the path is restored after a sub-message: the second field of the same type is filled again
		add(mockReq(id, nil, []*Message{req,
			M("Leaf", F("note", 1, "string"), F("up", 2, "", Msg(q(id, "Resp")))),
			M("Resp", F("left", 1, "", Msg(q(id, "Leaf"))), F("right", 2, "", Msg(q(id, "Leaf"))), F("by", 3, "", Msg(q(id, "Leaf")), MapOf("string")), F("ok", 4, "bool"))}, svc(id, "Resp")))
		id = "mreconeof" // a oneof member whose type is being filled is skipped (no expression mentions it); another message member is not
		add(mockReq(id, nil, []*Message{req,
			M("Expr", F("title", 1, "string"), F("neg", 2, "", Msg(q(id, "Expr")), InOneof("e")), F("lit", 3, "uint32", InOneof("e"))).WithOneofs(&Oneof{Name: "e"})}, svc(id, "Expr")))
		id = "mreconeofbad"
		add(mockReq(id, nil, []*Message{req, M("Leaf", F("note", 1, "string")),
			M("Expr", F("title", 1, "string"), F("neg", 2, "", Msg(q(id, "Expr")), InOneof("e")), F("leaf", 3, "", Msg(q(id, "Leaf")), InOneof("e"))).WithOneofs(&Oneof{Name: "e"})}, svc(id, "Expr")))
	}
	{ // examples at every position the mock fills: map-value message only, two levels deep, direct field AND map value
		id := "mexmapval"
		add(mockReq(id, nil, []*Message{req,
			M("Money", F("currency", 1, "string", Examples("EUR", "USD")), F("units", 2, "int64", Examples("5", "10"))),
			M("Invoice", F("title", 1, "string"), F("totals", 2, "", Msg(q(id, "Money")), MapOf("string")))}, svc(id, "Invoice")))
		id = "mexdeep"
		add(mockReq(id, nil, []*Message{req,
			M("L2", F("code", 1, "string", Examples("c1", "c2")), F("ok", 2, "bool", Examples("false"))),
			M("L1", F("l2", 1, "", Msg(q(id, "L2"))), F("label", 2, "string", Examples("one"))),
			M("Mid", F("by", 1, "", Msg(q(id, "L1")), MapOf("int32"))),
			M("Resp", F("l1", 1, "", Msg(q(id, "L1"))), F("mid", 2, "", Msg(q(id, "Mid"))), F("ratio", 3, "double", Examples("0.5", "2")))}, svc(id, "Resp", "Mid")))
		id = "mexboth" // the same message as a direct field and as a map value, in two RPCs
		add(mockReq(id, nil, []*Message{req,
			M("Tag", F("name", 1, "string", Examples("red", "green", "blue")), F("weight", 2, "double", Examples("1.5"))),
			M("Direct", F("tag", 1, "", Msg(q(id, "Tag"))), F("tags", 2, "", Msg(q(id, "Tag")), MapOf("string"))),
			M("OnlyMap", F("tags", 1, "", Msg(q(id, "Tag")), MapOf("bool")), F("n", 2, "int64", Examples("3"))),
			M("OnlyOptional", F("tag", 1, "", Msg(q(id, "Tag")), Opt()))}, svc(id, "Direct", "OnlyMap", "OnlyOptional")))
	}
	{ // several services in one file whose RPCs share response (and request) messages, and several RPCs of one
		// service answering with the same message: everything the mock file declares per RPC or per response
		// message lands in ONE package-level scope
		id := "msvcshare"
		tr := &Header{Name: "X-Trace-ID", Type: "string"}
		msgs := []*Message{req,
			M("Profile", F("bio", 1, "string", Examples("hello", "world")), F("verified", 2, "bool", Examples("false"))),
			M("User", F("user_id", 1, "string"), F("name", 2, "string", Examples("Ann", "Bob")), F("age", 3, "int64", Examples("30", "41")), F("profile", 4, "", Msg(q(id, "Profile")))),
			M("Status", F("ok", 1, "bool"), F("user", 2, "", Msg(q(id, "User"))), F("by", 3, "", Msg(q(id, "User")), MapOf("string")), F("ratio", 4, "double", Examples("0.5"))),
			M("Empty")}
		rpc := func(n, out string) *Method { return RPC(n, q(id, "Req"), q(id, out), "POST", "/"+n) }
		add(mockReq(id, nil, msgs,
			Svc("UserService", "/users", rpc("GetUser", "User"), rpc("FindUser", "User").WithHeaders(tr), rpc("PingUsers", "Empty")).WithHeaders(tr),
			Svc("AdminService", "/admin", rpc("LookupUser", "User").WithHeaders(tr), rpc("Stat", "Status"), rpc("PingAdmin", "Empty")).WithHeaders(tr),
			Svc("AuditService", "/audit", rpc("Audit", "Status"), rpc("LastUser", "User"), rpc("EchoReq", "Req"))))
		// the minimal shape: two services, one RPC each, one shared response
		id = "msvcshareone"
		add(mockReq(id, nil, []*Message{req, M("User", F("name", 1, "string", Examples("Ann")), F("n", 2, "int64"))},
			Svc("UserService", "/users", RPC("GetUser", q(id, "Req"), q(id, "User"), "POST", "/get")),
			Svc("AdminService", "/admin", RPC("LookupUser", q(id, "Req"), q(id, "User"), "POST", "/lookup"))))
		// shared response that is recursive, and a response nested in another message shared by two services
		id = "msvcsharerec"
		add(mockReq(id, nil, []*Message{req,
			M("Node", F("v", 1, "string", Examples("n1")), F("next", 2, "", Msg(q(id, "Node"))), F("by", 3, "", Msg(q(id, "Node")), MapOf("string"))),
			M("Outer", F("title", 1, "string")).WithNested(M("Inner", F("label", 1, "string"), F("hits", 2, "int64")))},
			Svc("A", "/a", RPC("WalkA", q(id, "Req"), q(id, "Node"), "POST", "/walk"), RPC("InnerA", q(id, "Req"), q(id, "Outer.Inner"), "POST", "/inner")),
			Svc("B", "/b", RPC("WalkB", q(id, "Req"), q(id, "Node"), "POST", "/walk"), RPC("InnerB", q(id, "Req"), q(id, "Outer.Inner"), "POST", "/inner"), RPC("OuterB", q(id, "Req"), q(id, "Outer"), "POST", "/outer"))))
	}
	return out
}

// RandomSharedMockRequests: seeded random files with 2..3 services whose RPCs draw their response type from
// a pool of three messages (so that services and RPCs share them).
func RandomSharedMockRequests(rng interface{ Intn(int) int }, n int) []*Request {
	var out []*Request
	for i := 0; i < n; i++ {
		id := "msrnd" + string(rune('a'+i/26%26)) + string(rune('a'+i%26))
		pkg := id + ".v1"
		msgs := []*Message{M("Req", F("id", 1, "string")),
			M("Leaf", F("note", 1, "string", Examples("leafy", "leafier")), F("n", 2, "int64")),
			M("User", F("name", 1, "string"), F("ok", 2, "bool", Examples("false")), F("leaf", 3, "", Msg(pkg+".Leaf"))),
			M("Page", F("title", 1, "string", Examples("t1", "t2")), F("users", 2, "", Msg(pkg+".User"), MapOf("string")), F("first", 3, "", Msg(pkg+".User")), F("ratio", 4, "double"))}
		pool := []string{"Leaf", "User", "Page"}
		var svcs []*Service
		ns := 2 + rng.Intn(2)
		for si := 0; si < ns; si++ {
			sn := "Svc" + string(rune('A'+si))
			sv := Svc(sn, "/"+sn)
			nm := 1 + rng.Intn(3)
			for mi := 0; mi < nm; mi++ {
				mn := []string{"Get", "Find", "Load"}[mi] + sn
				sv.Methods = append(sv.Methods, RPC(mn, pkg+".Req", pkg+"."+pool[rng.Intn(len(pool))], "POST", "/"+mn))
			}
			svcs = append(svcs, sv)
		}
		r := mockReq(id, nil, msgs, svcs...)
		r.Tags = []string{"mock", "random", "samekind"}
		out = append(out, r)
	}
	return out
}

// RandomMockRequests: seeded random response types (kind x cardinality x examples) for the mock.
func RandomMockRequests(rng interface{ Intn(int) int }, n int) []*Request {
	var out []*Request
	kinds := []string{"string", "string", "int64", "int64", "bool", "double", "int32", "float", "uint32", "bytes", "enum", "leaf", "leaf", "ts", "self"}
	pools := map[string][]string{
		"string": {"alpha", "beta", "", "x y"}, "int64": {"7", "-3", "abc", "+12", "9223372036854775807", "1_0"}, "int32": {"5"}, "bool": {"true", "0", "F", "yes"},
		"double": {"1.5", "2e3", "x", "-0.25", "Inf"}, "float": {"1.5"}, "uint32": {"7"}, "bytes": {"abc"}, "enum": {"COLOR_RED"},
	}
	for i := 0; i < n; i++ {
		id := "mrnd" + string(rune('a'+i/26%26)) + string(rune('a'+i%26))
		pkg := id + ".v1"
		leaf := M("Leaf", F("note", 1, "string"), F("n", 2, "int64"))
		if rng.Intn(2) == 0 {
			leaf.Fields[0].Examples = []string{"leafy", "leafier"}
		}
		if rng.Intn(3) == 0 { // mutual recursion Resp -> Leaf -> Resp
			leaf.Fields = append(leaf.Fields, F("back", 3, "", Msg(pkg+".Resp")))
		}
		resp := M("Resp")
		nf := 2 + rng.Intn(5)
		hasOneof := false
		for fi := 0; fi < nf; fi++ {
			k := kinds[rng.Intn(len(kinds))]
			f := F("f"+string(rune('0'+fi)), int32(fi+1), k)
			switch k {
			case "enum":
				f = F(f.Name, f.Number, "", EnumT(pkg+".Color"))
			case "leaf":
				f = F(f.Name, f.Number, "", Msg(pkg+".Leaf"))
			case "ts":
				f = F(f.Name, f.Number, "", Msg(Timestamp))
			case "self":
				f = F(f.Name, f.Number, "", Msg(pkg+".Resp"))
			}
			switch c := rng.Intn(20); {
			case c < 13:
			case c < 15:
				f.Card = "optional"
			case c < 17:
				f.Card = "repeated"
			case c < 19:
				f.Card = "map"
				f.MapKey = []string{"string", "int32", "bool"}[rng.Intn(3)]
			default:
				f.Oneof = "c"
				hasOneof = true
			}
			if p := pools[k]; p != nil && rng.Intn(20) < 7 {
				ne := 1 + rng.Intn(3)
				for e := 0; e < ne; e++ {
					f.Examples = append(f.Examples, p[rng.Intn(len(p))])
				}
			}
			resp.Fields = append(resp.Fields, f)
		}
		if hasOneof {
			resp.Oneofs = []*Oneof{{Name: "c"}}
			var plain, members []*Field
			for _, f := range resp.Fields {
				if f.Oneof != "" {
					members = append(members, f)
				} else {
					plain = append(plain, f)
				}
			}
			resp.Fields = append(plain, members...)
		}
		svc := &Service{Name: "S", BasePath: "/" + id, HasConfig: true, Methods: []*Method{
			RPC("GetResp", pkg+".Req", pkg+".Resp", "POST", "/get/Resp"), RPC("GetLeaf", pkg+".Req", pkg+".Leaf", "POST", "/get/Leaf")}}
		r := mockReq(id, []*Enum{E("Color", "COLOR_UNSPECIFIED", "COLOR_RED")}, []*Message{M("Req", F("id", 1, "string")), leaf, resp}, svc)
		r.Tags = []string{"mock", "random"}
		out = append(out, r)
	}
	return out
}
