package lib

import "strings"

// MockCatalogue: schemas generated with generate_mock=true (C20).  Recursive response types are
// included: the generator carries the set of message types being filled and leaves a field whose type
// is on that path unset (a message-valued map: empty).

func mockReq(id string, enums []*Enum, msgs []*Message, svcs ...*Service) *Request {
	r := buildReq(id, enums, msgs, svcs...)
	r.Params = map[string]string{"go-http": "generate_mock=true"}
	r.Tags = []string{"mock"}
	return r
}

func MockCatalogue() []*Request {
	var out []*Request
	add := func(r *Request) { out = append(out, r) }
	q := func(id, t string) string { return id + ".v1." + t }
	// one service S with RPC Get<T>(Req) returns (T) per listed response type
	svc := func(id string, outs ...string) *Service {
		s := &Service{Name: "S", BasePath: "/" + id, HasConfig: true}
		for _, t := range outs {
			s.Methods = append(s.Methods, RPC("Get"+t, q(id, "Req"), q(id, t), "POST", "/get/"+t))
		}
		return s
	}
	req := M("Req", F("id", 1, "string"))

	{ // inside Good: every kind the mock handles on the cardinality it handles, examples of every handled kind
		id := "mgood"
		add(mockReq(id, []*Enum{E("Color", "COLOR_UNSPECIFIED", "COLOR_RED")}, []*Message{req,
			M("Inner", F("label", 1, "string", Examples("alpha", "beta")), F("hits", 2, "int64"), F("deep", 3, "", Msg(q(id, "Leaf")))),
			M("Leaf", F("note", 1, "string"), F("on", 2, "bool", Examples("false"))),
			M("Resp", F("user_id", 1, "string"), F("title", 2, "string", Examples("first", "second", "")), F("count", 3, "int64", Examples("7", "-3", "+9000000000")),
				F("ok", 4, "bool", Examples("t", "0")), F("ratio", 5, "double", Examples("1.5", "2e3", "-0.25")), F("inner", 6, "", Msg(q(id, "Inner"))),
				F("maybe", 7, "", Msg(q(id, "Leaf")), Opt()), F("by_key", 8, "", Msg(q(id, "Inner")), MapOf("string")), F("attrs", 9, "string", MapOf("string")),
				F("counts", 10, "int64", MapOf("int32")), F("flags", 11, "double", MapOf("bool")), F("tags", 12, "", Msg(q(id, "Leaf")), Rep()),
				F("color", 13, "", EnumT(q(id, "Color"))), F("raw", 14, "bytes"), F("u", 15, "uint32"), F("names", 16, "uint32", Rep()), F("plain", 17, "double"),
				F("big", 18, "int64"), F("yes", 19, "bool"), F("by_id", 20, "", Msg(q(id, "Leaf")), MapOf("uint64"))),
		}, svc(id, "Resp", "Inner")))
	}
	{ // default generators chosen by field name
		id := "mdefaults"
		add(mockReq(id, nil, []*Message{req,
			M("Resp", F("user_id", 1, "string"), F("email", 2, "string"), F("full_name", 3, "string"), F("phone", 4, "string"), F("address", 5, "string"),
				F("site_url", 6, "string"), F("width", 7, "string"), F("title", 8, "string"), F("EMAIL_ADDRESS", 9, "string"), F("nickname_url", 10, "string"))}, svc(id, "Resp")))
	}
	one := func(id string, f *Field, extra ...*Message) {
		msgs := append([]*Message{req, M("Resp", F("title", 1, "string"), f)}, extra...)
		add(mockReq(id, []*Enum{E("Color", "COLOR_UNSPECIFIED", "COLOR_RED")}, msgs, svc(id, "Resp")))
	}
	one("mint32", F("n", 2, "int32"))
	one("mfloat", F("x", 2, "float"))
	one("mts", F("at", 2, "", Msg(Timestamp)))
	one("moptstr", F("nick", 2, "string", Opt()))
	one("moptint", F("n", 2, "int64", Opt()))
	one("mrepstr", F("names", 2, "string", Rep()))
	one("mrepbool", F("flags", 2, "bool", Rep()))
	one("mmapenum", F("m", 2, "", EnumT("mmapenum.v1.Color"), MapOf("string")))
	one("mmapbytes", F("m", 2, "bytes", MapOf("string")))
	one("mmapuint", F("m", 2, "uint32", MapOf("string")))
	one("mmapfloat", F("m", 2, "float", MapOf("int64")))
	{
		id := "moneof"
		add(mockReq(id, nil, []*Message{req, M("Resp", F("title", 1, "string"), F("a", 2, "string", InOneof("c")), F("b", 3, "uint32", InOneof("c"))).WithOneofs(&Oneof{Name: "c"})}, svc(id, "Resp")))
		id = "moneofmsg"
		add(mockReq(id, nil, []*Message{req, M("Leaf", F("note", 1, "string")),
			M("Resp", F("title", 1, "string"), F("a", 2, "", Msg(q(id, "Leaf")), InOneof("c")), F("b", 3, "uint32", InOneof("c"))).WithOneofs(&Oneof{Name: "c"})}, svc(id, "Resp")))
		id = "moneofskip" // a oneof whose members are all of kinds the mock skips: builds
		add(mockReq(id, nil, []*Message{req, M("Resp", F("title", 1, "string"), F("a", 2, "bytes", InOneof("c")), F("b", 3, "uint32", InOneof("c"))).WithOneofs(&Oneof{Name: "c"})}, svc(id, "Resp")))
	}
	{ // examples on a nested message: stored under Outer.Inner.f, looked up under Inner.f
		id := "mnested"
		add(mockReq(id, nil, []*Message{req,
			M("Resp", F("title", 1, "string"), F("inner", 2, "", Msg(q(id, "Resp.Inner")))).WithNested(M("Inner", F("label", 1, "string", Examples("n1", "n2")), F("hits", 2, "int64", Examples("5"))))}, svc(id, "Resp")))
	}
	{ // a top-level message with the short name of the nested one lends its examples
		id := "mhomonym"
		add(mockReq(id, nil, []*Message{req,
			M("Inner", F("label", 1, "string", Examples("top1", "top2"))),
			M("Resp", F("title", 1, "string"), F("inner", 2, "", Msg(q(id, "Resp.Inner")))).WithNested(M("Inner", F("label", 1, "string")))}, svc(id, "Resp")))
	}
	{ // unparsable examples fall back to the default
		id := "munparsable"
		add(mockReq(id, nil, []*Message{req,
			M("Resp", F("count", 1, "int64", Examples("12", "abc", "1_000", "9223372036854775808")), F("ok", 2, "bool", Examples("yes", "false")), F("ratio", 3, "double", Examples("1.5", "x", "1e999")),
				F("fine", 4, "double", Examples("Inf", "0x1p-2", ".5")))}, svc(id, "Resp")))
	}
	{ // examples on kinds / cardinalities the mock never assigns
		id := "mignored"
		add(mockReq(id, []*Enum{E("Color", "COLOR_UNSPECIFIED", "COLOR_RED")}, []*Message{req,
			M("Resp", F("title", 1, "string"), F("u", 2, "uint32", Examples("7")), F("c", 3, "", EnumT(q(id, "Color")), Examples("COLOR_RED")), F("raw", 4, "bytes", Examples("abc")),
				F("s", 5, "sint64", Examples("-4")), F("nums", 6, "uint32", Rep(), Examples("1", "2")), F("attrs", 7, "string", MapOf("string"), Examples("x")))}, svc(id, "Resp")))
	}
	{ // response type defined in another file of the package: its examples are not in the service file's table
		pkg := "mcross.v1"
		types := &File{Path: "mcross/types.proto", Package: pkg, GoPackage: "verifgen/mcross;mcross", Generate: true,
			Messages: []*Message{M("Resp", F("title", 1, "string", Examples("far1", "far2")), F("count", 2, "int64"))}}
		api := &File{Path: "mcross/api.proto", Package: pkg, GoPackage: "verifgen/mcross;mcross", Generate: true, Imports: []string{"mcross/types.proto"},
			Messages: []*Message{M("Req", F("id", 1, "string")), M("Local", F("title", 1, "string", Examples("near")))},
			Services: []*Service{Svc("S", "/mcross", RPC("GetResp", pkg+".Req", pkg+".Resp", "POST", "/get/Resp"), RPC("GetLocal", pkg+".Req", pkg+".Local", "POST", "/get/Local"))}}
		add(&Request{ID: "mcross", Files: []*File{types, api}, Tags: []string{"mock"}, Params: map[string]string{"go-http": "generate_mock=true"}})
	}
	{ // depth and several services in one file
		id := "mdeep"
		add(mockReq(id, nil, []*Message{req,
			M("L3", F("note", 1, "string", Examples("deep")), F("n", 2, "int64")),
			M("L2", F("l3", 1, "", Msg(q(id, "L3"))), F("by", 2, "", Msg(q(id, "L3")), MapOf("string")), F("ok", 3, "bool")),
			M("L1", F("l2", 1, "", Msg(q(id, "L2"))), F("m", 2, "", Msg(q(id, "L2")), MapOf("int32")), F("ratio", 3, "double", Examples("0.5"))),
			M("Resp", F("l1", 1, "", Msg(q(id, "L1"))), F("again", 2, "", Msg(q(id, "L1")), Opt()), F("title", 3, "string")),
			M("Empty"),
		}, svc(id, "Resp", "L2", "Empty"), &Service{Name: "T", BasePath: "/t" + id, HasConfig: true, Methods: []*Method{RPC("Other", q(id, "Req"), q(id, "L3"), "PUT", "/other")}}))
	}
	{ // recursive response types: through a singular / optional / repeated field and a map value
		id := "mrecself"
		add(mockReq(id, nil, []*Message{req,
			M("Node", F("v", 1, "string", Examples("n1", "n2")), F("next", 2, "", Msg(q(id, "Node"))), F("maybe", 3, "", Msg(q(id, "Node")), Opt()),
				F("kids", 4, "", Msg(q(id, "Node")), Rep()), F("by", 5, "", Msg(q(id, "Node")), MapOf("string")), F("n", 6, "int64")),
			M("Wrap", F("root", 1, "", Msg(q(id, "Node"))), F("title", 2, "string"), F("index", 3, "", Msg(q(id, "Node")), MapOf("int32")))}, svc(id, "Node", "Wrap")))
		id = "mrecmutual"
		add(mockReq(id, nil, []*Message{req,
			M("A", F("b", 1, "", Msg(q(id, "B"))), F("title", 2, "string")),
			M("B", F("a", 1, "", Msg(q(id, "A"))), F("n", 2, "int64", Examples("5", "6")), F("m", 3, "", Msg(q(id, "A")), MapOf("int32")), F("c", 4, "", Msg(q(id, "C")))),
			M("C", F("b", 1, "", Msg(q(id, "B"))), F("ok", 2, "bool"), F("self", 3, "", Msg(q(id, "C")), MapOf("string")), F("fresh", 4, "", Msg(q(id, "D")))),
			M("D", F("note", 1, "string"), F("again", 2, "", Msg(q(id, "D")), MapOf("bool")))}, svc(id, "A", "B", "C")))
		id = "mrecsibling" // the path is restored after a sub-message: the second field of the same type is filled again
		add(mockReq(id, nil, []*Message{req,
			M("Leaf", F("note", 1, "string"), F("up", 2, "", Msg(q(id, "Resp")))),
			M("Resp", F("left", 1, "", Msg(q(id, "Leaf"))), F("right", 2, "", Msg(q(id, "Leaf"))), F("by", 3, "", Msg(q(id, "Leaf")), MapOf("string")), F("ok", 4, "bool"))}, svc(id, "Resp")))
		id = "mreconeof" // a oneof member whose type is being filled is skipped (no expression mentions it); another message member is not
		add(mockReq(id, nil, []*Message{req,
			M("Expr", F("title", 1, "string"), F("neg", 2, "", Msg(q(id, "Expr")), InOneof("e")), F("lit", 3, "uint32", InOneof("e"))).WithOneofs(&Oneof{Name: "e"})}, svc(id, "Expr")))
		id = "mreconeofbad"
		add(mockReq(id, nil, []*Message{req, M("Leaf", F("note", 1, "string")),
			M("Expr", F("title", 1, "string"), F("neg", 2, "", Msg(q(id, "Expr")), InOneof("e")), F("leaf", 3, "", Msg(q(id, "Leaf")), InOneof("e"))).WithOneofs(&Oneof{Name: "e"})}, svc(id, "Expr")))
	}
	{ // examples at every position the mock fills: map-value message only, two levels deep, direct field AND map value
		id := "mexmapval"
		add(mockReq(id, nil, []*Message{req,
			M("Money", F("currency", 1, "string", Examples("EUR", "USD")), F("units", 2, "int64", Examples("5", "10"))),
			M("Invoice", F("title", 1, "string"), F("totals", 2, "", Msg(q(id, "Money")), MapOf("string")))}, svc(id, "Invoice")))
		id = "mexdeep"
		add(mockReq(id, nil, []*Message{req,
			M("L2", F("code", 1, "string", Examples("c1", "c2")), F("ok", 2, "bool", Examples("false"))),
			M("L1", F("l2", 1, "", Msg(q(id, "L2"))), F("label", 2, "string", Examples("one"))),
			M("Mid", F("by", 1, "", Msg(q(id, "L1")), MapOf("int32"))),
			M("Resp", F("l1", 1, "", Msg(q(id, "L1"))), F("mid", 2, "", Msg(q(id, "Mid"))), F("ratio", 3, "double", Examples("0.5", "2")))}, svc(id, "Resp", "Mid")))
		id = "mexboth" // the same message as a direct field and as a map value, in two RPCs
		add(mockReq(id, nil, []*Message{req,
			M("Tag", F("name", 1, "string", Examples("red", "green", "blue")), F("weight", 2, "double", Examples("1.5"))),
			M("Direct", F("tag", 1, "", Msg(q(id, "Tag"))), F("tags", 2, "", Msg(q(id, "Tag")), MapOf("string"))),
			M("OnlyMap", F("tags", 1, "", Msg(q(id, "Tag")), MapOf("bool")), F("n", 2, "int64", Examples("3"))),
			M("OnlyOptional", F("tag", 1, "", Msg(q(id, "Tag")), Opt()))}, svc(id, "Direct", "OnlyMap", "OnlyOptional")))
	}
	{ // several services in one file whose RPCs share response (and request) messages, and several RPCs of one
		// service answering with the same message: everything the mock file declares per RPC or per response
		// message lands in ONE package-level scope
		id := "msvcshare"
		tr := &Header{Name: "X-Trace-ID", Type: "string"}
		msgs := []*Message{req,
			M("Profile", F("bio", 1, "string", Examples("hello", "world")), F("verified", 2, "bool", Examples("false"))),
			M("User", F("user_id", 1, "string"), F("name", 2, "string", Examples("Ann", "Bob")), F("age", 3, "int64", Examples("30", "41")), F("profile", 4, "", Msg(q(id, "Profile")))),
			M("Status", F("ok", 1, "bool"), F("user", 2, "", Msg(q(id, "User"))), F("by", 3, "", Msg(q(id, "User")), MapOf("string")), F("ratio", 4, "double", Examples("0.5"))),
			M("Empty")}
		rpc := func(n, out string) *Method { return RPC(n, q(id, "Req"), q(id, out), "POST", "/"+n) }
		add(mockReq(id, nil, msgs,
			Svc("UserService", "/users", rpc("GetUser", "User"), rpc("FindUser", "User").WithHeaders(tr), rpc("PingUsers", "Empty")).WithHeaders(tr),
			Svc("AdminService", "/admin", rpc("LookupUser", "User").WithHeaders(tr), rpc("Stat", "Status"), rpc("PingAdmin", "Empty")).WithHeaders(tr),
			Svc("AuditService", "/audit", rpc("Audit", "Status"), rpc("LastUser", "User"), rpc("EchoReq", "Req"))))
		// the minimal shape: two services, one RPC each, one shared response
		id = "msvcshareone"
		add(mockReq(id, nil, []*Message{req, M("User", F("name", 1, "string", Examples("Ann")), F("n", 2, "int64"))},
			Svc("UserService", "/users", RPC("GetUser", q(id, "Req"), q(id, "User"), "POST", "/get")),
			Svc("AdminService", "/admin", RPC("LookupUser", q(id, "Req"), q(id, "User"), "POST", "/lookup"))))
		// shared response that is recursive, and a response nested in another message shared by two services
		id = "msvcsharerec"
		add(mockReq(id, nil, []*Message{req,
			M("Node", F("v", 1, "string", Examples("n1")), F("next", 2, "", Msg(q(id, "Node"))), F("by", 3, "", Msg(q(id, "Node")), MapOf("string"))),
			M("Outer", F("title", 1, "string")).WithNested(M("Inner", F("label", 1, "string"), F("hits", 2, "int64")))},
			Svc("A", "/a", RPC("WalkA", q(id, "Req"), q(id, "Node"), "POST", "/walk"), RPC("InnerA", q(id, "Req"), q(id, "Outer.Inner"), "POST", "/inner")),
			Svc("B", "/b", RPC("WalkB", q(id, "Req"), q(id, "Node"), "POST", "/walk"), RPC("InnerB", q(id, "Req"), q(id, "Outer.Inner"), "POST", "/inner"), RPC("OuterB", q(id, "Req"), q(id, "Outer"), "POST", "/outer"))))
	}
	out = append(out, MockRulesCatalogue()...)
	out = append(out, MockHostileExamples()...)
	return out
}

// MockHostileExamples: the mock file prints every example text into a Go string literal of the fieldExamples
// table.  Texts that keep the literal parseable: printf verbs, back quotes, single quotes, template and comment
// markers (the value has to come back unchanged); texts with a backslash followed by a Go escape character
// (the literal is interpreted: `R&D\test` comes back with a TAB — known finding z3:mock-example-go-escape);
// texts that make the source unparsable are refused at generation (one request each).
func MockHostileExamples() []*Request {
	var out []*Request
	q := func(id, t string) string { return id + ".v1." + t }
	mk := func(id string, resp *Message) *Request {
		r := mockReq(id, nil, []*Message{M("Req", F("id", 1, "string")), resp},
			&Service{Name: "S", BasePath: "/" + id, HasConfig: true, Methods: []*Method{RPC("GetResp", q(id, "Req"), q(id, "Resp"), "POST", "/get")}})
		r.Tags = append(r.Tags, "hostile-text", "examples")
		return r
	}
	plain := M("Resp", F("title", 1, "string")) // (one example per field: the check sees the value SET of 64 calls)
	i := 0
	for _, t := range buildTexts() {
		if strings.Contains(t, `\`) {
			continue
		}
		plain.Fields = append(plain.Fields, F("f"+strings.ToLower(hostileIdent(i)), int32(i+2), "string", Examples(t)))
		i++
	}
	plain.Fields = append(plain.Fields, F("n", 100, "int64", Examples("%d", "7")), F("ok", 101, "bool", Examples("%t", "false")), F("ratio", 102, "double", Examples("%f", "0.5")))
	out = append(out, mk("mexhostile", plain))
	esc := M("Resp")
	for k, t := range []string{`R&D\test`, `back\\slash`, `new\nline`, `\u0041`, `tab\there`, `q\"uote`, `\x41\101`} {
		esc.Fields = append(esc.Fields, F("f"+string(rune('a'+k)), int32(k+1), "string", Examples(t)))
	}
	esc.Fields = append(esc.Fields, F("plain", 50, "string", Examples("no escape", "é")), F("n", 51, "int64", Examples(`\x37`, "8")))
	out = append(out, mk("mexescape", esc))
	for k, t := range quoteTexts {
		out = append(out, mk("mexquote"+string(rune('a'+k)), M("Resp", F("title", 1, "string", Examples(t)))))
	}
	return out
}

// mockMultiByte: example texts whose byte length, UTF-16 length and character count all differ.
var mockMultiByte = []string{"Zürich", "Málaga", "日本", "日本語", "😀", "👍🏽", "é", "naïve café", "Ω", " ", "ß", "İ", "\u200b", "e\u0301"}

// MockRulesCatalogue: example values x buf.validate rules on the SAME response field.  The property says
// a field that declares examples takes one of them; the rules describe what the API accepts, and the mock
// generator does not read them.  A generator that starts to (clamping, filtering, rounding into range)
// has to keep "one of the examples" for every example that satisfies the rule — in particular for
// examples that sit exactly ON a limit when the limit is counted in characters (protovalidate, OpenAPI
// maxLength) and the value is measured in bytes or UTF-16 units.
func MockRulesCatalogue() []*Request {
	var out []*Request
	add := func(r *Request) { r.Tags = append(r.Tags, "examples-x-rules"); out = append(out, r) }
	q := func(id, t string) string { return id + ".v1." + t }
	svc := func(id string, outs ...string) *Service {
		s := &Service{Name: "S", BasePath: "/" + id, HasConfig: true}
		for _, t := range outs {
			s.Methods = append(s.Methods, RPC("Get"+t, q(id, "Req"), q(id, t), "POST", "/get/"+t))
		}
		return s
	}
	req := func() *Message { return M("Req", F("id", 1, "string")) }
	chars := func(s string) uint64 { return uint64(len([]rune(s))) }
	num := func(s string) *string { return &s }

	{ // string length rules, examples exactly on the limit (in characters): one field per text and rule
		id := "mexlen"
		atMax, atMin, atLen, under, both := M("AtMax"), M("AtMin"), M("AtLen"), M("UnderMax"), M("MinMax")
		for i, t := range mockMultiByte {
			n := int32(i + 1)
			name := "f" + string(rune('a'+i))
			atMax.Fields = append(atMax.Fields, F(name, n, "string", Examples(t), WithRules(&Rules{MaxLen: U(chars(t))})))
			atMin.Fields = append(atMin.Fields, F(name, n, "string", Examples(t), WithRules(&Rules{MinLen: U(chars(t))})))
			atLen.Fields = append(atLen.Fields, F(name, n, "string", Examples(t), WithRules(&Rules{Len: U(chars(t))})))
			under.Fields = append(under.Fields, F(name, n, "string", Examples(t, "x"), WithRules(&Rules{MaxLen: U(chars(t) + 1)})))
			both.Fields = append(both.Fields, F(name, n, "string", Examples(t), WithRules(&Rules{MinLen: U(chars(t)), MaxLen: U(chars(t))})))
		}
		add(mockReq(id, nil, []*Message{req(), atMax, atMin, atLen, under, both}, svc(id, "AtMax", "AtMin", "AtLen", "UnderMax", "MinMax")))
	}
	{ // the shapes of the published examples: short, tightly limited fields with several examples, ASCII ones on the
		// limit, and fields with a limit but no examples (default generators)
		id := "mexcity"
		add(mockReq(id, nil, []*Message{req(),
			M("City", F("city", 1, "string", Examples("Zürich", "Málaga", "Lisbon"), WithRules(&Rules{MaxLen: U(6)})),
				F("country", 2, "string", Examples("日本"), WithRules(&Rules{MaxLen: U(2)})),
				F("currency", 3, "string", Examples("EUR", "USD", "¥"), WithRules(&Rules{MinLen: U(1), MaxLen: U(3)})),
				F("flag", 4, "string", Examples("🇨🇭"), WithRules(&Rules{MaxLen: U(2)})),
				F("ascii", 5, "string", Examples("abcdef", "abc", ""), WithRules(&Rules{MaxLen: U(6)})),
				F("label", 6, "string", WithRules(&Rules{MaxLen: U(40)})),
				F("user_name", 7, "string", WithRules(&Rules{MinLen: U(2), MaxLen: U(64)})),
				F("zero", 8, "string", Examples("anything"), WithRules(&Rules{MaxLen: U(0)})))}, svc(id, "City")))
	}
	{ // examples that do NOT satisfy the rule of their field (an inconsistent definition: still "one of the examples")
		id := "mexoutside"
		add(mockReq(id, nil, []*Message{req(),
			M("Resp", F("long", 1, "string", Examples("far too long", "ok"), WithRules(&Rules{MaxLen: U(3)})),
				F("short", 2, "string", Examples("a", "abcd"), WithRules(&Rules{MinLen: U(3)})),
				F("exact", 3, "string", Examples("ab", "abc"), WithRules(&Rules{Len: U(3)})),
				F("low", 4, "int64", Examples("5", "500", "-7"), WithRules(&Rules{NumGte: num("10"), NumLte: num("100")})),
				F("open", 5, "int64", Examples("10", "100", "11"), WithRules(&Rules{NumGt: num("10"), NumLt: num("100")})),
				F("ratio", 6, "double", Examples("0.5", "1.5", "-0.25"), WithRules(&Rules{NumGte: num("0"), NumLte: num("1")})),
				F("edge", 7, "double", Examples("0", "1", "0.999"), WithRules(&Rules{NumGt: num("0"), NumLt: num("1")})),
				F("big", 8, "int64", Examples("9223372036854775807", "-9223372036854775808"), WithRules(&Rules{NumGte: num("0")})))}, svc(id, "Resp")))
	}
	{ // in / const next to examples: inside the set, outside it, and a field with in/const and no examples
		id := "mexin"
		add(mockReq(id, nil, []*Message{req(),
			M("Resp", F("state", 1, "string", Examples("open", "closed"), WithRules(&Rules{StrIn: []string{"open", "closed", "merged"}})),
				F("other", 2, "string", Examples("draft"), WithRules(&Rules{StrIn: []string{"open", "closed"}})),
				F("fixed", 3, "string", Examples("v1"), WithRules(&Rules{StrConst: Str("v1")})),
				F("unfixed", 4, "string", Examples("v2", "v1"), WithRules(&Rules{StrConst: Str("v1")})),
				F("kind", 5, "string", WithRules(&Rules{StrConst: Str("invoice")})),
				F("level", 6, "int64", Examples("1", "3"), WithRules(&Rules{NumIn: []string{"1", "2", "3"}})),
				F("odd", 7, "int64", Examples("4"), WithRules(&Rules{NumIn: []string{"1", "2", "3"}})),
				F("seven", 8, "int64", Examples("7", "8"), WithRules(&Rules{NumConst: num("7")})),
				F("answer", 9, "int64", WithRules(&Rules{NumConst: num("41")})),
				F("half", 10, "double", Examples("0.5", "0.25"), WithRules(&Rules{NumIn: []string{"0.5", "1.5"}})),
				F("not", 11, "string", Examples("bad", "good"), WithRules(&Rules{StrNotIn: []string{"bad"}})),
				F("mail", 12, "string", Examples("ann@example.com", "not an address"), WithRules(&Rules{WellKnown: "email"})),
				F("code", 13, "string", Examples("AB-12", "zz"), WithRules(&Rules{Pattern: Str("^[A-Z]{2}-[0-9]{2}$")})))}, svc(id, "Resp")))
	}
	{ // the same at every position the mock fills: nested direct message, map-value message, two levels down
		id := "mexrulesdeep"
		add(mockReq(id, nil, []*Message{req(),
			M("Place", F("city", 1, "string", Examples("Zürich", "Málaga"), WithRules(&Rules{MaxLen: U(6)})), F("pop", 2, "int64", Examples("5", "2000000"), WithRules(&Rules{NumLte: num("1000000")}))),
			M("Region", F("capital", 1, "", Msg(q(id, "Place"))), F("towns", 2, "", Msg(q(id, "Place")), MapOf("string")), F("code", 3, "string", Examples("日本"), WithRules(&Rules{Len: U(2)}))),
			M("Resp", F("region", 1, "", Msg(q(id, "Region"))), F("by", 2, "", Msg(q(id, "Region")), MapOf("int32")), F("title", 3, "string", WithRules(&Rules{MaxLen: U(5)})))},
			svc(id, "Resp", "Region", "Place")))
	}
	{ // multi-byte and empty examples without any rule; only-empty example lists; one text several times
		id := "mexutf8"
		all := M("All", F("any", 1, "string", Examples(mockMultiByte...)))
		per := M("Per")
		for i, t := range mockMultiByte {
			per.Fields = append(per.Fields, F("f"+string(rune('a'+i)), int32(i+1), "string", Examples(t)))
		}
		add(mockReq(id, nil, []*Message{req(), all, per,
			M("Empties", F("only_empty", 1, "string", Examples("")), F("two_empty", 2, "string", Examples("", "")), F("mixed", 3, "string", Examples("", "é", " ")),
				F("spaces", 4, "string", Examples(" ", "  ", "\t")), F("same", 5, "string", Examples("日本", "日本")), F("n", 6, "int64", Examples("")), F("ok", 7, "bool", Examples("")),
				F("ratio", 8, "double", Examples("")), F("digits", 9, "int64", Examples("７", "٣", "7")))}, svc(id, "All", "Per", "Empties")))
	}
	return out
}

// RandomSharedMockRequests: seeded random files with 2..3 services whose RPCs draw their response type from
// a pool of three messages (so that services and RPCs share them).
func RandomSharedMockRequests(rng interface{ Intn(int) int }, n int) []*Request {
	var out []*Request
	for i := 0; i < n; i++ {
		id := "msrnd" + string(rune('a'+i/26%26)) + string(rune('a'+i%26))
		pkg := id + ".v1"
		msgs := []*Message{M("Req", F("id", 1, "string")),
			M("Leaf", F("note", 1, "string", Examples("leafy", "leafier")), F("n", 2, "int64")),
			M("User", F("name", 1, "string"), F("ok", 2, "bool", Examples("false")), F("leaf", 3, "", Msg(pkg+".Leaf"))),
			M("Page", F("title", 1, "string", Examples("t1", "t2")), F("users", 2, "", Msg(pkg+".User"), MapOf("string")), F("first", 3, "", Msg(pkg+".User")), F("ratio", 4, "double"))}
		pool := []string{"Leaf", "User", "Page"}
		var svcs []*Service
		ns := 2 + rng.Intn(2)
		for si := 0; si < ns; si++ {
			sn := "Svc" + string(rune('A'+si))
			sv := Svc(sn, "/"+sn)
			nm := 1 + rng.Intn(3)
			for mi := 0; mi < nm; mi++ {
				mn := []string{"Get", "Find", "Load"}[mi] + sn
				sv.Methods = append(sv.Methods, RPC(mn, pkg+".Req", pkg+"."+pool[rng.Intn(len(pool))], "POST", "/"+mn))
			}
			svcs = append(svcs, sv)
		}
		r := mockReq(id, nil, msgs, svcs...)
		r.Tags = []string{"mock", "random", "samekind"}
		out = append(out, r)
	}
	return out
}

// RandomMockRequests: seeded random response types (kind x cardinality x examples) for the mock.
func RandomMockRequests(rng interface{ Intn(int) int }, n int) []*Request {
	var out []*Request
	kinds := []string{"string", "string", "int64", "int64", "bool", "double", "int32", "float", "uint32", "bytes", "enum", "leaf", "leaf", "ts", "self"}
	pools := map[string][]string{
		"string": {"alpha", "beta", "", "x y"}, "int64": {"7", "-3", "abc", "+12", "9223372036854775807", "1_0"}, "int32": {"5"}, "bool": {"true", "0", "F", "yes"},
		"double": {"1.5", "2e3", "x", "-0.25", "Inf"}, "float": {"1.5"}, "uint32": {"7"}, "bytes": {"abc"}, "enum": {"COLOR_RED"},
	}
	for i := 0; i < n; i++ {
		id := "mrnd" + string(rune('a'+i/26%26)) + string(rune('a'+i%26))
		pkg := id + ".v1"
		leaf := M("Leaf", F("note", 1, "string"), F("n", 2, "int64"))
		if rng.Intn(2) == 0 {
			leaf.Fields[0].Examples = []string{"leafy", "leafier"}
		}
		if rng.Intn(3) == 0 { // mutual recursion Resp -> Leaf -> Resp
			leaf.Fields = append(leaf.Fields, F("back", 3, "", Msg(pkg+".Resp")))
		}
		resp := M("Resp")
		nf := 2 + rng.Intn(5)
		hasOneof := false
		for fi := 0; fi < nf; fi++ {
			k := kinds[rng.Intn(len(kinds))]
			f := F("f"+string(rune('0'+fi)), int32(fi+1), k)
			switch k {
			case "enum":
				f = F(f.Name, f.Number, "", EnumT(pkg+".Color"))
			case "leaf":
				f = F(f.Name, f.Number, "", Msg(pkg+".Leaf"))
			case "ts":
				f = F(f.Name, f.Number, "", Msg(Timestamp))
			case "self":
				f = F(f.Name, f.Number, "", Msg(pkg+".Resp"))
			}
			switch c := rng.Intn(20); {
			case c < 13:
			case c < 15:
				f.Card = "optional"
			case c < 17:
				f.Card = "repeated"
			case c < 19:
				f.Card = "map"
				f.MapKey = []string{"string", "int32", "bool"}[rng.Intn(3)]
			default:
				f.Oneof = "c"
				hasOneof = true
			}
			if p := pools[k]; p != nil && rng.Intn(20) < 7 {
				ne := 1 + rng.Intn(3)
				for e := 0; e < ne; e++ {
					f.Examples = append(f.Examples, p[rng.Intn(len(p))])
				}
			}
			resp.Fields = append(resp.Fields, f)
		}
		if hasOneof {
			resp.Oneofs = []*Oneof{{Name: "c"}}
			var plain, members []*Field
			for _, f := range resp.Fields {
				if f.Oneof != "" {
					members = append(members, f)
				} else {
					plain = append(plain, f)
				}
			}
			resp.Fields = append(plain, members...)
		}
		svc := &Service{Name: "S", BasePath: "/" + id, HasConfig: true, Methods: []*Method{
			RPC("GetResp", pkg+".Req", pkg+".Resp", "POST", "/get/Resp"), RPC("GetLeaf", pkg+".Req", pkg+".Leaf", "POST", "/get/Leaf")}}
		r := mockReq(id, []*Enum{E("Color", "COLOR_UNSPECIFIED", "COLOR_RED")}, []*Message{M("Req", F("id", 1, "string")), leaf, resp}, svc)
		r.Tags = []string{"mock", "random"}
		out = append(out, r)
	}
	return out
}
