package lib

import (
	"fmt"
	"math/rand"
	"path/filepath"
	"strings"
	"sync"
	"time"
)

// c16_more.go — further request families of the C16 check (every plugin terminates with an answer):
//
//   degenerate-config : service base paths and method paths that are empty, made only of slashes or
//                       whitespace, or consist of nothing but a variable ("/" "//" " " "/{id}" ...),
//                       present-but-empty configs included; one combination per request so that a
//                       plugin that dies on one shape does not hide the next;
//   acyclic-dag       : layered ACYCLIC message graphs, every level referring to the next through
//                       2-3 message-typed fields (singular, optional, repeated, map values, oneof
//                       members, mixed; "diamond" skips; on the request side, the response side or
//                       both), depth 5-40: the number of reference PATHS is width^depth while the
//                       number of messages is depth+1 — a walk that is not guarded by a set of
//                       messages already DONE (as opposed to messages on the current path) needs
//                       exponential time;
//   fan-in            : many messages referring to one shared message, and fully connected layers.
//
// Every request is observed twice: (guarded) the ten plugin/parameter variants without
// generate_mock, each process bounded by 10 s / 6 GiB; (mock) go-http with generate_mock=true
// bounded by c16MockBudget / 1 GiB. The model (Traverse.predict_C16b) evaluates the visited-set walk
// and, for the mock emitter, the path-guarded walk under a step budget.

const (
	c16MockBudget  = 4 * time.Second
	c16MockStepLim = 32768 // Traverse.mock_budget
)

type c16mCase struct {
	r     *Request
	fam   string
	feats []string
	desc  map[string]any
}

func c16mk(id string, msgs []*Message, svc *Service) *Request {
	pkg := id + ".v1"
	f := &File{Messages: msgs, Services: []*Service{svc}}
	return OneFile(id, pkg, f)
}

// ---- degenerate strings in service_config.base_path / config.path --------------------------------------

type c16cfgStr struct {
	label  string
	absent bool // no annotation at all
	val    string
}

func c16DegenerateCases(tier string) []*c16mCase {
	bases := []c16cfgStr{{"absent", true, ""}, {"empty", false, ""}, {"slash", false, "/"}, {"slash2", false, "//"}, {"slash3", false, "///"},
		{"space", false, " "}, {"tab", false, "\t"}, {"slash-space", false, "/ "}, {"space-slash", false, " /"}, {"newline", false, "/\n"},
		{"var-only", false, "/{id}"}, {"var-bare", false, "{id}"}, {"var-slashes", false, "/{id}/"}, {"dot", false, "/."}, {"dotdot", false, "/.."}, {"dot-slash", false, "./"},
		{"qmark", false, "?"}, {"hash", false, "#"}, {"query", false, "/?x=1"}, {"inner-slashes", false, "/a//b"}, {"no-lead", false, "a"}, {"trail-only", false, "a/"},
		{"both", false, "/a/"}, {"percent", false, "/%"}, {"quote", false, "/\"\\"}, {"brace-open", false, "/{"}, {"unicode", false, "/é/"}}
	paths := []c16cfgStr{{"absent", true, ""}, {"empty", false, ""}, {"slash", false, "/"}, {"slash2", false, "//"}, {"space", false, " "}, {"slash-space", false, "/ "},
		{"var-only", false, "/{id}"}, {"var-bare", false, "{id}"}, {"var-trail", false, "{id}/"}, {"var-slashes", false, "/{id}/"}, {"word", false, "x"}, {"word-slashes", false, "/x/"},
		{"brace-open", false, "/{"}, {"brace-close", false, "}"}, {"var-empty", false, "/{}"}, {"dot", false, "."}, {"quote", false, "/\"\\"}}
	quickPaths := map[string]bool{"absent": true, "slash": true, "var-only": true, "word": true}
	quickBases := map[string]bool{"absent": true, "slash": true, "slash2": true, "var-only": true}
	var out []*c16mCase
	n := 0
	for bi, b := range bases {
		for pi, p := range paths {
			if tier != "thorough" && !quickPaths[p.label] && !quickBases[b.label] {
				continue
			}
			n++
			id := fmt.Sprintf("c16cfg%d", n)
			pkg := id + ".v1"
			verb := []string{"POST", "GET", "PUT", "DELETE", "PATCH"}[(bi+pi)%5]
			m := &Method{Name: "Call", In: pkg + ".Req", Out: pkg + ".Res"}
			if !p.absent {
				m.HasConfig, m.Path, m.Verb = true, p.val, verb
			}
			// a second method with the default path, so that both route constructions are taken
			svc := &Service{Name: "Svc", Methods: []*Method{m, {Name: "Plain", In: pkg + ".Req", Out: pkg + ".Res"}}}
			if !b.absent {
				svc.HasConfig, svc.BasePath = true, b.val
			}
			r := c16mk(id, []*Message{M("Req", F("id", 1, "string"), F("note", 2, "string")), M("Res", F("ok", 1, "bool"))}, svc)
			out = append(out, &c16mCase{r: r, fam: "degenerate-config", feats: []string{"degenerate", "base:" + b.label, "path:" + p.label},
				desc: map[string]any{"base_path": b.val, "base_path_absent": b.absent, "path": p.val, "config_absent": p.absent, "verb": verb}})
		}
	}
	return out
}

// ---- layered acyclic graphs -----------------------------------------------------------------------------

// c16Layered builds messages L0..L<depth>; level i refers to level i+skip (for each skip in skips) through
// one field per entry of kinds[k] ("one" singular, "opt" optional, "rep" repeated, "map" map value,
// "oneof" member of a plain oneof).
func c16Layered(pkg, prefix string, depth int, kinds []string, skips []int) []*Message {
	var ms []*Message
	{ // members of a oneof have to be declared next to each other: oneof members last
		var plain, members []string
		for _, k := range kinds {
			if k == "oneof" {
				members = append(members, k)
			} else {
				plain = append(plain, k)
			}
		}
		kinds = append(plain, members...)
	}
	for i := 0; i <= depth; i++ {
		m := M(fmt.Sprintf("%s%02d", prefix, i), F("v", 1, "string"))
		hasOneof := false
		for k, kind := range kinds {
			skip := skips[k%len(skips)]
			if i+skip > depth {
				continue
			}
			t := Msg(fmt.Sprintf("%s.%s%02d", pkg, prefix, i+skip))
			name := fmt.Sprintf("e%d", k)
			num := int32(k + 2)
			switch kind {
			case "one":
				m.Fields = append(m.Fields, F(name, num, "", t))
			case "opt":
				m.Fields = append(m.Fields, F(name, num, "", t, Opt()))
			case "rep":
				m.Fields = append(m.Fields, F(name, num, "", t, Rep()))
			case "map":
				m.Fields = append(m.Fields, F(name, num, "", t, MapOf("string")))
			case "oneof":
				m.Fields = append(m.Fields, F(name, num, "", t, InOneof("pick")))
				hasOneof = true
			}
		}
		if hasOneof {
			m.WithOneofs(&Oneof{Name: "pick"})
		}
		ms = append(ms, m)
	}
	return ms
}

// number of message-field assignments the path-guarded mock walk emits from L00 (memoised: the graph
// is acyclic), saturating; only used to keep generated cases away from the budget threshold.
func c16MockPaths(depth int, kinds []string, skips []int) float64 {
	memo := make([]float64, depth+1)
	for i := depth; i >= 0; i-- {
		var c float64
		for k, kind := range kinds {
			skip := skips[k%len(skips)]
			if i+skip > depth {
				continue
			}
			if kind == "rep" {
				c++
			} else {
				c += 1 + memo[i+skip]
			}
		}
		if c > 1e18 {
			c = 1e18
		}
		memo[i] = c
	}
	return memo[0]
}

func c16DagCases(tier string, rng *rand.Rand, nRandom int) []*c16mCase {
	var out []*c16mCase
	add := func(id, side string, depth int, kinds []string, skips []int) {
		paths := c16MockPaths(depth, kinds, skips)
		if side == "request" {
			paths = 0
		}
		if paths > c16MockStepLim/8 && paths < 64*c16MockStepLim {
			return // too close to the budget to be decided by a wall clock
		}
		if strings.HasPrefix(id, "c16dagrand") && side != "request" {
			// seeded random graphs mix edge kinds and skips freely: keep one only when it is far from the budget under BOTH
			// readings of its repeated edges (counted as one assignment, or followed like singular ones), so that the verdict
			// does not hinge on how a borderline walk happens to be timed
			all := make([]string, len(kinds))
			for i := range all {
				all[i] = "one"
			}
			upper := c16MockPaths(depth, all, skips)
			if !(upper <= c16MockStepLim/8 || paths >= 64*c16MockStepLim) {
				return
			}
		}
		pkg := id + ".v1"
		msgs := c16Layered(pkg, "L", depth, kinds, skips)
		small := M("Small", F("id", 1, "string"))
		in, outT := pkg+".Small", pkg+".L00"
		switch side {
		case "request":
			in, outT = pkg+".L00", pkg+".Small"
		case "both":
			in = pkg + ".L00"
		}
		verb, path := "POST", "/tree"
		r := c16mk(id, append(msgs, small), Svc("Trees", "/t", RPC("GetTree", in, outT, verb, path)))
		out = append(out, &c16mCase{r: r, fam: "acyclic-dag", feats: []string{"dag", "dag-side:" + side, "dag-kinds:" + strings.Join(kinds, "+")},
			desc: map[string]any{"depth": depth, "edge_kinds": kinds, "skips": skips, "side": side, "mock_assignments_expected": paths}})
	}
	one2, one3 := []string{"one", "one"}, []string{"one", "one", "one"}
	s1 := []int{1}
	// width 2 and 3, plain singular references, below and far above the budget
	add("c16dagw2d6", "response", 6, one2, s1)
	add("c16dagw2d10", "response", 10, one2, s1)
	add("c16dagw2d24", "response", 24, one2, s1)
	add("c16dagw2d40", "response", 40, one2, s1)
	add("c16dagw3d5", "response", 5, one3, s1)
	add("c16dagw3d16", "response", 16, one3, s1)
	add("c16dagw3d30", "response", 30, one3, s1)
	// the other reference forms at depth 40 (repeated fields are not followed by the mock emitter)
	add("c16dagrep", "response", 40, []string{"rep", "rep"}, s1)
	add("c16dagmap", "response", 40, []string{"map", "map"}, s1)
	add("c16dagopt", "response", 40, []string{"opt", "opt"}, s1)
	add("c16dagoneof", "response", 40, []string{"oneof", "oneof"}, s1)
	add("c16dagmix", "response", 40, []string{"one", "rep"}, s1)
	add("c16dagmix3", "response", 30, []string{"map", "rep", "opt"}, s1)
	add("c16dagmapshallow", "response", 8, []string{"map", "one"}, s1)
	// diamond reuse: level i refers to i+1 and i+2 (Fibonacci many paths)
	add("c16dagdiamond", "response", 40, one2, []int{1, 2})
	add("c16dagdiamond12", "response", 12, one2, []int{1, 2})
	// request side only (the mock emitter fills responses only), and both sides
	add("c16dagreq", "request", 40, one2, s1)
	add("c16dagreq3", "request", 30, []string{"one", "rep", "map"}, s1)
	add("c16dagboth", "both", 40, one2, s1)
	add("c16dagbothshallow", "both", 9, one2, s1)
	// single chain control at depth 40 (width 1) is c16deep in stressRequests
	kindPool := []string{"one", "opt", "rep", "map", "oneof"}
	for i := 0; i < nRandom; i++ {
		w := 2 + rng.Intn(2)
		kinds := make([]string, w)
		for k := range kinds {
			kinds[k] = kindPool[rng.Intn(len(kindPool))]
		}
		skips := []int{1}
		if rng.Intn(3) == 0 {
			skips = []int{1, 1 + rng.Intn(3)}
		}
		depth := 10 + rng.Intn(31)
		if rng.Intn(3) == 0 {
			depth = 3 + rng.Intn(7)
		}
		side := []string{"response", "response", "request", "both"}[rng.Intn(4)]
		add(fmt.Sprintf("c16dagrand%d", i), side, depth, kinds, skips)
	}
	return out
}

// ---- fan-in ------------------------------------------------------------------------------------------------

func c16FanInCases(tier string) []*c16mCase {
	var out []*c16mCase
	{ // many messages referring to one shared message (which has a short chain below it)
		id := "c16fanin"
		pkg := id + ".v1"
		n := 80
		msgs := []*Message{M("Req", F("id", 1, "string")),
			M("Shared", F("v", 1, "string"), F("a", 2, "", Msg(pkg+".Leaf")), F("b", 3, "", Msg(pkg+".Leaf"))), M("Leaf", F("v", 1, "string"))}
		root := M("Root")
		for i := 0; i < n; i++ {
			name := fmt.Sprintf("User%02d", i)
			u := M(name, F("shared", 1, "", Msg(pkg+".Shared")), F("more", 2, "", Msg(pkg+".Shared"), Rep()), F("by_key", 3, "", Msg(pkg+".Shared"), MapOf("string")))
			msgs = append(msgs, u)
			root.Fields = append(root.Fields, F(fmt.Sprintf("u%02d", i), int32(i+1), "", Msg(pkg+"."+name)))
		}
		msgs = append(msgs, root)
		var rpcs []*Method
		for i := 0; i < 6; i++ {
			rpcs = append(rpcs, RPC(fmt.Sprintf("Get%d", i), pkg+".Req", pkg+".Root", "POST", fmt.Sprintf("/r%d", i)))
		}
		out = append(out, &c16mCase{r: c16mk(id, msgs, Svc("Fan", "/f", rpcs...)), fam: "fan-in", feats: []string{"fan-in", "fan-in:star"},
			desc: map[string]any{"referrers": n, "methods": len(rpcs)}})
	}
	// fully connected layers: every message of layer i refers to every message of layer i+1
	lattice := func(id string, width, depth int, kind string) {
		pkg := id + ".v1"
		msgs := []*Message{M("Req", F("id", 1, "string"))}
		for l := 0; l <= depth; l++ {
			for a := 0; a < width; a++ {
				m := M(fmt.Sprintf("N%02dx%d", l, a), F("v", 1, "string"))
				if l < depth {
					for b := 0; b < width; b++ {
						t := Msg(fmt.Sprintf("%s.N%02dx%d", pkg, l+1, b))
						if kind == "rep" {
							m.Fields = append(m.Fields, F(fmt.Sprintf("e%d", b), int32(b+2), "", t, Rep()))
						} else {
							m.Fields = append(m.Fields, F(fmt.Sprintf("e%d", b), int32(b+2), "", t))
						}
					}
				}
				msgs = append(msgs, m)
			}
		}
		out = append(out, &c16mCase{r: c16mk(id, msgs, Svc("Lat", "/l", RPC("Get", pkg+".Req", pkg+".N00x0", "POST", "/g"), RPC("Put", pkg+".N00x1", pkg+".Req", "PUT", "/p"))),
			fam: "fan-in", feats: []string{"fan-in", "fan-in:lattice-" + kind}, desc: map[string]any{"layer_width": width, "depth": depth, "edge_kind": kind}})
	}
	lattice("c16lat3d4", 3, 4, "one")
	lattice("c16lat3d20", 3, 20, "one")
	lattice("c16lat4d14rep", 4, 14, "rep")
	if tier == "thorough" {
		lattice("c16lat5d12", 5, 12, "one")
		lattice("c16lat2d40", 2, 40, "one")
	}
	return out
}

func c16Answered(pr *PluginResult) (bool, string) {
	answered := pr.Exit == "ok" || pr.Exit == "error-response"
	if pr.Exit == "crash" && pr.Error == "exit status 1" && !strings.Contains(pr.Stderr, "panic:") && !strings.Contains(pr.Stderr, "fatal error:") && !strings.Contains(pr.Stderr, "goroutine ") {
		return true, "refused-by-protogen" // protogen's way of refusing a request: one diagnostic line on stderr, exit 1
	}
	return answered, pr.Exit
}

// CheckC16More runs the families above and appends their case results to the C16 run (called by
// CheckC16 before run.Finish()).
func CheckC16More(run *Run) {
	nRandom := 6
	if run.Tier == "thorough" {
		nRandom = 80
	}
	cases := c16DegenerateCases(run.Tier)
	cases = append(cases, c16DagCases(run.Tier, rand.New(rand.NewSource(run.Seed+1616)), nRandom)...)
	cases = append(cases, c16FanInCases(run.Tier)...)

	type vres struct {
		ok     bool
		mode   string // none | budget (wall clock or address space exhausted) | crash (anything else)
		note   string
		wallMs int64
		rssKB  int64
	}
	builts := make([]*Built, len(cases))
	results := make([][]vres, len(cases))
	for i, c := range cases {
		b, err := BuildDescriptors(c.r)
		if err != nil {
			run.Fatal("descriptor build failed for %s: %v", c.r.ID, err)
		}
		builts[i] = b
		results[i] = make([]vres, len(c16Variants))
	}
	started := time.Now()
	var wg sync.WaitGroup
	var ansMu sync.Mutex
	answers := map[string]map[string]int{}
	sem := make(chan struct{}, 12)
	for i, c := range cases {
		for vi, v := range c16Variants {
			wg.Add(1)
			go func(i, vi int, c *c16mCase, v c16Variant) {
				defer wg.Done()
				sem <- struct{}{}
				defer func() { <-sem }()
				limit, mem := 10*time.Second, 6144
				if v.mock {
					limit, mem = c16MockBudget, 1024
				}
				pr := RunPlugin(filepath.Join(run.BinDir, "protoc-gen-"+v.plugin), v.plugin, MakeCGR(builts[i].All, ToGenerate(c.r), v.param), limit, mem)
				ok, cls := c16Answered(pr)
				out := vres{ok: ok, mode: "none", wallMs: pr.WallMs, rssKB: pr.MaxRSSKB}
				if !ok {
					out.mode = "crash"
					if pr.Exit == "timeout" {
						out.mode = "budget"
					}
					for _, m := range []string{"out of memory", "cannot allocate memory", "failed to create new OS thread", "newosproc"} {
						if pr.Exit == "crash" && strings.Contains(pr.Stderr, m) {
							out.mode = "budget"
						}
					}
					out.note = fmt.Sprintf("%s[%s]: %s %s %s", v.plugin, v.param, pr.Exit, firstLine(pr.Error), firstLine(pr.Stderr))
				}
				results[i][vi] = out
				ansMu.Lock()
				k := v.plugin + "[" + v.param + "]"
				if answers[k] == nil {
					answers[k] = map[string]int{}
				}
				answers[k][cls]++
				ansMu.Unlock()
			}(i, vi, c, v)
		}
	}
	wg.Wait()
	pluginsDone := time.Now()

	var ccs []CoqCase
	var crs []*CaseResult
	for i, c := range cases {
		g, roots, n := graphOf(c.r, builts[i])
		rs := make([]string, len(roots))
		for k, x := range roots {
			rs[k] = fmt.Sprintf("%d%%nat", x)
		}
		for _, mock := range []bool{false, true} {
			ok := true
			var notes []string
			var maxMs, maxRSS int64
			nv := 0
			mode := "none"
			for vi, v := range c16Variants {
				if v.mock != mock {
					continue
				}
				nv++
				o := results[i][vi]
				if !o.ok {
					ok = false
					notes = append(notes, o.note)
					if mode != "crash" {
						mode = o.mode
					}
				}
				if o.wallMs > maxMs {
					maxMs = o.wallMs
				}
				if o.rssKB > maxRSS {
					maxRSS = o.rssKB
				}
			}
			key, sfx, bound := "guarded_walk_terminates", "/plugins", "10s wall, 6 GiB address space per process"
			if mock {
				key, sfx, bound = "mock_walk_terminates", "/mock", fmt.Sprintf("%s wall, 1 GiB address space", c16MockBudget)
			}
			obs := map[string]any{key: ok}
			if mock {
				// the finding is a budget overrun; a mock run that dies for another reason is not it
				obs["mock_failure"] = mode
			}
			input := map[string]any{"schema": c.r.ID, "messages": n, "variants": nv, "max_wall_ms": maxMs, "max_rss_kb": maxRSS, "budget": bound, "request": c.r}
			for k, v := range c.desc {
				input[k] = v
			}
			feats := append([]string{}, c.feats...)
			if mock {
				feats = append(feats, "mock-variant")
			}
			cr := &CaseResult{ID: c.r.ID + sfx, Family: c.fam, Input: input, Obs: obs, OracleHolds: ok, OracleNote: strings.Join(notes, " | "), NonTrivial: true, Features: feats}
			crs = append(crs, cr)
			ccs = append(ccs, CoqCase{Term: fmt.Sprintf("(%s, [%s], %s)", g, strings.Join(rs, "; "), CoqBool(mock)), Obs: obs})
		}
	}
	// the over-budget mock cases cost the model its whole step budget each and sit next to each other:
	// deal the cases round-robin over the shards CoqRun cuts (contiguous blocks)
	const shards = 8
	var perm []int
	for r := 0; r < shards; r++ {
		for j := r; j < len(ccs); j += shards {
			perm = append(perm, j)
		}
	}
	dealt := make([]CoqCase, len(ccs))
	for k, j := range perm {
		dealt[k] = ccs[j]
	}
	vs, err := CoqRun(run.WorkDir, "c16more", "From Sebuf Require Import Text Json Traverse.\n", "", "(graph * list nat * bool)", "predict_C16b", dealt, shards)
	if err != nil {
		run.Fatal("model evaluation (c16 more): %v", err)
	}
	for k, j := range perm {
		crs[j].Apply(vs[k])
	}
	run.Results = append(run.Results, crs...)
	run.Extra["more_wall_s"] = map[string]any{"plugins": pluginsDone.Sub(started).Seconds(), "model": time.Since(pluginsDone).Seconds()}
	run.Extra["more_plugin_runs"] = len(cases) * len(c16Variants)
	run.Extra["more_answers_by_variant"] = answers
	run.Extra["more_bounds"] = fmt.Sprintf("generate_mock=true: %s wall clock, 1 GiB address space, model step budget %d message-field assignments; other variants: 10 s, 6 GiB", c16MockBudget, c16MockStepLim)
}
