package lib

// pyvalidate.go — the reference JSON Schema validator: python3-vt's jsonschema 4.x (Draft 2020-12) run as
// ONE subprocess over a batch of (components, schema, instance) triples (JSON lines in, JSON lines out).
// Verdicts: true | false | "bad-schema" (the schema fails the 2020-12 metaschema) | "bad-ref".
// Formats are annotations (no format_checker), as in the default vocabulary of 2020-12.

import (
	"bufio"
	"bytes"
	"encoding/json"
	"fmt"
	"os"
	"os/exec"
	"path/filepath"
)

const oasPyValidatorSrc = `
import sys, json
from jsonschema import Draft202012Validator
from jsonschema.exceptions import SchemaError
try:
    from referencing.exceptions import Unresolvable
except Exception:
    class Unresolvable(Exception): pass
try:
    from jsonschema.exceptions import _RefResolutionError as RefErr
except Exception:
    class RefErr(Exception): pass

def undec(v):
    # exact decimals travel as {"$dec":[m,e]}: python reads them as float/int like any JSON reader would
    if isinstance(v, dict):
        d = v.get("$dec")
        if len(v) == 1 and isinstance(d, list) and len(d) == 2 and all(isinstance(x, int) and not isinstance(x, bool) for x in d):
            return float("%de%d" % (d[0], d[1]))
        return {k: undec(x) for k, x in v.items()}
    if isinstance(v, list):
        return [undec(x) for x in v]
    return v

checked = {}
for line in sys.stdin:
    line = line.strip()
    if not line:
        continue
    c = json.loads(line)
    comps = undec(c.get("components") or {})
    schema = undec(c["schema"])
    inst = undec(c["instance"])
    if isinstance(schema, bool):
        root = {"allOf": [schema]}
    else:
        root = dict(schema)
    root["components"] = {"schemas": comps}
    out = {"id": c["id"]}
    try:
        Draft202012Validator.check_schema(root)
        key = c.get("components_key")
        badc = None
        if key is not None and key in checked:
            badc = checked[key]
        else:
            badc = []
            for n, s in comps.items():
                try:
                    Draft202012Validator.check_schema(s)
                except SchemaError:
                    badc.append(n)
            if key is not None:
                checked[key] = badc
        out["bad_components"] = badc
        try:
            out["valid"] = Draft202012Validator(root).is_valid(inst)
        except (Unresolvable, RefErr) as e:
            out["valid"] = "bad-ref"
        except Exception as e:
            out["valid"] = "error: " + type(e).__name__
    except SchemaError as e:
        out["valid"] = "bad-schema"
        out["detail"] = str(e.message)[:200]
    sys.stdout.write(json.dumps(out) + "\n")
`

type PyCase struct {
	ID            string `json:"id"`
	Components    any    `json:"components,omitempty"`
	ComponentsKey string `json:"components_key,omitempty"`
	Schema        any    `json:"schema"`
	Instance      any    `json:"instance"`
}

type PyVerdict struct {
	ID            string   `json:"id"`
	Valid         any      `json:"valid"` // bool or string
	BadComponents []string `json:"bad_components"`
	Detail        string   `json:"detail"`
}

// PyValidate runs the reference validator over the batch and returns the verdicts by case id.
func PyValidate(workdir string, cases []PyCase) (map[string]PyVerdict, error) {
	if len(cases) == 0 {
		return map[string]PyVerdict{}, nil
	}
	if err := os.MkdirAll(workdir, 0o755); err != nil {
		return nil, err
	}
	script := filepath.Join(workdir, "refvalidate.py")
	if err := os.WriteFile(script, []byte(oasPyValidatorSrc), 0o644); err != nil {
		return nil, err
	}
	var in bytes.Buffer
	enc := json.NewEncoder(&in)
	for _, c := range cases {
		if err := enc.Encode(c); err != nil {
			return nil, err
		}
	}
	cmd := exec.Command("timeout", "600", "python3-vt", script)
	cmd.Stdin = &in
	var stdout, stderr bytes.Buffer
	cmd.Stdout = &stdout
	cmd.Stderr = &stderr
	if err := cmd.Run(); err != nil {
		return nil, fmt.Errorf("reference validator: %v\n%s", err, tail(stderr.String(), 2000))
	}
	out := map[string]PyVerdict{}
	sc := bufio.NewScanner(&stdout)
	sc.Buffer(make([]byte, 1<<20), 1<<26)
	for sc.Scan() {
		var v PyVerdict
		if err := json.Unmarshal(sc.Bytes(), &v); err != nil {
			return nil, fmt.Errorf("reference validator output: %v", err)
		}
		out[v.ID] = v
	}
	if len(out) != len(cases) {
		return nil, fmt.Errorf("reference validator answered %d of %d cases\n%s", len(out), len(cases), tail(stderr.String(), 2000))
	}
	return out, nil
}
