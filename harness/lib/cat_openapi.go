package lib

// cat_openapi.go — catalogue for the OpenAPI properties (C18, C19; reusable by C06).

import (
	"fmt"
	"math/rand"
)

func oasReq(id string, f *File, tags ...string) *Request {
	r := OneFile(id, id+".v1", f)
	r.Tags = append([]string{"openapi"}, tags...)
	return r
}

// OASStructureCatalogue: document-structure shapes (names, nesting, imports, services, parameters).
func OASStructureCatalogue() []*Request {
	var out []*Request
	q := func(id, t string) string { return id + ".v1." + t }
	res := func() *Message { return M("Res", F("ok", 1, "bool")) }

	{ // a nested declaration that no reachable FIELD uses, whose own fields are the only way to reach further messages
		id := "oasnestunused"
		f := &File{Messages: []*Message{
			M("AuditInfo", F("by", 1, "string"), F("deep", 2, "", Msg(q(id, "AuditDeep")))), M("AuditDeep", F("n", 1, "int32")),
			M("Product", F("sku", 1, "string")),
			M("Order", F("oid", 1, "string"), F("lines", 2, "", Msg(q(id, "Order.Line")), Rep())).WithNested(
				M("Line", F("product", 1, "", Msg(q(id, "Product")))),
				M("Revision", F("audit", 1, "", Msg(q(id, "AuditInfo"))), F("prev", 2, "", Msg(q(id, "Order.Revision")))).WithNested(M("Note", F("t", 1, "string")))),
			res(),
		}}
		f.Services = []*Service{Svc("Orders", "/o", RPC("Get", q(id, "Order"), q(id, "Res"), "POST", "/get"))}
		out = append(out, oasReq(id, f, "nested", "unused-nested"))
	}
	{ // several services of ONE file reaching the same annotated messages (each document must be complete on its own)
		id := "oassharedsvc"
		f := &File{Messages: []*Message{
			M("Circle", F("r", 1, "double")), M("Square", F("side", 1, "double")),
			M("Shape", F("id", 1, "string"), F("circle", 2, "", Msg(q(id, "Circle")), InOneof("kind")), F("square", 3, "", Msg(q(id, "Square")), InOneof("kind"))).
				WithOneofs(&Oneof{Name: "kind", HasConfig: true, Discriminator: "type", Flatten: true}),
			M("Tagged", F("id", 1, "string"), F("circle", 2, "", Msg(q(id, "Circle")), InOneof("kind")), F("note", 3, "string", InOneof("kind"))).
				WithOneofs(&Oneof{Name: "kind", HasConfig: true, Discriminator: "type"}),
			M("Addr", F("street", 1, "string")), M("Person", F("pid", 1, "string"), F("home", 2, "", Msg(q(id, "Addr")), Flatten(true), FlattenPrefix("home_"))),
			M("Bar", F("t", 1, "int64")), M("BarList", F("bars", 1, "", Msg(q(id, "Bar")), Rep(), Unwrap())),
			M("Wrap", F("shape", 1, "", Msg(q(id, "Shape"))), F("tagged", 2, "", Msg(q(id, "Tagged"))), F("person", 3, "", Msg(q(id, "Person"))), F("bars", 4, "", Msg(q(id, "BarList")))),
			res(),
		}}
		f.Services = []*Service{
			Svc("Draw", "/d", RPC("Put", q(id, "Shape"), q(id, "Res"), "POST", "/put"), RPC("PutWrap", q(id, "Wrap"), q(id, "Res"), "POST", "/wrap")),
			Svc("Search", "/s", RPC("Find", q(id, "Res"), q(id, "Shape"), "POST", "/find"), RPC("FindAll", q(id, "Res"), q(id, "Wrap"), "POST", "/all")),
			Svc("Third", "/t", RPC("Tag", q(id, "Tagged"), q(id, "Person"), "POST", "/tag"), RPC("Bars", q(id, "BarList"), q(id, "BarList"), "POST", "/bars")),
		}
		out = append(out, oasReq(id, f, "multi-service", "shared-annotated"))
	}
	{ // nested same-named types: Outer.Item vs Other.Item, both reachable
		id := "oasnest"
		f := &File{Messages: []*Message{
			M("Outer", F("item", 1, "", Msg(q(id, "Outer.Item")))).WithNested(M("Item", F("a", 1, "string"))),
			M("Other", F("item", 1, "", Msg(q(id, "Other.Item")))).WithNested(M("Item", F("b", 1, "int32"), F("c", 2, "bool"))),
			M("Req", F("x", 1, "", Msg(q(id, "Outer"))), F("y", 2, "", Msg(q(id, "Other")))),
			res(),
		}}
		f.Services = []*Service{Svc("Nest", "/n", RPC("Do", q(id, "Req"), q(id, "Res"), "POST", "/do"))}
		out = append(out, oasReq(id, f, "same-short-name"))
	}
	{ // nested type with a distinct name, nested enum, depth 3, only the inner one referenced
		id := "oasdeep"
		f := &File{Messages: []*Message{
			M("A", F("v", 1, "string")).WithNested(M("B", F("w", 1, "int32")).WithNested(M("C", F("z", 1, "bool"), F("k", 2, "", EnumT(q(id, "A.B.C.Kind")))).WithEnums(E("Kind", "KIND_UNSPECIFIED", "KIND_ONE")))),
			M("Req", F("c", 1, "", Msg(q(id, "A.B.C")))),
			res(),
		}}
		f.Services = []*Service{Svc("Deep", "/d", RPC("Do", q(id, "Req"), q(id, "Res"), "POST", "/do"))}
		out = append(out, oasReq(id, f, "nested"))
	}
	{ // same short name in two packages, one imported
		id := "oaspkg"
		dep := &File{Path: id + "/types.proto", Package: "oaspkgdep.v1", GoPackage: "verifgen/oaspkgdep;oaspkgdep",
			Messages: []*Message{M("Item", F("from_dep", 1, "string")), M("Shared", F("s", 1, "string"), F("more", 2, "", Msg("oaspkgdep.v1.Extra"))), M("Extra", F("e", 1, "double"))}}
		f := &File{Imports: []string{dep.Path}, Messages: []*Message{
			M("Item", F("local", 1, "int64")),
			M("Req", F("mine", 1, "", Msg(q(id, "Item"))), F("theirs", 2, "", Msg("oaspkgdep.v1.Item")), F("shared", 3, "", Msg("oaspkgdep.v1.Shared"))),
			res(),
		}}
		f.Services = []*Service{Svc("Pkg", "/p", RPC("Do", q(id, "Req"), q(id, "Res"), "POST", "/do"))}
		r := oasReq(id, f, "same-short-name", "import")
		r.Files = append([]*File{dep}, r.Files...)
		out = append(out, r)
	}
	{ // messages only from an imported file, no collision
		id := "oasimp"
		dep := &File{Path: id + "/types.proto", Package: "oasimpdep.v1", GoPackage: "verifgen/oasimpdep;oasimpdep",
			Messages: []*Message{M("Widget", F("name", 1, "string"), F("parts", 2, "", Msg("oasimpdep.v1.Part"), Rep())), M("Part", F("n", 1, "int32"), F("sub", 2, "", Msg("oasimpdep.v1.Part")))}}
		f := &File{Imports: []string{dep.Path}, Messages: []*Message{M("Req", F("w", 1, "", Msg("oasimpdep.v1.Widget"))), res()}}
		f.Services = []*Service{Svc("Imp", "/i", RPC("Do", q(id, "Req"), "oasimpdep.v1.Widget", "POST", "/do"))}
		r := oasReq(id, f, "import")
		r.Files = append([]*File{dep}, r.Files...)
		out = append(out, r)
	}
	{ // recursive and mutually recursive types, through repeated, map and oneof
		id := "oasrec"
		f := &File{Messages: []*Message{
			M("Node", F("v", 1, "string"), F("next", 2, "", Msg(q(id, "Node"))), F("kids", 3, "", Msg(q(id, "Node")), Rep()), F("by", 4, "", Msg(q(id, "Node")), MapOf("string"))),
			M("A", F("b", 1, "", Msg(q(id, "B")))), M("B", F("a", 1, "", Msg(q(id, "A"))), F("n", 2, "int32")),
			M("Expr", F("lit", 1, "int64", InOneof("e")), F("neg", 2, "", Msg(q(id, "Expr")), InOneof("e"))).WithOneofs(&Oneof{Name: "e"}),
			M("Req", F("n", 1, "", Msg(q(id, "Node"))), F("a", 2, "", Msg(q(id, "A"))), F("e", 3, "", Msg(q(id, "Expr")))),
		}}
		f.Services = []*Service{Svc("Rec", "/r", RPC("Do", q(id, "Req"), q(id, "Node"), "POST", "/do"))}
		out = append(out, oasReq(id, f, "recursive"))
	}
	{ // several services in one file, one without methods, sharing messages
		id := "oasmulti"
		f := &File{Messages: []*Message{M("Req", F("id", 1, "string")), res(), M("OnlyB", F("b", 1, "string"))}}
		f.Services = []*Service{
			Svc("Alpha", "/a", RPC("Get", q(id, "Req"), q(id, "Res"), "GET", "/x/{id}"), RPC("Put", q(id, "Req"), q(id, "Res"), "PUT", "/x/{id}")),
			Svc("Beta", "", RPC("Make", q(id, "OnlyB"), q(id, "Res"), "", "")),
			{Name: "Gamma"},
		}
		out = append(out, oasReq(id, f, "multi-service"))
	}
	{ // the same service name in two generated files
		id := "oassvcdup"
		f := &File{Messages: []*Message{M("Req", F("id", 1, "string")), res()}}
		f.Services = []*Service{Svc("Same", "/one", RPC("Do", q(id, "Req"), q(id, "Res"), "POST", "/do"))}
		r := oasReq(id, f, "service-name-collision")
		f2 := &File{Path: id + "/b.proto", Package: "oassvcdupb.v1", GoPackage: "verifgen/oassvcdupb;oassvcdupb", Generate: true,
			Messages: []*Message{M("Other", F("o", 1, "int32"))},
			Services: []*Service{Svc("Same", "/two", RPC("Else", "oassvcdupb.v1.Other", "oassvcdupb.v1.Other", "POST", "/else"))}}
		r.Files = append(r.Files, f2)
		out = append(out, r)
	}
	{ // a user message called Error (and one called FieldViolation)
		id := "oasbuiltin"
		f := &File{Messages: []*Message{M("Error", F("code", 1, "int32"), F("why", 2, "string")), M("Req", F("id", 1, "string")), M("Res", F("err", 1, "", Msg(q(id, "Error"))))}}
		f.Services = []*Service{Svc("Bi", "/b", RPC("Do", q(id, "Req"), q(id, "Res"), "POST", "/do"))}
		out = append(out, oasReq(id, f, "builtin-name"))
	}
	{ // map fields: entry pseudo-messages with the same name in two messages
		id := "oasmap"
		f := &File{Messages: []*Message{
			M("One", F("attrs", 1, "string", MapOf("string")), F("by_id", 2, "", Msg(q(id, "Val")), MapOf("int64"))),
			M("Two", F("attrs", 1, "int32", MapOf("string"))),
			M("Val", F("v", 1, "string")),
			M("Req", F("one", 1, "", Msg(q(id, "One"))), F("two", 2, "", Msg(q(id, "Two")))),
			res(),
		}}
		f.Services = []*Service{Svc("Maps", "/m", RPC("Do", q(id, "Req"), q(id, "Res"), "POST", "/do"))}
		out = append(out, oasReq(id, f, "map"))
	}
	{ // headers: service only with a case-variant duplicate; service + method merge; exact duplicate in one list
		id := "oashdr"
		f := &File{Messages: []*Message{M("Req", F("id", 1, "string")), res()}}
		h := func(n, t string, req bool) *Header { return &Header{Name: n, Type: t, Required: req} }
		f.Services = []*Service{
			Svc("CaseDup", "/c", RPC("Do", q(id, "Req"), q(id, "Res"), "POST", "/do")).WithHeaders(h("X-Api-Key", "string", true), h("x-api-key", "string", false)),
			Svc("Merge", "/m",
				RPC("Over", q(id, "Req"), q(id, "Res"), "POST", "/over").WithHeaders(h("X-Tenant", "int32", false), h("A-First", "bool", true)),
				RPC("CaseOver", q(id, "Req"), q(id, "Res"), "POST", "/caseover").WithHeaders(h("x-tenant", "string", false)),
				RPC("Plain", q(id, "Req"), q(id, "Res"), "GET", "/plain/{id}")).WithHeaders(h("X-Tenant", "string", true), h("X-Trace", "uuid", false)),
			Svc("ExactDup", "/e", RPC("Do", q(id, "Req"), q(id, "Res"), "POST", "/do")).WithHeaders(h("X-Twice", "string", true), h("X-Twice", "integer", false)),
			Svc("Typed", "/t", RPC("Do", q(id, "Req"), q(id, "Res"), "POST", "/do").WithHeaders(
				&Header{Name: "X-Int", Type: "int64", Format: "int64", Required: true}, &Header{Name: "X-Num", Type: "Double"}, &Header{Name: "X-Flag", Type: "bool"},
				&Header{Name: "X-Arr", Type: "array"}, &Header{Name: "X-Odd", Type: "weird", Format: "date-time"}, &Header{Name: "X-None"})),
		}
		out = append(out, oasReq(id, f, "headers"))
	}
	{ // path variables: twice in one template, in the base path, not a field of the input, adjacent
		id := "oasvars"
		f := &File{Messages: []*Message{M("Req", F("id", 1, "string"), F("n", 2, "int64"), F("org", 3, "string")), res()}}
		f.Services = []*Service{
			Svc("Twice", "/t", RPC("Do", q(id, "Req"), q(id, "Res"), "GET", "/a/{id}/b/{id}")),
			Svc("BaseVar", "/orgs/{org}", RPC("Do", q(id, "Req"), q(id, "Res"), "GET", "/items/{id}"), RPC("NoVar", q(id, "Req"), q(id, "Res"), "POST", "/items")),
			Svc("NotAField", "/n", RPC("Do", q(id, "Req"), q(id, "Res"), "DELETE", "/x/{missing}/{n}")),
			Svc("Fine", "/f", RPC("Two", q(id, "Req"), q(id, "Res"), "GET", "/{org}/{id}/{n}"), RPC("None", q(id, "Req"), q(id, "Res"), "GET", "/plain")),
		}
		out = append(out, oasReq(id, f, "path-vars"))
	}
	{ // query parameters: duplicate names, same name as a path variable, on a body verb
		id := "oasquery"
		f := &File{Messages: []*Message{
			M("Dup", F("a", 1, "string", Query("q", false)), F("b", 2, "int32", Query("q", true))),
			M("Mixed", F("id", 1, "string"), F("sel", 2, "string", Query("id", false)), F("page", 3, "int32", Query("", true)), F("big", 4, "uint64", Query("big", false)),
				F("flag", 5, "bool", Query("flag", false)), F("ratio", 6, "double", Query("ratio", false))),
			res(),
		}}
		f.Services = []*Service{
			Svc("QDup", "/q", RPC("Do", q(id, "Dup"), q(id, "Res"), "GET", "/do")),
			Svc("QMixed", "/x", RPC("Get", q(id, "Mixed"), q(id, "Res"), "GET", "/m/{id}"), RPC("Post", q(id, "Mixed"), q(id, "Res"), "POST", "/m/{id}")),
		}
		out = append(out, oasReq(id, f, "query"))
	}
	{ // shared (verb, path)
		id := "oasshared"
		f := &File{Messages: []*Message{M("Req", F("id", 1, "string")), M("Other", F("o", 1, "string")), res()}}
		f.Services = []*Service{Svc("Shared", "/s",
			RPC("First", q(id, "Req"), q(id, "Res"), "POST", "/same"), RPC("Second", q(id, "Other"), q(id, "Res"), "POST", "/same"),
			RPC("Third", q(id, "Req"), q(id, "Res"), "GET", "/same"))}
		out = append(out, oasReq(id, f, "shared-route"))
	}
	{ // words that YAML 1.1 reads as booleans, in every position a scalar can take
		id := "oasyaml11"
		f := &File{
			Enums: []*Enum{E("Answer", "NO", "YES", "MAYBE"), E("Switch", "OFF", "ON"),
				{Name: "Custom", Values: []*EnumValue{{Name: "CUSTOM_UNSPECIFIED", Number: 0}, {Name: "CUSTOM_YES", Number: 1, EnumValue: Str("yes")}, {Name: "CUSTOM_Y", Number: 2, EnumValue: Str("Y")}}}},
			Messages: []*Message{
				M("Words", F("answer", 1, "", EnumT(q(id, "Answer"))), F("sw", 2, "", EnumT(q(id, "Switch"))), F("custom", 3, "", EnumT(q(id, "Custom")))),
				M("Keys", F("no", 1, "string"), F("on", 2, "string"), F("y", 3, "int32"), F("fine", 4, "string")),
				M("Yes", F("v", 1, "string")),
				M("Req", F("w", 1, "", Msg(q(id, "Words"))), F("k", 2, "", Msg(q(id, "Keys"))), F("yes", 3, "", Msg(q(id, "Yes")))),
				res(),
			}}
		f.Services = []*Service{
			Svc("EnumWords", "/e", RPC("Do", q(id, "Words"), q(id, "Res"), "POST", "/do")),
			Svc("KeyWords", "/k", RPC("Do", q(id, "Keys"), q(id, "Res"), "POST", "/do")),
			Svc("MsgName", "/m", RPC("Do", q(id, "Yes"), q(id, "Res"), "POST", "/do")),
			Svc("OpName", "/o", RPC("No", q(id, "Res"), q(id, "Res"), "POST", "/no"), RPC("On", q(id, "Res"), q(id, "Res"), "POST", "/on")),
			Svc("On", "/svc", RPC("Do", q(id, "Res"), q(id, "Res"), "POST", "/do")),
			Svc("Hdr", "/h", RPC("Do", q(id, "Res"), q(id, "Res"), "POST", "/do")).WithHeaders(&Header{Name: "Y", Type: "string", Format: "on"}),
			Svc("PathVar", "/p", RPC("Do", q(id, "Keys"), q(id, "Res"), "GET", "/x/{no}")),
		}
		out = append(out, oasReq(id, f, "yaml11"))
	}
	{ // scalars that every YAML reader resolves away from a string: custom enum values and discriminator values
		id := "oasplain"
		f := &File{
			Enums: []*Enum{{Name: "Level", Values: []*EnumValue{{Name: "LEVEL_UNSPECIFIED", Number: 0, EnumValue: Str("0")}, {Name: "LEVEL_ONE", Number: 1, EnumValue: Str("1")},
				{Name: "LEVEL_T", Number: 2, EnumValue: Str("true")}, {Name: "LEVEL_N", Number: 3, EnumValue: Str("null")}, {Name: "NULL", Number: 4}, {Name: "TRUE", Number: 5}, {Name: "LEVEL_F", Number: 6, EnumValue: Str("1.5")}}}},
			Messages: []*Message{
				M("Lv", F("level", 1, "", EnumT(q(id, "Level"))), F("ex", 2, "string", Examples("123", "plain", "true")), F("n", 3, "int32", Examples("7"))),
				M("Circle", F("r", 1, "double")), M("Square", F("side", 1, "double")),
				M("Shape", F("id", 1, "string"), F("circle", 2, "", Msg(q(id, "Circle")), InOneof("kind"), OneofVal("1")), F("square", 3, "", Msg(q(id, "Square")), InOneof("kind"), OneofVal("null"))).
					WithOneofs(&Oneof{Name: "kind", HasConfig: true, Discriminator: "type", Flatten: true}),
				res(),
			}}
		f.Services = []*Service{Svc("Plain", "/p", RPC("Lv", q(id, "Lv"), q(id, "Res"), "POST", "/lv"), RPC("Shape", q(id, "Shape"), q(id, "Res"), "POST", "/shape"))}
		out = append(out, oasReq(id, f, "untagged-scalars"))
	}
	{ // integer literals that a float64 cannot hold (examples, const / in rules, header examples): the renderings must keep every digit
		id := "oasbigint"
		sp := func(x string) *string { return &x }
		f := &File{
			Messages: []*Message{
				M("Acct", F("id", 1, "int64", Examples("9223372036854775807", "9007199254740993")), F("uid", 2, "uint64", Examples("18446744073709551615")),
					F("code", 3, "string", Examples("00123")), F("lim", 4, "int64", WithRules(&Rules{NumConst: sp("9007199254740993")})),
					F("pick", 5, "int64", WithRules(&Rules{NumIn: []string{"1234567890123456789", "-9223372036854775808"}})),
					F("cap", 6, "uint64", WithRules(&Rules{NumLte: sp("18446744073709551615")})), F("small", 7, "int32", Examples("9007199254740992"))),
				res(),
			}}
		f.Services = []*Service{Svc("Big", "/b", RPC("Do", q(id, "Acct"), q(id, "Res"), "POST", "/do").WithHeaders(&Header{Name: "X-Trace", Type: "integer", Example: "9223372036854775807"}))}
		out = append(out, oasReq(id, f, "big-integers"))
	}
	{ // a digit-only example beyond 64 bits (the YAML-to-JSON conversion goes through float64 there)
		id := "oasbeyond64"
		f := &File{Messages: []*Message{M("Acct", F("code", 1, "string", Examples("12345678901234567890123"))), res()}}
		f.Services = []*Service{Svc("Big", "/b", RPC("Do", q(id, "Acct"), q(id, "Res"), "POST", "/do"))}
		out = append(out, oasReq(id, f, "big-integers"))
	}
	{ // Timestamp as RPC input/output and as field
		id := "oasts"
		f := &File{Messages: []*Message{M("Req", F("at", 1, "", Msg(Timestamp)), F("ats", 2, "", Msg(Timestamp), Rep()), F("by", 3, "", Msg(Timestamp), MapOf("string"))), res()}}
		f.Services = []*Service{Svc("Ts", "/ts", RPC("Now", Timestamp, Timestamp, "POST", "/now"), RPC("Do", q(id, "Req"), q(id, "Res"), "POST", "/do"))}
		out = append(out, oasReq(id, f, "timestamp"))
	}
	{ // empty message, optional + nullable, empty_behavior NULL on Timestamp and message
		id := "oasmisc"
		f := &File{Messages: []*Message{
			M("Nothing"),
			M("Req", F("n", 1, "", Msg(q(id, "Nothing"))), F("nick", 2, "string", Opt(), Nullable(true)), F("count", 3, "int64", Opt(), Nullable(true)),
				F("e", 4, "", Msg(q(id, "Nothing")), Empty("NULL")), F("t", 5, "", Msg(Timestamp), Empty("NULL")), F("mixed_Case_name", 6, "string"), F("a1b_2c", 7, "string")),
			res(),
		}}
		f.Services = []*Service{Svc("Misc", "/misc", RPC("Do", q(id, "Req"), q(id, "Nothing"), "POST", "/do"))}
		out = append(out, oasReq(id, f, "misc"))
	}
	{ // nullable = true on optional fields whose schema carries an `enum` keyword: makeNullableSchema appends a !!null member
		// (enum names, enum_value custom strings, enum_encoding NUMBER, string / numeric `in` rules), next to the same
		// fields without nullable and a nullable field without `enum`
		id := "oasnullenum"
		shade := &Enum{Name: "Shade", Values: []*EnumValue{{Name: "SHADE_UNSPECIFIED", Number: 0, EnumValue: Str("none")}, {Name: "SHADE_DARK", Number: 1, EnumValue: Str("dark")}}}
		f := &File{Enums: []*Enum{E("Color", "COLOR_UNSPECIFIED", "COLOR_RED"), shade}, Messages: []*Message{
			M("Req", F("color", 1, "", EnumT(q(id, "Color")), Opt(), Nullable(true)), F("shade", 2, "", EnumT(q(id, "Shade")), Opt(), Nullable(true)),
				F("color_num", 3, "", EnumT(q(id, "Color")), Opt(), Nullable(true), EnumEnc("NUMBER")),
				F("mode", 4, "string", Opt(), Nullable(true), WithRules(&Rules{StrIn: []string{"fast", "null", "7"}})),
				F("level", 5, "int32", Opt(), Nullable(true), WithRules(&Rules{NumIn: []string{"1", "2"}})),
				F("plain_color", 6, "", EnumT(q(id, "Color")), Opt()), F("plain_mode", 7, "string", Opt(), WithRules(&Rules{StrIn: []string{"fast"}})),
				F("nick", 8, "string", Opt(), Nullable(true)), F("not_null", 9, "", EnumT(q(id, "Color")), Opt(), Nullable(false))),
			res(),
		}}
		f.Services = []*Service{Svc("NulEnum", "/ne", RPC("Do", q(id, "Req"), q(id, "Res"), "POST", "/do"))}
		out = append(out, oasReq(id, f, "nullable-enum"))
	}
	return out
}

func oasRuleField(name, kind string, r *Rules, opts ...FieldOpt) *Field {
	o := append([]FieldOpt{WithRules(r)}, opts...)
	return F(name, 0, kind, o...)
}

var oasNumericKinds = []string{"int32", "int64", "uint32", "uint64", "sint32", "sint64", "fixed32", "fixed64", "sfixed32", "sfixed64", "float", "double"}

// OASRuleFields: every supported rule kind x field kind, with bounds at zero, negative, extreme and above 2^53.
func OASRuleFields() []*Field {
	var fs []*Field
	add := func(f *Field) { fs = append(fs, f) }
	// strings
	add(oasRuleField("s_min", "string", &Rules{MinLen: U(2)}))
	add(oasRuleField("s_max", "string", &Rules{MaxLen: U(3)}))
	add(oasRuleField("s_minmax", "string", &Rules{MinLen: U(1), MaxLen: U(4)}))
	add(oasRuleField("s_zero", "string", &Rules{MinLen: U(0), MaxLen: U(0)}))
	add(oasRuleField("s_len", "string", &Rules{Len: U(3)}))
	add(oasRuleField("s_pattern", "string", &Rules{Pattern: Str("^[a-z]+[0-9]$")}))
	// patterns of the RE2/ECMA-262 common subset whose TEXT is delicate: escaped backslashes followed by a letter that
	// is an escape of its own (\\A \\z \\b \\d), escaped metacharacters, quotes, classes, bounded repetition, groups
	for i, pat := range []string{`^[A-Z]:\\Apps\\[a-z]+$`, `^\\\\nas\\zips\\[0-9]+$`, `^a\.b\\d$`, `^\d{2,3}$`, `^(?:x|y)+$`, `^[^\s"']+$`, `^\$[0-9]+\.[0-9]{2}$`, `^/api/v[0-9]+$`,
		`^\\b\\B$`, `^[\w.+-]+@[\w-]+$`, `^a{0}b?$`, `^\(\)\[\]\{\}$`} {
		add(oasRuleField(fmt.Sprintf("s_pat%d", i), "string", &Rules{Pattern: Str(pat)}))
	}
	add(oasRuleField("s_in", "string", &Rules{StrIn: []string{"red", "green", "dark-blue"}}))
	add(oasRuleField("s_not_in", "string", &Rules{StrNotIn: []string{"root", "admin"}}))
	add(oasRuleField("s_const", "string", &Rules{StrConst: Str("fixed")}))
	add(oasRuleField("s_const_num", "string", &Rules{StrConst: Str("123")}))
	add(oasRuleField("s_in_empty", "string", &Rules{StrIn: []string{"", "x"}}))
	add(oasRuleField("s_const_empty", "string", &Rules{StrConst: Str("")}))
	add(oasRuleField("s_const_bool", "string", &Rules{StrConst: Str("true")}))
	add(oasRuleField("s_in_mixed", "string", &Rules{StrIn: []string{"null", "1.5", "ok", "-7"}}))
	add(oasRuleField("s_in_yes", "string", &Rules{StrIn: []string{"yes", "no"}}))
	add(oasRuleField("s_all", "string", &Rules{Required: true, MinLen: U(1), MaxLen: U(8), Pattern: Str("^a"), StrIn: []string{"a", "ab", "abcdefghij", "b"}}))
	for _, w := range []string{"email", "uuid", "uri", "hostname", "ip", "ipv4", "ipv6"} {
		add(oasRuleField("s_"+w, "string", &Rules{WellKnown: w}))
		add(oasRuleField("s_"+w+"_off", "string", &Rules{WellKnownOff: w, MaxLen: U(64)}))
	}
	add(oasRuleField("s_opt", "string", &Rules{MinLen: U(2)}, Opt()))
	add(oasRuleField("s_req", "string", &Rules{Required: true}))
	// numeric: the same rule shapes for every numeric kind
	for _, k := range oasNumericKinds {
		neg := k[0] != 'u' && k[:3] != "fix"
		lo, hi := "5", "10"
		if neg {
			lo = "-5"
		}
		add(oasRuleField(k+"_gte_lte", k, &Rules{NumGte: Str(lo), NumLte: Str(hi)}))
		add(oasRuleField(k+"_gt_lt", k, &Rules{NumGt: Str(lo), NumLt: Str(hi)}))
		add(oasRuleField(k+"_gte0", k, &Rules{NumGte: Str("0")}))
		add(oasRuleField(k+"_const", k, &Rules{NumConst: Str("7")}))
		add(oasRuleField(k+"_in", k, &Rules{NumIn: []string{"1", "2", "30"}}))
		add(oasRuleField(k+"_rev", k, &Rules{NumGte: Str("10"), NumLte: Str("5")}))
	}
	// 64-bit: NUMBER encoding, bounds around 2^53 and at the extremes
	for _, k := range []string{"int64", "uint64", "sint64"} {
		add(oasRuleField(k+"_num_small", k, &Rules{NumGte: Str("1"), NumLte: Str("100")}, I64("NUMBER")))
		add(oasRuleField(k+"_num_2p53", k, &Rules{NumLte: Str("9007199254740993")}, I64("NUMBER")))
		add(oasRuleField(k+"_num_2p53ok", k, &Rules{NumLte: Str("9007199254740992")}, I64("NUMBER")))
		add(oasRuleField(k+"_num_const", k, &Rules{NumConst: Str("42")}, I64("NUMBER")))
	}
	add(oasRuleField("int64_num_min", "int64", &Rules{NumGte: Str("-9223372036854775807"), NumLte: Str("9223372036854775806")}, I64("NUMBER")))
	add(oasRuleField("int64_str_2p53", "int64", &Rules{NumGte: Str("9007199254740993")}))
	add(oasRuleField("int64_str_enc", "int64", &Rules{NumGte: Str("3")}, I64("STRING")))
	add(oasRuleField("int32_extreme", "int32", &Rules{NumGte: Str("-2147483648"), NumLte: Str("2147483647")}))
	add(oasRuleField("int32_neg_in", "int32", &Rules{NumIn: []string{"-1", "0", "1"}, NumConst: Str("0")}))
	add(oasRuleField("int32_opt", "int32", &Rules{NumGte: Str("1")}, Opt()))
	// float vs double: bounds that are / are not short decimals in float32
	add(oasRuleField("float_short", "float", &Rules{NumGte: Str("1.5"), NumLte: Str("100")}))
	add(oasRuleField("float_wide", "float", &Rules{NumGte: Str("1.1"), NumLte: Str("3.3")}))
	add(oasRuleField("double_frac", "double", &Rules{NumGte: Str("0.1"), NumLte: Str("1.1")}))
	add(oasRuleField("double_big", "double", &Rules{NumLte: Str("1e21"), NumGte: Str("-1e21")}))
	add(oasRuleField("double_in", "double", &Rules{NumIn: []string{"0.5", "2.5", "1000000"}, NumConst: Str("2.5")}))
	add(oasRuleField("float_in", "float", &Rules{NumIn: []string{"0.5", "0.1"}}))
	// repeated
	add(oasRuleField("r_min", "string", &Rules{MinItems: U(1)}, Rep()))
	add(oasRuleField("r_max", "int32", &Rules{MaxItems: U(2)}, Rep()))
	add(oasRuleField("r_minmax", "int64", &Rules{MinItems: U(1), MaxItems: U(3)}, Rep()))
	add(oasRuleField("r_unique_s", "string", &Rules{Unique: B(true)}, Rep()))
	add(oasRuleField("r_unique_i64", "int64", &Rules{Unique: B(true), MaxItems: U(3)}, Rep()))
	add(oasRuleField("r_unique_d", "double", &Rules{Unique: B(true)}, Rep()))
	add(oasRuleField("r_unique_false", "string", &Rules{Unique: B(false), MinItems: U(2)}, Rep()))
	add(oasRuleField("r_bool", "bool", &Rules{MinItems: U(1), MaxItems: U(2)}, Rep()))
	add(oasRuleField("r_items_s", "string", &Rules{MinItems: U(1), MinLen: U(2)}, Rep()))
	add(oasRuleField("r_items_n", "int32", &Rules{MaxItems: U(3), NumGte: Str("0")}, Rep()))
	// map
	add(oasRuleField("m_min", "string", &Rules{MinPairs: U(1)}, MapOf("string")))
	add(oasRuleField("m_max", "int32", &Rules{MaxPairs: U(2)}, MapOf("string")))
	add(oasRuleField("m_minmax", "int64", &Rules{MinPairs: U(1), MaxPairs: U(2)}, MapOf("int32")))
	add(oasRuleField("m_values", "string", &Rules{MinPairs: U(1), MaxLen: U(2)}, MapOf("string")))
	// required on other kinds
	add(oasRuleField("b_req", "bool", &Rules{Required: true}))
	add(oasRuleField("by_req", "bytes", &Rules{Required: true}))
	return fs
}

// OASRulesRequests packs the rule fields into messages of at most 12 fields (one request each) and
// returns, per request, the fields in order.
func OASRulesRequests(fields []*Field, prefix string) []*Request {
	var out []*Request
	const per = 12
	for i := 0; i < len(fields); i += per {
		j := i + per
		if j > len(fields) {
			j = len(fields)
		}
		id := fmt.Sprintf("%s%d", prefix, i/per)
		m := M("Req")
		for n, f := range fields[i:j] {
			g := *f
			g.Number = int32(n + 1)
			m.Fields = append(m.Fields, &g)
		}
		fl := &File{Messages: []*Message{m, M("Res", F("ok", 1, "bool"))}}
		fl.Services = []*Service{Svc("Rules", "/r", RPC("Do", id+".v1.Req", id+".v1.Res", "POST", "/do"))}
		out = append(out, oasReq(id, fl, "rules"))
	}
	return out
}

// RandomRuleFields draws seeded rule-carrying fields.
func RandomRuleFields(rng *rand.Rand, n int) []*Field {
	var fs []*Field
	pickNum := func(k string) string {
		pool := []string{"0", "1", "2", "7", "100", "255", "1000", "65536", "2147483647"}
		if k[0] != 'u' && k[:3] != "fix" {
			pool = append(pool, "-1", "-7", "-100", "-2147483648")
		}
		if oasIs64Kind(k) {
			pool = append(pool, "9007199254740992", "9007199254740993", "4611686018427387905")
		}
		if oasIsFloatKind(k) {
			pool = append(pool, "0.5", "1.1", "2.25", "0.1", "1e10", "3.14159")
		}
		return pool[rng.Intn(len(pool))]
	}
	words := []string{"a", "ab", "abc", "red", "true", "null", "12", "x-1", "yes", "Zed", "0.5", "hello"}
	for i := 0; i < n; i++ {
		name := fmt.Sprintf("rnd_%d", i)
		switch rng.Intn(4) {
		case 0: // string
			r := &Rules{}
			if rng.Intn(2) == 0 {
				r.MinLen = U(uint64(rng.Intn(4)))
			}
			if rng.Intn(2) == 0 {
				r.MaxLen = U(uint64(1 + rng.Intn(5)))
			}
			if rng.Intn(5) == 0 {
				r.Len = U(uint64(rng.Intn(4)))
			}
			if rng.Intn(3) == 0 {
				for k := 0; k < 1+rng.Intn(3); k++ {
					r.StrIn = append(r.StrIn, words[rng.Intn(len(words))])
				}
			}
			if rng.Intn(5) == 0 {
				r.StrNotIn = []string{words[rng.Intn(len(words))]}
			}
			if rng.Intn(5) == 0 {
				r.StrConst = Str(words[rng.Intn(len(words))])
			}
			if rng.Intn(4) == 0 {
				r.Pattern = Str([]string{"^a", "b$", "^[a-z]*$", "[0-9]"}[rng.Intn(4)])
			}
			r.Required = rng.Intn(4) == 0
			fs = append(fs, oasRuleField(name, "string", r))
		case 1, 2: // numeric
			k := oasNumericKinds[rng.Intn(len(oasNumericKinds))]
			r := &Rules{}
			switch rng.Intn(4) {
			case 0:
				r.NumGte = Str(pickNum(k))
			case 1:
				r.NumLte = Str(pickNum(k))
			case 2:
				r.NumGte, r.NumLte = Str(pickNum(k)), Str(pickNum(k))
			case 3:
				r.NumGt = Str(pickNum(k))
			}
			if rng.Intn(5) == 0 {
				r.NumConst = Str(pickNum(k))
			}
			if rng.Intn(4) == 0 {
				r.NumIn = []string{pickNum(k), pickNum(k)}
			}
			var opts []FieldOpt
			if oasIs64Kind(k) && rng.Intn(2) == 0 {
				opts = append(opts, I64("NUMBER"))
			}
			fs = append(fs, oasRuleField(name, k, r, opts...))
		case 3: // collections
			r := &Rules{}
			if rng.Intn(2) == 0 {
				kinds := []string{"string", "int32", "int64", "double", "bool"}
				if rng.Intn(2) == 0 {
					r.MinItems = U(uint64(rng.Intn(3)))
				}
				if rng.Intn(2) == 0 {
					r.MaxItems = U(uint64(1 + rng.Intn(3)))
				}
				if rng.Intn(3) == 0 {
					r.Unique = B(true)
				}
				fs = append(fs, oasRuleField(name, kinds[rng.Intn(len(kinds))], r, Rep()))
			} else {
				if rng.Intn(2) == 0 {
					r.MinPairs = U(uint64(rng.Intn(3)))
				}
				r.MaxPairs = U(uint64(1 + rng.Intn(3)))
				fs = append(fs, oasRuleField(name, []string{"string", "int32", "int64"}[rng.Intn(3)], r, MapOf("string")))
			}
		}
	}
	return fs
}

// OASRequiredRequests: `required` rules on fields of every object-schema shape (plain, nested and
// flattened discriminated oneof, flatten with and without prefix, root unwrap).
func OASRequiredRequests() []*Request {
	id := "oasreq"
	q := func(t string) string { return id + ".v1." + t }
	req := &Rules{Required: true}
	f := &File{Messages: []*Message{
		M("Plain", F("id", 1, "string", WithRules(req)), F("note", 2, "string"), F("count", 3, "int32", WithRules(&Rules{Required: true, NumGte: Str("1")})),
			F("tags", 4, "string", Rep(), WithRules(&Rules{Required: true, MinItems: U(1)})), F("opt_name", 5, "string", Opt(), WithRules(req))),
		M("Addr", F("street", 1, "string", WithRules(req)), F("zip", 2, "string")),
		M("Flat", F("id", 1, "string", WithRules(req)), F("home", 2, "", Msg(q("Addr")), Flatten(true)), F("work", 3, "", Msg(q("Addr")), Flatten(true), FlattenPrefix("work_"))),
		M("FlatNoReq", F("id", 1, "string", WithRules(req)), F("meta", 2, "", Msg(q("Meta")), Flatten(true))),
		M("Meta", F("k", 1, "string"), F("v", 2, "string")),
		M("Circle", F("radius", 1, "double", WithRules(req))), M("Square", F("side", 1, "double")),
		M("ShapeFlat", F("id", 1, "string", WithRules(req)), F("circle", 2, "", Msg(q("Circle")), InOneof("kind")), F("square", 3, "", Msg(q("Square")), InOneof("kind"))).
			WithOneofs(&Oneof{Name: "kind", HasConfig: true, Discriminator: "type", Flatten: true}),
		M("ShapeFlatNoReq", F("label", 1, "string"), F("square", 3, "", Msg(q("Square")), InOneof("kind"))).
			WithOneofs(&Oneof{Name: "kind", HasConfig: true, Discriminator: "type", Flatten: true}),
		M("ShapeNested", F("id", 1, "string", WithRules(req)), F("circle", 2, "", Msg(q("Circle")), InOneof("kind")), F("text", 3, "string", InOneof("kind"))).
			WithOneofs(&Oneof{Name: "kind", HasConfig: true, Discriminator: "type"}),
		M("Res", F("ok", 1, "bool")),
	}}
	svc := &Service{Name: "Req", BasePath: "/req", HasConfig: true}
	for _, t := range []string{"Plain", "Flat", "FlatNoReq", "ShapeFlat", "ShapeFlatNoReq", "ShapeNested"} {
		svc.Methods = append(svc.Methods, RPC("Do"+t, q(t), q("Res"), "POST", "/"+t))
	}
	f.Services = []*Service{svc}
	return []*Request{oasReq(id, f, "required")}
}
