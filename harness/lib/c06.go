package lib

import (
	"encoding/hex"
	"encoding/json"
	"fmt"
	"math"
	"math/rand"
	"net/url"
	"regexp"
	"sort"
	"strconv"
	"strings"

	"google.golang.org/protobuf/types/dynamicpb"
)


// errKind maps a reference-validator message to a small class (no values, no paths, no prose).
func errKind(e string) string {
	if i := strings.LastIndex(e, "KIND="); i >= 0 {
		k := e[i+5:]
		switch k {
		case "minimum", "maximum", "exclusiveMinimum", "exclusiveMaximum":
			return "bound"
		case "minLength", "maxLength":
			return "length"
		}
		return k
	}
	if strings.Contains(e, "validator exception") {
		return "validator-exception"
	}
	return "other"
}

func errClass(e string) string {
	path, _, _ := strings.Cut(e, ": ")
	if len(path) > 60 {
		path = path[:60]
	}
	return regexp.MustCompile(`\d+`).ReplaceAllString(path, "*") + ":" + errKind(e)
}

type c06Case struct {
	id, family, docID string
	schema            any
	instance          any
	input             map[string]any
	feature           string
}

// paramInstance reads a URL/header string under the parameter schema's type ("string serialisation").
func paramInstance(schema map[string]any, raw string) any {
	t, _ := schema["type"].(string)
	switch t {
	case "integer":
		if n, err := strconv.ParseInt(raw, 10, 64); err == nil {
			return n
		}
		if n, err := strconv.ParseUint(raw, 10, 64); err == nil {
			return n
		}
	case "number":
		if f, err := strconv.ParseFloat(raw, 64); err == nil && !math.IsNaN(f) && !math.IsInf(f, 0) {
			return f
		}
	case "boolean":
		if raw == "true" {
			return true
		}
		if raw == "false" {
			return false
		}
	}
	return raw
}

func CheckC06(run *Run) {
	run.Proof = CheckProofs("C06")
	run.Prepare()
	reqs := append(FeatureCatalogue(), KindsRequest(), SiblingRequest())
	for _, r := range RouteCatalogue() {
		if r.ID == "rt1" || r.ID == "rt5" {
			reqs = append(reqs, r)
		}
	}
	rng := rand.New(rand.NewSource(run.Seed + 606))
	perRPC := 3
	if run.Tier == "thorough" {
		perRPC = 30
	}
	s := NewSession(run, reqs)
	s.BuildRuntime(false)
	vg := &ValueGen{Rng: rng, NoUnknownEnum: true}
	docs := map[string]any{}
	type rpcRef struct {
		r    *Request
		g    *GenOutput
		svc  *Service
		md   *Method
		op   map[string]any
		doc  string
		kind string
	}
	var scen []any
	var refs []rpcRef
	var cases []*c06Case
	addCase := func(c *c06Case) { c.id = fmt.Sprintf("%s#%d", c.id, len(cases)); cases = append(cases, c) }
	for i, r := range reqs {
		g := s.Gens[i]
		oa := g.Results["openapiv3"]
		if oa.Exit != "ok" {
			continue
		}
		for _, f := range r.Files {
			for _, svc := range f.Services {
				text, ok := oa.Files[svc.Name+".openapi.yaml"]
				if !ok {
					continue
				}
				doc, err := ParseYAML(text)
				if err != nil {
					run.Fatal("%s: %v", r.ID, err)
				}
				docID := r.ID + "/" + svc.Name
				docs[docID] = doc
				ops := map[string]map[string]any{}
				for _, o := range OpenAPIOps(doc) {
					ops[o.OperationID] = o.Raw
				}
				// satisfiability of every component schema of a message of this request: default + full value
				comps, _ := doc["components"].(map[string]any)
				schemas, _ := comps["schemas"].(map[string]any)
				_ = schemas
				if !s.InRunner[r.ID] {
					continue
				}
				for _, md := range svc.Methods {
					op := ops[md.Name]
					if op == nil {
						continue
					}
					in := g.Built.MessageDesc(md.In)
					out := g.Built.MessageDesc(md.Out)
					for k := 0; k < perRPC+2; k++ {
						var rm, resp *dynamicpb.Message
						switch k {
						case 0:
							rm, resp = dynamicpb.NewMessage(in), dynamicpb.NewMessage(out)
						case 1:
							rm, resp = vg.Random(in, 1.0), vg.Random(out, 1.0)
						default:
							rm, resp = vg.Random(in, 0.6), vg.Random(out, 0.6)
						}
						pathBoundNonEmpty(rm, md, rng)
						scen = append(scen, map[string]any{"id": fmt.Sprint(len(scen)), "kind": "call", "pkg": r.ID, "service": svc.Name, "method": md.Name,
							"req": WireHex(rm), "script": map[string]any{"resp": WireHex(resp)}, "opts": map[string]any{"ContentType": "application/json"}})
						refs = append(refs, rpcRef{r, g, svc, md, op, docID, "success"})
					}
					// error responses: handler error (default), malformed body (400)
					scen = append(scen, map[string]any{"id": fmt.Sprint(len(scen)), "kind": "call", "pkg": r.ID, "service": svc.Name, "method": md.Name,
						"req": WireHex(dynamicpb.NewMessage(in)), "script": map[string]any{"err": map[string]any{"kind": "plain", "msg": "boom"}}, "opts": map[string]any{"ContentType": "application/json"}})
					refs = append(refs, rpcRef{r, g, svc, md, op, docID, "handler-error"})
					scen = append(scen, map[string]any{"id": fmt.Sprint(len(scen)), "kind": "call", "pkg": r.ID, "service": svc.Name, "method": md.Name,
						"req": WireHex(dynamicpb.NewMessage(in)), "script": map[string]any{}, "validate": []map[string]any{{"path": []string{"a", "b"}, "msg": "bad"}}, "opts": map[string]any{"ContentType": "application/json"}})
					refs = append(refs, rpcRef{r, g, svc, md, op, docID, "validation-error"})
				}
			}
		}
	}
	raw, err := RunScenarios(s.Runner, scen, 8)
	if err != nil {
		run.Fatal("runner: %v", err)
	}
	respSchema := func(op map[string]any, code string) any {
		rs, _ := op["responses"].(map[string]any)
		r, _ := rs[code].(map[string]any)
		c, _ := r["content"].(map[string]any)
		j, _ := c["application/json"].(map[string]any)
		return j["schema"]
	}
	for i, ref := range refs {
		var o RunnerObs
		if err := json.Unmarshal(raw[i], &o); err != nil || o.Error != "" {
			run.Fatal("bad observation %d: %v %s", i, err, o.Error)
		}
		base := map[string]any{"schema": ref.r.ID, "service": ref.svc.Name, "method": ref.md.Name, "scenario": ref.kind}
		parse := func(h string) (any, bool) {
			b, _ := hex.DecodeString(h)
			if len(b) == 0 {
				return nil, false
			}
			var v any
			if json.Unmarshal(b, &v) != nil {
				return string(b), true
			}
			return v, true
		}
		feat := ref.r.ID + "." + ref.md.Name
		if len(o.Requests) > 0 && ref.kind == "success" {
			rq := o.Requests[0]
			// request body
			if rb, ok := op2(ref.op, "requestBody", "content", "application/json", "schema"); ok {
				if inst, has := parse(rq.BodyHex); has {
					addCase(&c06Case{id: fmt.Sprintf("%d.reqbody", i), family: "request-body", docID: ref.doc, schema: rb, instance: inst, input: merge(base, "direction", "request"), feature: feat})
				}
			}
			// parameters
			params, _ := ref.op["parameters"].([]any)
			q, _ := url.ParseQuery(rq.RawQuery)
			// path parameter values: align the template with the sent path
			for _, pv := range params {
				pm, _ := pv.(map[string]any)
				name, _ := pm["name"].(string)
				sch, _ := pm["schema"].(map[string]any)
				switch pm["in"] {
				case "query":
					for _, v := range q[name] {
						addCase(&c06Case{id: fmt.Sprintf("%d.q.%s", i, name), family: "query-parameter", docID: ref.doc, schema: sch, instance: paramInstance(sch, v), input: merge(base, "parameter", name, "raw", v), feature: feat})
					}
				case "path":
					tsegs := strings.Split(pathTemplateOf(ref.doc, docs, ref.md.Name), "/")
					rsegs := strings.Split(rq.Path, "/")
					if len(tsegs) == len(rsegs) {
						for k, ts := range tsegs {
							if ts == "{"+name+"}" {
								v, _ := url.PathUnescape(rsegs[k])
								addCase(&c06Case{id: fmt.Sprintf("%d.p.%s", i, name), family: "path-parameter", docID: ref.doc, schema: sch, instance: paramInstance(sch, v), input: merge(base, "parameter", name, "raw", v), feature: feat})
							}
						}
					}
				}
			}
		}
		// response body by status (JSON answers of the generated server only: a text/plain 404 of the mux is not sebuf's)
		isJSON := false
		if ct := o.RespHeader["Content-Type"]; len(ct) > 0 && strings.HasPrefix(ct[0], "application/json") {
			isJSON = true
		}
		if inst, has := parse(o.RespBodyHex); has && isJSON {
			code := "default"
			switch {
			case o.Status == 200:
				code = "200"
			case o.Status == 400:
				code = "400"
			}
			if sch := respSchema(ref.op, code); sch != nil {
				addCase(&c06Case{id: fmt.Sprintf("%d.resp", i), family: "response-body-" + code, docID: ref.doc, schema: sch, instance: inst, input: merge(base, "status", o.Status), feature: feat})
			}
		}
	}
	// reference validation
	checks := make([]*SchemaCheck, len(cases))
	for i, c := range cases {
		checks[i] = &SchemaCheck{ID: c.id, Doc: c.docID, Schema: c.schema, Instance: c.instance}
	}
	verdicts, err := RefValidate(docs, checks)
	if err != nil {
		run.Fatal("%v", err)
	}
	for _, c := range cases {
		v := verdicts[c.id]
		holds := v.Valid && len(v.Undescribed) == 0
		var classes []string
		for _, e := range v.Errors {
			classes = append(classes, errClass(e))
		}
		for _, u := range v.Undescribed {
			classes = append(classes, "undescribed:"+regexp.MustCompile(`\[\d+\]`).ReplaceAllString(u, "[*]"))
		}
		sort.Strings(classes)
		classes = dedup(classes)
		note := strings.Join(classes, " ; ")
		cr := &CaseResult{ID: c.id, Family: c.family, Input: merge(c.input, "instance", c.instance), Obs: map[string]any{"valid": v.Valid, "undescribed": len(v.Undescribed)},
			OracleHolds: holds, OracleNote: note, NonTrivial: true, Features: []string{c.family}}
		// no Coq model of the schema generator yet for this property's instances: oracle only (Z3)
		cr.Unmodelled = "instance/schema pair evaluated by the reference validator only"
		if !holds {
			kinds := map[string]bool{}
			for _, e := range v.Errors {
				kinds[errKind(e)] = true
			}
			if len(v.Undescribed) > 0 {
				kinds["undescribed-property"] = true
			}
			fam := "body"
			if strings.HasSuffix(c.family, "-parameter") {
				fam = "parameter"
			}
			for k := range kinds {
				cr.Tags = append(cr.Tags, "z3:"+strings.SplitN(c.feature, ".", 2)[0]+":"+fam+":"+k)
			}
			sort.Strings(cr.Tags)
		}
		run.Results = append(run.Results, cr)
	}
	run.Extra["documents"] = len(docs)
	run.Finish()
}

func dedup(xs []string) []string {
	var out []string
	for i, x := range xs {
		if i == 0 || x != xs[i-1] {
			out = append(out, x)
		}
	}
	return out
}

func merge(m map[string]any, kv ...any) map[string]any {
	out := map[string]any{}
	for k, v := range m {
		out[k] = v
	}
	for i := 0; i+1 < len(kv); i += 2 {
		out[kv[i].(string)] = kv[i+1]
	}
	return out
}

func op2(m map[string]any, path ...string) (any, bool) {
	var cur any = m
	for _, p := range path {
		mm, ok := cur.(map[string]any)
		if !ok {
			return nil, false
		}
		cur, ok = mm[p]
		if !ok {
			return nil, false
		}
	}
	return cur, true
}

func pathTemplateOf(docID string, docs map[string]any, opID string) string {
	doc, _ := docs[docID].(map[string]any)
	for _, o := range OpenAPIOps(doc) {
		if o.OperationID == opID {
			return o.Path
		}
	}
	return ""
}
