package lib

import (
	"encoding/hex"
	"encoding/json"
	"fmt"
	"math"
	"math/rand"
	"net/url"
	"regexp"
	"sort"
	"strconv"
	"strings"

	"google.golang.org/protobuf/reflect/protoreflect"
	"google.golang.org/protobuf/types/dynamicpb"
)

// c06.go — C06: wire JSON bodies and URL values validate against the generated OpenAPI document.
//
// Oracle (implementation artefacts only): generated Go client -> generated Go server over httptest; the captured
// request bodies, path / query values and 200 / 400 / default response bodies are validated by the reference
// validator (harness/py/validate.py: python jsonschema, Draft 2020-12, plus the "property no schema describes"
// walk) against the documents protoc-gen-openapiv3 emitted for the same service.
//
// Correspondence: for every case inside the model's domain Coq evaluates Conform.predict_C06 (vm_compute) on
// (prepared document of the service = OpenApi.v model of the components, message type, value, float print table):
// the MODEL's wire JSON (Codec.encode / Errors.pmsg_pj / the typed URL value) is validated by JsonSchema.validates
// against the MODEL's schema, and {"valid", "undescribed"} is compared with the reference validator's verdict on
// the real document and the real JSON.  Defect tags of modelled cases come from Conform.defects_C06.
// Outside the domain (model says unmodelled, or no model term: URL values of optional / repeated / enum / bytes
// fields, error bodies of requests the server rejected for unscripted reasons) the case is oracle-only (Z3) and a
// failure is tagged z3:<schema>:<body|parameter>:<error kind>.

// errKind maps a reference-validator message to a small class (no values, no paths, no prose).
func errKind(e string) string {
	if i := strings.LastIndex(e, "KIND="); i >= 0 {
		k := e[i+5:]
		switch k {
		case "minimum", "maximum", "exclusiveMinimum", "exclusiveMaximum":
			return "bound"
		case "minLength", "maxLength":
			return "length"
		}
		return k
	}
	if strings.Contains(e, "validator exception") {
		return "validator-exception"
	}
	return "other"
}

func errClass(e string) string {
	path, _, _ := strings.Cut(e, ": ")
	if len(path) > 60 {
		path = path[:60]
	}
	return regexp.MustCompile(`\d+`).ReplaceAllString(path, "*") + ":" + errKind(e)
}

type c06Case struct {
	id, family, docID string
	schema            any
	instance          any
	input             map[string]any
	feature           string
	group             int    // index of the request (Coq definitions group); -1 = no model case
	term              string // Coq term of type c06_case
}

// paramInstance reads a URL/header string under the parameter schema's type ("string serialisation").
func paramInstance(schema map[string]any, raw string) any {
	t, _ := schema["type"].(string)
	switch t {
	case "integer":
		if n, err := strconv.ParseInt(raw, 10, 64); err == nil {
			return n
		}
		if n, err := strconv.ParseUint(raw, 10, 64); err == nil {
			return n
		}
	case "number":
		if f, err := strconv.ParseFloat(raw, 64); err == nil && !math.IsNaN(f) && !math.IsInf(f, 0) {
			return f
		}
	case "boolean":
		if raw == "true" {
			return true
		}
		if raw == "false" {
			return false
		}
	}
	return raw
}

func CheckC06(run *Run) {
	run.Proof = CheckProofs("C06")
	run.Prepare()
	reqs := append(FeatureCatalogue(), KindsRequest(), SiblingRequest())
	for _, r := range RouteCatalogue() {
		if r.ID == "rt1" || r.ID == "rt5" {
			reqs = append(reqs, r)
		}
	}
	// URL-bound fields that the body schema REQUIRES (buf.validate required): what the clients put into the body of a
	// PUT/PATCH/POST with path variables must still satisfy the published requestBody schema
	{
		id := "c6reqbody"
		pkg := id + ".v1"
		req := &Rules{Required: true}
		// (only fields that are path-bound in the message's single RPC carry the rule: the harness keeps path-bound values
		// non-empty, other values are not drawn to satisfy rules)
		f := &File{Messages: []*Message{
			M("PutNoteReq", F("note_id", 1, "string", WithRules(req)), F("title", 2, "string"), F("body", 3, "string")),
			M("PatchRevReq", F("note_id", 1, "string", WithRules(req)), F("rev", 2, "string", WithRules(req)), F("body", 3, "string")),
			M("NoteResp", F("ok", 1, "bool")),
		}}
		f.Services = []*Service{Svc("Notes", "/api",
			RPC("PutNote", pkg+".PutNoteReq", pkg+".NoteResp", "PUT", "/notes/{note_id}"),
			RPC("PatchRev", pkg+".PatchRevReq", pkg+".NoteResp", "PATCH", "/notes/{note_id}/rev/{rev}"))}
		r := OneFile(id, pkg, f)
		r.Tags = []string{"runtime", "required-url-fields"}
		reqs = append(reqs, r)
	}
	// annotated constructs in every context, and shapes added by later rounds (nullable enum, empty_behavior on Timestamp)
	for _, r := range CodecCatalogue() {
		if hasTag(r, "contexts") || r.ID == "cxnullenum" || r.ID == "cxemptyts" {
			reqs = append(reqs, r)
		}
	}
	rng := rand.New(rand.NewSource(run.Seed + 606))
	perRPC := 3
	if run.Tier == "thorough" {
		perRPC = 30
	}
	s := NewSession(run, reqs)
	s.BuildRuntime(false)
	vg := &ValueGen{Rng: rng, NoUnknownEnum: true}
	docs := map[string]any{}
	type rpcRef struct {
		r    *Request
		g    *GenOutput
		svc  *Service
		md   *Method
		op   map[string]any
		doc  string
		kind string
		ri   int
		docT string // name of the prepared c06_doc definition
		rm   *dynamicpb.Message
		resp *dynamicpb.Message
	}
	var scen []any
	var refs []rpcRef
	var cases []*c06Case
	addCase := func(c *c06Case) { c.id = fmt.Sprintf("%s#%d", c.id, len(cases)); cases = append(cases, c) }
	groups := make([]CoqGroup, len(reqs))
	for i, r := range reqs {
		g := s.Gens[i]
		oa := g.Results["openapiv3"]
		if oa.Exit != "ok" {
			continue
		}
		groups[i].Defs = fmt.Sprintf("Definition sc_%d : schema := %s.\nDefinition sd_%d : side := %s.\n", i, CoqSchema(r), i, CoqSide(r))
		for fi, f := range r.Files {
			for si, svc := range f.Services {
				text, ok := oa.Files[svc.Name+".openapi.yaml"]
				if !ok {
					continue
				}
				doc, err := ParseYAML(text)
				if err != nil {
					run.Fatal("%s: %v", r.ID, err)
				}
				docID := r.ID + "/" + svc.Name
				docs[docID] = doc
				docT := fmt.Sprintf("doc_%d_%d_%d", i, fi, si)
				groups[i].Defs += fmt.Sprintf("Definition %s : c06_doc := Eval vm_compute in prepare_C06 sc_%d sd_%d %d%%nat %d%%nat.\n", docT, i, i, fi, si)
				ops := map[string]map[string]any{}
				for _, o := range OpenAPIOps(doc) {
					ops[o.OperationID] = o.Raw
				}
				// satisfiability of every component schema of a message of this request: default + full value
				comps, _ := doc["components"].(map[string]any)
				schemas, _ := comps["schemas"].(map[string]any)
				_ = schemas
				if !s.InRunner[r.ID] {
					continue
				}
				for _, md := range svc.Methods {
					op := ops[md.Name]
					if op == nil {
						continue
					}
					// routes that demand headers answer 400 to the header-less calls of this check (header values are
					// C09's subject; they are not captured here)
					if len(svc.Headers) > 0 || len(md.Headers) > 0 {
						continue
					}
					in := g.Built.MessageDesc(md.In)
					out := g.Built.MessageDesc(md.Out)
					for k := 0; k < perRPC+2; k++ {
						var rm, resp *dynamicpb.Message
						switch k {
						case 0:
							rm, resp = dynamicpb.NewMessage(in), dynamicpb.NewMessage(out)
						case 1:
							rm, resp = vg.Random(in, 1.0), vg.Random(out, 1.0)
						default:
							rm, resp = vg.Random(in, 0.6), vg.Random(out, 0.6)
						}
						pathBoundNonEmpty(rm, md, rng)
						scen = append(scen, map[string]any{"id": fmt.Sprint(len(scen)), "kind": "call", "pkg": r.ID, "service": svc.Name, "method": md.Name,
							"req": WireHex(rm), "script": map[string]any{"resp": WireHex(resp)}, "opts": map[string]any{"ContentType": "application/json"}})
						refs = append(refs, rpcRef{r, g, svc, md, op, docID, "success", i, docT, rm, resp})
						if k == 1 {
							// the same exchange under a request Content-Type the server does not recognise (it treats it as JSON):
							// the bodies are the same documents and must validate all the same
							scen = append(scen, map[string]any{"id": fmt.Sprint(len(scen)), "kind": "call", "pkg": r.ID, "service": svc.Name, "method": md.Name,
								"req": WireHex(rm), "script": map[string]any{"resp": WireHex(resp)}, "opts": map[string]any{"ContentType": "text/plain"}})
							// (only the RESPONSE is looked at: what the Go client writes under a content type it does not know is
							// not a JSON request body in the property's sense)
							refs = append(refs, rpcRef{r, g, svc, md, op, docID, "success-other-content-type", i, docT, rm, resp})
						}
					}
					// error responses: handler error (default), malformed body (400)
					scen = append(scen, map[string]any{"id": fmt.Sprint(len(scen)), "kind": "call", "pkg": r.ID, "service": svc.Name, "method": md.Name,
						"req": WireHex(dynamicpb.NewMessage(in)), "script": map[string]any{"err": map[string]any{"kind": "plain", "msg": "boom"}}, "opts": map[string]any{"ContentType": "application/json"}})
					refs = append(refs, rpcRef{r, g, svc, md, op, docID, "handler-error", i, docT, nil, nil})
					scen = append(scen, map[string]any{"id": fmt.Sprint(len(scen)), "kind": "call", "pkg": r.ID, "service": svc.Name, "method": md.Name,
						"req": WireHex(dynamicpb.NewMessage(in)), "script": map[string]any{}, "validate": []map[string]any{{"path": []string{"a", "b"}, "msg": "bad"}}, "opts": map[string]any{"ContentType": "application/json"}})
					refs = append(refs, rpcRef{r, g, svc, md, op, docID, "validation-error", i, docT, nil, nil})
					// a violation that carries no field path (message-level rule, oneof rule), next to one with a long path
					scen = append(scen, map[string]any{"id": fmt.Sprint(len(scen)), "kind": "call", "pkg": r.ID, "service": svc.Name, "method": md.Name,
						"req": WireHex(dynamicpb.NewMessage(in)), "script": map[string]any{}, "validate": []map[string]any{{"path": []string{}, "msg": "either title or text must be set"},
							{"path": []string{"items", "3", "name"}, "msg": "too long"}}, "opts": map[string]any{"ContentType": "application/json"}})
					refs = append(refs, rpcRef{r, g, svc, md, op, docID, "validation-error-message-level", i, docT, nil, nil})
				}
			}
		}
	}
	raw, err := RunScenarios(s.Runner, scen, 8)
	if err != nil {
		run.Fatal("runner: %v", err)
	}
	respSchema := func(op map[string]any, code string) any {
		rs, _ := op["responses"].(map[string]any)
		r, _ := rs[code].(map[string]any)
		c, _ := r["content"].(map[string]any)
		j, _ := c["application/json"].(map[string]any)
		return j["schema"]
	}
	for i, ref := range refs {
		var o RunnerObs
		if err := json.Unmarshal(raw[i], &o); err != nil || o.Error != "" {
			run.Fatal("bad observation %d: %v %s", i, err, o.Error)
		}
		base := map[string]any{"schema": ref.r.ID, "service": ref.svc.Name, "method": ref.md.Name, "scenario": ref.kind}
		parse := func(h string) (any, bool) {
			b, _ := hex.DecodeString(h)
			if len(b) == 0 {
				return nil, false
			}
			var v any
			if json.Unmarshal(b, &v) != nil {
				return string(b), true
			}
			return v, true
		}
		feat := ref.r.ID + "." + ref.md.Name
		bodyTerm := func(tn string, m *dynamicpb.Message) string {
			_, term := MsgCanon(m)
			ft := NewFloatTabs()
			ft.AddMessage(m)
			p, st := ft.Coq()
			return fmt.Sprintf("(%s, WBody %s %s, %s, %s)", ref.docT, CoqStr(tn), term, p, st)
		}
		paramTerm := func(fd protoreflect.FieldDescriptor) string {
			if fd == nil || fd.IsList() || fd.IsMap() || fd.HasPresence() || ref.rm == nil {
				return ""
			}
			switch fd.Kind() {
			case protoreflect.MessageKind, protoreflect.GroupKind, protoreflect.EnumKind, protoreflect.BytesKind:
				return ""
			}
			_, sv := scalarCanon(fd, ref.rm.Get(fd))
			return fmt.Sprintf("(%s, WParam %s (%s), [], [])", ref.docT, coqKind(fd.Kind().String(), ""), sv)
		}
		if len(o.Requests) > 0 && ref.kind == "success" {
			rq := o.Requests[0]
			// request body
			if rb, ok := op2(ref.op, "requestBody", "content", "application/json", "schema"); ok {
				if inst, has := parse(rq.BodyHex); has {
					addCase(&c06Case{id: fmt.Sprintf("%d.reqbody", i), family: "request-body", docID: ref.doc, schema: rb, instance: inst, input: merge(base, "direction", "request"), feature: feat,
						group: ref.ri, term: bodyTerm(ref.md.In, ref.rm)})
				}
			}
			// parameters
			params, _ := ref.op["parameters"].([]any)
			q, _ := url.ParseQuery(rq.RawQuery)
			// path parameter values: align the template with the sent path
			for _, pv := range params {
				pm, _ := pv.(map[string]any)
				name, _ := pm["name"].(string)
				sch, _ := pm["schema"].(map[string]any)
				switch pm["in"] {
				case "query":
					var qfd protoreflect.FieldDescriptor
					if in, _ := ref.r.FindMessage(ref.md.In); in != nil && ref.rm != nil {
						for _, sf := range in.Fields {
							if sf.Query != nil && (sf.Query.Name == name || (sf.Query.Name == "" && sf.Name == name)) {
								qfd = ref.rm.Descriptor().Fields().ByName(protoreflect.Name(sf.Name))
							}
						}
					}
					for _, v := range q[name] {
						addCase(&c06Case{id: fmt.Sprintf("%d.q.%s", i, name), family: "query-parameter", docID: ref.doc, schema: sch, instance: paramInstance(sch, v), input: merge(base, "parameter", name, "raw", v), feature: feat,
							group: ref.ri, term: paramTerm(qfd)})
					}
				case "path":
					tsegs := strings.Split(pathTemplateOf(ref.doc, docs, ref.md.Name), "/")
					rsegs := strings.Split(rq.Path, "/")
					if len(tsegs) == len(rsegs) {
						for k, ts := range tsegs {
							if ts == "{"+name+"}" {
								v, _ := url.PathUnescape(rsegs[k])
								var pfd protoreflect.FieldDescriptor
								if ref.rm != nil {
									pfd = ref.rm.Descriptor().Fields().ByName(protoreflect.Name(name))
								}
								addCase(&c06Case{id: fmt.Sprintf("%d.p.%s", i, name), family: "path-parameter", docID: ref.doc, schema: sch, instance: paramInstance(sch, v), input: merge(base, "parameter", name, "raw", v), feature: feat,
									group: ref.ri, term: paramTerm(pfd)})
							}
						}
					}
				}
			}
		}
		// response body by status (JSON answers of the generated server only: a text/plain 404 of the mux is not sebuf's)
		isJSON := false
		if ct := o.RespHeader["Content-Type"]; len(ct) > 0 && strings.HasPrefix(ct[0], "application/json") {
			isJSON = true
		}
		if inst, has := parse(o.RespBodyHex); has && isJSON {
			code := "default"
			switch {
			case o.Status == 200:
				code = "200"
			case o.Status == 400:
				code = "400"
			}
			if sch := respSchema(ref.op, code); sch != nil {
				term := ""
				switch {
				case (ref.kind == "success" || ref.kind == "success-other-content-type") && o.Status == 200:
					term = bodyTerm(ref.md.Out, ref.resp)
				case ref.kind == "handler-error" && o.Status == 500:
					term = fmt.Sprintf("(%s, WError %s, [], [])", ref.docT, CoqStr("boom"))
				case ref.kind == "validation-error" && o.Status == 400 && len(o.HandlerCalls) == 0 && c06IsStubViolation(inst):
					term = fmt.Sprintf("(%s, WValidation [(%s, %s)], [], [])", ref.docT, CoqStr("a.b"), CoqStr("bad"))
				}
				addCase(&c06Case{id: fmt.Sprintf("%d.resp", i), family: "response-body-" + code, docID: ref.doc, schema: sch, instance: inst, input: merge(base, "status", o.Status), feature: feat,
					group: ref.ri, term: term})
			}
		}
	}
	// reference validation
	checks := make([]*SchemaCheck, len(cases))
	for i, c := range cases {
		checks[i] = &SchemaCheck{ID: c.id, Doc: c.docID, Schema: c.schema, Instance: c.instance}
	}
	verdicts, err := RefValidate(docs, checks)
	if err != nil {
		run.Fatal("%v", err)
	}
	groupRes := make([][]*CaseResult, len(reqs))
	for _, c := range cases {
		v := verdicts[c.id]
		holds := v.Valid && len(v.Undescribed) == 0
		var classes []string
		for _, e := range v.Errors {
			classes = append(classes, errClass(e))
		}
		for _, u := range v.Undescribed {
			classes = append(classes, "undescribed:"+regexp.MustCompile(`\[\d+\]`).ReplaceAllString(u, "[*]"))
		}
		sort.Strings(classes)
		classes = dedup(classes)
		note := strings.Join(classes, " ; ")
		cr := &CaseResult{ID: c.id, Family: c.family, Input: merge(c.input, "instance", c.instance), Obs: map[string]any{"valid": v.Valid, "undescribed": len(v.Undescribed)},
			OracleHolds: holds, OracleNote: note, NonTrivial: true, Features: []string{c.family}}
		if c.term != "" {
			// inside the model's domain: the model's verdict (Conform.predict_C06: the MODEL's schema on the MODEL's
			// wire JSON) is compared with the reference validator's verdict on the real document and the real JSON
			groups[c.group].Cases = append(groups[c.group].Cases, CoqCase{Term: c.term, Obs: cr.Obs})
			groupRes[c.group] = append(groupRes[c.group], cr)
			run.Results = append(run.Results, cr)
			continue
		}
		// outside: oracle only (Z3)
		cr.Unmodelled = "instance/schema pair evaluated by the reference validator only"
		c06Z3Tags(cr, c, v, holds)
		run.Results = append(run.Results, cr)
	}
	vs, err := CoqRunGroups(run.WorkDir, "c06", "From Sebuf Require Import Conform.\n", "c06_case", "predict_C06", groups, 16)
	if err != nil {
		run.Fatal("model evaluation: %v", err)
	}
	byID := map[string]*c06Case{}
	for _, c := range cases {
		byID[c.id] = c
	}
	for gi := range groups {
		for k, cr := range groupRes[gi] {
			cr.Apply(vs[gi][k])
			if cr.Unmodelled != "" {
				c := byID[cr.ID]
				v := verdicts[c.id]
				c06Z3Tags(cr, c, v, v.Valid && len(v.Undescribed) == 0)
			}
		}
	}
	run.Extra["documents"] = len(docs)
	debugDump(run)
	run.Finish()
}

// c06IsStubViolation: the 400 body is the scripted violation (not a header / binding rejection of the request).
func c06IsStubViolation(inst any) bool {
	m, _ := inst.(map[string]any)
	vs, _ := m["violations"].([]any)
	if len(vs) != 1 {
		return false
	}
	v, _ := vs[0].(map[string]any)
	return v["field"] == "a.b" && v["description"] == "bad"
}

// c06Z3Tags tags a failing case outside the model from its input and the reference validator's error kinds.
func c06Z3Tags(cr *CaseResult, c *c06Case, v *SchemaVerdict, holds bool) {
	if holds {
		return
	}
	cr.Tags = nil
	kinds := map[string]bool{}
	for _, e := range v.Errors {
		kinds[errKind(e)] = true
	}
	if len(v.Undescribed) > 0 {
		kinds["undescribed-property"] = true
	}
	fam := "body"
	if strings.HasSuffix(c.family, "-parameter") {
		fam = "parameter"
	}
	for k := range kinds {
		cr.Tags = append(cr.Tags, "z3:"+strings.SplitN(c.feature, ".", 2)[0]+":"+fam+":"+k)
	}
	sort.Strings(cr.Tags)
}

func dedup(xs []string) []string {
	var out []string
	for i, x := range xs {
		if i == 0 || x != xs[i-1] {
			out = append(out, x)
		}
	}
	return out
}

func merge(m map[string]any, kv ...any) map[string]any {
	out := map[string]any{}
	for k, v := range m {
		out[k] = v
	}
	for i := 0; i+1 < len(kv); i += 2 {
		out[kv[i].(string)] = kv[i+1]
	}
	return out
}

func op2(m map[string]any, path ...string) (any, bool) {
	var cur any = m
	for _, p := range path {
		mm, ok := cur.(map[string]any)
		if !ok {
			return nil, false
		}
		cur, ok = mm[p]
		if !ok {
			return nil, false
		}
	}
	return cur, true
}

func pathTemplateOf(docID string, docs map[string]any, opID string) string {
	doc, _ := docs[docID].(map[string]any)
	for _, o := range OpenAPIOps(doc) {
		if o.OperationID == opID {
			return o.Path
		}
	}
	return ""
}
