package lib

import "fmt"

var urlKinds = []string{"string", "int32", "int64", "uint32", "uint64", "sint32", "sint64", "fixed32", "fixed64", "sfixed32", "sfixed64", "bool", "double", "float"}

// KindsRequest: every scalar kind in path, query and body position, for every verb class.
func KindsRequest() *Request {
	id := "rtkinds"
	pkg := "rtkinds.v1"
	f := &File{Enums: []*Enum{E("Color", "COLOR_UNSPECIFIED", "COLOR_RED", "COLOR_BLUE")}}
	f.Messages = append(f.Messages, M("Resp", F("ok", 1, "bool"), F("echo", 2, "string"), F("n", 3, "int64"),
		F("items", 4, "string", Rep()), F("inner", 5, "", Msg(pkg+".Inner")), F("m", 6, "int32", MapOf("string")),
		F("color", 7, "", EnumT(pkg+".Color")), F("raw", 8, "bytes"), F("d", 9, "double"), F("opt", 10, "int32", Opt()),
		F("at", 11, "", Msg(Timestamp))))
	f.Messages = append(f.Messages, M("Inner", F("a", 1, "string"), F("b", 2, "uint64"), F("deep", 3, "", Msg(pkg+".Inner")), F("list", 4, "", Msg(pkg+".Inner"), Rep())))
	svc := &Service{Name: "Kinds", BasePath: "/k", HasConfig: true}
	for i, k := range urlKinds {
		// GET with this kind as path variable and as query parameter
		name := fmt.Sprintf("GetK%d", i)
		req := M(name+"Req", F("pv", 1, k), F("qv", 2, k, Query("", false)), F("other_q", 3, "string", Query("o", false)))
		f.Messages = append(f.Messages, req)
		svc.Methods = append(svc.Methods, RPC(name, pkg+"."+name+"Req", pkg+".Resp", "GET", fmt.Sprintf("/g%d/{pv}", i)))
		// DELETE with two path variables
		name = fmt.Sprintf("DelK%d", i)
		req = M(name+"Req", F("pv", 1, k), F("second", 2, "string"))
		f.Messages = append(f.Messages, req)
		svc.Methods = append(svc.Methods, RPC(name, pkg+"."+name+"Req", pkg+".Resp", "DELETE", fmt.Sprintf("/d%d/{pv}/x/{second}", i)))
		// PUT with the kind in path and body
		name = fmt.Sprintf("PutK%d", i)
		req = M(name+"Req", F("pv", 1, k), F("bv", 2, k), F("blist", 3, k, Rep()), F("inner", 4, "", Msg(pkg+".Inner")))
		f.Messages = append(f.Messages, req)
		svc.Methods = append(svc.Methods, RPC(name, pkg+"."+name+"Req", pkg+".Resp", "PUT", fmt.Sprintf("/p%d/{pv}", i)))
	}
	// body shapes on POST / PATCH
	f.Messages = append(f.Messages, M("Big",
		F("id", 1, "string"), F("inner", 2, "", Msg(pkg+".Inner")), F("inners", 3, "", Msg(pkg+".Inner"), Rep()),
		F("by_name", 4, "", Msg(pkg+".Inner"), MapOf("string")), F("by_num", 5, "string", MapOf("int64")),
		F("color", 6, "", EnumT(pkg+".Color")), F("colors", 7, "", EnumT(pkg+".Color"), Rep()), F("raw", 8, "bytes"),
		F("o_s", 9, "string", Opt()), F("o_i", 10, "int64", Opt()), F("o_b", 11, "bool", Opt()),
		F("c_text", 12, "string", InOneof("choice")), F("c_num", 13, "int32", InOneof("choice")), F("c_msg", 14, "", Msg(pkg+".Inner"), InOneof("choice")),
		F("f32", 15, "float"), F("f64", 16, "double"), F("u64", 17, "uint64"), F("s64", 18, "sint64"), F("fx", 19, "fixed64"),
		F("at", 20, "", Msg(Timestamp)), F("flags", 21, "bool", Rep()), F("by_bool", 22, "int32", MapOf("bool"))).WithOneofs(&Oneof{Name: "choice"}))
	svc.Methods = append(svc.Methods,
		RPC("PostBig", pkg+".Big", pkg+".Big", "POST", "/big"),
		RPC("PatchBig", pkg+".Big", pkg+".Big", "PATCH", "/big/{id}"),
		RPC("PlainPost", pkg+".Big", pkg+".Resp", "", "/plain"))
	f.Services = []*Service{svc}
	r := OneFile(id, pkg, f)
	r.Tags = []string{"runtime", "kinds"}
	return r
}

// SiblingRequest: a wildcard route next to a more specific literal route, and a required query
// parameter on a body verb.
func SiblingRequest() *Request {
	id := "rtsib"
	pkg := "rtsib.v1"
	f := &File{Messages: []*Message{
		M("Resp", F("ok", 1, "bool"), F("echo", 2, "string")),
		M("ByID", F("id", 1, "string")),
		M("Empty"),
		M("Upd", F("id", 1, "string"), F("mode", 2, "string", Query("mode", true)), F("note", 3, "string")),
		M("UpdOpt", F("id", 1, "string"), F("mode", 2, "string", Query("mode", false)), F("note", 3, "string")),
	}}
	f.Services = []*Service{Svc("Sib", "/s",
		RPC("GetItem", pkg+".ByID", pkg+".Resp", "GET", "/items/{id}"),
		RPC("GetSpecial", pkg+".Empty", pkg+".Resp", "GET", "/items/special"),
		RPC("Update", pkg+".Upd", pkg+".Resp", "PUT", "/items/{id}"),
		RPC("UpdateOpt", pkg+".UpdOpt", pkg+".Resp", "PATCH", "/items/{id}"),
		RPC("Search", pkg+".SearchReq", pkg+".Resp", "GET", "/search/{id}"),
	)}
	f.Messages = append(f.Messages, M("SearchReq", F("id", 1, "string"), F("limit", 2, "int32", Query("limit", true)), F("q", 3, "string", Query("q", true)), F("page", 4, "int32", Query("page", false))))
	r := OneFile(id, pkg, f)
	r.Tags = []string{"runtime", "sibling"}
	return r
}

// RuntimeCatalogue: the schemas whose emitted Go code is compiled and driven.
func RuntimeCatalogue() []*Request {
	out := RouteCatalogue()
	out = append(out, KindsRequest(), SiblingRequest(), DoubleSlashRequest(), NoSlashRequest(), OddTemplateRequest())
	return out
}

// RawRequest: server-only package (the Go client does not compile with repeated query fields)
// with repeated, required and enum/bytes-typed query parameters.
func RawRequest() *Request {
	id := "rtraw"
	pkg := "rtraw.v1"
	f := &File{Enums: []*Enum{E("Color", "COLOR_UNSPECIFIED", "COLOR_RED")}}
	f.Messages = []*Message{
		M("Resp", F("ok", 1, "bool")),
		M("ListReq", F("tenant", 1, "string"), F("tags", 2, "string", Rep(), Query("tag", false)), F("ids", 3, "int64", Rep(), Query("id", false)),
			F("limit", 4, "uint32", Query("limit", true)), F("flag", 5, "bool", Query("", false)), F("color", 6, "", EnumT(pkg+".Color"), Query("color", false))),
		M("UpdReq", F("tenant", 1, "string"), F("n", 2, "sint32"), F("mode", 3, "string", Query("mode", false)), F("note", 4, "string"), F("count", 5, "int32"),
			F("raw", 6, "bytes", Query("raw", false))),
	}
	f.Services = []*Service{Svc("Raw", "/raw",
		RPC("List", pkg+".ListReq", pkg+".Resp", "GET", "/t/{tenant}/items"),
		RPC("Drop", pkg+".ListReq", pkg+".Resp", "DELETE", "/t/{tenant}/items"),
		RPC("Upd", pkg+".UpdReq", pkg+".Resp", "PUT", "/t/{tenant}/n/{n}"),
		RPC("Patch", pkg+".UpdReq", pkg+".Resp", "PATCH", "/t/{tenant}/n/{n}"),
		RPC("Post", pkg+".UpdReq", pkg+".Resp", "POST", "/t/{tenant}/n/{n}"),
	)}
	r := OneFile(id, pkg, f)
	r.Tags = []string{"runtime", "server-only"}
	return r
}

// OddTemplateRequest: a base path holding a variable and a literal segment containing an escape.
func OddTemplateRequest() *Request {
	id := "rtodd"
	pkg := "rtodd.v1"
	f := &File{Messages: []*Message{
		M("Resp", F("ok", 1, "bool")),
		M("TReq", F("tenant", 1, "string"), F("id", 2, "string"), F("note", 3, "string")),
		M("PReq", F("id", 1, "string"), F("note", 2, "string")),
	}}
	f.Services = []*Service{
		Svc("Tenanted", "/t/{tenant}", RPC("PutItem", pkg+".TReq", pkg+".Resp", "PUT", "/items/{id}")),
		Svc("Pct", "/p", RPC("PutPct", pkg+".PReq", pkg+".Resp", "PUT", "/a%41/{id}"), RPC("PutOk", pkg+".PReq", pkg+".Resp", "PUT", "/plain/{id}")),
	}
	r := OneFile(id, pkg, f)
	r.Tags = []string{"runtime", "odd-template"}
	return r
}
