package lib

import (
	"fmt"
	"math/rand"
	"strings"
)

var urlKinds = []string{"string", "int32", "int64", "uint32", "uint64", "sint32", "sint64", "fixed32", "fixed64", "sfixed32", "sfixed64", "bool", "double", "float"}

// KindsRequest: every scalar kind in path, query and body position, for every verb class.
func KindsRequest() *Request {
	id := "rtkinds"
	pkg := "rtkinds.v1"
	f := &File{Enums: []*Enum{E("Color", "COLOR_UNSPECIFIED", "COLOR_RED", "COLOR_BLUE")}}
	f.Messages = append(f.Messages, M("Resp", F("ok", 1, "bool"), F("echo", 2, "string"), F("n", 3, "int64"),
		F("items", 4, "string", Rep()), F("inner", 5, "", Msg(pkg+".Inner")), F("m", 6, "int32", MapOf("string")),
		F("color", 7, "", EnumT(pkg+".Color")), F("raw", 8, "bytes"), F("d", 9, "double"), F("opt", 10, "int32", Opt()),
		F("at", 11, "", Msg(Timestamp))))
	f.Messages = append(f.Messages, M("Inner", F("a", 1, "string"), F("b", 2, "uint64"), F("deep", 3, "", Msg(pkg+".Inner")), F("list", 4, "", Msg(pkg+".Inner"), Rep())))
	svc := &Service{Name: "Kinds", BasePath: "/k", HasConfig: true}
	for i, k := range urlKinds {
		// GET with this kind as path variable and as query parameter
		name := fmt.Sprintf("GetK%d", i)
		req := M(name+"Req", F("pv", 1, k), F("qv", 2, k, Query("", false)), F("other_q", 3, "string", Query("o", false)))
		f.Messages = append(f.Messages, req)
		svc.Methods = append(svc.Methods, RPC(name, pkg+"."+name+"Req", pkg+".Resp", "GET", fmt.Sprintf("/g%d/{pv}", i)))
		// DELETE with two path variables
		name = fmt.Sprintf("DelK%d", i)
		req = M(name+"Req", F("pv", 1, k), F("second", 2, "string"))
		f.Messages = append(f.Messages, req)
		svc.Methods = append(svc.Methods, RPC(name, pkg+"."+name+"Req", pkg+".Resp", "DELETE", fmt.Sprintf("/d%d/{pv}/x/{second}", i)))
		// PUT with the kind in path and body
		name = fmt.Sprintf("PutK%d", i)
		req = M(name+"Req", F("pv", 1, k), F("bv", 2, k), F("blist", 3, k, Rep()), F("inner", 4, "", Msg(pkg+".Inner")))
		f.Messages = append(f.Messages, req)
		svc.Methods = append(svc.Methods, RPC(name, pkg+"."+name+"Req", pkg+".Resp", "PUT", fmt.Sprintf("/p%d/{pv}", i)))
	}
	// body shapes on POST / PATCH
	f.Messages = append(f.Messages, M("Big",
		F("id", 1, "string"), F("inner", 2, "", Msg(pkg+".Inner")), F("inners", 3, "", Msg(pkg+".Inner"), Rep()),
		F("by_name", 4, "", Msg(pkg+".Inner"), MapOf("string")), F("by_num", 5, "string", MapOf("int64")),
		F("color", 6, "", EnumT(pkg+".Color")), F("colors", 7, "", EnumT(pkg+".Color"), Rep()), F("raw", 8, "bytes"),
		F("o_s", 9, "string", Opt()), F("o_i", 10, "int64", Opt()), F("o_b", 11, "bool", Opt()),
		F("c_text", 12, "string", InOneof("choice")), F("c_num", 13, "int32", InOneof("choice")), F("c_msg", 14, "", Msg(pkg+".Inner"), InOneof("choice")),
		F("f32", 15, "float"), F("f64", 16, "double"), F("u64", 17, "uint64"), F("s64", 18, "sint64"), F("fx", 19, "fixed64"),
		F("at", 20, "", Msg(Timestamp)), F("flags", 21, "bool", Rep()), F("by_bool", 22, "int32", MapOf("bool"))).WithOneofs(&Oneof{Name: "choice"}))
	svc.Methods = append(svc.Methods,
		RPC("PostBig", pkg+".Big", pkg+".Big", "POST", "/big"),
		RPC("PatchBig", pkg+".Big", pkg+".Big", "PATCH", "/big/{id}"),
		RPC("PlainPost", pkg+".Big", pkg+".Resp", "", "/plain"))
	f.Services = []*Service{svc}
	r := OneFile(id, pkg, f)
	r.Tags = []string{"runtime", "kinds"}
	return r
}

// SiblingRequest: a wildcard route next to a more specific literal route, and a required query
// parameter on a body verb.
func SiblingRequest() *Request {
	id := "rtsib"
	pkg := "rtsib.v1"
	f := &File{Messages: []*Message{
		M("Resp", F("ok", 1, "bool"), F("echo", 2, "string")),
		M("ByID", F("id", 1, "string")),
		M("Empty"),
		M("Upd", F("id", 1, "string"), F("mode", 2, "string", Query("mode", true)), F("note", 3, "string")),
		M("UpdOpt", F("id", 1, "string"), F("mode", 2, "string", Query("mode", false)), F("note", 3, "string")),
	}}
	f.Services = []*Service{Svc("Sib", "/s",
		RPC("GetItem", pkg+".ByID", pkg+".Resp", "GET", "/items/{id}"),
		RPC("GetSpecial", pkg+".Empty", pkg+".Resp", "GET", "/items/special"),
		RPC("Update", pkg+".Upd", pkg+".Resp", "PUT", "/items/{id}"),
		RPC("UpdateOpt", pkg+".UpdOpt", pkg+".Resp", "PATCH", "/items/{id}"),
		RPC("Search", pkg+".SearchReq", pkg+".Resp", "GET", "/search/{id}"),
	)}
	f.Messages = append(f.Messages, M("SearchReq", F("id", 1, "string"), F("limit", 2, "int32", Query("limit", true)), F("q", 3, "string", Query("q", true)), F("page", 4, "int32", Query("page", false))))
	r := OneFile(id, pkg, f)
	r.Tags = []string{"runtime", "sibling"}
	return r
}

// RuntimeCatalogue: the schemas whose emitted Go code is compiled and driven.
func RuntimeCatalogue() []*Request {
	out := RouteCatalogue()
	out = append(out, KindsRequest(), SiblingRequest(), DoubleSlashRequest(), NoSlashRequest(), OddTemplateRequest())
	return out
}

// RawRequest: server-only package (the Go client does not compile with repeated query fields)
// with repeated, required and enum/bytes-typed query parameters.
func RawRequest() *Request {
	id := "rtraw"
	pkg := "rtraw.v1"
	f := &File{Enums: []*Enum{E("Color", "COLOR_UNSPECIFIED", "COLOR_RED")}}
	f.Messages = []*Message{
		M("Resp", F("ok", 1, "bool")),
		M("ListReq", F("tenant", 1, "string"), F("tags", 2, "string", Rep(), Query("tag", false)), F("ids", 3, "int64", Rep(), Query("id", false)),
			F("limit", 4, "uint32", Query("limit", true)), F("flag", 5, "bool", Query("", false)), F("color", 6, "", EnumT(pkg+".Color"), Query("color", false))),
		M("UpdReq", F("tenant", 1, "string"), F("n", 2, "sint32"), F("mode", 3, "string", Query("mode", false)), F("note", 4, "string"), F("count", 5, "int32"),
			F("raw", 6, "bytes", Query("raw", false))),
	}
	f.Services = []*Service{Svc("Raw", "/raw",
		RPC("List", pkg+".ListReq", pkg+".Resp", "GET", "/t/{tenant}/items"),
		RPC("Drop", pkg+".ListReq", pkg+".Resp", "DELETE", "/t/{tenant}/items"),
		RPC("Upd", pkg+".UpdReq", pkg+".Resp", "PUT", "/t/{tenant}/n/{n}"),
		RPC("Patch", pkg+".UpdReq", pkg+".Resp", "PATCH", "/t/{tenant}/n/{n}"),
		RPC("Post", pkg+".UpdReq", pkg+".Resp", "POST", "/t/{tenant}/n/{n}"),
	)}
	r := OneFile(id, pkg, f)
	r.Tags = []string{"runtime", "server-only"}
	return r
}

// OddTemplateRequest: a base path holding a variable and a literal segment containing an escape.
func OddTemplateRequest() *Request {
	id := "rtodd"
	pkg := "rtodd.v1"
	f := &File{Messages: []*Message{
		M("Resp", F("ok", 1, "bool")),
		M("TReq", F("tenant", 1, "string"), F("id", 2, "string"), F("note", 3, "string")),
		M("PReq", F("id", 1, "string"), F("note", 2, "string")),
	}}
	f.Services = []*Service{
		Svc("Tenanted", "/t/{tenant}", RPC("PutItem", pkg+".TReq", pkg+".Resp", "PUT", "/items/{id}")),
		Svc("Pct", "/p", RPC("PutPct", pkg+".PReq", pkg+".Resp", "PUT", "/a%41/{id}"), RPC("PutOk", pkg+".PReq", pkg+".Resp", "PUT", "/plain/{id}")),
	}
	r := OneFile(id, pkg, f)
	r.Tags = []string{"runtime", "odd-template"}
	return r
}

// ---- path variables versus declaration order ------------------------------------------------------
//
// The path template lists its variables in URL order; the request message declares the bound fields in
// whatever order (and with whatever numbers) its author chose.  Every generator has to pair a variable
// with the field of the SAME NAME.  The family puts 2 and 3 variables in every permutation relative to
// the declaration order, with distinct kinds per variable (so that a mix-up either swaps two values or
// feeds a string to an integer parser), field numbers that follow or contradict the declaration order,
// unbound fields declared between the bound ones, on every verb.

func permutations(n int) [][]int {
	if n == 1 {
		return [][]int{{0}}
	}
	var out [][]int
	for _, p := range permutations(n - 1) {
		for pos := 0; pos <= len(p); pos++ {
			q := append(append(append([]int{}, p[:pos]...), n-1), p[pos:]...)
			out = append(out, q)
		}
	}
	return out
}

// pathOrderRPC: declared = names of the bound fields in declaration order; perm[i] = index (into declared)
// of the i-th variable of the template.
func pathOrderRPC(pkg, name, verb string, declared, kinds []string, perm []int, descendingNumbers, interleave bool) (*Method, *Message) {
	m := &Message{Name: name + "Req"}
	bodiless := verb == "GET" || verb == "DELETE"
	n := len(declared)
	total := n
	if interleave {
		total = 2*n + 1
	}
	num := func(i int) int32 {
		if descendingNumbers {
			return int32(total + 1 - i)
		}
		return int32(i)
	}
	pos := 1
	extra := func(k int) {
		if !interleave {
			return
		}
		if bodiless {
			m.Fields = append(m.Fields, F(fmt.Sprintf("x_%d", k), num(pos), []string{"string", "int32", "bool"}[k%3], Query("", false)))
		} else {
			m.Fields = append(m.Fields, F(fmt.Sprintf("x_%d", k), num(pos), []string{"string", "int32", "bool"}[k%3]))
		}
		pos++
	}
	extra(0)
	for i, d := range declared {
		m.Fields = append(m.Fields, F(d, num(pos), kinds[i%len(kinds)]))
		pos++
		extra(i + 1)
	}
	path := "/" + strings.ToLower(name)
	lits := []string{"orgs", "members", "items"}
	for i, pi := range perm {
		path += "/" + lits[i%3] + "/{" + declared[pi] + "}"
	}
	if len(perm)%2 == 0 {
		path += "/tail"
	}
	return &Method{Name: name, In: pkg + "." + m.Name, Out: pkg + ".Resp", Verb: verb, Path: path, HasConfig: true}, m
}

var pathOrderKindSets = [][]string{
	{"string", "string", "string"},
	{"string", "int64", "bool"},
	{"int64", "string", "uint32"},
	{"sint32", "fixed64", "string"},
	{"bool", "string", "int32"},
}

// PathOrderRequests: deterministic catalogue (two packages: with and without a base path).
func PathOrderRequests() []*Request {
	var out []*Request
	names2 := []string{"user_id", "org_id"}
	names3 := []string{"a_id", "b", "c9"}
	verbs := []string{"GET", "PUT", "DELETE", "POST", "PATCH"}
	for bi, base := range []string{"/o", ""} {
		id := fmt.Sprintf("rtorder%d", bi)
		pkg := id + ".v1"
		f := &File{Messages: []*Message{M("Resp", F("ok", 1, "bool"), F("echo", 2, "string"))}}
		svc := &Service{Name: "Ord", BasePath: base, HasConfig: base != ""}
		k := 0
		add := func(declared []string, perm []int, ks []string, verb string, desc, inter bool) {
			k++
			meth, msg := pathOrderRPC(pkg, fmt.Sprintf("R%d", k), verb, declared, ks, perm, desc, inter)
			svc.Methods = append(svc.Methods, meth)
			f.Messages = append(f.Messages, msg)
		}
		for pi, perm := range permutations(2) {
			for ki, ks := range pathOrderKindSets {
				for vi, v := range verbs {
					if (pi+ki+vi+bi)%2 == 1 && ki > 1 {
						continue
					}
					add(names2, perm, ks, v, (ki+vi)%3 == 1, (ki+vi)%2 == 0)
				}
			}
		}
		for pi, perm := range permutations(3) {
			for ki, ks := range pathOrderKindSets {
				if (pi+ki+bi)%2 == 1 && ki > 0 {
					continue
				}
				add(names3, perm, ks, verbs[(pi+ki)%5], (pi+ki)%3 == 1, (pi+ki)%2 == 0)
			}
		}
		f.Services = []*Service{svc}
		r := OneFile(id, pkg, f)
		r.Tags = []string{"runtime", "path-order"}
		out = append(out, r)
	}
	return out
}

// RandomPathOrderRequests: seeded: 2-4 variables, random permutation, kinds, numbering, interleaving.
func RandomPathOrderRequests(rng *rand.Rand, n int) []*Request {
	var out []*Request
	pool := []string{"id", "user_id", "org", "k9", "item_id", "n"}
	kinds := []string{"string", "int64", "uint32", "bool", "int32", "sint64", "fixed32"}
	verbs := []string{"GET", "PUT", "DELETE", "POST", "PATCH", ""}
	for i := 0; i < n; i++ {
		id := fmt.Sprintf("rtorderrand%d", i)
		pkg := id + ".v1"
		f := &File{Messages: []*Message{M("Resp", F("ok", 1, "bool"), F("echo", 2, "string"))}}
		base := []string{"", "/api", "/b/v2"}[rng.Intn(3)]
		svc := &Service{Name: fmt.Sprintf("O%d", i), BasePath: base, HasConfig: base != ""}
		nm := 4 + rng.Intn(4)
		for j := 0; j < nm; j++ {
			nv := 2 + rng.Intn(3)
			np := rng.Perm(len(pool))[:nv]
			declared := make([]string, nv)
			ks := make([]string, nv)
			for x, pi := range np {
				declared[x] = pool[pi]
				ks[x] = kinds[rng.Intn(len(kinds))]
			}
			meth, msg := pathOrderRPC(pkg, fmt.Sprintf("R%d", j), verbs[rng.Intn(len(verbs))], declared, ks, rng.Perm(nv), rng.Intn(2) == 0, rng.Intn(2) == 0)
			svc.Methods = append(svc.Methods, meth)
			f.Messages = append(f.Messages, msg)
		}
		f.Services = []*Service{svc}
		r := OneFile(id, pkg, f)
		r.Tags = []string{"runtime", "path-order", "random"}
		out = append(out, r)
	}
	return out
}

// ---- request messages that share a short name ------------------------------------------------------
//
// `Users.ListRequest` and `Posts.ListRequest` (nested in different parents), `Admin.Users.ListRequest`
// (deeper), the same across two files of one Go package, and `a.v1.ListRequest` / `b.v1.ListRequest` in two
// packages generated by ONE plugin invocation.  Each of them has its own URL configuration: different
// query parameters (names, kinds, required), different path variables, none at all; in both orders
// (the richer message first / last).  Every generator works per message, never per short name.

func sameNameParent(parent string, variant int) *Message {
	var list, get, upd *Message
	switch variant % 4 {
	case 0:
		list = M("ListRequest", F("tenant", 1, "string"), F("page", 2, "int32", Query("page", true)), F("q", 3, "string", Query("", false)))
		get = M("GetRequest", F("id", 1, "string"), F("verbose", 2, "bool", Query("v", false)))
		upd = M("UpdateRequest", F("id", 1, "string"), F("mode", 2, "string", Query("mode", false)), F("note", 3, "string"))
	case 1:
		list = M("ListRequest", F("tenant", 1, "string"), F("author", 2, "string", Query("author", false)), F("limit", 3, "uint32", Query("limit", true)),
			F("page", 4, "string", Query("p", false)))
		get = M("GetRequest", F("id", 1, "int64"), F("rev", 2, "uint32", Query("rev", true)))
		upd = M("UpdateRequest", F("id", 1, "int64"), F("force", 2, "bool", Query("force", true)), F("note", 3, "string"), F("mode", 4, "string"))
	case 2:
		list = M("ListRequest", F("tenant", 1, "string"))
		get = M("GetRequest", F("id", 1, "string"))
		upd = M("UpdateRequest", F("id", 1, "string"), F("note", 2, "string"))
	case 3:
		list = M("ListRequest", F("q", 1, "int64", Query("q", false)), F("tenant", 2, "string"), F("page", 3, "bool", Query("page", false)), F("tags", 4, "string", Rep(), Query("tag", false)))
		get = M("GetRequest", F("key", 1, "string"), F("id", 2, "uint64"), F("verbose", 3, "string", Query("verbose", true)))
		upd = M("UpdateRequest", F("key", 1, "string"), F("note", 2, "string"), F("mode", 3, "int32", Query("m", false)))
	}
	return M(parent).WithNested(list, get, upd)
}

func sameNameMethods(pkg, parentPath, tag string, variant int) []*Method {
	in := func(n string) string { return pkg + "." + parentPath + "." + n }
	lower := strings.ToLower(tag)
	getPath := "/" + lower + "/{id}"
	updPath := "/" + lower + "/{id}"
	if variant%4 == 3 {
		getPath = "/" + lower + "/{key}/{id}"
		updPath = "/" + lower + "/{key}"
	}
	return []*Method{
		RPC("List"+tag, in("ListRequest"), pkg+".Resp", "GET", "/t/{tenant}/"+lower),
		RPC("Get"+tag, in("GetRequest"), pkg+".Resp", "GET", getPath),
		RPC("Drop"+tag, in("GetRequest"), pkg+".Resp", "DELETE", getPath),
		RPC("Update"+tag, in("UpdateRequest"), pkg+".Resp", "PUT", updPath),
		RPC("Patch"+tag, in("UpdateRequest"), pkg+".Resp", "PATCH", updPath),
	}
}

// SameShortNameRequests: server-only packages (repeated query fields do not compile in the Go client).
func SameShortNameRequests() []*Request {
	var out []*Request
	// (a) one file, four parents, in two orders; one of them nested one level deeper; two services
	for oi, order := range [][]int{{0, 1, 2, 3}, {2, 3, 1, 0}} {
		id := fmt.Sprintf("rtsame%d", oi)
		pkg := id + ".v1"
		f := &File{Messages: []*Message{M("Resp", F("ok", 1, "bool"))}}
		tags := []string{"Users", "Posts", "Tags", "Keys"}
		svc := Svc("Dir", "/d")
		svc2 := Svc("Second", "")
		for k, v := range order {
			parent := sameNameParent(tags[v], v)
			path := tags[v]
			if v == 1 {
				f.Messages = append(f.Messages, M("Admin").WithNested(parent))
				path = "Admin." + tags[v]
			} else {
				f.Messages = append(f.Messages, parent)
			}
			ms := sameNameMethods(pkg, path, tags[v], v)
			if k == 3 {
				svc2.Methods = append(svc2.Methods, ms...)
			} else {
				svc.Methods = append(svc.Methods, ms...)
			}
		}
		f.Services = []*Service{svc, svc2}
		r := OneFile(id, pkg, f)
		r.Tags = []string{"runtime", "server-only", "same-short-name"}
		out = append(out, r)
	}
	// (a') two files of ONE Go package (one proto package), each with its own parents and its own service;
	// the plugin handles both files in one invocation
	{
		id := "rtsame2f"
		pkg := id + ".v1"
		var files []*File
		for k := 0; k < 2; k++ {
			v := []int{2, 1}[k]
			tag := []string{"Tags", "Posts"}[k]
			f := &File{Path: fmt.Sprintf("%s/f%d.proto", id, k), Package: pkg, GoPackage: fmt.Sprintf("verifgen/%s;%s", id, id), Generate: true,
				Messages: []*Message{sameNameParent(tag, v)}}
			if k == 0 {
				f.Messages = append(f.Messages, M("Resp", F("ok", 1, "bool")))
			} else {
				f.Imports = []string{fmt.Sprintf("%s/f0.proto", id)}
			}
			svc := Svc("Dir"+tag, "/"+strings.ToLower(tag))
			svc.Methods = sameNameMethods(pkg, tag, tag, v)
			f.Services = []*Service{svc}
			files = append(files, f)
		}
		out = append(out, &Request{ID: id, Files: files, Tags: []string{"runtime", "server-only", "same-short-name", "two-files"}})
	}
	// (b) two packages (two Go packages) generated by one plugin invocation, top-level messages of the same
	// names; in both file orders
	for oi := 0; oi < 2; oi++ {
		id := fmt.Sprintf("rtsamepk%d", oi)
		var files []*File
		for k := 0; k < 2; k++ {
			v := []int{0, 1}[k]
			if oi == 1 {
				v = []int{3, 0}[k]
			}
			sub := fmt.Sprintf("%s%c", id, 'a'+k)
			pkg := sub + ".v1"
			parent := sameNameParent("X", v)
			f := &File{Path: sub + "/x.proto", Package: pkg, GoPackage: fmt.Sprintf("verifgen/%s;%s", sub, sub), Generate: true,
				Messages: append([]*Message{M("Resp", F("ok", 1, "bool"))}, parent.Nested...)}
			tag := []string{"Users", "Posts"}[k]
			svc := Svc("Dir"+strings.ToUpper(string(rune('a'+k))), "/"+sub)
			for _, m := range sameNameMethods(pkg, "X", tag, v) {
				m.In = strings.Replace(m.In, ".X.", ".", 1)
				svc.Methods = append(svc.Methods, m)
			}
			f.Services = []*Service{svc}
			files = append(files, f)
		}
		r := &Request{ID: id, Files: files, Tags: []string{"runtime", "server-only", "same-short-name", "multi-package"}}
		out = append(out, r)
	}
	return out
}

// SplitByGoPackage turns the output of ONE generation run over several Go packages into one
// (request, output) pair per Go package, so that each package can be compiled and driven on its own
// (Session.BuildRuntime handles one Go package per request).  The plugin processes are not run again:
// what is compiled is what the joint invocation emitted.  Files must not import each other.
func SplitByGoPackage(r *Request, g *GenOutput) ([]*Request, []*GenOutput) {
	var reqs []*Request
	var gens []*GenOutput
	seen := map[string]bool{}
	for _, f := range r.Files {
		if !f.Generate || seen[f.GoPackage] {
			continue
		}
		seen[f.GoPackage] = true
		dir := strings.TrimPrefix(goImportPath(f.GoPackage), "verifgen/")
		sub := &Request{ID: dir, Params: r.Params, Tags: append([]string{}, r.Tags...)}
		for _, x := range r.Files {
			if x.GoPackage == f.GoPackage {
				sub.Files = append(sub.Files, x)
			}
		}
		filter := func(p *PluginResult) *PluginResult {
			if p == nil {
				return nil
			}
			q := *p
			q.Files = map[string]string{}
			q.Names = nil
			for _, n := range p.Names {
				if strings.HasPrefix(n, dir+"/") {
					q.Files[n] = p.Files[n]
					q.Names = append(q.Names, n)
				}
			}
			return &q
		}
		sg := &GenOutput{Req: sub, Built: g.Built, PB: filter(g.PB), Results: map[string]*PluginResult{}}
		for k, v := range g.Results {
			if k == "go-http" || k == "go-client" {
				sg.Results[k] = filter(v)
			} else {
				sg.Results[k] = v
			}
		}
		reqs = append(reqs, sub)
		gens = append(gens, sg)
	}
	return reqs, gens
}
