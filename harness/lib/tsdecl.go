package lib

import (
	"encoding/json"
	"fmt"
	"regexp"
	"sort"
	"strings"
)

// Parser for the declaration dialect protoc-gen-ts-client / -ts-server emit (tscommon/types.go):
//   export interface X { a: string; b?: number; c: Y[]; d: Record<string, Y>; e: string | null; }
//   export type E = "A" | "B";
//   export type U = | { type: "text"; text?: TextP } | { ... };
//   export type M = MBase & MPayload;
// and the inhabitation relation JSON value : type over the parsed declarations.

type TsType struct {
	T       string    `json:"t"` // string number boolean null lit ref array record object union inter
	Name    string    `json:"name,omitempty"`
	Value   string    `json:"value,omitempty"`
	Elem    *TsType   `json:"elem,omitempty"`
	Members []*TsType `json:"members,omitempty"`
	Props   []*TsProp `json:"props,omitempty"`
}

type TsProp struct {
	Name     string  `json:"name"`
	Optional bool    `json:"optional"`
	Type     *TsType `json:"type"`
}

type TsDecl struct {
	Kind  string    `json:"kind"` // interface | type
	Name  string    `json:"name"`
	Props []*TsProp `json:"props,omitempty"`
	Type  *TsType   `json:"type,omitempty"`
	Text  string    `json:"-"`
}

type tsTok struct {
	kind string // id str punct
	s    string
}

func tsLex(src string) ([]tsTok, error) {
	var out []tsTok
	i := 0
	for i < len(src) {
		c := src[i]
		switch {
		case c == ' ' || c == '\n' || c == '\t' || c == '\r':
			i++
		case c == '"':
			j := i + 1
			var b strings.Builder
			for j < len(src) && src[j] != '"' {
				if src[j] == '\\' && j+1 < len(src) {
					b.WriteByte(src[j+1])
					j += 2
					continue
				}
				b.WriteByte(src[j])
				j++
			}
			if j >= len(src) {
				return nil, fmt.Errorf("unterminated string literal")
			}
			out = append(out, tsTok{"str", b.String()})
			i = j + 1
		case c == '_' || c == '$' || (c >= 'a' && c <= 'z') || (c >= 'A' && c <= 'Z'):
			j := i
			for j < len(src) && (src[j] == '_' || src[j] == '$' || (src[j] >= 'a' && src[j] <= 'z') || (src[j] >= 'A' && src[j] <= 'Z') || (src[j] >= '0' && src[j] <= '9')) {
				j++
			}
			out = append(out, tsTok{"id", src[i:j]})
			i = j
		case strings.ContainsRune("{}:;?|&[]<>,=", rune(c)):
			out = append(out, tsTok{"punct", string(c)})
			i++
		default:
			return nil, fmt.Errorf("unexpected character %q", c)
		}
	}
	return out, nil
}

type tsParser struct {
	toks []tsTok
	pos  int
}

func (p *tsParser) peek() tsTok {
	if p.pos < len(p.toks) {
		return p.toks[p.pos]
	}
	return tsTok{"eof", ""}
}
func (p *tsParser) next() tsTok { t := p.peek(); p.pos++; return t }
func (p *tsParser) isPunct(s string) bool {
	t := p.peek()
	return t.kind == "punct" && t.s == s
}
func (p *tsParser) expect(s string) error {
	t := p.next()
	if t.kind != "punct" || t.s != s {
		return fmt.Errorf("expected %q, got %q", s, t.s)
	}
	return nil
}

// type := ['|'] inter ('|' inter)*
func (p *tsParser) parseType() (*TsType, error) {
	if p.isPunct("|") {
		p.next()
	}
	first, err := p.parseInter()
	if err != nil {
		return nil, err
	}
	ms := []*TsType{first}
	for p.isPunct("|") {
		p.next()
		m, err := p.parseInter()
		if err != nil {
			return nil, err
		}
		ms = append(ms, m)
	}
	if len(ms) == 1 {
		return first, nil
	}
	return &TsType{T: "union", Members: ms}, nil
}

func (p *tsParser) parseInter() (*TsType, error) {
	first, err := p.parsePostfix()
	if err != nil {
		return nil, err
	}
	ms := []*TsType{first}
	for p.isPunct("&") {
		p.next()
		m, err := p.parsePostfix()
		if err != nil {
			return nil, err
		}
		ms = append(ms, m)
	}
	if len(ms) == 1 {
		return first, nil
	}
	return &TsType{T: "inter", Members: ms}, nil
}

func (p *tsParser) parsePostfix() (*TsType, error) {
	t, err := p.parsePrimary()
	if err != nil {
		return nil, err
	}
	for p.isPunct("[") {
		p.next()
		if err := p.expect("]"); err != nil {
			return nil, err
		}
		t = &TsType{T: "array", Elem: t}
	}
	return t, nil
}

func (p *tsParser) parsePrimary() (*TsType, error) {
	t := p.next()
	switch t.kind {
	case "str":
		return &TsType{T: "lit", Value: t.s}, nil
	case "id":
		switch t.s {
		case "string", "number", "boolean", "null":
			return &TsType{T: t.s}, nil
		case "Record":
			if err := p.expect("<"); err != nil {
				return nil, err
			}
			k := p.next()
			if k.kind != "id" || k.s != "string" {
				return nil, fmt.Errorf("Record key type %q", k.s)
			}
			if err := p.expect(","); err != nil {
				return nil, err
			}
			v, err := p.parseType()
			if err != nil {
				return nil, err
			}
			if err := p.expect(">"); err != nil {
				return nil, err
			}
			return &TsType{T: "record", Elem: v}, nil
		}
		return &TsType{T: "ref", Name: t.s}, nil
	case "punct":
		if t.s == "{" {
			props, err := p.parseProps()
			if err != nil {
				return nil, err
			}
			return &TsType{T: "object", Props: props}, nil
		}
	}
	return nil, fmt.Errorf("unexpected token %q in type", t.s)
}

// props := (name ['?'] ':' type [';'])* '}'
func (p *tsParser) parseProps() ([]*TsProp, error) {
	props := []*TsProp{}
	for {
		if p.isPunct("}") {
			p.next()
			return props, nil
		}
		n := p.next()
		if n.kind != "id" && n.kind != "str" {
			return nil, fmt.Errorf("property name expected, got %q", n.s)
		}
		pr := &TsProp{Name: n.s}
		if p.isPunct("?") {
			p.next()
			pr.Optional = true
		}
		if err := p.expect(":"); err != nil {
			return nil, err
		}
		t, err := p.parseType()
		if err != nil {
			return nil, err
		}
		pr.Type = t
		props = append(props, pr)
		if p.isPunct(";") {
			p.next()
		}
	}
}

// ParseTsType parses one type expression.
func ParseTsType(src string) (*TsType, error) {
	toks, err := tsLex(src)
	if err != nil {
		return nil, err
	}
	p := &tsParser{toks: toks}
	t, err := p.parseType()
	if err != nil {
		return nil, err
	}
	if p.pos != len(toks) {
		return nil, fmt.Errorf("trailing tokens after type")
	}
	return t, nil
}

var (
	reTsDeclStart = regexp.MustCompile(`(?m)^export (interface|type) ([A-Za-z_$][A-Za-z0-9_$]*)`)
	reTsClientSig = regexp.MustCompile(`(?m)^  async ([A-Za-z_$][A-Za-z0-9_$]*)\(req: ([A-Za-z_$][A-Za-z0-9_$]*), options\?: [A-Za-z0-9_$]*\): Promise<(.*)> \{$`)
	reTsServerSig = regexp.MustCompile(`(?m)^  ([A-Za-z_$][A-Za-z0-9_$]*)\(ctx: ServerContext, req: ([A-Za-z_$][A-Za-z0-9_$]*)\): Promise<(.*)>;$`)
)

// MarshalJSON: an interface always carries its property list (possibly empty), an alias its type.
func (d *TsDecl) MarshalJSON() ([]byte, error) {
	if d.Kind == "interface" {
		props := d.Props
		if props == nil {
			props = []*TsProp{}
		}
		return json.Marshal(map[string]any{"kind": d.Kind, "name": d.Name, "props": props})
	}
	return json.Marshal(map[string]any{"kind": d.Kind, "name": d.Name, "type": d.Type})
}

// TsMessageSection returns the part of an emitted module that holds the message and enum
// declarations: everything between the header comment and the shared error types.
func TsMessageSection(src string) string {
	end := strings.Index(src, "export interface FieldViolation {")
	if end < 0 {
		end = len(src)
	}
	start := 0
	for strings.HasPrefix(src[start:], "//") {
		nl := strings.IndexByte(src[start:], '\n')
		if nl < 0 {
			break
		}
		start += nl + 1
	}
	return src[start:end]
}

// ParseTsDecls parses the message/enum declarations of an emitted module, in source order.
func ParseTsDecls(src string) ([]*TsDecl, error) {
	sec := TsMessageSection(src)
	locs := reTsDeclStart.FindAllStringSubmatchIndex(sec, -1)
	var out []*TsDecl
	for i, l := range locs {
		end := len(sec)
		if i+1 < len(locs) {
			end = locs[i+1][0]
		}
		text := strings.TrimSpace(sec[l[0]:end])
		kind, name := sec[l[2]:l[3]], sec[l[4]:l[5]]
		body := strings.TrimSpace(sec[l[5]:end])
		d := &TsDecl{Kind: kind, Name: name, Text: text}
		if kind == "interface" {
			toks, err := tsLex(body)
			if err != nil {
				return nil, fmt.Errorf("%s: %v", name, err)
			}
			p := &tsParser{toks: toks}
			if err := p.expect("{"); err != nil {
				return nil, fmt.Errorf("%s: %v", name, err)
			}
			props, err := p.parseProps()
			if err != nil {
				return nil, fmt.Errorf("%s: %v", name, err)
			}
			if p.pos != len(toks) {
				return nil, fmt.Errorf("%s: trailing tokens", name)
			}
			d.Props = props
		} else {
			body = strings.TrimSuffix(strings.TrimSpace(strings.TrimPrefix(body, "=")), ";")
			t, err := ParseTsType(body)
			if err != nil {
				return nil, fmt.Errorf("%s: %v", name, err)
			}
			d.Type = t
		}
		out = append(out, d)
	}
	return out, nil
}

type TsSig struct {
	Method  string  `json:"method"`
	Request string  `json:"request"`
	Result  *TsType `json:"result"`
}

// ParseTsSigs reads the RPC signatures of a client (async methods) or server (handler interface) module.
func ParseTsSigs(src string, client bool) ([]*TsSig, error) {
	re := reTsServerSig
	if client {
		re = reTsClientSig
	}
	var out []*TsSig
	for _, m := range re.FindAllStringSubmatch(src, -1) {
		t, err := ParseTsType(m[3])
		if err != nil {
			return nil, fmt.Errorf("%s: %v", m[1], err)
		}
		out = append(out, &TsSig{Method: m[1], Request: m[2], Result: t})
	}
	return out, nil
}

// TsEnv is the declaration environment: interface declarations with one name merge (TypeScript
// declaration merging); a type alias declared twice is an error in TypeScript (first one kept, name recorded).
type TsEnv struct {
	Types     map[string]*TsType
	Merged    map[string]int // interface name -> number of declarations (>1: merged)
	Duplicate map[string]bool
}

func NewTsEnv(decls []*TsDecl) *TsEnv {
	e := &TsEnv{Types: map[string]*TsType{}, Merged: map[string]int{}, Duplicate: map[string]bool{}}
	for _, d := range decls {
		if d.Kind == "interface" {
			e.Merged[d.Name]++
			if t, ok := e.Types[d.Name]; ok && t.T == "object" {
				t.Props = append(t.Props, d.Props...)
			} else if ok {
				e.Duplicate[d.Name] = true
			} else {
				e.Types[d.Name] = &TsType{T: "object", Props: append([]*TsProp{}, d.Props...)}
			}
		} else {
			if _, ok := e.Types[d.Name]; ok {
				e.Duplicate[d.Name] = true
				continue
			}
			e.Types[d.Name] = d.Type
		}
	}
	return e
}

// shapes: the object shapes a type denotes (union = alternatives, intersection = merged properties);
// ok=false when the type is not object-like.
func (e *TsEnv) shapes(t *TsType, depth int) ([][]*TsProp, bool) {
	if depth > 50 {
		return nil, false
	}
	switch t.T {
	case "object":
		return [][]*TsProp{t.Props}, true
	case "ref":
		d, ok := e.Types[t.Name]
		if !ok {
			return nil, false
		}
		return e.shapes(d, depth+1)
	case "union":
		var out [][]*TsProp
		for _, m := range t.Members {
			s, ok := e.shapes(m, depth+1)
			if !ok {
				return nil, false
			}
			out = append(out, s...)
		}
		return out, true
	case "inter":
		out := [][]*TsProp{{}}
		for _, m := range t.Members {
			s, ok := e.shapes(m, depth+1)
			if !ok {
				return nil, false
			}
			var next [][]*TsProp
			for _, a := range out {
				for _, b := range s {
					next = append(next, append(append([]*TsProp{}, a...), b...))
				}
			}
			out = next
		}
		return out, true
	}
	return nil, false
}

// Inhabits decides whether the JSON value v (decoded with UseNumber) is a value of type t:
// required properties present, declared property types respected, no property the type does not declare.
// The second result names the first position where it fails.
func (e *TsEnv) Inhabits(t *TsType, v any) (bool, string) { return e.inhabits(t, v, "$", 0) }

func (e *TsEnv) inhabits(t *TsType, v any, path string, depth int) (bool, string) {
	if depth > 200 {
		return false, path + ": too deep"
	}
	switch t.T {
	case "string":
		if _, ok := v.(string); ok {
			return true, ""
		}
		return false, path + ": not a string"
	case "number":
		if _, ok := v.(json.Number); ok {
			return true, ""
		}
		return false, path + ": not a number"
	case "boolean":
		if _, ok := v.(bool); ok {
			return true, ""
		}
		return false, path + ": not a boolean"
	case "null":
		if v == nil {
			return true, ""
		}
		return false, path + ": not null"
	case "lit":
		if s, ok := v.(string); ok && s == t.Value {
			return true, ""
		}
		return false, path + ": not the literal " + t.Value
	case "array":
		arr, ok := v.([]any)
		if !ok {
			return false, path + ": not an array"
		}
		for i, x := range arr {
			if ok, why := e.inhabits(t.Elem, x, fmt.Sprintf("%s[%d]", path, i), depth+1); !ok {
				return false, why
			}
		}
		return true, ""
	case "record":
		obj, ok := v.(map[string]any)
		if !ok {
			return false, path + ": not an object"
		}
		keys := make([]string, 0, len(obj))
		for k := range obj {
			keys = append(keys, k)
		}
		sort.Strings(keys)
		for _, k := range keys {
			if ok, why := e.inhabits(t.Elem, obj[k], path+"."+k, depth+1); !ok {
				return false, why
			}
		}
		return true, ""
	}
	if shapes, ok := e.shapes(t, 0); ok {
		obj, isObj := v.(map[string]any)
		if !isObj {
			return false, path + ": not an object"
		}
		first := ""
		for _, props := range shapes {
			ok, why := e.inhabitsShape(props, obj, path, depth)
			if ok {
				return true, ""
			}
			if first == "" {
				first = why
			}
		}
		if first == "" {
			first = path + ": empty union"
		}
		return false, first
	}
	switch t.T {
	case "ref":
		d, ok := e.Types[t.Name]
		if !ok {
			return false, path + ": undeclared type " + t.Name
		}
		return e.inhabits(d, v, path, depth+1)
	case "union":
		first := ""
		for _, m := range t.Members {
			ok, why := e.inhabits(m, v, path, depth+1)
			if ok {
				return true, ""
			}
			if first == "" {
				first = why
			}
		}
		return false, first
	case "inter":
		for _, m := range t.Members {
			if ok, why := e.inhabits(m, v, path, depth+1); !ok {
				return false, why
			}
		}
		return true, ""
	}
	return false, path + ": unknown type form " + t.T
}

func (e *TsEnv) inhabitsShape(props []*TsProp, obj map[string]any, path string, depth int) (bool, string) {
	declared := map[string][]*TsProp{}
	for _, p := range props {
		declared[p.Name] = append(declared[p.Name], p)
	}
	keys := make([]string, 0, len(obj))
	for k := range obj {
		keys = append(keys, k)
	}
	sort.Strings(keys)
	for _, p := range props {
		if _, ok := obj[p.Name]; !ok && !p.Optional {
			return false, path + "." + p.Name + ": required property missing"
		}
	}
	for _, k := range keys {
		ps, ok := declared[k]
		if !ok {
			return false, path + "." + k + ": property not declared"
		}
		for _, p := range ps { // a property declared twice (merged interfaces) must satisfy both
			if ok, why := e.inhabits(p.Type, obj[k], path+"."+k, depth+1); !ok {
				return false, why
			}
		}
	}
	return true, ""
}

// failure classes (projected from the reason text: compared with the model)
func TsFailClass(why string) string {
	switch {
	case why == "":
		return ""
	case strings.HasSuffix(why, "required property missing"):
		return "missing"
	case strings.HasSuffix(why, "property not declared"):
		return "excess"
	case strings.Contains(why, "undeclared type"):
		return "undeclared"
	}
	return "type"
}
