package lib

import (
	"bufio"
	"crypto/sha256"
	"encoding/hex"
	"encoding/json"
	"fmt"
	"os"
	"path/filepath"
	"reflect"
	"sort"
	"strconv"
	"strings"
	"time"
)

// CaseResult is one explored case of one property: implementation observation, model prediction,
// the model's defect tags for the case, and the verdict of the property oracle (computed from the
// implementation's observables only).
type CaseResult struct {
	ID          string   `json:"id"`
	Family      string   `json:"family"`
	Input       any      `json:"input,omitempty"`
	Obs         any      `json:"observed,omitempty"`
	Pred        any      `json:"predicted,omitempty"`
	Tags        []string `json:"tags,omitempty"`
	Unmodelled  string   `json:"unmodelled,omitempty"`
	OracleHolds bool     `json:"oracle_holds"`
	OracleNote  string   `json:"oracle_note,omitempty"`
	NonTrivial  bool     `json:"nontrivial"`
	Features    []string `json:"features,omitempty"`
	Agree       bool     `json:"agree"`
	Diff        string   `json:"diff,omitempty"`
}

type KnownFinding struct {
	Property string `json:"property"`
	Tag      string `json:"tag"`
	Status   string `json:"status"` // known | fixed
	What     string `json:"what"`
	Site     string `json:"site,omitempty"`
	Commit   string `json:"commit,omitempty"`
	Witness  string `json:"witness,omitempty"`
}

func LoadKnownFindings() ([]KnownFinding, error) {
	f, err := os.Open(filepath.Join(VerifRoot(), "KNOWN_FINDINGS.jsonl"))
	if err != nil {
		if os.IsNotExist(err) {
			return nil, nil
		}
		return nil, err
	}
	defer f.Close()
	var out []KnownFinding
	sc := bufio.NewScanner(f)
	sc.Buffer(make([]byte, 1<<20), 1<<24)
	for sc.Scan() {
		l := strings.TrimSpace(sc.Text())
		if l == "" || strings.HasPrefix(l, "#") {
			continue
		}
		var k KnownFinding
		if err := json.Unmarshal([]byte(l), &k); err != nil {
			return nil, fmt.Errorf("KNOWN_FINDINGS.jsonl: %v", err)
		}
		out = append(out, k)
	}
	return out, sc.Err()
}

// Run is the per-check context.
type Run struct {
	Property string
	Tier     string
	Seed     int64
	Start    time.Time
	TreeHash string
	BinDir   string
	WorkDir  string
	Proof    *ProofStatus
	Results  []*CaseResult
	Notes    []string
	Extra    map[string]any
	Replay   string
	replayCase string
}

func NewRun(property string, args []string) *Run {
	r := &Run{Property: property, Tier: "quick", Start: time.Now(), Extra: map[string]any{}}
	if t := os.Getenv("VERIF_TIER"); t == "quick" || t == "thorough" {
		r.Tier = t
	}
	if s := os.Getenv("VERIF_SEED"); s != "" {
		if v, err := strconv.ParseInt(s, 10, 64); err == nil {
			r.Seed = v
		}
	}
	for i := 0; i < len(args); i++ {
		switch args[i] {
		case "--tier":
			if i+1 < len(args) {
				r.Tier = args[i+1]
				i++
			}
		case "--replay":
			if i+1 < len(args) {
				r.Replay = args[i+1]
				i++
			}
		case "--seed":
			if i+1 < len(args) {
				if v, err := strconv.ParseInt(args[i+1], 10, 64); err == nil {
					r.Seed = v
				}
				i++
			}
		}
	}
	if r.Replay != "" {
		// a replay re-runs the check with the seed and tier recorded in the replay file and then
		// reports on the recorded case
		if b, err := os.ReadFile(r.Replay); err == nil {
			var rp struct {
				Seed int64  `json:"seed"`
				Tier string `json:"tier"`
				Case *struct {
					ID string `json:"id"`
				} `json:"case"`
				Dis *struct {
					ID string `json:"id"`
				} `json:"disagreeing_case"`
			}
			if json.Unmarshal(b, &rp) == nil {
				r.Seed = rp.Seed
				if rp.Tier == "quick" || rp.Tier == "thorough" {
					r.Tier = rp.Tier
				}
				if rp.Case != nil {
					r.replayCase = rp.Case.ID
				} else if rp.Dis != nil {
					r.replayCase = rp.Dis.ID
				}
			}
		}
	}
	return r
}

// Fatal reports a harness failure (never a violation, never success).
func (r *Run) Fatal(format string, a ...any) {
	fmt.Printf("HARNESS-FAILURE property=%s: %s\n", r.Property, fmt.Sprintf(format, a...))
	os.Exit(2)
}

// Prepare builds the plugins from /repo's working tree and sets up the work directory.
func (r *Run) Prepare() {
	bin, th, err := BuildPlugins()
	if err != nil {
		// A tree that does not build cannot be said to have the property: that is reported as a
		// violation of every property with the build log as replay (no failing input).
		r.TreeHash = th
		r.BuildFailure(err)
	}
	r.BinDir, r.TreeHash = bin, th
	r.WorkDir = filepath.Join(CacheRoot(), "work", fmt.Sprintf("%s-%s-%d", r.Property, r.Tier, os.Getpid()))
	// work directories of runs that were killed or ended on a fatal path stay behind: drop those older than two hours
	pruneDirs(filepath.Join(CacheRoot(), "work"), 4, r.WorkDir)
	os.RemoveAll(r.WorkDir)
	if err := os.MkdirAll(r.WorkDir, 0o755); err != nil {
		r.Fatal("%v", err)
	}
}

func (r *Run) Cleanup() {
	if os.Getenv("VERIF_KEEP") != "" {
		return
	}
	if r.WorkDir != "" {
		os.RemoveAll(r.WorkDir)
	}
	for _, d := range goWorkDirs {
		os.RemoveAll(d)
	}
	goWorkDirs = nil
}

func (r *Run) BuildFailure(err error) {
	os.MkdirAll(filepath.Join(VerifRoot(), "replays"), 0o755)
	p := filepath.Join(VerifRoot(), "replays", fmt.Sprintf("%s-build-failure.json", r.Property))
	b, _ := json.MarshalIndent(map[string]any{"property": r.Property, "kind": "no-failing-input-found",
		"theorem_or_family": "stage A: go build of /repo's plugins", "detail": err.Error()}, "", " ")
	os.WriteFile(p, b, 0o644)
	r.writeEvidence(1, nil)
	fmt.Printf("VIOLATION property=%s replay=%s no-failing-input-found\n", r.Property, p)
	os.Exit(1)
}

// Canon round-trips a value through JSON so that observation and prediction compare structurally.
func Canon(v any) any {
	b, err := json.Marshal(v)
	if err != nil {
		return fmt.Sprintf("unmarshalable: %v", err)
	}
	var out any
	dec := json.NewDecoder(strings.NewReader(string(b)))
	dec.UseNumber()
	if err := dec.Decode(&out); err != nil {
		return string(b)
	}
	return out
}

// normNil treats null and empty arrays alike (Go nil slices vs model []).
func normNil(v any) any {
	switch x := v.(type) {
	case nil:
		return []any{}
	case []any:
		for i := range x {
			x[i] = normNilInner(x[i])
		}
		return x
	case map[string]any:
		for k, e := range x {
			x[k] = normNilInner(e)
		}
		return x
	}
	return v
}
func normNilInner(v any) any {
	switch x := v.(type) {
	case []any:
		if len(x) == 0 {
			return []any{}
		}
		for i := range x {
			x[i] = normNilInner(x[i])
		}
		return x
	case map[string]any:
		for k, e := range x {
			x[k] = normNilInner(e)
		}
		return x
	}
	return v
}

// Diff returns "" when a and b are structurally equal, else a short path to the first difference.
func Diff(a, b any) string { return diffAt("$", a, b) }

func diffAt(path string, a, b any) string {
	switch x := a.(type) {
	case map[string]any:
		y, ok := b.(map[string]any)
		if !ok {
			return fmt.Sprintf("%s: %s vs %s", path, short(a), short(b))
		}
		keys := map[string]bool{}
		for k := range x {
			keys[k] = true
		}
		for k := range y {
			keys[k] = true
		}
		ks := make([]string, 0, len(keys))
		for k := range keys {
			ks = append(ks, k)
		}
		sort.Strings(ks)
		for _, k := range ks {
			xv, xo := x[k]
			yv, yo := y[k]
			if !xo || !yo {
				return fmt.Sprintf("%s.%s: present=%v vs present=%v", path, k, xo, yo)
			}
			if d := diffAt(path+"."+k, xv, yv); d != "" {
				return d
			}
		}
		return ""
	case []any:
		y, ok := b.([]any)
		if !ok {
			if b == nil && len(x) == 0 {
				return ""
			}
			return fmt.Sprintf("%s: %s vs %s", path, short(a), short(b))
		}
		if len(x) != len(y) {
			return fmt.Sprintf("%s: len %d vs %d: %s vs %s", path, len(x), len(y), short(a), short(b))
		}
		for i := range x {
			if d := diffAt(fmt.Sprintf("%s[%d]", path, i), x[i], y[i]); d != "" {
				return d
			}
		}
		return ""
	case nil:
		if y, ok := b.([]any); ok && len(y) == 0 {
			return ""
		}
		if b == nil {
			return ""
		}
		return fmt.Sprintf("%s: null vs %s", path, short(b))
	}
	if !reflect.DeepEqual(a, b) {
		if fmt.Sprint(a) == fmt.Sprint(b) {
			return ""
		}
		return fmt.Sprintf("%s: %s vs %s", path, short(a), short(b))
	}
	return ""
}

func short(v any) string {
	b, _ := json.Marshal(v)
	if len(b) > 160 {
		return string(b[:160]) + "…"
	}
	return string(b)
}

// Finish classifies all results, prints KNOWN-FINDING / VIOLATION lines, writes evidence and
// replay files, and exits with the check's status.
func (r *Run) Finish() {
	defer r.Cleanup()
	if r.replayCase != "" {
		found := false
		for _, c := range r.Results {
			if c.ID == r.replayCase {
				found = true
				b, _ := json.MarshalIndent(c, "", " ")
				fmt.Printf("REPLAY case %s: oracle_holds=%v agree=%v unmodelled=%q tags=%v\n%s\n", c.ID, c.OracleHolds, c.Agree, c.Unmodelled, c.Tags, tail(string(b), 4000))
			}
		}
		if !found {
			fmt.Printf("REPLAY case %s: not produced by this run (generation changed); the full check result follows\n", r.replayCase)
		}
	}
	known, err := LoadKnownFindings()
	if err != nil {
		r.Fatal("%v", err)
	}
	knownTags := map[string]KnownFinding{}
	for _, k := range known {
		if k.Property == r.Property && k.Status == "known" {
			knownTags[k.Tag] = k
		}
	}
	os.MkdirAll(filepath.Join(VerifRoot(), "replays"), 0o755)
	if old, _ := filepath.Glob(filepath.Join(VerifRoot(), "replays", r.Property+"-*.json")); r.Replay == "" {
		for _, o := range old {
			os.Remove(o)
		}
	}
	violations := 0
	seenKnown := map[string]int{}
	var disagreements, uncovered []*CaseResult
	for _, c := range r.Results {
		if c.Unmodelled == "" && !c.Agree {
			disagreements = append(disagreements, c)
		}
		if !c.OracleHolds {
			covered := len(c.Tags) > 0
			for _, t := range c.Tags {
				if _, ok := knownTags[t]; !ok {
					covered = false
				}
			}
			// a modelled case is covered only when the model reproduces exactly what was observed
			if c.Unmodelled == "" && !c.Agree {
				covered = false
			}
			if covered {
				for _, t := range c.Tags {
					seenKnown[t]++
				}
			} else {
				uncovered = append(uncovered, c)
			}
		}
	}
	if dump := os.Getenv("VERIF_DUMP"); dump != "" {
		if f, err := os.Create(dump); err == nil {
			enc := json.NewEncoder(f)
			for _, c := range r.Results {
				enc.Encode(map[string]any{"id": c.ID, "family": c.Family, "tags": c.Tags, "oracle": c.OracleHolds, "note": c.OracleNote, "agree": c.Agree, "unmodelled": c.Unmodelled, "diff": c.Diff})
			}
			f.Close()
		}
	}
	// proof obligations
	proofBroken := r.Proof != nil && (r.Proof.Err != "" || r.Proof.Discharged != r.Proof.Obligations || r.Proof.Obligations == 0)
	writeReplay := func(name string, body map[string]any) string {
		p := filepath.Join(VerifRoot(), "replays", name)
		body["property"] = r.Property
		body["tier"] = r.Tier
		body["seed"] = r.Seed
		body["tree_hash"] = r.TreeHash
		body["cmd"] = fmt.Sprintf("./check %s --replay %s", r.Property, p)
		b, _ := json.MarshalIndent(body, "", " ")
		os.WriteFile(p, b, 0o644)
		return p
	}
	// KNOWN-FINDING lines
	tags := make([]string, 0, len(seenKnown))
	for t := range seenKnown {
		tags = append(tags, t)
	}
	sort.Strings(tags)
	for _, t := range tags {
		fmt.Printf("KNOWN-FINDING: property=%s %s: %s (%d cases this run)\n", r.Property, t, knownTags[t].What, seenKnown[t])
	}
	// uncovered oracle failures: genuine failing inputs
	reported := map[string]bool{}
	for _, c := range uncovered {
		key := c.Family + "|" + strings.Join(c.Tags, ",") + "|" + c.OracleNote
		if len(key) > 200 {
			key = key[:200]
		}
		if reported[key] {
			continue
		}
		reported[key] = true
		if len(reported) > 12 {
			break
		}
		h := sha256.Sum256([]byte(c.ID + key))
		p := writeReplay(fmt.Sprintf("%s-%s.json", r.Property, hex.EncodeToString(h[:4])), map[string]any{
			"kind": "failing-input", "case": c, "theorem_or_family": c.Family})
		fmt.Printf("VIOLATION property=%s replay=%s\n", r.Property, p)
		violations++
	}
	// disagreements with no failing input among them
	if len(disagreements) > 0 {
		haveFailing := false
		for _, c := range disagreements {
			if !c.OracleHolds {
				haveFailing = true
			}
		}
		if !haveFailing || violations == 0 {
			fams := map[string]*CaseResult{}
			for _, c := range disagreements {
				if _, ok := fams[c.Family]; !ok {
					fams[c.Family] = c
				}
			}
			fs := make([]string, 0, len(fams))
			for f := range fams {
				fs = append(fs, f)
			}
			sort.Strings(fs)
			for _, f := range fs {
				c := fams[f]
				h := sha256.Sum256([]byte(c.ID + f))
				p := writeReplay(fmt.Sprintf("%s-corr-%s.json", r.Property, hex.EncodeToString(h[:4])), map[string]any{
					"kind": "no-failing-input-found", "theorem_or_family": "correspondence:" + f,
					"detail": "model and implementation disagree; the property oracle held on every explored case outside the known findings",
					"disagreeing_case": c, "disagreements_in_family": len(disagreements)})
				fmt.Printf("VIOLATION property=%s replay=%s no-failing-input-found\n", r.Property, p)
				violations++
			}
		}
	}
	if proofBroken {
		p := writeReplay(fmt.Sprintf("%s-proof.json", r.Property), map[string]any{
			"kind": "no-failing-input-found", "theorem_or_family": "props/" + r.Property + ".v", "detail": r.Proof})
		fmt.Printf("VIOLATION property=%s replay=%s no-failing-input-found\n", r.Property, p)
		violations++
	}
	r.writeEvidence(violations, seenKnown)
	if violations > 0 {
		os.Exit(1)
	}
	fmt.Printf("OK property=%s tier=%s cases=%d disagreements=0 known_findings=%d wall=%.1fs\n",
		r.Property, r.Tier, len(r.Results), len(seenKnown), time.Since(r.Start).Seconds())
	os.Exit(0)
}

func (r *Run) writeEvidence(violations int, seenKnown map[string]int) {
	distinct := map[string]bool{}
	zone := map[string]int{"Z1_theorem_applies": 0, "Z2_model_predicts_failure": 0, "Z3_unmodelled": 0}
	feat := map[string]int{}
	fam := map[string]int{}
	agree := 0
	for _, c := range r.Results {
		if c.NonTrivial {
			b, _ := json.Marshal(c.Input)
			h := sha256.Sum256(append([]byte(c.Family), b...))
			distinct[string(h[:])] = true
		}
		switch {
		case c.Unmodelled != "":
			zone["Z3_unmodelled"]++
		case len(c.Tags) > 0:
			zone["Z2_model_predicts_failure"]++
		default:
			zone["Z1_theorem_applies"]++
		}
		if c.Unmodelled == "" && c.Agree {
			agree++
		}
		for _, f := range c.Features {
			feat[f]++
		}
		fam[c.Family]++
	}
	var samples []any
	step := len(r.Results)/3 + 1
	for i := 0; i < len(r.Results); i += step {
		samples = append(samples, r.Results[i])
	}
	if len(samples) == 0 {
		samples = append(samples, map[string]any{"note": "no cases were produced (build failure)"})
	}
	cov := map[string]any{
		"evaluations":                   len(r.Results),
		"distinct_nontrivial":           len(distinct),
		"rule":                          "cases come from the deterministic catalogue plus seeded random schemas/values; a case is non-trivial when it uses a non-default annotation, a non-empty path/query binding or a non-zero value; distinct = distinct (family, canonical input)",
		"samples":                       samples,
		"traces_validated_against_impl": agree,
		"disagreements_checked":         len(r.Results) - zone["Z3_unmodelled"],
		"zone_counts":                   zone,
		"family_counts":                 fam,
		"feature_distribution":          feat,
		"known_findings_seen":           seenKnown,
		"tree_hash":                     r.TreeHash,
		"exhaustive":                    false,
		"trusted_base": []string{
			"Coq 8.16.1 kernel and vm_compute (no native_compute)",
			"hand-written Gallina model of the generators/emitted runtime (theories/*.v), tied to /repo by this run's correspondence cases",
			"harness: descriptor builder, plugin runner, artefact extractors, Json.render (Coq) and its Go decoder",
		},
	}
	if r.Proof != nil && r.Tier == "thorough" {
		if txt, err := CoqChk(); err != nil {
			r.Proof.Err += " " + err.Error()
		} else {
			cov["coqchk"] = strings.Join(strings.Fields(txt), " ")
			if !strings.Contains(txt, "Axioms: <none>") {
				r.Proof.Err += " coqchk reports axioms: " + cov["coqchk"].(string)
			}
		}
	}
	if r.Proof != nil {
		cov["obligations"] = r.Proof.Obligations
		cov["discharged"] = r.Proof.Discharged
		cov["checker_cmd"] = r.Proof.Cmd
		cov["theorems"] = r.Proof.Theorems
		if r.Proof.Axioms == nil {
			r.Proof.Axioms = []string{}
		}
		cov["axioms"] = r.Proof.Axioms
		if r.Proof.Err != "" {
			cov["proof_error"] = r.Proof.Err
		}
	}
	for k, v := range r.Extra {
		cov[k] = v
	}
	notes := r.Notes
	if notes == nil {
		notes = []string{}
	}
	notes = append(notes, "the model is hand-written; its tie to /repo is this run's correspondence on sampled schemas/values", "no axioms are used (Print Assumptions: closed under the global context) unless listed under coverage.axioms")
	ev := map[string]any{
		"property_id": r.Property, "tier": r.Tier, "seed": r.Seed, "level": "proof",
		"coverage": cov, "wall_s": time.Since(r.Start).Seconds(), "violations": violations,
		"assumptions": notes,
	}
	os.MkdirAll(filepath.Join(VerifRoot(), "evidence"), 0o755)
	b, _ := json.MarshalIndent(ev, "", " ")
	os.WriteFile(filepath.Join(VerifRoot(), "evidence", r.Property+".json"), b, 0o644)
}

// Compare fills Agree/Diff from Obs and Pred (both canonicalised).
func (c *CaseResult) Compare() {
	if c.Unmodelled != "" {
		return
	}
	a, b := Canon(c.Obs), Canon(c.Pred)
	c.Obs, c.Pred = a, b
	c.Diff = Diff(a, b)
	c.Agree = c.Diff == ""
}

// Apply records the model's verdict on a case.
func (c *CaseResult) Apply(v CoqVerdict) {
	c.Obs = Canon(c.Obs)
	if v.Unmodelled != "" {
		c.Unmodelled = v.Unmodelled
		return
	}
	c.Tags = v.Tags
	c.Agree = v.Agree
	c.Obs = Canon(c.Obs)
	if !v.Agree {
		c.Pred = v.Pred
		c.Diff = Diff(c.Obs, Canon(v.Pred))
		if c.Diff == "" {
			c.Diff = "(model comparison failed; values render equal)"
		}
	}
}
