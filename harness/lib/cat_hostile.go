package lib

import "strings"

// HostileCatalogue (C13): every place a proto name flows into an emitted Go or TypeScript identifier,
// fed with names that are reserved words, predeclared identifiers, locals of the emitted functions, or
// names the generators declare themselves.
//   path variable names, query field names, message field names  -> req.<X> / x.<X> / destructuring
//   method names (lowerFirst)                                    -> TS class members, Go locals <m>Handler, <m>PathParams
//   service names                                                -> <svc>Client struct, With<Svc>..., create<Svc>Routes
//   message / enum names                                         -> package-level types next to the fixed helper declarations
//   enum value names, header names                               -> map keys, helper function names

// names that are harmless on the pinned tree wherever they are used as path / query / body field names
var hostileFieldNames = []string{
	// locals of the emitted TS client method and TS server route
	"path", "url", "headers", "resp", "params", "options", "req", "body", "ctx", "result", "handler", "path_params",
	// ECMAScript reserved and strict-mode reserved words, and a few globals
	"package", "class", "default", "interface", "let", "static", "yield", "await", "enum", "new", "function", "delete", "return",
	"this", "super", "import", "export", "void", "typeof", "in", "of", "arguments", "eval", "undefined", "null", "true", "false", "constructor", "prototype",
	// Go keywords
	"type", "func", "range", "select", "go", "map", "chan", "var", "const", "struct", "defer", "fallthrough", "goto", "switch", "case", "if", "else", "for", "break", "continue",
	// Go predeclared identifiers and packages the emitted code uses
	"error", "len", "make", "nil", "iota", "append", "panic", "int", "bool", "byte", "any", "fmt", "json", "http", "strings", "context", "proto", "protojson",
	// locals of the emitted Go client / server / codec functions
	"err", "req_url", "query_params", "http_req", "call_opts", "content_type", "c", "x", "raw", "data", "v", "s", "n", "k", "w", "r", "m", "e", "msg", "out", "opts", "config", "server",
}

func upperFirst(s string) string {
	if s == "" {
		return s
	}
	return strings.ToUpper(s[:1]) + s[1:]
}

func hostileIdent(i int) string { return string(rune('A'+i/26)) + string(rune('a'+i%26)) }

func HostileCatalogue() []*Request {
	var out []*Request
	add := func(r *Request) { r.Tags = []string{"build", "hostile"}; out = append(out, r) }
	q := func(id, t string) string { return id + ".v1." + t }

	{ // A. path variables and B. query parameters (GET: TS client/server and Go client print them)
		id := "hpath"
		var msgs []*Message
		svc := &Service{Name: "Names", BasePath: "/n", HasConfig: true}
		for i, n := range hostileFieldNames {
			mn := "P" + hostileIdent(i)
			msgs = append(msgs, M(mn, F(n, 1, "string"), F("other", 2, "int32", Query("other", false))))
			svc.Methods = append(svc.Methods, RPC("Get"+mn, q(id, mn), q(id, "Resp"), "GET", "/"+strings.ToLower(mn)+"/{"+n+"}/x"))
		}
		msgs = append(msgs, M("Resp", F("ok", 1, "bool")))
		add(buildReq(id, nil, msgs, svc))
		id = "hquery"
		msgs = nil
		svc = &Service{Name: "Names", BasePath: "/n", HasConfig: true}
		for i, n := range hostileFieldNames {
			mn := "Q" + hostileIdent(i)
			msgs = append(msgs, M(mn, F("id", 1, "string"), F(n, 2, "string", Query(n, false))))
			svc.Methods = append(svc.Methods, RPC("Del"+mn, q(id, mn), q(id, "Resp"), "DELETE", "/"+strings.ToLower(mn)+"/{id}"))
		}
		msgs = append(msgs, M("Resp", F("ok", 1, "bool")))
		add(buildReq(id, nil, msgs, svc))
	}
	{ // C. message fields touched by every codec emitter
		id := "hfields"
		plain := M("Plain")
		enc := M("Enc", F("big", 1, "int64", I64("NUMBER")))
		nul := M("Nul")
		cont := M("Cont", F("series", 1, "", Msg(q(id, "BarList")), MapOf("string")))
		for i, n := range hostileFieldNames {
			plain.Fields = append(plain.Fields, F(n, int32(i+1), "string"))
			enc.Fields = append(enc.Fields, F(n, int32(i+2), "int64", I64("NUMBER")))
			nul.Fields = append(nul.Fields, F(n, int32(i+1), "string", Opt(), Nullable(true)))
			cont.Fields = append(cont.Fields, F(n, int32(i+2), []string{"string", "int32", "bool", "bytes"}[i%4]))
		}
		svc := Svc("Echo", "/"+id, RPC("EchoPlain", q(id, "Plain"), q(id, "Plain"), "POST", "/p"), RPC("EchoEnc", q(id, "Enc"), q(id, "Enc"), "POST", "/e"),
			RPC("EchoNul", q(id, "Nul"), q(id, "Nul"), "POST", "/n"), RPC("EchoCont", q(id, "Cont"), q(id, "Cont"), "POST", "/c"))
		add(buildReq(id, nil, []*Message{M("Bar", F("t", 1, "int64")), M("BarList", F("bars", 1, "", Msg(q(id, "Bar")), Rep(), Unwrap())), plain, enc, nul, cont}, svc))
	}
	// D. method names
	methodSvc := func(id string, names ...string) *Request {
		svc := &Service{Name: "Verbs", BasePath: "/" + id, HasConfig: true}
		for _, n := range names {
			svc.Methods = append(svc.Methods, RPC(n, q(id, "Req"), q(id, "Resp"), "POST", "/"+strings.ToLower(n)))
		}
		return buildReq(id, nil, []*Message{M("Req", F("id", 1, "string")), M("Resp", F("ok", 1, "bool"))}, svc)
	}
	add(methodSvc("hmethods", "Delete", "New", "Default", "Class", "Function", "Package", "Import", "Export", "Type", "Func", "Range", "Select", "Go", "Map", "Chan", "Var", "Const",
		"Interface", "Struct", "String", "Error", "Len", "Make", "Nil", "True", "Await", "Yield", "Let", "Static", "Enum", "Req", "Resp", "Err", "Ctx", "Path", "Body", "Config",
		"Init", "Main", "Fetch", "Headers", "Options", "Prototype", "Then", "ToString", "Server", "Service", "Method", "Request", "Validate", "Handler", "Mux", "Generic"))
	add(methodSvc("hmconstructor", "Get", "Constructor"))
	add(methodSvc("hmgeneric", "Generic", "Other"))
	add(methodSvc("hmbind", "Bind"))
	add(methodSvc("hmfixed", "Configuration", "DefaultConfiguration", "Validator")) // getConfiguration / getDefaultConfiguration / getValidator + "Headers": no clash
	{ // E. service names
		id := "hservices"
		var svcs []*Service
		for _, n := range []string{"Http", "Json", "Error", "String", "Type", "Default", "Context", "Server", "Client", "Mock", "Fmt", "Proto", "Strings", "Bytes", "Url", "Io", "New", "Class", "Function", "Promise", "Response"} {
			svcs = append(svcs, Svc(n, "/"+strings.ToLower(n), RPC("Do"+n, q(id, "Req"), q(id, "Resp"), "POST", "/do")))
		}
		add(buildReq(id, nil, []*Message{M("Req", F("id", 1, "string")), M("Resp", F("ok", 1, "bool"))}, svcs...))
	}
	{ // F. enum and enum value names (with enum_value so that the lookup tables are emitted), message names that are globals of the TS runtime
		id := "htypes"
		mk := func(name string) *Enum {
			u := strings.ToUpper(name)
			return &Enum{Name: name, Values: []*EnumValue{{Name: u + "_UNSPECIFIED", Number: 0}, {Name: u + "_FUNC", Number: 1, EnumValue: Str("func")}, {Name: u + "_default", Number: 2}}}
		}
		enums := []*Enum{mk("Func"), mk("Len"), mk("Json"), mk("Fmt"), mk("Kind"), mk("Default")}
		var msgs []*Message
		top := M("All", F("id", 1, "string"))
		for i, n := range []string{"Response", "Request", "Promise", "Object", "Function", "Array", "Map", "Error", "ValidationError", "ApiError", "FieldViolation", "Headers", "URL",
			"String", "Number", "Boolean", "Type", "Any", "Record", "Partial", "Date", "Symbol"} {
			msgs = append(msgs, M(n, F("v", 1, "string")))
			top.Fields = append(top.Fields, F("f"+hostileIdent(i), int32(i+2), "", Msg(q(id, n))))
		}
		for i, e := range enums {
			top.Fields = append(top.Fields, F("e"+hostileIdent(i), int32(100+i), "", EnumT(q(id, e.Name))))
		}
		msgs = append(msgs, top)
		add(buildReq(id, enums, msgs, Svc("Echo", "/"+id, RPC("EchoAll", q(id, "All"), q(id, "All"), "POST", "/all"))))
	}
	// H. message names equal to declarations of the fixed helper files
	for i, n := range []string{"ServerOption", "ErrorHandler", "BindingMiddleware", "PathParamConfig", "ValidateMessage", "ContentTypeJSON", "JSONContentType"} {
		id := "hfixed" + string(rune('a'+i))
		add(buildReq(id, nil, []*Message{M(n, F("v", 1, "string")), M("Req", F("id", 1, "string"))}, Svc("Echo", "/"+id, RPC("Do", q(id, "Req"), q(id, n), "POST", "/do"))))
	}
	{ // G. header names -> helper names (Go), object keys (TS)
		id := "hheaders"
		hs := func(names ...string) []*Header {
			var l []*Header
			for _, n := range names {
				l = append(l, &Header{Name: n, Type: "string"})
			}
			return l
		}
		svc := Svc("Echo", "/"+id, RPC("One", q(id, "Req"), q(id, "Req"), "POST", "/one").WithHeaders(hs("X-Type", "X-Default", "X-New", "X-Class", "X-Func", "X-Go", "X-Map", "type", "default", "X-nil")...)).
			WithHeaders(hs("X-Package", "X-Import", "X-String", "X-Error", "X-Client", "X-Option", "constructor", "__proto__")...)
		add(buildReq(id, nil, []*Message{M("Req", F("id", 1, "string"))}, svc))
	}
	{ // a header whose TS property name (strip X-, camel-case) starts with a digit
		id := "hhdrdigit"
		svc := Svc("Echo", "/"+id, RPC("One", q(id, "Req"), q(id, "Req"), "POST", "/one").WithHeaders(&Header{Name: "X-1st", Type: "string"}))
		add(buildReq(id, nil, []*Message{M("Req", F("id", 1, "string"))}, svc))
	}
	{ // fields whose Go name is a method the codec emitters add (not reserved by protoc-gen-go)
		id := "hmarshalfield"
		add(buildReq(id, nil, []*Message{M("A", F("marshal_j_s_o_n", 1, "string"), F("big", 2, "int64", I64("NUMBER"))), M("B", F("unmarshal_j_s_o_n", 1, "string"), F("big", 2, "int64"))},
			Svc("Echo", "/"+id, RPC("EchoA", q(id, "A"), q(id, "A"), "POST", "/a"), RPC("EchoB", q(id, "B"), q(id, "B"), "POST", "/b"))))
	}
	return out
}
