package lib

import (
	"fmt"
	"math/rand"
)

var allScalarKinds = []string{"double", "float", "int32", "int64", "uint32", "uint64", "sint32", "sint64", "fixed32", "fixed64", "sfixed32", "sfixed64", "bool", "string", "bytes"}
var urlSafeKinds = []string{"string", "int32", "int64", "uint32", "uint64", "sint32", "sint64", "fixed32", "fixed64", "sfixed32", "sfixed64", "bool"}
var mapKeyKinds = []string{"string", "int32", "int64", "uint32", "uint64", "bool", "sint32", "fixed64"}

// RandomSchema builds one accepted single-file request: random messages (every kind and
// cardinality, nested messages, enums, maps, oneofs, proto3 optional), one JSON-mapping feature at
// most per message (so that emitted packages build), and a service whose RPCs use every verb with
// path variables and (on bodiless verbs) query parameters bound to scalar fields.
func RandomSchema(rng *rand.Rand, idx int, withFeatures bool) *Request {
	id := fmt.Sprintf("rnd%d", idx)
	pkg := id + ".v1"
	f := &File{Enums: []*Enum{E("Kind", "KIND_UNSPECIFIED", "KIND_A", "KIND_B", "KIND_C")}}
	nMsg := 2 + rng.Intn(4)
	names := make([]string, nMsg)
	for i := range names {
		names[i] = fmt.Sprintf("M%d", i)
	}
	fieldNames := []string{"id", "name", "user_id", "count", "big_value", "ok", "data", "kind", "child", "items", "labels", "by_key", "opt_note", "ratio", "when", "a1", "x_y_z"}
	for i, mn := range names {
		m := M(mn)
		nf := 2 + rng.Intn(7)
		used := map[string]bool{}
		feature := -1
		if withFeatures {
			feature = rng.Intn(6) // 0 int64 NUMBER, 1 nullable, 2 bytes, 3 timestamp, 4 empty_behavior, 5 none
		}
		var oneof *Oneof
		for k := 0; k < nf; k++ {
			fn := fieldNames[rng.Intn(len(fieldNames))]
			if used[fn] {
				fn = fmt.Sprintf("f_%d", k)
			}
			used[fn] = true
			num := int32(k + 1)
			var fl *Field
			switch rng.Intn(12) {
			case 0: // nested message (later index only: acyclic; sometimes self for recursion)
				t := names[min(nMsg-1, i+1+rng.Intn(2))]
				if t == mn {
					fl = F(fn, num, "", Msg(pkg+"."+t), Rep())
				} else {
					fl = F(fn, num, "", Msg(pkg+"."+t))
				}
			case 1:
				fl = F(fn, num, "", Msg(pkg+"."+names[rng.Intn(nMsg)]), Rep())
			case 2:
				fl = F(fn, num, "", Msg(pkg+"."+names[min(nMsg-1, i+1)]), MapOf(mapKeyKinds[rng.Intn(len(mapKeyKinds))]))
			case 3:
				fl = F(fn, num, allScalarKinds[rng.Intn(len(allScalarKinds))], MapOf(mapKeyKinds[rng.Intn(len(mapKeyKinds))]))
			case 4:
				fl = F(fn, num, "", EnumT(pkg+".Kind"))
			case 5:
				fl = F(fn, num, allScalarKinds[rng.Intn(len(allScalarKinds))], Rep())
			case 6:
				fl = F(fn, num, allScalarKinds[rng.Intn(len(allScalarKinds))], Opt())
			case 7:
				fl = F(fn, num, "", Msg(Timestamp))
			case 8:
				if oneof == nil {
					// members of a oneof must be declared consecutively: emit the whole group now
					oneof = &Oneof{Name: "choice"}
					m.Oneofs = append(m.Oneofs, oneof)
					m.Fields = append(m.Fields,
						F(fmt.Sprintf("c_s%d", k), num+100, "string", InOneof("choice")),
						F(fmt.Sprintf("c_n%d", k), num+101, allScalarKinds[rng.Intn(len(allScalarKinds))], InOneof("choice")),
						F(fmt.Sprintf("c_m%d", k), num+102, "", Msg(pkg+"."+names[min(nMsg-1, i+1)]), InOneof("choice")))
				}
				fl = F(fn, num, allScalarKinds[rng.Intn(len(allScalarKinds))])
			default:
				fl = F(fn, num, allScalarKinds[rng.Intn(len(allScalarKinds))])
			}
			// one feature per message, on singular fields of the right type
			if fl.Card == "singular" && fl.Oneof == "" {
				switch {
				case feature == 0 && (fl.Kind == "int64" || fl.Kind == "uint64" || fl.Kind == "sint64"):
					fl.Int64Encoding = "NUMBER"
				case feature == 2 && fl.Kind == "bytes":
					fl.BytesEncoding = []string{"HEX", "BASE64URL", "BASE64_RAW", "BASE64URL_RAW"}[rng.Intn(4)]
				case feature == 3 && fl.TypeName == Timestamp:
					fl.TimestampFormat = []string{"UNIX_SECONDS", "UNIX_MILLIS", "DATE"}[rng.Intn(3)]
				case feature == 4 && fl.Kind == "message" && fl.TypeName != Timestamp:
					fl.EmptyBehavior = []string{"PRESERVE", "NULL", "OMIT"}[rng.Intn(3)]
				}
			}
			if feature == 1 && fl.Card == "optional" && fl.Kind != "message" && fl.Kind != "bytes" && fl.Kind != "enum" {
				fl.Nullable = B(true)
			}
			m.Fields = append(m.Fields, fl)
		}
		f.Messages = append(f.Messages, m)
	}
	// request messages for URL-bound RPCs
	svc := &Service{Name: "Rnd", BasePath: []string{"/api", "/v1/x", ""}[rng.Intn(3)]}
	svc.HasConfig = svc.BasePath != ""
	verbs := []string{"GET", "POST", "PUT", "DELETE", "PATCH"}
	for j := 0; j < 3+rng.Intn(4); j++ {
		v := verbs[rng.Intn(5)]
		rq := M(fmt.Sprintf("R%dReq", j))
		np := rng.Intn(3)
		path := fmt.Sprintf("/r%d", j)
		num := int32(1)
		for p := 0; p < np; p++ {
			n := fmt.Sprintf("p%d", p)
			rq.Fields = append(rq.Fields, F(n, num, urlSafeKinds[rng.Intn(len(urlSafeKinds))]))
			num++
			path += "/{" + n + "}"
			if rng.Intn(2) == 0 {
				path += fmt.Sprintf("/s%d", p)
			}
		}
		if v == "GET" || v == "DELETE" {
			for q := 0; q < rng.Intn(3); q++ {
				rq.Fields = append(rq.Fields, F(fmt.Sprintf("q%d", q), num, urlSafeKinds[rng.Intn(len(urlSafeKinds))], Query("", false)))
				num++
			}
		} else {
			rq.Fields = append(rq.Fields, F("payload", num, "", Msg(pkg+"."+names[rng.Intn(nMsg)])), F("note", num+1, "string"))
		}
		f.Messages = append(f.Messages, rq)
		svc.Methods = append(svc.Methods, RPC(fmt.Sprintf("R%d", j), pkg+"."+rq.Name, pkg+"."+names[rng.Intn(nMsg)], v, path))
	}
	f.Services = []*Service{svc}
	r := OneFile(id, pkg, f)
	r.Tags = []string{"random"}
	return r
}

func RandomSchemas(rng *rand.Rand, n int, withFeatures bool) []*Request {
	var out []*Request
	for i := 0; i < n; i++ {
		out = append(out, RandomSchema(rng, i, withFeatures))
	}
	return out
}
