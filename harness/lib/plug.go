package lib

import (
	"bytes"
	"context"
	"crypto/sha256"
	"encoding/hex"
	"fmt"
	"os"
	"os/exec"
	"path/filepath"
	"sort"
	"strings"
	"syscall"
	"time"

	"google.golang.org/protobuf/proto"
	"google.golang.org/protobuf/types/descriptorpb"
	"google.golang.org/protobuf/types/pluginpb"
)

var Plugins = []string{"go-http", "go-client", "ts-client", "ts-server", "openapiv3"}

func VerifRoot() string {
	if v := os.Getenv("VERIF_ROOT"); v != "" {
		return v
	}
	return "/verif"
}
func RepoRoot() string {
	if v := os.Getenv("VERIF_REPO"); v != "" {
		return v
	}
	return "/repo"
}
func CacheRoot() string { return filepath.Join(VerifRoot(), ".cache") }

// TreeHash hashes the Go sources of /repo's working tree (what the plugins are built from).
func TreeHash() (string, error) {
	h := sha256.New()
	var files []string
	root := RepoRoot()
	for _, d := range []string{"cmd", "internal", "http"} {
		_ = filepath.Walk(filepath.Join(root, d), func(p string, info os.FileInfo, err error) error {
			if err != nil || info.IsDir() {
				return nil
			}
			if strings.HasSuffix(p, ".go") && !strings.HasSuffix(p, "_test.go") {
				files = append(files, p)
			}
			return nil
		})
	}
	files = append(files, filepath.Join(root, "go.mod"))
	sort.Strings(files)
	for _, f := range files {
		b, err := os.ReadFile(f)
		if err != nil {
			return "", err
		}
		fmt.Fprintf(h, "%s %d\n", strings.TrimPrefix(f, root), len(b))
		h.Write(b)
	}
	return hex.EncodeToString(h.Sum(nil))[:16], nil
}

func goEnv() []string {
	env := os.Environ()
	env = append(env, "GOFLAGS=-mod=mod", "GOPROXY=off", "GOCACHE="+filepath.Join(CacheRoot(), "gocache"))
	return env
}

// BuildPlugins builds the five plugin binaries from /repo's working tree into the cache
// (keyed by tree hash) and returns the directory. Build tag "verif" is enabled.
func BuildPlugins() (string, string, error) {
	th, err := TreeHash()
	if err != nil {
		return "", "", err
	}
	dir := filepath.Join(CacheRoot(), "bin", th)
	ok := true
	for _, p := range Plugins {
		if _, err := os.Stat(filepath.Join(dir, "protoc-gen-"+p)); err != nil {
			ok = false
		}
	}
	if ok {
		return dir, th, nil
	}
	if err := os.MkdirAll(dir, 0o755); err != nil {
		return "", "", err
	}
	tmp, err := os.MkdirTemp(filepath.Join(CacheRoot(), "bin"), "build-")
	if err != nil {
		return "", "", err
	}
	defer os.RemoveAll(tmp)
	args := []string{"build", "-tags", "verif", "-o", tmp + "/"}
	for _, p := range Plugins {
		args = append(args, "./cmd/protoc-gen-"+p)
	}
	cmd := exec.Command("go", args...)
	cmd.Dir = RepoRoot()
	cmd.Env = goEnv()
	out, err := cmd.CombinedOutput()
	if err != nil {
		return "", th, fmt.Errorf("building plugins: %v\n%s", err, out)
	}
	for _, p := range Plugins {
		if err := os.Rename(filepath.Join(tmp, "protoc-gen-"+p), filepath.Join(dir, "protoc-gen-"+p)); err != nil {
			return "", th, err
		}
	}
	pruneDirs(filepath.Join(CacheRoot(), "bin"), 3, dir)
	return dir, th, nil
}

// pruneDirs removes subdirectories of dir that are older than two hours (never `protect`), keeping
// at least `keep` of the newest. Age-based so that concurrently running checks never lose their
// own scratch directories.
func pruneDirs(dir string, keep int, protect string) {
	ents, err := os.ReadDir(dir)
	if err != nil {
		return
	}
	type e struct {
		p string
		t time.Time
	}
	var ds []e
	for _, x := range ents {
		if !x.IsDir() {
			continue
		}
		info, err := x.Info()
		if err != nil {
			continue
		}
		ds = append(ds, e{filepath.Join(dir, x.Name()), info.ModTime()})
	}
	sort.Slice(ds, func(i, j int) bool { return ds[i].t.After(ds[j].t) })
	for i, d := range ds {
		if i >= keep && d.p != protect && time.Since(d.t) > 2*time.Hour {
			os.RemoveAll(d.p)
		}
	}
}

// ProtocGenGo builds (once) the stock protoc-gen-go from the module cache.
func ProtocGenGo() (string, error) {
	p := filepath.Join(CacheRoot(), "bin", "protoc-gen-go")
	if _, err := os.Stat(p); err == nil {
		return p, nil
	}
	os.MkdirAll(filepath.Dir(p), 0o755)
	cmd := exec.Command("go", "build", "-o", p, "google.golang.org/protobuf/cmd/protoc-gen-go")
	cmd.Dir = filepath.Join(VerifRoot(), "harness")
	cmd.Env = goEnv()
	if out, err := cmd.CombinedOutput(); err != nil {
		return "", fmt.Errorf("building protoc-gen-go: %v\n%s", err, out)
	}
	return p, nil
}

// PluginResult is what one plugin process did with one request.
type PluginResult struct {
	Plugin   string            `json:"plugin"`
	Exit     string            `json:"exit"` // ok | error-response | crash | timeout | killed
	Error    string            `json:"error,omitempty"`
	Stderr   string            `json:"stderr,omitempty"`
	Files    map[string]string `json:"-"`
	Names    []string          `json:"names"`
	WallMs   int64             `json:"wall_ms"`
	MaxRSSKB int64             `json:"max_rss_kb"`
	Raw      []byte            `json:"-"`
}

// MakeCGR builds a CodeGeneratorRequest. toGenerate lists file paths (order preserved).
func MakeCGR(all []*descriptorpb.FileDescriptorProto, toGenerate []string, param string) *pluginpb.CodeGeneratorRequest {
	req := &pluginpb.CodeGeneratorRequest{
		FileToGenerate:  toGenerate,
		ProtoFile:       all,
		CompilerVersion: &pluginpb.Version{Major: proto.Int32(5), Minor: proto.Int32(29), Patch: proto.Int32(0)},
	}
	if param != "" {
		req.Parameter = proto.String(param)
	}
	return req
}

// RunPlugin executes a plugin binary under a wall-clock timeout and an address-space limit.
func RunPlugin(bin string, name string, req *pluginpb.CodeGeneratorRequest, timeout time.Duration, memMB int) *PluginResult {
	res := &PluginResult{Plugin: name, Files: map[string]string{}}
	in, err := proto.Marshal(req)
	if err != nil {
		res.Exit = "crash"
		res.Error = "marshal: " + err.Error()
		return res
	}
	ctx, cancel := context.WithTimeout(context.Background(), timeout)
	defer cancel()
	// Address-space limit through the shell's ulimit (KB); Go binaries reserve large virtual
	// ranges, so the limit is generous and the wall clock is the primary bound.
	cmd := exec.CommandContext(ctx, "/bin/sh", "-c", fmt.Sprintf("ulimit -v %d; exec %q", memMB*1024, bin))
	cmd.Stdin = bytes.NewReader(in)
	var stdout, stderr bytes.Buffer
	cmd.Stdout = &stdout
	cmd.Stderr = &stderr
	cmd.SysProcAttr = &syscall.SysProcAttr{Setpgid: true}
	cmd.Cancel = func() error { return syscall.Kill(-cmd.Process.Pid, syscall.SIGKILL) }
	start := time.Now()
	err = cmd.Run()
	res.WallMs = time.Since(start).Milliseconds()
	if cmd.ProcessState != nil {
		if ru, ok := cmd.ProcessState.SysUsage().(*syscall.Rusage); ok {
			res.MaxRSSKB = ru.Maxrss
		}
	}
	se := stderr.String()
	if len(se) > 2000 {
		se = se[:2000]
	}
	res.Stderr = se
	if ctx.Err() == context.DeadlineExceeded {
		res.Exit = "timeout"
		return res
	}
	if err != nil {
		res.Exit = "crash"
		res.Error = err.Error()
		return res
	}
	res.Raw = stdout.Bytes()
	var resp pluginpb.CodeGeneratorResponse
	if err := proto.Unmarshal(stdout.Bytes(), &resp); err != nil {
		res.Exit = "crash"
		res.Error = "bad response: " + err.Error()
		return res
	}
	if resp.Error != nil {
		res.Exit = "error-response"
		res.Error = resp.GetError()
	} else {
		res.Exit = "ok"
	}
	for _, f := range resp.File {
		res.Files[f.GetName()] = f.GetContent()
		res.Names = append(res.Names, f.GetName())
	}
	return res
}

// GenAll runs protoc-gen-go and the five sebuf plugins on a request; toGenerate = files with Generate.
type GenOutput struct {
	Req     *Request
	Built   *Built
	BuildErr string
	PB      *PluginResult
	Results map[string]*PluginResult
}

func ToGenerate(r *Request) []string {
	var out []string
	for _, f := range r.Files {
		if f.Generate {
			out = append(out, f.Path)
		}
	}
	return out
}

func GenAll(binDir string, r *Request) *GenOutput {
	out := &GenOutput{Req: r, Results: map[string]*PluginResult{}}
	b, err := BuildDescriptors(r)
	if err != nil {
		out.BuildErr = err.Error()
		return out
	}
	out.Built = b
	tg := ToGenerate(r)
	pg, err := ProtocGenGo()
	if err == nil {
		out.PB = RunPlugin(pg, "go", MakeCGR(b.All, tg, "paths=source_relative"), 30*time.Second, 4096)
	}
	for _, p := range Plugins {
		param := r.Params[p]
		if p == "go-http" || p == "go-client" {
			if param == "" {
				param = "paths=source_relative"
			} else {
				param = "paths=source_relative," + param
			}
		}
		out.Results[p] = RunPlugin(filepath.Join(binDir, "protoc-gen-"+p), p, MakeCGR(b.All, tg, param), 20*time.Second, 4096)
	}
	return out
}
