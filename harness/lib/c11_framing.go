package lib

import (
	"bufio"
	"bytes"
	"encoding/hex"
	"encoding/json"
	"fmt"
	"io"
	"math/rand"
	"net/http"
	"os/exec"
	"strings"
	"sync"

	"google.golang.org/protobuf/encoding/protojson"
	"google.golang.org/protobuf/proto"
	"google.golang.org/protobuf/types/dynamicpb"

	sebufhttp "github.com/SebastienMelki/sebuf/http"
)

// ---- C11, family "client-framing" -----------------------------------------------------------------
// Canned responses whose framing headers lie: Content-Length far larger / smaller than the body, absurd
// or unparsable values, duplicated and conflicting headers, chunked bodies that are cut or malformed —
// with every status class, for JSON and binary clients.  The bytes are served verbatim by a peer behind a
// real http.Transport (runner: canned_resp.raw_hex); the call runs under recover + deadline.  Announced
// lengths that could make a client reserve memory are run one per process under an address-space limit,
// so that a process that dies (fatal error: out of memory) is observed as a crash of that scenario.

type c11Frame struct {
	name    string
	raw     []byte
	isolate bool
}

// c11Frames builds the framings of one (status, content type, body).
func c11Frames(status int, ct string, body []byte) []c11Frame {
	n := len(body)
	head := func(extra ...string) []byte {
		var b bytes.Buffer
		fmt.Fprintf(&b, "HTTP/1.1 %d %s\r\nContent-Type: %s\r\n", status, http.StatusText(status), ct)
		for _, e := range extra {
			b.WriteString(e + "\r\n")
		}
		b.WriteString("\r\n")
		return b.Bytes()
	}
	cl := func(v string) []byte { return append(head("Content-Length: "+v), body...) }
	var out []c11Frame
	add := func(name string, raw []byte, iso bool) { out = append(out, c11Frame{name, raw, iso}) }
	add("exact", cl(fmt.Sprint(n)), false)
	add("close-delimited", append(head("Connection: close"), body...), false)
	// chunked: complete, cut before the last chunk, malformed size line
	half := n / 2
	chunked := func(parts ...[]byte) []byte {
		b := head("Transfer-Encoding: chunked")
		for _, p := range parts {
			b = append(b, []byte(fmt.Sprintf("%x\r\n", len(p)))...)
			b = append(b, p...)
			b = append(b, "\r\n"...)
		}
		return b
	}
	add("chunked", append(chunked(body[:half], body[half:]), "0\r\n\r\n"...), false)
	add("chunked-cut", chunked(body[:half], body[half:]), false)
	add("chunked-bad-size", append(append(head("Transfer-Encoding: chunked"), "zz\r\n"...), body...), false)
	add("chunked-huge-size", append(append(head("Transfer-Encoding: chunked"), "7fffffffffffffff\r\n"...), body...), false)
	add("chunked-and-length", append(append(head("Transfer-Encoding: chunked", "Content-Length: 4611686018427387904"), []byte(fmt.Sprintf("%x\r\n", n))...), append(append([]byte{}, body...), "\r\n0\r\n\r\n"...)...), false)
	// larger than the body by a sane amount
	for _, d := range []int{1, 17, 4096, 1 << 16} {
		add(fmt.Sprintf("length+%d", d), cl(fmt.Sprint(n+d)), false)
	}
	// smaller than the body
	for k, v := range []int{0, 1, n / 2, n - 1} {
		if v >= 0 && v < n {
			add("length<body:"+[]string{"0", "1", "half", "all-but-one"}[k], cl(fmt.Sprint(v)), false)
		}
	}
	// far larger / absurd (one process each, under an address-space limit)
	for _, v := range []string{"67108864", "2147483648", "4294967301", "17179869184", "1099511627776", "140737488355328", "281474976710656", "281474976710657",
		"4611686018427387904", "9223372036854775806", "9223372036854775807"} {
		add("length="+v, cl(v), true)
	}
	// unparsable / contradictory
	for _, v := range []string{"-1", "abc", "9223372036854775808", "18446744073709551616", "99999999999999999999999999", "+5", "0x10", "1 2", "1e3", "5.0", ""} {
		add("length="+v+"?", cl(v), false)
	}
	add("length-twice-same", append(head(fmt.Sprintf("Content-Length: %d", n), fmt.Sprintf("Content-Length: %d", n)), body...), false)
	add("length-twice-differ", append(head(fmt.Sprintf("Content-Length: %d", n), "Content-Length: 4611686018427387904"), body...), false)
	add("length-list", append(head(fmt.Sprintf("Content-Length: %d, %d", n, n)), body...), false)
	add("headers-cut", head()[:len(head())-2], false)
	add("status-line-only", []byte(fmt.Sprintf("HTTP/1.1 %d\r\n", status)), false)
	add("blank-line", []byte("\r\n"), false)
	add("garbage", []byte("garbage\r\n\r\n"), false)
	return out
}

// readFramed: the harness's own reading of the peer's bytes with net/http: 0 = complete (with the
// delivered body and the status), 1 = the response head cannot be read, 2 = the body ends early / is malformed.
func readFramed(raw []byte) (int, int, []byte) {
	resp, err := http.ReadResponse(bufio.NewReader(bytes.NewReader(raw)), &http.Request{Method: "POST"})
	if err != nil {
		return 1, 0, nil
	}
	defer resp.Body.Close()
	b, err := io.ReadAll(resp.Body)
	if err != nil {
		return 2, resp.StatusCode, b
	}
	return 0, resp.StatusCode, b
}

// runIsolated runs each scenario in a runner process of its own under an address-space limit; a
// process that ends without an observation is reported as a crash (with the first lines of its stderr).
func runIsolated(bin string, scenarios []any, par int) []json.RawMessage {
	out := make([]json.RawMessage, len(scenarios))
	sem := make(chan struct{}, par)
	var wg sync.WaitGroup
	for i := range scenarios {
		wg.Add(1)
		go func(i int) {
			defer wg.Done()
			sem <- struct{}{}
			defer func() { <-sem }()
			in, _ := json.Marshal(scenarios[i])
			cmd := exec.Command("/bin/sh", "-c", "ulimit -v 8388608; exec timeout 60 \"$0\"", bin)
			cmd.Stdin = bytes.NewReader(append(in, '\n'))
			var stdout, stderr bytes.Buffer
			cmd.Stdout, cmd.Stderr = &stdout, &stderr
			err := cmd.Run()
			line := bytes.TrimSpace(stdout.Bytes())
			if j := bytes.IndexByte(line, '\n'); j >= 0 {
				line = line[:j]
			}
			if len(line) > 0 && json.Valid(line) {
				out[i] = append(json.RawMessage{}, line...)
				return
			}
			msg := fmt.Sprintf("runner process died (%v): %s", err, fatalLine(stderr.String()))
			o, _ := json.Marshal(map[string]any{"panic": msg})
			out[i] = o
		}(i)
	}
	wg.Wait()
	return out
}

// fatalLine: the "fatal error: ..." / "panic: ..." line of a dead Go process (stable across runs, unlike
// the allocator's byte counts printed before it).
func fatalLine(stderr string) string {
	for _, l := range strings.Split(stderr, "\n") {
		l = strings.TrimSpace(l)
		if strings.HasPrefix(l, "fatal error:") || strings.HasPrefix(l, "panic:") {
			return l
		}
	}
	return firstLines(stderr, 1)
}

func firstLines(s string, n int) string {
	ls := strings.Split(strings.TrimSpace(s), "\n")
	if len(ls) > n {
		ls = ls[:n]
	}
	t := strings.Join(ls, " | ")
	if len(t) > 300 {
		t = t[:300]
	}
	return t
}

func c11Framing(run *Run, s *Session, reqs []*Request, rng *rand.Rand) {
	type fc struct {
		req    *Request
		g      *GenOutput
		svc    *Service
		md     *Method
		ct     int
		status int
		body   []byte
		fr     c11Frame
	}
	var cases []*fc
	vg := &ValueGen{Rng: rng}
	statuses := []int{200, 201, 204, 301, 400, 404, 422, 500, 503}
	for i, r := range reqs {
		if !s.InRunner[r.ID] || (r.ID != "ftplain" && r.ID != "fti64") {
			continue
		}
		g := s.Gens[i]
		svc := r.Files[0].Services[0]
		md := svc.Methods[0]
		out := g.Built.MessageDesc(md.Out)
		for _, st := range statuses {
			for ct := 0; ct < 2; ct++ {
				if r.ID == "fti64" && st != 200 && st != 400 && st != 500 {
					continue
				}
				m := vg.Random(out, 0.9)
				var body []byte
				switch {
				case st < 400 && ct == 0:
					body, _ = protojson.Marshal(m)
				case st < 400:
					body = Wire(m)
				case st == 400 && ct == 0:
					body = []byte(`{"violations":[{"field":"a.b","description":"must not be empty"},{"field":"c","description":"too long"}]}`)
				case st == 400:
					body, _ = proto.Marshal(&sebufhttp.ValidationError{Violations: []*sebufhttp.FieldViolation{{Field: "a.b", Description: "must not be empty"}, {Field: "c", Description: "too long"}}})
				case ct == 0:
					body = []byte(`{"message":"backend unavailable, try again later"}`)
				default:
					body, _ = proto.Marshal(&sebufhttp.Error{Message: "backend unavailable, try again later"})
				}
				if len(body) < 4 {
					body = []byte(`{"id":"abcdef"}`)
					if ct == 1 {
						body = []byte{0x0a, 0x06, 'a', 'b', 'c', 'd', 'e', 'f'}
					}
				}
				for _, fr := range c11Frames(st, ctNames[ct], body) {
					if fr.isolate && st != 200 && st != 400 && st != 500 && run.Tier != "thorough" {
						continue
					}
					if fr.isolate && r.ID != "ftplain" {
						continue
					}
					cases = append(cases, &fc{req: r, g: g, svc: svc, md: md, ct: ct, status: st, body: body, fr: fr})
				}
			}
		}
	}
	var shared, iso []any
	var sharedIdx, isoIdx []int
	for i, c := range cases {
		sc := map[string]any{"id": fmt.Sprint(i), "kind": "call", "pkg": c.req.ID, "service": c.svc.Name, "method": c.md.Name, "req": "",
			"opts": map[string]any{"ContentType": ctNames[c.ct]}, "script": map[string]any{},
			"canned_resp": map[string]any{"status": c.status, "raw_hex": hex.EncodeToString(c.fr.raw)}}
		if c.fr.isolate {
			iso, isoIdx = append(iso, sc), append(isoIdx, i)
		} else {
			shared, sharedIdx = append(shared, sc), append(sharedIdx, i)
		}
	}
	raw := make([]json.RawMessage, len(cases))
	sraw, err := RunScenarios(s.Runner, shared, 4)
	if err != nil {
		run.Fatal("runner (client framing): %v", err)
	}
	for k, i := range sharedIdx {
		raw[i] = sraw[k]
	}
	for k, o := range runIsolated(s.Runner, iso, 8) {
		raw[isoIdx[k]] = o
	}
	var ccs []CoqCase
	var results []*CaseResult
	for i, c := range cases {
		var o RunnerObs
		if err := json.Unmarshal(raw[i], &o); err != nil {
			run.Fatal("bad observation (client framing): %v", err)
		}
		rawBytes := c.fr.raw
		framing, status, delivered := readFramed(rawBytes)
		res := "none"
		holds := true
		note := ""
		switch {
		case o.Panic != "" || o.Timeout || o.Error != "":
			res, holds, note = "crash", false, "client panicked / hung / died: "+firstLine(o.Panic+o.Error)
			if o.Timeout {
				note = "client hung (no result within the deadline)"
			}
		case o.Client == nil:
			res, holds, note = "nothing", false, "client returned neither a response nor an error"
		case o.Client.Resp != nil:
			res = "response"
			if framing != 0 {
				holds, note = false, "the client returned a response value although the response was not received completely"
			} else if status >= 400 {
				holds, note = false, fmt.Sprintf("the client returned a response value (no error) for HTTP status %d", status)
			}
		case o.Client.ErrType == "ValidationError" || o.Client.ErrType == "Error":
			res = o.Client.ErrType
			if framing != 0 {
				holds, note = false, "the client returned a typed error parsed from a response that was not received completely"
			}
		case strings.Contains(o.Client.ErrMsg, "failed to execute request"):
			res = "transport-error"
		case strings.Contains(o.Client.ErrMsg, "failed to read response body"):
			res = "read-error"
		case strings.Contains(o.Client.ErrMsg, "failed to unmarshal response"):
			res = "decode-error"
		default:
			res = "other"
		}
		if holds && framing == 0 && status < 400 && (res == "transport-error" || res == "read-error") {
			holds, note = false, "a completely received response was reported as a transport / read failure"
		}
		dec := func(full string) bool {
			md := c.g.Built.MessageDesc(full)
			if md == nil {
				return false
			}
			m := dynamicpb.NewMessage(md)
			if c.ct == 0 {
				return protojson.Unmarshal(delivered, m) == nil
			}
			return proto.Unmarshal(delivered, m) == nil
		}
		asVal, asErr := false, false
		asRes := false
		if framing == 0 {
			asVal, asErr = decodesAsSebuf(delivered, c.ct)
			asRes = dec(c.md.Out)
		}
		obs := map[string]any{"result": res}
		cr := &CaseResult{ID: fmt.Sprintf("%s/client-framing#%d", c.req.ID, i), Family: "client-framing",
			Input: map[string]any{"schema": c.req.ID, "status": c.status, "content_type": ctNames[c.ct], "framing": c.fr.name, "isolated_process": c.fr.isolate,
				"response_head": textShort(rawBytes), "response_hex": hexShort(rawBytes), "body_text": textShort(c.body)},
			Obs: obs, OracleHolds: holds, OracleNote: note, NonTrivial: true, Features: []string{"client", "framing:" + c.fr.name, fmt.Sprintf("status:%d", c.status)}}
		results = append(results, cr)
		ccs = append(ccs, CoqCase{Term: fmt.Sprintf("(%d%%nat, (%d%%Z, %s, %s, %s, %s))", framing, status, CoqBool(len(delivered) == 0), CoqBool(asRes), CoqBool(asVal), CoqBool(asErr)), Obs: obs})
	}
	vs, err := coqRunDedup(run.WorkDir, "c11frm", "From Sebuf Require Import Text Json Malformed.\n", "", "c11_framed_case", "predict_C11_client_framed", ccs, 8)
	if err != nil {
		run.Fatal("model evaluation (client framing): %v", err)
	}
	for i, cr := range results {
		cr.Apply(vs[i])
		run.Results = append(run.Results, cr)
	}
}
