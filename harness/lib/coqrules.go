package lib

// coqrules.go — printing buf.validate rules, field shapes, side tables and probe values as Coq terms
// of coq/theories/Rules.v / OpenApi.v, and the Go-side number tables (float64 widening, %g text).

import (
	"fmt"
	"math/big"
	"strconv"
	"strings"
)

func oasCoqOptN(u *uint64) string {
	if u == nil {
		return "None"
	}
	return fmt.Sprintf("(Some %d%%N)", *u)
}

// NumRule is one numeric rule value of a field of a given kind: the exact value the rule denotes, the
// decimal libopenapi prints for float64(value) and the text the generator prints for const/in.
type NumRule struct {
	Rule Dec
	Wide Dec
	Text string
	Big  *big.Int // integer kinds
	F    float64  // float kinds (float32 rules widened exactly)
}

func oasIsIntKind(k string) bool {
	switch k {
	case "int32", "int64", "uint32", "uint64", "sint32", "sint64", "fixed32", "fixed64", "sfixed32", "sfixed64":
		return true
	}
	return false
}
func oasIs64Kind(k string) bool {
	switch k {
	case "int64", "uint64", "sint64", "fixed64", "sfixed64":
		return true
	}
	return false
}
func oasIsFloatKind(k string) bool { return k == "float" || k == "double" }

// NumRuleOf interprets a rule literal (decimal text for integer kinds, Go float syntax for float kinds)
// the way the descriptor holds it and the generator prints it.
func NumRuleOf(kind, lit string) (NumRule, error) {
	switch {
	case oasIsIntKind(kind):
		z, ok := new(big.Int).SetString(lit, 10)
		if !ok {
			return NumRule{}, fmt.Errorf("bad integer literal %q", lit)
		}
		f, _ := new(big.Float).SetInt(z).Float64() // float64(int64): round to nearest even
		wide, _ := DecOfText(strconv.FormatFloat(f, 'f', -1, 64))
		rule, _ := DecOfText(z.String())
		return NumRule{Rule: rule, Wide: wide, Text: z.String(), Big: z}, nil
	case kind == "float":
		f, err := strconv.ParseFloat(lit, 32)
		if err != nil {
			return NumRule{}, err
		}
		rule, _ := DecOfText(strconv.FormatFloat(f, 'g', -1, 32))
		wide, _ := DecOfText(strconv.FormatFloat(f, 'f', -1, 64))
		return NumRule{Rule: rule, Wide: wide, Text: fmt.Sprintf("%g", float32(f)), F: f}, nil
	case kind == "double":
		f, err := strconv.ParseFloat(lit, 64)
		if err != nil {
			return NumRule{}, err
		}
		rule, _ := DecOfText(strconv.FormatFloat(f, 'g', -1, 64))
		wide, _ := DecOfText(strconv.FormatFloat(f, 'f', -1, 64))
		return NumRule{Rule: rule, Wide: wide, Text: fmt.Sprintf("%g", f), F: f}, nil
	}
	return NumRule{}, fmt.Errorf("kind %s has no numeric rules", kind)
}

func oasCoqBound(kind string, lit *string) string {
	if lit == nil {
		return "None"
	}
	n, err := NumRuleOf(kind, *lit)
	if err != nil {
		return "None"
	}
	return fmt.Sprintf("(Some {| nb_rule := %s; nb_wide := %s |})", n.Rule.Coq(), n.Wide.Coq())
}
func oasCoqNConst(kind, lit string) string {
	n, err := NumRuleOf(kind, lit)
	if err != nil {
		return "[]"
	}
	return CoqStr(n.Text)
}

// CoqRules renders the rules of a field (nil = no rules).
func CoqRules(f *Field) string {
	r := f.Rules
	if r == nil {
		return "no_rules"
	}
	kind := f.Kind
	numOK := oasIsIntKind(kind) || oasIsFloatKind(kind)
	b := func(l *string) string {
		if !numOK {
			return "None"
		}
		return oasCoqBound(kind, l)
	}
	nconst := "None"
	if r.NumConst != nil && numOK {
		nconst = "(Some " + oasCoqNConst(kind, *r.NumConst) + ")"
	}
	var nin []string
	if numOK {
		for _, x := range r.NumIn {
			nin = append(nin, oasCoqNConst(kind, x))
		}
	}
	wk := "None"
	if r.WellKnown != "" {
		wk = "(Some " + CoqStr(r.WellKnown) + ")"
	}
	uniq := r.Unique != nil && *r.Unique
	return fmt.Sprintf("{| r_required := %s; r_min_len := %s; r_max_len := %s; r_len := %s; r_pattern := %s; r_str_in := %s; r_str_not_in := %s; r_str_const := %s; r_well_known := %s; r_gt := %s; r_gte := %s; r_lt := %s; r_lte := %s; r_num_const := %s; r_num_in := [%s]; r_min_items := %s; r_max_items := %s; r_unique := %s; r_min_pairs := %s; r_max_pairs := %s |}",
		CoqBool(r.Required), oasCoqOptN(r.MinLen), oasCoqOptN(r.MaxLen), oasCoqOptN(r.Len), coqOptStr(r.Pattern), CoqStrList(r.StrIn), CoqStrList(r.StrNotIn),
		coqOptStr(r.StrConst), wk, b(r.NumGt), b(r.NumGte), b(r.NumLt), b(r.NumLte), nconst, strings.Join(nin, "; "),
		oasCoqOptN(r.MinItems), oasCoqOptN(r.MaxItems), CoqBool(uniq), oasCoqOptN(r.MinPairs), oasCoqOptN(r.MaxPairs))
}

// CoqFSpec renders the field shape of Rules.fspec.
func CoqFSpec(f *Field) string {
	card := map[string]string{"singular": "Singular", "optional": "Optional", "repeated": "Repeated"}[f.Card]
	if f.Card == "map" {
		card = "(MapOf " + coqKind(f.MapKey, "") + ")"
	}
	return fmt.Sprintf("{| fs_kind := %s; fs_card := %s; fs_i64num := %s |}", coqKind(f.Kind, f.TypeName), card, CoqBool(f.Int64Encoding == "NUMBER"))
}

// CoqSide renders the per-field tables (rules, examples) of a request as an OpenApi.side term.
func CoqSide(r *Request) string {
	var rules, exs []string
	for _, fl := range r.Files {
		var walk func(prefix string, ms []*Message)
		walk = func(prefix string, ms []*Message) {
			for _, m := range ms {
				fq := qual(prefix, m.Name)
				for _, f := range m.Fields {
					if f.Rules != nil {
						rules = append(rules, fmt.Sprintf("((%s, %s), %s)", CoqStr(fq), CoqStr(f.Name), CoqRules(f)))
					}
					if len(f.Examples) > 0 {
						exs = append(exs, fmt.Sprintf("((%s, %s), %s)", CoqStr(fq), CoqStr(f.Name), CoqStrList(f.Examples)))
					}
				}
				walk(fq, m.Nested)
			}
		}
		walk(fl.Package, fl.Messages)
	}
	return fmt.Sprintf("{| sd_rules := [%s]; sd_examples := [%s] |}", strings.Join(rules, ";\n   "), strings.Join(exs, "; "))
}

// ---- probe values ------------------------------------------------------------------------------

// Probe is one value of a field: Str for strings, Num for numeric kinds (exact decimal; Text = the wire
// decimal text), Other = the JSON form for kinds without scalar rules (bool, bytes).
type ProbeScalar struct {
	Kind  string // "str" | "num" | "other"
	Str   string
	Num   Dec
	Other any
}

type ProbeValue struct {
	Card  string // one | list | map
	One   ProbeScalar
	List  []ProbeScalar
	Keys  []string
	Label string
}

func (p ProbeScalar) coq() string {
	switch p.Kind {
	case "str":
		return "(RStr " + CoqStr(p.Str) + ")"
	case "num":
		return "(RNum " + p.Num.Coq() + ")"
	}
	return "(ROther (jv_of_json " + CoqJSON(Canon(p.Other)) + "))"
}

func (p ProbeValue) Coq() string {
	switch p.Card {
	case "list":
		var xs []string
		for _, e := range p.List {
			xs = append(xs, e.coq())
		}
		return "(FList [" + strings.Join(xs, "; ") + "])"
	case "map":
		var xs []string
		for i, e := range p.List {
			xs = append(xs, "("+CoqStr(p.Keys[i])+", "+e.coq()+")")
		}
		return "(FMapV [" + strings.Join(xs, "; ") + "])"
	}
	return "(FOne " + p.One.coq() + ")"
}

// CoqTable renders a (name, subject) -> bool table.
func CoqTable(t map[[2]string]bool) string {
	keys := make([][2]string, 0, len(t))
	for k := range t {
		keys = append(keys, k)
	}
	oasSortPairs(keys)
	var xs []string
	for _, k := range keys {
		xs = append(xs, fmt.Sprintf("((%s, %s), %s)", CoqStr(k[0]), CoqStr(k[1]), CoqBool(t[k])))
	}
	return "[" + strings.Join(xs, "; ") + "]"
}

func oasSortPairs(keys [][2]string) {
	for i := 1; i < len(keys); i++ {
		for j := i; j > 0 && (keys[j][0] < keys[j-1][0] || (keys[j][0] == keys[j-1][0] && keys[j][1] < keys[j-1][1])); j-- {
			keys[j], keys[j-1] = keys[j-1], keys[j]
		}
	}
}
