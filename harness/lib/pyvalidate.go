package lib

import (
	"bufio"
	"bytes"
	"encoding/json"
	"fmt"
	"os/exec"
	"path/filepath"
)

// SchemaCheck is one (schema, instance) pair for the reference JSON Schema validator.
type SchemaCheck struct {
	ID       string `json:"id"`
	Type     string `json:"type"`
	Doc      string `json:"doc"`
	Schema   any    `json:"schema"`
	Instance any    `json:"instance"`
}

type SchemaVerdict struct {
	ID          string   `json:"id"`
	Valid       bool     `json:"valid"`
	Errors      []string `json:"errors"`
	Undescribed []string `json:"undescribed"`
}

// RefValidate runs python3-vt's jsonschema (Draft 2020-12) over the checks; docs maps id -> parsed OpenAPI document.
func RefValidate(docs map[string]any, checks []*SchemaCheck) (map[string]*SchemaVerdict, error) {
	var in bytes.Buffer
	enc := json.NewEncoder(&in)
	for id, d := range docs {
		enc.Encode(map[string]any{"type": "doc", "id": id, "doc": d})
	}
	for _, c := range checks {
		c.Type = "check"
		enc.Encode(c)
	}
	cmd := exec.Command("timeout", "900", "python3-vt", filepath.Join(VerifRoot(), "harness", "py", "validate.py"))
	cmd.Stdin = &in
	var stderr bytes.Buffer
	cmd.Stderr = &stderr
	out, err := cmd.Output()
	if err != nil {
		return nil, fmt.Errorf("reference validator: %v: %s", err, tail(stderr.String(), 1500))
	}
	res := map[string]*SchemaVerdict{}
	sc := bufio.NewScanner(bytes.NewReader(out))
	sc.Buffer(make([]byte, 1<<20), 1<<26)
	for sc.Scan() {
		var v SchemaVerdict
		if json.Unmarshal(sc.Bytes(), &v) == nil {
			res[v.ID] = &v
		}
	}
	if len(res) != len(checks) {
		return res, fmt.Errorf("reference validator answered %d of %d checks: %s", len(res), len(checks), tail(stderr.String(), 1500))
	}
	return res, nil
}
