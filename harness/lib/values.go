package lib

import (
	"encoding/hex"
	"encoding/json"
	"fmt"
	"math"
	"math/rand"
	"sort"
	"strconv"
	"strings"

	"google.golang.org/protobuf/proto"
	"google.golang.org/protobuf/reflect/protoreflect"
	"google.golang.org/protobuf/types/dynamicpb"
)

// MessageDesc looks a message descriptor up in the built registry.
func (b *Built) MessageDesc(full string) protoreflect.MessageDescriptor {
	d, err := b.Files.FindDescriptorByName(protoreflect.FullName(full))
	if err != nil {
		return nil
	}
	md, _ := d.(protoreflect.MessageDescriptor)
	return md
}

// Wire marshals deterministically.
func Wire(m proto.Message) []byte {
	b, err := proto.MarshalOptions{Deterministic: true}.Marshal(m)
	if err != nil {
		panic(err)
	}
	return b
}
func WireHex(m proto.Message) string { return hex.EncodeToString(Wire(m)) }

// FromWireHex decodes wire bytes into a dynamic message of the given type.
func (b *Built) FromWireHex(full, h string) (*dynamicpb.Message, error) {
	md := b.MessageDesc(full)
	if md == nil {
		return nil, fmt.Errorf("no message %s", full)
	}
	raw, err := hex.DecodeString(h)
	if err != nil {
		return nil, err
	}
	m := dynamicpb.NewMessage(md)
	if err := proto.Unmarshal(raw, m); err != nil {
		return nil, err
	}
	return m, nil
}

// ---- canonical JSON (mirrors Value.json_of_mval) and Coq terms -------------------------------

func scalarCanon(fd protoreflect.FieldDescriptor, v protoreflect.Value) (any, string) {
	switch fd.Kind() {
	case protoreflect.BoolKind:
		return v.Bool(), "VBool " + CoqBool(v.Bool())
	case protoreflect.StringKind:
		return v.String(), "VStr " + CoqStr(v.String())
	case protoreflect.BytesKind:
		return map[string]any{"hex": hex.EncodeToString(v.Bytes())}, "VBytes " + CoqStr(string(v.Bytes()))
	case protoreflect.EnumKind:
		n := int64(v.Enum())
		return map[string]any{"enum": json.Number(strconv.FormatInt(n, 10))}, fmt.Sprintf("VEnum (%d)%%Z", n)
	case protoreflect.FloatKind:
		bits := uint64(math.Float32bits(float32(v.Float())))
		return map[string]any{"fbits": json.Number(strconv.FormatUint(bits, 10))}, fmt.Sprintf("VFloat (%d)%%Z", bits)
	case protoreflect.DoubleKind:
		bits := math.Float64bits(v.Float())
		return map[string]any{"fbits": json.Number(strconv.FormatUint(bits, 10))}, fmt.Sprintf("VFloat (%d)%%Z", bits)
	case protoreflect.Uint32Kind, protoreflect.Fixed32Kind, protoreflect.Uint64Kind, protoreflect.Fixed64Kind:
		return json.Number(strconv.FormatUint(v.Uint(), 10)), fmt.Sprintf("VInt (%d)%%Z", v.Uint())
	default:
		return json.Number(strconv.FormatInt(v.Int(), 10)), fmt.Sprintf("VInt (%d)%%Z", v.Int())
	}
}

func elemCanon(fd protoreflect.FieldDescriptor, v protoreflect.Value) (any, string) {
	if fd.Kind() == protoreflect.MessageKind || fd.Kind() == protoreflect.GroupKind {
		j, c := MsgCanon(v.Message())
		return j, "FM " + c
	}
	j, c := scalarCanon(fd, v)
	return j, "FS (" + c + ")"
}

// MsgCanon returns the canonical JSON of a message and the Coq mval term.
func MsgCanon(m protoreflect.Message) (map[string]any, string) {
	out := map[string]any{}
	type ent struct {
		num int
		s   string
	}
	var ents []ent
	m.Range(func(fd protoreflect.FieldDescriptor, v protoreflect.Value) bool {
		name := string(fd.Name())
		var j any
		var c string
		switch {
		case fd.IsMap():
			type kv struct {
				k    protoreflect.MapKey
				j, c string
				jv   any
				jk   any
			}
			var kvs []kv
			v.Map().Range(func(k protoreflect.MapKey, mv protoreflect.Value) bool {
				jk, ck := scalarCanon(fd.MapKey(), k.Value())
				jv, cv := elemCanon(fd.MapValue(), mv)
				kvs = append(kvs, kv{k: k, c: "(" + ck + ", " + cv + ")", jv: jv, jk: jk})
				return true
			})
			sort.Slice(kvs, func(i, j int) bool { return mapKeyLess(kvs[i].k, kvs[j].k) })
			arr := []any{}
			var cs []string
			for _, e := range kvs {
				arr = append(arr, []any{e.jk, e.jv})
				cs = append(cs, e.c)
			}
			j = map[string]any{"map": arr}
			c = "FMap [" + strings.Join(cs, "; ") + "]"
		case fd.IsList():
			arr := []any{}
			var cs []string
			l := v.List()
			for i := 0; i < l.Len(); i++ {
				je, ce := elemCanon(fd, l.Get(i))
				arr = append(arr, je)
				cs = append(cs, ce)
			}
			j = arr
			c = "FL [" + strings.Join(cs, "; ") + "]"
		default:
			j, c = elemCanon(fd, v)
		}
		out[name] = j
		ents = append(ents, ent{int(fd.Number()), "(" + CoqStr(name) + ", " + c + ")"})
		return true
	})
	sort.Slice(ents, func(i, j int) bool { return ents[i].num < ents[j].num })
	ss := make([]string, len(ents))
	for i, e := range ents {
		ss[i] = e.s
	}
	return out, "[" + strings.Join(ss, "; ") + "]"
}

func mapKeyLess(a, b protoreflect.MapKey) bool {
	switch x := a.Interface().(type) {
	case string:
		return x < b.String()
	case bool:
		return !x && b.Bool()
	case int32, int64:
		return a.Int() < b.Int()
	case uint32, uint64:
		return a.Uint() < b.Uint()
	}
	return false
}

// ---- value generation ---------------------------------------------------------------------------

var strPool = []string{"", "a", "hello", "a b", "a/b", "/", "?", "#", "%", "%2F", "+", "&", "=", "{id}", ".", "..", "é", "日本", "\U0001F600",
	"a+b=c&d", "x y/z?w#v", "semi;colon", "quote\"q", "back\\slash", "tab\tnl\n", "\x01\x7f", "'single'", "<>", "~!*()", "trailing/", "..a", "a..",
	strings.Repeat("long", 75)}
var i32Pool = []int64{0, 1, -1, 7, 42, 127, 128, 65535, 2147483647, -2147483648}
var i64Pool = []int64{0, 1, -1, 1 << 53, 1<<53 + 1, -(1 << 53) - 1, math.MaxInt64, math.MinInt64, 1234567890123}
var u32Pool = []uint64{0, 1, 255, 4294967295}
var u64Pool = []uint64{0, 1, 1 << 53, 1<<53 + 1, math.MaxUint64, 1 << 63}
var f64Pool = []float64{0, math.Copysign(0, -1), 1, -1.5, 0.1, 1e21, 1e-7, 5e-324, math.MaxFloat64, math.Inf(1), math.Inf(-1), math.NaN(), 123456789.125}
var f32Pool = []float64{0, math.Copysign(0, -1), 1, -1.5, float64(float32(0.1)), 3.4028234663852886e38, 1.401298464324817e-45, math.Inf(1), math.NaN(), 16777216}
var bytesPool = [][]byte{{}, {0}, {0xfb, 0xff}, {1, 2, 3}, {0xff, 0xfe, 0xfd, 0xfc}, []byte("hello"), {0x69, 0xb7}}

type ValueGen struct {
	Rng   *rand.Rand
	Depth int
	// SafeStrings restricts strings to a pool without control bytes (for header-bound use).
	NoFloatSpecials bool
	NoUnknownEnum   bool
}

func (g *ValueGen) scalar(fd protoreflect.FieldDescriptor) protoreflect.Value {
	r := g.Rng
	switch fd.Kind() {
	case protoreflect.BoolKind:
		return protoreflect.ValueOfBool(r.Intn(2) == 0)
	case protoreflect.StringKind:
		return protoreflect.ValueOfString(strPool[r.Intn(len(strPool))])
	case protoreflect.BytesKind:
		return protoreflect.ValueOfBytes(bytesPool[r.Intn(len(bytesPool))])
	case protoreflect.EnumKind:
		vals := fd.Enum().Values()
		if !g.NoUnknownEnum && r.Intn(8) == 0 {
			return protoreflect.ValueOfEnum(protoreflect.EnumNumber(99)) // undefined number
		}
		return protoreflect.ValueOfEnum(vals.Get(r.Intn(vals.Len())).Number())
	case protoreflect.Int32Kind, protoreflect.Sint32Kind, protoreflect.Sfixed32Kind:
		return protoreflect.ValueOfInt32(int32(i32Pool[r.Intn(len(i32Pool))]))
	case protoreflect.Int64Kind, protoreflect.Sint64Kind, protoreflect.Sfixed64Kind:
		return protoreflect.ValueOfInt64(i64Pool[r.Intn(len(i64Pool))])
	case protoreflect.Uint32Kind, protoreflect.Fixed32Kind:
		return protoreflect.ValueOfUint32(uint32(u32Pool[r.Intn(len(u32Pool))]))
	case protoreflect.Uint64Kind, protoreflect.Fixed64Kind:
		return protoreflect.ValueOfUint64(u64Pool[r.Intn(len(u64Pool))])
	case protoreflect.FloatKind:
		return protoreflect.ValueOfFloat32(float32(f32Pool[r.Intn(len(f32Pool))]))
	case protoreflect.DoubleKind:
		return protoreflect.ValueOfFloat64(f64Pool[r.Intn(len(f64Pool))])
	}
	panic("scalar kind " + fd.Kind().String())
}

func (g *ValueGen) timestamp(m protoreflect.Message) {
	secs := []int64{0, 1, -1, 1700000000, 951782400 /* 2000-02-29 */, -62135596800, 253402300799, 86399, 1234567890}
	nanos := []int32{0, 0, 1, 999999999, 500000000, 123000000, 123456000}
	fds := m.Descriptor().Fields()
	s := secs[g.Rng.Intn(len(secs))]
	n := nanos[g.Rng.Intn(len(nanos))]
	if s != 0 {
		m.Set(fds.ByName("seconds"), protoreflect.ValueOfInt64(s))
	}
	if n != 0 {
		m.Set(fds.ByName("nanos"), protoreflect.ValueOfInt32(n))
	}
}

func (g *ValueGen) elem(fd protoreflect.FieldDescriptor, depth int, mk func() protoreflect.Value) protoreflect.Value {
	if fd.Kind() == protoreflect.MessageKind {
		v := mk()
		g.fill(v.Message(), depth+1, 0.6)
		return v
	}
	return g.scalar(fd)
}

// fill populates a message; p is the per-field probability of being set.
func (g *ValueGen) fill(m protoreflect.Message, depth int, p float64) {
	md := m.Descriptor()
	if md.FullName() == "google.protobuf.Timestamp" {
		g.timestamp(m)
		return
	}
	if depth > 3 {
		return
	}
	chosen := map[string]int{} // oneof name -> chosen field index
	for i := 0; i < md.Oneofs().Len(); i++ {
		o := md.Oneofs().Get(i)
		if o.IsSynthetic() {
			continue
		}
		chosen[string(o.Name())] = g.Rng.Intn(o.Fields().Len()+1) - 1
	}
	fds := md.Fields()
	for i := 0; i < fds.Len(); i++ {
		fd := fds.Get(i)
		if o := fd.ContainingOneof(); o != nil && !o.IsSynthetic() {
			idx := chosen[string(o.Name())]
			if idx < 0 || o.Fields().Get(idx) != fd {
				continue
			}
		} else if g.Rng.Float64() > p {
			continue
		}
		switch {
		case fd.IsMap():
			n := g.Rng.Intn(3)
			mp := m.Mutable(fd).Map()
			for k := 0; k < n; k++ {
				key := g.scalar(fd.MapKey()).MapKey()
				mp.Set(key, g.elem(fd.MapValue(), depth, mp.NewValue))
			}
		case fd.IsList():
			n := g.Rng.Intn(3)
			l := m.Mutable(fd).List()
			for k := 0; k < n; k++ {
				l.Append(g.elem(fd, depth, l.NewElement))
			}
		case fd.Kind() == protoreflect.MessageKind:
			g.fill(m.Mutable(fd).Message(), depth+1, p)
		default:
			m.Set(fd, g.scalar(fd))
		}
	}
}

// Random builds a random message of the descriptor.
func (g *ValueGen) Random(md protoreflect.MessageDescriptor, p float64) *dynamicpb.Message {
	m := dynamicpb.NewMessage(md)
	g.fill(m, 0, p)
	return m
}

// Set sets a scalar field by name from a Go value (helper for directed cases).
func SetField(m *dynamicpb.Message, name string, v any) {
	fd := m.Descriptor().Fields().ByName(protoreflect.Name(name))
	if fd == nil {
		panic("no field " + name)
	}
	switch x := v.(type) {
	case string:
		if fd.Kind() == protoreflect.BytesKind {
			m.Set(fd, protoreflect.ValueOfBytes([]byte(x)))
		} else {
			m.Set(fd, protoreflect.ValueOfString(x))
		}
	case bool:
		m.Set(fd, protoreflect.ValueOfBool(x))
	case int64:
		switch fd.Kind() {
		case protoreflect.Int32Kind, protoreflect.Sint32Kind, protoreflect.Sfixed32Kind:
			m.Set(fd, protoreflect.ValueOfInt32(int32(x)))
		case protoreflect.Uint32Kind, protoreflect.Fixed32Kind:
			m.Set(fd, protoreflect.ValueOfUint32(uint32(x)))
		case protoreflect.Uint64Kind, protoreflect.Fixed64Kind:
			m.Set(fd, protoreflect.ValueOfUint64(uint64(x)))
		case protoreflect.EnumKind:
			m.Set(fd, protoreflect.ValueOfEnum(protoreflect.EnumNumber(x)))
		default:
			m.Set(fd, protoreflect.ValueOfInt64(x))
		}
	case uint64:
		if fd.Kind() == protoreflect.Uint32Kind || fd.Kind() == protoreflect.Fixed32Kind {
			m.Set(fd, protoreflect.ValueOfUint32(uint32(x)))
		} else {
			m.Set(fd, protoreflect.ValueOfUint64(x))
		}
	case float64:
		if fd.Kind() == protoreflect.FloatKind {
			m.Set(fd, protoreflect.ValueOfFloat32(float32(x)))
		} else {
			m.Set(fd, protoreflect.ValueOfFloat64(x))
		}
	default:
		panic(fmt.Sprintf("SetField %T", v))
	}
}

// ---- pool sweeps (directed boundary values; every pool element is reached deterministically) -----

// keyExtraPool: map keys / strings that stress JSON string quoting (control characters outside the
// short escapes, DEL, line separators, non-printable code points above the BMP).
var keyExtraPool = []string{"\x1b", "\x07\x0b", "\x7f", "  ", "\U000E0001", "\x00", "a\"b\\c", "</script>", " "}

// ScalarPool returns every boundary value of the pool for the field's kind.
func ScalarPool(fd protoreflect.FieldDescriptor) []protoreflect.Value {
	var out []protoreflect.Value
	switch fd.Kind() {
	case protoreflect.BoolKind:
		out = append(out, protoreflect.ValueOfBool(true), protoreflect.ValueOfBool(false))
	case protoreflect.StringKind:
		for _, s := range strPool {
			out = append(out, protoreflect.ValueOfString(s))
		}
		for _, s := range keyExtraPool {
			out = append(out, protoreflect.ValueOfString(s))
		}
	case protoreflect.BytesKind:
		for _, b := range bytesPool {
			out = append(out, protoreflect.ValueOfBytes(b))
		}
	case protoreflect.EnumKind:
		vals := fd.Enum().Values()
		for i := 0; i < vals.Len(); i++ {
			out = append(out, protoreflect.ValueOfEnum(vals.Get(i).Number()))
		}
	case protoreflect.Int32Kind, protoreflect.Sint32Kind, protoreflect.Sfixed32Kind:
		for _, v := range i32Pool {
			out = append(out, protoreflect.ValueOfInt32(int32(v)))
		}
	case protoreflect.Int64Kind, protoreflect.Sint64Kind, protoreflect.Sfixed64Kind:
		for _, v := range i64Pool {
			out = append(out, protoreflect.ValueOfInt64(v))
		}
	case protoreflect.Uint32Kind, protoreflect.Fixed32Kind:
		for _, v := range u32Pool {
			out = append(out, protoreflect.ValueOfUint32(uint32(v)))
		}
	case protoreflect.Uint64Kind, protoreflect.Fixed64Kind:
		for _, v := range u64Pool {
			out = append(out, protoreflect.ValueOfUint64(v))
		}
		out = append(out, protoreflect.ValueOfUint64(1<<63-1), protoreflect.ValueOfUint64(1<<63+1))
	case protoreflect.FloatKind:
		for _, v := range f32Pool {
			out = append(out, protoreflect.ValueOfFloat32(float32(v)))
		}
	case protoreflect.DoubleKind:
		for _, v := range f64Pool {
			out = append(out, protoreflect.ValueOfFloat64(v))
		}
	}
	return out
}

// strQuickPool: the strings of the quick-tier sweep (JSON quoting, escaping, separators, length).
var strQuickPool = []string{"", "a b", "quote\"q", "back\\slash", "tab\tnl\n", "\x01\x7f", "\x1b", "\u2028", "\U000E0001", "<>&", "é日本\U0001F600", "%2F+&=", strings.Repeat("long", 75)}

func kindGroup(fd protoreflect.FieldDescriptor) int {
	switch fd.Kind() {
	case protoreflect.FloatKind, protoreflect.DoubleKind:
		return 1
	case protoreflect.MessageKind, protoreflect.GroupKind:
		return -1
	}
	return 0 // integers, bool, enum, strings, bytes
}

func sweepPool(fd protoreflect.FieldDescriptor, full bool) []protoreflect.Value {
	if fd.Kind() == protoreflect.StringKind && !full {
		var out []protoreflect.Value
		for _, s := range strQuickPool {
			out = append(out, protoreflect.ValueOfString(s))
		}
		return out
	}
	return ScalarPool(fd)
}

// SweepValues: directed boundary values.  Per kind group (floats; everything else) message k puts the k-th pool value of its kind into EVERY singular scalar field of that
// group (groups are kept apart so that a value one codec refuses does not hide the others); lists and
// maps get one message holding all pool values (as elements / values and, for maps, as keys).
// full=true (thorough tier): the complete string pool, one message per (field, value) instead of the
// packed form, and the same for the scalar fields of singular message-typed children.
func SweepValues(md protoreflect.MessageDescriptor, full bool) ([]*dynamicpb.Message, []string) {
	var out []*dynamicpb.Message
	var labels []string
	add := func(m *dynamicpb.Message, l string) { out = append(out, m); labels = append(labels, l) }
	if md.FullName() == "google.protobuf.Timestamp" {
		return nil, nil
	}
	fds := md.Fields()
	inRealOneof := func(fd protoreflect.FieldDescriptor) bool {
		o := fd.ContainingOneof()
		return o != nil && !o.IsSynthetic()
	}
	if !full {
		for grp := 0; grp < 2; grp++ {
			maxLen := 0
			for i := 0; i < fds.Len(); i++ {
				fd := fds.Get(i)
				if fd.IsMap() || fd.IsList() || inRealOneof(fd) || kindGroup(fd) != grp {
					continue
				}
				if n := len(sweepPool(fd, false)); n > maxLen {
					maxLen = n
				}
			}
			for k := 0; k < maxLen; k++ {
				m := dynamicpb.NewMessage(md)
				for i := 0; i < fds.Len(); i++ {
					fd := fds.Get(i)
					if fd.IsMap() || fd.IsList() || inRealOneof(fd) || kindGroup(fd) != grp {
						continue
					}
					pool := sweepPool(fd, false)
					m.Set(fd, pool[k%len(pool)])
				}
				add(m, fmt.Sprintf("sweep-packed:g%d#%d", grp, k))
			}
		}
	}
	for i := 0; i < fds.Len(); i++ {
		fd := fds.Get(i)
		name := string(fd.Name())
		switch {
		case fd.IsMap():
			kfd, vfd := fd.MapKey(), fd.MapValue()
			// all pool keys (value: first pool value / empty message)
			m := dynamicpb.NewMessage(md)
			mp := m.Mutable(fd).Map()
			for _, k := range sweepPool(kfd, full) {
				if vfd.Kind() == protoreflect.MessageKind {
					mp.Set(k.MapKey(), mp.NewValue())
				} else {
					mp.Set(k.MapKey(), ScalarPool(vfd)[0])
				}
			}
			add(m, "sweep-keys:"+name)
			if vfd.Kind() != protoreflect.MessageKind {
				m := dynamicpb.NewMessage(md)
				mp := m.Mutable(fd).Map()
				keys := ScalarPool(kfd)
				for j, v := range sweepPool(vfd, full) {
					if kfd.Kind() == protoreflect.StringKind {
						mp.Set(protoreflect.ValueOfString(fmt.Sprintf("k%02d", j)).MapKey(), v)
					} else if j < len(keys) {
						mp.Set(keys[j].MapKey(), v)
					}
				}
				add(m, "sweep-values:"+name)
			}
		case fd.IsList():
			if fd.Kind() == protoreflect.MessageKind {
				continue
			}
			m := dynamicpb.NewMessage(md)
			l := m.Mutable(fd).List()
			for _, v := range sweepPool(fd, full) {
				l.Append(v)
			}
			add(m, "sweep-list:"+name)
		case fd.Kind() == protoreflect.MessageKind:
			if !full || fd.Message().FullName() == "google.protobuf.Timestamp" {
				continue
			}
			cfs := fd.Message().Fields()
			for j := 0; j < cfs.Len(); j++ {
				cf := cfs.Get(j)
				if cf.IsMap() || cf.IsList() || cf.Kind() == protoreflect.MessageKind || cf.Kind() == protoreflect.StringKind {
					continue
				}
				for k, v := range ScalarPool(cf) {
					m := dynamicpb.NewMessage(md)
					m.Mutable(fd).Message().Set(cf, v)
					add(m, fmt.Sprintf("sweep-child:%s.%s#%d", name, cf.Name(), k))
				}
			}
		default:
			if !full && !inRealOneof(fd) {
				continue // covered by the packed form
			}
			for k, v := range sweepPool(fd, full) {
				m := dynamicpb.NewMessage(md)
				m.Set(fd, v)
				add(m, fmt.Sprintf("sweep:%s#%d", name, k))
			}
		}
	}
	return out, labels
}
