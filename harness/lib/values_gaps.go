package lib

import (
	"math"
	"strings"

	"google.golang.org/protobuf/reflect/protoreflect"
	"google.golang.org/protobuf/types/dynamicpb"
)

// ReflectGapValues: directed values for the shapes on which encoding/json's reflection over a
// protoc-gen-go struct parts from protojson although every field holds an ordinary value (found by the
// side conditions of the C04 round-trip theorems).  For every singular message-typed field of md (oneof
// members included) one value per child field that is
//   - an `optional bytes`            -> present but empty        (omitempty drops it)
//   - a bool-keyed map               -> one entry                (map[bool]T is refused both ways)
//   - a repeated float / double      -> [-0, -Inf]               ("-Infinity" is no number for json.Unmarshal)
//   - a map with float/double values -> one entry holding NaN
//   - a multi-word scalar whose lowerCamel JSON name equals, up to case, the name of ANOTHER field of the
//     child (alt_text / alttext)     -> a non-zero value          (json.Unmarshal folds the key onto that field)
//
// with nothing else set, so that no other field can mask the outcome.
func ReflectGapValues(md protoreflect.MessageDescriptor) ([]*dynamicpb.Message, []string) {
	var out []*dynamicpb.Message
	var labels []string
	if md.FullName() == "google.protobuf.Timestamp" {
		return nil, nil
	}
	fds := md.Fields()
	for i := 0; i < fds.Len(); i++ {
		fd := fds.Get(i)
		if fd.Kind() != protoreflect.MessageKind || fd.IsList() || fd.IsMap() || fd.Message().FullName() == "google.protobuf.Timestamp" {
			continue
		}
		cfs := fd.Message().Fields()
		for k := 0; k < cfs.Len(); k++ {
			cf := cfs.Get(k)
			build := func(set func(child protoreflect.Message)) {
				m := dynamicpb.NewMessage(md)
				set(m.Mutable(fd).Message())
				out = append(out, m)
				labels = append(labels, "gap:"+string(fd.Name())+"."+string(cf.Name()))
			}
			isFloat := func(x protoreflect.FieldDescriptor) bool {
				return x.Kind() == protoreflect.FloatKind || x.Kind() == protoreflect.DoubleKind
			}
			fval := func(x protoreflect.FieldDescriptor, v float64) protoreflect.Value {
				if x.Kind() == protoreflect.FloatKind {
					return protoreflect.ValueOfFloat32(float32(v))
				}
				return protoreflect.ValueOfFloat64(v)
			}
			switch {
			case cf.IsMap() && cf.MapKey().Kind() == protoreflect.BoolKind:
				build(func(child protoreflect.Message) {
					mp := child.Mutable(cf).Map()
					if cf.MapValue().Kind() == protoreflect.MessageKind {
						mp.Set(protoreflect.ValueOfBool(true).MapKey(), mp.NewValue())
					} else {
						mp.Set(protoreflect.ValueOfBool(true).MapKey(), ScalarPool(cf.MapValue())[0])
					}
				})
			case cf.IsMap() && isFloat(cf.MapValue()):
				build(func(child protoreflect.Message) {
					mp := child.Mutable(cf).Map()
					mp.Set(ScalarPool(cf.MapKey())[0].MapKey(), fval(cf.MapValue(), math.NaN()))
				})
			case cf.IsList() && isFloat(cf):
				build(func(child protoreflect.Message) {
					l := child.Mutable(cf).List()
					l.Append(fval(cf, math.Copysign(0, -1)))
					l.Append(fval(cf, math.Inf(-1)))
				})
			case !cf.IsList() && !cf.IsMap() && cf.Kind() == protoreflect.BytesKind && cf.HasOptionalKeyword():
				build(func(child protoreflect.Message) { child.Set(cf, protoreflect.ValueOfBytes([]byte{})) })
			case !cf.IsList() && !cf.IsMap() && cf.Kind() != protoreflect.MessageKind && strings.Contains(string(cf.Name()), "_") && foldsOntoOther(cfs, cf):
				for _, v := range ScalarPool(cf) {
					if !v.Equal(cf.Default()) {
						v := v
						build(func(child protoreflect.Message) { child.Set(cf, v) })
						break
					}
				}
			}
		}
	}
	return out, labels
}

// foldsOntoOther: the JSON name of cf equals, ignoring case, the proto name of another field (the key
// encoding/json matches against the struct tags of the protoc-gen-go struct).
func foldsOntoOther(cfs protoreflect.FieldDescriptors, cf protoreflect.FieldDescriptor) bool {
	for i := 0; i < cfs.Len(); i++ {
		g := cfs.Get(i)
		if g.Number() != cf.Number() && strings.EqualFold(string(g.Name()), cf.JSONName()) {
			return true
		}
	}
	return false
}
