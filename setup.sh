#!/bin/bash
# setup: build the Coq development (full .vo build), the checker, the stock protoc-gen-go and warm caches.
set -e
cd "$(dirname "$0")"
export VERIF_ROOT="$(pwd)"
export GOFLAGS=-mod=mod GOPROXY=off GOCACHE="$VERIF_ROOT/.cache/gocache"
unset GOTOOLCHAIN GOSUMDB
mkdir -p .cache/bin .cache/gocache evidence replays
(cd coq && coq_makefile -f _CoqProject -o Makefile >/dev/null 2>&1 && timeout 3000 make -j16 2>&1 | grep -v '^Warning' > build.log; tail -3 build.log)
if grep -rnE '\b(Admitted|admit|Axiom|Parameter|Conjecture|Unset Guard|bypass_check)\b' coq --include='*.v'; then echo "forbidden construct in Coq sources"; exit 1; fi
(cd harness && go build -o ../.cache/bin/verifcheck ./cmd/verifcheck)
(cd harness && go build -o ../.cache/bin/protoc-gen-go google.golang.org/protobuf/cmd/protoc-gen-go)
./.cache/bin/verifcheck warm || true
echo setup-done
