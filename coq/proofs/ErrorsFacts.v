(* ErrorsFacts.v — lemmas behind props/C10.v. *)
From Sebuf Require Import Text Num Schema Json Value Headers Errors.
From SebufProofs Require Import TextFacts HeadersFacts.

(* ---- server: what is written is what is documented, outside the defect classes --------------------------------- *)
Lemma unwrapped_is_error e :
  wraps_custom (HWrap e) = false -> wraps_validation (HWrap e) = false -> exists t, documented_msg e = PError t.
Proof.
  induction e as [m|m|vs|c|e IH]; cbn; intros C V; try discriminate; eauto.
  destruct (IH C V) as [t Ht]. rewrite Ht. eauto.
Qed.

Lemma documented_is_final e :
  wraps_custom e = false -> wraps_validation e = false -> documented_msg e = handler_final e.
Proof.
  destruct e as [m|m|vs|c|e]; cbn; intros C V; try reflexivity.
  destruct (unwrapped_is_error e C V) as [t Ht]. now rewrite Ht.
Qed.

Lemma app_nil_both {A} (a b : list A) : a ++ b = [] -> a = [] /\ b = [].
Proof. apply app_eq_nil. Qed.

Lemma server_documented src ct :
  server_defects src None ct = [] ->
  serve_error src None ct = documented_response (documented_final src) None ct.
Proof.
  unfold server_defects. intros D. apply app_eq_nil in D as [D1 _].
  unfold serve_error, write_error, documented_response. 
  assert (E : final_of src = documented_final src).
  { destruct src as [vs|vs|e]; try reflexivity. cbn in *. apply app_eq_nil in D1 as [Dc Dv].
    symmetry. apply documented_is_final.
    - destruct (wraps_custom e); [discriminate|reflexivity].
    - destruct (wraps_validation e); [discriminate|reflexivity]. }
  now rewrite E.
Qed.

Lemma codec_irrelevant c : codec_matters c = false -> custom_json false c = custom_json true c.
Proof.
  unfold codec_matters, custom_json. intros H. f_equal.
  induction (cm_fields c) as [|f r IH]; cbn in *; [reflexivity|].
  apply orb_false_iff in H as [Hf Hr]. rewrite (IH Hr). f_equal.
  destruct f as [n nm v|n nm v|n nm num v]; try reflexivity. cbn.
  destruct num; [|reflexivity]. apply negb_false_iff in Hf. now rewrite Hf.
Qed.

Lemma status_body src ct :
  server_defects src None ct = [] ->
  let r := serve_error src None ct in
  r_status r = default_status (documented_final src) /\
  r_body r = BMsg (documented_final src) /\
  r_enc r = server_enc ct /\ r_ct r = ct_of_enc (server_enc ct) /\
  (forall c, r_body r = BMsg (PCustom c) -> r_enc r = EJson -> custom_json false c = custom_json true c).
Proof.
  intros D. cbv zeta. pose proof (server_documented _ _ D) as E.
  split; [now rewrite E|]. split; [now rewrite E|]. split; [now rewrite E|]. split; [now rewrite E|].
  intros c Hb He. apply codec_irrelevant.
  unfold server_defects in D. apply app_eq_nil in D as [_ D]. apply app_eq_nil in D as [_ D].
  rewrite He, Hb in D. cbn in D. destruct (codec_matters c); [discriminate|reflexivity].
Qed.

(* the violation field names of rule failures are the dotted element names *)
Lemma rule_fields vs :
  final_of (SRule vs) = PValidation (map (fun pv => (violation_field (fst pv), snd pv)) vs).
Proof. reflexivity. Qed.
Lemma dotted_path els : join_with (s ".") els <> [] -> violation_field (Some els) = join_with (s ".") els.
Proof. unfold violation_field. destruct (join_with (s ".") els); [congruence|reflexivity]. Qed.

(* hooks *)
Lemma hook_documented p h ct :
  (hk_status h = None \/ hk_write h <> None) ->
  write_error p (Some h) ct = documented_response p (Some h) ct.
Proof.
  unfold write_error, documented_response. destruct (hk_write h) as [w|]; [reflexivity|].
  intros [S|W]; [|congruence]. now rewrite S.
Qed.

Lemma hook_status_and_body p h ct :
  let r := write_error p (Some h) ct in
  r_status r = (match hk_status h with Some st => st | None => match hk_write h with Some _ => 200%Z | None => default_status p end end) /\
  r_body r = (match hk_write h with Some w => BRaw w | None => BMsg (if hk_ret_msg h then hooked_msg p else p) end) /\
  r_hook_header r = hook_other_header h.
Proof.
  cbv zeta. unfold write_error. destruct (hk_write h); [|destruct (hk_status h)]; cbn; auto.
Qed.

(* ---- client ----------------------------------------------------------------------------------------------------------- *)
Lemma violation_roundtrip fd :
  json_as_violation (JObj ((match fst fd with [] => [] | f => [(s "field", JStr f)] end) ++
                           (match snd fd with [] => [] | d => [(s "description", JStr d)] end))) = Some fd.
Proof.
  destruct fd as [[|a f] [|b d]]; reflexivity.
Qed.

Lemma violations_roundtrip vs :
  all_some (map json_as_violation
    (map (fun fd => JObj ((match fst fd with [] => [] | f => [(s "field", JStr f)] end) ++
                          (match snd fd with [] => [] | d => [(s "description", JStr d)] end))) vs)) = Some vs.
Proof.
  induction vs as [|fd r IH]; [reflexivity|].
  cbn [map all_some]. rewrite violation_roundtrip, IH. reflexivity.
Qed.

Lemma json_validation_roundtrip vs : json_as_validation (pmsg_pj (PValidation vs)) = Some vs.
Proof.
  destruct vs as [|fd r]; [reflexivity|]. unfold pmsg_pj, json_as_validation.
  change (is_s (s "violations") "violations") with true. cbv iota. apply violations_roundtrip.
Qed.

Lemma enc_eqb_refl e : enc_eqb e e = true.
Proof. destruct e; reflexivity. Qed.

Lemma client_validation ct r vs :
  client_enc ct = r_enc r -> r_status r = 400%Z -> r_body r = BMsg (PValidation vs) ->
  client_go ct r = CRValidation vs.
Proof.
  intros E S B. unfold client_go. rewrite S.
  change (400 <? 400)%Z with false. change (400 =? 400)%Z with true. cbv iota.
  unfold parse_validation. rewrite B, E, enc_eqb_refl.
  destruct (r_enc r); [now rewrite json_validation_roundtrip|reflexivity].
Qed.

Lemma json_error_roundtrip m : json_as_error (pmsg_pj (PError m)) = Some (etext_string m).
Proof. unfold pmsg_pj. destruct (etext_string m); reflexivity. Qed.

Lemma client_error ct r m :
  client_enc ct = r_enc r -> (400 < r_status r)%Z -> r_body r = BMsg (PError m) ->
  client_go ct r = CRError (etext_string m).
Proof.
  intros E S B. unfold client_go.
  destruct (Z.ltb_spec (r_status r) 400); [lia|]. destruct (Z.eqb_spec (r_status r) 400); [lia|].
  unfold parse_error. rewrite B, E, enc_eqb_refl.
  destruct (r_enc r); [now rewrite json_error_roundtrip|reflexivity].
Qed.

(* without client-side defect classes: a validation result is exactly the server's 400 violation list, an
   "other" result carries the status, and a bare *sebufhttp.Error (no status) does not occur *)
Lemma client_sound ct r :
  client_defects ct r = [] -> (400 <= r_status r)%Z ->
  match client_go ct r with
  | CRValidation vs => r_status r = 400%Z /\ r_body r = BMsg (PValidation vs)
  | CROther st => st = r_status r
  | CRError _ => False
  | CRNotError => False
  | CRUnmodelled => True
  end.
Proof.
  unfold client_defects. intros D S.
  destruct (Z.ltb_spec (r_status r) 400) as [L|L]; [lia|].
  apply app_eq_nil in D as [De D]. apply app_eq_nil in D as [Dd Dm].
  assert (E : enc_eqb (client_enc ct) (r_enc r) = true) by (destruct (enc_eqb (client_enc ct) (r_enc r)); [reflexivity|discriminate]).
  destruct (client_go ct r) as [vs|m|st| |] eqn:C; try discriminate; auto.
  - (* validation *)
    unfold client_go in C. destruct (Z.ltb_spec (r_status r) 400); [lia|].
    destruct (Z.eqb_spec (r_status r) 400) as [S4|S4].
    2:{ destruct (parse_error (client_enc ct) r); discriminate. }
    split; [exact S4|].
    destruct (body_is_validation (r_body r)) eqn:BV.
    2:{ destruct (body_is_empty r); discriminate. }
    destruct (r_body r) as [p|x] eqn:B; [|discriminate]. destruct p as [m|vs'|c]; try discriminate.
    f_equal. f_equal.
    destruct (parse_validation (client_enc ct) r) as [vs2| |] eqn:PV.
    + inversion C; subst vs2. unfold parse_validation in PV. rewrite B, E in PV.
      destruct (client_enc ct); [rewrite json_validation_roundtrip in PV|]; now inversion PV.
    + destruct (parse_error (client_enc ct) r); discriminate.
    + discriminate.
  - (* other *)
    unfold client_go in C. destruct (Z.ltb_spec (r_status r) 400); [lia|].
    destruct (Z.eqb_spec (r_status r) 400).
    + destruct (parse_validation (client_enc ct) r); try discriminate.
      destruct (parse_error (client_enc ct) r); inversion C; reflexivity.
    + destruct (parse_error (client_enc ct) r); inversion C; reflexivity.
  - unfold client_go in C. destruct (Z.ltb_spec (r_status r) 400); [lia|].
    destruct (Z.eqb_spec (r_status r) 400).
    + destruct (parse_validation (client_enc ct) r); try discriminate. destruct (parse_error (client_enc ct) r); discriminate.
    + destruct (parse_error (client_enc ct) r); discriminate.
Qed.

(* a whole call: request and response side use the same effective content type *)
Lemma call_validation src h cl ca vs :
  let ct := effective_ct cl ca in
  client_enc ct = server_enc ct ->
  r_status (serve_error src h ct) = 400%Z -> r_body (serve_error src h ct) = BMsg (PValidation vs) ->
  go_call_outcome src h cl ca = CRValidation vs.
Proof.
  cbv zeta. intros E S B. unfold go_call_outcome. apply client_validation; auto.
  rewrite E. unfold serve_error, write_error. destruct h as [hk|]; [|reflexivity].
  destruct (hk_write hk); [reflexivity|]. destruct (hk_status hk); reflexivity.
Qed.

Lemma call_error src h cl ca m :
  let ct := effective_ct cl ca in
  client_enc ct = server_enc ct ->
  (400 < r_status (serve_error src h ct))%Z -> r_body (serve_error src h ct) = BMsg (PError m) ->
  go_call_outcome src h cl ca = CRError (etext_string m).
Proof.
  cbv zeta. intros E S B. unfold go_call_outcome. apply client_error; auto.
  rewrite E. unfold serve_error, write_error. destruct h as [hk|]; [|reflexivity].
  destruct (hk_write hk); [reflexivity|]. destruct (hk_status hk); reflexivity.
Qed.

Lemma effective_override cl c0 c : effective_ct cl (Some (c0 :: c)) = c0 :: c.
Proof. reflexivity. Qed.
Lemma effective_default cl : effective_ct cl None = client_default cl /\ effective_ct cl (Some []) = client_default cl.
Proof. split; reflexivity. Qed.

(* ---- stage order ------------------------------------------------------------------------------------------------ *)
Lemma first_failure_minimal l : forall st src,
  first_failure l = Some (st, src) ->
  In (st, src) l /\ forall st' src', In (st', src') l -> stage_rank st <= stage_rank st'.
Proof.
  induction l as [|[sx srx] r IH]; intros st src; [discriminate|].
  cbn [first_failure fst]. destruct (first_failure r) as [[sy sry]|] eqn:F.
  - destruct (IH _ _ eq_refl) as [Hin Hmin]. cbn [fst].
    destruct (Nat.leb (stage_rank sx) (stage_rank sy)) eqn:L; intros H; inversion H; subst.
    + apply Nat.leb_le in L. split; [left; reflexivity|].
      intros st' src' [E|Hr]; [inversion E; subst; lia|]. specialize (Hmin _ _ Hr). lia.
    + apply Nat.leb_gt in L. split; [right; exact Hin|].
      intros st' src' [E|Hr]; [inversion E; subst; lia|]. eauto.
  - intros H; inversion H; subst. split; [left; reflexivity|].
    intros st' src' [E|Hr]; [inversion E; subst; lia|].
    destruct r as [|y r']; [destruct Hr|]. cbn in F.
    destruct (first_failure r'); [destruct (Nat.leb _ _)|]; discriminate.
Qed.

Lemma first_failure_some l x : In x l -> exists y, first_failure l = Some y.
Proof.
  destruct l as [|a r]; [intros []|]. intros _. cbn. destruct (first_failure r); [destruct (Nat.leb _ _)|]; eauto.
Qed.

(* ---- TypeScript ----------------------------------------------------------------------------------------------------------- *)
Lemma ts_server_status e :
  ts_status (ts_server_error e None) = match e with TValidation _ => 400%Z | _ => 500%Z end.
Proof. destruct e; reflexivity. Qed.
Lemma ts_server_validation_wins vs on_error :
  ts_server_error (TValidation vs) on_error =
  {| ts_status := 400; ts_body := JObj [(s "violations", ts_violations_json vs)]; ts_hooked := false |}.
Proof. reflexivity. Qed.

Lemma ts_roundtrip_validation vs on_error :
  let r := ts_server_error (TValidation vs) on_error in
  ts_client (ts_status r) (Some (ts_body r)) = TSValidation (ts_violations_json vs).
Proof. reflexivity. Qed.

Lemma ts_client_other st body : st <> 400%Z -> ts_client st body = TSApi st body.
Proof. intros H. unfold ts_client. destruct (Z.eqb_spec st 400); [contradiction|reflexivity]. Qed.

(* the Go server's 400 for a non-empty violation list is a ValidationError for the TS client *)
Lemma ts_client_go_validation vs : vs <> [] ->
  exists v, ts_client 400 (Some (pmsg_pj (PValidation vs))) = TSValidation v.
Proof. destruct vs as [|fd r]; [congruence|]. intros _. cbn. eauto. Qed.

(* ---- size classes -------------------------------------------------------------------------------------------------- *)
(* whole calls, no hook, both sides reading the content type alike: the complete violation list and the
   complete message reach the caller WHATEVER their length (no bound on the list or the text appears) *)
Lemma call_any_size_validation vs cl ca :
  let ct := effective_ct cl ca in
  client_enc ct = server_enc ct ->
  go_call_outcome (SHandler (HValidation vs)) None cl ca = CRValidation vs.
Proof. cbv zeta. intros E. apply call_validation; auto. Qed.

Lemma call_any_size_rules rs cl ca :
  let ct := effective_ct cl ca in
  client_enc ct = server_enc ct ->
  go_call_outcome (SRule rs) None cl ca = CRValidation (map (fun pv => (violation_field (fst pv), snd pv)) rs).
Proof. cbv zeta. intros E. apply call_validation; auto. Qed.

Lemma call_any_size_message m cl ca :
  let ct := effective_ct cl ca in
  client_enc ct = server_enc ct ->
  go_call_outcome (SHandler (HPlain m)) None cl ca = CRError m /\
  go_call_outcome (SHandler (HSebuf m)) None cl ca = CRError m.
Proof.
  cbv zeta. intros E.
  assert (L : etext_string (lit m) = m) by (unfold etext_string, lit; cbn; apply app_nil_r).
  split.
  - rewrite <- L at 2. apply call_error; auto; cbn; lia.
  - rewrite <- L at 2. apply call_error; auto; cbn; lia.
Qed.

Lemma rep_str_length n u : List.length (rep_str n u) = n * List.length u.
Proof. induction n as [|n IH]; [reflexivity|]. cbn. now rewrite app_length, IH. Qed.
Lemma sized_text_length n : List.length (sized_text n) = 64 * n.
Proof. unfold sized_text. rewrite rep_str_length. change (List.length unit64) with 64. lia. Qed.
Lemma gen_viols_length n : List.length (gen_viols n) = n.
Proof. unfold gen_viols. now rewrite map_length, seq_length. Qed.
Lemma gen_rules_length n : List.length (gen_rules n) = n.
Proof. unfold gen_rules. now rewrite map_length, seq_length. Qed.

(* the digest used to compare long texts / long lists leaves every short document alone *)
Fixpoint short_json (j : json) : bool :=
  match j with
  | JStr x => Nat.leb (List.length x) long_limit
  | JArr l => Nat.leb (List.length l) long_array_limit &&
              (fix go (l : list json) : bool := match l with [] => true | x :: r => short_json x && go r end) l
  | JObj kv => (fix go (l : list (str * json)) : bool := match l with [] => true | (k, v) :: r => short_json v && go r end) kv
  | _ => true
  end.

Fixpoint digest_json_short (j : json) : short_json j = true -> digest_json j = j.
Proof.
  destruct j as [| b | z | x | l | kv]; intros H; try reflexivity.
  - cbn [short_json] in H. apply Nat.leb_le in H. cbn [digest_json].
    destruct (Nat.ltb_spec long_limit (List.length x)); [lia|reflexivity].
  - cbn [short_json] in H. apply andb_true_iff in H as [H1 H2]. apply Nat.leb_le in H1.
    cbn [digest_json]. destruct (Nat.ltb_spec long_array_limit (List.length l)) as [Hlt|Hle]; [lia|]. f_equal.
    clear H1 Hle. revert H2. induction l as [|a r IH]; intros H2; [reflexivity|].
    apply andb_true_iff in H2 as [Ha Hr]. rewrite (digest_json_short a Ha). f_equal. apply IH. exact Hr.
  - cbn [short_json] in H. cbn [digest_json]. f_equal.
    revert H. induction kv as [|[k v] r IH]; intros H; [reflexivity|].
    apply andb_true_iff in H as [Hv Hr]. rewrite (digest_json_short v Hv). f_equal. apply IH. exact Hr.
Qed.

(* and a long text is told apart by its length *)
Lemma digest_long_string x : long_limit < List.length x ->
  digest_json (JStr x) = long_mark (s "$long-string") (List.length x) (str_hash x).
Proof. intros H. cbn [digest_json]. destruct (Nat.ltb_spec long_limit (List.length x)); [reflexivity|lia]. Qed.

(* ---- TS client: every failed response becomes one of the two documented classes ------------------------------- *)
(* a 400 whose body is a JSON object with a non-empty violation list is a ValidationError carrying that list *)
Lemma ts_client_400_violations kv v rest : assoc_json (s "violations") kv = Some (JArr (v :: rest)) ->
  ts_client 400 (Some (JObj kv)) = TSValidation (JArr (v :: rest)).
Proof. intros H. unfold ts_client. rewrite Z.eqb_refl, H. reflexivity. Qed.

(* anything else keeps the status (and the body it was given): no failed response is dropped or re-labelled *)
Lemma ts_client_total st body :
  (exists v, ts_client st body = TSValidation v /\ st = 400%Z /\
             exists kv, body = Some (JObj kv) /\ assoc_json (s "violations") kv = Some v /\ js_truthy v = true)
  \/ ts_client st body = TSApi st body.
Proof.
  unfold ts_client. destruct (Z.eqb_spec st 400) as [->|Hne]; [|now right].
  destruct body as [[| | | | |kv]|]; try now right.
  destruct (assoc_json (s "violations") kv) as [v|] eqn:E; [|now right].
  destruct (js_truthy v) eqn:T; [|now right].
  left. exists v. repeat split. exists kv. repeat split; assumption.
Qed.
