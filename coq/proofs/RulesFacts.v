(* RulesFacts.v — C19: the published constraints accept exactly what the rules accept (outside the
   defect classes), required is listed exactly when the rules require the field, well-known formats
   are published under their names; refutation witnesses for every defect class. *)
From Sebuf Require Import JsonSchema Yaml Rules.
From SebufProofs Require Import JsonSchemaFacts.
From Coq Require Import Btauto.

Lemma dec_leb_int a b : dec_leb (mkdec a 0) (mkdec b 0) = (a <=? b)%Z.
Proof.
  unfold dec_leb. rewrite dec_compare_int. unfold Z.leb. destruct (a ?= b)%Z; reflexivity.
Qed.

(* ---- reading the emitted tree under the YAML 1.2 reader ------------------------------------------ *)
Definition kw12 (f : nat) (e : str * ynode) : keyword :=
  kw_of_entry (schema_of_jv f) (fst e) (denote reader12 (snd e)).

Lemma schema_of_ymap f es : schema_of_jv (S f) (denote reader12 (YMap es)) = SObj (map (kw12 f) es).
Proof.
  cbn [denote schema_of_jv]. f_equal.
  induction es as [|[k x] es IH]; [reflexivity|].
  cbn [map fst snd]. rewrite IH. reflexivity.
Qed.

Section Equiv.
Variable P : vparams.

Definition chk (n : nat) (props : list str) (v : jv) (kw : keyword) : vres :=
  check_kw P [] (validates P [] n) props kw v.

Lemma validates_obj n kws v :
  validates P [] (S n) (SObj kws) v = vall (map (chk n (declared_props kws) v) kws).
Proof. reflexivity. Qed.

(* a block of entries, read and checked against v, gives verdict b *)
Definition blk (n f : nat) (props : list str) (v : jv) (es : list (str * ynode)) (b : bool) : Prop :=
  vall (map (chk n props v) (map (kw12 f) es)) = VOk b.

Lemma blk_nil n f props v : blk n f props v [] true.
Proof. reflexivity. Qed.

Lemma blk_app n f props v es1 es2 b1 b2 :
  blk n f props v es1 b1 -> blk n f props v es2 b2 -> blk n f props v (es1 ++ es2) (b1 && b2).
Proof. unfold blk. intros H1 H2. rewrite !map_app. now apply vall_ok_app. Qed.

Lemma blk_oent {A} n f props v (o : option A) k (mk : A -> ynode) (test : A -> bool) :
  (forall a, chk n props v (kw12 f (s k, mk a)) = VOk (test a)) ->
  blk n f props v (oent o k mk) (opt_all o test).
Proof.
  intros H. destruct o as [a|]; cbn; [|reflexivity].
  unfold blk. cbn [map]. unfold vall. cbn [fold_right]. rewrite H. cbn. now rewrite andb_true_r.
Qed.

Lemma blk_one n f props v e b : chk n props v (kw12 f e) = VOk b -> blk n f props v [e] b.
Proof. intros H. unfold blk. cbn [map]. unfold vall. cbn [fold_right]. rewrite H. cbn. now rewrite andb_true_r. Qed.

(* ---- keyword readings -------------------------------------------------------------------------- *)
Lemma kw_minLength f n : kw12 f (s "minLength", ynat n) = KwMinLength n.
Proof. unfold kw12, ynat. cbn [fst snd denote]. change (kw_of_entry (schema_of_jv f) (s "minLength") (JVNum (dec_of_N n))) with (kw_nat (s "minLength") KwMinLength (JVNum (dec_of_N n))). unfold kw_nat. now rewrite nat_of_jv_N. Qed.
Lemma kw_maxLength f n : kw12 f (s "maxLength", ynat n) = KwMaxLength n.
Proof. unfold kw12, ynat. cbn [fst snd denote]. change (kw_of_entry (schema_of_jv f) (s "maxLength") (JVNum (dec_of_N n))) with (kw_nat (s "maxLength") KwMaxLength (JVNum (dec_of_N n))). unfold kw_nat. now rewrite nat_of_jv_N. Qed.
Lemma kw_minItems f n : kw12 f (s "minItems", ynat n) = KwMinItems n.
Proof. unfold kw12, ynat. cbn [fst snd denote]. change (kw_of_entry (schema_of_jv f) (s "minItems") (JVNum (dec_of_N n))) with (kw_nat (s "minItems") KwMinItems (JVNum (dec_of_N n))). unfold kw_nat. now rewrite nat_of_jv_N. Qed.
Lemma kw_maxItems f n : kw12 f (s "maxItems", ynat n) = KwMaxItems n.
Proof. unfold kw12, ynat. cbn [fst snd denote]. change (kw_of_entry (schema_of_jv f) (s "maxItems") (JVNum (dec_of_N n))) with (kw_nat (s "maxItems") KwMaxItems (JVNum (dec_of_N n))). unfold kw_nat. now rewrite nat_of_jv_N. Qed.
Lemma kw_minProps f n : kw12 f (s "minProperties", ynat n) = KwMinProperties n.
Proof. unfold kw12, ynat. cbn [fst snd denote]. change (kw_of_entry (schema_of_jv f) (s "minProperties") (JVNum (dec_of_N n))) with (kw_nat (s "minProperties") KwMinProperties (JVNum (dec_of_N n))). unfold kw_nat. now rewrite nat_of_jv_N. Qed.
Lemma kw_maxProps f n : kw12 f (s "maxProperties", ynat n) = KwMaxProperties n.
Proof. unfold kw12, ynat. cbn [fst snd denote]. change (kw_of_entry (schema_of_jv f) (s "maxProperties") (JVNum (dec_of_N n))) with (kw_nat (s "maxProperties") KwMaxProperties (JVNum (dec_of_N n))). unfold kw_nat. now rewrite nat_of_jv_N. Qed.
Lemma kw_pattern f re : kw12 f (s "pattern", YStr re) = KwPattern re.
Proof. reflexivity. Qed.
Lemma kw_format f x : kw12 f (s "format", YStr x) = KwFormat x.
Proof. reflexivity. Qed.
Lemma kw_minimum f d : kw12 f (s "minimum", YNum d) = KwMinimum d.
Proof. reflexivity. Qed.
Lemma kw_maximum f d : kw12 f (s "maximum", YNum d) = KwMaximum d.
Proof. reflexivity. Qed.
Lemma kw_const f x : kw12 f (s "const", YPlain x) = KwConst (rd_plain reader12 x).
Proof. reflexivity. Qed.
Lemma kw_enum f l : kw12 f (s "enum", YSeq (map YPlain l)) = KwEnum (map (rd_plain reader12) l).
Proof. unfold kw12. cbn [fst snd denote]. rewrite map_map. reflexivity. Qed.
(* string const / in values are tagged !!str: a YAML 1.2 reader gets the string itself, whatever it spells *)
Lemma kw_const_str f x : kw12 f (s "const", YStr x) = KwConst (JVStr x).
Proof. reflexivity. Qed.
Lemma kw_enum_str f l : kw12 f (s "enum", YSeq (map YStr l)) = KwEnum (map JVStr l).
Proof. unfold kw12. cbn [fst snd denote]. rewrite map_map. reflexivity. Qed.
Lemma kw_unique f : kw12 f (s "uniqueItems", YBool true) = KwUniqueItems true.
Proof. reflexivity. Qed.


(* ---- the string block ----------------------------------------------------------------------------- *)
Lemma reads_as_string_eq x : reads_as_string reader12 x = true -> rd_plain reader12 x = JVStr x.
Proof.
  unfold reads_as_string. destruct (rd_plain reader12 x); try discriminate.
  intros H. apply str_eqb_eq in H. now subst.
Qed.

Lemma existsb_str_enum x l :
  existsb (fun e => jv_eqb e (JVStr x)) (map JVStr l) = mem_str x l.
Proof.
  unfold mem_str. induction l as [|a l IH]; [reflexivity|].
  cbn [map existsb]. rewrite IH.
  cbn [jv_eqb]. now rewrite (str_eqb_sym a x).
Qed.

Lemma opt_all_opos_min (o : option N) (L : N) :
  opt_all (opos o) (fun n => (n <=? L)%N) = opt_all o (fun n => (n <=? L)%N).
Proof.
  destruct o as [[|p]|]; try reflexivity. cbn. symmetry. apply N.leb_le, N.le_0_l.
Qed.
Lemma opos_not_zero (o : option N) : is_zero o = false -> opos o = o.
Proof. destruct o as [[|p]|]; cbn; congruence. Qed.

Definition supported_well_known : list str :=
  [s "email"; s "uuid"; s "uri"; s "hostname"; s "ip"; s "ipv4"; s "ipv6"].
Definition rules_wf (r : rules) : bool :=
  match r_well_known r with Some w => mem_str w supported_well_known | None => true end.

Lemma format_supported w : mem_str w supported_well_known = true -> format_of_well_known w = Some w.
Proof.
  unfold mem_str, supported_well_known. cbn [existsb].
  intros H. repeat (apply orb_prop in H as [H|H]; [apply str_eqb_eq in H; subst; reflexivity|]).
  discriminate.
Qed.

Lemma string_block n f props x r :
  rules_wf r = true -> is_zero (r_max_len r) = false -> r_len r = None -> r_str_not_in r = [] ->
  blk n f props (JVStr x) (string_entries r) (sat_string P r x).
Proof.
  intros Hwf Hz Hlen Hnotin.
  unfold string_entries, sat_string. rewrite Hlen, Hnotin. change (mem_str x []) with false. cbn [opt_all negb].
  rewrite (opos_not_zero _ Hz).
  assert (Hfmt : blk n f props (JVStr x)
            (oent (match r_well_known r with Some w => format_of_well_known w | None => None end) "format" YStr)
            (opt_all (r_well_known r) (fun w => vp_format P w x))).
  { unfold rules_wf in Hwf. destruct (r_well_known r) as [w|]; [|apply blk_nil].
    rewrite (format_supported _ Hwf). cbn [oent]. apply blk_one. rewrite kw_format. reflexivity. }
  assert (Hin' : blk n f props (JVStr x)
            (match r_str_in r with [] => [] | l => [(s "enum", YSeq (map YStr l))] end)
            (match r_str_in r with [] => true | l => mem_str x l end)).
  { destruct (r_str_in r) as [|a l] eqn:E; [apply blk_nil|]. apply blk_one. rewrite kw_enum_str.
    unfold chk. cbn [check_kw]. now rewrite existsb_str_enum. }
  assert (Hc : blk n f props (JVStr x) (oent (r_str_const r) "const" YStr) (opt_all (r_str_const r) (fun c => str_eqb c x))).
  { destruct (r_str_const r) as [c|]; [|apply blk_nil]. cbn [oent]. apply blk_one. rewrite kw_const_str. reflexivity. }
  pose proof (blk_app _ _ _ _ _ _ _ _
               (blk_oent n f props (JVStr x) (opos (r_min_len r)) "minLength" ynat (fun m => (m <=? utf8_len x)%N)
                  (fun a => eq_trans (f_equal (chk n props (JVStr x)) (kw_minLength f a)) eq_refl))
               (blk_app _ _ _ _ _ _ _ _
                  (blk_oent n f props (JVStr x) (r_max_len r) "maxLength" ynat (fun m => (utf8_len x <=? m)%N)
                     (fun a => eq_trans (f_equal (chk n props (JVStr x)) (kw_maxLength f a)) eq_refl))
                  (blk_app _ _ _ _ _ _ _ _
                     (blk_oent n f props (JVStr x) (r_pattern r) "pattern" YStr (fun re => vp_regex P re x)
                        (fun a => eq_refl))
                     (blk_app _ _ _ _ _ _ _ _ Hfmt (blk_app _ _ _ _ _ _ _ _ Hin' Hc))))) as H.
  rewrite opt_all_opos_min in H.
  unfold blk in *. rewrite H. f_equal. btauto.
Qed.


(* ---- the numeric block ---------------------------------------------------------------------------- *)
Lemma literal_ok_plain c : literal_ok c = true -> rd_plain reader12 c = JVNum (num_lit c).
Proof.
  unfold literal_ok, num_lit. cbn [rd_plain reader12]. destruct (resolve12 c); try discriminate. reflexivity.
Qed.

Lemma existsb_num_enum d l :
  forallb literal_ok l = true ->
  existsb (fun e => jv_eqb e (JVNum d)) (map (rd_plain reader12) l) = existsb (fun c => dec_eqb (num_lit c) d) l.
Proof.
  induction l as [|a l IH]; intros H; [reflexivity|].
  cbn [forallb] in H. apply andb_prop in H as [Ha Hl].
  cbn [map existsb]. rewrite (literal_ok_plain _ Ha), IH by assumption. reflexivity.
Qed.

Lemma wide_exact_eq b : wide_exact b = true -> nb_wide b = nb_rule b.
Proof. unfold wide_exact. apply dec_record_eq. Qed.

Lemma numeric_block n f props d r :
  r_gt r = None -> r_lt r = None -> reversed_range r = false ->
  forallb wide_exact (bounds_of r) = true -> literals_ok r = true ->
  blk n f props (JVNum d) (numeric_entries r) (sat_num r d).
Proof.
  intros Hgt Hlt Hrev Hwide Hlit.
  unfold literals_ok in Hlit. rewrite forallb_app in Hlit. apply andb_prop in Hlit as [Hc Hin].
  unfold bounds_of in Hwide. cbn [flat_map] in Hwide. rewrite app_nil_r, forallb_app in Hwide.
  apply andb_prop in Hwide as [Hwg Hwl].
  unfold numeric_entries, sat_num, lower_ok, upper_ok. rewrite Hgt, Hlt, Hrev. cbn [oent opt_all app].
  assert (Hmin : blk n f props (JVNum d) (oent (r_gte r) "minimum" (fun b => YNum (nb_wide b)))
                     (opt_all (r_gte r) (fun b => dec_leb (nb_rule b) d))).
  { destruct (r_gte r) as [b|]; [|apply blk_nil]. cbn [oent opt_all]. apply blk_one. rewrite kw_minimum.
    cbn [forallb] in Hwg. apply andb_prop in Hwg as [Hb _]. now rewrite (wide_exact_eq _ Hb). }
  assert (Hmax : blk n f props (JVNum d) (oent (r_lte r) "maximum" (fun b => YNum (nb_wide b)))
                     (opt_all (r_lte r) (fun b => dec_leb d (nb_rule b)))).
  { destruct (r_lte r) as [b|]; [|apply blk_nil]. cbn [oent opt_all]. apply blk_one. rewrite kw_maximum.
    cbn [forallb] in Hwl. apply andb_prop in Hwl as [Hb _]. now rewrite (wide_exact_eq _ Hb). }
  assert (Hconst : blk n f props (JVNum d) (oent (r_num_const r) "const" YPlain)
                     (opt_all (r_num_const r) (fun c => dec_eqb (num_lit c) d))).
  { destruct (r_num_const r) as [c|]; [|apply blk_nil]. cbn [oent opt_all]. apply blk_one. rewrite kw_const.
    cbn [forallb] in Hc. apply andb_prop in Hc as [Hc _]. now rewrite (literal_ok_plain _ Hc). }
  assert (Hen : blk n f props (JVNum d) (match r_num_in r with [] => [] | l => [(s "enum", YSeq (map YPlain l))] end)
                     (match r_num_in r with [] => true | l => existsb (fun c => dec_eqb (num_lit c) d) l end)).
  { destruct (r_num_in r) as [|a l] eqn:E; [apply blk_nil|]. apply blk_one. rewrite kw_enum.
    unfold chk. cbn [check_kw]. now rewrite existsb_num_enum. }
  pose proof (blk_app _ _ _ _ _ _ _ _ Hmin (blk_app _ _ _ _ _ _ _ _ Hmax (blk_app _ _ _ _ _ _ _ _ Hconst Hen))) as H.
  unfold blk in *. rewrite H. f_equal. btauto.
Qed.

Lemma no_numeric_rules_entries r : has_numeric_rules r = false -> numeric_entries r = [].
Proof.
  unfold has_numeric_rules, has_bounds, numeric_entries, isSome, nonempty.
  destruct (r_gt r), (r_gte r), (r_lt r), (r_lte r), (r_num_const r), (r_num_in r); cbn; try discriminate. reflexivity.
Qed.
Lemma no_numeric_rules_sat r d : has_numeric_rules r = false -> sat_num r d = true.
Proof.
  unfold has_numeric_rules, has_bounds, sat_num, reversed_range, lower_bound, upper_bound, lower_ok, upper_ok, isSome, nonempty.
  destruct (r_gt r), (r_gte r), (r_lt r), (r_lte r), (r_num_const r), (r_num_in r); cbn; try discriminate. reflexivity.
Qed.
Lemma no_string_rules_sat r x : has_string_rules r = false -> sat_string P r x = true.
Proof.
  unfold has_string_rules, sat_string, isSome, nonempty.
  destruct (r_min_len r), (r_max_len r), (r_len r), (r_pattern r), (r_well_known r), (r_str_in r), (r_str_not_in r), (r_str_const r);
    cbn; try discriminate. reflexivity.
Qed.


(* ---- the base block: the type / format / minimum 0 of the kind accept every typed value ------------ *)
(* format names that describe the wire encoding of a kind, not a rule: a format checker must treat
   them as annotations *)
Definition encoding_formats : list str := [s "int32"; s "int64"; s "uint64"; s "float"; s "double"; s "byte"].
Definition encoding_formats_are_annotations : Prop :=
  forall name x, mem_str name encoding_formats = true -> vp_format P name x = true.

Lemma int_typed_facts d lo hi :
  ((de d =? 0)%Z && (lo <=? dm d)%Z && (dm d <=? hi)%Z) = true ->
  exists m, d = mkdec m 0 /\ (lo <= m)%Z.
Proof.
  intros H. destruct d as [m e]. cbn in H. apply andb_prop in H as [H _]. apply andb_prop in H as [He Hlo].
  apply Z.eqb_eq in He. apply Z.leb_le in Hlo. subst. now exists m.
Qed.

Lemma base_block n f props fs x :
  encoding_formats_are_annotations ->
  rule_kind (fs_kind fs) = true -> typed_scalar (fs_kind fs) x = true ->
  blk n f props (scalar_json fs x) (base_entries (fs_kind fs) (fs_i64num fs)) true.
Proof.
  intros Hfmt. destruct fs as [k c i64]. cbn [fs_kind fs_i64num]. intros Hk Ht.
  destruct k; try discriminate Hk; destruct x as [y|d|j]; cbn in Ht; try discriminate Ht;
    try (destruct j; try discriminate Ht);
    try (match type of Ht with
         | (_ && _ && _)%bool = true =>
             let m := fresh "m" in let Hm := fresh "Hm" in
             destruct (int_typed_facts d _ _ Ht) as [m [-> Hm]]
         end);
    destruct i64; unfold blk, scalar_json, string_typed_int64; cbn;
    rewrite ?Hfmt by reflexivity;
    try reflexivity;
    try (unfold dec_of_Z; rewrite dec_leb_int; replace (0 <=? m)%Z with true by (symmetry; now apply Z.leb_le); reflexivity).
Qed.

(* ---- scalar fields ------------------------------------------------------------------------------------ *)
Lemma if_nil {A} (b : bool) (x : A) : (if b then [x] else []) = [] -> b = false.
Proof. destruct b; [discriminate|reflexivity]. Qed.

Definition singular_card (c : card) : bool := match c with Singular | Optional => true | _ => false end.

Lemma scalar_block n f props fs r x :
  encoding_formats_are_annotations ->
  rule_kind (fs_kind fs) = true -> singular_card (fs_card fs) = true ->
  defects_C19 fs r = [] -> rules_wf r = true -> literals_ok r = true ->
  typed_scalar (fs_kind fs) x = true ->
  blk n f props (scalar_json fs x) (scalar_entries (fs_kind fs) r) (sat_scalar P (fs_kind fs) r x).
Proof.
  intros Hfmt Hk Hc Hd Hwf Hlit Ht.
  destruct fs as [k c i64]. cbn [fs_kind fs_card fs_i64num] in *.
  unfold defects_C19 in Hd. cbn [fs_kind fs_card] in Hd.
  assert (Hd' :
    (if is_numeric_kind k && negb (reads_rules k) && has_numeric_rules r then [RulesWrongMessage] else []) ++
    (if reads_rules k && is_numeric_kind k then
       (if string_typed_int64 {| fs_kind := k; fs_card := c; fs_i64num := i64 |} && has_numeric_rules r then [Int64StringTyped] else []) ++
       (if isSome (r_gt r) || isSome (r_lt r) then [ExclusiveBoundFalse] else []) ++
       (if reversed_range r then [ReversedRange] else []) ++
       (if negb (forallb wide_exact (bounds_of r))
        then (match k with KFloat => [Float32BoundWidened] | _ => [BoundRoundedToFloat64] end) else [])
     else []) ++
    (if is_string_kind k then
       (if is_zero (r_max_len r) then [ZeroMaxDropped] else []) ++
       (if isSome (r_len r) then [StringLenIgnored] else []) ++
       (if nonempty (r_str_not_in r) then [StringNotInIgnored] else [])
     else []) = []).
  { destruct c; try discriminate Hc; exact Hd. }
  clear Hd. apply app_eq_nil in Hd' as [Hwrong Hd']. apply app_eq_nil in Hd' as [Hnum Hstr].
  apply if_nil in Hwrong.
  destruct k; try discriminate Hk; destruct x as [y|d|j]; cbn in Ht; try discriminate Ht;
    cbn [scalar_entries sat_scalar is_string_kind is_numeric_kind is_int32_kind is_int64_kind is_float_kind orb];
    try apply blk_nil.
  (* numeric kinds that never read their rules: no numeric rules at all *)
  all: try (cbn in Hwrong; rewrite (no_numeric_rules_sat _ _ Hwrong); apply blk_nil).
  all: try (cbn [reads_rules is_numeric_kind is_int32_kind is_int64_kind is_float_kind andb orb] in Hnum;
            apply app_eq_nil in Hnum as [Hst Hnum]; apply app_eq_nil in Hnum as [Hex Hnum]; apply app_eq_nil in Hnum as [Hrev Hwide];
            apply if_nil in Hex; apply if_nil in Hrev; apply if_nil in Hst; apply orb_false_elim in Hex as [Hgt Hlt];
            assert (Hw : forallb wide_exact (bounds_of r) = true)
              by (destruct (forallb wide_exact (bounds_of r)); [reflexivity|cbn in Hwide; discriminate Hwide]);
            assert (Hgt' : r_gt r = None) by (unfold isSome in Hgt; destruct (r_gt r); congruence);
            assert (Hlt' : r_lt r = None) by (unfold isSome in Hlt; destruct (r_lt r); congruence);
            unfold scalar_json; unfold string_typed_int64 in *; cbn [fs_kind fs_i64num is_int64_kind andb] in *).
  - (* double *) now apply numeric_block.
  - (* float *) now apply numeric_block.
  - (* int32 *) now apply numeric_block.
  - (* int64 *) destruct i64; cbn [negb] in *.
    + now apply numeric_block.
    + rewrite (no_numeric_rules_entries _ Hst), (no_numeric_rules_sat _ _ Hst). apply blk_nil.
  - (* string *) cbn [is_string_kind] in Hstr.
    apply app_eq_nil in Hstr as [Hz Hstr]. apply app_eq_nil in Hstr as [Hlen Hni].
    apply if_nil in Hz, Hlen, Hni.
    unfold scalar_json. apply string_block; try assumption.
    + unfold isSome in Hlen. destruct (r_len r); [discriminate|reflexivity].
    + unfold nonempty in Hni. destruct (r_str_not_in r); [reflexivity|discriminate].
Qed.

(* ---- collections ------------------------------------------------------------------------------------- *)
Definition not_arr (v : jv) : bool := match v with JVArr _ => false | _ => true end.
Definition not_obj (v : jv) : bool := match v with JVObj _ => false | _ => true end.

Lemma scalar_json_shape fs x : typed_scalar (fs_kind fs) x = true ->
  not_arr (scalar_json fs x) = true /\ not_obj (scalar_json fs x) = true.
Proof.
  destruct fs as [k c i64]. cbn [fs_kind]. unfold scalar_json.
  destruct x as [y|d|j]; [now split | destruct (string_typed_int64 _); now split |].
  destruct k; cbn; try discriminate; destruct j; try discriminate; now split.
Qed.

Lemma repeated_block_other n f props v r : not_arr v = true -> blk n f props v (repeated_entries r) true.
Proof.
  intros Hv. unfold repeated_entries.
  replace true with (true && (true && true)) by reflexivity.
  apply blk_app; [|apply blk_app].
  - destruct (opos (r_min_items r)); [|apply blk_nil]. apply blk_one. rewrite kw_minItems. destruct v; try discriminate; reflexivity.
  - destruct (opos (r_max_items r)); [|apply blk_nil]. apply blk_one. rewrite kw_maxItems. destruct v; try discriminate; reflexivity.
  - destruct (r_unique r); [|apply blk_nil]. apply blk_one. rewrite kw_unique. destruct v; try discriminate; reflexivity.
Qed.

Lemma map_block_other n f props v r : not_obj v = true -> blk n f props v (map_entries r) true.
Proof.
  intros Hv. unfold map_entries. replace true with (true && true) by reflexivity. apply blk_app.
  - destruct (opos (r_min_pairs r)); [|apply blk_nil]. apply blk_one. rewrite kw_minProps. destruct v; try discriminate; reflexivity.
  - destruct (opos (r_max_pairs r)); [|apply blk_nil]. apply blk_one. rewrite kw_maxProps. destruct v; try discriminate; reflexivity.
Qed.

Lemma repeated_block_arr n f props vs r :
  is_zero (r_max_items r) = false ->
  blk n f props (JVArr vs) (repeated_entries r)
      (opt_all (r_min_items r) (fun m => (m <=? len_N vs)%N) && opt_all (r_max_items r) (fun m => (len_N vs <=? m)%N)
       && (negb (r_unique r) || all_distinct vs)).
Proof.
  intros Hz. unfold repeated_entries. rewrite (opos_not_zero _ Hz). rewrite <- opt_all_opos_min, <- andb_assoc.
  apply blk_app; [|apply blk_app].
  - apply blk_oent. intros a. rewrite kw_minItems. reflexivity.
  - apply blk_oent. intros a. rewrite kw_maxItems. reflexivity.
  - destruct (r_unique r); [|apply blk_nil]. apply blk_one. rewrite kw_unique. reflexivity.
Qed.

Lemma map_block_obj n f props kv r :
  is_zero (r_max_pairs r) = false ->
  blk n f props (JVObj kv) (map_entries r)
      (opt_all (r_min_pairs r) (fun m => (m <=? len_N kv)%N) && opt_all (r_max_pairs r) (fun m => (len_N kv <=? m)%N)).
Proof.
  intros Hz. unfold map_entries. rewrite (opos_not_zero _ Hz). rewrite <- opt_all_opos_min.
  apply blk_app.
  - apply blk_oent. intros a. rewrite kw_minProps. reflexivity.
  - apply blk_oent. intros a. rewrite kw_maxProps. reflexivity.
Qed.

(* proto equality of typed values of one kind = JSON equality of their wire forms *)
Lemma scalar_json_eqb fs a b :
  typed_scalar (fs_kind fs) a = true -> typed_scalar (fs_kind fs) b = true ->
  jv_eqb (scalar_json fs a) (scalar_json fs b) = rval_eqb a b.
Proof.
  destruct fs as [k c i64]. cbn [fs_kind]. unfold scalar_json, string_typed_int64. cbn [fs_kind fs_i64num].
  intros Ha Hb.
  destruct a as [x|da|ja], b as [y|db|jb]; try reflexivity;
    try (destruct k; cbn in Ha, Hb; try discriminate; destruct ja; try discriminate; fail);
    try (destruct k; cbn in Ha, Hb; try discriminate; destruct jb; try discriminate; fail).
  - (* numbers *)
    destruct (is_int64_kind k && negb i64) eqn:E; [|reflexivity].
    assert (Hk : is_int64_kind k = true) by (destruct (is_int64_kind k); [reflexivity|discriminate]).
    destruct k; try discriminate Hk; cbn in Ha, Hb;
      destruct (int_typed_facts _ _ _ Ha) as [ma [-> _]]; destruct (int_typed_facts _ _ _ Hb) as [mb [-> _]];
      cbn [jv_eqb rval_eqb dm]; now rewrite str_eqb_show_Z, dec_eqb_int.
Qed.

Lemma distinct_wire fs l :
  forallb (typed_scalar (fs_kind fs)) l = true ->
  all_distinct (map (scalar_json fs) l) = rvals_distinct l.
Proof.
  induction l as [|a l IH]; intros H; [reflexivity|].
  cbn [forallb] in H. apply andb_prop in H as [Ha Hl].
  cbn [map all_distinct rvals_distinct]. rewrite IH by assumption. f_equal. f_equal.
  clear IH. induction l as [|b l IH]; [reflexivity|].
  cbn [forallb] in Hl. apply andb_prop in Hl as [Hb Hl].
  cbn [map existsb]. rewrite IH by assumption. now rewrite scalar_json_eqb.
Qed.

Lemma sat_scalar_no_rules k r x : scalar_rules_present k r = false -> sat_scalar P k r x = true.
Proof.
  unfold scalar_rules_present, sat_scalar. intros H. apply orb_false_elim in H as [Hs Hn].
  destruct x as [y|d|j]; [| |reflexivity].
  - destruct (is_string_kind k); [|reflexivity]. cbn in Hs. now apply no_string_rules_sat.
  - destruct (is_numeric_kind k); [|reflexivity]. cbn in Hn. now apply no_numeric_rules_sat.
Qed.

(* ---- the equivalence ---------------------------------------------------------------------------------- *)
Lemma forallb_forall_true {A} (l : list A) : forallb (fun _ => true) l = true.
Proof. induction l; [reflexivity|assumption]. Qed.

Lemma len_N_map {A B} (g : A -> B) (l : list A) : len_N (map g l) = len_N l.
Proof. unfold len_N. now rewrite map_length. Qed.

Lemma collection_defects fs r :
  singular_card (fs_card fs) = false -> defects_C19 fs r = [] ->
  scalar_rules_present (fs_kind fs) r = false /\
  is_zero (match fs_card fs with Repeated => r_max_items r | _ => r_max_pairs r end) = false.
Proof.
  unfold defects_C19. destruct (fs_card fs); try discriminate; intros _ H;
    apply app_eq_nil in H as [H1 H2]; apply if_nil in H1, H2; now split.
Qed.

Theorem equiv fs r :
  encoding_formats_are_annotations ->
  rule_kind (fs_kind fs) = true -> rules_wf r = true -> literals_ok r = true ->
  defects_C19 fs r = [] ->
  forall v, typed fs v = true -> forall fuel, 2 <= fuel ->
  validates P [] fuel (translate reader12 fs r) (to_json fs v) = VOk (sat P fs r v).
Proof.
  intros Hfmt Hk Hwf Hlit Hd v Ht fuel Hfuel.
  destruct fuel as [|[|n]]; try lia. clear Hfuel.
  unfold translate. change schema_fuel with (S (S 6)).
  unfold typed in Ht. unfold field_schema_y.
  destruct (fs_card fs) eqn:Ec; cbv beta iota zeta.
  - (* singular *)
    destruct v as [x| |]; try discriminate Ht. rewrite (schema_of_ymap 7), validates_obj.
    unfold constraint_entries. cbn [orb app]. rewrite app_nil_r. cbn [to_json sat].
    assert (Hc : singular_card (fs_card fs) = true) by now rewrite Ec.
    exact (blk_app _ _ _ _ _ _ _ _ (base_block _ _ _ _ _ Hfmt Hk Ht) (scalar_block _ _ _ _ _ _ Hfmt Hk Hc Hd Hwf Hlit Ht)).
  - (* optional *)
    destruct v as [x| |]; try discriminate Ht. rewrite (schema_of_ymap 7), validates_obj.
    unfold constraint_entries. cbn [orb app]. rewrite app_nil_r. cbn [to_json sat].
    assert (Hc : singular_card (fs_card fs) = true) by now rewrite Ec.
    exact (blk_app _ _ _ _ _ _ _ _ (base_block _ _ _ _ _ Hfmt Hk Ht) (scalar_block _ _ _ _ _ _ Hfmt Hk Hc Hd Hwf Hlit Ht)).
  - (* repeated *)
    destruct v as [|l|]; try discriminate Ht.
    destruct (collection_defects fs r) as [Hnr Hz]; [now rewrite Ec|assumption|]. rewrite Ec in Hz.
    rewrite (schema_of_ymap 7), validates_obj. unfold constraint_entries. cbn [orb app]. rewrite app_nil_r.
    cbn [to_json sat].
    replace (forallb (sat_scalar P (fs_kind fs) r) l) with true
      by (symmetry; apply forallb_forall; intros; now apply sat_scalar_no_rules).
    rewrite andb_true_r, <- (distinct_wire fs l Ht), <- (len_N_map (scalar_json fs) l).
    set (vs := map (scalar_json fs) l).
    change ((s "type", ystr "array") :: (s "items", YMap (base_entries (fs_kind fs) (fs_i64num fs) ++ repeated_entries r)) :: repeated_entries r)
      with ([(s "type", ystr "array")] ++ [(s "items", YMap (base_entries (fs_kind fs) (fs_i64num fs) ++ repeated_entries r))] ++ repeated_entries r).
    match goal with |- vall (map (chk ?n ?props ?v) (map (kw12 ?f) _)) = _ => 
      assert (Hty : blk n f props v [(s "type", ystr "array")] true) by (apply blk_one; reflexivity);
      assert (Hit : blk n f props v [(s "items", YMap (base_entries (fs_kind fs) (fs_i64num fs) ++ repeated_entries r))] true)
    end.
    { apply blk_one. unfold kw12. cbn [fst snd].
      change (kw_of_entry (schema_of_jv 7) (s "items") (denote reader12 (YMap (base_entries (fs_kind fs) (fs_i64num fs) ++ repeated_entries r))))
        with (KwItems (schema_of_jv (S 6) (denote reader12 (YMap (base_entries (fs_kind fs) (fs_i64num fs) ++ repeated_entries r))))).
      rewrite (schema_of_ymap 6). unfold chk. cbn [check_kw]. unfold vs.
      rewrite map_map.
      rewrite (vall_all_ok _ (fun _ => true)); [now rewrite forallb_forall_true|].
      intros a Ha. rewrite validates_obj.
      assert (Hta : typed_scalar (fs_kind fs) a = true) by (eapply forallb_forall in Ht; eassumption).
      exact (blk_app _ _ _ _ _ _ _ _ (base_block _ _ _ _ _ Hfmt Hk Hta)
               (repeated_block_other _ _ _ _ _ (proj1 (scalar_json_shape _ _ Hta)))). }
    exact (blk_app _ _ _ _ _ _ _ _ Hty (blk_app _ _ _ _ _ _ _ _ Hit (repeated_block_arr _ _ _ vs r Hz))).
  - (* map *)
    destruct v as [| |kv]; try discriminate Ht. apply andb_prop in Ht as [Ht Hkeys].
    destruct (collection_defects fs r) as [Hnr Hz]; [now rewrite Ec|assumption|]. rewrite Ec in Hz.
    rewrite (schema_of_ymap 7), validates_obj. unfold constraint_entries. cbn [orb app].
    cbn [to_json sat].
    replace (forallb (fun e => sat_scalar P (fs_kind fs) r (snd e)) kv) with true
      by (symmetry; apply forallb_forall; intros; now apply sat_scalar_no_rules).
    rewrite andb_true_r, <- (len_N_map (fun e => (fst e, scalar_json fs (snd e))) kv).
    set (ov := map (fun e => (fst e, scalar_json fs (snd e))) kv).
    assert (Hprops : declared_props (map (kw12 (S 6))
              ((s "type", ystr "object") :: (s "additionalProperties", YMap (base_entries (fs_kind fs) (fs_i64num fs))) :: map_entries r)) = []).
    { unfold map_entries. destruct (opos (r_min_pairs r)), (opos (r_max_pairs r)); cbn [oent app map];
        rewrite ?kw_minProps, ?kw_maxProps; reflexivity. }
    rewrite Hprops.
    change ((s "type", ystr "object") :: (s "additionalProperties", YMap (base_entries (fs_kind fs) (fs_i64num fs))) :: map_entries r)
      with ([(s "type", ystr "object")] ++ [(s "additionalProperties", YMap (base_entries (fs_kind fs) (fs_i64num fs)))] ++ map_entries r).
    assert (Hty : blk (S n) (S 6) [] (JVObj ov) [(s "type", ystr "object")] true) by (apply blk_one; reflexivity).
    assert (Hap : blk (S n) (S 6) [] (JVObj ov) [(s "additionalProperties", YMap (base_entries (fs_kind fs) (fs_i64num fs)))] true).
    { apply blk_one. unfold kw12. cbn [fst snd].
      change (kw_of_entry (schema_of_jv 7) (s "additionalProperties") (denote reader12 (YMap (base_entries (fs_kind fs) (fs_i64num fs)))))
        with (KwAdditional (schema_of_jv (S 6) (denote reader12 (YMap (base_entries (fs_kind fs) (fs_i64num fs)))))).
      rewrite (schema_of_ymap 6). unfold chk. cbn [check_kw]. unfold ov. rewrite map_map. cbn [fst snd mem_str existsb].
      rewrite (vall_all_ok _ (fun _ => true)); [now rewrite forallb_forall_true|].
      intros a Ha. rewrite validates_obj.
      assert (Hta : typed_scalar (fs_kind fs) (snd a) = true) by (eapply forallb_forall in Ht; [|eassumption]; exact Ht).
      exact (base_block _ _ _ _ _ Hfmt Hk Hta). }
    exact (blk_app _ _ _ _ _ _ _ _ Hty (blk_app _ _ _ _ _ _ _ _ Hap (map_block_obj _ _ _ ov r Hz))).
Qed.

End Equiv.

(* ---- well-known formats are published under their names -------------------------------------------- *)
Theorem format_names r w :
  r_well_known r = Some w -> mem_str w supported_well_known = true ->
  In (s "format", YStr w) (string_entries r).
Proof.
  intros Hw Hs. unfold string_entries. rewrite Hw, (format_supported _ Hs). cbn [oent].
  apply in_or_app; right. apply in_or_app; right. apply in_or_app; right. apply in_or_app; left. now left.
Qed.

(* ---- refutation witnesses --------------------------------------------------------------------------- *)
Definition P0 : vparams := annotation_only (fun _ _ => true).
Definition fsp (k : kind) (c : card) (n : bool) : fspec := {| fs_kind := k; fs_card := c; fs_i64num := n |}.
Definition bnd (a b : dec) : option nbound := Some {| nb_rule := a; nb_wide := b |}.
Definition ib (z : Z) : option nbound := bnd (dec_of_Z z) (dec_of_Z z).

Definition refutes (tag : c19_defect) (fs : fspec) (r : rules) (v : fvalue) : Prop :=
  rule_kind (fs_kind fs) = true /\ rules_wf r = true /\ literals_ok r = true /\ typed fs v = true /\
  defects_C19 fs r = [tag] /\
  validates P0 [] schema_fuel (translate reader12 fs r) (to_json fs v) <> VOk (sat P0 fs r v).

Ltac refute := unfold refutes; repeat split; try (vm_compute; reflexivity); vm_compute; discriminate.

Definition with_gte (b : option nbound) : rules :=
  {| r_required := false; r_min_len := None; r_max_len := None; r_len := None; r_pattern := None;
     r_str_in := []; r_str_not_in := []; r_str_const := None; r_well_known := None;
     r_gt := None; r_gte := b; r_lt := None; r_lte := None; r_num_const := None; r_num_in := [];
     r_min_items := None; r_max_items := None; r_unique := false; r_min_pairs := None; r_max_pairs := None |}.
Definition with_lte (b : option nbound) : rules :=
  {| r_required := false; r_min_len := None; r_max_len := None; r_len := None; r_pattern := None;
     r_str_in := []; r_str_not_in := []; r_str_const := None; r_well_known := None;
     r_gt := None; r_gte := None; r_lt := None; r_lte := b; r_num_const := None; r_num_in := [];
     r_min_items := None; r_max_items := None; r_unique := false; r_min_pairs := None; r_max_pairs := None |}.
Definition with_gt (b : option nbound) : rules :=
  {| r_required := false; r_min_len := None; r_max_len := None; r_len := None; r_pattern := None;
     r_str_in := []; r_str_not_in := []; r_str_const := None; r_well_known := None;
     r_gt := b; r_gte := None; r_lt := None; r_lte := None; r_num_const := None; r_num_in := [];
     r_min_items := None; r_max_items := None; r_unique := false; r_min_pairs := None; r_max_pairs := None |}.
Definition with_range (lo hi : option nbound) : rules :=
  {| r_required := false; r_min_len := None; r_max_len := None; r_len := None; r_pattern := None;
     r_str_in := []; r_str_not_in := []; r_str_const := None; r_well_known := None;
     r_gt := None; r_gte := lo; r_lt := None; r_lte := hi; r_num_const := None; r_num_in := [];
     r_min_items := None; r_max_items := None; r_unique := false; r_min_pairs := None; r_max_pairs := None |}.
Definition str_rules (mn mx ln : option N) (nin : list str) (c : option str) : rules :=
  {| r_required := false; r_min_len := mn; r_max_len := mx; r_len := ln; r_pattern := None;
     r_str_in := []; r_str_not_in := nin; r_str_const := c; r_well_known := None;
     r_gt := None; r_gte := None; r_lt := None; r_lte := None; r_num_const := None; r_num_in := [];
     r_min_items := None; r_max_items := None; r_unique := false; r_min_pairs := None; r_max_pairs := None |}.

(* uint32 x = 1 [gte: 5]: 0 violates the rule, the schema {type: integer, minimum: 0} accepts it *)
Theorem refuted_wrong_message : refutes RulesWrongMessage (fsp KUint32 Singular false) (with_gte (ib 5)) (FOne (RNum (dec_of_Z 0))).
Proof. refute. Qed.
(* int64 x = 1 [gte: 3]: 0 violates the rule; its JSON form "0" is a string, which `minimum` ignores *)
Theorem refuted_int64_string_typed : refutes Int64StringTyped (fsp KInt64 Singular false) (with_gte (ib 3)) (FOne (RNum (dec_of_Z 0))).
Proof. refute. Qed.
(* int64 NUMBER [lte: 2^53+1] is published as maximum 2^53: 2^53+1 satisfies the rule and is rejected *)
Theorem refuted_bound_rounded :
  refutes BoundRoundedToFloat64 (fsp KInt64 Singular true)
          (with_lte (bnd (dec_of_Z 9007199254740993) (dec_of_Z 9007199254740992))) (FOne (RNum (dec_of_Z 9007199254740993))).
Proof. refute. Qed.
(* float [gte: 1.1] is published as minimum 1.100000023841858: the value 1.1 satisfies the rule and is rejected *)
Theorem refuted_float32_widened :
  refutes Float32BoundWidened (fsp KFloat Singular false)
          (with_gte (bnd (mkdec 11 (-1)) (mkdec 1100000023841858 (-15)))) (FOne (RNum (mkdec 11 (-1)))).
Proof. refute. Qed.
(* int32 [gt: 1] is published as exclusiveMinimum: false — not a schema; the bound is gone *)
Theorem refuted_exclusive_bound : refutes ExclusiveBoundFalse (fsp KInt32 Singular false) (with_gt (ib 1)) (FOne (RNum (dec_of_Z 0))).
Proof. refute. Qed.
(* int32 [gte: 10, lte: 5] accepts 0 (outside 5..10); minimum 10 and maximum 5 accept nothing *)
Theorem refuted_reversed_range : refutes ReversedRange (fsp KInt32 Singular false) (with_range (ib 10) (ib 5)) (FOne (RNum (dec_of_Z 0))).
Proof. refute. Qed.
Theorem refuted_len_ignored : refutes StringLenIgnored (fsp KString Singular false) (str_rules None None (Some 3%N) [] None) (FOne (RStr (s "a"))).
Proof. refute. Qed.
Theorem refuted_not_in_ignored : refutes StringNotInIgnored (fsp KString Singular false) (str_rules None None None [s "root"] None) (FOne (RStr (s "root"))).
Proof. refute. Qed.
(* repeated string [items.string.min_len: 2]: ["a"] violates the rule, the schema says nothing about items *)
Theorem refuted_item_rules : refutes ItemRulesIgnored (fsp KString Repeated false) (str_rules (Some 2%N) None None [] None) (FList [RStr (s "a")]).
Proof. refute. Qed.
(* string [max_len: 0]: "a" violates the rule, maxLength: 0 is not rendered *)
Theorem refuted_zero_max : refutes ZeroMaxDropped (fsp KString Singular false) (str_rules None (Some 0%N) None [] None) (FOne (RStr (s "a"))).
Proof. refute. Qed.

(* ---- string const / in are strings (the repaired defect string-value-untagged-scalar) ------------------ *)
(* The nodes of string const / in values carry the tag !!str.  For EVERY string c - "123", "true", "null",
   "" included - the schema published for `string.const = c` accepts exactly the JSON string c and the one
   for `string.in = l` exactly the JSON strings of l: no number, boolean or null is accepted in their place and
   the string itself is never rejected.  (Before the repair `const: 123` was a number and rejected "123";
   const "" crashed the plugin.) *)
Definition fstr : fspec := fsp KString Singular false.
Definition const_rules (c : str) : rules := str_rules None None None [] (Some c).
Definition in_rules (l : list str) : rules :=
  {| r_required := false; r_min_len := None; r_max_len := None; r_len := None; r_pattern := None;
     r_str_in := l; r_str_not_in := []; r_str_const := None; r_well_known := None;
     r_gt := None; r_gte := None; r_lt := None; r_lte := None; r_num_const := None; r_num_in := [];
     r_min_items := None; r_max_items := None; r_unique := false; r_min_pairs := None; r_max_pairs := None |}.

Lemma const_schema_y c : field_schema_y fstr (const_rules c) = YMap [(s "type", ystr "string"); (s "const", YStr c)].
Proof. reflexivity. Qed.
Lemma in_schema_y a l :
  field_schema_y fstr (in_rules (a :: l)) = YMap [(s "type", ystr "string"); (s "enum", YSeq (map YStr (a :: l)))].
Proof. reflexivity. Qed.

Theorem string_const_in_are_strings (P : vparams) (fuel : nat) (j : jv) :
  1 <= fuel ->
  (forall c, validates P [] fuel (translate reader12 fstr (const_rules c)) j
             = VOk (match j with JVStr x => str_eqb c x | _ => false end)) /\
  (forall a l, validates P [] fuel (translate reader12 fstr (in_rules (a :: l))) j
               = VOk (match j with JVStr x => mem_str x (a :: l) | _ => false end)).
Proof.
  intros Hfuel. destruct fuel as [|n]; [lia|]. clear Hfuel.
  split.
  - intros c. unfold translate. rewrite const_schema_y. change schema_fuel with (S 7).
    rewrite (schema_of_ymap 7). cbn [map]. rewrite kw_const_str.
    change (kw12 7 (s "type", ystr "string")) with (KwType [TString]).
    rewrite validates_obj. cbn [map]. unfold chk, vall. cbn [fold_right check_kw existsb].
    destruct j as [| | | x | |]; cbn [has_type orb jv_eqb vand andb]; try reflexivity.
    now rewrite andb_true_r.
  - intros a l. unfold translate. rewrite in_schema_y. change schema_fuel with (S 7).
    remember (a :: l) as al eqn:Eal. clear Eal.
    rewrite (schema_of_ymap 7). cbn [map]. rewrite kw_enum_str.
    change (kw12 7 (s "type", ystr "string")) with (KwType [TString]).
    rewrite validates_obj. cbn [map]. unfold chk, vall. cbn [fold_right check_kw].
    destruct j as [| | | x | |]; cbn [existsb has_type orb vand andb]; try reflexivity.
    now rewrite andb_true_r, existsb_str_enum.
Qed.

(* the same nodes in the JSON rendering (the YAML text re-read by a YAML 1.1 resolver): the value is the string
   itself unless it is one of the YAML 1.1 boolean words (y, yes, on, n, no, off, ...), which the v4 emitter
   leaves plain - the separate C18 finding yaml11-bool-word *)
Lemma mem_str_false_or x l1 l2 : (mem_str x l1 || mem_str x l2) = false -> mem_str x l1 = false /\ mem_str x l2 = false.
Proof. apply orb_false_elim. Qed.

Theorem string_node_json_rendering x :
  yaml11_bool_word x = false -> denote reader11 (YStr x) = JVStr x /\ denote reader12 (YStr x) = JVStr x.
Proof.
  intros Hw. split; [|reflexivity]. cbn [denote reader11 rd_str].
  destruct (resolve12 x) eqn:E12; try reflexivity.
  unfold yaml11_bool_word in Hw. apply orb_false_elim in Hw as [Ht Hf].
  unfold resolve12, resolve_with in E12. unfold resolve11, resolve_with.
  destruct x as [|c r]; [discriminate E12|].
  destruct (negb (no_control (c :: r))); [discriminate E12|].
  destruct (numeric_start c); [destruct (plain_number (c :: r)); discriminate E12|].
  destruct (str_eqb (c :: r) (s "~")); [discriminate E12|].
  destruct (str_eqb (c :: r) (s "<<")); [discriminate E12|].
  change (mem_str (c :: r) []) with false in E12. rewrite !orb_false_r in E12.
  destruct (mem_str (c :: r) true_words); [discriminate E12|].
  destruct (mem_str (c :: r) false_words); [discriminate E12|].
  destruct (mem_str (c :: r) null_words); [discriminate E12|].
  rewrite Ht, Hf. reflexivity.
Qed.

(* the hostile spellings, through the whole pipeline: emitted node, both renderings, verdicts *)
Definition const_in_ok (c : str) : Prop :=
  string_entries (const_rules c) = [(s "const", YStr c)] /\
  denote reader12 (field_schema_y fstr (const_rules c)) = JVObj [(s "type", JVStr (s "string")); (s "const", JVStr c)] /\
  denote reader11 (field_schema_y fstr (const_rules c)) = JVObj [(s "type", JVStr (s "string")); (s "const", JVStr c)] /\
  defects_C19 fstr (const_rules c) = [] /\
  validates P0 [] schema_fuel (translate reader12 fstr (const_rules c)) (JVStr c) = VOk true /\
  validates P0 [] schema_fuel (translate reader12 fstr (const_rules c)) (rd_plain reader12 c) = VOk (reads_as_string reader12 c) /\
  validates P0 [] schema_fuel (translate reader12 fstr (in_rules [c; s "x"])) (JVStr c) = VOk true /\
  validates P0 [] schema_fuel (translate reader12 fstr (in_rules [s "x"; c])) (rd_plain reader12 c) = VOk (reads_as_string reader12 c).

Example string_const_in_are_strings_examples :
  Forall const_in_ok [s "123"; s "true"; s "null"; s ""; s "1.5"; s "-7"; s "~"; s "fixed"] /\
  (* what an untagged node would have been read as: a number, a boolean, null - none of them is accepted any more *)
  map (rd_plain reader12) [s "123"; s "true"; s "null"; s ""] = [JVNum (dec_of_Z 123); JVBool true; JVNull; JVNull] /\
  map (reads_as_string reader12) [s "123"; s "true"; s "null"; s ""; s "fixed"] = [false; false; false; false; true].
Proof.
  split.
  - repeat (apply Forall_cons; [unfold const_in_ok; vm_compute; repeat split|]). apply Forall_nil.
  - vm_compute. split; reflexivity.
Qed.

(* ---- the theorem has content: a rule set in the good region that accepts some values and rejects others --- *)
Definition good_string_rules : rules :=
  {| r_required := true; r_min_len := Some 2%N; r_max_len := Some 5%N; r_len := None; r_pattern := Some (s "^a");
     r_str_in := [s "ab"; s "abc"; s "zzzzzzzz"]; r_str_not_in := []; r_str_const := None; r_well_known := Some (s "email");
     r_gt := None; r_gte := None; r_lt := None; r_lte := None; r_num_const := None; r_num_in := [];
     r_min_items := None; r_max_items := None; r_unique := false; r_min_pairs := None; r_max_pairs := None |}.
Definition good_int64_rules : rules :=
  {| r_required := false; r_min_len := None; r_max_len := None; r_len := None; r_pattern := None;
     r_str_in := []; r_str_not_in := []; r_str_const := None; r_well_known := None;
     r_gt := None; r_gte := ib (-5); r_lt := None; r_lte := ib 9007199254740992; r_num_const := None; r_num_in := [s "1"; s "-5"; s "7"];
     r_min_items := None; r_max_items := None; r_unique := false; r_min_pairs := None; r_max_pairs := None |}.
Definition good_list_rules : rules :=
  {| r_required := false; r_min_len := None; r_max_len := None; r_len := None; r_pattern := None;
     r_str_in := []; r_str_not_in := []; r_str_const := None; r_well_known := None;
     r_gt := None; r_gte := None; r_lt := None; r_lte := None; r_num_const := None; r_num_in := [];
     r_min_items := Some 1%N; r_max_items := Some 2%N; r_unique := true; r_min_pairs := None; r_max_pairs := None |}.

Example equiv_nonvacuous :
  (rule_kind KString = true /\ rules_wf good_string_rules = true /\ literals_ok good_string_rules = true /\
   defects_C19 (fsp KString Optional false) good_string_rules = [] /\
   sat P0 (fsp KString Optional false) good_string_rules (FOne (RStr (s "abc"))) = true /\
   sat P0 (fsp KString Optional false) good_string_rules (FOne (RStr (s "zzzzzzzz"))) = false) /\
  (defects_C19 (fsp KInt64 Singular true) good_int64_rules = [] /\ literals_ok good_int64_rules = true /\
   typed (fsp KInt64 Singular true) (FOne (RNum (dec_of_Z (-5)))) = true /\
   sat P0 (fsp KInt64 Singular true) good_int64_rules (FOne (RNum (dec_of_Z (-5)))) = true /\
   sat P0 (fsp KInt64 Singular true) good_int64_rules (FOne (RNum (dec_of_Z 2))) = false) /\
  (defects_C19 (fsp KInt64 Repeated false) good_list_rules = [] /\
   typed (fsp KInt64 Repeated false) (FList [RNum (dec_of_Z 3); RNum (dec_of_Z 3)]) = true /\
   sat P0 (fsp KInt64 Repeated false) good_list_rules (FList [RNum (dec_of_Z 3); RNum (dec_of_Z 4)]) = true /\
   sat P0 (fsp KInt64 Repeated false) good_list_rules (FList [RNum (dec_of_Z 3); RNum (dec_of_Z 3)]) = false).
Proof. repeat split; vm_compute; reflexivity. Qed.
