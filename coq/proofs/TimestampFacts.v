(* TimestampFacts.v — the timestamp_format codec (internal/httpgen/timestamp_format.go) in general:
   MarshalJSON   = protojson output with the value of every annotated, populated Timestamp field
                   replaced by Unix seconds / Unix millis / "YYYY-MM-DD";
   UnmarshalJSON = the same entries rewritten to an RFC 3339 text, then protojson.
   Both passes are folds over the fields that rewrite the entry keyed by the field's JSON name; with
   distinct JSON names a fold is a [map] over the entries ([gfold_map]), so the composition can be
   read entry by entry.  Hence the round trip (C04) modulo the documented truncation [norm], for
   every schema and every well-typed value — negative seconds included: the model's [/] and [mod]
   are floor division, which is what Go's Time.UnixMilli / time.UnixMilli compute after
   normalisation (sec = floor, 0 <= nsec < 1e9). *)
From Coq Require Import Lia ZArith.
From Sebuf Require Import CodecCases.
From SebufProofs Require Import TextFacts CodecTextFacts ProtoJsonFacts NullableFacts.

Open Scope Z_scope.

(* ---- lists of distinct strings ------------------------------------------------------------------------------ *)
Lemma nodup_str_NoDup (l : list str) : nodup_str l = true -> NoDup l.
Proof.
  induction l as [|x r IH]; intros Hn; [constructor|].
  constructor.
  - apply (nodup_head_notin x r Hn).
  - apply IH. simpl in Hn. apply andb_prop in Hn. apply Hn.
Qed.

Lemma existsb_false_in {A} (p : A -> bool) l a : existsb p l = false -> In a l -> p a = false.
Proof.
  intros Hex Hin. destruct (p a) eqn:Ep; [|reflexivity].
  assert (Ht : existsb p l = true) by (apply existsb_exists; exists a; split; assumption).
  congruence.
Qed.

Lemma lt_all_Z_in x l y : lt_all_Z x l = true -> In y l -> x < y.
Proof.
  induction l as [|z r IH]; simpl; [intros _ []|].
  intros Hl Hin. apply andb_prop in Hl. destruct Hl as [Hz Hr].
  destruct Hin as [Hin|Hin]; [subst z; apply Z.ltb_lt; exact Hz|apply IH; assumption].
Qed.

(* a value in field-number order names every field at most once *)
Lemma sorted_names_nodup md (m : mval) :
  sorted_Z (map (fun e => num_of md (fst e)) m) = true -> nodup_str (map fst m) = true.
Proof.
  induction m as [|[n0 x0] r IH]; simpl; [reflexivity|].
  intros Hs. apply andb_prop in Hs. destruct Hs as [Hlt Hr].
  rewrite (IH Hr), Bool.andb_true_r. apply Bool.negb_true_iff.
  destruct (existsb (str_eqb n0) (map fst r)) eqn:Hex; [|reflexivity]. exfalso.
  apply existsb_exists in Hex. destruct Hex as [n1 [Hin Heq]]. apply str_eqb_eq in Heq. subst n1.
  apply in_map_iff in Hin. destruct Hin as [[n1 x1] [Hn Hin]]. simpl in Hn. subst n1.
  assert (Hlt' : num_of md n0 < num_of md n0).
  { apply (lt_all_Z_in _ _ _ Hlt). apply in_map_iff. exists (n0, x1). split; [reflexivity|exact Hin]. }
  lia.
Qed.

Lemma mget_nodup (m : mval) name x :
  nodup_str (map fst m) = true -> In (name, x) m -> mget m name = Some x.
Proof.
  induction m as [|[n0 x0] r IH]; simpl; [intros _ []|].
  intros Hn Hin. apply andb_prop in Hn. destruct Hn as [Hhd Hr].
  destruct Hin as [Hin|Hin].
  - inversion Hin; subst. rewrite str_eqb_refl. reflexivity.
  - destruct (str_eqb name n0) eqn:Eq; [|apply IH; assumption]. exfalso.
    apply str_eqb_eq in Eq. subst n0. apply Bool.negb_true_iff in Hhd.
    assert (Ht : existsb (str_eqb name) (map fst r) = true).
    { apply existsb_exists. exists name. split; [|apply str_eqb_refl].
      apply in_map_iff. exists (name, x). split; [reflexivity|exact Hin]. }
    congruence.
Qed.

(* ---- raw maps with distinct keys ------------------------------------------------------------------------------ *)
Lemma raw_get_unique (raw : rawmap) k v e :
  NoDup (map fst raw) -> raw_get k raw = Some v -> In e raw -> fst e = k -> snd e = v.
Proof.
  unfold raw_get. induction raw as [|[k0 v0] r IH]; simpl; [intros _ Hg; discriminate Hg|].
  intros Hnd Hg Hin Hk. inversion Hnd as [|k0' r' Hnot Hnd']; subst k0' r'.
  destruct (str_eqb k k0) eqn:Ek.
  - apply str_eqb_eq in Ek. subst k0. inversion Hg; subst v0.
    destruct Hin as [Hin|Hin]; [subst e; reflexivity|].
    exfalso. apply Hnot. rewrite <- Hk. apply in_map. exact Hin.
  - destruct Hin as [Hin|Hin].
    + subst e. simpl in Hk. subst k0. rewrite str_eqb_refl in Ek. discriminate Ek.
    + apply IH; assumption.
Qed.

Lemma raw_get_none_key (raw : rawmap) k e : raw_get k raw = None -> In e raw -> fst e <> k.
Proof.
  unfold raw_get. induction raw as [|[k0 v0] r IH]; simpl; [intros _ []|].
  destruct (str_eqb k k0) eqn:Ek; [intros Hg; discriminate Hg|].
  intros Hg [Hin|Hin].
  - subst e. simpl. intros Hk. subst k0. rewrite str_eqb_refl in Ek. discriminate Ek.
  - apply IH; assumption.
Qed.

Lemma raw_get_has k (raw : rawmap) v : raw_get k raw = Some v -> raw_has k raw = true.
Proof.
  intros Hg. apply raw_has_keys. apply raw_get_in in Hg. apply (in_map fst) in Hg. exact Hg.
Qed.

Lemma raw_has_same_keys k (a b : rawmap) : map fst a = map fst b -> raw_has k a = raw_has k b.
Proof.
  intros Hk. destruct (raw_has k b) eqn:Hb.
  - apply raw_has_keys. rewrite Hk. apply raw_has_keys. exact Hb.
  - destruct (raw_has k a) eqn:Ha; [|reflexivity].
    apply raw_has_keys in Ha. rewrite Hk in Ha. apply raw_has_keys in Ha. congruence.
Qed.

(* ---- a fold of keyed rewrites over the fields is a map over the entries ---------------------------------- *)
Section Gfold.
Variable act : field -> json -> option json.

(* one field: look the entry up by the JSON name, replace its value if [act] says so *)
Definition gstep (raw : rawmap) (f : field) : rawmap :=
  match raw_get (jn f) raw with
  | Some v => match act f v with Some v' => raw_set (jn f) v' raw | None => raw end
  | None => raw
  end.

(* the same on one entry *)
Definition gent (f : field) (e : str * json) : str * json :=
  if str_eqb (fst e) (jn f) then match act f (snd e) with Some v' => (jn f, v') | None => e end else e.
Definition gall (fs : list field) (e : str * json) : str * json := fold_left (fun e f => gent f e) fs e.

Lemma gent_key f e : fst (gent f e) = fst e.
Proof.
  unfold gent. destruct (str_eqb (fst e) (jn f)) eqn:Ek; [|reflexivity].
  apply str_eqb_eq in Ek. destruct (act f (snd e)); [simpl; congruence|reflexivity].
Qed.
Lemma gent_keys f raw : map fst (map (gent f) raw) = map fst raw.
Proof. rewrite map_map. apply map_ext. intros e. apply gent_key. Qed.

Lemma gent_miss f e : fst e <> jn f -> gent f e = e.
Proof. intros Hk. unfold gent. apply str_eqb_neq in Hk. rewrite Hk. reflexivity. Qed.

Lemma gent_hit f k v v' : k = jn f -> act f v = Some v' -> gent f (k, v) = (k, v').
Proof. intros Hk Ha. unfold gent. simpl fst. simpl snd. rewrite Hk, str_eqb_refl, Ha. reflexivity. Qed.
Lemma gent_none f e : act f (snd e) = None -> gent f e = e.
Proof. intros Ha. unfold gent. rewrite Ha. destruct (str_eqb (fst e) (jn f)); reflexivity. Qed.

Lemma gstep_map raw f : NoDup (map fst raw) -> gstep raw f = map (gent f) raw.
Proof.
  intros Hnd. unfold gstep. destruct (raw_get (jn f) raw) as [v|] eqn:Hg.
  - destruct (act f v) as [v'|] eqn:Ha.
    + unfold raw_set. rewrite (raw_get_has _ _ _ Hg). apply map_ext_in. intros e Hin.
      unfold gent. destruct (str_eqb (fst e) (jn f)) eqn:Ek; [|reflexivity].
      apply str_eqb_eq in Ek. rewrite (raw_get_unique raw (jn f) v e Hnd Hg Hin Ek), Ha. reflexivity.
    + symmetry. rewrite <- (map_id raw) at 2. apply map_ext_in. intros e Hin.
      unfold gent. destruct (str_eqb (fst e) (jn f)) eqn:Ek; [|reflexivity].
      apply str_eqb_eq in Ek. rewrite (raw_get_unique raw (jn f) v e Hnd Hg Hin Ek), Ha. reflexivity.
  - symmetry. rewrite <- (map_id raw) at 2. apply map_ext_in. intros e Hin.
    apply gent_miss. exact (raw_get_none_key raw (jn f) e Hg Hin).
Qed.

Lemma gfold_map fs : forall raw, NoDup (map fst raw) -> fold_left gstep fs raw = map (gall fs) raw.
Proof.
  induction fs as [|f r IH]; intros raw Hnd; simpl.
  - symmetry. apply map_id.
  - rewrite (gstep_map raw f Hnd). rewrite IH by (rewrite gent_keys; exact Hnd).
    rewrite map_map. reflexivity.
Qed.

Lemma gall_key fs : forall e, fst (gall fs e) = fst e.
Proof.
  induction fs as [|f r IH]; intros e; simpl; [reflexivity|].
  unfold gall in IH. rewrite IH. apply gent_key.
Qed.

Lemma gall_keys fs raw : map fst (map (gall fs) raw) = map fst raw.
Proof. rewrite map_map. apply map_ext. intros e. apply gall_key. Qed.

Lemma gall_miss fs : forall e, (forall f, In f fs -> fst e <> jn f) -> gall fs e = e.
Proof.
  induction fs as [|f r IH]; intros e Hno; simpl; [reflexivity|].
  rewrite (gent_miss f e (Hno f (or_introl eq_refl))). apply IH. intros g Hg. apply Hno. right. exact Hg.
Qed.

(* with distinct JSON names only the entry's own field acts on it *)
Lemma gall_at fs : forall g e,
  nodup_str (map jn fs) = true -> In g fs -> fst e = jn g -> gall fs e = gent g e.
Proof.
  induction fs as [|f r IH]; intros g e Hnd Hin Hk; [destruct Hin|].
  pose proof (nodup_head_notin (jn f) (map jn r) Hnd) as Hhd.
  assert (Hnd' : nodup_str (map jn r) = true) by (simpl in Hnd; apply andb_prop in Hnd; apply Hnd).
  simpl. destruct Hin as [Hin|Hin].
  - subst g. apply gall_miss. intros h Hh. rewrite gent_key, Hk. intros Heq.
    apply Hhd. rewrite Heq. apply in_map. exact Hh.
  - rewrite (gent_miss f e).
    + apply IH; assumption.
    + rewrite Hk. intros Heq. apply Hhd. rewrite <- Heq. apply in_map. exact Hin.
Qed.
Lemma gall_at_kv fs g k v :
  nodup_str (map jn fs) = true -> In g fs -> k = jn g -> gall fs (k, v) = gent g (k, v).
Proof. intros Hnd Hin Hk. apply gall_at; assumption. Qed.
End Gfold.

(* ---- range arithmetic ------------------------------------------------------------------------------------------ *)
Lemma ts_in_range_spec a b :
  ts_in_range a b = true <-> (-62135596800 <= a <= 253402300799 /\ 0 <= b <= 999999999).
Proof.
  unfold ts_in_range, ts_min_sec, ts_max_sec. rewrite !Bool.andb_true_iff, !Z.leb_le. lia.
Qed.

Lemma in_i64 z : -9223372036854775808 <= z <= 9223372036854775807 -> in_int_range KInt64 z = true.
Proof.
  intros Hz. unfold in_int_range.
  assert (Hlo : int_lo KInt64 = -9223372036854775808) by reflexivity.
  assert (Hhi : int_hi KInt64 = 9223372036854775807) by reflexivity.
  rewrite Hlo, Hhi. apply andb_true_intro. split; apply Z.leb_le; lia.
Qed.

Lemma millis_split sec nanos :
  0 <= nanos <= 999999999 ->
  let n := sec * 1000 + nanos / 1000000 in
  n / 1000 = sec /\ (n mod 1000) * 1000000 = (nanos / 1000000) * 1000000 /\ 0 <= nanos / 1000000 <= 999.
Proof.
  intros Hn. cbv zeta.
  assert (Hq : 0 <= nanos / 1000000 < 1000).
  { split; [apply Z.div_pos; lia|apply Z.div_lt_upper_bound; lia]. }
  assert (Heq : sec * 1000 + nanos / 1000000 = 1000 * sec + nanos / 1000000) by lia.
  split; [|split].
  - symmetry. apply (Z.div_unique_pos _ 1000 sec (nanos / 1000000) Hq Heq).
  - f_equal. symmetry. apply (Z.mod_unique_pos _ 1000 sec (nanos / 1000000) Hq Heq).
  - lia.
Qed.

Lemma day_floor_range sec :
  -62135596800 <= sec <= 253402300799 -> -62135596800 <= day_floor sec <= 253402300799.
Proof.
  intros Hs. unfold day_floor.
  pose proof (Z.mod_pos_bound sec 86400 ltac:(lia)) as Hm.
  pose proof (Z.div_mod sec 86400 ltac:(lia)) as Hd.
  assert (Hq : -719162 <= sec / 86400) by (apply Z.div_le_lower_bound; lia).
  lia.
Qed.

(* ---- what owning exactly the timestamp codec says about the other annotations ------------------------- *)
Lemma own_ts_inv sc md : owner_of sc md = Own FtTs ->
  is_root_unwrap md = false /\
  existsb is_nullable (m_fields md) = false /\
  existsb (fun f => match empty_of f with Some _ => true | None => false end) (m_fields md) = false /\
  existsb is_flatten (m_fields md) = false /\
  existsb oneof_cfg (m_oneofs md) = false.
Proof.
  unfold owner_of, features.
  destruct (is_root_unwrap md);
  destruct (existsb (fun f => match value_unwrap sc f with Some _ => true | None => false end) (m_fields md));
  destruct (existsb is_number_i64 (m_fields md));
  destruct (existsb is_nullable (m_fields md));
  destruct (existsb (fun f => match empty_of f with Some _ => true | None => false end) (m_fields md));
  destruct (existsb (fun f => match tsfmt_of f with Some _ => true | None => false end) (m_fields md));
  destruct (existsb (fun f => match bytesenc_of f with Some _ => true | None => false end) (m_fields md));
  destruct (existsb is_flatten (m_fields md));
  destruct (existsb oneof_cfg (m_oneofs md));
  simpl; intros Hown; try discriminate Hown; repeat split; reflexivity.
Qed.

Lemma tsfmt_of_inv f fmt : tsfmt_of f = Some fmt ->
  f_kind f = KMessage ts_name /\ is_map f = false /\ f_tsfmt f = Some fmt /\
  (fmt = TFUnixSeconds \/ fmt = TFUnixMillis \/ fmt = TFDate).
Proof.
  unfold tsfmt_of. destruct (is_timestamp (f_kind f)) eqn:Hk; [|intros H; discriminate H].
  destruct (is_map f); simpl; [intros H; discriminate H|].
  assert (Hkind : f_kind f = KMessage ts_name).
  { unfold is_timestamp in Hk. destruct (f_kind f) as [| | | | | | | | | | | | | | | tn0 | tn]; try discriminate Hk.
    apply str_eqb_eq in Hk. subst tn. reflexivity. }
  destruct (f_tsfmt f) as [[| | | |]|]; intros H; inversion H; subst; repeat split; auto.
Qed.

(* ---- the two passes as keyed rewrites ---------------------------------------------------------------------- *)
Section Passes.
Variable E : ExtLib.
Variable md : message.
Variable m : mval.

Definition ts_enc_val (fmt : ts_fmt) (tm : mval) : option json :=
  let sec := mget_int tm (s "seconds") in
  let nanos := mget_int tm (s "nanos") in
  match fmt with
  | TFUnixSeconds => Some (JNum sec)
  | TFUnixMillis => Some (JNum (sec * 1000 + nanos / 1000000))
  | TFDate => Some (JStr (x_date_text E sec))
  | _ => None
  end.
Definition act_enc (f : field) (_ : json) : option json :=
  match tsfmt_of f, mget m (f_name f) with
  | Some fmt, Some (FM tm) => ts_enc_val fmt tm
  | _, _ => None
  end.
Definition act_dec (f : field) (v : json) : option json :=
  match tsfmt_of f with
  | Some TFUnixSeconds =>
      match go_int KInt64 v with Some n => Some (nano_text_or_bad E n 0) | None => None end
  | Some TFUnixMillis =>
      match go_int KInt64 v with
      | Some n => Some (nano_text_or_bad E (n / 1000) ((n mod 1000) * 1000000))
      | None => None
      end
  | Some TFDate =>
      match v with
      | JStr x => match x_date_parse E x with Some sec => Some (nano_text_or_bad E sec 0) | None => None end
      | _ => None
      end
  | _ => None
  end.

Definition enc_ts_step (raw : rawmap) (f : field) : rawmap :=
  match tsfmt_of f, mget m (f_name f) with
  | Some fmt, Some (FM tm) =>
      let sec := mget_int tm (s "seconds") in
      let nanos := mget_int tm (s "nanos") in
      match fmt with
      | TFUnixSeconds => raw_set (jn f) (JNum sec) raw
      | TFUnixMillis => raw_set (jn f) (JNum (sec * 1000 + nanos / 1000000)) raw
      | TFDate => raw_set (jn f) (JStr (x_date_text E sec)) raw
      | _ => raw
      end
  | _, _ => raw
  end.
Definition dec_ts_step (raw : rawmap) (f : field) : rawmap :=
  match tsfmt_of f, raw_get (jn f) raw with
  | Some TFUnixSeconds, Some v =>
      match go_int KInt64 v with Some n => raw_set (jn f) (nano_text_or_bad E n 0) raw | None => raw end
  | Some TFUnixMillis, Some v =>
      match go_int KInt64 v with
      | Some n => raw_set (jn f) (nano_text_or_bad E (n / 1000) ((n mod 1000) * 1000000)) raw
      | None => raw
      end
  | Some TFDate, Some (JStr x) =>
      match x_date_parse E x with Some sec => raw_set (jn f) (nano_text_or_bad E sec 0) raw | None => raw end
  | _, _ => raw
  end.

Lemma enc_ts_fold raw : enc_ts E md m raw = fold_left enc_ts_step (m_fields md) raw.
Proof. reflexivity. Qed.
Lemma dec_ts_fold raw : dec_ts E md raw = fold_left dec_ts_step (m_fields md) raw.
Proof. reflexivity. Qed.

Lemma dec_ts_step_gstep raw f : dec_ts_step raw f = gstep act_dec raw f.
Proof.
  unfold dec_ts_step, gstep, act_dec.
  destruct (tsfmt_of f) as [[| | | |]|]; destruct (raw_get (jn f) raw) as [v|]; try reflexivity.
  - destruct (go_int KInt64 v); reflexivity.
  - destruct (go_int KInt64 v); reflexivity.
  - destruct v; try reflexivity. destruct (x_date_parse E x); reflexivity.
Qed.

Lemma enc_ts_step_gstep raw f :
  (mget m (f_name f) <> None -> raw_has (jn f) raw = true) -> enc_ts_step raw f = gstep act_enc raw f.
Proof.
  intros Hhas. unfold enc_ts_step, gstep, act_enc.
  destruct (tsfmt_of f) as [fmt|]; [|destruct (raw_get (jn f) raw); reflexivity].
  destruct (mget m (f_name f)) as [[sx|tm|l|kv]|] eqn:Hg;
    try (destruct (raw_get (jn f) raw); reflexivity).
  assert (Hh : raw_has (jn f) raw = true) by (apply Hhas; discriminate).
  destruct (raw_has_get _ _ Hh) as [v Hv]. rewrite Hv.
  destruct fmt; reflexivity.
Qed.

Lemma dec_ts_map raw : NoDup (map fst raw) -> dec_ts E md raw = map (gall act_dec (m_fields md)) raw.
Proof.
  intros Hnd. rewrite dec_ts_fold, <- (gfold_map act_dec (m_fields md) raw Hnd).
  generalize raw. induction (m_fields md) as [|f r IH]; intros raw0; simpl; [reflexivity|].
  rewrite dec_ts_step_gstep. apply IH.
Qed.

Lemma enc_ts_map raw :
  NoDup (map fst raw) ->
  (forall f, In f (m_fields md) -> mget m (f_name f) <> None -> raw_has (jn f) raw = true) ->
  enc_ts E md m raw = map (gall act_enc (m_fields md)) raw.
Proof.
  intros Hnd Hhas. rewrite enc_ts_fold, <- (gfold_map act_enc (m_fields md) raw Hnd).
  revert raw Hnd Hhas. induction (m_fields md) as [|f r IH]; intros raw Hnd Hhas; simpl; [reflexivity|].
  rewrite (enc_ts_step_gstep raw f (Hhas f (or_introl eq_refl))).
  assert (Hkeys : map fst (gstep act_enc raw f) = map fst raw).
  { rewrite (gstep_map act_enc raw f Hnd). apply gent_keys. }
  apply IH.
  - rewrite Hkeys. exact Hnd.
  - intros g Hg Hne. rewrite (raw_has_same_keys (jn g) _ raw Hkeys). apply Hhas; [right; exact Hg|exact Hne].
Qed.
End Passes.

(* ---- decoding an object entry by entry --------------------------------------------------------------------- *)
Section Entries.
Variable E : ExtLib.
Variable sc : schema.

(* the JSON entry decodes to the value entry *)
Definition ent_ok (md : message) (e : str * fval) (e' : str * json) : Prop :=
  exists g, find_field (m_fields md) (fst e) = Some g /\ fst e' = json_name (fst e) /\
            u_value E sc g (snd e') = ROk (Some (snd e)) /\ populated g (snd e) = true.

Lemma u_fields_entries md m es :
  msg_ok md = true -> Forall2 (ent_ok md) m es ->
  exists fvs, u_fields E sc md es = ROk fvs /\ Forall2 (rel md) m fvs /\
              flat_map (fun e => match field_of_key md (fst e) with Some f => [(f, snd e)] | None => [] end) es
              = map (fun p => (fst (fst p), snd p)) (combine fvs (map snd es)) /\
              List.length es = List.length fvs.
Proof.
  intros Hok HF. induction HF as [|[name x] [k j] r r' Hhd _ IH].
  - exists []. repeat split; constructor.
  - destruct Hhd as [g [Hg [Hk [Hu Hpop]]]]. simpl in Hg, Hk, Hu, Hpop. subst k.
    destruct IH as [fvs [Hfs [Hrel [Hfm Hlen]]]].
    destruct (msg_ok_key md name g Hok Hg) as [Hkey _].
    exists ((g, x) :: fvs). repeat split.
    + simpl. rewrite Hkey, Hu. simpl. rewrite Hfs. reflexivity.
    + constructor; [|exact Hrel]. unfold rel. simpl. auto.
    + simpl. rewrite Hkey. simpl. rewrite Hfm. reflexivity.
    + simpl. rewrite Hlen. reflexivity.
Qed.

Lemma pj_un_entries tn md m es :
  str_eqb tn ts_name = false -> is_wkt_other tn = false ->
  find_message (all_messages sc) tn = Some md -> msg_ok md = true ->
  sorted_Z (map (fun e => num_of md (fst e)) m) = true ->
  Forall2 (ent_ok md) m es ->
  pj_un E sc (KMessage tn) (JObj es) = ROk (FM m).
Proof.
  intros Hts Hwk Hfm Hok Hsorted HF.
  rewrite (pj_un_msg E sc tn (JObj es) Hts Hwk), Hfm.
  destruct (u_fields_entries md m es Hok HF) as [fvs [Hu [Hrel [Hflat Hlen]]]].
  assert (Hdup : dup_check md es = false).
  { unfold dup_check. rewrite Hflat. rewrite map_map. simpl.
    assert (Hn : map (fun x => f_number (fst (fst x))) (combine fvs (map snd es)) = map (fun fv => f_number (fst fv)) fvs).
    { apply (combine_fst_map (fun fv : field * fval => f_number (fst fv))). rewrite map_length. symmetry. exact Hlen. }
    rewrite Hn, (rel_nums md m fvs Hrel), (sorted_no_dup _ Hsorted). simpl.
    rewrite no_oneof_marks; [reflexivity|].
    apply Forall_map. simpl.
    apply (Forall_combine_fst (fun fv : field * fval => f_oneof (fst fv) = None)).
    exact (rel_oneof md m fvs Hok Hrel). }
  rewrite Hdup, Hu. simpl.
  rewrite assemble_canon.
  - rewrite (rel_names md m fvs Hrel). reflexivity.
  - rewrite (rel_nums md m fvs Hrel). exact Hsorted.
  - exact (rel_pop md m fvs Hrel).
Qed.

(* what protojson.Marshal wrote, entry by entry *)
Definition ent_enc (md : message) (e : str * fval) (e' : str * json) : Prop :=
  exists g, find_field (m_fields md) (fst e) = Some g /\ fst e' = json_name (fst e) /\
            pj_fval E sc (f_kind g) (snd e) = ROk (snd e').

Lemma m_msg_entries md m es : m_msg E sc md m = ROk es -> Forall2 (ent_enc md) m es.
Proof.
  revert es. induction m as [|[name x] r IH]; intros es Hm; simpl in Hm.
  - inversion Hm. constructor.
  - destruct (find_field (m_fields md) name) as [g|] eqn:Hg; [|discriminate Hm].
    apply rbind_ok in Hm. destruct Hm as [j [Hj Hm]]. apply rbind_ok in Hm. destruct Hm as [t [Ht Hm]].
    inversion Hm; subst es. constructor; [|apply IH; exact Ht].
    exists g. simpl. auto.
Qed.

Lemma wt_fields_in md (m : mval) name x :
  wt_fields sc md m = true -> In (name, x) m ->
  exists g, find_field (m_fields md) name = Some g /\ wt_entry sc g x = true.
Proof.
  induction m as [|[n0 x0] r IH]; simpl; [intros _ []|].
  destruct (find_field (m_fields md) n0) as [g0|] eqn:Hg0; [|intros H; discriminate H].
  intros Hw Hin. apply andb_prop in Hw. destruct Hw as [Hw0 Hwr].
  destruct Hin as [Hin|Hin].
  - inversion Hin; subst. exists g0. auto.
  - apply IH; assumption.
Qed.
End Entries.

Lemma Forall2_map_in {A B C D} (P : A -> B -> Prop) (Q : C -> D -> Prop) (fa : A -> C) (fb : B -> D) l1 l2 :
  Forall2 P l1 l2 -> (forall a b, In a l1 -> P a b -> Q (fa a) (fb b)) -> Forall2 Q (map fa l1) (map fb l2).
Proof.
  intros HF. induction HF as [|a b r r' Hab _ IH]; intros Himp; simpl; constructor.
  - apply Himp; [left; reflexivity|exact Hab].
  - apply IH. intros a' b' Hin. apply Himp. right. exact Hin.
Qed.

(* the keys protojson wrote are distinct *)
Lemma json_keys_nodup md (m : mval) :
  nodup_str (map jn (m_fields md)) = true -> nodup_str (map fst m) = true ->
  forallb (fun e => match find_field (m_fields md) (fst e) with Some _ => true | None => false end) m = true ->
  NoDup (map (fun e => json_name (fst e)) m).
Proof.
  intros Hjn. induction m as [|[n0 x0] r IH]; simpl; intros Hnd Hdecl; constructor.
  - intros Hin. apply in_map_iff in Hin. destruct Hin as [[n1 x1] [Heq Hin]]. simpl in Heq.
    apply andb_prop in Hdecl. destruct Hdecl as [Hd0 Hdr].
    destruct (find_field (m_fields md) n0) as [g0|] eqn:Hg0; [|discriminate Hd0].
    rewrite forallb_forall in Hdr. specialize (Hdr _ Hin). simpl in Hdr.
    destruct (find_field (m_fields md) n1) as [g1|] eqn:Hg1; [|discriminate Hdr].
    destruct (find_field_spec _ _ _ Hg0) as [Hin0 Hn0]. destruct (find_field_spec _ _ _ Hg1) as [Hin1 Hn1].
    assert (Hgg : g1 = g0).
    { apply (nodup_jn_inj (m_fields md) g1 g0 Hjn Hin1 Hin0). unfold jn. rewrite Hn0, Hn1. exact Heq. }
    subst g1. assert (Hnn : n1 = n0) by congruence. rewrite Hnn in Hin.
    apply (nodup_head_notin n0 (map fst r) Hnd). apply in_map_iff. exists (n0, x1). split; [reflexivity|exact Hin].
  - apply andb_prop in Hnd. apply andb_prop in Hdecl. apply IH; [apply Hnd|apply Hdecl].
Qed.

(* ---- the codec of a timestamp_format-owning message, unfolded ------------------------------------------- *)
Section Codec.
Variable E : ExtLib.
Hypothesis EL : ExtLaws E.
Variable sc : schema.

Lemma kids_ts md m :
  forallb (fun e => match find_field (m_fields md) (fst e) with Some _ => true | None => false end) m = true ->
  kids_loop E sc FtTs md m = ROk [].
Proof.
  induction m as [|[name x] r IH]; simpl; [reflexivity|].
  destruct (find_field (m_fields md) name); [|discriminate]. simpl. exact IH.
Qed.

Lemma gj_un_ts n tn md raw :
  is_wkt_other tn = false -> lookup_message sc tn = Some md -> owner_of sc md = Own FtTs ->
  buildable sc FtTs md = true ->
  gj_un E sc (S n) (KMessage tn) (JObj raw) =
  pj_un E sc (KMessage tn) (JObj (dec_ts E md raw)) >>= (fun v => ROk (Some v)).
Proof.
  intros H1 H2 H3 H4. cbn [gj_un]. rewrite H1, H2, H3. cbv iota. rewrite H4. reflexivity.
Qed.

(* the documented truncation of one field *)
Definition normv (g : field) (v : fval) : fval :=
  match tsfmt_of g with Some fmt => trunc_ts fmt v | None => v end.
Definition norm_entry (md : message) (e : str * fval) : str * fval :=
  match find_field (m_fields md) (fst e) with Some g => (fst e, normv g (snd e)) | None => e end.

Lemma norm_fields_map md (m : mval) :
  (forall f, In f (m_fields md) -> empty_of f = None) -> norm_fields md m = map (norm_entry md) m.
Proof.
  intros Hem. unfold norm_fields. induction m as [|[name x] r IH]; [reflexivity|].
  simpl. rewrite IH. unfold norm_entry at 2. simpl.
  destruct (find_field (m_fields md) name) as [g|] eqn:Hg; [|reflexivity].
  rewrite (Hem g (proj1 (find_field_spec _ _ _ Hg))). unfold normv.
  destruct (tsfmt_of g); reflexivity.
Qed.

Lemma nano_back sec n (f : field) :
  ts_in_range sec n = true -> f_kind f = KMessage ts_name -> f_card f = Singular ->
  u_value E sc f (nano_text_or_bad E sec n) = ROk (Some (ts_value sec n)).
Proof.
  intros Hr Hk Hc. unfold nano_text_or_bad. rewrite Hr. unfold u_value. rewrite Hc, Hk, pj_un_ts.
  unfold ts_of_json. rewrite (law_nano E EL _ _ Hr), Hr. reflexivity.
Qed.

(* one annotated entry through MarshalJSON's rewrite, UnmarshalJSON's rewrite and protojson *)
Lemma ts_entry_back (g : field) fmt tm v' :
  tsfmt_of g = Some fmt -> f_card g = Singular -> ts_ok tm = true ->
  ts_enc_val E fmt tm = Some v' ->
  exists v'', act_dec E g v' = Some v'' /\
              u_value E sc g v'' = ROk (Some (trunc_ts fmt (FM tm))).
Proof.
  intros Hfmt Hcard Hok Henc.
  destruct (tsfmt_of_inv g fmt Hfmt) as [Hkind [_ [_ Hcases]]].
  destruct (ts_ok_canon tm Hok) as [Hrange _].
  unfold act_dec. rewrite Hfmt. unfold ts_enc_val in Henc. unfold trunc_ts.
  remember (mget_int tm (s "seconds")) as sec eqn:Hsec.
  remember (mget_int tm (s "nanos")) as nanos eqn:Hnanos.
  cbv zeta in Henc. cbv zeta.
  apply ts_in_range_spec in Hrange. destruct Hrange as [Hs Hn].
  destruct Hcases as [Hc|[Hc|Hc]]; subst fmt; inversion Henc; subst v'.
  - (* UNIX_SECONDS *)
    assert (Hi : go_int KInt64 (JNum sec) = Some sec).
    { unfold go_int. rewrite in_i64 by lia. reflexivity. }
    rewrite Hi. eexists. split; [reflexivity|].
    apply nano_back; [apply ts_in_range_spec; lia|exact Hkind|exact Hcard].
  - (* UNIX_MILLIS *)
    destruct (millis_split sec nanos Hn) as [Hdiv [Hmod Hq]].
    assert (Hi : go_int KInt64 (JNum (sec * 1000 + nanos / 1000000)) = Some (sec * 1000 + nanos / 1000000)).
    { unfold go_int. rewrite in_i64 by lia. reflexivity. }
    rewrite Hi. eexists. split; [reflexivity|].
    rewrite Hdiv, Hmod.
    apply nano_back; [apply ts_in_range_spec; lia|exact Hkind|exact Hcard].
  - (* DATE *)
    assert (Hr0 : ts_in_range sec 0 = true) by (apply ts_in_range_spec; lia).
    rewrite (law_date E EL sec Hr0). eexists. split; [reflexivity|].
    pose proof (day_floor_range sec Hs) as Hdf.
    apply nano_back; [apply ts_in_range_spec; lia|exact Hkind|exact Hcard].
Qed.

(* C04 for the timestamp_format codec, all schemas, all well-typed values *)
Theorem ts_roundtrip : forall tn md m j,
  str_eqb tn ts_name = false -> is_wkt_other tn = false ->
  find_message (all_messages sc) tn = Some md -> owner_of sc md = Own FtTs ->
  buildable sc FtTs md = true ->
  nodup_str (map jn (m_fields md)) = true ->
  wt sc (KMessage tn) (FM m) = true ->
  encode E sc tn m = ROk j -> decode E sc tn j = ROk (norm sc tn m).
Proof.
  intros tn md m j Hts Hwk Hfm Hown Hb Hnd Hwt Henc.
  assert (Hlk : lookup_message sc tn = Some md) by (unfold lookup_message; rewrite Hts; exact Hfm).
  assert (Howns : owns sc tn = true) by (unfold owns; rewrite Hlk, Hown; reflexivity).
  destruct (own_ts_inv sc md Hown) as [_ [_ [Hempty _]]].
  assert (Hem : forall f, In f (m_fields md) -> empty_of f = None).
  { intros f Hin. pose proof (existsb_false_in _ _ f Hempty Hin) as He. simpl in He.
    destruct (empty_of f); [discriminate He|reflexivity]. }
  assert (Hnorm : norm sc tn m = map (norm_entry md) m).
  { unfold norm. rewrite Hlk, Hown. apply norm_fields_map. exact Hem. }
  rewrite Hnorm.
  (* the value *)
  rewrite wt_FM, Hts, Hwk, Hfm in Hwt. simpl negb in Hwt. rewrite Bool.andb_true_l in Hwt.
  apply andb_prop in Hwt. destruct Hwt as [Hwt Hwf]. apply andb_prop in Hwt. destruct Hwt as [Hok Hsorted].
  pose proof (sorted_names_nodup md m Hsorted) as Hnames.
  (* the encoder *)
  unfold encode in Henc. rewrite Howns in Henc.
  rewrite (gj_fval_owned E sc tn md FtTs m Hwk Hlk Hown) in Henc.
  apply rbind_ok in Henc. destruct Henc as [ks [Hks Henc]].
  unfold codec_body in Henc. rewrite Hb in Henc. simpl negb in Henc. cbv iota in Henc.
  apply rbind_ok in Henc. destruct Henc as [raw [Hraw Henc]].
  apply rbind_ok in Hraw. destruct Hraw as [j0 [Hpj Hobj]].
  unfold pj_marshal in Hpj. rewrite pj_fval_FM, Hts, Hwk, Hfm in Hpj.
  apply rbind_ok in Hpj. destruct Hpj as [es [Hes Hj0]]. inversion Hj0; subst j0.
  simpl in Hobj. inversion Hobj; subst raw. inversion Henc; subst j. clear Hobj Henc Hj0.
  pose proof (m_msg_keys E sc md m es Hes) as Hkeys.
  pose proof (m_msg_declared E sc md m es Hes) as Hdecl.
  assert (Hndk : NoDup (map fst es)).
  { rewrite Hkeys. apply (json_keys_nodup md m Hnd Hnames Hdecl). }
  assert (Hhas : forall f, In f (m_fields md) -> mget m (f_name f) <> None -> raw_has (jn f) es = true).
  { intros f _ Hne. apply raw_has_keys. rewrite Hkeys.
    destruct (mget m (f_name f)) as [v|] eqn:Hg; [|exfalso; apply Hne; reflexivity].
    apply mget_some_in in Hg. apply in_map_iff in Hg. destruct Hg as [[n x] [Hn Hin]]. simpl in Hn. subst n.
    apply in_map_iff. exists (f_name f, x). split; [reflexivity|exact Hin]. }
  rewrite (enc_ts_map E md m es Hndk Hhas).
  (* the decoder *)
  unfold decode. rewrite Howns. cbv beta iota.
  rewrite (gj_un_ts _ tn md _ Hwk Hlk Hown Hb).
  rewrite dec_ts_map by (rewrite gall_keys; exact Hndk).
  rewrite map_map.
  assert (Hrt : pj_un E sc (KMessage tn) (JObj (map (fun e => gall (act_dec E) (m_fields md) (gall (act_enc E m) (m_fields md) e)) es))
                = ROk (FM (map (norm_entry md) m))).
  { apply (pj_un_entries E sc tn md _ _ Hts Hwk Hfm Hok).
    - rewrite map_map.
      assert (Hsame : map (fun x => num_of md (fst (norm_entry md x))) m = map (fun e => num_of md (fst e)) m).
      { apply map_ext. intros [n x]. unfold norm_entry. simpl. destruct (find_field (m_fields md) n); reflexivity. }
      rewrite Hsame. exact Hsorted.
    - apply (Forall2_map_in (ent_enc E sc md) (ent_ok E sc md) (norm_entry md) _ m es (m_msg_entries E sc md m es Hes)).
      intros [name x] [k jx] Hin [g [Hg [Hk Hpj]]]. simpl in Hg, Hk, Hpj. subst k.
      destruct (wt_fields_in sc md m name x Hwf Hin) as [g' [Hg' Hwe]].
      assert (g' = g) by congruence. subst g'.
      destruct (find_field_spec _ _ _ Hg) as [Hing Hname].
      assert (Hjn : json_name name = jn g) by (unfold jn; rewrite Hname; reflexivity).
      pose proof (mget_nodup m name x Hnames Hin) as Hmget.
      rewrite (gall_at (act_enc E m) (m_fields md) g (json_name name, jx) Hnd Hing Hjn).
      rewrite (gall_at (act_dec E) (m_fields md) g _ Hnd Hing) by (rewrite gent_key; exact Hjn).
      assert (Hne : norm_entry md (name, x) = (name, normv g x)).
      { unfold norm_entry. simpl fst. simpl snd. rewrite Hg. reflexivity. }
      rewrite Hne. unfold ent_ok. exists g. simpl fst. simpl snd.
      split; [exact Hg|]. unfold normv.
      destruct (tsfmt_of g) as [fmt|] eqn:Hfmt.
      + (* an annotated Timestamp field *)
        destruct (tsfmt_of_inv g fmt Hfmt) as [Hkind _].
        assert (Hps : plain_singular g = true).
        { unfold buildable in Hb. rewrite forallb_forall in Hb. specialize (Hb g Hing). rewrite Hfmt in Hb. exact Hb. }
        assert (Hcard : f_card g = Singular).
        { unfold plain_singular in Hps. destruct (f_card g); try discriminate Hps. reflexivity. }
        assert (Hshape : exists tm, x = FM tm /\ ts_ok tm = true).
        { unfold wt_entry in Hwe. rewrite Hcard, Hkind in Hwe. destruct x as [sx|tm|l|kv]; [discriminate Hwe| |discriminate Hwe|discriminate Hwe].
          exists tm. split; [reflexivity|]. rewrite wt_FM, str_eqb_refl in Hwe. exact Hwe. }
        destruct Hshape as [tm [Hx Htm]]. subst x.
        assert (Hae : exists v', act_enc E m g jx = Some v' /\ ts_enc_val E fmt tm = Some v').
        { unfold act_enc. rewrite Hfmt, Hname, Hmget.
          destruct (tsfmt_of_inv g fmt Hfmt) as [_ [_ [_ [Hc|[Hc|Hc]]]]]; subst fmt; eexists; split; reflexivity. }
        destruct Hae as [v' [Hae Hv']].
        destruct (ts_entry_back g fmt tm v' Hfmt Hcard Htm Hv') as [v'' [Hdec Hback]].
        rewrite (gent_hit (act_enc E m) g (json_name name) jx v' Hjn Hae).
        rewrite (gent_hit (act_dec E) g (json_name name) v' v'' Hjn Hdec). simpl fst. simpl snd.
        split; [reflexivity|]. split; [exact Hback|].
        unfold trunc_ts. destruct (tsfmt_of_inv g fmt Hfmt) as [_ [_ [_ [Hc|[Hc|Hc]]]]]; subst fmt; reflexivity.
      + (* any other field: untouched by both passes *)
        assert (Hae : act_enc E m g jx = None) by (unfold act_enc; rewrite Hfmt; reflexivity).
        assert (Had : act_dec E g jx = None) by (unfold act_dec; rewrite Hfmt; reflexivity).
        rewrite (gent_none (act_enc E m) g (json_name name, jx) Hae).
        rewrite (gent_none (act_dec E) g (json_name name, jx) Had). simpl fst. simpl snd.
        split; [reflexivity|].
        apply (entry_rt E EL sc g x jx (pj_roundtrip_fval E EL sc x) Hwe Hpj). }
  rewrite Hrt. reflexivity.
Qed.
End Codec.
Close Scope Z_scope.
