(* OpenApiExamples.v — concrete schemas: a non-trivial one in the good region of C18, and one witness
   per defect class, all evaluated by vm_compute. *)
From Sebuf Require Import JsonSchema Yaml Rules Route OpenApi OasCheck.
From SebufProofs Require Import JsonSchemaFacts OpenApiFacts.
Local Open Scope string_scope.
Local Open Scope list_scope.

Definition fld (name : string) (num : Z) (k : kind) (c : card) : field := plain_field (s name) num k c.
Definition qfld (name : string) (num : Z) (k : kind) (q : string) : field :=
  {| f_name := s name; f_number := num; f_kind := k; f_card := Singular; f_oneof := None;
     f_query := Some {| q_name := s q; q_required := false |}; f_unwrap := false;
     f_int64 := None; f_enumenc := None; f_nullable := None; f_empty := None; f_tsfmt := None; f_bytesenc := None;
     f_oneof_value := None; f_flatten := None; f_flatten_prefix := None |}.
Definition msg (fq : string) (path : list string) (fs : list field) : message :=
  {| m_name := s fq; m_path := map s path; m_fields := fs; m_oneofs := [] |}.
Definition rpc (name inp out path : string) (v : nat) : method :=
  {| md_name := s name; md_in := s inp; md_out := s out; md_has_cfg := true; md_path := s path; md_verb := Some v; md_headers := [] |}.
Definition svc (name base : string) (hs : list header) (ms : list method) : service :=
  {| sv_name := s name; sv_base := s base; sv_headers := hs; sv_methods := ms |}.
Definition file1 (ms : list message) (ss : list service) : schema :=
  [{| fl_path := s "a.proto"; fl_package := s "a"; fl_gopkg := s "a"; fl_generate := true;
      fl_messages := ms; fl_enums := []; fl_services := ss |}].
Definition hdr (name : string) (req : bool) : header := {| h_name := s name; h_type := s "string"; h_required := req; h_format := [] |}.

(* ---- a well-formed example: nested and recursive types, a map, a path variable, a query
   parameter, headers on service and method, two RPCs ------------------------------------------------ *)
Definition good_messages : list message :=
  [ msg "a.Tree" ["Tree"] [fld "label" 1 KString Singular; fld "kids" 2 (KMessage (s "a.Tree")) Repeated;
                           fld "leaf" 3 (KMessage (s "a.Tree.Leaf")) Singular; fld "attrs" 4 KString (MapOf KString)];
    msg "a.Tree.Leaf" ["Tree"; "Leaf"] [fld "weight" 1 KDouble Singular];
    msg "a.GetReq" ["GetReq"] [fld "id" 1 KString Singular; qfld "depth" 2 KInt32 "depth"];
    msg "a.PutReq" ["PutReq"] [fld "id" 1 KString Singular; fld "tree" 2 (KMessage (s "a.Tree")) Singular] ].
Definition good_service : service :=
  svc "Forest" "/v1" [hdr "X-Tenant" true]
      [ rpc "GetTree" "a.GetReq" "a.Tree" "/trees/{id}" 1;
        {| md_name := s "PutTree"; md_in := s "a.PutReq"; md_out := s "a.Tree"; md_has_cfg := true; md_path := s "/trees/{id}";
           md_verb := Some 3; md_headers := [hdr "X-Trace" false] |} ].
Definition good_schema : schema := file1 good_messages [good_service].

Example good_is_good :
  defects_C18 good_schema no_side good_service = [] /\
  (exists st, collect_service good_schema no_side good_service = Some st /\
              map fst (components_of_sets (cs_sets st))
              = [s "Error"; s "FieldViolation"; s "ValidationError"; s "GetReq"; s "Tree"; s "AttrsEntry"; s "Leaf"; s "PutReq"]) /\
  map (fun e => md_name (snd e)) (doc_ops good_service) = [s "GetTree"; s "PutTree"] /\
  map param_key (op_parameters good_schema good_service (nth 1 (sv_methods good_service) (rpc "" "" "" "" 0)))
  = [(s "header", s "x-tenant"); (s "header", s "x-trace"); (s "path", s "id")].
Proof. repeat split; try (eexists; split); vm_compute; reflexivity. Qed.

(* ---- witnesses ---------------------------------------------------------------------------------- *)
Lemma first_repeats_not_NoDup {A} (x : A) l : In x l -> ~ NoDup (x :: l).
Proof. intros Hin H. inversion H. contradiction. Qed.

(* two messages called Item *)
Definition collide_schema : schema :=
  file1 [ msg "a.Outer" ["Outer"] [fld "item" 1 (KMessage (s "a.Outer.Item")) Singular];
          msg "a.Outer.Item" ["Outer"; "Item"] [fld "a" 1 KString Singular];
          msg "a.Other" ["Other"] [fld "item" 1 (KMessage (s "a.Other.Item")) Singular];
          msg "a.Other.Item" ["Other"; "Item"] [fld "b" 1 KInt32 Singular];
          msg "a.Req" ["Req"] [fld "x" 1 (KMessage (s "a.Outer")) Singular; fld "z" 2 (KMessage (s "a.Other")) Singular] ]
        [svc "S" "/s" [] [rpc "Do" "a.Req" "a.Req" "/do" 2]].
Definition collide_service : service := svc "S" "/s" [] [rpc "Do" "a.Req" "a.Req" "/do" 2].
Theorem refuted_short_name_collision :
  defects_C18 collide_schema no_side collide_service = [ShortNameCollision] /\
  exists st, collect_service collide_schema no_side collide_service = Some st /\
    In (s "a.Outer.Item") (cs_visited st) /\ In (s "a.Other.Item") (cs_visited st) /\
    List.length (filter (fun e => str_eqb (fst e) (s "Item")) (components_of_sets (cs_sets st))) = 1.
Proof. split; [vm_compute; reflexivity|]. eexists. split; [vm_compute; reflexivity|]. repeat split; vm_compute; auto 10. Qed.

(* a user message called Error *)
Definition builtin_schema : schema :=
  file1 [ msg "a.Error" ["Error"] [fld "code" 1 KInt32 Singular]; msg "a.Req" ["Req"] [fld "e" 1 (KMessage (s "a.Error")) Singular] ]
        [svc "S" "/s" [] [rpc "Do" "a.Req" "a.Req" "/do" 2]].
Theorem refuted_builtin_name :
  defects_C18 builtin_schema no_side collide_service = [BuiltinNameCollision] /\
  exists st, collect_service builtin_schema no_side collide_service = Some st /\
    exists n, find (fun e => str_eqb (fst e) (s "Error")) (components_of_sets (cs_sets st)) = Some (s "Error", n) /\
              find (fun e => str_eqb (fst e) (s "Error")) builtin_sets <> Some (s "Error", n).
Proof. split; [vm_compute; reflexivity|]. eexists. split; [vm_compute; reflexivity|]. eexists. split; [vm_compute; reflexivity|]. vm_compute. discriminate. Qed.

(* X-Api-Key and x-api-key *)
Definition plain_req_schema (ss : list service) : schema := file1 [ msg "a.Req" ["Req"] [fld "id" 1 KString Singular; qfld "p" 2 KString "q"; qfld "r" 3 KString "q"] ] ss.
Definition hdr_service : service := svc "S" "/s" [hdr "X-Api-Key" true; hdr "x-api-key" false] [rpc "Do" "a.Req" "a.Req" "/do" 2].
Definition no_query_schema (ss : list service) : schema := file1 [ msg "a.Req" ["Req"] [fld "id" 1 KString Singular] ] ss.
Theorem refuted_header_case_duplicate :
  defects_C18 (no_query_schema [hdr_service]) no_side hdr_service = [HeaderCaseDuplicate] /\
  ~ NoDup (map param_key (op_parameters (no_query_schema [hdr_service]) hdr_service (rpc "Do" "a.Req" "a.Req" "/do" 2))).
Proof. split; [vm_compute; reflexivity|]. vm_compute. apply first_repeats_not_NoDup. now left. Qed.

(* two RPCs on POST /s/same *)
Definition shared_service : service := svc "S" "/s" [] [rpc "First" "a.Req" "a.Req" "/same" 2; rpc "Second" "a.Req" "a.Req" "/same" 2].
Theorem refuted_shared_route :
  defects_C18 (no_query_schema [shared_service]) no_side shared_service = [SharedRoute] /\
  map (fun e => md_name (snd e)) (doc_ops shared_service) = [s "Second"].
Proof. split; vm_compute; reflexivity. Qed.

(* /a/{id}/b/{id} *)
Definition twice_service : service := svc "S" "/s" [] [rpc "Do" "a.Req" "a.Req" "/a/{id}/b/{id}" 1].
Theorem refuted_duplicate_path_variable :
  defects_C18 (no_query_schema [twice_service]) no_side twice_service = [DuplicatePathVariable] /\
  ~ NoDup (map param_key (op_parameters (no_query_schema [twice_service]) twice_service (rpc "Do" "a.Req" "a.Req" "/a/{id}/b/{id}" 1))).
Proof. split; [vm_compute; reflexivity|]. vm_compute. apply first_repeats_not_NoDup. now left. Qed.

(* base_path /orgs/{org} *)
Definition basevar_service : service := svc "S" "/orgs/{org}" [] [rpc "Do" "a.Req" "a.Req" "/items/{id}" 1].
Theorem refuted_base_path_variable :
  defects_C18 (no_query_schema [basevar_service]) no_side basevar_service = [BasePathVariable] /\
  template_vars basevar_service (rpc "Do" "a.Req" "a.Req" "/items/{id}" 1) = [s "org"; s "id"] /\
  declared_vars basevar_service (rpc "Do" "a.Req" "a.Req" "/items/{id}" 1) = [s "id"].
Proof. repeat split; vm_compute; reflexivity. Qed.

(* two fields with query name q *)
Definition query_service : service := svc "S" "/s" [] [rpc "Do" "a.Req" "a.Req" "/do" 1].
Theorem refuted_duplicate_query_name :
  defects_C18 (plain_req_schema [query_service]) no_side query_service = [DuplicateQueryName] /\
  ~ NoDup (map param_key (op_parameters (plain_req_schema [query_service]) query_service (rpc "Do" "a.Req" "a.Req" "/do" 1))).
Proof. split; [vm_compute; reflexivity|]. vm_compute. apply first_repeats_not_NoDup. now left. Qed.

(* a field called n: the .json rendering has the property "false" *)
Definition yaml11_schema : schema := file1 [ msg "a.Req" ["Req"] [fld "n" 1 KInt32 Singular] ] [query_service].
Theorem refuted_yaml11_bool_word :
  defects_C18 yaml11_schema no_side query_service = [Yaml11BoolWord] /\
  exists d, document_y yaml11_schema no_side query_service = Some d /\
            ynode_unknowns d = [] /\
            jv_eqb (dedupe_jv (denote reader11 d)) (dedupe_jv (denote reader12 d)) = false.
Proof. split; [vm_compute; reflexivity|]. eexists. split; [vm_compute; reflexivity|]. split; vm_compute; reflexivity. Qed.

(* service Same in two generated files *)
Definition two_files : schema :=
  [{| fl_path := s "a.proto"; fl_package := s "a"; fl_gopkg := s "a"; fl_generate := true; fl_messages := []; fl_enums := [];
      fl_services := [svc "Same" "/one" [] []] |};
   {| fl_path := s "b.proto"; fl_package := s "b"; fl_gopkg := s "b"; fl_generate := true; fl_messages := []; fl_enums := [];
      fl_services := [svc "Same" "/two" [] []] |}].
Theorem refuted_service_name_collision :
  has_dup (map sv_name (generated_services two_files)) = true /\ ~ NoDup (emitted_files (s "format=json") two_files) /\
  emitted_files (s "format=json") two_files = [s "Same.openapi.json"; s "Same.openapi.json"].
Proof. split; [vm_compute; reflexivity|]. split; [|vm_compute; reflexivity]. vm_compute. apply first_repeats_not_NoDup. now left. Qed.
