(* CodecCompose.v — the per-codec theorems put together.
     C04_roundtrip_field_codecs : ONE round-trip theorem for every message type whose codec is none, or
       exactly one of the five field codecs (nullable, int64 NUMBER, bytes_encoding, timestamp_format,
       empty_behavior); every side condition of the per-codec theorems (distinct JSON names, "the emitted
       codec compiles", "no NULL Timestamp holds the epoch", "tn is not a well-known type") is DERIVED here
       from wt, encode = ROk and defects_C04 = [].
     C05_conforms_field_codecs : ONE Impl = Spec theorem for the same message types, under ONE computable
       schema predicate [field_codec_plain] (the message carries only its own codec's annotation and the
       emitted codec compiles) and a well-typed value with un-annotated children. *)
From Coq Require Import Lia ZArith List.
From Sebuf Require Import CodecCases.
From SebufProofs Require Import TextFacts CodecTextFacts ProtoJsonFacts CodecExamples CodecFacts MappingFacts.
From SebufProofs Require NullableFacts NullableConforms Int64Facts Int64Conforms BytesFacts BytesConforms.
From SebufProofs Require TimestampFacts TimestampConforms EmptyFacts EmptyConforms.
Import ListNotations.

Open Scope Z_scope.

(* ================================================================================================================ *)
(* which message types the composed theorems speak about *)

Definition field_codec_ft (ft : feature) : bool :=
  match ft with FtNullable | FtInt64 | FtBytes | FtTs | FtEmpty => true | _ => false end.

(* the message type exists and its codec is none, or exactly one of the five field codecs
   (not flatten / discriminated oneof / unwrap, not two features at once) *)
Definition field_codec_owner (sc : schema) (tn : str) : bool :=
  match lookup_message sc tn with
  | Some md => match owner_of sc md with
               | OwnNone => true
               | Own ft => field_codec_ft ft
               | OwnMany => false
               end
  | None => false
  end.

(* ================================================================================================================ *)
(* facts shared by both compositions *)

Lemma ts_message_unowned sc : owner_of sc ts_message = OwnNone.
Proof. reflexivity. Qed.

Lemma owns_ts_name sc : owns sc ts_name = false.
Proof. unfold owns, lookup_message. rewrite str_eqb_refl, ts_message_unowned. reflexivity. Qed.

(* what a well-typed top-level value says about its type *)
Lemma wt_top sc tn m :
  str_eqb tn ts_name = false -> wt sc (KMessage tn) (FM m) = true ->
  is_wkt_other tn = false /\
  exists md, find_message (all_messages sc) tn = Some md /\ lookup_message sc tn = Some md /\
             msg_ok md = true /\ sorted_Z (map (fun e => num_of md (fst e)) m) = true /\ wt_fields sc md m = true.
Proof.
  intros Hts Hwt. rewrite wt_FM, Hts in Hwt. apply andb_prop in Hwt. destruct Hwt as [Hwk Hwt].
  apply Bool.negb_true_iff in Hwk. split; [exact Hwk|].
  destruct (find_message (all_messages sc) tn) as [md|] eqn:Hfm; [|discriminate Hwt].
  apply andb_prop in Hwt. destruct Hwt as [Hwt Hwf]. apply andb_prop in Hwt. destruct Hwt as [Hok Hsorted].
  exists md. unfold lookup_message. rewrite Hts. repeat split; assumption.
Qed.

(* MarshalJSON answers only when the emitted code compiles — whatever the codec *)
Lemma encode_ok_buildable E sc tn md ft m j :
  is_wkt_other tn = false -> lookup_message sc tn = Some md -> owner_of sc md = Own ft ->
  encode E sc tn m = ROk j -> buildable sc ft md = true.
Proof.
  intros Hwk Hlk Hown Henc.
  assert (Howns : owns sc tn = true) by (unfold owns; rewrite Hlk, Hown; reflexivity).
  unfold encode in Henc. rewrite Howns, (NullableFacts.gj_fval_owned E sc tn md ft m Hwk Hlk Hown) in Henc.
  apply rbind_ok in Henc. destruct Henc as [ks [_ Henc]]. unfold codec_body in Henc.
  destruct (buildable sc ft md); [reflexivity|discriminate Henc].
Qed.

(* ================================================================================================================ *)
(* C04: the side condition of the empty_behavior round trip follows from defects_C04 = [] *)

Lemma dedup4_nil l : dedup4 l = [] -> l = [].
Proof.
  induction l as [|d r IH]; [reflexivity|]. cbn [dedup4].
  destruct (existsb (fun e => str_eqb (c04_defect_str e) (c04_defect_str d)) r) eqn:Hex; [|discriminate].
  intros Hr. rewrite (IH Hr) in Hex. discriminate Hex.
Qed.

Lemma defects_nil_local sc tn md ft m :
  lookup_message sc tn = Some md -> owner_of sc md = Own ft ->
  defects_C04 sc tn m = [] -> local_defects sc md m = [].
Proof.
  intros Hlk Hown Hd.
  assert (Howns : owns sc tn = true) by (unfold owns; rewrite Hlk, Hown; reflexivity).
  unfold defects_C04 in Hd. rewrite Howns in Hd. apply dedup4_nil in Hd.
  simpl in Hd. rewrite Hlk, Hown in Hd.
  apply app_eq_nil in Hd. apply Hd.
Qed.

Lemma defects_nil_epoch_null_free sc tn md m :
  lookup_message sc tn = Some md -> owner_of sc md = Own FtEmpty ->
  sorted_Z (map (fun e => num_of md (fst e)) m) = true ->
  defects_C04 sc tn m = [] -> EmptyFacts.epoch_null_free md m = true.
Proof.
  intros Hlk Hown Hsorted Hd.
  pose proof (defects_nil_local sc tn md FtEmpty m Hlk Hown Hd) as Hloc.
  unfold local_defects in Hloc. rewrite Hown in Hloc.
  destruct (existsb (fun f => match empty_of f, mget m (f_name f) with
                              | Some EBNull, Some (FM []) => is_timestamp (f_kind f)
                              | _, _ => false end) (m_fields md)) eqn:Hex; [discriminate Hloc|]. clear Hloc.
  assert (Hnames : NullableFacts.nodup_str (map fst m) = true).
  { apply (EmptyFacts.sorted_nodup_names (num_of md)). rewrite map_map. exact Hsorted. }
  unfold EmptyFacts.epoch_null_free. apply forallb_forall. intros [name x] Hin. cbn [fst snd].
  destruct (find_field (m_fields md) name) as [f|] eqn:Ef; [|reflexivity].
  destruct x as [sx|[|e0 r0]|l|kv]; try reflexivity.
  destruct (EmptyFacts.is_nullf f) eqn:Hn; [|reflexivity].
  destruct (is_timestamp (f_kind f)) eqn:Ht; [exfalso|reflexivity].
  destruct (find_field_spec _ _ _ Ef) as [Hinf Hname].
  pose proof (TimestampFacts.existsb_false_in _ _ f Hex Hinf) as Hf. cbn beta in Hf.
  rewrite Hname, (EmptyFacts.mget_nodup m name (FM []) Hnames Hin) in Hf.
  unfold EmptyFacts.is_nullf in Hn. destruct (empty_of f) as [[| | |]|]; try discriminate Hn.
  congruence.
Qed.

(* ================================================================================================================ *)
(* (a) the composed round trip *)
Theorem C04_roundtrip_field_codecs : forall E, ExtLaws E -> forall sc tn m j,
  field_codec_owner sc tn = true ->
  wt sc (KMessage tn) (FM m) = true ->
  defects_C04 sc tn m = [] ->
  encode E sc tn m = ROk j -> decode E sc tn j = ROk (norm sc tn m).
Proof.
  intros E EL sc tn m j Hfc Hwt Hdef Henc.
  destruct (str_eqb tn ts_name) eqn:Hts.
  - (* Timestamp itself: protojson both ways *)
    apply str_eqb_eq in Hts. subst tn.
    exact (C04_roundtrip_plain E EL sc ts_name m j (owns_ts_name sc) Hwt Henc).
  - destruct (wt_top sc tn m Hts Hwt) as [Hwk [md [Hfm [Hlk [Hok [Hsorted Hwf]]]]]].
    pose proof (Int64Facts.msg_ok_nodup_jn md Hok) as Hnd.
    unfold field_codec_owner in Hfc. rewrite Hlk in Hfc.
    destruct (owner_of sc md) as [|ft|] eqn:Hown; [| |discriminate Hfc].
    + (* no codec *)
      assert (Howns : owns sc tn = false) by (unfold owns; rewrite Hlk, Hown; reflexivity).
      exact (C04_roundtrip_plain E EL sc tn m j Howns Hwt Henc).
    + pose proof (encode_ok_buildable E sc tn md ft m j Hwk Hlk Hown Henc) as Hb.
      destruct ft; try discriminate Hfc.
      * exact (Int64Facts.int64_roundtrip E EL sc tn md m j Hts Hwk Hfm Hown Hb Hnd Hwt Henc).
      * exact (NullableFacts.nullable_roundtrip E EL sc tn md m j Hts Hwk Hfm Hown Hnd Hwt Henc).
      * exact (EmptyFacts.empty_roundtrip E EL sc tn md m j Hts Hwk Hfm Hown Hnd
                 (defects_nil_epoch_null_free sc tn md m Hlk Hown Hsorted Hdef) Hwt Henc).
      * exact (TimestampFacts.ts_roundtrip E EL sc tn md m j Hts Hwk Hfm Hown Hb Hnd Hwt Henc).
      * exact (BytesFacts.bytes_roundtrip E EL sc tn md m j Hts Hwk Hfm Hown Hb Hnd Hwt Henc).
Qed.

(* ================================================================================================================ *)
(* C05: one schema predicate for "this message carries only its own codec's annotation, its emitted codec
   compiles, and nothing else about it is annotated": the per-codec predicates, selected by the owner.
   (No codec at all: MappingFacts.plain_msg.) *)
Definition field_codec_plain (sc : schema) (md : message) : bool :=
  match owner_of sc md with
  | OwnNone => plain_msg md
  | Own ft =>
      buildable sc ft md &&
      match ft with
      | FtNullable => NullableConforms.nulplain_msg md
      | FtInt64 => Int64Conforms.i64plain_msg md
      | FtBytes => BytesConforms.bytesplain_msg md
      | FtTs => forallb TimestampConforms.tsplain_field (m_fields md)
      | FtEmpty => EmptyConforms.empplain_msg md
      | _ => false
      end
  | OwnMany => false
  end.

Lemma field_codec_plain_owner sc tn md :
  lookup_message sc tn = Some md -> field_codec_plain sc md = true -> field_codec_owner sc tn = true.
Proof.
  intros Hlk Hp. unfold field_codec_owner. rewrite Hlk. unfold field_codec_plain in Hp.
  destruct (owner_of sc md) as [|ft|]; [reflexivity| |discriminate Hp].
  apply andb_prop in Hp. destruct Hp as [_ Hp]. destruct ft; try discriminate Hp; reflexivity.
Qed.

Section Conforms.
Variable E : ExtLib.
Variable sc : schema.

(* the children of a value, field by field, are un-annotated *)
Notation plain_children md m :=
  (forallb (fun e : str * fval => match find_field (m_fields md) (fst e) with
                                  | Some f => plain_in sc (f_kind f) (snd e)
                                  | None => false end) m).

(* ---- no codec ---------------------------------------------------------------------------------------------- *)
Lemma plain_in_top tn md m :
  lookup_message sc tn = Some md -> plain_msg md = true -> plain_children md m = true ->
  plain_in sc (KMessage tn) (FM m) = true.
Proof.
  intros Hlk Hmd Hch. simpl. destruct (str_eqb tn ts_name) eqn:Hts; [reflexivity|].
  unfold lookup_message in Hlk. rewrite Hts in Hlk. rewrite Hlk, Hmd. cbn [andb].
  induction m as [|[name x] r IH]; [reflexivity|].
  cbn [forallb fst snd] in Hch. destruct (find_field (m_fields md) name) as [f|]; [|discriminate Hch].
  apply andb_prop in Hch. destruct Hch as [Hx Hr]. rewrite Hx. cbn [andb]. exact (IH Hr).
Qed.

(* ---- timestamp_format: the shape of the annotated values follows from well-typedness --------------------------- *)
Lemma ts_entries_ok md m :
  buildable sc FtTs md = true -> wt_fields sc md m = true -> plain_children md m = true ->
  forallb (TimestampConforms.ts_entry_ok sc md) m = true.
Proof.
  intros Hb. induction m as [|[name x] r IH]; intros Hwf Hch; [reflexivity|].
  cbn [wt_fields] in Hwf. cbn [forallb fst snd] in Hch.
  destruct (find_field (m_fields md) name) as [f|] eqn:Ef; [|discriminate Hwf].
  apply andb_prop in Hwf. destruct Hwf as [Hwe Hwr]. apply andb_prop in Hch. destruct Hch as [Hx Hr].
  cbn [forallb]. rewrite (IH Hwr Hr), Bool.andb_true_r.
  unfold TimestampConforms.ts_entry_ok. cbn [fst snd]. rewrite Ef.
  destruct (tsfmt_of f) as [fmt|] eqn:Hfmt; [|exact Hx].
  destruct (TimestampFacts.tsfmt_of_inv f fmt Hfmt) as [Hkind _].
  destruct (find_field_spec _ _ _ Ef) as [Hinf _].
  assert (Hps : plain_singular f = true).
  { unfold buildable in Hb. rewrite forallb_forall in Hb. specialize (Hb f Hinf). rewrite Hfmt in Hb. exact Hb. }
  assert (Hcard : f_card f = Singular).
  { unfold plain_singular in Hps. destruct (f_card f); try discriminate Hps. reflexivity. }
  unfold wt_entry in Hwe. rewrite Hcard, Hkind in Hwe.
  destruct x as [sx|tm|l|kv]; [discriminate Hwe|reflexivity|discriminate Hwe|discriminate Hwe].
Qed.

(* ---- bytes_encoding: Spec entry by entry for a WELL-TYPED value (BytesConforms.mp_msg_bytes asks for a byte
   string under every field that carries the option; a repeated bytes field with the option set to its default,
   BASE64 or UNSPECIFIED, holds a list — there the option changes nothing on either side) -------------------------- *)
Lemma mp_scalar_bytes_default f :
  f_kind f = KBytes -> is_map f = false -> bytesenc_of f = None ->
  forall sx, mp_scalar E sc (Some f) KBytes sx = pj_scalar E sc KBytes sx.
Proof.
  intros Hk Hm Hb sx. unfold bytesenc_of in Hb. rewrite Hk, Hm in Hb.
  destruct sx as [z|b|x|x|b|n]; try reflexivity.
  cbn [mp_scalar]. destruct (f_bytesenc f) as [[| | | | |]|]; try discriminate Hb; reflexivity.
Qed.

Lemma wt_bytes_scalar y : wt sc KBytes y = true -> exists sx, y = FS sx.
Proof. destruct y as [sx|cm|l|kv]; intros H; try discriminate H. exists sx. reflexivity. Qed.

Lemma mp_bytes_default f x :
  f_kind f = KBytes -> is_map f = false -> bytesenc_of f = None -> wt_entry sc f x = true ->
  mp_fval E sc (Some f) (f_kind f) x = pj_fval E sc (f_kind f) x.
Proof.
  intros Hk Hm Hb Hwe. unfold wt_entry in Hwe. rewrite Hk in Hwe |- *.
  destruct x as [sx|cm|l|kv].
  - rewrite mp_fval_FS, pj_fval_FS. apply (mp_scalar_bytes_default f Hk Hm Hb).
  - exfalso. destruct (f_card f); discriminate Hwe.
  - destruct l as [|e0 l]; [exfalso; destruct (f_card f); discriminate Hwe|].
    assert (Hall : (fix all (l : list fval) : bool := match l with [] => true | y :: t => wt sc KBytes y && all t end) (e0 :: l) = true).
    { destruct (f_card f); try discriminate Hwe. exact Hwe. }
    clear Hwe. rewrite mp_fval_FL, pj_fval_FL.
    assert (Hloop : mp_list E sc (Some f) KBytes (e0 :: l) = m_list E sc KBytes (e0 :: l)).
    { revert Hall. generalize (e0 :: l). intros l0. induction l0 as [|y t IH]; intros Hall; [reflexivity|].
      apply andb_prop in Hall. destruct Hall as [Hy Ht].
      destruct (wt_bytes_scalar y Hy) as [sx Hsx]. subst y.
      cbn [mp_list m_list]. rewrite mp_fval_FS, pj_fval_FS, (mp_scalar_bytes_default f Hk Hm Hb sx), (IH Ht). reflexivity. }
    rewrite Hloop. reflexivity.
  - exfalso. unfold is_map in Hm. destruct (f_card f); try discriminate Hwe; discriminate Hm.
Qed.

Lemma mp_msg_bytes_wt md (m : mval) :
  NullableFacts.nodup_str (map jn (m_fields md)) = true -> BytesConforms.bytesplain_msg md = true ->
  buildable sc FtBytes md = true ->
  forall r,
  (forall name x, In (name, x) r -> mget m name = Some x) ->
  wt_fields sc md r = true -> plain_children md r = true ->
  mp_msg E sc md r =
  m_msg E sc md r >>= (fun es => ROk (map (fun e => PField (fst e) (snd e))
                                          (map (BytesFacts.entry (BytesFacts.Genc m) (m_fields md)) es))).
Proof.
  intros Hnd Hmd Hbuild. pose proof Hmd as Hmd'. unfold BytesConforms.bytesplain_msg in Hmd'.
  apply andb_prop in Hmd'. destruct Hmd' as [Hf Ho]. rewrite forallb_forall in Hf.
  induction r as [|[name x] r IH]; intros Hget Hwf Hch; [reflexivity|].
  cbn [wt_fields] in Hwf. cbn [forallb fst snd] in Hch. cbn [mp_msg m_msg].
  destruct (find_field (m_fields md) name) as [f|] eqn:Ef; [|discriminate Hwf].
  apply andb_prop in Hwf. destruct Hwf as [Hwe Hwr]. apply andb_prop in Hch. destruct Hch as [Hpx Hr].
  destruct (find_field_spec _ _ _ Ef) as [Hinf Hname].
  destruct (BytesConforms.bytesplain_facts f (Hf f Hinf)) as [_ [Hi64 [Hee [_ [Hem [Hts [Hfl Hby]]]]]]].
  unfold mp_entry. rewrite Hem, Hfl, (NullableConforms.no_cfg_oneof md f Ho).
  assert (Hkey : mp_fval E sc (Some f) (f_kind f) x
                 = pj_fval E sc (f_kind f) x >>= (fun j => ROk (BytesFacts.Genc m f j))).
  { destruct (f_bytesenc f) as [be|] eqn:Eb.
    - destruct Hby as [Hby|[Hk Hm]]; [discriminate Hby|].
      destruct (bytesenc_of f) as [e|] eqn:Ebo.
      + (* an effective encoding: the emitted code compiles only for singular / optional fields *)
        destruct (BytesFacts.bytes_entry_shape sc f x Hk
                    (BytesFacts.buildable_bytes_card sc md f e Hbuild Hinf Ebo) Hwe) as [b Hx]. subst x.
        rewrite Hk, mp_fval_FS, pj_fval_FS, (BytesConforms.spec_bytes_scalar E sc f b Hk Hm). cbn [pj_scalar rbind]. f_equal.
        unfold BytesFacts.Genc. rewrite Hname, (Hget name (FS (VBytes b)) (or_introl eq_refl)), Ebo.
        destruct b as [|c b]; [|reflexivity]. rewrite BytesFacts.bytes_enc_text_nil. reflexivity.
      + (* the option names the default encoding *)
        rewrite (mp_bytes_default f x Hk Hm Ebo Hwe).
        assert (HG : forall j, BytesFacts.Genc m f j = j) by (intros j; unfold BytesFacts.Genc; rewrite Ebo; reflexivity).
        destruct (pj_fval E sc (f_kind f) x) as [j|e|w]; cbn [rbind]; rewrite ?HG; reflexivity.
    - assert (Hctx : ctx_field_ok f = true) by (unfold ctx_field_ok; rewrite Hi64, Hee, Eb, Hts; reflexivity).
      rewrite (mapping_plain_fval E sc x (Some f) (f_kind f) Hctx Hpx).
      assert (HG : forall j, BytesFacts.Genc m f j = j)
        by (intros j; unfold BytesFacts.Genc; rewrite (BytesConforms.bytesenc_of_none f Eb); reflexivity).
      destruct (pj_fval E sc (f_kind f) x) as [j|e|w]; cbn [rbind]; rewrite ?HG; reflexivity. }
  rewrite Hkey.
  destruct (pj_fval E sc (f_kind f) x) as [j|e|w]; cbn [rbind]; try reflexivity.
  rewrite (IH (fun n y Hin => Hget n y (or_intror Hin)) Hwr Hr).
  destruct (m_msg E sc md r) as [t|e|w]; cbn [rbind]; try reflexivity.
  cbn [map app]. do 2 f_equal.
  unfold BytesFacts.entry. cbn [fst snd].
  assert (Hjn : json_name name = jn f) by (unfold jn; rewrite Hname; reflexivity).
  rewrite Hjn, (BytesFacts.field_by_json_complete (m_fields md) f Hnd Hinf). reflexivity.
Qed.

Lemma conforms_bytes_wt tn md m :
  str_eqb tn ts_name = false -> is_wkt_other tn = false ->
  find_message (all_messages sc) tn = Some md -> owner_of sc md = Own FtBytes ->
  buildable sc FtBytes md = true ->
  NullableFacts.nodup_str (map jn (m_fields md)) = true ->
  BytesConforms.bytesplain_msg md = true ->
  sorted_Z (map (fun e => num_of md (fst e)) m) = true -> wt_fields sc md m = true ->
  plain_children md m = true ->
  encode E sc tn m = to_json E sc tn m.
Proof.
  intros Hts Hwk Hfm Hown Hb Hnd Hmd Hsorted Hwf Hch.
  assert (Hlk : lookup_message sc tn = Some md) by (unfold lookup_message; rewrite Hts; exact Hfm).
  assert (Howns : owns sc tn = true) by (unfold owns; rewrite Hlk, Hown; reflexivity).
  pose proof (BytesFacts.wt_fields_declared sc md m Hwf) as Hdecl.
  pose proof (TimestampFacts.sorted_names_nodup md m Hsorted) as Hnames.
  (* Impl *)
  unfold encode. rewrite Howns.
  rewrite (NullableFacts.gj_fval_owned E sc tn md FtBytes m Hwk Hlk Hown), (BytesFacts.kids_bytes E sc md m Hdecl). rewrite rbind_ROk.
  unfold codec_body. rewrite Hb. cbn [negb]. cbv iota.
  unfold pj_marshal. rewrite pj_fval_FM, Hts, Hwk, Hfm.
  (* Spec *)
  unfold to_json. rewrite mp_fval_FM, Hts, Hwk, Hfm.
  rewrite (mp_msg_bytes_wt md m Hnd Hmd Hb m (fun n x Hin => BytesConforms.nodup_names_mget m n x Hnames Hin) Hwf Hch).
  destruct (m_msg E sc md m) as [es|e|w] eqn:Hes; cbn [rbind as_obj]; try reflexivity.
  unfold mp_finish. rewrite (BytesConforms.bytesplain_no_unwrap md Hmd), fields_of_pieces, (BytesConforms.bytesplain_no_nulls md m Hmd), app_nil_r.
  rewrite BytesFacts.enc_bytes_fold, (BytesFacts.benc_fold m (m_fields md) es Hnd); [reflexivity|].
  intros f Hin Hm. apply NullableFacts.raw_has_keys. rewrite (NullableFacts.m_msg_keys E sc md m es Hes).
  destruct (mget m (f_name f)) as [x|] eqn:Eg; [|exfalso; apply Hm; reflexivity].
  apply NullableFacts.mget_some_in in Eg. apply in_map_iff in Eg. destruct Eg as [[n x'] [Hn Hinm]]. cbn [fst] in Hn. subst n.
  apply in_map_iff. exists (f_name f, x'). split; [reflexivity|exact Hinm].
Qed.

(* ---- (b) the composed Impl = Spec ------------------------------------------------------------------------------ *)
Theorem C05_conforms_field_codecs : forall tn md m,
  lookup_message sc tn = Some md ->
  field_codec_plain sc md = true ->
  wt sc (KMessage tn) (FM m) = true ->
  forallb (fun e => match find_field (m_fields md) (fst e) with
                    | Some f => plain_in sc (f_kind f) (snd e)
                    | None => false end) m = true ->
  encode E sc tn m = to_json E sc tn m.
Proof.
  intros tn md m Hlk Hp Hwt Hch. unfold field_codec_plain in Hp.
  destruct (owner_of sc md) as [|ft|] eqn:Hown; [| |discriminate Hp].
  - (* no codec: both sides are protojson *)
    assert (Howns : owns sc tn = false) by (unfold owns; rewrite Hlk, Hown; reflexivity).
    unfold encode. rewrite Howns. symmetry. unfold to_json, pj_marshal.
    exact (mapping_plain_fval E sc (FM m) None (KMessage tn) I (plain_in_top tn md m Hlk Hp Hch)).
  - apply andb_prop in Hp. destruct Hp as [Hb Hp].
    destruct (str_eqb tn ts_name) eqn:Hts.
    { (* Timestamp has no codec *)
      exfalso. unfold lookup_message in Hlk. rewrite Hts in Hlk. inversion Hlk; subst md.
      rewrite ts_message_unowned in Hown. discriminate Hown. }
    destruct (wt_top sc tn m Hts Hwt) as [Hwk [md' [Hfm [Hlk' [Hok [Hsorted Hwf]]]]]].
    assert (md' = md) by congruence. subst md'.
    pose proof (Int64Facts.msg_ok_nodup_jn md Hok) as Hnd.
    destruct ft; try discriminate Hp.
    + exact (Int64Conforms.conforms_int64 E sc tn md m Hts Hwk Hfm Hown Hb Hnd Hp Hwt Hch).
    + exact (NullableConforms.conforms_nullable E sc tn md m Hts Hwk Hfm Hown Hnd Hp Hch).
    + exact (EmptyConforms.conforms_empty E sc tn md m Hts Hwk Hfm Hown Hb Hnd Hp Hwt Hch).
    + exact (TimestampConforms.conforms_ts E sc tn md m Hts Hwk Hfm Hown Hb Hnd Hp
               (TimestampFacts.sorted_names_nodup md m Hsorted) (ts_entries_ok md m Hb Hwf Hch)).
    + exact (conforms_bytes_wt tn md m Hts Hwk Hfm Hown Hb Hnd Hp Hsorted Hwf Hch).
Qed.
End Conforms.

(* ================================================================================================================ *)
(* (c) witnesses.  The shared schema [xs] (proofs/CodecExamples.v) has one message type per field codec:
   Nums (int64 NUMBER), Nul (nullable), Emp (empty_behavior), Times (timestamp_format), Blob (bytes_encoding),
   and Leaf (no codec). *)

(* every hypothesis of C04_roundtrip_field_codecs holds for (tn, m) — owner [ow], JSON [j] — and so does its
   conclusion, [back] being the normalised value *)
Definition c04_case_ok (sc : schema) (tn : str) (ow : owner) (m : mval) (j : json) (back : mval) : Prop :=
  (exists md, lookup_message sc tn = Some md /\ owner_of sc md = ow) /\
  field_codec_owner sc tn = true /\ wt sc (KMessage tn) (FM m) = true /\ defects_C04 sc tn m = [] /\
  encode Ex sc tn m = ROk j /\ norm sc tn m = back /\ decode Ex sc tn j = ROk back.

(* every hypothesis of C05_conforms_field_codecs holds for (tn, m), and Impl = Spec = ROk j *)
Definition c05_case_ok (sc : schema) (tn : str) (ow : owner) (m : mval) (j : json) : Prop :=
  exists md, lookup_message sc tn = Some md /\ owner_of sc md = ow /\ field_codec_plain sc md = true /\
    wt sc (KMessage tn) (FM m) = true /\
    forallb (fun e => match find_field (m_fields md) (fst e) with
                      | Some f => plain_in sc (f_kind f) (snd e)
                      | None => false end) m = true /\
    encode Ex sc tn m = ROk j /\ to_json Ex sc tn m = ROk j.

Ltac c04ok := split; [eexists; split; [vm_compute; reflexivity|vm_compute; reflexivity]|repeat split; vm_compute; reflexivity].
Ltac c05ok := eexists; split; [vm_compute; reflexivity|repeat split; vm_compute; reflexivity].

Example roundtrip_field_codecs_nonvacuous :
  c04_case_ok xs (q "Nums") (Own FtInt64)
    [(s "big", vint 9007199254740993); (s "name", vstr "n")]
    (JObj [(s "big", JNum 9007199254740993); (s "name", JStr (s "n"))])
    [(s "big", vint 9007199254740993); (s "name", vstr "n")] /\
  c04_case_ok xs (q "Nul") (Own FtNullable)
    [(s "id", vstr "x")]
    (JObj [(s "id", JStr (s "x")); (s "nick", JNull)])
    [(s "id", vstr "x")] /\
  c04_case_ok xs (q "Nul") (Own FtNullable)
    [(s "nick", vstr "k"); (s "id", vstr "x")]
    (JObj [(s "nick", JStr (s "k")); (s "id", JStr (s "x"))])
    [(s "nick", vstr "k"); (s "id", vstr "x")] /\
  c04_case_ok xs (q "Emp") (Own FtEmpty)
    [(s "nul_it", FM []); (s "omit", FM []); (s "id", vstr "x")]
    (JObj [(s "nulIt", JNull); (s "id", JStr (s "x"))])
    [(s "nul_it", FM []); (s "id", vstr "x")] /\
  c04_case_ok xs (q "Times") (Own FtTs)
    [(s "secs", tsv 5 123456789); (s "day", tsv 90000 1); (s "id", vstr "x")]
    (JObj [(s "secs", JNum 5); (s "day", JStr (s "1970-01-02")); (s "id", JStr (s "x"))])
    [(s "secs", tsv 5 0); (s "day", tsv 86400 0); (s "id", vstr "x")] /\
  c04_case_ok xs (q "Blob") (Own FtBytes)
    [(s "h", FS (VBytes [ch 105; ch 183])); (s "id", vstr "x")]
    (JObj [(s "h", JStr (s "69b7")); (s "id", JStr (s "x"))])
    [(s "h", FS (VBytes [ch 105; ch 183])); (s "id", vstr "x")] /\
  c04_case_ok xs (q "Leaf") OwnNone
    [(s "a", vstr "x"); (s "n", vint 3)]
    (JObj [(s "a", JStr (s "x")); (s "n", JStr (s "3"))])
    [(s "a", vstr "x"); (s "n", vint 3)].
Proof. do 6 (split; [c04ok|]). c04ok. Qed.

Example conforms_field_codecs_nonvacuous :
  c05_case_ok xs (q "Nums") (Own FtInt64)
    [(s "big", vint 9007199254740993); (s "name", vstr "n")]
    (JObj [(s "big", JNum 9007199254740993); (s "name", JStr (s "n"))]) /\
  c05_case_ok xs (q "Nul") (Own FtNullable)
    [(s "id", vstr "x")]
    (JObj [(s "id", JStr (s "x")); (s "nick", JNull)]) /\
  c05_case_ok xs (q "Emp") (Own FtEmpty)
    [(s "nul_it", FM []); (s "omit", FM []); (s "id", vstr "x")]
    (JObj [(s "nulIt", JNull); (s "id", JStr (s "x"))]) /\
  c05_case_ok xs (q "Times") (Own FtTs)
    [(s "secs", tsv 5 123456789); (s "day", tsv 90000 1); (s "id", vstr "x")]
    (JObj [(s "secs", JNum 5); (s "day", JStr (s "1970-01-02")); (s "id", JStr (s "x"))]) /\
  c05_case_ok xs (q "Blob") (Own FtBytes)
    [(s "h", FS (VBytes [ch 105; ch 183])); (s "id", vstr "x")]
    (JObj [(s "h", JStr (s "69b7")); (s "id", JStr (s "x"))]) /\
  c05_case_ok xs (q "Leaf") OwnNone
    [(s "a", vstr "x"); (s "n", vint 3)]
    (JObj [(s "a", JStr (s "x")); (s "n", JStr (s "3"))]).
Proof. do 5 (split; [c05ok|]). c05ok. Qed.

(* a repeated bytes field whose bytes_encoding option names the default (BASE64) next to a HEX field: the
   composed theorem covers it (well-typedness decides the shape of the value); BytesConforms.conforms_bytes
   does not, its value condition asks for ONE byte string under every field that carries the option *)
Definition fcs : schema :=
  [ {| fl_path := s "x/c.proto"; fl_package := s "x.v1"; fl_gopkg := s "x"; fl_generate := true;
       fl_messages :=
         [ msg "BDef" [set_bytes BEHex (fld "h" 1 KBytes Singular); set_bytes BEBase64 (fld "reps" 2 KBytes Repeated);
                       fld "id" 3 KString Singular] [] ];
       fl_enums := []; fl_services := [] |} ].
Example conforms_field_codecs_default_bytes_list :
  let m := [(s "h", FS (VBytes [ch 105; ch 183])); (s "reps", FL [FS (VBytes [ch 1]); FS (VBytes [])]); (s "id", vstr "x")] in
  c05_case_ok fcs (q "BDef") (Own FtBytes) m
    (JObj [(s "h", JStr (s "69b7")); (s "reps", JArr [JStr (s "AQ=="); JStr []]); (s "id", JStr (s "x"))]) /\
  (exists md, lookup_message fcs (q "BDef") = Some md /\ forallb (BytesConforms.bytes_value_ok fcs md) m = false) /\
  c04_case_ok fcs (q "BDef") (Own FtBytes) m
    (JObj [(s "h", JStr (s "69b7")); (s "reps", JArr [JStr (s "AQ=="); JStr []]); (s "id", JStr (s "x"))]) m.
Proof.
  cbv zeta. split; [c05ok|]. split; [eexists; split; vm_compute; reflexivity|c04ok].
Qed.

(* ---- the hypotheses that remain are needed ------------------------------------------------------------------ *)
(* C04: defects_C04 = [] (its only clause that matters for a field codec is D4EmptyNullEpochTs: empty_behavior =
   NULL on a Timestamp field holding the epoch is written as null, read back as {} and rejected by protojson) *)
Example roundtrip_field_codecs_needs_no_defects :
  let m := [(s "at", FM []); (s "id", vstr "x")] in
  field_codec_owner EmptyConforms.ebs (q "TsNull") = true /\
  wt EmptyConforms.ebs (KMessage (q "TsNull")) (FM m) = true /\
  defects_C04 EmptyConforms.ebs (q "TsNull") m = [D4EmptyNullEpochTs] /\
  encode Ex EmptyConforms.ebs (q "TsNull") m = ROk (JObj [(s "at", JNull); (s "id", JStr (s "x"))]) /\
  decode Ex EmptyConforms.ebs (q "TsNull") (JObj [(s "at", JNull); (s "id", JStr (s "x"))]) = RErr (s "invalid timestamp").
Proof. vm_compute. repeat split; reflexivity. Qed.

(* C04: what field_codec_owner accepts: the Timestamp type and every type with no codec or one field codec; not the
   flatten / discriminated-oneof / unwrap owners (their round trips are the refuted classes of CodecFacts.v and
   the open part of C04_roundtrip_full), not an undeclared type *)
Example field_codec_owner_examples :
  field_codec_owner xs (q "Person") = false /\ field_codec_owner xs (q "Event") = false /\
  field_codec_owner xs (q "Series") = false /\ field_codec_owner xs (q "Strs") = false /\
  field_codec_owner xs (s "x.v1.Missing") = false /\ field_codec_owner xs ts_name = true.
Proof. vm_compute. repeat split; reflexivity. Qed.

(* C05: field_codec_plain — (1) an annotation the codec does not honour (NUMBER on a map), (2) a codec that does
   not compile (NUMBER on an optional field) *)
Example conforms_field_codecs_needs_plain :
  (let m := [(s "by_k", FMap [(VStr (s "k"), vint 5)])] in
   exists md, lookup_message xs (q "NumMap") = Some md /\ owner_of xs md = Own FtInt64 /\
     buildable xs FtInt64 md = true /\ field_codec_plain xs md = false /\
     wt xs (KMessage (q "NumMap")) (FM m) = true /\
     forallb (fun e => match find_field (m_fields md) (fst e) with
                       | Some f => plain_in xs (f_kind f) (snd e) | None => false end) m = true /\
     encode Ex xs (q "NumMap") m = ROk (JObj [(s "byK", JObj [(s "k", JStr (s "5"))])]) /\
     to_json Ex xs (q "NumMap") m = ROk (JObj [(s "byK", JObj [(s "k", JNum 5)])])) /\
  (let m := [(s "o", vint 5)] in
   exists md w, lookup_message Int64Facts.i64s (q "Opt") = Some md /\ owner_of Int64Facts.i64s md = Own FtInt64 /\
     Int64Conforms.i64plain_msg md = true /\ buildable Int64Facts.i64s FtInt64 md = false /\
     field_codec_plain Int64Facts.i64s md = false /\
     wt Int64Facts.i64s (KMessage (q "Opt")) (FM m) = true /\
     encode Ex Int64Facts.i64s (q "Opt") m = RUnm w /\ to_json Ex Int64Facts.i64s (q "Opt") m = ROk (JObj [(s "o", JNum 5)])).
Proof. split; [eexists|do 2 eexists]; vm_compute; repeat split; reflexivity. Qed.

(* C05: well-typedness (a populated implicit scalar is non-zero) and un-annotated children *)
Example conforms_field_codecs_needs_wt :
  let m := [(s "big", vint 0)] in
  exists md, lookup_message xs (q "Nums") = Some md /\ field_codec_plain xs md = true /\
    forallb (fun e => match find_field (m_fields md) (fst e) with
                      | Some f => plain_in xs (f_kind f) (snd e) | None => false end) m = true /\
    wt xs (KMessage (q "Nums")) (FM m) = false /\
    encode Ex xs (q "Nums") m = ROk (JObj []) /\ to_json Ex xs (q "Nums") m = ROk (JObj [(s "big", JNum 0)]).
Proof. eexists. vm_compute. repeat split; reflexivity. Qed.
Example conforms_field_codecs_needs_plain_children :
  let m := [(s "inner", FM [(s "big", vint 5)])] in
  exists md, lookup_message xs (q "NumsHolder") = Some md /\ owner_of xs md = OwnNone /\ field_codec_plain xs md = true /\
    wt xs (KMessage (q "NumsHolder")) (FM m) = true /\
    forallb (fun e => match find_field (m_fields md) (fst e) with
                      | Some f => plain_in xs (f_kind f) (snd e) | None => false end) m = false /\
    encode Ex xs (q "NumsHolder") m = ROk (JObj [(s "inner", JObj [(s "big", JStr (s "5"))])]) /\
    to_json Ex xs (q "NumsHolder") m = ROk (JObj [(s "inner", JObj [(s "big", JNum 5)])]).
Proof. eexists. vm_compute. repeat split; reflexivity. Qed.
Close Scope Z_scope.
