(* NumFacts.v — printing then parsing a number gives the number back (fmt.Sprint / strconv). *)
From Coq Require Import ZifyN ZifyNat ZifyBool.
From Sebuf Require Import Text Num.
From SebufProofs Require Import TextFacts.

Local Open Scope N_scope.

(* ---- digits -------------------------------------------------------------------------------- *)

Lemma lt10_cases (d : N) : d < 10 ->
  d = 0 \/ d = 1 \/ d = 2 \/ d = 3 \/ d = 4 \/ d = 5 \/ d = 6 \/ d = 7 \/ d = 8 \/ d = 9.
Proof. lia. Qed.

Lemma digit_val_char d : d < 10 -> digit_val (digit_char d) = Some d.
Proof.
  intros H. apply lt10_cases in H.
  repeat (destruct H as [H|H]; [subst d; vm_compute; reflexivity|]). subst d; vm_compute; reflexivity.
Qed.

Lemma is_digit_char d : d < 10 -> is_digit (digit_char d) = true.
Proof.
  intros H. apply lt10_cases in H.
  repeat (destruct H as [H|H]; [subst d; vm_compute; reflexivity|]). subst d; vm_compute; reflexivity.
Qed.

Lemma mod10_lt n : n mod 10 < 10.
Proof. apply N.mod_lt. discriminate. Qed.

Lemma parse_digits_step a d r : d < 10 ->
  parse_digits a (digit_char d :: r) = parse_digits (a * 10 + d) r.
Proof. intros H. cbn [parse_digits]. now rewrite (digit_val_char d H). Qed.

Lemma parse_digits_app x : forall acc y,
  parse_digits acc (x ++ y) =
  match parse_digits acc x with Some a => parse_digits a y | None => None end.
Proof.
  induction x as [|c x IH]; intros acc y; cbn [app parse_digits]; [reflexivity|].
  destruct (digit_val c) as [d|]; [apply IH|reflexivity].
Qed.

(* ---- show_N_fuel ----------------------------------------------------------------------------- *)

Lemma show_N_fuel_parse : forall fuel n acc,
  n < 2 ^ N.of_nat fuel -> fuel <> O ->
  parse_digits 0 (show_N_fuel fuel n acc) = parse_digits n acc.
Proof.
  induction fuel as [|f IH]; intros n acc Hlt Hne; [congruence|].
  cbn [show_N_fuel].
  destruct (n <? 10) eqn:E.
  - apply N.ltb_lt in E. rewrite parse_digits_step by apply mod10_lt.
    rewrite N.mod_small by exact E. reflexivity.
  - apply N.ltb_ge in E.
    assert (Hpow : 2 ^ N.of_nat (S f) = 2 * 2 ^ N.of_nat f).
    { rewrite Nat2N.inj_succ. apply N.pow_succ_r'. }
    rewrite Hpow in Hlt.
    assert (Hf : f <> O).
    { intros ->. cbn in Hlt. lia. }
    assert (Hdiv : n / 10 < 2 ^ N.of_nat f).
    { apply N.div_lt_upper_bound; [discriminate|]. lia. }
    rewrite (IH (n / 10) _ Hdiv Hf).
    rewrite parse_digits_step by apply mod10_lt.
    f_equal. rewrite (N.div_mod' n 10) at 3. lia.
Qed.

Lemma show_N_fuel_pre : forall fuel n acc,
  exists pre, show_N_fuel fuel n acc = pre ++ acc /\ forallb is_digit pre = true /\
              (fuel <> O -> pre <> []).
Proof.
  induction fuel as [|f IH]; intros n acc.
  - exists []. cbn. repeat split; congruence.
  - cbn [show_N_fuel].
    destruct (n <? 10).
    + exists [digit_char (n mod 10)]. cbn [app forallb]. rewrite is_digit_char by apply mod10_lt.
      repeat split; discriminate.
    + destruct (IH (n / 10) (digit_char (n mod 10) :: acc)) as [pre [E [D _]]].
      exists (pre ++ [digit_char (n mod 10)]). rewrite E, <- app_assoc. split; [reflexivity|].
      split.
      * rewrite forallb_app, D. cbn [forallb]. now rewrite is_digit_char by apply mod10_lt.
      * intros _ Hnil. apply app_eq_nil in Hnil as [_ Hnil]. discriminate.
Qed.

Lemma show_nat_N_shape n : exists c r, show_nat_N n = c :: r /\ is_digit c = true /\ forallb is_digit r = true.
Proof.
  unfold show_nat_N.
  destruct (show_N_fuel_pre (S (N.to_nat (N.size n))) n []) as [pre [E [D Hne]]].
  rewrite E, app_nil_r. destruct pre as [|c r]; [exfalso; now apply Hne|].
  cbn [forallb] in D. apply andb_true_iff in D as [D1 D2]. now exists c, r.
Qed.

Lemma size_bound n : n < 2 ^ N.of_nat (S (N.to_nat (N.size n))).
Proof.
  rewrite Nat2N.inj_succ, N2Nat.id, N.pow_succ_r'.
  pose proof (N.size_gt n) as H. lia.
Qed.

(* A1 *)
Lemma parse_nat_show : forall n : N, parse_nat (show_nat_N n) = Some n.
Proof.
  intros n. destruct (show_nat_N_shape n) as [c [r [E _]]].
  unfold parse_nat. rewrite E, <- E. unfold show_nat_N.
  rewrite show_N_fuel_parse; [reflexivity|apply size_bound|discriminate].
Qed.

(* ---- signs ----------------------------------------------------------------------------------- *)

Lemma digit_not_sign c : is_digit c = true ->
  Ascii.eqb c "-"%char = false /\ Ascii.eqb c "+"%char = false /\ Ascii.eqb c "."%char = false /\
  Ascii.eqb c "/"%char = false.
Proof.
  intros H. repeat split.
  all: match goal with |- Ascii.eqb ?x ?d = false =>
         destruct (Ascii.eqb x d) eqn:E; [apply Ascii.eqb_eq in E; subst x; vm_compute in H; discriminate|reflexivity]
       end.
Qed.

Lemma parse_int_digit_first bits c r : is_digit c = true ->
  parse_int bits (c :: r) =
  match parse_nat (c :: r) with
  | Some n => if n <? 2 ^ (bits - 1) then Some (Z.of_N n) else None
  | None => None
  end.
Proof.
  intros H. destruct (digit_not_sign c H) as [H1 [H2 _]].
  unfold parse_int. rewrite H1, H2. reflexivity.
Qed.

Lemma parse_int_minus bits r :
  parse_int bits ("-"%char :: r) =
  match parse_nat r with
  | Some n => if n <=? 2 ^ (bits - 1) then Some (- Z.of_N n)%Z else None
  | None => None
  end.
Proof. reflexivity. Qed.

Lemma pow2_N2Z b : Z.of_N (2 ^ b) = (2 ^ Z.of_N b)%Z.
Proof. rewrite N2Z.inj_pow. reflexivity. Qed.

Lemma show_int_pos p : show_int (Zpos p) = show_nat_N (Npos p).
Proof. reflexivity. Qed.

(* A2 *)
Lemma parse_int_show : forall bits z, (0 < bits)%N ->
  (- 2 ^ Z.of_N (bits - 1) <= z < 2 ^ Z.of_N (bits - 1))%Z ->
  parse_int bits (show_int z) = Some z.
Proof.
  intros bits z Hb [Hlo Hhi]. rewrite <- pow2_N2Z in Hlo, Hhi.
  destruct z as [|p|p].
  - change (show_int 0) with [digit_char 0].
    rewrite parse_int_digit_first by (vm_compute; reflexivity).
    change (parse_nat [digit_char 0]) with (Some 0). cbv beta iota.
    assert (E : (0 <? 2 ^ (bits - 1)) = true) by (apply N.ltb_lt; lia).
    rewrite E. reflexivity.
  - rewrite show_int_pos. destruct (show_nat_N_shape (Npos p)) as [c [r [E [D _]]]].
    rewrite E, (parse_int_digit_first bits c r D), <- E, parse_nat_show.
    assert (L : (Npos p <? 2 ^ (bits - 1)) = true) by (apply N.ltb_lt; lia).
    rewrite L. reflexivity.
  - change (show_int (Zneg p)) with ("-"%char :: show_nat_N (Npos p)).
    rewrite parse_int_minus, parse_nat_show.
    assert (L : (Npos p <=? 2 ^ (bits - 1)) = true) by (apply N.leb_le; lia).
    rewrite L. reflexivity.
Qed.

(* A3 *)
Lemma parse_uint_show : forall bits z, (0 <= z < 2 ^ Z.of_N bits)%Z ->
  parse_uint bits (show_int z) = Some z.
Proof.
  intros bits z [Hlo Hhi]. rewrite <- pow2_N2Z in Hhi. unfold parse_uint.
  destruct z as [|p|p]; [| |lia].
  - change (parse_nat (show_int 0)) with (Some 0). cbv beta iota.
    assert (E : (0 <? 2 ^ bits) = true) by (apply N.ltb_lt; lia).
    rewrite E. reflexivity.
  - rewrite show_int_pos, parse_nat_show.
    assert (L : (Npos p <? 2 ^ bits) = true) by (apply N.ltb_lt; lia).
    rewrite L. reflexivity.
Qed.

(* A4 *)
Lemma parse_bool_show : forall b, parse_bool (show_bool b) = Some b.
Proof. intros [|]; vm_compute; reflexivity. Qed.

(* A5 *)
Lemma show_int_first : forall z, exists c r,
  show_int z = c :: r /\ (is_digit c = true \/ c = "-"%char).
Proof.
  intros [|p|p].
  - exists (digit_char 0), []. split; [reflexivity|left; vm_compute; reflexivity].
  - rewrite show_int_pos. destruct (show_nat_N_shape (Npos p)) as [c [r [E [D _]]]].
    exists c, r. split; [exact E|now left].
  - exists "-"%char, (show_nat_N (Npos p)). split; [reflexivity|now right].
Qed.

Lemma show_int_nonempty z : show_int z <> [].
Proof. destruct (show_int_first z) as [c [r [E _]]]. rewrite E. discriminate. Qed.

Lemma show_int_not_dot_first z : forall r, show_int z <> "."%char :: r.
Proof.
  intros r0 E0. destruct (show_int_first z) as [c [r [E [D|D]]]]; rewrite E in E0; inversion E0; subst c.
  - vm_compute in D. discriminate.
  - discriminate.
Qed.

Lemma show_int_not_slash_first z : forall r, show_int z <> "/"%char :: r.
Proof.
  intros r0 E0. destruct (show_int_first z) as [c [r [E [D|D]]]]; rewrite E in E0; inversion E0; subst c.
  - vm_compute in D. discriminate.
  - discriminate.
Qed.

Lemma show_int_not_slash z : str_eqb (show_int z) [slash] = false.
Proof. apply str_eqb_neq. apply show_int_not_slash_first. Qed.

Lemma show_bool_nonempty b : show_bool b <> [].
Proof. destruct b; discriminate. Qed.

(* dirty_seg lives in GoRt.v *)
From Sebuf Require Import GoRt.

Lemma show_int_not_dirty z : dirty_seg (show_int z) = false.
Proof.
  unfold dirty_seg. apply orb_false_iff. split; apply str_eqb_neq; apply show_int_not_dot_first.
Qed.
