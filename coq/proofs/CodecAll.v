(* CodecAll.v — C04, every per-codec round-trip theorem put together.
     C04_roundtrip_all_codecs : ONE theorem for every message type, whatever owns its MarshalJSON: no codec, the five
       field codecs (CodecCompose), root unwrap (UnwrapRootFacts), map-value unwrap (UnwrapMapFacts), flatten
       (FlattenFacts: the region defects_C04 = [] is "no flatten field populated"), discriminated oneof (OneofFacts),
       and two features at once (vacuous: the emitted code does not compile, the model's encoder answers RUnm).
       Hypotheses: OneofPj.wt1 (ProtoJsonFacts.wt generalised to types that declare oneofs), defects_C04 = [],
       encode = ROk, and ONE computable predicate [codec_side_ok], the case distinction on the owner that collects what
       each per-codec theorem still asks for: nothing for "no codec" (FlattenFacts.C04_roundtrip_plain1); "no field is a
       member of a real oneof" for the five field codecs (their theorems are stated with wt); the per-codec side
       conditions of root unwrap, map-value unwrap, flatten and discriminated oneof.
     C04_roundtrip_all_codecs_wt : the same with the hypothesis of props/C04.v's C04_roundtrip_full (wt), i.e.
       C04_roundtrip_full restricted by [codec_side_ok] and nothing else. *)
From Coq Require Import Lia ZArith List.
From Sebuf Require Import CodecCases.
From SebufProofs Require Import TextFacts CodecTextFacts ProtoJsonFacts CodecExamples CodecFacts.
From SebufProofs Require NullableFacts CodecCompose UnwrapRootFacts UnwrapMapFacts OneofPj OneofFacts FlattenFacts.
Import ListNotations.

Open Scope Z_scope.

(* ================================================================================================================ *)
(* the side predicate *)

(* no field is a member of a (real) oneof: what ProtoJsonFacts.wt asks of every message type (msg_ok).  The theorems
   of the five field codecs are stated with wt; "no codec" and flatten are proved for wt1 here (FlattenFacts), the
   unwrap codecs cannot have members *)
Definition no_members (md : message) : bool :=
  forallb (fun f => match f_oneof f with None => true | Some _ => false end) (m_fields md).

Definition codec_side_ok (sc : schema) (tn : str) (m : mval) : bool :=
  match lookup_message sc tn with
  | None => true                                   (* no such type: wt1 is false *)
  | Some md =>
      match owner_of sc md with
      | OwnNone => true                            (* protojson both ways, plain oneofs included *)
      | OwnMany => true                            (* encode = RUnm: nothing to show *)
      | Own FtNullable | Own FtInt64 | Own FtBytes | Own FtTs | Own FtEmpty => no_members md
      | Own FtUnwrapRoot => UnwrapRootFacts.unwrap_root_dom sc md
      | Own FtUnwrapMap => UnwrapMapFacts.gj_enums_rt sc md m && UnwrapMapFacts.reflected_maps_plain sc md m
      | Own FtFlatten => FlattenFacts.flatten_children_known sc md && FlattenFacts.flatten_probe_ok sc md m
      | Own FtOneof =>
          NullableFacts.nodup_str (map o_name (m_oneofs md)) && OneofFacts.oneof_keys_ok sc md m &&
          OneofFacts.disc_values_ok md && OneofFacts.variant_types_plain sc md m && OneofFacts.variant_no_gap sc md m
      end
  end.

(* ================================================================================================================ *)
(* wt1 and wt *)

Lemma msg_ok1_ok md : OneofPj.msg_ok1 md = true -> no_members md = true -> msg_ok md = true.
Proof.
  unfold OneofPj.msg_ok1, msg_ok, no_members. intros H1 Hn. apply andb_prop in H1. destruct H1 as [Hnd Hall].
  rewrite Hnd. cbn [andb]. rewrite forallb_forall in Hall, Hn. apply forallb_forall. intros f Hin.
  specialize (Hall f Hin). specialize (Hn f Hin). apply andb_prop in Hall. destruct Hall as [Hk _].
  rewrite Hk, Hn. reflexivity.
Qed.

Lemma msg_ok_no_members md : msg_ok md = true -> no_members md = true.
Proof.
  unfold msg_ok, no_members. intros H. apply andb_prop in H. destruct H as [_ Hall].
  rewrite forallb_forall in Hall. apply forallb_forall. intros f Hin. specialize (Hall f Hin).
  apply andb_prop in Hall. apply Hall.
Qed.

Lemma wt1_wt sc tn md m :
  str_eqb tn ts_name = false -> is_wkt_other tn = false -> find_message (all_messages sc) tn = Some md ->
  OneofPj.msg_ok1 md = true -> sorted_Z (map (fun e => num_of md (fst e)) m) = true -> wt_fields sc md m = true ->
  no_members md = true -> wt sc (KMessage tn) (FM m) = true.
Proof.
  intros Hts Hwk Hfm Hok1 Hsorted Hwf Hn. rewrite wt_FM, Hts, Hwk, Hfm, (msg_ok1_ok md Hok1 Hn), Hsorted, Hwf. reflexivity.
Qed.

(* under wt (the hypothesis of C04_roundtrip_full) no_members holds by itself *)
Lemma wt_no_members sc tn md m :
  str_eqb tn ts_name = false -> find_message (all_messages sc) tn = Some md ->
  wt sc (KMessage tn) (FM m) = true -> no_members md = true.
Proof.
  intros Hts Hfm Hwt. destruct (CodecCompose.wt_top sc tn m Hts Hwt) as [_ [md' [Hfm' [_ [Hok _]]]]].
  assert (md' = md) by congruence. subst md'. exact (msg_ok_no_members md Hok).
Qed.

(* a root-unwrap field is repeated or a map, a oneof member is singular *)
Lemma root_unwrap_no_members sc md :
  owner_of sc md = Own FtUnwrapRoot -> OneofPj.msg_ok1 md = true -> no_members md = true.
Proof.
  intros Hown Hok1.
  destruct (UnwrapRootFacts.root_unwrap_fields md (UnwrapRootFacts.owner_root_unwrap sc md Hown)) as [f [Hf [_ Hrm]]].
  unfold no_members. rewrite Hf. cbn [forallb]. rewrite Bool.andb_true_r.
  destruct (f_oneof f) as [o|] eqn:Ho; [exfalso|reflexivity].
  assert (Hin : In f (m_fields md)) by (rewrite Hf; left; reflexivity).
  pose proof (OneofPj.msg_ok1_member_singular md f o Hok1 Hin Ho) as Hc.
  unfold is_repeated, is_map in Hrm. rewrite Hc in Hrm. discriminate Hrm.
Qed.

(* the map-value unwrap codec compiles only when no field is a oneof member *)
Lemma unwrap_map_buildable_no_members sc md : buildable sc FtUnwrapMap md = true -> no_members md = true.
Proof.
  unfold buildable, no_members. intros Hb. rewrite forallb_forall in Hb. apply forallb_forall. intros f Hin.
  specialize (Hb f Hin). destruct (f_oneof f); [|reflexivity]. destruct (f_card f); discriminate Hb.
Qed.

(* two features on one message: MarshalJSON is declared twice, the model's encoder declines *)
Lemma encode_own_many_unm E sc tn md m :
  is_wkt_other tn = false -> lookup_message sc tn = Some md -> owner_of sc md = OwnMany ->
  encode E sc tn m = RUnm (s "two MarshalJSON features on one message (does not compile, C13)").
Proof.
  intros Hwk Hlk Hown.
  assert (Howns : owns sc tn = true) by (unfold owns; rewrite Hlk, Hown; reflexivity).
  unfold encode. rewrite Howns. simpl. rewrite Hwk, Hlk, Hown. reflexivity.
Qed.

(* ================================================================================================================ *)
(* the composed round trip *)
Theorem C04_roundtrip_all_codecs : forall E, ExtLaws E -> forall sc tn m j,
  OneofPj.wt1 sc tn m = true ->
  defects_C04 sc tn m = [] ->
  codec_side_ok sc tn m = true ->
  encode E sc tn m = ROk j -> decode E sc tn j = ROk (norm sc tn m).
Proof.
  intros E EL sc tn m j Hwt1 Hdef Hside Henc.
  destruct (OneofPj.wt1_inv sc tn m Hwt1) as [Hts [Hwk [md [Hfm [Hlk [Hok1 [Hsorted [Hwf Hex]]]]]]]].
  unfold codec_side_ok in Hside. rewrite Hlk in Hside.
  assert (Hfield : forall ft, owner_of sc md = Own ft -> CodecCompose.field_codec_ft ft = true ->
                              no_members md = true -> decode E sc tn j = ROk (norm sc tn m)).
  { intros ft Hown Hft Hn.
    apply (CodecCompose.C04_roundtrip_field_codecs E EL sc tn m j); [|exact (wt1_wt sc tn md m Hts Hwk Hfm Hok1 Hsorted Hwf Hn)|exact Hdef|exact Henc].
    unfold CodecCompose.field_codec_owner. rewrite Hlk, Hown. exact Hft. }
  destruct (owner_of sc md) as [|ft|] eqn:Hown.
  - (* no codec *)
    assert (Howns : owns sc tn = false) by (unfold owns; rewrite Hlk, Hown; reflexivity).
    exact (FlattenFacts.C04_roundtrip_plain1 E EL sc tn m j Howns Hwt1 Henc).
  - destruct ft.
    + (* root unwrap *)
      pose proof (root_unwrap_no_members sc md Hown Hok1) as Hn.
      exact (UnwrapRootFacts.unwrap_root_roundtrip E EL sc tn md m j Hts Hwk Hfm Hown Hside
               (wt1_wt sc tn md m Hts Hwk Hfm Hok1 Hsorted Hwf Hn) Hdef Henc).
    + (* map-value unwrap *)
      pose proof (unwrap_map_buildable_no_members sc md
                    (CodecCompose.encode_ok_buildable E sc tn md FtUnwrapMap m j Hwk Hlk Hown Henc)) as Hn.
      apply andb_prop in Hside. destruct Hside as [Hgj Hrefl].
      exact (UnwrapMapFacts.unwrap_map_roundtrip E EL sc tn md m j Hfm Hown
               (wt1_wt sc tn md m Hts Hwk Hfm Hok1 Hsorted Hwf Hn) Hdef Hgj Hrefl Henc).
    + exact (Hfield FtInt64 eq_refl eq_refl Hside).
    + exact (Hfield FtNullable eq_refl eq_refl Hside).
    + exact (Hfield FtEmpty eq_refl eq_refl Hside).
    + exact (Hfield FtTs eq_refl eq_refl Hside).
    + exact (Hfield FtBytes eq_refl eq_refl Hside).
    + (* flatten *)
      apply andb_prop in Hside. destruct Hside as [Hknown Hprobe].
      exact (FlattenFacts.flatten_roundtrip_unset1 E EL sc tn md m j Hfm Hown Hwt1 Hdef Hknown Hprobe Henc).
    + (* discriminated oneof *)
      apply andb_prop in Hside. destruct Hside as [Hside Hng]. apply andb_prop in Hside. destruct Hside as [Hside Htp].
      apply andb_prop in Hside. destruct Hside as [Hside Hdv]. apply andb_prop in Hside. destruct Hside as [Hon Hkeys].
      exact (OneofFacts.oneof_roundtrip E EL sc tn md m j Hfm Hown Hwt1 Hdef Hon Hkeys Hdv Htp Hng Henc).
  - (* two features: vacuous *)
    rewrite (encode_own_many_unm E sc tn md m Hwk Hlk Hown) in Henc. discriminate Henc.
Qed.

(* C04_roundtrip_full (props/C04.v) restricted by codec_side_ok and nothing else: same hypotheses otherwise *)
Theorem C04_roundtrip_all_codecs_wt : forall E, ExtLaws E -> forall sc tn m j,
  wt sc (KMessage tn) (FM m) = true ->
  defects_C04 sc tn m = [] ->
  codec_side_ok sc tn m = true ->
  encode E sc tn m = ROk j -> decode E sc tn j = ROk (norm sc tn m).
Proof.
  intros E EL sc tn m j Hwt Hdef Hside Henc.
  destruct (str_eqb tn ts_name) eqn:Hts.
  - apply str_eqb_eq in Hts. subst tn.
    exact (C04_roundtrip_plain E EL sc ts_name m j (CodecCompose.owns_ts_name sc) Hwt Henc).
  - exact (C04_roundtrip_all_codecs E EL sc tn m j (OneofPj.wt_wt1 sc tn m Hts Hwt) Hdef Hside Henc).
Qed.

(* ================================================================================================================ *)
(* how far the full statement is: what codec_side_ok still demands, owner kind by owner kind *)
Example codec_side_ok_demands : forall sc tn md m, lookup_message sc tn = Some md ->
  (owner_of sc md = OwnNone -> codec_side_ok sc tn m = true) /\
  (forall ft, CodecCompose.field_codec_ft ft = true -> owner_of sc md = Own ft -> codec_side_ok sc tn m = no_members md) /\
  (owner_of sc md = Own FtUnwrapRoot -> codec_side_ok sc tn m = UnwrapRootFacts.unwrap_root_dom sc md) /\
  (owner_of sc md = Own FtUnwrapMap ->
     codec_side_ok sc tn m = UnwrapMapFacts.gj_enums_rt sc md m && UnwrapMapFacts.reflected_maps_plain sc md m) /\
  (owner_of sc md = Own FtFlatten ->
     codec_side_ok sc tn m = FlattenFacts.flatten_children_known sc md && FlattenFacts.flatten_probe_ok sc md m) /\
  (owner_of sc md = Own FtOneof ->
     codec_side_ok sc tn m =
       NullableFacts.nodup_str (map o_name (m_oneofs md)) && OneofFacts.oneof_keys_ok sc md m &&
       OneofFacts.disc_values_ok md && OneofFacts.variant_types_plain sc md m && OneofFacts.variant_no_gap sc md m) /\
  (owner_of sc md = OwnMany -> codec_side_ok sc tn m = true).
Proof.
  intros sc tn md m Hlk. unfold codec_side_ok. rewrite Hlk.
  repeat split; try (intros Hown; rewrite Hown; reflexivity).
  intros ft Hft Hown. rewrite Hown. destruct ft; try discriminate Hft; reflexivity.
Qed.

(* the same for a value that is well-typed in the sense of C04_roundtrip_full (wt): no_members holds by itself, so
   nothing remains for the five field codecs either; root unwrap whose elements are messages: nothing *)
Example codec_side_ok_demands_wt : forall sc tn md m,
  str_eqb tn ts_name = false -> find_message (all_messages sc) tn = Some md -> wt sc (KMessage tn) (FM m) = true ->
  (owner_of sc md = OwnNone -> codec_side_ok sc tn m = true) /\
  (forall ft, CodecCompose.field_codec_ft ft = true -> owner_of sc md = Own ft -> codec_side_ok sc tn m = true) /\
  (owner_of sc md = Own FtUnwrapRoot -> UnwrapRootFacts.msg_elems sc md = true -> codec_side_ok sc tn m = true).
Proof.
  intros sc tn md m Hts Hfm Hwt.
  assert (Hlk : lookup_message sc tn = Some md) by (unfold lookup_message; rewrite Hts; exact Hfm).
  pose proof (wt_no_members sc tn md m Hts Hfm Hwt) as Hn.
  unfold codec_side_ok. rewrite Hlk. repeat split.
  - intros Hown. rewrite Hown. reflexivity.
  - intros ft Hft Hown. rewrite Hown. destruct ft; try discriminate Hft; exact Hn.
  - intros Hown Hme. rewrite Hown.
    destruct (UnwrapRootFacts.root_unwrap_fields md (UnwrapRootFacts.owner_root_unwrap sc md Hown)) as [f [Hf _]].
    unfold UnwrapRootFacts.msg_elems in Hme. rewrite Hf in Hme. apply andb_prop in Hme. destruct Hme as [Hk Hu].
    unfold UnwrapRootFacts.unwrap_root_dom. rewrite Hf. destruct (value_unwrap sc f) as [uf|].
    + unfold UnwrapRootFacts.uf_ok. rewrite Hu. reflexivity.
    + rewrite Hk. reflexivity.
Qed.

(* ================================================================================================================ *)
(* witnesses *)

(* every hypothesis of C04_roundtrip_all_codecs holds for (tn, m) — owner [ow], JSON [j] — and so does its
   conclusion, [back] being the normalised value *)
Definition all_case_ok (sc : schema) (tn : str) (ow : owner) (m : mval) (j : json) (back : mval) : Prop :=
  (exists md, lookup_message sc tn = Some md /\ owner_of sc md = ow) /\
  OneofPj.wt1 sc tn m = true /\ defects_C04 sc tn m = [] /\ codec_side_ok sc tn m = true /\
  encode Ex sc tn m = ROk j /\ norm sc tn m = back /\ decode Ex sc tn j = ROk back.

Ltac allok := split; [eexists; split; vm_compute; reflexivity|repeat split; vm_compute; reflexivity].

(* non-vacuity on the shared schema xs: ten owner kinds — no codec, int64 NUMBER, nullable, empty_behavior,
   timestamp_format, bytes_encoding, root unwrap, map-value unwrap, flatten (unset), discriminated oneof (non-flattened
   and flattened) *)
Example roundtrip_all_codecs_nonvacuous :
  all_case_ok xs (q "Leaf") OwnNone
    [(s "a", vstr "x"); (s "n", vint 3)]
    (JObj [(s "a", JStr (s "x")); (s "n", JStr (s "3"))])
    [(s "a", vstr "x"); (s "n", vint 3)] /\
  all_case_ok xs (q "Nums") (Own FtInt64)
    [(s "big", vint 9007199254740993); (s "name", vstr "n")]
    (JObj [(s "big", JNum 9007199254740993); (s "name", JStr (s "n"))])
    [(s "big", vint 9007199254740993); (s "name", vstr "n")] /\
  all_case_ok xs (q "Nul") (Own FtNullable)
    [(s "id", vstr "x")]
    (JObj [(s "id", JStr (s "x")); (s "nick", JNull)])
    [(s "id", vstr "x")] /\
  all_case_ok xs (q "Emp") (Own FtEmpty)
    [(s "nul_it", FM []); (s "omit", FM []); (s "id", vstr "x")]
    (JObj [(s "nulIt", JNull); (s "id", JStr (s "x"))])
    [(s "nul_it", FM []); (s "id", vstr "x")] /\
  all_case_ok xs (q "Times") (Own FtTs)
    [(s "secs", tsv 5 123456789); (s "day", tsv 90000 1); (s "id", vstr "x")]
    (JObj [(s "secs", JNum 5); (s "day", JStr (s "1970-01-02")); (s "id", JStr (s "x"))])
    [(s "secs", tsv 5 0); (s "day", tsv 86400 0); (s "id", vstr "x")] /\
  all_case_ok xs (q "Blob") (Own FtBytes)
    [(s "h", FS (VBytes [ch 105; ch 183])); (s "id", vstr "x")]
    (JObj [(s "h", JStr (s "69b7")); (s "id", JStr (s "x"))])
    [(s "h", FS (VBytes [ch 105; ch 183])); (s "id", vstr "x")] /\
  all_case_ok xs (q "BarList") (Own FtUnwrapRoot)
    [(s "bars", FL [FM [(s "a", vstr "x")]; FM []])]
    (JArr [JObj [(s "a", JStr (s "x"))]; JObj []])
    [(s "bars", FL [FM [(s "a", vstr "x")]; FM []])] /\
  all_case_ok xs (q "Series") (Own FtUnwrapMap)
    [(s "by_sym", FMap [(VStr (s "A"), FM [(s "bars", FL [FM [(s "a", vstr "x")]; FM []])])]);
     (s "total_count", vint 4); (s "ratio", FS (VFloat 4609434218613702656))]
    (JObj [(s "bySym", JObj [(s "A", JArr [JObj [(s "a", JStr (s "x"))]; JObj []])]);
           (s "totalCount", JNum 4); (s "ratio", jflt 4609434218613702656)])
    [(s "by_sym", FMap [(VStr (s "A"), FM [(s "bars", FL [FM [(s "a", vstr "x")]; FM []])])]);
     (s "total_count", vint 4); (s "ratio", FS (VFloat 4609434218613702656))] /\
  all_case_ok xs (q "Person") (Own FtFlatten)
    [(s "id", vstr "1")]
    (JObj [(s "id", JStr (s "1"))])
    [(s "id", vstr "1")] /\
  all_case_ok xs (q "Event") (Own FtOneof)
    [(s "eid", vstr "e"); (s "image", FM [(s "url", vstr "u")])]
    (JObj [(s "eid", JStr (s "e")); (s "image", JObj [(s "url", JStr (s "u"))]); (s "ctype", JStr (s "image"))])
    [(s "eid", vstr "e"); (s "image", FM [(s "url", vstr "u")])] /\
  all_case_ok xs (q "FlatEvent") (Own FtOneof)
    [(s "eid", vstr "e"); (s "wide", FM [])]
    (JObj [(s "eid", JStr (s "e")); (s "ctype", JStr (s "wide"))])
    [(s "eid", vstr "e"); (s "wide", FM [])].
Proof. do 10 (split; [allok|]). allok. Qed.

(* a schema for the two remaining corners *)
Definition als : schema :=
  [ {| fl_path := s "x/all.proto"; fl_package := s "x.v1"; fl_gopkg := s "x"; fl_generate := true;
       fl_messages :=
         [ (* two MarshalJSON features on one message *)
           msg "Two" [set_i64 (fld "big" 1 KInt64 Singular); set_nullable (fld "nick" 2 KString Optional)] [];
           (* a plain (not discriminated) oneof on a message without a codec, and beside a field codec *)
           msg "Pick" [fld "id" 1 KString Singular; set_oneof "c" (fld "a" 2 KString Singular); set_oneof "c" (fld "b" 3 KInt32 Singular)]
               [{| o_name := s "c"; o_has_cfg := false; o_discriminator := []; o_flatten := false |}];
           (* a plain oneof beside a flatten field *)
           msg "Addr" [fld "street" 1 KString Singular] [];
           msg "FlatPick" [fld "id" 1 KString Singular; set_flatten (fld "home" 2 (T "Addr") Singular);
                           set_oneof "c" (fld "a" 3 KString Singular); set_oneof "c" (fld "b" 4 KInt32 Singular)]
               [{| o_name := s "c"; o_has_cfg := false; o_discriminator := []; o_flatten := false |}];
           msg "PickNum" [set_i64 (fld "big" 1 KInt64 Singular); set_oneof "c" (fld "a" 2 KString Singular); set_oneof "c" (fld "b" 3 KInt32 Singular)]
               [{| o_name := s "c"; o_has_cfg := false; o_discriminator := []; o_flatten := false |}] ];
       fl_enums := []; fl_services := [] |} ].

(* OwnMany: every other hypothesis holds and the encoder answers RUnm — the case is vacuous *)
Example roundtrip_all_codecs_own_many_vacuous :
  let m := [(s "big", vint 5)] in
  (exists md, lookup_message als (q "Two") = Some md /\ owner_of als md = OwnMany) /\
  OneofPj.wt1 als (q "Two") m = true /\ defects_C04 als (q "Two") m = [] /\ codec_side_ok als (q "Two") m = true /\
  encode Ex als (q "Two") m = RUnm (s "two MarshalJSON features on one message (does not compile, C13)").
Proof. cbv zeta. split; [eexists; split; vm_compute; reflexivity|repeat split; vm_compute; reflexivity]. Qed.

(* beyond wt: a plain (not discriminated) oneof on a message without a codec, and beside an unset flatten field — wt
   rejects the type, wt1 accepts the value, codec_side_ok is true, and the theorem gives the round trip *)
Example roundtrip_all_codecs_plain_oneof :
  all_case_ok als (q "Pick") OwnNone
    [(s "id", vstr "x"); (s "b", vint 0)]
    (JObj [(s "id", JStr (s "x")); (s "b", JNum 0)])
    [(s "id", vstr "x"); (s "b", vint 0)] /\
  wt als (KMessage (q "Pick")) (FM [(s "id", vstr "x"); (s "b", vint 0)]) = false /\
  all_case_ok als (q "FlatPick") (Own FtFlatten)
    [(s "id", vstr "x"); (s "a", vstr "y")]
    (JObj [(s "id", JStr (s "x")); (s "a", JStr (s "y"))])
    [(s "id", vstr "x"); (s "a", vstr "y")] /\
  wt als (KMessage (q "FlatPick")) (FM [(s "id", vstr "x"); (s "a", vstr "y")]) = false.
Proof. split; [allok|]. split; [vm_compute; reflexivity|]. split; [allok|vm_compute; reflexivity]. Qed.

(* no_members (asked of the five field codecs only) is a limit of the proofs — the per-codec theorems are stated with
   wt — not a known exception: a plain oneof beside an int64 NUMBER field: codec_side_ok is false, every other
   hypothesis holds, and the round trip holds *)
Example roundtrip_all_codecs_no_members_limit :
  let m := [(s "big", vint 9007199254740993); (s "b", vint 0)] in
  (exists md, lookup_message als (q "PickNum") = Some md /\ owner_of als md = Own FtInt64 /\ no_members md = false) /\
  OneofPj.wt1 als (q "PickNum") m = true /\ wt als (KMessage (q "PickNum")) (FM m) = false /\
  defects_C04 als (q "PickNum") m = [] /\ codec_side_ok als (q "PickNum") m = false /\
  rt_holds Ex als (q "PickNum") m = true.
Proof.
  cbv zeta. split; [eexists; repeat split; vm_compute; reflexivity|repeat split; vm_compute; reflexivity].
Qed.

(* what codec_side_ok says on the shared schema: true for the un-annotated and field-codec types, for root unwrap, for
   flatten with the field unset; false where a per-codec side condition fails (FlatEvent with a Times member: the
   member's type owns a codec, OneofFacts.variant_types_plain) *)
Example codec_side_ok_examples :
  codec_side_ok xs (q "Plain") [] = true /\ codec_side_ok xs (q "Strs") [(s "vals", FL [vstr "a"])] = true /\
  codec_side_ok xs (q "Post") [(s "id", vstr "p")] = true /\
  codec_side_ok xs (q "FlatEvent") [(s "times", FM [(s "secs", tsv 5 0)])] = false /\
  codec_side_ok FlattenFacts.fls (q "Clash") [(s "street", vstr "s")] = false /\
  codec_side_ok xs ts_name [] = true /\ codec_side_ok xs (s "x.v1.Missing") [] = true /\
  OneofPj.wt1 xs (s "x.v1.Missing") [] = false.
Proof. vm_compute. repeat split; reflexivity. Qed.
Close Scope Z_scope.
