(* C05_conforms for the root-unwrap codec: a message whose only field carries (sebuf.http.unwrap), with
   un-annotated element messages (or scalar elements of the kinds encoding/json and protojson write alike),
   is sent exactly as the documented mapping says: the bare array / object of its field, wrappers collapsed
   to the array of their unwrap field.  Excluded: the nil scalar slice / map that Go writes as null
   (D5RootNull), 64-bit integers / enums / non-finite floats among scalar elements (D5UnwrapSibling). *)
From Sebuf Require Import CodecCases.
From SebufProofs Require Import TextFacts CodecTextFacts ProtoJsonFacts NullableFacts Int64Facts EmptyFacts MappingFacts UnwrapRootFacts.
From Coq Require Import Lia ZArith.

Open Scope Z_scope.

(* scalar kinds that encoding/json and protojson render alike (finite floats only) *)
Definition gj_same_kind (k : kind) : bool :=
  match k with
  | KBool | KString | KBytes | KInt32 | KSint32 | KSfixed32 | KUint32 | KFixed32 | KDouble | KFloat => true
  | _ => false
  end.

Section Conforms.
Variable E : ExtLib.
Variable sc : schema.

Definition scalar_conf (k : kind) (y : fval) : bool := gj_same_kind k && negb (nonfinite_in k y).
Definition elems_conf (k : kind) (y : fval) : bool := plain_in sc k y && (is_msg_kind k || scalar_conf k y).
Definition wrapper_conf (uf : field) (p : sval * fval) : bool :=
  match snd p with
  | FM wm => match mget wm (f_name uf) with
             | Some y => elems_conf (f_kind uf) y
             | None => is_msg_kind (f_kind uf)       (* a nil scalar slice inside a wrapper is written as null *)
             end
  | _ => false
  end.
(* the domain of the conformance theorem, on the message and the value *)
Definition root_conf (md : message) (m : mval) : bool :=
  match m_fields md with
  | [f] =>
      match value_unwrap sc f with
      | Some uf => is_repeated uf && ctx_field_ok uf &&
                   forallb (fun e => match snd e with FMap kv => forallb (wrapper_conf uf) kv | _ => false end) m
      | None => ctx_field_ok f && (is_msg_kind (f_kind f) || match m with [] => false | _ => true end) &&
                forallb (fun e => elems_conf (f_kind f) (snd e)) m
      end
  | _ => false
  end.

Lemma m_list_rall k l : m_list E sc k l = rall (map (pj_fval E sc k) l).
Proof. induction l as [|x r IH]; [reflexivity|]. simpl. rewrite <- IH. reflexivity. Qed.

Lemma m_map_rall k kv : m_map E sc k kv = rall (map (encB E sc k) kv).
Proof.
  induction kv as [|[key x] r IH]; [reflexivity|]. simpl. rewrite <- IH. unfold encB. cbn [fst snd].
  destruct (key_text key) as [kt|?|?]; cbn [rbind]; try reflexivity.
  destruct (pj_fval E sc k x) as [j|?|?]; cbn [rbind]; reflexivity.
Qed.

Lemma gj_pj_scalar k x : gj_same_kind k = true -> float_special k (FS x) = false ->
  gj_scalar E sc k x = pj_scalar E sc k x.
Proof.
  intros Hk Hf. destruct k as [| | | | | | | | | | | | | | | tn | tn0]; try discriminate Hk; destruct x as [z|bb|sx|bx|bits|en]; try reflexivity.
  - cbn [gj_scalar pj_scalar]. unfold float_json. cbn [float_special] in Hf.
    destruct (fclassify true bits); try discriminate Hf. reflexivity.
  - cbn [gj_scalar pj_scalar]. unfold float_json. cbn [float_special] in Hf.
    destruct (fclassify false bits); try discriminate Hf. reflexivity.
Qed.

Lemma nonfinite_FL_in k l y : nonfinite_in k (FL l) = false -> In y l -> nonfinite_in k y = false.
Proof.
  cbn [nonfinite_in]. induction l as [|a r IH]; intros H Hy; [destruct Hy|].
  apply Bool.orb_false_iff in H. destruct H as [H1 H2]. destruct Hy as [Hy|Hy]; [subst a; exact H1|apply IH; assumption].
Qed.
Lemma nonfinite_FMap_in k (kv : list (sval * fval)) p : nonfinite_in k (FMap kv) = false -> In p kv -> nonfinite_in k (snd p) = false.
Proof.
  cbn [nonfinite_in]. induction kv as [|[key a] r IH]; intros H Hy; [destruct Hy|].
  apply Bool.orb_false_iff in H. destruct H as [H1 H2]. destruct Hy as [Hy|Hy]; [subst p; exact H1|apply IH; assumption].
Qed.

(* a well-typed list of scalars: encoding/json = protojson *)
Lemma gj_pj_list k l :
  is_msg_kind k = false -> Forall (fun y => wt sc k y = true) l -> scalar_conf k (FL l) = true ->
  rall (map (gj_fval E sc k) l) = rall (map (pj_fval E sc k) l).
Proof.
  intros Hk HF Hc. unfold scalar_conf in Hc. apply andb_prop in Hc. destruct Hc as [Hs Hn]. apply Bool.negb_true_iff in Hn.
  apply rall_map_ext. intros y Hy. rewrite Forall_forall in HF.
  destruct (wt_nonmsg sc k y Hk (HF y Hy)) as [x [Hx _]]. subst y.
  cbn [gj_fval pj_fval]. apply gj_pj_scalar; [exact Hs|]. exact (nonfinite_FL_in k l (FS x) Hn Hy).
Qed.

Lemma gj_scalar_list_pj k l :
  is_msg_kind k = false -> Forall (fun y => wt sc k y = true) l -> scalar_conf k (FL l) = true ->
  gj_scalar_list E sc k l = pj_fval E sc k (FL l).
Proof.
  intros Hk HF Hc. unfold gj_scalar_list. rewrite pj_fval_FL, m_list_rall, <- (gj_pj_list k l Hk HF Hc).
  f_equal. apply rall_map_ext. intros y Hy. rewrite Forall_forall in HF.
  destruct (wt_nonmsg sc k y Hk (HF y Hy)) as [x [Hx _]]. subst y. reflexivity.
Qed.

Lemma mp_pick_mget uf (wm : mval) :
  mp_pick E sc uf wm = match mget wm (f_name uf) with
                       | Some y => mp_fval E sc (Some uf) (f_kind uf) y
                       | None => ROk (JArr [])
                       end.
Proof.
  induction wm as [|[n y] t IH]; [reflexivity|]. cbn [mp_pick mget].
  rewrite (EmptyFacts.str_eqb_sym (f_name uf) n). destruct (str_eqb n (f_name uf)); [reflexivity|exact IH].
Qed.

Lemma unwrap_field_value_list vmd uf : unwrap_field vmd = Some uf -> is_repeated uf = true -> mp_value_list vmd = Some uf.
Proof.
  unfold unwrap_field, unwrap_fields, mp_value_list, mp_unwrap_field.
  destruct (filter (fun f => f_unwrap f) (m_fields vmd)) as [|u [|u' t]]; try discriminate.
  destruct (is_repeated u || is_map u); [|discriminate]. intros H Hr. inversion H; subst u.
  unfold is_repeated in Hr. destruct (f_card uf) eqn:Ec; try discriminate Hr. rewrite Ec. reflexivity.
Qed.

Lemma value_unwrap_mp_uw f uf : value_unwrap sc f = Some uf -> is_repeated uf = true -> mp_uw sc (f_kind f) = Some uf.
Proof.
  unfold value_unwrap, mp_uw. destruct (is_map f); [|discriminate].
  destruct (f_kind f) as [| | | | | | | | | | | | | | | tn | tn0]; try discriminate. destruct (lookup_message sc tn0) as [vmd|]; [|discriminate].
  apply unwrap_field_value_list.
Qed.

Lemma root_mp_unwrap md f : m_fields md = [f] -> f_unwrap f = true -> (is_repeated f || is_map f) = true ->
  mp_root_unwrap md = Some f.
Proof.
  intros Hf Hu Hc. unfold mp_root_unwrap, mp_unwrap_field. rewrite Hf. cbn [filter]. rewrite Hu.
  unfold is_repeated, is_map in Hc. destruct (f_card f); try discriminate Hc; reflexivity.
Qed.

Lemma owner_root_no_flatten md f : owner_of sc md = Own FtUnwrapRoot -> In f (m_fields md) -> is_flatten f = false.
Proof.
  intros H Hin. pose proof (owner_root_unwrap sc md H) as Hr. apply EmptyFacts.owner_single in H.
  destruct (is_flatten f) eqn:Efl; [exfalso|reflexivity].
  assert (Hex : existsb is_flatten (m_fields md) = true) by (apply existsb_exists; exists f; split; assumption).
  assert (Hin2 : In FtFlatten (features sc md)).
  { unfold features. rewrite Hex. do 6 (apply in_or_app; right). apply in_or_app. left. left. reflexivity. }
  rewrite H in Hin2. destruct Hin2 as [Hd|[]]. discriminate Hd.
Qed.

(* the wrapper of a combined map: its unwrap field, when populated, is a well-typed non-empty list *)
Lemma wrapper_shape f uf wm :
  value_unwrap sc f = Some uf -> is_repeated uf = true -> wt sc (f_kind f) (FM wm) = true ->
  match mget wm (f_name uf) with
  | Some y => exists l, y = FL l /\ Forall (fun z => wt sc (f_kind uf) z = true) l
  | None => True
  end.
Proof.
  intros Hvu Hrep Hw.
  destruct (value_unwrap_facts sc f uf Hvu) as [vtn [vmd [Hk [Hts [Hfm Hin]]]]].
  rewrite Hk in Hw. rewrite wt_FM, Hts, Hfm in Hw. apply andb_prop in Hw. destruct Hw as [_ Hw].
  apply andb_prop in Hw. destruct Hw as [Hw Hwf]. apply andb_prop in Hw. destruct Hw as [Hmok Hsorted].
  assert (Hcard : f_card uf = Repeated) by (unfold is_repeated in Hrep; destruct (f_card uf); try discriminate Hrep; reflexivity).
  destruct (mget wm (f_name uf)) as [y|] eqn:Eg; [|exact I].
  pose proof (Int64Facts.mget_pair wm (f_name uf) y Eg) as Hinw.
  destruct (Int64Facts.wt_fields_in sc vmd wm (f_name uf) y Hwf Hinw) as [g [Hg Hwe]].
  destruct (find_field_spec _ _ _ Hg) as [Hing Hname].
  assert (g = uf).
  { eapply nodup_jn_inj; eauto using Int64Facts.msg_ok_nodup_jn. unfold jn. rewrite Hname. reflexivity. }
  subst g. destruct (wt_entry_repeated sc uf y Hcard Hwe) as [e [l [Hy HF]]]. exists (e :: l). split; assumption.
Qed.

(* one wrapper: the emitted array = the documented array *)
Lemma wrapper_conforms f uf w :
  value_unwrap sc f = Some uf -> is_repeated uf = true -> ctx_field_ok uf = true ->
  wt sc (f_kind f) w = true -> wrapper_conf uf (VInt 0, w) = true ->
  unwrap_array E sc uf w = match w with FM wm => mp_pick E sc uf wm | _ => RUnm [] end.
Proof.
  intros Hvu Hrep Hctx Hw Hc. unfold wrapper_conf in Hc. cbn [snd] in Hc.
  destruct w as [sx|wm|l0|kv0]; try discriminate Hc.
  pose proof (wrapper_shape f uf wm Hvu Hrep Hw) as Hsh.
  rewrite mp_pick_mget. unfold unwrap_array.
  destruct (mget wm (f_name uf)) as [y|] eqn:Eg.
  - destruct Hsh as [l [Hy HF]]. subst y. unfold elems_conf in Hc. apply andb_prop in Hc. destruct Hc as [Hpl Hc].
    rewrite (mapping_plain_fval E sc (FL l) (Some uf) (f_kind uf) Hctx Hpl).
    destruct (is_msg_kind (f_kind uf)) eqn:Emk.
    + unfold pj_list. rewrite pj_fval_FL, m_list_rall. reflexivity.
    + cbn [orb] in Hc. apply gj_scalar_list_pj; assumption.
  - rewrite Hc. reflexivity.
Qed.

Theorem conforms_unwrap_root : forall tn md m,
  str_eqb tn ts_name = false -> is_wkt_other tn = false ->
  find_message (all_messages sc) tn = Some md -> owner_of sc md = Own FtUnwrapRoot ->
  buildable sc FtUnwrapRoot md = true ->
  wt sc (KMessage tn) (FM m) = true ->
  root_conf md m = true ->
  encode E sc tn m = to_json E sc tn m.
Proof.
  intros tn md m Hts Hwk Hfm Hown Hb Hwt Hconf.
  assert (Hlk : lookup_message sc tn = Some md) by (unfold lookup_message; rewrite Hts; exact Hfm).
  assert (Howns : owns sc tn = true) by (unfold owns; rewrite Hlk, Hown; reflexivity).
  destruct (root_unwrap_fields md (owner_root_unwrap sc md Hown)) as [f [Hf [Hunw Hcard]]].
  pose proof (root_mp_unwrap md f Hf Hunw Hcard) as Hmru.
  unfold encode. rewrite Howns, (gj_fval_owned E sc tn md FtUnwrapRoot m Hwk Hlk Hown).
  unfold to_json. rewrite mp_fval_FM, Hts, Hwk, Hfm.
  unfold codec_body. rewrite Hb. cbn [negb].
  unfold root_conf in Hconf. rewrite Hf in Hconf. unfold is_repeated, is_map in Hcard.
  destruct (wt_root_single sc tn md f m Hts Hfm Hf Hwt) as [Hmok [Hm|[x [Hm Hwe]]]]; subst m.
  - (* nothing set *)
    rewrite kids_root_nil. cbn [rbind mp_msg]. unfold mp_finish. rewrite Hmru.
    unfold enc_unwrap_root. rewrite Hf. cbn [mget].
    destruct (f_card f) as [| | |kk] eqn:Hc; try discriminate Hcard.
    + rewrite (value_unwrap_repeated sc f Hc) in Hconf.
      destruct (is_msg_kind (f_kind f)); [reflexivity|]. cbn [orb andb] in Hconf. rewrite Bool.andb_false_r in Hconf. discriminate Hconf.
    + destruct (value_unwrap sc f) as [uf|].
      * destruct (is_repeated uf); [reflexivity|discriminate Hconf].
      * destruct (is_msg_kind (f_kind f)); [reflexivity|]. cbn [orb andb] in Hconf. rewrite Bool.andb_false_r in Hconf. discriminate Hconf.
  - (* the field is populated *)
    assert (Hfl : is_flatten f = false) by (apply (owner_root_no_flatten md f Hown); rewrite Hf; left; reflexivity).
    assert (Hoo : mp_oneof_of md f = None).
    { unfold mp_oneof_of. assert (Hk : find_field (m_fields md) (f_name f) = Some f) by (rewrite Hf; cbn [find_field]; rewrite str_eqb_refl; reflexivity).
      destruct (msg_ok_key md (f_name f) f Hmok Hk) as [_ Ho]. rewrite Ho. reflexivity. }
    (* Spec: the value of the field *)
    assert (Hspec : forall r, mp_fval E sc (Some f) (f_kind f) x = r ->
              mp_msg E sc md [(f_name f, x)] >>= mp_finish md [(f_name f, x)] = r).
    { intros r Hr. cbn [mp_msg]. rewrite Hf. cbn [find_field]. rewrite str_eqb_refl. unfold mp_entry.
      assert (Hx : match f_empty f, x with
                   | Some EBNull, FM [] => ROk [PField (json_name (f_name f)) JNull]
                   | Some EBOmit, FM [] => ROk []
                   | _, _ => mp_fval E sc (Some f) (f_kind f) x >>= (fun j =>
                       match f_flatten f with
                       | Some true => spread_of (match f_flatten_prefix f with Some p => p | None => [] end) j >>= (fun p => ROk [p])
                       | _ => match mp_oneof_of md f with
                              | Some o => if o_flatten o && match f_kind f with KMessage _ => true | _ => false end
                                          then spread_of [] j >>= (fun p => ROk [PDisc (o_discriminator o) (mp_disc_value f); p])
                                          else ROk [PDisc (o_discriminator o) (mp_disc_value f); PField (json_name (f_name f)) j]
                              | None => ROk [PField (json_name (f_name f)) j]
                              end
                       end)
                   end = mp_fval E sc (Some f) (f_kind f) x >>= (fun j => ROk [PField (json_name (f_name f)) j])).
      { rewrite Hoo. unfold is_flatten in Hfl.
        assert (Hshape : match x with FL _ | FMap _ => True | _ => False end).
        { unfold wt_entry in Hwe. destruct (f_card f), x; try discriminate Hwe; try discriminate Hcard; exact I. }
        destruct x as [sx|cm|l|kv]; try contradiction;
          destruct (f_empty f) as [[| | |]|]; destruct (f_flatten f) as [[|]|]; try discriminate Hfl; reflexivity. }
      rewrite Hx, Hr. destruct r as [j|er|w]; cbn [rbind]; try reflexivity.
      cbn [app]. unfold mp_finish. rewrite Hmru. reflexivity. }
    rewrite (kids_root_one E sc md f x Hf).
    unfold enc_unwrap_root. rewrite Hf. cbn [mget]. rewrite str_eqb_refl.
    cbn [forallb snd] in Hconf.
    destruct (f_card f) as [| | |kk] eqn:Hc; try discriminate Hcard.
    + (* a list *)
      rewrite (value_unwrap_repeated sc f Hc) in Hconf.
      destruct (wt_entry_repeated sc f x Hc Hwe) as [e [l [Hx HF]]]. subst x.
      apply andb_prop in Hconf. destruct Hconf as [Hconf Hel]. rewrite Bool.andb_true_r in Hel.
      apply andb_prop in Hconf. destruct Hconf as [Hctx _].
      unfold elems_conf in Hel. apply andb_prop in Hel. destruct Hel as [Hpl Hel].
      symmetry. apply Hspec. rewrite (mapping_plain_fval E sc (FL (e :: l)) (Some f) (f_kind f) Hctx Hpl).
      destruct (is_msg_kind (f_kind f)) eqn:Emk.
      * cbn [negb rbind]. unfold pj_list. rewrite pj_fval_FL, m_list_rall. reflexivity.
      * cbn [negb orb] in *. rewrite gj_fval_FL, (gj_pj_list (f_kind f) (e :: l) Emk HF Hel), <- m_list_rall, <- pj_fval_FL.
        destruct (pj_fval E sc (f_kind f) (FL (e :: l))) as [j|er|w]; cbn [rbind kid]; rewrite ?str_eqb_refl; reflexivity.
    + (* a map *)
      assert (Hkk : kk = KString).
      { unfold buildable in Hb. rewrite Hf in Hb. cbn [forallb] in Hb. rewrite Hc in Hb.
        apply kind_eqb_string. destruct (kind_eqb kk KString); [reflexivity|discriminate Hb]. }
      subst kk.
      destruct (wt_entry_map sc f KString x Hc Hwe) as [e [kv [Hx [Hs HF]]]]. subst x.
      symmetry. apply Hspec.
      destruct (value_unwrap sc f) as [uf|] eqn:Evu.
      * (* combined *)
        apply andb_prop in Hconf. destruct Hconf as [Hconf Hws]. rewrite Bool.andb_true_r in Hws.
        apply andb_prop in Hconf. destruct Hconf as [Hrep Hctx]. rewrite Hrep.
        rewrite mp_fval_FMap. unfold unwrap_map_obj.
        destruct (is_msg_kind (f_kind f)) eqn:Emk; cbn [negb rbind]; [|exfalso].
        2:{ destruct (value_unwrap_facts sc f uf Evu) as [vtn [vmd [Hk _]]]. rewrite Hk in Emk. discriminate Emk. }
        f_equal. 
        assert (Hloop : forall kv0, Forall (fun p => wt_key KString (fst p) = true /\ wt sc (f_kind f) (snd p) = true) kv0 ->
                   forallb (wrapper_conf uf) kv0 = true ->
                   mp_map E sc (Some f) (f_kind f) kv0 = rall (map (encC E sc uf) kv0)).
        { intros kv0 HF0. induction HF0 as [|[key w] r [_ Hw] _ IH]; intros Hc0; [reflexivity|].
          cbn [forallb] in Hc0. apply andb_prop in Hc0. destruct Hc0 as [Hcw Hcr]. cbn [snd] in Hw.
          cbn [mp_map map rall]. rewrite (IH Hcr). rewrite (value_unwrap_mp_uw f uf Evu Hrep).
          unfold encC. cbn [fst snd].
          assert (Hcw' : wrapper_conf uf (VInt 0, w) = true) by exact Hcw.
          rewrite (wrapper_conforms f uf w Evu Hrep Hctx Hw Hcw').
          unfold wrapper_conf in Hcw. cbn [snd] in Hcw. destruct w as [sx|wm|l0|kv1]; try discriminate Hcw.
          destruct (key_text key) as [kt|?|?]; cbn [rbind]; try reflexivity.
          destruct (mp_pick E sc uf wm) as [j|?|?]; cbn [rbind]; reflexivity. }
        exact (Hloop (e :: kv) HF Hws).
      * apply andb_prop in Hconf. destruct Hconf as [Hconf Hel]. rewrite Bool.andb_true_r in Hel.
        apply andb_prop in Hconf. destruct Hconf as [Hctx _].
        unfold elems_conf in Hel. apply andb_prop in Hel. destruct Hel as [Hpl Hel].
        rewrite (mapping_plain_fval E sc (FMap (e :: kv)) (Some f) (f_kind f) Hctx Hpl).
        rewrite pj_fval_FMap, m_map_rall.
        destruct (is_msg_kind (f_kind f)) eqn:Emk.
        -- cbn [negb rbind]. reflexivity.
        -- cbn [negb orb] in *. unfold scalar_conf in Hel. apply andb_prop in Hel. destruct Hel as [Hsk Hnf].
           apply Bool.negb_true_iff in Hnf.
           rewrite gj_fval_FMap.
           assert (Hsame : rall (map (enc_gm E sc (f_kind f)) (e :: kv)) = rall (map (encB E sc (f_kind f)) (e :: kv))).
           { apply rall_map_ext. intros [key y] Hy. rewrite Forall_forall in HF. destruct (HF _ Hy) as [Hwk' Hwy]. cbn [fst snd] in Hwk', Hwy.
             destruct (wt_nonmsg sc (f_kind f) y Emk Hwy) as [sx [Hx _]]. subst y.
             unfold enc_gm, encB. cbn [fst snd gj_fval pj_fval].
             rewrite (gj_pj_scalar (f_kind f) sx Hsk (nonfinite_FMap_in (f_kind f) (e :: kv) (key, FS sx) Hnf Hy)).
             destruct key; try discriminate Hwk'. reflexivity. }
           rewrite Hsame.
           destruct (rall (map (encB E sc (f_kind f)) (e :: kv))) as [es|er|w]; cbn [rbind kid]; rewrite ?str_eqb_refl; reflexivity.
Qed.
End Conforms.
Close Scope Z_scope.
