(* GoRtFacts.v — the emitted Go client and the emitted Go server agree on one call:
   outside the known defect classes the handler sees the request the caller sent. *)
From Coq Require Import ZifyN ZifyNat ZifyBool.
From Sebuf Require Import Text Route Schema Value Num Url GoRt.
From SebufProofs Require Import TextFacts RouteFacts NumFacts UrlFacts.

(* ---- typed scalars ---------------------------------------------------------------------------- *)

Definition typed_scalar (k : kind) (v : sval) : Prop :=
  match k, v with
  | KString, VStr _ => True
  | KBool, VBool _ => True
  | KInt32, VInt z | KSint32, VInt z | KSfixed32, VInt z => (- 2 ^ 31 <= z < 2 ^ 31)%Z
  | KInt64, VInt z | KSint64, VInt z | KSfixed64, VInt z => (- 2 ^ 63 <= z < 2 ^ 63)%Z
  | KUint32, VInt z | KFixed32, VInt z => (0 <= z < 2 ^ 32)%Z
  | KUint64, VInt z | KFixed64, VInt z => (0 <= z < 2 ^ 64)%Z
  | _, _ => False
  end.

Definition in_range (lo hi z : Z) : bool := (lo <=? z)%Z && (z <? hi)%Z.

Definition typed_scalarb (k : kind) (v : sval) : bool :=
  match k, v with
  | KString, VStr _ => true
  | KBool, VBool _ => true
  | KInt32, VInt z | KSint32, VInt z | KSfixed32, VInt z => in_range (- 2 ^ 31) (2 ^ 31) z
  | KInt64, VInt z | KSint64, VInt z | KSfixed64, VInt z => in_range (- 2 ^ 63) (2 ^ 63) z
  | KUint32, VInt z | KFixed32, VInt z => in_range 0 (2 ^ 32) z
  | KUint64, VInt z | KFixed64, VInt z => in_range 0 (2 ^ 64) z
  | _, _ => false
  end.

Lemma in_range_spec lo hi z : in_range lo hi z = true -> (lo <= z < hi)%Z.
Proof. unfold in_range. intros H. apply andb_true_iff in H as [H1 H2]. lia. Qed.

Lemma typed_scalarb_sound k v : typed_scalarb k v = true -> typed_scalar k v.
Proof.
  destruct k, v; cbv beta iota delta [typed_scalarb typed_scalar]; intros H;
    try discriminate H; try exact I; apply in_range_spec; exact H.
Qed.

Lemma typed_url_kind k v : typed_scalar k v -> url_kind_ok k = true.
Proof. destruct k, v; cbv beta iota delta [typed_scalar]; intros H; try contradiction; reflexivity. Qed.

(* C1 *)
Lemma convert_sprint : forall k v, url_kind_ok k = true -> typed_scalar k v ->
  convert k (sprint v) = Some v.
Proof.
  intros k v _ Ht.
  destruct k, v; cbv beta iota delta [typed_scalar] in Ht; try contradiction;
    cbv beta iota delta [convert sprint].
  all: try reflexivity.
  all: try (rewrite parse_bool_show; reflexivity).
  all: try (rewrite (parse_int_show 32 z) by (try reflexivity; exact Ht); reflexivity).
  all: try (rewrite (parse_int_show 64 z) by (try reflexivity; exact Ht); reflexivity).
  all: try (rewrite (parse_uint_show 32 z) by exact Ht; reflexivity).
  all: try (rewrite (parse_uint_show 64 z) by exact Ht; reflexivity).
Qed.

Lemma typed_zero k v : typed_scalar k v -> is_zero v = true -> v = zero_of k.
Proof.
  destruct k, v; cbv beta iota delta [typed_scalar]; intros Ht Hz; try contradiction;
    cbv beta iota delta [is_zero] in Hz; cbv beta iota delta [zero_of].
  all: try (apply Z.eqb_eq in Hz; now subst).
  - destruct b; [discriminate|reflexivity].
  - apply str_eqb_eq in Hz. now subst.
Qed.

Lemma is_zero_zero_of k : is_zero (zero_of k) = true.
Proof. destruct k; reflexivity. Qed.

Lemma typed_zero_of k : url_kind_ok k = true -> typed_scalar k (zero_of k).
Proof.
  destruct k; intros H; try discriminate H; cbv beta iota delta [typed_scalar zero_of];
    try exact I; lia.
Qed.

(* printed form of a typed non-zero scalar is not empty *)
Lemma sprint_nonzero k v : typed_scalar k v -> is_zero v = false -> sprint v <> [].
Proof.
  destruct k, v; cbv beta iota delta [typed_scalar]; intros Ht Hz; try contradiction;
    cbv beta iota delta [sprint].
  all: try apply show_int_nonempty.
  - apply show_bool_nonempty.
  - cbv beta iota delta [is_zero] in Hz. now apply str_eqb_neq in Hz.
Qed.

(* ---- C2: canonical message values -------------------------------------------------------------- *)

Lemma mget_mremove_same m k : mget (mremove m k) k = None.
Proof.
  induction m as [|[k' v] m IH]; [reflexivity|]. cbn [mremove].
  destruct (str_eqb k k') eqn:E; [exact IH|]. cbn [mget]. now rewrite E.
Qed.

Lemma mget_mremove_other m k g : g <> k -> mget (mremove m k) g = mget m g.
Proof.
  intros Hne. induction m as [|[k' v] m IH]; [reflexivity|]. cbn [mremove mget].
  destruct (str_eqb k k') eqn:E.
  - apply str_eqb_eq in E. subst k'.
    assert (E2 : str_eqb g k = false) by now apply str_eqb_neq.
    now rewrite E2.
  - cbn [mget]. now rewrite IH.
Qed.

Lemma mget_minsert_same fs m k v : mget m k = None -> mget (minsert fs m k v) k = Some v.
Proof.
  induction m as [|[k' v'] m IH]; intros H; cbn [minsert].
  - cbn [mget]. now rewrite str_eqb_refl.
  - cbn [mget] in H. destruct (str_eqb k k') eqn:E; [discriminate|].
    destruct (field_num fs k <? field_num fs k')%Z; cbn [mget].
    + now rewrite str_eqb_refl.
    + rewrite E. now apply IH.
Qed.

Lemma mget_minsert_other fs m k v g : g <> k -> mget (minsert fs m k v) g = mget m g.
Proof.
  intros Hne. assert (E2 : str_eqb g k = false) by now apply str_eqb_neq.
  induction m as [|[k' v'] m IH]; cbn [minsert].
  - cbn [mget]. now rewrite E2.
  - destruct (field_num fs k <? field_num fs k')%Z; cbn [mget].
    + now rewrite E2.
    + now rewrite IH.
Qed.

Lemma scalar_of_mset_same fs m f v :
  url_kind_ok (f_kind f) = true -> typed_scalar (f_kind f) v ->
  scalar_of (mset_scalar fs m f v) f = v.
Proof.
  intros _ Ht. unfold scalar_of, mset_scalar.
  destruct (is_zero v) eqn:Ez.
  - rewrite mget_mremove_same. symmetry. now apply typed_zero.
  - rewrite mget_minsert_same by apply mget_mremove_same. reflexivity.
Qed.

Lemma scalar_of_mset_other fs m f v g : f_name g <> f_name f ->
  scalar_of (mset_scalar fs m f v) g = scalar_of m g.
Proof.
  intros Hne. unfold scalar_of, mset_scalar.
  destruct (is_zero v).
  - now rewrite mget_mremove_other.
  - now rewrite mget_minsert_other, mget_mremove_other.
Qed.

Lemma mset_scalar_zero_nil fs f v : is_zero v = true -> mset_scalar fs [] f v = [].
Proof. intros H. unfold mset_scalar. now rewrite H. Qed.

(* ---- find_field -------------------------------------------------------------------------------- *)

Lemma find_field_some fs v f : find_field fs v = Some f -> In f fs /\ f_name f = v.
Proof.
  induction fs as [|g fs IH]; cbn [find_field]; intros H; [discriminate|].
  destruct (str_eqb (f_name g) v) eqn:E.
  - inversion H; subst. apply str_eqb_eq in E. split; [now left|exact E].
  - apply IH in H as [H1 H2]. split; [now right|exact H2].
Qed.

Lemma find_field_nodup fs f : NoDup (map f_name fs) -> In f fs -> find_field fs (f_name f) = Some f.
Proof.
  induction fs as [|g fs IH]; intros Hnd Hin; [contradiction|].
  cbn [map] in Hnd. inversion Hnd as [|? ? Hni Hnd']; subst. cbn [find_field].
  destruct Hin as [->|Hin].
  - now rewrite str_eqb_refl.
  - destruct (str_eqb (f_name g) (f_name f)) eqn:E.
    + apply str_eqb_eq in E. exfalso. apply Hni. rewrite E. now apply in_map.
    + now apply IH.
Qed.

Lemma field_name_inj fs f g : NoDup (map f_name fs) -> In f fs -> In g fs -> f_name f = f_name g -> f = g.
Proof.
  intros Hnd Hf Hg E. pose proof (find_field_nodup fs f Hnd Hf) as H1.
  pose proof (find_field_nodup fs g Hnd Hg) as H2. rewrite E in H1. congruence.
Qed.

(* ---- C3: a pattern matches its own filled segments ---------------------------------------------- *)

Lemma all_ok_cons {A} (a : result A) l t : all_ok (a :: l) = Ok t ->
  exists x t', a = Ok x /\ all_ok l = Ok t' /\ t = x :: t'.
Proof.
  cbn [all_ok]. destruct a as [x|w]; [|discriminate].
  destruct (all_ok l) as [t'|w]; [|discriminate]. intros H. inversion H. now exists x, t'.
Qed.

Definition field_url_ok (f : field) : bool :=
  url_kind_ok (f_kind f) && match f_card f with Singular => true | _ => false end.

(* printed value of the field a path variable names *)
Definition var_val (fs : list field) (req : mval) (v : str) : str :=
  match find_field fs v with Some f => sprint (scalar_of req f) | None => [] end.

Definition fill_str (fs : list field) (req : mval) (g : seg) : str :=
  match g with SLit x => x | SVar v => path_escape (var_val fs req v) end.

Definition bindings (fs : list field) (req : mval) (vars : list str) : list (str * str) :=
  map (fun v => (v, var_val fs req v)) vars.

Lemma fill_seg_var fs req v x : fill_seg fs req (SVar v) = Ok x ->
  exists f, find_field fs v = Some f /\ field_url_ok f = true /\ x = path_escape (var_val fs req v).
Proof.
  unfold fill_seg, var_val, field_url_ok. destruct (find_field fs v) as [f|]; [|discriminate].
  destruct (url_kind_ok (f_kind f) && match f_card f with Singular => true | _ => false end) eqn:E;
    [|discriminate].
  intros H. inversion H. exists f. repeat split. exact E.
Qed.

Lemma fill_all fs req : forall segs filled,
  all_ok (map (fill_seg fs req) segs) = Ok filled ->
  filled = map (fill_str fs req) segs /\
  (forall v, In v (seg_vars segs) -> exists f, find_field fs v = Some f /\ field_url_ok f = true).
Proof.
  induction segs as [|g segs IH]; intros filled H.
  - cbn in H. inversion H. split; [reflexivity|intros v []].
  - cbn [map] in H. apply all_ok_cons in H as [x [t [Hx [Ht ->]]]].
    destruct (IH t Ht) as [IH1 IH2]. destruct g as [lit|v].
    + cbn in Hx. inversion Hx; subst x. split; [cbn [map fill_str]; now f_equal|exact IH2].
    + apply fill_seg_var in Hx as [f [Hf [Hok ->]]]. split; [cbn [map fill_str]; now f_equal|].
      intros v' Hin. cbn [seg_vars flat_map app] in Hin. destruct Hin as [<-|Hin]; [now exists f|].
      now apply IH2.
Qed.

Lemma seg_unescape_escape x : seg_unescape (path_escape x) = x.
Proof. unfold seg_unescape. now rewrite path_unescape_escape. Qed.

Lemma seg_vars_cons_lit x segs : seg_vars (SLit x :: segs) = seg_vars segs.
Proof. reflexivity. Qed.
Lemma seg_vars_cons_var v segs : seg_vars (SVar v :: segs) = v :: seg_vars segs.
Proof. reflexivity. Qed.

Lemma match_segs_lit x pr e sr : str_eqb (seg_unescape e) (seg_unescape x) = true ->
  (pr = [] -> sr = []) ->
  match_segs (SLit x :: pr) (e :: sr) = match_segs pr sr.
Proof.
  intros E Hlen. destruct x as [|c x].
  - destruct pr as [|g pr].
    + rewrite (Hlen eq_refl). reflexivity.
    + cbn [match_segs]. now rewrite E.
  - cbn [match_segs]. now rewrite E.
Qed.

Lemma match_fill_map fs req : forall segs,
  (forall v, In v (seg_vars segs) -> var_val fs req v <> [] /\ var_val fs req v <> [slash]) ->
  match_segs segs (map (fill_str fs req) segs) = Some (bindings fs req (seg_vars segs)).
Proof.
  induction segs as [|g segs IH]; intros Hv; [reflexivity|].
  destruct g as [x|v].
  - cbn [map fill_str]. rewrite match_segs_lit.
    + rewrite seg_vars_cons_lit. apply IH. intros v Hin. now apply Hv.
    + apply str_eqb_refl.
    + intros ->. reflexivity.
  - cbn [map fill_str]. rewrite seg_vars_cons_var in *.
    destruct (Hv v (or_introl eq_refl)) as [Hne Hns].
    cbn [match_segs]. rewrite seg_unescape_escape.
    apply str_eqb_neq in Hne. apply str_eqb_neq in Hns. rewrite Hne, Hns. cbn [orb].
    rewrite IH; [reflexivity|]. intros v' Hin. apply Hv. now right.
Qed.

(* C3 *)
Lemma match_fill fs req segs filled :
  all_ok (map (fill_seg fs req) segs) = Ok filled ->
  (forall v, In v (seg_vars segs) -> var_val fs req v <> [] /\ var_val fs req v <> [slash]) ->
  match_segs segs filled = Some (bindings fs req (seg_vars segs)).
Proof.
  intros H Hv. apply fill_all in H as [-> _]. now apply match_fill_map.
Qed.

(* a template without '%' has only literals that unescape to themselves *)
Lemma unescape_no_pct b x : ~ In "%"%char x -> (b = false \/ ~ In "+"%char x) -> unescape b x = Some x.
Proof.
  induction x as [|c x IH]; intros Hp Hplus; [reflexivity|].
  assert (E : Ascii.eqb c "%"%char = false).
  { apply ascii_eqb_neq. intros ->. apply Hp. now left. }
  rewrite unescape_plain by exact E. rewrite IH.
  - destruct Hplus as [->|Hplus]; [reflexivity|].
    assert (E2 : Ascii.eqb c "+"%char = false).
    { apply ascii_eqb_neq. intros ->. apply Hplus. now left. }
    now rewrite E2, andb_false_r.
  - intros Hin. apply Hp. now right.
  - destruct Hplus as [->|Hplus]; [now left|right]. intros Hin. apply Hplus. now right.
Qed.

Lemma seg_unescape_no_pct x : ~ In "%"%char x -> seg_unescape x = x.
Proof. intros H. unfold seg_unescape, path_unescape. rewrite unescape_no_pct; auto. Qed.

(* ---- templates -------------------------------------------------------------------------------- *)

Lemma all_some_map {A B} (f : A -> option B) : forall l out, all_some (map f l) = Some out ->
  (l <> [] -> out <> []) /\ forall y, In y out -> exists x, In x l /\ f x = Some y.
Proof.
  induction l as [|a l IH]; intros out H.
  - cbn in H. inversion H. split; [congruence|intros y []].
  - cbn [map all_some] in H. destruct (f a) as [b|] eqn:Ea; [|discriminate].
    destruct (all_some (map f l)) as [t|] eqn:Et; [|discriminate]. inversion H; subst out.
    destruct (IH t eq_refl) as [_ IH2]. split; [discriminate|].
    intros y [<-|Hy]; [exists a; split; [now left|exact Ea]|].
    destruct (IH2 y Hy) as [x [Hx Hf]]. exists x. split; [now right|exact Hf].
Qed.

Lemma seg_of_lit x y : seg_of x = Some (SLit y) -> y = x.
Proof.
  unfold seg_of. destruct x as [|c r]; [intros H; now inversion H|].
  destruct (Ascii.eqb c lbrace).
  - destruct (rev r) as [|d m]; [discriminate|].
    destruct (Ascii.eqb d rbrace && negb (has_brace (rev m)) && negb (str_eqb (rev m) [])); discriminate.
  - destruct (has_brace (c :: r)); [discriminate|]. intros H. now inversion H.
Qed.

Lemma tsegs_inv p segs : tsegs p = Some segs ->
  (exists rest, p = slash :: rest) /\ segs <> [] /\ forall x, In (SLit x) segs -> ~ In slash x.
Proof.
  unfold tsegs. destruct p as [|c rest]; [discriminate|].
  destruct (Ascii.eqb c slash) eqn:E; [|discriminate]. apply Ascii.eqb_eq in E. subst c.
  intros H. apply all_some_map in H as [H1 H2]. split; [now exists rest|]. split.
  - apply H1. apply split_on_nonempty.
  - intros x Hin. destruct (H2 _ Hin) as [y [Hy Hs]]. apply seg_of_lit in Hs. subst x.
    now apply (split_on_no_sep slash rest).
Qed.

(* ---- the filled path is clean and splits back into its segments -------------------------------- *)

Lemma str_eqb_path_escape_fix y z : path_escape z = z -> str_eqb (path_escape y) z = str_eqb y z.
Proof.
  intros Hz. destruct (str_eqb y z) eqn:E.
  - apply str_eqb_eq in E. subst y. rewrite Hz. apply str_eqb_refl.
  - apply str_eqb_neq. intros E2. rewrite <- Hz in E2. apply path_escape_inj in E2.
    apply str_eqb_neq in E. contradiction.
Qed.

Lemma dirty_path_escape y : dirty_seg (path_escape y) = dirty_seg y.
Proof. unfold dirty_seg. now rewrite !str_eqb_path_escape_fix by reflexivity. Qed.

Lemma nil_path_escape y : str_eqb (path_escape y) [] = str_eqb y [].
Proof. now apply str_eqb_path_escape_fix. Qed.

Lemma clean_segs_cons2 x y l :
  clean_segs (x :: y :: l) = negb (dirty_seg x) && negb (str_eqb x []) && clean_segs (y :: l).
Proof. reflexivity. Qed.

Lemma clean_fill fs req : forall segs,
  clean_segs (map pat_seg_str segs) = true ->
  (forall v, In v (seg_vars segs) -> var_val fs req v <> [] /\ dirty_seg (var_val fs req v) = false) ->
  clean_segs (map (fill_str fs req) segs) = true.
Proof.
  induction segs as [|g segs IH]; intros Hc Hv; [reflexivity|].
  assert (Hd : negb (dirty_seg (pat_seg_str g)) = true -> negb (dirty_seg (fill_str fs req g)) = true).
  { destruct g as [x|v]; [trivial|]. intros _. cbn [fill_str]. rewrite dirty_path_escape.
    destruct (Hv v (or_introl eq_refl)) as [_ Hd]. now rewrite Hd. }
  assert (Hn : negb (str_eqb (pat_seg_str g) []) = true -> negb (str_eqb (fill_str fs req g) []) = true).
  { destruct g as [x|v]; [trivial|]. intros _. cbn [fill_str]. rewrite nil_path_escape.
    destruct (Hv v (or_introl eq_refl)) as [Hne _]. apply str_eqb_neq in Hne. now rewrite Hne. }
  destruct segs as [|g2 segs].
  - cbn [map clean_segs] in *. now apply Hd.
  - cbn [map] in *. rewrite clean_segs_cons2 in *.
    apply andb_true_iff in Hc as [Hc Hc3]. apply andb_true_iff in Hc as [Hc1 Hc2].
    rewrite (Hd Hc1), (Hn Hc2). cbn [andb]. apply IH; [exact Hc3|].
    intros v Hin. apply Hv. destruct g as [x|u]; [exact Hin|now right].
Qed.

Lemma fill_no_slash fs req segs : (forall x, In (SLit x) segs -> ~ In slash x) ->
  forall y, In y (map (fill_str fs req) segs) -> ~ In slash y.
Proof.
  intros Hl y Hy. apply in_map_iff in Hy as [g [<- Hg]]. destruct g as [x|v]; cbn [fill_str].
  - now apply Hl.
  - exact (path_escape_no_slash _).
Qed.

(* ---- route agreement from the C03 tags that matter for routing ---------------------------------- *)

Lemma filter_nil_app {A} (P : A -> bool) l1 l2 : filter P (l1 ++ l2) = [] -> filter P l1 = [] /\ filter P l2 = [].
Proof. rewrite filter_app. apply app_nil_split. Qed.

Lemma route_agree r : filter route_defect (defects_C03 r) = [] -> go_server_path r = client_path r.
Proof.
  unfold defects_C03. intros H.
  apply filter_nil_app in H as [H1 H]. apply filter_nil_app in H as [H2 H]. apply filter_nil_app in H as [H3 _].
  unfold go_server_path, client_path.
  destruct (cfg_path r) as [|c cs] eqn:Ec; [discriminate|].
  destruct (ri_base r) as [|b bs] eqn:Eb.
  - destruct (has_prefix [slash] (c :: cs)) eqn:Ep; [|discriminate].
    unfold build_http_path. now rewrite (ensure_leading_slash_id (c :: cs) Ep).
  - destruct (has_prefix [slash] (b :: bs)) eqn:Ep; [|discriminate].
    unfold build_http_path.
    rewrite (ensure_leading_slash_id (b :: bs) Ep).
    rewrite <- (slash_trim_prefix (c :: cs)) by discriminate. reflexivity.
Qed.

(* ---- the server's route table ------------------------------------------------------------------- *)

Definition sroute_of (sc : schema) (fl : file) (sv : service) (md : method) (p : list seg) : sroute :=
  {| sr_md := md; sr_fields := in_fields sc md;
     sr_route := go_server (info_of fl sv md (in_fields sc md)); sr_pat := p |}.

Definition md_pattern (sc : schema) (fl : file) (sv : service) (md : method) : spat :=
  server_pattern (go_server_path (info_of fl sv md (in_fields sc md))).

Lemma existsb_false_forall {A} (f : A -> bool) l : existsb f l = false -> forall x, In x l -> f x = false.
Proof.
  intros H x Hin. destruct (f x) eqn:E; [|reflexivity].
  assert (T : existsb f l = true) by (apply existsb_exists; now exists x). congruence.
Qed.

Lemma server_routes_inv sc fl sv rs : server_routes sc fl sv = Ok (Some rs) ->
  (forall md, In md (sv_methods sv) -> md_pattern sc fl sv md <> PatPanic) /\
  (forall r0, In r0 rs <-> exists md p, In md (sv_methods sv) /\ md_pattern sc fl sv md = PatOk p /\
                                        r0 = sroute_of sc fl sv md p).
Proof.
  unfold server_routes.
  set (item := fun md : method => (md, in_fields sc md, go_server (info_of fl sv md (in_fields sc md)),
                 server_pattern (rt_path (go_server (info_of fl sv md (in_fields sc md)))))).
  destruct (existsb (fun i : method * list field * route * spat =>
                       match snd i with PatUnmodelled => true | _ => false end)
                    (map item (sv_methods sv))) eqn:E1; [discriminate|].
  destruct (existsb (fun i : method * list field * route * spat =>
                       match snd i with PatPanic => true | _ => false end)
                    (map item (sv_methods sv))) eqn:E2; [discriminate|].
  intros H. inversion H as [Hrs]. clear H Hrs. split.
  - intros md0 Hin Hp.
    pose proof (existsb_false_forall _ _ E2 (item md0) (in_map item _ _ Hin)) as F.
    unfold item in F. cbn [snd] in F. unfold md_pattern in Hp. cbn [rt_path go_server] in F.
    rewrite Hp in F. discriminate.
  - intros r0. rewrite in_flat_map. split.
    + intros [i [Hi Hr0]]. apply in_map_iff in Hi as [md0 [<- Hmd0]].
      unfold item in Hr0. cbn [rt_path go_server] in Hr0.
      destruct (server_pattern (go_server_path (info_of fl sv md0 (in_fields sc md0)))) as [p| | |] eqn:Ep;
        try contradiction.
      destruct Hr0 as [<-|[]]. exists md0, p. repeat split; assumption.
    + intros [md0 [p [Hin [Hp ->]]]]. exists (item md0). split; [now apply in_map|].
      unfold item. cbn [rt_path go_server]. unfold md_pattern in Hp. rewrite Hp. now left.
Qed.

Lemma server_pattern_of_tsegs p segs : tsegs p = Some segs -> server_pattern p <> PatPanic ->
  server_pattern p = PatOk segs /\ clean_segs (map pat_seg_str segs) = true.
Proof.
  intros Ht Hp. destruct (tsegs_inv p segs Ht) as [[rest ->] _].
  unfold server_pattern in *. rewrite Ascii.eqb_refl in *. rewrite Ht in *.
  unfold unclean_pattern in *. destruct (clean_segs (map pat_seg_str segs)); cbn [negb] in *.
  - now split.
  - congruence.
Qed.

(* ---- find_route --------------------------------------------------------------------------------- *)

Definition fr_step (v : verb) (segs : list str) :=
  fun (best : option (sroute * list (str * str))) (r : sroute) =>
      if verb_eqb (rt_verb (sr_route r)) v then
        match match_segs (sr_pat r) segs with
        | Some b =>
            match best with
            | Some (r0, b0) => if more_specific (sr_pat r0) (sr_pat r) then best else Some (r, b)
            | None => Some (r, b)
            end
        | None => best
        end
      else best.

Lemma find_route_fold rs v segs : find_route rs v segs = fold_left (fr_step v segs) rs None.
Proof. reflexivity. Qed.

Lemma fr_sound v segs (R : sroute -> Prop) : forall rs best,
  (forall r b, best = Some (r, b) ->
     R r /\ verb_eqb (rt_verb (sr_route r)) v = true /\ match_segs (sr_pat r) segs = Some b) ->
  (forall r, In r rs -> R r) ->
  forall r b, fold_left (fr_step v segs) rs best = Some (r, b) ->
     R r /\ verb_eqb (rt_verb (sr_route r)) v = true /\ match_segs (sr_pat r) segs = Some b.
Proof.
  induction rs as [|r1 rs IH]; intros best Hb HR r b H; cbn [fold_left] in H; [now apply Hb|].
  apply (IH (fr_step v segs best r1)); [|intros r' Hr'; apply HR; now right|exact H].
  intros r' b' Hs. unfold fr_step in Hs.
  destruct (verb_eqb (rt_verb (sr_route r1)) v) eqn:Ev; [|now apply Hb].
  destruct (match_segs (sr_pat r1) segs) as [b1|] eqn:Em; [|now apply Hb].
  destruct best as [[r0 b0]|].
  - destruct (more_specific (sr_pat r0) (sr_pat r1)); [now apply Hb|].
    inversion Hs; subst. repeat split; [apply HR; now left|exact Ev|exact Em].
  - inversion Hs; subst. repeat split; [apply HR; now left|exact Ev|exact Em].
Qed.

Lemma fr_step_some v segs best r : best <> None -> fr_step v segs best r <> None.
Proof.
  intros H. unfold fr_step. destruct (verb_eqb _ v); [|exact H].
  destruct (match_segs _ segs); [|exact H].
  destruct best as [[r0 b0]|]; [|congruence].
  destruct (more_specific _ _); discriminate.
Qed.

Lemma fr_complete v segs : forall rs best,
  (best <> None \/ exists r b, In r rs /\ verb_eqb (rt_verb (sr_route r)) v = true /\
                               match_segs (sr_pat r) segs = Some b) ->
  fold_left (fr_step v segs) rs best <> None.
Proof.
  induction rs as [|r1 rs IH]; intros best H; cbn [fold_left].
  - destruct H as [H|[r [b [[] _]]]]. exact H.
  - apply IH. destruct H as [H|[r [b [[->|Hin] [Hv Hm]]]]].
    + left. now apply fr_step_some.
    + left. unfold fr_step. rewrite Hv, Hm. destruct best as [[r0 b0]|]; [|discriminate].
      destruct (more_specific _ _); discriminate.
    + right. exists r, b. repeat split; assumption.
Qed.

(* ---- binding ------------------------------------------------------------------------------------ *)

Lemma find_binding fs req v : forall vars, In v vars ->
  exists p, find (fun p : str * str => str_eqb (fst p) v) (bindings fs req vars) = Some p /\
            snd p = var_val fs req v.
Proof.
  induction vars as [|u vars IH]; intros Hin; [contradiction|].
  cbn [bindings map find fst]. destruct (str_eqb u v) eqn:E.
  - apply str_eqb_eq in E. subst u. eexists. split; [reflexivity|reflexivity].
  - destruct Hin as [->|Hin]; [now rewrite str_eqb_refl in E|]. now apply IH.
Qed.

Fixpoint set_vars (fs : list field) (req : mval) (vars : list str) (m : mval) : mval :=
  match vars with
  | [] => m
  | v :: r => match find_field fs v with
              | None => set_vars fs req r m
              | Some f => set_vars fs req r (mset_scalar fs m f (scalar_of req f))
              end
  end.

Fixpoint set_query (fs : list field) (req : mval) (qfs : list field) (m : mval) : mval :=
  match qfs with
  | [] => m
  | f :: r => if is_zero (scalar_of req f) then set_query fs req r m
              else set_query fs req r (mset_scalar fs m f (scalar_of req f))
  end.

Lemma bind_path_ok fs req allvars : forall vars m,
  incl vars allvars ->
  (forall v f, In v vars -> find_field fs v = Some f ->
     var_val fs req v <> [] /\ url_kind_ok (f_kind f) = true /\ typed_scalar (f_kind f) (scalar_of req f)) ->
  bind_path fs vars (bindings fs req allvars) m = inl (set_vars fs req vars m).
Proof.
  induction vars as [|v vars IH]; intros m Hincl Hv; [reflexivity|].
  cbn [bind_path set_vars].
  assert (Hrec : forall m', bind_path fs vars (bindings fs req allvars) m' = inl (set_vars fs req vars m')).
  { intros m'. apply IH; [intros x Hx; apply Hincl; now right|].
    intros v' f' Hin. apply Hv. now right. }
  destruct (find_field fs v) as [f|] eqn:Ef; [|apply Hrec].
  destruct (find_binding fs req v allvars (Hincl v (or_introl eq_refl))) as [p [Hp Hs]].
  rewrite Hp, Hs.
  destruct (Hv v f (or_introl eq_refl) Ef) as [Hne [Hk Ht]].
  apply str_eqb_neq in Hne. rewrite Hne.
  unfold var_val. rewrite Ef. rewrite (convert_sprint _ _ Hk Ht). apply Hrec.
Qed.

Lemma bind_query_nil fs : forall qfs m, existsb qrequired qfs = false -> bind_query fs qfs [] m = inl m.
Proof.
  induction qfs as [|f qfs IH]; intros m H; [reflexivity|].
  cbn [existsb] in H. apply orb_false_iff in H as [H1 H2].
  cbn [bind_query query_values filter map]. rewrite H1. now apply IH.
Qed.

Lemma bind_query_ok fs req q : forall qfs m,
  (forall f, In f qfs ->
     query_values q (qname f) = (if is_zero (scalar_of req f) then [] else [sprint (scalar_of req f)]) /\
     (is_zero (scalar_of req f) = true -> qrequired f = false) /\
     url_kind_ok (f_kind f) = true /\ typed_scalar (f_kind f) (scalar_of req f)) ->
  bind_query fs qfs q m = inl (set_query fs req qfs m).
Proof.
  induction qfs as [|f qfs IH]; intros m H; [reflexivity|].
  cbn [bind_query set_query].
  destruct (H f (or_introl eq_refl)) as [Hq [Hreq [Hk Ht]]]. rewrite Hq.
  assert (Hrec : forall m', bind_query fs qfs q m' = inl (set_query fs req qfs m')).
  { intros m'. apply IH. intros g Hg. apply H. now right. }
  destruct (is_zero (scalar_of req f)) eqn:Ez.
  - rewrite (Hreq eq_refl). apply Hrec.
  - rewrite (convert_sprint _ _ Hk Ht). apply Hrec.
Qed.

Lemma scalar_of_nil f : scalar_of [] f = zero_of (f_kind f).
Proof. reflexivity. Qed.

Lemma set_vars_nil fs : forall vars, set_vars fs [] vars [] = [].
Proof.
  induction vars as [|v vars IH]; [reflexivity|]. cbn [set_vars].
  destruct (find_field fs v) as [f|]; [|exact IH].
  rewrite mset_scalar_zero_nil; [exact IH|]. rewrite scalar_of_nil. apply is_zero_zero_of.
Qed.

(* ---- canonical message values ------------------------------------------------------------------------ *)
(* A canonical value lists its populated fields in strictly increasing field-number order, every key is a
   field of the message, and a singular URL-capable scalar (string, bool, integer kinds) is stored only
   when it is not the zero value, as an [FS].  The harness's MsgCanon produces such values (implicit-
   presence scalars are listed only when non-default); the one exception is a oneof member of such a kind
   explicitly set to its zero value, for which [canonical] fails and the theorem below does not apply. *)
Definition key_ok (fs : list field) (k : str) (v : fval) : bool :=
  match find_field fs k with
  | None => false
  | Some g => if field_url_ok g then match v with FS x => negb (is_zero x) | _ => false end else true
  end.

Fixpoint canonicalb (fs : list field) (m : mval) : bool :=
  match m with
  | [] => true
  | (k, v) :: r =>
      key_ok fs k v && forallb (fun kv : str * fval => (field_num fs k <? field_num fs (fst kv))%Z) r &&
      canonicalb fs r
  end.

Definition canonical (fs : list field) (m : mval) : Prop := canonicalb fs m = true.

Lemma mget_In m k x : mget m k = Some x -> In (k, x) m.
Proof.
  induction m as [|[k' v] m IH]; cbn [mget]; [discriminate|].
  destruct (str_eqb k k') eqn:E.
  - intros H. inversion H. subst. apply str_eqb_eq in E. subst. now left.
  - intros H. right. now apply IH.
Qed.

Lemma mremove_absent m k : mget m k = None -> mremove m k = m.
Proof.
  induction m as [|[k' v] m IH]; [reflexivity|]. cbn [mget mremove].
  destruct (str_eqb k k'); [discriminate|]. intros H. now rewrite IH.
Qed.

Lemma mget_later fs k r :
  forallb (fun kv : str * fval => (field_num fs k <? field_num fs (fst kv))%Z) r = true -> mget r k = None.
Proof.
  induction r as [|[k2 v2] r IH]; [reflexivity|]. cbn [forallb fst mget]. intros H.
  apply andb_true_iff in H as [H1 H2]. destruct (str_eqb k k2) eqn:E; [|now apply IH].
  apply str_eqb_eq in E. subst k2. apply Z.ltb_lt in H1. lia.
Qed.

Lemma canonical_key_ok fs : forall m k v, canonical fs m -> In (k, v) m -> key_ok fs k v = true.
Proof.
  unfold canonical. induction m as [|[k' v'] m IH]; intros k v H Hin; [contradiction|].
  cbn [canonicalb] in H. apply andb_true_iff in H as [H H3]. apply andb_true_iff in H as [H1 H2].
  destruct Hin as [E|Hin]; [inversion E; now subst|now apply IH].
Qed.

Lemma minsert_mremove_canonical fs k v : forall m, canonical fs m -> mget m k = Some v ->
  minsert fs (mremove m k) k v = m.
Proof.
  unfold canonical. induction m as [|[k' v'] m IH]; intros H Hg; [discriminate|].
  cbn [canonicalb] in H. apply andb_true_iff in H as [H H3]. apply andb_true_iff in H as [H1 H2].
  cbn [mget] in Hg. cbn [mremove]. destruct (str_eqb k k') eqn:E.
  - apply str_eqb_eq in E. subst k'. inversion Hg. subst v'.
    rewrite (mremove_absent m k (mget_later fs k m H2)).
    destruct m as [|[k2 v2] m]; [reflexivity|]. cbn [minsert].
    cbn [forallb fst] in H2. apply andb_true_iff in H2 as [H2 _]. now rewrite H2.
  - cbn [minsert].
    assert (L : (field_num fs k <? field_num fs k')%Z = false).
    { apply Z.ltb_ge. rewrite forallb_forall in H2. specialize (H2 (k, v) (mget_In _ _ _ Hg)).
      cbn [fst] in H2. apply Z.ltb_lt in H2. lia. }
    rewrite L. f_equal. now apply IH.
Qed.

(* re-binding a URL-capable singular field with the value the message already gives it changes nothing *)
Lemma mset_scalar_same_canonical fs m f : canonical fs m ->
  find_field fs (f_name f) = Some f -> field_url_ok f = true ->
  mset_scalar fs m f (scalar_of m f) = m.
Proof.
  intros Hc Hf Hok. unfold mset_scalar, scalar_of.
  destruct (mget m (f_name f)) as [v|] eqn:Eg.
  - pose proof (canonical_key_ok fs m _ _ Hc (mget_In _ _ _ Eg)) as K. unfold key_ok in K.
    rewrite Hf, Hok in K. destruct v as [x| | |]; try discriminate K.
    apply negb_true_iff in K. rewrite K. now apply minsert_mremove_canonical.
  - rewrite is_zero_zero_of. now apply mremove_absent.
Qed.

Lemma set_vars_canonical fs m : canonical fs m -> forall vars,
  (forall v f, In v vars -> find_field fs v = Some f -> field_url_ok f = true) ->
  set_vars fs m vars m = m.
Proof.
  intros Hc. induction vars as [|v vars IH]; intros H; [reflexivity|]. cbn [set_vars].
  assert (H' : forall v0 f, In v0 vars -> find_field fs v0 = Some f -> field_url_ok f = true).
  { intros v0 f Hin. apply H. now right. }
  destruct (find_field fs v) as [f|] eqn:Ef; [|now apply IH].
  destruct (find_field_some fs v f Ef) as [_ Hname].
  rewrite mset_scalar_same_canonical; [now apply IH|exact Hc|now rewrite Hname|].
  now apply (H v f (or_introl eq_refl)).
Qed.

(* ---- well-formedness predicates used by the main theorems ---------------------------------------- *)

Fixpoint strs_eqb (a b : list str) : bool :=
  match a, b with
  | [], [] => true
  | x :: a', y :: b' => str_eqb x y && strs_eqb a' b'
  | _, _ => false
  end.

Lemma strs_eqb_eq a : forall b, strs_eqb a b = true -> a = b.
Proof.
  induction a as [|x a IH]; intros [|y b] H; cbn in H; try discriminate; [reflexivity|].
  apply andb_true_iff in H as [H1 H2]. apply str_eqb_eq in H1. subst. f_equal. now apply IH.
Qed.

(* the variables of the client's template are exactly the variables of the method's own path
   (none come from the service base path) *)
Definition template_ok (r : rpc_info) : bool :=
  match tsegs (client_path r) with
  | Some segs => strs_eqb (seg_vars segs) (path_vars r)
  | None => false
  end.

(* every path variable's field prints to a non-empty string *)
Definition path_vals_nonempty (fs : list field) (req : mval) (vars : list str) : bool :=
  forallb (fun v => negb (str_eqb (var_val fs req v) [])) vars.

(* URL-capable scalar fields hold values of their declared type *)
Definition req_typed (fs : list field) (req : mval) : Prop :=
  forall f, In f fs -> url_kind_ok (f_kind f) = true -> typed_scalar (f_kind f) (scalar_of req f).

Definition req_typedb (fs : list field) (req : mval) : bool :=
  forallb (fun f => negb (url_kind_ok (f_kind f)) || typed_scalarb (f_kind f) (scalar_of req f)) fs.

Lemma req_typedb_sound fs req : req_typedb fs req = true -> req_typed fs req.
Proof.
  unfold req_typedb, req_typed. intros H f Hin Hk. rewrite forallb_forall in H.
  specialize (H f Hin). rewrite Hk in H. cbn [negb orb] in H. now apply typed_scalarb_sound.
Qed.

Lemma verb_eqb_refl v : verb_eqb v v = true.
Proof. now destruct v. Qed.

Lemma nodup_map_inj {A B} (f : A -> B) l a b :
  NoDup (map f l) -> In a l -> In b l -> f a = f b -> a = b.
Proof.
  induction l as [|x l IH]; intros Hnd Ha Hb E; [contradiction|].
  cbn [map] in Hnd. inversion Hnd as [|? ? Hni Hnd']; subst.
  destruct Ha as [->|Ha], Hb as [->|Hb].
  - reflexivity.
  - exfalso. apply Hni. rewrite E. now apply in_map.
  - exfalso. apply Hni. rewrite <- E. now apply in_map.
  - now apply IH.
Qed.

Lemma field_url_ok_kind f : field_url_ok f = true -> url_kind_ok (f_kind f) = true.
Proof. unfold field_url_ok. intros H. now apply andb_true_iff in H as [H _]. Qed.

(* ---- reading the defect list --------------------------------------------------------------------- *)

Lemma if_nil {A} (b : bool) (x : A) : (if b then [x] else []) = [] -> b = false.
Proof. destruct b; [discriminate|reflexivity]. Qed.

Lemma dup_fix_false : forall l,
  (fix dup (l : list str) : bool :=
     match l with [] => false | x :: t => existsb (str_eqb x) t || dup t end) l = false -> NoDup l.
Proof.
  induction l as [|x l IH]; intros H; [constructor|].
  apply orb_false_iff in H as [H1 H2]. constructor; [|now apply IH].
  intros Hin. pose proof (existsb_false_forall _ _ H1 x Hin) as F. now rewrite str_eqb_refl in F.
Qed.

Section Call.
Variables (sc : schema) (fl : file) (sv : service) (md : method) (ct : ctype) (req : mval).
Notation fs := (in_fields sc md).
Notation r := (info_of fl sv md (in_fields sc md)).

Lemma defects_nil_inv : defects_C01 sc fl sv md ct req = [] ->
  filter route_defect (defects_C03 r) = [] /\
  (forall v f, In v (path_vars r) -> find_field fs v = Some f -> dirty_seg (sprint (scalar_of req f)) = false) /\
  (forall v f, In v (path_vars r) -> find_field fs v = Some f ->
               str_eqb (sprint (scalar_of req f)) [slash] = false) /\
  (verb_has_body (eff_verb r) = true -> existsb qrequired (query_fields fs) = false) /\
  server_routes sc fl sv <> Ok None /\
  (forall w rs, client_build fl sv md fs ct req = Ok w -> server_routes sc fl sv = Ok (Some rs) ->
     forall n, dispatched_to rs w = Some n -> n = md_name md).
Proof.
  unfold defects_C01. cbv zeta. intros H.
  apply app_nil_split in H as [H1 H].
  apply app_nil_split in H as [H3 H]. apply app_nil_split in H as [H4 H].
  apply app_nil_split in H as [H5 H]. apply app_nil_split in H as [H6 H].
  apply app_nil_split in H as [H7 _].
  repeat split.
  - now apply map_eq_nil in H1.
  - intros v f Hv Hf. apply if_nil in H3.
    pose proof (existsb_false_forall _ _ H3 v Hv) as F. cbv beta in F. now rewrite Hf in F.
  - intros v f Hv Hf. apply if_nil in H4.
    pose proof (existsb_false_forall _ _ H4 v Hv) as F. cbv beta in F. now rewrite Hf in F.
  - intros Hb. apply if_nil in H5. now rewrite Hb in H5.
  - intros E. rewrite E in H6. discriminate.
  - intros w rs Hw Hrs n Hn. rewrite Hw, Hrs, Hn in H7.
    destruct (str_eqb n (md_name md)) eqn:E; [now apply str_eqb_eq in E|discriminate].
Qed.

(* the three components added for the gaps between the defect list and the theorems *)
Lemma defects_nil_inv2 : defects_C01 sc fl sv md ct req = [] ->
  (verb_has_body (eff_verb r) = false ->
     forall f, In f (query_fields fs) -> qrequired f = true -> is_zero (scalar_of req f) = false) /\
  ~ In lbrace (ri_base r) /\
  (verb_has_body (eff_verb r) = false -> NoDup (map qname (query_fields fs))).
Proof.
  unfold defects_C01. cbv zeta. intros H.
  do 6 (apply app_nil_split in H as [_ H]).
  apply app_nil_split in H as [H1 H]. apply app_nil_split in H as [H2 H4].
  repeat split.
  - intros Hb f Hf Hr. apply if_nil in H1. rewrite Hb in H1. cbn [negb andb] in H1.
    pose proof (existsb_false_forall _ _ H1 f Hf) as F. cbv beta in F. rewrite Hr in F. exact F.
  - apply if_nil in H2. now apply in_chars_false.
  - intros Hb. apply if_nil in H4. rewrite Hb in H4. cbn [negb andb] in H4.
    now apply dup_fix_false.
Qed.

Lemma client_build_inv w : client_build fl sv md fs ct req = Ok w ->
  exists segs filled q,
    tsegs (client_path r) = Some segs /\
    client_template_plain (path_vars r) segs = true /\
    all_ok (map (fill_seg fs req) segs) = Ok filled /\
    (if verb_has_body (eff_verb r) then Ok [] else client_query fs req) = Ok q /\
    w_verb w = eff_verb r /\ w_path w = slash :: join_with [slash] filled /\
    w_query w = sort_kv q /\
    w_body w = (if verb_has_body (eff_verb r) then Some (client_fmt ct, req) else None).
Proof.
  unfold client_build. cbv zeta. cbn [rt_path rt_body rt_verb rt_pathvars go_client client_route].
  destruct (tsegs (client_path r)) as [segs|] eqn:E1; [|discriminate].
  destruct (client_template_plain (path_vars r) segs) eqn:E0; cbn [negb]; [|discriminate].
  destruct (all_ok (map (fill_seg fs req) segs)) as [filled|] eqn:E2; [|discriminate].
  destruct (if verb_has_body (eff_verb r) then Ok [] else client_query fs req) as [q|] eqn:E3; [|discriminate].
  intros H. inversion H. exists segs, filled, q.
  repeat split; try reflexivity; try assumption.
Qed.

Lemma call_core w rs :
  client_build fl sv md fs ct req = Ok w ->
  server_routes sc fl sv = Ok (Some rs) ->
  defects_C01 sc fl sv md ct req = [] ->
  In md (sv_methods sv) -> NoDup (map md_name (sv_methods sv)) ->
  template_ok r = true -> path_vals_nonempty fs req (path_vars r) = true ->
  exists p r0,
    w_path w = slash :: p /\ clean_segs (split_on slash p) = true /\
    find_route rs (w_verb w) (split_on slash p) = Some (r0, bindings fs req (path_vars r)) /\
    sr_fields r0 = fs /\ sr_route r0 = go_server r /\
    (forall v, In v (path_vars r) -> exists f, find_field fs v = Some f /\ field_url_ok f = true).
Proof.
  intros Hcb Hsr Hdef Hmd Hnd Htpl Hne.
  destruct (client_build_inv w Hcb) as [segs [filled [q [Hts [_ [Hfill [_ [Hverb [Hpath _]]]]]]]]].
  unfold template_ok in Htpl. rewrite Hts in Htpl. pose proof (strs_eqb_eq _ _ Htpl) as Hvars.
  apply fill_all in Hfill as [-> Hfields]. rewrite Hvars in Hfields.
  destruct (defects_nil_inv Hdef) as [Hroute [Hdirty [Hslash [_ [_ Hdisp]]]]].
  apply route_agree in Hroute.
  destruct (server_routes_inv sc fl sv rs Hsr) as [Hnopanic Hin_rs].
  assert (Hpat : md_pattern sc fl sv md = PatOk segs /\ clean_segs (map pat_seg_str segs) = true).
  { unfold md_pattern. rewrite Hroute. apply server_pattern_of_tsegs; [exact Hts|].
    rewrite <- Hroute. apply (Hnopanic md Hmd). }
  destruct Hpat as [Hpat Hclean_pat].
  destruct (tsegs_inv _ _ Hts) as [_ [Hsegs_ne Hlit_noslash]].
  (* facts about the values *)
  assert (Hvv : forall v, In v (seg_vars segs) ->
            var_val fs req v <> [] /\ var_val fs req v <> [slash] /\ dirty_seg (var_val fs req v) = false).
  { rewrite Hvars. intros v Hv. destruct (Hfields v Hv) as [f [Hf _]].
    unfold path_vals_nonempty in Hne. rewrite forallb_forall in Hne.
    specialize (Hne v Hv). apply negb_true_iff in Hne. apply str_eqb_neq in Hne.
    split; [exact Hne|]. unfold var_val. rewrite Hf. split.
    - apply str_eqb_neq. now apply (Hslash v f).
    - now apply (Hdirty v f). }
  set (filled := map (fill_str fs req) segs) in *.
  assert (Hmatch : match_segs segs filled = Some (bindings fs req (path_vars r))).
  { rewrite <- Hvars. apply match_fill_map. intros v Hv.
    destruct (Hvv v Hv) as [A [B _]]. now split. }
  assert (Hsplit : split_on slash (join_with [slash] filled) = filled).
  { apply split_on_join.
    - unfold filled. destruct segs; [congruence|discriminate].
    - apply fill_no_slash. exact Hlit_noslash. }
  assert (Hclean : clean_segs filled = true).
  { apply clean_fill; [exact Hclean_pat|]. intros v Hv. destruct (Hvv v Hv) as [A [_ C]]. now split. }
  set (rmd := sroute_of sc fl sv md segs).
  assert (Hrmd : In rmd rs).
  { apply Hin_rs. exists md, segs. repeat split; assumption. }
  exists (join_with [slash] filled). rewrite Hsplit, Hverb.
  destruct (find_route rs (eff_verb r) filled) as [[r0 b0]|] eqn:Efr.
  - rewrite find_route_fold in Efr.
    pose proof (fr_sound (eff_verb r) filled (fun x => In x rs) rs None) as S.
    destruct (S ltac:(intros ? ? X; discriminate X) ltac:(intros ? X; exact X) r0 b0 Efr) as [Hr0 [_ Hm0]].
    assert (Hn : md_name (sr_md r0) = md_name md).
    { apply (Hdisp w rs Hcb Hsr). unfold dispatched_to. rewrite Hpath, Hsplit, Hverb.
      rewrite find_route_fold, Efr. reflexivity. }
    apply Hin_rs in Hr0 as [md0 [p0 [Hmd0 [Hp0 ->]]]]. cbn [sr_md sroute_of] in Hn.
    assert (md0 = md) by (apply (nodup_map_inj md_name (sv_methods sv)); assumption). subst md0.
    rewrite Hpat in Hp0. inversion Hp0; subst p0.
    cbn [sr_pat sroute_of] in Hm0. rewrite Hmatch in Hm0. inversion Hm0; subst b0.
    exists (sroute_of sc fl sv md segs). repeat split; try reflexivity; assumption.
  - exfalso. rewrite find_route_fold in Efr. revert Efr. apply fr_complete. right.
    exists rmd, (bindings fs req (path_vars r)). repeat split; [exact Hrmd|apply verb_eqb_refl|exact Hmatch].
Qed.

End Call.

(* ---- the server's treatment of a routed request --------------------------------------------------- *)

Lemma server_handle_routed rs w ct resp p r0 b :
  w_path w = slash :: p -> clean_segs (split_on slash p) = true ->
  find_route rs (w_verb w) (split_on slash p) = Some (r0, b) ->
  server_handle rs w ct resp =
  if is_subtree (sr_pat r0) && slash_redirect rs (w_verb w) (split_on slash p)
  then Unmodelled (s "redirect into a subtree route") else
  if negb (all_singular_url (sr_fields r0) (rt_pathvars (sr_route r0)))
  then Unmodelled (s "URL-bound field of unmodelled kind/cardinality") else
  match body_start (rt_body (sr_route r0)) ct (w_body w) with
  | inr f => Ok (inr (inl f))
  | inl m0 =>
      match bind_path (sr_fields r0) (rt_pathvars (sr_route r0)) b m0 with
      | inr f => Ok (inr (inl f))
      | inl m1 =>
          match bind_query (sr_fields r0) (query_fields (sr_fields r0)) (w_query w) m1 with
          | inr f => Ok (inr (inl f))
          | inl m2 => Ok (inl (Some (m2, (server_fmt ct, resp))))
          end
      end
  end.
Proof.
  intros Hp Hc Hf. unfold server_handle. rewrite Hp, Hc. cbn [negb]. rewrite Hf. reflexivity.
Qed.

(* since the octet-stream repair both sides use the same codec for every content type *)
Lemma fmt_agree ct :
  bfmt_eqb (client_fmt ct) (server_fmt ct) = true /\ bfmt_eqb (server_fmt ct) (client_fmt ct) = true.
Proof. destruct ct; split; reflexivity. Qed.

(* ---- C4: verbs that carry a body ------------------------------------------------------------------- *)

Section Body.
Variables (sc : schema) (fl : file) (sv : service) (md : method) (ct : ctype) (req : mval).
Notation fs := (in_fields sc md).
Notation r := (info_of fl sv md (in_fields sc md)).

Theorem go_call_body_tpl : forall resp w o,
  go_call sc fl sv md ct req resp = Ok (w, o) ->
  defects_C01 sc fl sv md ct req = [] ->
  verb_has_body (eff_verb r) = true ->
  In md (sv_methods sv) -> NoDup (map md_name (sv_methods sv)) ->
  template_ok r = true ->
  path_vals_nonempty fs req (path_vars r) = true ->
  req_typed fs req ->
  canonical fs req ->
  o = Delivered req resp.
Proof.
  intros resp w o Hcall Hdef Hbody Hmd Hnd Htpl Hne Hty Hcan.
  unfold go_call in Hcall. cbv zeta in Hcall.
  destruct (client_build fl sv md fs ct req) as [w0|] eqn:Hcb; [|discriminate].
  destruct (defects_nil_inv sc fl sv md ct req Hdef) as [_ [_ [_ [Hreq [Hnopanic _]]]]].
  specialize (Hreq Hbody).
  destruct (server_routes sc fl sv) as [[rs|]|] eqn:Hsr; [|congruence|discriminate].
  destruct (call_core sc fl sv md ct req w0 rs Hcb Hsr Hdef Hmd Hnd Htpl Hne)
    as [p [r0 [Hpath [Hclean [Hfr [Hfs [Hrt Hfields]]]]]]].
  destruct (client_build_inv sc fl sv md ct req w0 Hcb) as [_ [_ [q [_ [_ [_ [Hq [_ [_ [Hwq Hwb]]]]]]]]]].
  rewrite Hbody in Hq, Hwb. inversion Hq; subst q.
  change (sort_kv []) with (@nil (str * str)) in Hwq.
  rewrite (server_handle_routed rs w0 ct resp p r0 _ Hpath Hclean Hfr) in Hcall.
  destruct (is_subtree (sr_pat r0) && slash_redirect rs (w_verb w0) (split_on slash p)); [discriminate|].
  rewrite Hfs, Hrt in Hcall. cbn [rt_pathvars rt_body go_server] in Hcall.
  destruct (all_singular_url fs (path_vars r)); cbn [negb] in Hcall; [|discriminate].
  destruct (fmt_agree ct) as [Hf1 Hf2].
  unfold body_start in Hcall. rewrite Hbody, Hwb, Hf1 in Hcall.
  rewrite (bind_path_ok fs req (path_vars r) (path_vars r) req) in Hcall.
  2: { apply incl_refl. }
  2: { intros v f Hv Hf. destruct (Hfields v Hv) as [f' [Hf' Hok]]. rewrite Hf in Hf'. inversion Hf'; subst f'.
       apply field_url_ok_kind in Hok. repeat split.
       - unfold path_vals_nonempty in Hne. rewrite forallb_forall in Hne. specialize (Hne v Hv).
         apply negb_true_iff in Hne. now apply str_eqb_neq in Hne.
       - exact Hok.
       - apply Hty; [|exact Hok]. now apply (find_field_some fs v f). }
  (* re-binding the request's own path values on top of the request changes nothing *)
  rewrite (set_vars_canonical fs req Hcan) in Hcall.
  2: { intros v f Hv Hf. destruct (Hfields v Hv) as [f' [Hf' Hok]]. rewrite Hf in Hf'. now inversion Hf'; subst f'. }
  rewrite Hwq, (bind_query_nil fs _ _ Hreq) in Hcall.
  rewrite Hf2 in Hcall. cbn [orb] in Hcall. now inversion Hcall.
Qed.

End Body.

(* ---- C5: verbs without a body ------------------------------------------------------------------- *)

Definition qgen (req : mval) (f : field) : list (str * str) :=
  if is_zero (scalar_of req f) then [] else [(qname f, sprint (scalar_of req f))].

Lemma client_query_gen req : forall L q,
  all_ok (flat_map (fun f =>
            if url_kind_ok (f_kind f) && match f_card f with Singular => true | _ => false end
            then (let v := scalar_of req f in if is_zero v then [] else [Ok (qname f, sprint v)])
            else [Unmodelled (s "query field of unmodelled kind/cardinality")]) L) = Ok q ->
  (forall f, In f L -> field_url_ok f = true) /\ q = flat_map (qgen req) L.
Proof.
  induction L as [|f L IH]; intros q H.
  - cbn in H. inversion H. split; [intros f []|reflexivity].
  - cbn [flat_map] in H. cbv zeta in H.
    destruct (url_kind_ok (f_kind f) && match f_card f with Singular => true | _ => false end) eqn:Eok.
    + destruct (is_zero (scalar_of req f)) eqn:Ez.
      * cbn [app] in H. destruct (IH q H) as [A B]. split.
        -- intros g [<-|Hg]; [exact Eok|now apply A].
        -- cbn [flat_map]. unfold qgen at 1. rewrite Ez. exact B.
      * cbn [app] in H. apply all_ok_cons in H as [x [t [Hx [Ht ->]]]]. inversion Hx; subst x.
        destruct (IH t Ht) as [A B]. split.
        -- intros g [<-|Hg]; [exact Eok|now apply A].
        -- cbn [flat_map]. unfold qgen at 1. rewrite Ez. cbn [app]. now f_equal.
    + cbn [app all_ok] in H. discriminate.
Qed.

Lemma qgen_keys req : forall L k, In k (map fst (flat_map (qgen req) L)) -> In k (map qname L).
Proof.
  induction L as [|h L IH]; intros k H; [contradiction|].
  cbn [flat_map] in H. rewrite map_app in H. apply in_app_or in H as [H|H].
  - unfold qgen in H. destruct (is_zero (scalar_of req h)); [contradiction|].
    destruct H as [<-|[]]. now left.
  - right. now apply IH.
Qed.

Lemma qgen_nodup req : forall L, NoDup (map qname L) -> NoDup (map fst (flat_map (qgen req) L)).
Proof.
  induction L as [|h L IH]; intros H; [constructor|].
  cbn [map] in H. inversion H as [|? ? Hni Hnd]; subst.
  cbn [flat_map]. rewrite map_app. unfold qgen at 1.
  destruct (is_zero (scalar_of req h)); cbn [map app fst].
  - now apply IH.
  - constructor; [|now apply IH]. intros Hin. apply Hni. now apply (qgen_keys req).
Qed.

Lemma qgen_values req : forall L, NoDup (map qname L) -> forall f, In f L ->
  query_values (flat_map (qgen req) L) (qname f) =
  if is_zero (scalar_of req f) then [] else [sprint (scalar_of req f)].
Proof.
  unfold query_values.
  induction L as [|h L IH]; intros Hnd f Hin; [contradiction|].
  cbn [map] in Hnd. inversion Hnd as [|? ? Hni Hnd']; subst.
  cbn [flat_map]. rewrite filter_app, map_app.
  destruct Hin as [->|Hin].
  - rewrite (filter_none _ (flat_map (qgen req) L)).
    2: { intros y Hy. apply str_eqb_neq. intros E. apply Hni. rewrite <- E.
         apply (qgen_keys req). now apply in_map. }
    rewrite app_nil_r. unfold qgen. destruct (is_zero (scalar_of req f)); [reflexivity|].
    cbn [filter fst]. rewrite str_eqb_refl. reflexivity.
  - assert (Hne : qname h <> qname f).
    { intros E. apply Hni. rewrite E. now apply in_map. }
    rewrite (filter_none _ (qgen req h)).
    2: { intros y Hy. unfold qgen in Hy. destruct (is_zero (scalar_of req h)); [contradiction|].
         destruct Hy as [<-|[]]. cbn [fst]. now apply str_eqb_neq. }
    cbn [app map]. now apply IH.
Qed.

Definition str_dec : forall a b : str, {a = b} + {a <> b} := list_eq_dec ascii_dec.

Section Vals.
Variables (fs : list field) (req : mval).
Hypothesis Hnd : NoDup (map f_name fs).

Definition vals_good (m : mval) : Prop :=
  forall g, In g fs -> scalar_of m g = scalar_of req g \/ scalar_of m g = zero_of (f_kind g).
Definition val_done (m : mval) (g : field) : Prop := scalar_of m g = scalar_of req g.

Lemma set_good m f : vals_good m -> In f fs ->
  url_kind_ok (f_kind f) = true -> typed_scalar (f_kind f) (scalar_of req f) ->
  vals_good (mset_scalar fs m f (scalar_of req f)).
Proof.
  intros Hg Hf Hk Ht g Hin. destruct (str_dec (f_name g) (f_name f)) as [E|E].
  - assert (g = f) by (apply (field_name_inj fs); assumption). subst g.
    left. now apply scalar_of_mset_same.
  - rewrite scalar_of_mset_other by exact E. now apply Hg.
Qed.

Lemma set_keep m f g : In f fs -> In g fs ->
  url_kind_ok (f_kind f) = true -> typed_scalar (f_kind f) (scalar_of req f) ->
  val_done m g -> val_done (mset_scalar fs m f (scalar_of req f)) g.
Proof.
  unfold val_done. intros Hf Hg Hk Ht Hd. destruct (str_dec (f_name g) (f_name f)) as [E|E].
  - assert (g = f) by (apply (field_name_inj fs); assumption). subst g.
    now apply scalar_of_mset_same.
  - now rewrite scalar_of_mset_other by exact E.
Qed.

Lemma set_done m f : url_kind_ok (f_kind f) = true -> typed_scalar (f_kind f) (scalar_of req f) ->
  val_done (mset_scalar fs m f (scalar_of req f)) f.
Proof. intros Hk Ht. unfold val_done. now apply scalar_of_mset_same. Qed.

Lemma set_vars_inv : forall vars m, vals_good m ->
  (forall v f, In v vars -> find_field fs v = Some f ->
     url_kind_ok (f_kind f) = true /\ typed_scalar (f_kind f) (scalar_of req f)) ->
  vals_good (set_vars fs req vars m) /\
  (forall g, In g fs -> val_done m g -> val_done (set_vars fs req vars m) g) /\
  (forall g, In g fs -> In (f_name g) vars -> val_done (set_vars fs req vars m) g).
Proof.
  induction vars as [|v vars IH]; intros m Hg Hv.
  - cbn [set_vars]. repeat split; [exact Hg|trivial|intros g _ []].
  - cbn [set_vars].
    assert (Hv' : forall v0 f, In v0 vars -> find_field fs v0 = Some f ->
              url_kind_ok (f_kind f) = true /\ typed_scalar (f_kind f) (scalar_of req f)).
    { intros v0 f Hin. apply Hv. now right. }
    destruct (find_field fs v) as [f|] eqn:Ef.
    + destruct (Hv v f (or_introl eq_refl) Ef) as [Hk Ht].
      destruct (find_field_some fs v f Ef) as [Hf Hname].
      destruct (IH (mset_scalar fs m f (scalar_of req f)) (set_good m f Hg Hf Hk Ht) Hv') as [A [B C]].
      repeat split; [exact A| |].
      * intros g Hin Hd. apply B; [exact Hin|]. now apply set_keep.
      * intros g Hin [E|Hvars]; [|now apply C].
        assert (g = f) by (apply (field_name_inj fs); try assumption; congruence). subst g.
        apply B; [exact Hin|]. now apply set_done.
    + destruct (IH m Hg Hv') as [A [B C]]. repeat split; [exact A|exact B|].
      intros g Hin [E|Hvars]; [|now apply C].
      rewrite E, (find_field_nodup fs g Hnd Hin) in Ef. discriminate.
Qed.

Lemma set_query_inv : forall qfs m, vals_good m -> incl qfs fs ->
  (forall f, In f qfs -> url_kind_ok (f_kind f) = true /\ typed_scalar (f_kind f) (scalar_of req f)) ->
  vals_good (set_query fs req qfs m) /\
  (forall g, In g fs -> val_done m g -> val_done (set_query fs req qfs m) g) /\
  (forall g, In g qfs -> val_done (set_query fs req qfs m) g).
Proof.
  induction qfs as [|f qfs IH]; intros m Hg Hincl Hq.
  - cbn [set_query]. repeat split; [exact Hg|trivial|intros g []].
  - cbn [set_query].
    assert (Hincl' : incl qfs fs) by (intros x Hx; apply Hincl; now right).
    assert (Hq' : forall f0, In f0 qfs ->
              url_kind_ok (f_kind f0) = true /\ typed_scalar (f_kind f0) (scalar_of req f0)).
    { intros f0 Hin. apply Hq. now right. }
    destruct (Hq f (or_introl eq_refl)) as [Hk Ht].
    assert (Hf : In f fs) by (apply Hincl; now left).
    destruct (is_zero (scalar_of req f)) eqn:Ez.
    + destruct (IH m Hg Hincl' Hq') as [A [B C]]. repeat split; [exact A|exact B|].
      intros g [<-|Hin]; [|now apply C].
      apply B; [exact Hf|]. unfold val_done. destruct (Hg f Hf) as [E|E]; [exact E|].
      rewrite E. symmetry. now apply typed_zero.
    + destruct (IH (mset_scalar fs m f (scalar_of req f)) (set_good m f Hg Hf Hk Ht) Hincl' Hq') as [A [B C]].
      repeat split; [exact A| |].
      * intros g Hin Hd. apply B; [exact Hin|]. now apply set_keep.
      * intros g [<-|Hin]; [|now apply C]. apply B; [exact Hf|]. now apply set_done.
Qed.

Lemma vals_good_nil : vals_good [].
Proof. intros g _. now right. Qed.

End Vals.

Lemma query_fields_In fs f : In f (query_fields fs) <-> In f fs /\ f_query f <> None.
Proof.
  unfold query_fields. rewrite filter_In. split; intros [H1 H2]; (split; [exact H1|]).
  - destruct (f_query f); [discriminate|discriminate].
  - destruct (f_query f); [reflexivity|congruence].
Qed.

Section NoBody.
Variables (sc : schema) (fl : file) (sv : service) (md : method) (ct : ctype) (req : mval).
Notation fs := (in_fields sc md).
Notation r := (info_of fl sv md (in_fields sc md)).

Theorem go_call_nobody_tpl : forall resp w o,
  go_call sc fl sv md ct req resp = Ok (w, o) ->
  defects_C01 sc fl sv md ct req = [] ->
  verb_has_body (eff_verb r) = false ->
  In md (sv_methods sv) -> NoDup (map md_name (sv_methods sv)) ->
  template_ok r = true ->
  path_vals_nonempty fs req (path_vars r) = true ->
  req_typed fs req ->
  NoDup (map f_name fs) ->
  NoDup (map qname (query_fields fs)) ->
  (forall f, In f fs -> In (f_name f) (path_vars r) \/ f_query f <> None) ->
  (forall f, In f (query_fields fs) -> qrequired f = true -> is_zero (scalar_of req f) = false) ->
  exists saw, o = Delivered saw resp /\ forall f, In f fs -> scalar_of saw f = scalar_of req f.
Proof.
  intros resp w o Hcall Hdef Hbody Hmd Hnd Htpl Hne Hty Hfnd Hqnd Hcover Hreqd.
  unfold go_call in Hcall. cbv zeta in Hcall.
  destruct (client_build fl sv md fs ct req) as [w0|] eqn:Hcb; [|discriminate].
  destruct (defects_nil_inv sc fl sv md ct req Hdef) as [_ [_ [_ [_ [Hnopanic _]]]]].
  destruct (server_routes sc fl sv) as [[rs|]|] eqn:Hsr; [|congruence|discriminate].
  destruct (call_core sc fl sv md ct req w0 rs Hcb Hsr Hdef Hmd Hnd Htpl Hne)
    as [p [r0 [Hpath [Hclean [Hfr [Hfs [Hrt Hfields]]]]]]].
  destruct (client_build_inv sc fl sv md ct req w0 Hcb) as [_ [_ [q [_ [_ [_ [Hq [_ [_ [Hwq Hwb]]]]]]]]]].
  rewrite Hbody in Hq, Hwb. unfold client_query in Hq.
  apply client_query_gen in Hq as [Hqok ->].
  (* facts about the URL-bound fields *)
  assert (Hpv : forall v f, In v (path_vars r) -> find_field fs v = Some f ->
            url_kind_ok (f_kind f) = true /\ typed_scalar (f_kind f) (scalar_of req f)).
  { intros v f Hv Hf. destruct (Hfields v Hv) as [f' [Hf' Hok]]. rewrite Hf in Hf'. inversion Hf'; subst f'.
    apply field_url_ok_kind in Hok. split; [exact Hok|].
    apply Hty; [|exact Hok]. now apply (find_field_some fs v f). }
  assert (Hqf : forall f, In f (query_fields fs) ->
            url_kind_ok (f_kind f) = true /\ typed_scalar (f_kind f) (scalar_of req f)).
  { intros f Hf. pose proof (field_url_ok_kind f (Hqok f Hf)) as Hk. split; [exact Hk|].
    apply Hty; [|exact Hk]. now apply query_fields_In in Hf as [Hf _]. }
  rewrite (server_handle_routed rs w0 ct resp p r0 _ Hpath Hclean Hfr) in Hcall.
  destruct (is_subtree (sr_pat r0) && slash_redirect rs (w_verb w0) (split_on slash p)); [discriminate|].
  rewrite Hfs, Hrt in Hcall. cbn [rt_pathvars rt_body go_server] in Hcall.
  destruct (all_singular_url fs (path_vars r)); cbn [negb] in Hcall; [|discriminate].
  unfold body_start in Hcall. rewrite Hbody in Hcall.
  rewrite (bind_path_ok fs req (path_vars r) (path_vars r) []) in Hcall.
  2: { apply incl_refl. }
  2: { intros v f Hv Hf. destruct (Hpv v f Hv Hf) as [Hk Ht]. repeat split; [|exact Hk|exact Ht].
       unfold path_vals_nonempty in Hne. rewrite forallb_forall in Hne. specialize (Hne v Hv).
       apply negb_true_iff in Hne. now apply str_eqb_neq in Hne. }
  rewrite (bind_query_ok fs req (w_query w0)) in Hcall.
  2: { intros f Hf. destruct (Hqf f Hf) as [Hk Ht]. repeat split; [| |exact Hk|exact Ht].
       - rewrite Hwq, query_values_sort_kv by now apply qgen_nodup.
         now apply qgen_values.
       - intros Hz. destruct (qrequired f) eqn:Er; [|reflexivity].
         rewrite (Hreqd f Hf Er) in Hz. discriminate. }
  destruct (fmt_agree ct) as [_ Hf2]. rewrite Hf2 in Hcall. cbn [orb] in Hcall.
  inversion Hcall; subst. eexists. split; [reflexivity|].
  destruct (set_vars_inv fs req Hfnd (path_vars r) [] (vals_good_nil fs req) Hpv) as [G1 [_ D1]].
  destruct (set_query_inv fs req Hfnd (query_fields fs) _ G1) as [_ [K2 D2]].
  { intros x Hx. now apply query_fields_In in Hx as [Hx _]. }
  { exact Hqf. }
  intros f Hf. destruct (Hcover f Hf) as [Hp|Hquery].
  - apply K2; [exact Hf|]. now apply D1.
  - apply D2. apply query_fields_In. now split.
Qed.

End NoBody.

(* ---- ExtractPathParams and the segment-wise reading of a template agree ------------------------------ *)

Lemma split_on_aux_chars c x : forall acc y, In y (split_on_aux c acc x) ->
  forall d, In d y -> In d acc \/ In d x.
Proof.
  induction x as [|e x IH]; intros acc y Hy d Hd; cbn [split_on_aux] in Hy.
  - destruct Hy as [<-|[]]. left. now apply in_rev.
  - destruct (Ascii.eqb e c).
    + destruct Hy as [<-|Hy]; [left; now apply in_rev|].
      destruct (IH [] y Hy d Hd) as [[]|H]. right. now right.
    + destruct (IH (e :: acc) y Hy d Hd) as [[<-|H]|H]; [right; now left|now left|right; now right].
Qed.

Lemma split_on_chars c x y : In y (split_on c x) -> forall d, In d y -> In d x.
Proof. intros Hy d Hd. destruct (split_on_aux_chars c x [] y Hy d Hd) as [[]|H]. exact H. Qed.

Lemma split_on_aux_nonempty c x : forall acc, split_on_aux c acc x <> [].
Proof.
  induction x as [|d x IH]; intros acc; cbn [split_on_aux]; [discriminate|].
  destruct (Ascii.eqb d c); [discriminate|apply IH].
Qed.

Lemma join_split_aux c x : forall acc, join_with [c] (split_on_aux c acc x) = rev acc ++ x.
Proof.
  induction x as [|d x IH]; intros acc; cbn [split_on_aux].
  - cbn. now rewrite app_nil_r.
  - destruct (Ascii.eqb d c) eqn:E.
    + apply Ascii.eqb_eq in E. subst d.
      pose proof (IH []) as J. destruct (split_on_aux c [] x) as [|b l] eqn:Es.
      * now apply split_on_aux_nonempty in Es.
      * change (join_with [c] (rev acc :: b :: l)) with (rev acc ++ [c] ++ join_with [c] (b :: l)).
        rewrite J. reflexivity.
    + rewrite IH. cbn [rev]. now rewrite <- app_assoc.
Qed.

Lemma join_split c x : join_with [c] (split_on c x) = x.
Proof. unfold split_on. now rewrite join_split_aux. Qed.

Lemma extract_skip x rest : ~ In lbrace x ->
  extract_params_aux None (x ++ rest) = extract_params_aux None rest.
Proof.
  induction x as [|d x IH]; intros H; [reflexivity|]. cbn [app extract_params_aux].
  assert (E : Ascii.eqb d lbrace = false).
  { apply ascii_eqb_neq. intros ->. apply H. now left. }
  rewrite E. apply IH. intros Hin. apply H. now right.
Qed.

Lemma extract_var m rest : forall acc, ~ In rbrace m -> rev acc ++ m <> [] ->
  extract_params_aux (Some acc) (m ++ rbrace :: rest) = (rev acc ++ m) :: extract_params_aux None rest.
Proof.
  induction m as [|d m IH]; intros acc Hm Hne.
  - cbn [app extract_params_aux]. rewrite Ascii.eqb_refl. rewrite app_nil_r in *.
    destruct acc as [|a acc]; [now contradiction Hne|reflexivity].
  - cbn [app extract_params_aux].
    assert (E : Ascii.eqb d rbrace = false).
    { apply ascii_eqb_neq. intros ->. apply Hm. now left. }
    rewrite E, IH.
    + cbn [rev]. now rewrite <- app_assoc.
    + intros Hin. apply Hm. now right.
    + cbn [rev]. rewrite <- app_assoc. cbn [app]. intros Hn. now apply app_eq_nil in Hn as [_ Hn].
Qed.

Lemma has_brace_false x : has_brace x = false -> ~ In lbrace x /\ ~ In rbrace x.
Proof.
  unfold has_brace. intros H. apply orb_false_iff in H as [H1 H2].
  now rewrite in_chars_false in H1, H2.
Qed.

Lemma seg_of_var x m : seg_of x = Some (SVar m) ->
  x = lbrace :: m ++ [rbrace] /\ ~ In rbrace m /\ m <> [].
Proof.
  unfold seg_of. destruct x as [|c rr]; [discriminate|].
  destruct (Ascii.eqb c lbrace) eqn:Ec.
  - apply Ascii.eqb_eq in Ec. subst c.
    destruct (rev rr) as [|d m'] eqn:Er; [discriminate|].
    destruct (Ascii.eqb d rbrace) eqn:Ed; [|discriminate]. cbn [andb].
    destruct (has_brace (rev m')) eqn:Eb; [discriminate|]. cbn [negb andb].
    destruct (str_eqb (rev m') []) eqn:En; [discriminate|]. cbn [negb].
    intros H. inversion H. apply Ascii.eqb_eq in Ed. subst d.
    repeat split.
    + f_equal. rewrite <- (rev_involutive rr), Er. reflexivity.
    + now apply has_brace_false in Eb as [_ Eb].
    + now apply str_eqb_neq in En.
  - destruct (has_brace (c :: rr)); discriminate.
Qed.

Lemma extract_seg x g rest : seg_of x = Some g ->
  extract_params_aux None (x ++ rest) =
  match g with SVar v => [v] | SLit _ => [] end ++ extract_params_aux None rest.
Proof.
  destruct g as [y|m]; intros H.
  - pose proof (seg_of_lit x y H) as ->. cbn [app]. apply extract_skip.
    unfold seg_of in H. destruct x as [|c rr]; [intros []|].
    destruct (Ascii.eqb c lbrace) eqn:Ec.
    + destruct (rev rr) as [|d m']; [discriminate|].
      destruct (Ascii.eqb d rbrace && negb (has_brace (rev m')) && negb (str_eqb (rev m') [])); discriminate.
    + destruct (has_brace (c :: rr)) eqn:Eb; [discriminate|]. now apply has_brace_false in Eb as [Eb _].
  - apply seg_of_var in H as [-> [Hm Hne]].
    cbn [app extract_params_aux]. rewrite Ascii.eqb_refl, <- app_assoc. cbn [app].
    now rewrite extract_var.
Qed.

Lemma extract_join : forall l segs, all_some (map seg_of l) = Some segs ->
  extract_params_aux None (join_with [slash] l) = seg_vars segs.
Proof.
  induction l as [|x l IH]; intros segs H.
  - cbn in H. inversion H. reflexivity.
  - cbn [map all_some] in H. destruct (seg_of x) as [g|] eqn:Eg; [|discriminate].
    destruct (all_some (map seg_of l)) as [t|] eqn:Et; [|discriminate]. inversion H; subst segs.
    change (seg_vars (g :: t)) with (match g with SVar v => [v] | SLit _ => [] end ++ seg_vars t).
    destruct l as [|y l].
    + cbn in Et. inversion Et; subst t. cbn [join_with].
      rewrite <- (app_nil_r x) at 1. now rewrite (extract_seg x g [] Eg).
    + change (join_with [slash] (x :: y :: l)) with (x ++ slash :: join_with [slash] (y :: l)).
      rewrite (extract_seg x g _ Eg). f_equal.
      change (extract_params_aux None (slash :: join_with [slash] (y :: l)))
        with (extract_params_aux None (join_with [slash] (y :: l))).
      now apply IH.
Qed.

Lemma extract_tsegs p segs : tsegs p = Some segs -> extract_path_params p = seg_vars segs.
Proof.
  unfold tsegs. destruct p as [|c rest]; [discriminate|].
  destruct (Ascii.eqb c slash) eqn:E; [|discriminate]. apply Ascii.eqb_eq in E. subst c.
  intros H. apply extract_join in H. rewrite join_split in H. exact H.
Qed.

Lemma firstn_In {A} (x : A) n l : In x (firstn n l) -> In x l.
Proof.
  revert l; induction n as [|n IH]; intros [|a l]; cbn; try tauto.
  intros [->|H]; [now left|right; now apply IH].
Qed.

Lemma trim_suffix_In c p x : In c (trim_suffix p x) -> In c x.
Proof. unfold trim_suffix. destruct (has_suffix p x); [apply firstn_In|trivial]. Qed.

Lemma ensure_leading_slash_In c p : In c (ensure_leading_slash p) -> c = slash \/ In c p.
Proof.
  unfold ensure_leading_slash. destruct p as [|d p]; [intros [<-|[]]; now left|].
  destruct (has_prefix [slash] (d :: p)); [now right|]. intros [<-|H]; [now left|now right].
Qed.

Lemma extract_slash_tail x : extract_path_params (slash :: x) = extract_path_params x.
Proof. reflexivity. Qed.

(* the variables of the client's path are the variables of the method's own path when the service
   base path holds no '{' *)
Lemma extract_client_path r : cfg_path r <> [] -> ~ In lbrace (ri_base r) ->
  extract_path_params (client_path r) = path_vars r.
Proof.
  intros Hc Hb. unfold client_path, path_vars.
  destruct (cfg_path r) as [|c cs] eqn:Ec; [congruence|].
  unfold cfg_path in Ec. destruct (ri_has_cfg r); [|discriminate]. rewrite Ec.
  unfold build_http_path. destruct (ri_base r) as [|b bs] eqn:Eb.
  - unfold ensure_leading_slash. destruct (has_prefix [slash] (c :: cs)); reflexivity.
  - unfold extract_path_params. rewrite extract_skip.
    + cbn [app]. change (extract_params_aux None (slash :: trim_prefix [slash] (c :: cs)))
        with (extract_params_aux None (trim_prefix [slash] (c :: cs))).
      destruct (has_prefix [slash] (c :: cs)) eqn:Ep.
      * apply has_prefix_cons1 in Ep as [t Et]. rewrite Et, trim_prefix_cons1_hit. reflexivity.
      * now rewrite trim_prefix_miss.
    + intros Hin. apply trim_suffix_In in Hin. apply ensure_leading_slash_In in Hin as [Hin|Hin].
      * discriminate Hin.
      * now apply Hb.
Qed.

Lemma strs_eqb_refl a : strs_eqb a a = true.
Proof. induction a as [|x a IH]; [reflexivity|]. cbn. now rewrite str_eqb_refl. Qed.

(* ---- the side conditions that follow from an empty defect list -------------------------------------- *)

Lemma template_ok_of_defects sc fl sv md ct req resp w o :
  go_call sc fl sv md ct req resp = Ok (w, o) ->
  defects_C01 sc fl sv md ct req = [] ->
  template_ok (info_of fl sv md (in_fields sc md)) = true.
Proof.
  intros Hcall Hdef. unfold go_call in Hcall. cbv zeta in Hcall.
  destruct (client_build fl sv md (in_fields sc md) ct req) as [w0|] eqn:Hcb; [|discriminate].
  destruct (client_build_inv sc fl sv md ct req w0 Hcb) as [segs [_ [_ [Ht _]]]].
  destruct (defects_nil_inv2 sc fl sv md ct req Hdef) as [_ [Hbase _]].
  destruct (defects_nil_inv sc fl sv md ct req Hdef) as [Hr _].
  assert (Hcfg : cfg_path (info_of fl sv md (in_fields sc md)) <> []).
  { unfold defects_C03 in Hr. apply filter_nil_app in Hr as [Hr _].
    intros E. rewrite E in Hr. discriminate. }
  unfold template_ok. rewrite Ht.
  rewrite <- (extract_client_path _ Hcfg Hbase), (extract_tsegs _ _ Ht). apply strs_eqb_refl.
Qed.

(* ---- C4 / C5 with the side conditions discharged by the defect list ------------------------------------ *)

Theorem go_call_body : forall sc fl sv md ct req resp w o,
  go_call sc fl sv md ct req resp = Ok (w, o) ->
  defects_C01 sc fl sv md ct req = [] ->
  verb_has_body (eff_verb (info_of fl sv md (in_fields sc md))) = true ->
  In md (sv_methods sv) -> NoDup (map md_name (sv_methods sv)) ->
  path_vals_nonempty (in_fields sc md) req (path_vars (info_of fl sv md (in_fields sc md))) = true ->
  req_typed (in_fields sc md) req ->
  canonical (in_fields sc md) req ->
  o = Delivered req resp.
Proof.
  intros sc fl sv md ct req resp w o Hcall Hdef Hb Hmd Hnd Hne Hty Hcan.
  apply (go_call_body_tpl sc fl sv md ct req resp w o); try assumption.
  now apply (template_ok_of_defects sc fl sv md ct req resp w o).
Qed.

Theorem go_call_nobody : forall sc fl sv md ct req resp w o,
  go_call sc fl sv md ct req resp = Ok (w, o) ->
  defects_C01 sc fl sv md ct req = [] ->
  verb_has_body (eff_verb (info_of fl sv md (in_fields sc md))) = false ->
  In md (sv_methods sv) -> NoDup (map md_name (sv_methods sv)) ->
  path_vals_nonempty (in_fields sc md) req (path_vars (info_of fl sv md (in_fields sc md))) = true ->
  req_typed (in_fields sc md) req ->
  NoDup (map f_name (in_fields sc md)) ->
  (forall f, In f (in_fields sc md) ->
     In (f_name f) (path_vars (info_of fl sv md (in_fields sc md))) \/ f_query f <> None) ->
  exists saw, o = Delivered saw resp /\
              forall f, In f (in_fields sc md) -> scalar_of saw f = scalar_of req f.
Proof.
  intros sc fl sv md ct req resp w o Hcall Hdef Hb Hmd Hnd Hne Hty Hfnd Hcover.
  destruct (defects_nil_inv2 sc fl sv md ct req Hdef) as [Hreqd [_ Hqnd]].
  apply (go_call_nobody_tpl sc fl sv md ct req resp w o); try assumption.
  - now apply (template_ok_of_defects sc fl sv md ct req resp w o).
  - now apply Hqnd.
  - now apply Hreqd.
Qed.

(* ---- boolean forms of the side conditions (so that concrete instances are checked by computation) -- *)

Fixpoint nodupb (l : list str) : bool :=
  match l with
  | [] => true
  | x :: t => negb (existsb (str_eqb x) t) && nodupb t
  end.

Lemma nodupb_sound l : nodupb l = true -> NoDup l.
Proof.
  induction l as [|x l IH]; intros H; [constructor|].
  cbn [nodupb] in H. apply andb_true_iff in H as [H1 H2]. apply negb_true_iff in H1.
  constructor; [|now apply IH].
  intros Hin. pose proof (existsb_false_forall _ _ H1 x Hin) as F. now rewrite str_eqb_refl in F.
Qed.

Definition coverb (fs : list field) (vars : list str) : bool :=
  forallb (fun f => existsb (str_eqb (f_name f)) vars ||
                    match f_query f with Some _ => true | None => false end) fs.

Lemma coverb_sound fs vars : coverb fs vars = true ->
  forall f, In f fs -> In (f_name f) vars \/ f_query f <> None.
Proof.
  unfold coverb. intros H f Hf. rewrite forallb_forall in H. specialize (H f Hf).
  apply orb_true_iff in H as [H|H].
  - left. apply existsb_exists in H as [v [Hv E]]. apply str_eqb_eq in E. now rewrite E.
  - right. destruct (f_query f); [discriminate|discriminate].
Qed.

Definition required_sentb (fs : list field) (req : mval) : bool :=
  forallb (fun f => negb (qrequired f) || negb (is_zero (scalar_of req f))) (query_fields fs).

Lemma required_sentb_sound fs req : required_sentb fs req = true ->
  forall f, In f (query_fields fs) -> qrequired f = true -> is_zero (scalar_of req f) = false.
Proof.
  unfold required_sentb. intros H f Hf Hr. rewrite forallb_forall in H. specialize (H f Hf).
  rewrite Hr in H. cbn [negb orb] in H. now apply negb_true_iff in H.
Qed.

(* all remaining side conditions of the two theorems as one boolean each *)
Definition wf_body (sc : schema) (fl : file) (sv : service) (md : method) (req : mval) : bool :=
  let fs := in_fields sc md in
  let r := info_of fl sv md fs in
  verb_has_body (eff_verb r) && nodupb (map md_name (sv_methods sv)) &&
  path_vals_nonempty fs req (path_vars r) && req_typedb fs req && canonicalb fs req.

Definition wf_nobody (sc : schema) (fl : file) (sv : service) (md : method) (req : mval) : bool :=
  let fs := in_fields sc md in
  let r := info_of fl sv md fs in
  negb (verb_has_body (eff_verb r)) && nodupb (map md_name (sv_methods sv)) &&
  path_vals_nonempty fs req (path_vars r) && req_typedb fs req &&
  nodupb (map f_name fs) && coverb fs (path_vars r).

Theorem go_call_body_b : forall sc fl sv md ct req resp w o,
  go_call sc fl sv md ct req resp = Ok (w, o) ->
  defects_C01 sc fl sv md ct req = [] ->
  In md (sv_methods sv) ->
  wf_body sc fl sv md req = true ->
  o = Delivered req resp.
Proof.
  intros sc fl sv md ct req resp w o Hcall Hdef Hmd Hwf. unfold wf_body in Hwf. cbv zeta in Hwf.
  repeat (apply andb_true_iff in Hwf as [Hwf ?]).
  apply (go_call_body sc fl sv md ct req resp w o); try assumption.
  - now apply nodupb_sound.
  - now apply req_typedb_sound.
Qed.

Theorem go_call_nobody_b : forall sc fl sv md ct req resp w o,
  go_call sc fl sv md ct req resp = Ok (w, o) ->
  defects_C01 sc fl sv md ct req = [] ->
  In md (sv_methods sv) ->
  wf_nobody sc fl sv md req = true ->
  exists saw, o = Delivered saw resp /\
              forall f, In f (in_fields sc md) -> scalar_of saw f = scalar_of req f.
Proof.
  intros sc fl sv md ct req resp w o Hcall Hdef Hmd Hwf. unfold wf_nobody in Hwf. cbv zeta in Hwf.
  repeat (apply andb_true_iff in Hwf as [Hwf ?]).
  apply (go_call_nobody sc fl sv md ct req resp w o); try assumption.
  - now apply negb_true_iff.
  - now apply nodupb_sound.
  - now apply req_typedb_sound.
  - now apply nodupb_sound.
  - now apply coverb_sound.
Qed.
