(* EmptyConforms.v — C05_conforms for the empty_behavior codec: a top-level message whose only
   annotations are empty_behavior fields, with un-annotated children: the server's JSON IS the
   documented mapping (PRESERVE: {}, NULL: null, OMIT: entry omitted), for all well-typed values.
   Then the witnesses: non-vacuity of empty_roundtrip / conforms_empty, and the refutations showing
   that the side conditions are needed. *)
From Coq Require Import Lia ZArith.
From Sebuf Require Import CodecCases.
From SebufProofs Require Import TextFacts CodecTextFacts ProtoJsonFacts NullableFacts EmptyFacts.
From SebufProofs Require Import CodecExamples MappingFacts NullableConforms.

Open Scope Z_scope.

(* no annotation other than empty_behavior *)
Definition empplain_field (f : field) : bool :=
  negb (f_unwrap f) && is_none (f_int64 f) && is_none (f_enumenc f) && is_none (f_nullable f) &&
  is_none (f_tsfmt f) && is_none (f_bytesenc f) && is_none (f_oneof_value f) && is_none (f_flatten f) && is_none (f_flatten_prefix f).
Definition empplain_msg (md : message) : bool :=
  forallb empplain_field (m_fields md) && forallb (fun o => negb (o_has_cfg o)) (m_oneofs md).

Lemma empplain_facts f : empplain_field f = true ->
  f_unwrap f = false /\ f_nullable f = None /\ f_flatten f = None /\ ctx_field_ok f = true.
Proof.
  unfold empplain_field. intros H. repeat (apply andb_prop in H; destruct H as [H ?]).
  apply Bool.negb_true_iff in H. unfold ctx_field_ok.
  repeat match goal with
         | Hx : is_none ?o = true |- _ => destruct o; [discriminate Hx|clear Hx]
         end.
  repeat split; auto.
Qed.

Section Conforms.
Variable E : ExtLib.
Variable sc : schema.

(* the protojson rendering of an empty, well-typed child always succeeds *)
Lemma pj_empty_child_ok f : wt_entry sc f (FM []) = true -> exists j, pj_fval E sc (f_kind f) (FM []) = ROk j.
Proof.
  intros Hw.
  assert (Hwt : wt sc (f_kind f) (FM []) = true).
  { unfold wt_entry in Hw. destruct (f_card f); try discriminate Hw; exact Hw. }
  destruct (f_kind f) as [| | | | | | | | | | | | | | | tn0 | ctn]; try (simpl in Hwt; discriminate Hwt).
  rewrite wt_FM in Hwt. rewrite pj_fval_FM.
  destruct (str_eqb ctn ts_name).
  - eexists. vm_compute. reflexivity.
  - apply andb_prop in Hwt. destruct Hwt as [Hwk Hwt]. apply Bool.negb_true_iff in Hwk. rewrite Hwk.
    destruct (find_message (all_messages sc) ctn); [|discriminate Hwt]. eexists. reflexivity.
Qed.

Lemma mp_entry_hit md name f x :
  mp_entry E sc md name f x =
  match hit f x with
  | ANull => ROk [PField (json_name name) JNull]
  | ADrop => ROk []
  | AKeep =>
      mp_fval E sc (Some f) (f_kind f) x >>= (fun j =>
      match f_flatten f with
      | Some true => spread_of (match f_flatten_prefix f with Some p => p | None => [] end) j >>= (fun p => ROk [p])
      | _ =>
          match mp_oneof_of md f with
          | Some o =>
              if o_flatten o && match f_kind f with KMessage _ => true | _ => false end
              then spread_of [] j >>= (fun p => ROk [PDisc (o_discriminator o) (mp_disc_value f); p])
              else ROk [PDisc (o_discriminator o) (mp_disc_value f); PField (json_name name) j]
          | None => ROk [PField (json_name name) j]
          end
      end)
  end.
Proof.
  unfold mp_entry, hit, empty_of.
  destruct (f_empty f) as [[| | |]|]; destruct x as [sx|[|e0 r0]|l|kv]; reflexivity.
Qed.

(* lock step: the documented pieces = the encoder's pass over the protojson entries *)
Lemma mp_msg_empplain md m0 :
  empplain_msg md = true ->
  nodup_str (map jn (m_fields md)) = true ->
  forall r,
  (forall name x, In (name, x) r -> mget m0 name = Some x) ->
  wt_fields sc md r = true ->
  forallb (fun e => match find_field (m_fields md) (fst e) with
                    | Some f => plain_in sc (f_kind f) (snd e)
                    | None => false end) r = true ->
  mp_msg E sc md r =
  m_msg E sc md r >>= (fun es => ROk (map (fun e => PField (fst e) (snd e)) (flat_map (enc_tr m0 (m_fields md)) es))).
Proof.
  intros Hmd Hnd. unfold empplain_msg in Hmd. apply andb_prop in Hmd. destruct Hmd as [Hf Ho].
  rewrite forallb_forall in Hf.
  induction r as [|[name x] r IH]; intros Hget Hw Hch; [reflexivity|].
  cbn [wt_fields] in Hw. cbn [forallb fst snd] in Hch. cbn [mp_msg m_msg].
  destruct (find_field (m_fields md) name) as [f|] eqn:Ef; [|discriminate Hw].
  apply andb_prop in Hw. destruct Hw as [Hwe Hwr]. apply andb_prop in Hch. destruct Hch as [Hpx Hpr].
  assert (Hget' : forall n y, In (n, y) r -> mget m0 n = Some y) by (intros n y Hin; apply Hget; right; exact Hin).
  specialize (IH Hget' Hwr Hpr).
  destruct (find_field_spec _ _ _ Ef) as [Hin Hname].
  destruct (empplain_facts f (Hf f Hin)) as [_ [_ [Hfl Hctx]]].
  assert (Hact : act m0 f = hit f x).
  { unfold act. rewrite Hname, (Hget name x (or_introl eq_refl)). reflexivity. }
  assert (Hhead : forall j, enc_tr m0 (m_fields md) (json_name name, j) = tr_act (hit f x) (json_name name, j)).
  { intros j. unfold enc_tr, act_of. cbn [fst]. rewrite (fbj_find _ _ _ Hnd Ef), Hact. reflexivity. }
  rewrite mp_entry_hit, IH. clear IH.
  destruct (hit f x) eqn:Eh.
  - (* rendered as protojson renders it *)
    rewrite Hfl, (no_cfg_oneof md f Ho).
    rewrite (mapping_plain_fval E sc x (Some f) (f_kind f) Hctx Hpx).
    destruct (pj_fval E sc (f_kind f) x) as [j|e|w]; cbn [rbind]; try reflexivity.
    destruct (m_msg E sc md r) as [t|e|w]; cbn [rbind]; try reflexivity.
    cbn [flat_map]. rewrite Hhead. reflexivity.
  - (* NULL *)
    destruct (hit_null f x Eh) as [_ Hx]. subst x.
    destruct (pj_empty_child_ok f Hwe) as [j Hj]. rewrite Hj. cbn [rbind].
    destruct (m_msg E sc md r) as [t|e|w]; cbn [rbind]; try reflexivity.
    cbn [flat_map]. rewrite Hhead. reflexivity.
  - (* OMIT *)
    destruct (hit_drop f x Eh) as [_ Hx]. subst x.
    destruct (pj_empty_child_ok f Hwe) as [j Hj]. rewrite Hj. cbn [rbind].
    destruct (m_msg E sc md r) as [t|e|w]; cbn [rbind]; try reflexivity.
    cbn [flat_map]. rewrite Hhead. reflexivity.
Qed.

Lemma empplain_no_unwrap md : empplain_msg md = true -> mp_root_unwrap md = None.
Proof.
  intros Hmd. unfold empplain_msg in Hmd. apply andb_prop in Hmd. destruct Hmd as [Hf _].
  rewrite forallb_forall in Hf. unfold mp_root_unwrap, mp_unwrap_field.
  assert (Hnil : filter (fun f => f_unwrap f) (m_fields md) = []).
  { induction (m_fields md) as [|a r IH]; [reflexivity|]. simpl.
    destruct (empplain_facts a (Hf a (or_introl eq_refl))) as [Hu _]. rewrite Hu. apply IH.
    intros f Hin. apply Hf. right. exact Hin. }
  rewrite Hnil. destruct (m_fields md) as [|? [|? ?]]; reflexivity.
Qed.

Lemma empplain_no_nulls md (m : mval) : empplain_msg md = true ->
  flat_map (fun f => match f_nullable f, mget m (f_name f) with
                     | Some true, None => [(json_name (f_name f), JNull)]
                     | _, _ => []
                     end) (m_fields md) = [].
Proof.
  intros Hmd. unfold empplain_msg in Hmd. apply andb_prop in Hmd. destruct Hmd as [Hf _].
  rewrite forallb_forall in Hf.
  induction (m_fields md) as [|a r IH]; [reflexivity|]. simpl.
  destruct (empplain_facts a (Hf a (or_introl eq_refl))) as [_ [Hn _]]. rewrite Hn. simpl.
  apply IH. intros f Hin. apply Hf. right. exact Hin.
Qed.

Theorem conforms_empty : forall tn md m,
  str_eqb tn ts_name = false -> is_wkt_other tn = false ->
  find_message (all_messages sc) tn = Some md -> owner_of sc md = Own FtEmpty ->
  buildable sc FtEmpty md = true ->
  nodup_str (map jn (m_fields md)) = true ->
  empplain_msg md = true ->
  wt sc (KMessage tn) (FM m) = true ->
  forallb (fun e => match find_field (m_fields md) (fst e) with
                    | Some f => plain_in sc (f_kind f) (snd e)
                    | None => false end) m = true ->
  encode E sc tn m = to_json E sc tn m.
Proof.
  intros tn md m Hts Hwk Hfm Hown Hb Hnd Hmd Hwt Hch.
  assert (Hlk : lookup_message sc tn = Some md) by (unfold lookup_message; rewrite Hts; exact Hfm).
  assert (Howns : owns sc tn = true) by (unfold owns; rewrite Hlk, Hown; reflexivity).
  rewrite wt_FM, Hts, Hwk, Hfm in Hwt. cbn [negb andb] in Hwt.
  apply andb_prop in Hwt. destruct Hwt as [Hwt Hwf]. apply andb_prop in Hwt. destruct Hwt as [Hok Hsorted].
  assert (Hnames : nodup_str (map fst m) = true).
  { apply (sorted_nodup_names (num_of md)). rewrite map_map. exact Hsorted. }
  assert (Hget : forall name x, In (name, x) m -> mget m name = Some x) by (intros name x; apply mget_nodup; exact Hnames).
  pose proof (wt_fields_declared sc md m Hwf) as Hdecl.
  (* Impl *)
  unfold encode. rewrite Howns.
  rewrite (gj_fval_owned E sc tn md FtEmpty m Hwk Hlk Hown), (kids_empty E sc md m Hdecl). cbn [rbind].
  unfold codec_body. rewrite Hb. cbn [negb]. cbv iota.
  unfold pj_marshal. rewrite pj_fval_FM, Hts, Hwk, Hfm.
  (* Spec *)
  unfold to_json. rewrite mp_fval_FM, Hts, Hwk, Hfm, (mp_msg_empplain md m Hmd Hnd m Hget Hwf Hch).
  destruct (m_msg E sc md m) as [es|e|w] eqn:Hes; cbn [rbind as_obj]; try reflexivity.
  unfold mp_finish. rewrite (empplain_no_unwrap md Hmd), fields_of_pieces, (empplain_no_nulls md m Hmd), app_nil_r.
  rewrite enc_empty_fold.
  rewrite (enc_closed m (m_fields md) es Hnd); [reflexivity|].
  (* a field whose entry is to become null has an entry *)
  intros f _ Ha. unfold act in Ha. destruct (mget m (f_name f)) as [x|] eqn:Em; [|discriminate Ha].
  pose proof (m_msg_keys E sc md m es Hes) as Hkeys.
  apply raw_has_keys. rewrite Hkeys. apply mget_some_in in Em. apply in_map_iff in Em.
  destruct Em as [[n y] [Hn Hin]]. cbn [fst] in Hn. apply in_map_iff. exists (n, y). split; [|exact Hin].
  cbn [fst]. rewrite Hn. reflexivity.
Qed.
End Conforms.
Close Scope Z_scope.

(* ================================================================================================================ *)
(* witnesses *)
Open Scope Z_scope.

(* a schema with the three behaviours side by side, a Timestamp under NULL / OMIT, and an unwrap wrapper that
   has a second field *)
Definition emp3_md : message :=
  msg "Emp3" [set_empty EBPreserve (fld "keep_it" 1 (T "Leaf") Singular);
              set_empty EBNull (fld "nul_it" 2 (T "Leaf") Singular);
              set_empty EBOmit (fld "omit_it" 3 (T "Leaf") Singular);
              set_empty EBOmit (fld "omit_at" 4 TS Singular);
              fld "id" 5 KString Singular; fld "plain_leaf" 6 (T "Leaf") Singular] [].
Definition tsnull_md : message :=
  msg "TsNull" [set_empty EBNull (fld "at" 1 TS Singular); fld "id" 2 KString Singular] [].
Definition book_md : message := msg "Book" [fld "pages" 1 (T "Page") (MapOf KString)] [].
Definition ebs : schema :=
  [ {| fl_path := s "x/e.proto"; fl_package := s "x.v1"; fl_gopkg := s "x"; fl_generate := true;
       fl_messages :=
         [ msg "Leaf" [fld "a" 1 KString Singular; fld "n" 2 KInt64 Singular] [];
           emp3_md; tsnull_md;
           msg "Page" [set_unwrap (fld "items" 1 KString Repeated); fld "total" 2 KInt32 Singular] [];
           book_md ];
       fl_enums := []; fl_services := [] |} ].
Definition emp_md : message :=
  msg "Emp" [set_empty EBNull (fld "nul_it" 1 (T "Leaf") Singular); set_empty EBOmit (fld "omit" 2 (T "Leaf") Singular); fld "id" 3 KString Singular] [].

(* all hypotheses of empty_roundtrip and conforms_empty hold; children empty / non-empty / absent under
   PRESERVE, NULL and OMIT; the round trip loses exactly the presence of the empty OMIT children *)
Example empty_nonvacuous :
  let md := emp3_md in
    str_eqb (q "Emp3") ts_name = false /\ is_wkt_other (q "Emp3") = false /\
    find_message (all_messages ebs) (q "Emp3") = Some md /\ owner_of ebs md = Own FtEmpty /\
    buildable ebs FtEmpty md = true /\ nodup_str (map jn (m_fields md)) = true /\
    null_not_ts md = true /\ empplain_msg md = true /\
    (* every child empty *)
    (let m := [(s "keep_it", FM []); (s "nul_it", FM []); (s "omit_it", FM []); (s "omit_at", FM []); (s "id", vstr "x")] in
     wt ebs (KMessage (q "Emp3")) (FM m) = true /\ epoch_null_free md m = true /\
     forallb (fun e => match find_field (m_fields md) (fst e) with
                       | Some f => plain_in ebs (f_kind f) (snd e) | None => false end) m = true /\
     encode Ex ebs (q "Emp3") m = ROk (JObj [(s "keepIt", JObj []); (s "nulIt", JNull); (s "id", JStr (s "x"))]) /\
     to_json Ex ebs (q "Emp3") m = ROk (JObj [(s "keepIt", JObj []); (s "nulIt", JNull); (s "id", JStr (s "x"))]) /\
     decode Ex ebs (q "Emp3") (JObj [(s "keepIt", JObj []); (s "nulIt", JNull); (s "id", JStr (s "x"))])
       = ROk [(s "keep_it", FM []); (s "nul_it", FM []); (s "id", vstr "x")] /\
     norm ebs (q "Emp3") m = [(s "keep_it", FM []); (s "nul_it", FM []); (s "id", vstr "x")]) /\
    (* every annotated child absent *)
    (let m := [(s "id", vstr "x")] in
     wt ebs (KMessage (q "Emp3")) (FM m) = true /\
     encode Ex ebs (q "Emp3") m = ROk (JObj [(s "id", JStr (s "x"))]) /\
     decode Ex ebs (q "Emp3") (JObj [(s "id", JStr (s "x"))]) = ROk m).
Proof. vm_compute. repeat split; reflexivity. Qed.

(* every child non-empty: nothing is lost *)
Example empty_nonvacuous_nonempty :
  let md := emp3_md in
  let m := [(s "keep_it", FM [(s "a", vstr "k")]); (s "nul_it", FM [(s "n", vint 7)]); (s "omit_it", FM [(s "a", vstr "o")]);
            (s "omit_at", tsv 5 0); (s "plain_leaf", FM [])] in
  let j := JObj [(s "keepIt", JObj [(s "a", JStr (s "k"))]); (s "nulIt", JObj [(s "n", JStr (s "7"))]);
                 (s "omitIt", JObj [(s "a", JStr (s "o"))]); (s "omitAt", JStr (s "1970-01-01T00:00:05Z"));
                 (s "plainLeaf", JObj [])] in
  wt ebs (KMessage (q "Emp3")) (FM m) = true /\ epoch_null_free md m = true /\
  forallb (fun e => match find_field (m_fields md) (fst e) with
                    | Some f => plain_in ebs (f_kind f) (snd e) | None => false end) m = true /\
  norm ebs (q "Emp3") m = m /\
  encode Ex ebs (q "Emp3") m = ROk j /\ to_json Ex ebs (q "Emp3") m = ROk j /\ decode Ex ebs (q "Emp3") j = ROk m.
Proof. vm_compute. repeat split; reflexivity. Qed.

(* the same on the shared witness schema of CodecExamples.v *)
Example empty_nonvacuous_xs :
  let md := emp_md in
    find_message (all_messages xs) (q "Emp") = Some md /\ owner_of xs md = Own FtEmpty /\
    buildable xs FtEmpty md = true /\ nodup_str (map jn (m_fields md)) = true /\
    null_not_ts md = true /\ empplain_msg md = true /\
    (let m := [(s "nul_it", FM []); (s "omit", FM []); (s "id", vstr "x")] in
     wt xs (KMessage (q "Emp")) (FM m) = true /\
     encode Ex xs (q "Emp") m = ROk (JObj [(s "nulIt", JNull); (s "id", JStr (s "x"))]) /\
     decode Ex xs (q "Emp") (JObj [(s "nulIt", JNull); (s "id", JStr (s "x"))]) = ROk [(s "nul_it", FM []); (s "id", vstr "x")] /\
     norm xs (q "Emp") m = [(s "nul_it", FM []); (s "id", vstr "x")]).
Proof. vm_compute. repeat split; reflexivity. Qed.

(* the side condition [epoch_null_free] is needed: empty_behavior = NULL on a Timestamp field is accepted by the
   generator (annotations.ValidateEmptyBehaviorAnnotation only asks for a singular message field); the epoch
   has proto.Size 0, is written as null (as documented), read back as {} and rejected by protojson.  Every other
   hypothesis of empty_roundtrip holds. *)
Example empty_roundtrip_needs_epoch_null_free :
  let md := tsnull_md in
    let m := [(s "at", FM []); (s "id", vstr "x")] in
    str_eqb (q "TsNull") ts_name = false /\ is_wkt_other (q "TsNull") = false /\
    find_message (all_messages ebs) (q "TsNull") = Some md /\ owner_of ebs md = Own FtEmpty /\
    buildable ebs FtEmpty md = true /\ nodup_str (map jn (m_fields md)) = true /\
    wt ebs (KMessage (q "TsNull")) (FM m) = true /\
    epoch_null_free md m = false /\ null_not_ts md = false /\
    encode Ex ebs (q "TsNull") m = ROk (JObj [(s "at", JNull); (s "id", JStr (s "x"))]) /\
    to_json Ex ebs (q "TsNull") m = ROk (JObj [(s "at", JNull); (s "id", JStr (s "x"))]) /\
    decode Ex ebs (q "TsNull") (JObj [(s "at", JNull); (s "id", JStr (s "x"))]) = RErr (s "invalid timestamp").
Proof. vm_compute. repeat split; reflexivity. Qed.

(* ... and it is the epoch only: any other Timestamp under NULL round-trips (epoch_null_free holds although
   null_not_ts does not) *)
Example empty_roundtrip_null_ts_nonepoch :
  let md := tsnull_md in
    let m := [(s "at", tsv 5 0); (s "id", vstr "x")] in
    wt ebs (KMessage (q "TsNull")) (FM m) = true /\ epoch_null_free md m = true /\ null_not_ts md = false /\
    encode Ex ebs (q "TsNull") m = ROk (JObj [(s "at", JStr (s "1970-01-01T00:00:05Z")); (s "id", JStr (s "x"))]) /\
    decode Ex ebs (q "TsNull") (JObj [(s "at", JStr (s "1970-01-01T00:00:05Z")); (s "id", JStr (s "x"))]) = ROk m.
Proof. vm_compute. repeat split; reflexivity. Qed.

(* conforms_empty is about VALUES: a list that names a field twice is not a message value (wt excludes it);
   on it the map-based rewrite and the per-entry mapping differ *)
Example conforms_empty_needs_wt :
  let m := [(s "nul_it", FM []); (s "nul_it", FM [(s "a", vstr "z")])] in
  wt xs (KMessage (q "Emp")) (FM m) = false /\
  encode Ex xs (q "Emp") m = ROk (JObj [(s "nulIt", JNull); (s "nulIt", JNull)]) /\
  to_json Ex xs (q "Emp") m = ROk (JObj [(s "nulIt", JNull); (s "nulIt", JObj [(s "a", JStr (s "z"))])]).
Proof. vm_compute. repeat split; reflexivity. Qed.

(* norm_id_without_lossy needs its third clause: a map whose values are unwrap wrappers loses the wrappers'
   other fields (documented: "only the unwrap field is used"), with no timestamp_format / empty_behavior around *)
Example norm_id_needs_no_unwrap_values :
  let md := book_md in
    let m := [(s "pages", FMap [(VStr (s "k"), FM [(s "items", FL [vstr "a"]); (s "total", vint 3)])])] in
    lookup_message ebs (q "Book") = Some md /\
    forallb (fun f => match tsfmt_of f with None => negb (is_omitf f) | _ => false end) (m_fields md) = true /\
    lossy_free ebs md = false /\
    wt ebs (KMessage (q "Book")) (FM m) = true /\
    norm ebs (q "Book") m = [(s "pages", FMap [(VStr (s "k"), FM [(s "items", FL [vstr "a"])])])].
Proof. vm_compute. repeat split; reflexivity. Qed.

(* messages without lossy annotations: un-annotated, int64 NUMBER, and empty_behavior = NULL only *)
Example norm_id_nonvacuous :
  (forall md, lookup_message xs (q "Nums") = Some md -> lossy_free xs md = true) /\
  (forall md, lookup_message xs (q "Plain") = Some md -> lossy_free xs md = true) /\
  (forall md, lookup_message ebs (q "TsNull") = Some md -> lossy_free ebs md = true) /\
  owner_of ebs tsnull_md = Own FtEmpty.
Proof.
  repeat split; try (intros md H; vm_compute in H; inversion H; subst md); vm_compute; reflexivity.
Qed.
Close Scope Z_scope.
