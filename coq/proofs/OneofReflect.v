(* OneofReflect.v — encoding/json (reflection) on a protoc-gen-go struct WITHOUT a codec of its own, as the
   discriminated-oneof codec uses it for a message variant:
     gj form  : json.Marshal(variant)   (flattened oneof, MarshalJSON side and the re-marshal of UnmarshalJSON)
     gj_un    : json.Unmarshal(.., variant) of the gj form (flattened) or of the protojson form (non-flattened)
     pj_un    : protojson.Unmarshal of the gj form (what the parent's final protojson.Unmarshal sees). *)
From Coq Require Import Lia ZArith List Permutation.
From Sebuf Require Import CodecCases.
From SebufProofs Require Import TextFacts CodecTextFacts ProtoJsonFacts.
From SebufProofs Require NullableFacts Int64Facts BytesFacts TimestampFacts EmptyFacts.
From SebufProofs Require Import OneofPj ClashFacts.
Import ListNotations.

Open Scope Z_scope.

Lemma rbind_not_err {A B} (x : res A) (f : A -> res B) e :
  x >>= f = RErr e -> x = RErr e \/ exists a, x = ROk a /\ f a = RErr e.
Proof. destruct x; simpl; intros H; try discriminate; [right; eauto|left; inversion H; reflexivity]. Qed.

Lemma rall_map_ok {A B} (g : A -> res B) (h : A -> B) l :
  (forall a, In a l -> g a = ROk (h a)) -> rall (map g l) = ROk (map h l).
Proof.
  induction l as [|a r IH]; intros H; [reflexivity|]. cbn [map rall]. rewrite (H a (or_introl eq_refl)). cbn [rbind].
  rewrite IH; [reflexivity|]. intros b Hb. apply H. right. exact Hb.
Qed.
Lemma rall_F2 {A B} (g : A -> res B) l l' :
  Forall2 (fun a b => g a = ROk b) l l' -> rall (map g l) = ROk l'.
Proof.
  induction 1 as [|a b r r' Hab _ IH]; [reflexivity|]. cbn [map rall]. rewrite Hab. cbn [rbind]. rewrite IH. reflexivity.
Qed.
Lemma rall_ok_ex {A} (l : list (res A)) : (forall x, In x l -> exists a, x = ROk a) -> exists r, rall l = ROk r.
Proof.
  induction l as [|x r IH]; intros H; [exists []; reflexivity|].
  destruct (H x (or_introl eq_refl)) as [a Ha]. destruct IH as [t Ht]; [intros y Hy; apply H; right; exact Hy|].
  exists (a :: t). cbn [rall]. rewrite Ha. cbn [rbind]. rewrite Ht. reflexivity.
Qed.

Section Reflect.
Variable E : ExtLib.
Hypothesis EL : ExtLaws E.
Variable sc : schema.

(* ---- the loops of Codec.v, named ------------------------------------------------------------------------------- *)
Definition gj_list (k : kind) : list fval -> res (list json) :=
  fix go (l : list fval) : res (list json) :=
    match l with
    | [] => ROk []
    | x :: r => gj_fval E sc k x >>= (fun j => go r >>= (fun t => ROk (j :: t)))
    end.
Definition gj_map (k : kind) : list (sval * fval) -> res (list (str * json)) :=
  fix go (kv : list (sval * fval)) : res (list (str * json)) :=
    match kv with
    | [] => ROk []
    | (key, x) :: r => gj_key_text key >>= (fun kt => gj_fval E sc k x >>= (fun j => go r >>= (fun t => ROk ((kt, j) :: t))))
    end.
Definition gj_msg (md : message) : list (str * fval) -> res (list (str * json)) :=
  fix go (m : list (str * fval)) : res (list (str * json)) :=
    match m with
    | [] => ROk []
    | (name, x) :: r =>
        match find_field (m_fields md) name with
        | None => RUnm (s "value names an undeclared field")
        | Some f =>
            match x with
            | FS (VBytes []) => go r
            | _ => gj_fval E sc (f_kind f) x >>= (fun j => go r >>= (fun t => ROk ((name, j) :: t)))
            end
        end
    end.

Lemma gj_fval_FS k x : gj_fval E sc k (FS x) = gj_scalar E sc k x.
Proof. reflexivity. Qed.
Lemma gj_fval_FL k l : gj_fval E sc k (FL l) = gj_list k l >>= (fun js => ROk (JArr js)).
Proof. reflexivity. Qed.
Lemma gj_fval_FMap k kv : gj_fval E sc k (FMap kv) = gj_map k kv >>= (fun es => ROk (JObj es)).
Proof. reflexivity. Qed.
Lemma gj_fval_reflect tn md m :
  is_wkt_other tn = false -> lookup_message sc tn = Some md -> owner_of sc md = OwnNone ->
  gj_fval E sc (KMessage tn) (FM m) =
  if real_oneof_set md m then RUnm (s "encoding/json on a struct with a populated oneof")
  else gj_msg md m >>= (fun es => ROk (JObj es)).
Proof. intros H1 H2 H3. simpl. rewrite H1, H2, H3. reflexivity. Qed.

Definition list_un (n : nat) (ek : kind) (jv : json) : res (option fval) :=
  match jv with
  | JNull => ROk None
  | JArr l =>
      rall (map (fun x => gj_un E sc n ek x >>= (fun o =>
              match o with Some v => ROk v | None => RUnm (s "null element in an array") end)) l)
      >>= (fun vs => ROk (Some (FL vs)))
  | _ => RErr (s "json: cannot unmarshal into slice")
  end.
Definition map_un (n : nat) (kk ek : kind) (jv : json) : res (option fval) :=
  match jv with
  | JNull => ROk None
  | JObj kv =>
      if kind_eqb kk KBool then RErr (s "json: cannot unmarshal object into Go value of type map[bool]") else
      rall (map (fun e => key_of_text kk (fst e) >>= (fun key => gj_un E sc n ek (snd e) >>= (fun o =>
              match o with Some v => ROk (key, v) | None => RUnm (s "null map value") end))) kv)
      >>= (fun es => ROk (Some (FMap (sort_entries es))))
  | _ => RErr (s "json: cannot unmarshal into map")
  end.
Definition un_value (n : nat) (f : field) (jv : json) : res (option fval) :=
  match f_card f with
  | Repeated => list_un n (f_kind f) jv
  | MapOf kk => map_un n kk (f_kind f) jv
  | _ => gj_un E sc n (f_kind f) jv
  end.
Definition un_field (n : nat) (md : message) (e : str * json) : res (option (field * fval)) :=
  match field_by_fold md (fst e) with
  | None => ROk None
  | Some f => un_value n f (snd e) >>= (fun o => ROk (option_map (fun v => (f, v)) o))
  end.

(* the struct fields the keys of an object address (exact name, else case-folded) *)
Definition key_fields (md : message) (kv : list (str * json)) : list field :=
  flat_map (fun e => opt_list (field_by_fold md (fst e))) kv.

Lemma gj_un_reflect n tn md kv :
  is_wkt_other tn = false -> lookup_message sc tn = Some md -> owner_of sc md = OwnNone -> has_real_oneof md = false ->
  gj_un E sc (S n) (KMessage tn) (JObj kv) =
  if clash_unm (key_fields md kv)
  then RUnm (s "two keys of one object address the same slice, map, pointer or struct field") else
  rall (map (un_field n md) kv) >>= (fun ofs => ROk (Some (FM (assemble (last_wins (flat_map opt_list ofs)))))).
Proof. intros H1 H2 H3 H4. simpl. rewrite H1, H2, H3, H4. reflexivity. Qed.

(* keys that address pairwise distinct fields *)
Lemma key_fields_sub {A} (g : A -> list field) (h : A -> str) (l : list A) :
  (forall a, In a l -> g a = [] \/ exists f, g a = [f] /\ f_name f = h a) ->
  NoDup (map h l) -> NoDup (map f_name (flat_map g l)).
Proof.
  induction l as [|a r IH]; intros Hg Hnd; [constructor|]. cbn [map] in Hnd. inversion Hnd as [|x l0 Hnot Hr]; subst.
  cbn [flat_map]. assert (IHr : NoDup (map f_name (flat_map g r))).
  { apply IH; [intros b Hb; apply Hg; right; exact Hb|exact Hr]. }
  destruct (Hg a (or_introl eq_refl)) as [Hnil|[f [Hf Hn]]]; rewrite ?Hnil, ?Hf; [exact IHr|].
  cbn [app map]. constructor; [|exact IHr].
  intros Hin. apply in_map_iff in Hin. destruct Hin as [f' [Hn' Hin]]. apply in_flat_map in Hin. destruct Hin as [b [Hb Hfb]].
  destruct (Hg b (or_intror Hb)) as [Hnil|[f2 [Hf2 Hn2]]]; [rewrite Hnil in Hfb; destruct Hfb|].
  rewrite Hf2 in Hfb. destruct Hfb as [Hfb|[]]. subst f2. apply Hnot. rewrite <- Hn, <- Hn', Hn2. apply in_map. exact Hb.
Qed.

Lemma gj_un_scalar n k j : is_msgk k = false -> gj_un E sc (S n) k j = gj_unscalar E sc k j >>= (fun o => ROk (option_map FS o)).
Proof. intros H. destruct k; try discriminate H; reflexivity. Qed.

(* kinds whose encoding/json form both json.Unmarshal and protojson read back *)
Definition gj_kind_ok (k : kind) : bool := negb (is_msgk k) && negb (enum_with_codec sc k).

Lemma b64_std_no_crlf x : has_crlf (b64_enc false true x) = false.
Proof. apply BytesFacts.ncrlf_no_crlf, BytesFacts.b64_enc_ncrlf. Qed.

Lemma fprint_good is64 b j :
  float_ok is64 b = true -> fclassify is64 b = FFinite -> x_fprint E is64 b = Some j ->
  j <> JNull /\ is_jnumber j = true /\
  (exists p, x_fscan E j = Some p /\ (if is64 then fst p else snd p) = b) /\ (b <? 0) = false /\
  float_of_json E is64 j = ROk (VFloat b).
Proof.
  intros Hok Hc Hp.
  assert (Hb : (b <? 0) = false). { unfold float_ok in Hok. rewrite Hc in Hok. apply Z.leb_le in Hok. apply Z.ltb_ge. exact Hok. }
  assert (Hrt : float_of_json E is64 j = ROk (VFloat b)).
  { apply (float_rt E EL is64 b j Hok). unfold float_json. rewrite Hc, Hp. reflexivity. }
  assert (Hscan : exists p, x_fscan E j = Some p /\ (if is64 then fst p else snd p) = b).
  { destruct is64.
    - destruct (law_f64 E EL _ _ Hp) as [b32 Hs]. exists (b, b32). split; [exact Hs|reflexivity].
    - destruct (law_f32 E EL _ _ Hp) as [b64 Hs]. exists (b64, b). split; [exact Hs|reflexivity]. }
  destruct (law_fprint_num E EL _ _ _ Hp) as [[z Hz]|[f Hf]]; subst j; repeat split; try discriminate; try reflexivity; assumption.
Qed.

Lemma gj_scalar_good k v j :
  gj_kind_ok k = true -> wt_scalar sc k v = true -> float_special k (FS v) = false ->
  gj_scalar E sc k v = ROk j ->
  gj_unscalar E sc k j = ROk (Some v) /\ pj_unscalar E sc k j = ROk v /\ j <> JNull.
Proof.
  intros Hk Hwt Hfs Hj. unfold gj_kind_ok in Hk. apply andb_prop in Hk. destruct Hk as [Hk1 Hk2].
  apply Bool.negb_true_iff in Hk1. apply Bool.negb_true_iff in Hk2.
  destruct v as [z|b|x|x|b|n].
  - (* VInt *)
    assert (Hw : (is_int32_kind k || is_int64_kind k) = true /\ in_int_range k z = true).
    { destruct k; try discriminate Hwt; apply andb_prop; exact Hwt. }
    destruct Hw as [Hw1 Hw2].
    assert (Hjj : j = JNum z).
    { destruct k; cbn in Hw1; try discriminate Hw1; cbn in Hj; inversion Hj; reflexivity. }
    subst j. repeat split; try discriminate.
    + destruct k; cbn in Hw1; try discriminate Hw1; cbn [gj_unscalar]; rewrite Hw2; reflexivity.
    + destruct k; cbn in Hw1; try discriminate Hw1; cbn [pj_unscalar int_of_json]; rewrite Hw2; reflexivity.
  - destruct k; cbn in Hwt; try discriminate Hwt. cbn in Hj. inversion Hj; subst j. repeat split; try discriminate; reflexivity.
  - destruct k; cbn in Hwt; try discriminate Hwt. cbn in Hj. inversion Hj; subst j. repeat split; try discriminate; reflexivity.
  - destruct k; cbn in Hwt; try discriminate Hwt. cbn in Hj. inversion Hj; subst j. repeat split; try discriminate.
    + cbn [gj_unscalar]. rewrite b64_std_no_crlf, b64_roundtrip. reflexivity.
    + cbn [pj_unscalar]. rewrite pj_b64_roundtrip. reflexivity.
  - (* floats *)
    destruct k; cbn in Hwt; try discriminate Hwt.
    + cbn [float_special] in Hfs. cbn [gj_scalar] in Hj.
      destruct (fclassify true b) eqn:Hc; try discriminate Hfs.
      destruct (x_fprint E true b) as [j'|] eqn:Hp; [|discriminate Hj]. inversion Hj; subst j'.
      destruct (fprint_good true b j Hwt Hc Hp) as [Hnn [Hnum [[p [Hs Hpb]] [Hb Hrt]]]].
      repeat split; [|exact Hrt|exact Hnn].
      cbn [gj_unscalar]. destruct j; try (exfalso; apply Hnn; reflexivity); rewrite Hnum, Hs; destruct p as [p1 p2]; cbn [fst] in Hpb; subst p1; rewrite Hb; reflexivity.
    + cbn [float_special] in Hfs. cbn [gj_scalar] in Hj.
      destruct (fclassify false b) eqn:Hc; try discriminate Hfs.
      destruct (x_fprint E false b) as [j'|] eqn:Hp; [|discriminate Hj]. inversion Hj; subst j'.
      destruct (fprint_good false b j Hwt Hc Hp) as [Hnn [Hnum [[p [Hs Hpb]] [Hb Hrt]]]].
      repeat split; [|exact Hrt|exact Hnn].
      cbn [gj_unscalar]. destruct j; try (exfalso; apply Hnn; reflexivity); rewrite Hnum, Hs; destruct p as [p1 p2]; cbn [snd] in Hpb; subst p2; rewrite Hb; reflexivity.
  - (* enums *)
    destruct k; cbn in Hwt; try discriminate Hwt.
    cbn [gj_scalar] in Hj. unfold gj_enum in Hj. cbn [enum_with_codec] in Hk2.
    destruct (find_enum (all_enums sc) tn) as [e|] eqn:He; [|discriminate Hwt].
    rewrite Hk2 in Hj. inversion Hj; subst j.
    unfold enum_rt in Hwt. apply andb_prop in Hwt. destruct Hwt as [Hr _].
    repeat split; try discriminate.
    + cbn [gj_unscalar]. rewrite He, Hk2, Hr. reflexivity.
    + cbn [pj_unscalar]. unfold enum_of_json. rewrite He, Hr. reflexivity.
Qed.

Lemma gj_scalar_noerr k v e :
  wt_scalar sc k v = true -> float_special k (FS v) = false -> gj_scalar E sc k v <> RErr e.
Proof.
  intros Hwt Hfs H.
  destruct v as [z|b|x|x|b|n]; destruct k; cbn in Hwt; try discriminate Hwt; cbn [gj_scalar is_int32_kind is_int64_kind orb] in H; try discriminate H.
  - cbn [float_special] in Hfs. destruct (fclassify true b); try discriminate Hfs. destruct (x_fprint E true b); discriminate H.
  - cbn [float_special] in Hfs. destruct (fclassify false b); try discriminate Hfs. destruct (x_fprint E false b); discriminate H.
  - unfold gj_enum in H. destruct (find_enum (all_enums sc) tn); [|discriminate H]. destruct (enum_codec e0); [destruct (ev_by_number _ _)|]; discriminate H.
Qed.

(* a populated field of a reflected struct: kind readable back, floats finite, no bool-keyed map *)
Definition gj_entry_ok (f : field) (x : fval) : bool :=
  gj_kind_ok (f_kind f) && negb (nonfinite_in (f_kind f) x) &&
  negb (match f_card f with MapOf KBool => true | _ => false end).

Lemma wt_nonmsg_scalar k y : is_msgk k = false -> wt sc k y = true -> exists v, y = FS v /\ wt_scalar sc k v = true.
Proof.
  intros Hk Hw. destruct y as [v|cm|l|kv].
  - exists v. split; [reflexivity|]. cbn [wt] in Hw. apply andb_prop in Hw. apply Hw.
  - destruct k; try discriminate Hw; discriminate Hk.
  - discriminate Hw.
  - discriminate Hw.
Qed.

Definition all_wt (k : kind) : list fval -> bool :=
  fix all (l : list fval) : bool := match l with [] => true | y :: t => wt sc k y && all t end.
Definition any_nonfinite (k : kind) : list fval -> bool :=
  fix go (l : list fval) : bool := match l with [] => false | x :: r => nonfinite_in k x || go r end.
Lemma nonfinite_FL k l : nonfinite_in k (FL l) = any_nonfinite k l.
Proof. reflexivity. Qed.
Definition all_wt_kv (kk k : kind) : list (sval * fval) -> bool :=
  fix all (kv : list (sval * fval)) : bool :=
    match kv with [] => true | (key, y) :: t => wt_key kk key && wt sc k y && all t end.
Definition any_nonfinite_kv (k : kind) : list (sval * fval) -> bool :=
  fix go (kv : list (sval * fval)) : bool := match kv with [] => false | (_, x) :: r => nonfinite_in k x || go r end.
Lemma nonfinite_FMap k kv : nonfinite_in k (FMap kv) = any_nonfinite_kv k kv.
Proof. reflexivity. Qed.

Lemma gj_list_good k n l : gj_kind_ok k = true -> all_wt k l = true -> any_nonfinite k l = false ->
  forall js, gj_list k l = ROk js ->
  rall (map (fun x => gj_un E sc (S n) k x >>= (fun o =>
              match o with Some v => ROk v | None => RUnm (s "null element in an array") end)) js) = ROk l /\
  u_elems E sc k js = ROk l.
Proof.
  intros Hk. pose proof Hk as Hk'. unfold gj_kind_ok in Hk'. apply andb_prop in Hk'. destruct Hk' as [Hm _]. apply Bool.negb_true_iff in Hm.
  induction l as [|y r IH]; intros Hw Hnf js Hj.
  - cbn in Hj. inversion Hj; subst. split; reflexivity.
  - cbn [all_wt] in Hw. apply andb_prop in Hw. destruct Hw as [Hwy Hwr].
    cbn [any_nonfinite] in Hnf. apply Bool.orb_false_iff in Hnf. destruct Hnf as [Hny Hnr].
    destruct (wt_nonmsg_scalar k y Hm Hwy) as [v [Hy Hv]]. subst y.
    cbn [gj_list] in Hj. apply rbind_ok in Hj. destruct Hj as [j [Hj1 Hj]]. apply rbind_ok in Hj. destruct Hj as [t [Ht Hj]].
    inversion Hj; subst js. rewrite gj_fval_FS in Hj1.
    destruct (gj_scalar_good k v j Hk Hv Hny Hj1) as [Hg [Hp _]].
    destruct (IH Hwr Hnr t Ht) as [IH1 IH2]. split.
    + cbn [map rall]. rewrite (gj_un_scalar n k j Hm), Hg. cbn [rbind option_map]. rewrite IH1. reflexivity.
    + cbn [u_elems]. rewrite (pj_un_scalar E sc k j Hm), Hp. cbn [rbind]. change (u_elems E sc k t) with (u_elems E sc k t). 
      fold (u_elems E sc k). rewrite IH2. reflexivity.
Qed.

Lemma gj_list_noerr k l e : gj_kind_ok k = true -> all_wt k l = true -> any_nonfinite k l = false ->
  gj_list k l <> RErr e.
Proof.
  intros Hk. pose proof Hk as Hk'. unfold gj_kind_ok in Hk'. apply andb_prop in Hk'. destruct Hk' as [Hm _]. apply Bool.negb_true_iff in Hm.
  induction l as [|y r IH]; intros Hw Hnf H; [discriminate H|].
  cbn [all_wt] in Hw. apply andb_prop in Hw. destruct Hw as [Hwy Hwr].
  cbn [any_nonfinite] in Hnf. apply Bool.orb_false_iff in Hnf. destruct Hnf as [Hny Hnr].
  destruct (wt_nonmsg_scalar k y Hm Hwy) as [v [Hy Hv]]. subst y.
  cbn [gj_list] in H. apply rbind_not_err in H. destruct H as [H|[j [_ H]]].
  - rewrite gj_fval_FS in H. exact (gj_scalar_noerr k v e Hv Hny H).
  - apply rbind_not_err in H. destruct H as [H|[t [_ H]]]; [exact (IH Hwr Hnr H)|discriminate H].
Qed.

Lemma gj_key_rt kk key t : wt_key kk key = true -> negb (kind_eqb kk KBool) = true -> gj_key_text key = ROk t ->
  key_of_text kk t = ROk key.
Proof.
  intros Hw Hb Ht. apply (key_rt kk key t Hw).
  destruct key; cbn in Ht; try discriminate Ht; inversion Ht; reflexivity.
Qed.
Lemma gj_key_noerr kk key e : wt_key kk key = true -> negb (kind_eqb kk KBool) = true -> gj_key_text key <> RErr e.
Proof.
  intros Hw Hb H. destruct key; cbn in H; try discriminate H. destruct kk; cbn in Hw; try discriminate Hw. discriminate Hb.
Qed.

Lemma gj_map_good kk k n kv : gj_kind_ok k = true -> negb (kind_eqb kk KBool) = true ->
  all_wt_kv kk k kv = true -> any_nonfinite_kv k kv = false ->
  forall es, gj_map k kv = ROk es ->
  rall (map (fun e => key_of_text kk (fst e) >>= (fun key => gj_un E sc (S n) k (snd e) >>= (fun o =>
              match o with Some v => ROk (key, v) | None => RUnm (s "null map value") end))) es) = ROk kv /\
  u_ents E sc kk k es = ROk kv.
Proof.
  intros Hk Hb. pose proof Hk as Hk'. unfold gj_kind_ok in Hk'. apply andb_prop in Hk'. destruct Hk' as [Hm _]. apply Bool.negb_true_iff in Hm.
  induction kv as [|[key y] r IH]; intros Hw Hnf es Hj.
  - cbn in Hj. inversion Hj; subst. split; reflexivity.
  - cbn [all_wt_kv] in Hw. apply andb_prop in Hw. destruct Hw as [Hw Hwr]. apply andb_prop in Hw. destruct Hw as [Hwk Hwy].
    cbn [any_nonfinite_kv] in Hnf. apply Bool.orb_false_iff in Hnf. destruct Hnf as [Hny Hnr].
    destruct (wt_nonmsg_scalar k y Hm Hwy) as [v [Hy Hv]]. subst y.
    cbn [gj_map] in Hj. apply rbind_ok in Hj. destruct Hj as [kt [Hkt Hj]].
    apply rbind_ok in Hj. destruct Hj as [j [Hj1 Hj]]. apply rbind_ok in Hj. destruct Hj as [t [Ht Hj]].
    inversion Hj; subst es. rewrite gj_fval_FS in Hj1.
    destruct (gj_scalar_good k v j Hk Hv Hny Hj1) as [Hg [Hp _]].
    pose proof (gj_key_rt kk key kt Hwk Hb Hkt) as Hkey.
    destruct (IH Hwr Hnr t Ht) as [IH1 IH2]. split.
    + cbn [map rall fst snd]. rewrite Hkey. cbn [rbind]. rewrite (gj_un_scalar n k j Hm), Hg. cbn [rbind option_map]. rewrite IH1. reflexivity.
    + cbn [u_ents]. rewrite Hkey. cbn [rbind]. rewrite (pj_un_scalar E sc k j Hm), Hp. cbn [rbind]. fold (u_ents E sc kk k). rewrite IH2. reflexivity.
Qed.

Lemma gj_map_noerr kk k kv e : gj_kind_ok k = true -> negb (kind_eqb kk KBool) = true ->
  all_wt_kv kk k kv = true -> any_nonfinite_kv k kv = false -> gj_map k kv <> RErr e.
Proof.
  intros Hk Hb. pose proof Hk as Hk'. unfold gj_kind_ok in Hk'. apply andb_prop in Hk'. destruct Hk' as [Hm _]. apply Bool.negb_true_iff in Hm.
  induction kv as [|[key y] r IH]; intros Hw Hnf H; [discriminate H|].
  cbn [all_wt_kv] in Hw. apply andb_prop in Hw. destruct Hw as [Hw Hwr]. apply andb_prop in Hw. destruct Hw as [Hwk Hwy].
  cbn [any_nonfinite_kv] in Hnf. apply Bool.orb_false_iff in Hnf. destruct Hnf as [Hny Hnr].
  destruct (wt_nonmsg_scalar k y Hm Hwy) as [v [Hy Hv]]. subst y.
  cbn [gj_map] in H. apply rbind_not_err in H. destruct H as [H|[kt [_ H]]]; [exact (gj_key_noerr kk key e Hwk Hb H)|].
  apply rbind_not_err in H. destruct H as [H|[j [_ H]]].
  - rewrite gj_fval_FS in H. exact (gj_scalar_noerr k v e Hv Hny H).
  - apply rbind_not_err in H. destruct H as [H|[t [_ H]]]; [exact (IH Hwr Hnr H)|discriminate H].
Qed.

Lemma not_boolmap_kk kk : negb (match kk with KBool => true | _ => false end) = true -> negb (kind_eqb kk KBool) = true.
Proof. intros H. destruct kk; try reflexivity. discriminate H. Qed.

Lemma gj_value_good f x j n :
  gj_entry_ok f x = true -> wt_entry sc f x = true -> gj_fval E sc (f_kind f) x = ROk j ->
  un_value (S n) f j = ROk (Some x) /\ u_value E sc f j = ROk (Some x) /\ j <> JNull.
Proof.
  intros Hok Hw Hj. unfold gj_entry_ok in Hok. apply andb_prop in Hok. destruct Hok as [Hok Hbm].
  apply andb_prop in Hok. destruct Hok as [Hk Hnf]. apply Bool.negb_true_iff in Hnf.
  pose proof Hk as Hk'. unfold gj_kind_ok in Hk'. apply andb_prop in Hk'. destruct Hk' as [Hm _]. apply Bool.negb_true_iff in Hm.
  unfold wt_entry in Hw. destruct x as [v|cm|l|kv].
  - assert (Hc : (wt sc (f_kind f) (FS v) && populated f (FS v)) = true /\
                 match f_card f with Singular | Optional => True | _ => False end).
    { destruct (f_card f); try discriminate Hw; split; auto. }
    destruct Hc as [Hw' Hcard]. apply andb_prop in Hw'. destruct Hw' as [Hwt _].
    cbn [wt] in Hwt. apply andb_prop in Hwt. destruct Hwt as [_ Hv].
    rewrite gj_fval_FS in Hj. destruct (gj_scalar_good (f_kind f) v j Hk Hv Hnf Hj) as [Hg [Hp Hnn]].
    repeat split; [| |exact Hnn].
    + unfold un_value. destruct (f_card f); try contradiction; rewrite (gj_un_scalar n _ j Hm), Hg; reflexivity.
    + unfold u_value. destruct j; try (exfalso; apply Hnn; reflexivity);
        destruct (f_card f); try contradiction; rewrite (pj_un_scalar E sc _ _ Hm), Hp; reflexivity.
  - exfalso. assert (Hwt : wt sc (f_kind f) (FM cm) = true) by (destruct (f_card f); try discriminate Hw; exact Hw).
    destruct (f_kind f); try discriminate Hwt. discriminate Hm.
  - destruct l as [|e0 l]; [destruct (f_card f); discriminate Hw|].
    assert (Hc : f_card f = Repeated) by (destruct (f_card f); try discriminate Hw; reflexivity).
    rewrite Hc in Hw. rewrite nonfinite_FL in Hnf.
    rewrite gj_fval_FL in Hj. apply rbind_ok in Hj. destruct Hj as [js [Hjs Hj]]. inversion Hj; subst j.
    destruct (gj_list_good (f_kind f) n (e0 :: l) Hk Hw Hnf js Hjs) as [H1 H2].
    repeat split; [| |discriminate].
    + unfold un_value. rewrite Hc. unfold list_un. rewrite H1. reflexivity.
    + unfold u_value. rewrite Hc, H2. reflexivity.
  - destruct kv as [|e0 kv]; [destruct (f_card f); discriminate Hw|].
    destruct (f_card f) as [| | |kk] eqn:Hc; try discriminate Hw.
    apply andb_prop in Hw. destruct Hw as [Hs Hw]. rewrite nonfinite_FMap in Hnf.
    pose proof (not_boolmap_kk kk Hbm) as Hb.
    rewrite gj_fval_FMap in Hj. apply rbind_ok in Hj. destruct Hj as [es [Hes Hj]]. inversion Hj; subst j.
    destruct (gj_map_good kk (f_kind f) n (e0 :: kv) Hk Hb Hw Hnf es Hes) as [H1 H2].
    repeat split; [| |discriminate].
    + unfold un_value. rewrite Hc. unfold map_un. rewrite (proj1 (Bool.negb_true_iff _) Hb), H1. cbn [rbind].
      rewrite (sorted_key_sort _ Hs). reflexivity.
    + unfold u_value. rewrite Hc, H2. cbn [rbind]. rewrite (sorted_key_no_dup _ Hs), (sorted_key_sort _ Hs). reflexivity.
Qed.

Lemma gj_value_noerr f x e :
  gj_entry_ok f x = true -> wt_entry sc f x = true -> gj_fval E sc (f_kind f) x <> RErr e.
Proof.
  intros Hok Hw H. unfold gj_entry_ok in Hok. apply andb_prop in Hok. destruct Hok as [Hok Hbm].
  apply andb_prop in Hok. destruct Hok as [Hk Hnf]. apply Bool.negb_true_iff in Hnf.
  pose proof Hk as Hk'. unfold gj_kind_ok in Hk'. apply andb_prop in Hk'. destruct Hk' as [Hm _]. apply Bool.negb_true_iff in Hm.
  unfold wt_entry in Hw. destruct x as [v|cm|l|kv].
  - assert (Hwt : wt sc (f_kind f) (FS v) = true).
    { destruct (f_card f); try discriminate Hw; apply andb_prop in Hw; apply Hw. }
    cbn [wt] in Hwt. apply andb_prop in Hwt. destruct Hwt as [_ Hv].
    rewrite gj_fval_FS in H. exact (gj_scalar_noerr (f_kind f) v e Hv Hnf H).
  - assert (Hwt : wt sc (f_kind f) (FM cm) = true) by (destruct (f_card f); try discriminate Hw; exact Hw).
    destruct (f_kind f); try discriminate Hwt. discriminate Hm.
  - destruct l as [|e0 l]; [destruct (f_card f); discriminate Hw|].
    assert (Hc : f_card f = Repeated) by (destruct (f_card f); try discriminate Hw; reflexivity).
    rewrite Hc in Hw. rewrite nonfinite_FL in Hnf.
    rewrite gj_fval_FL in H. apply rbind_not_err in H. destruct H as [H|[js [_ H]]]; [|discriminate H].
    exact (gj_list_noerr (f_kind f) (e0 :: l) e Hk Hw Hnf H).
  - destruct kv as [|e0 kv]; [destruct (f_card f); discriminate Hw|].
    destruct (f_card f) as [| | |kk] eqn:Hc; try discriminate Hw.
    apply andb_prop in Hw. destruct Hw as [Hs Hw]. rewrite nonfinite_FMap in Hnf.
    pose proof (not_boolmap_kk kk Hbm) as Hb.
    rewrite gj_fval_FMap in H. apply rbind_not_err in H. destruct H as [H|[es [_ H]]]; [|discriminate H].
    exact (gj_map_noerr kk (f_kind f) (e0 :: kv) e Hk Hb Hw Hnf H).
Qed.

(* ---- the protojson form of the same kinds, read by encoding/json (non-flattened variant) ------------------------- *)
Definition pj_kind_ok (k : kind) : bool :=
  match k with
  | KBool | KString | KBytes | KDouble | KFloat | KInt32 | KSint32 | KSfixed32 | KUint32 | KFixed32 => true
  | _ => false
  end.
Lemma pj_kind_gj k : pj_kind_ok k = true -> gj_kind_ok k = true.
Proof. destruct k; try discriminate; reflexivity. Qed.

Lemma pj_scalar_eq_gj k v : pj_kind_ok k = true -> wt_scalar sc k v = true -> float_special k (FS v) = false ->
  pj_scalar E sc k v = gj_scalar E sc k v.
Proof.
  intros Hk Hw Hf. destruct v as [z|b|x|x|b|n]; destruct k; try discriminate Hk; cbn in Hw; try discriminate Hw; try reflexivity.
  - cbn [float_special] in Hf. cbn [pj_scalar gj_scalar]. unfold float_json. destruct (fclassify true b); try discriminate Hf. reflexivity.
  - cbn [float_special] in Hf. cbn [pj_scalar gj_scalar]. unfold float_json. destruct (fclassify false b); try discriminate Hf. reflexivity.
Qed.

Lemma pj_list_un k n l : pj_kind_ok k = true -> all_wt k l = true -> any_nonfinite k l = false ->
  forall js, m_list E sc k l = ROk js ->
  rall (map (fun x => gj_un E sc (S n) k x >>= (fun o =>
              match o with Some v => ROk v | None => RUnm (s "null element in an array") end)) js) = ROk l.
Proof.
  intros Hk. pose proof (pj_kind_gj k Hk) as Hg.
  assert (Hm : is_msgk k = false) by (destruct k; try discriminate Hk; reflexivity).
  induction l as [|y r IH]; intros Hw Hnf js Hj.
  - cbn in Hj. inversion Hj; subst. reflexivity.
  - cbn [all_wt] in Hw. apply andb_prop in Hw. destruct Hw as [Hwy Hwr].
    cbn [any_nonfinite] in Hnf. apply Bool.orb_false_iff in Hnf. destruct Hnf as [Hny Hnr].
    destruct (wt_nonmsg_scalar k y Hm Hwy) as [v [Hy Hv]]. subst y.
    cbn [m_list] in Hj. apply rbind_ok in Hj. destruct Hj as [j [Hj1 Hj]]. apply rbind_ok in Hj. destruct Hj as [t [Ht Hj]].
    inversion Hj; subst js. rewrite pj_fval_FS, (pj_scalar_eq_gj k v Hk Hv Hny) in Hj1.
    destruct (gj_scalar_good k v j Hg Hv Hny Hj1) as [Hgu _].
    cbn [map rall]. rewrite (gj_un_scalar n k j Hm), Hgu. cbn [rbind option_map]. rewrite (IH Hwr Hnr t Ht). reflexivity.
Qed.

Lemma pj_map_un kk k n kv : pj_kind_ok k = true ->
  all_wt_kv kk k kv = true -> any_nonfinite_kv k kv = false ->
  forall es, m_map E sc k kv = ROk es ->
  rall (map (fun e => key_of_text kk (fst e) >>= (fun key => gj_un E sc (S n) k (snd e) >>= (fun o =>
              match o with Some v => ROk (key, v) | None => RUnm (s "null map value") end))) es) = ROk kv.
Proof.
  intros Hk. pose proof (pj_kind_gj k Hk) as Hg.
  assert (Hm : is_msgk k = false) by (destruct k; try discriminate Hk; reflexivity).
  induction kv as [|[key y] r IH]; intros Hw Hnf es Hj.
  - cbn in Hj. inversion Hj; subst. reflexivity.
  - cbn [all_wt_kv] in Hw. apply andb_prop in Hw. destruct Hw as [Hw Hwr]. apply andb_prop in Hw. destruct Hw as [Hwk Hwy].
    cbn [any_nonfinite_kv] in Hnf. apply Bool.orb_false_iff in Hnf. destruct Hnf as [Hny Hnr].
    destruct (wt_nonmsg_scalar k y Hm Hwy) as [v [Hy Hv]]. subst y.
    cbn [m_map] in Hj. apply rbind_ok in Hj. destruct Hj as [kt [Hkt Hj]].
    apply rbind_ok in Hj. destruct Hj as [j [Hj1 Hj]]. apply rbind_ok in Hj. destruct Hj as [t [Ht Hj]].
    inversion Hj; subst es. rewrite pj_fval_FS, (pj_scalar_eq_gj k v Hk Hv Hny) in Hj1.
    destruct (gj_scalar_good k v j Hg Hv Hny Hj1) as [Hgu _].
    cbn [map rall fst snd]. rewrite (key_rt kk key kt Hwk Hkt). cbn [rbind].
    rewrite (gj_un_scalar n k j Hm), Hgu. cbn [rbind option_map]. rewrite (IH Hwr Hnr t Ht). reflexivity.
Qed.

Lemma pj_value_un f x j n :
  pj_kind_ok (f_kind f) = true -> nonfinite_in (f_kind f) x = false ->
  negb (match f_card f with MapOf KBool => true | _ => false end) = true -> wt_entry sc f x = true ->
  pj_fval E sc (f_kind f) x = ROk j -> un_value (S n) f j = ROk (Some x).
Proof.
  intros Hk Hnf Hbm Hw Hj. pose proof (pj_kind_gj _ Hk) as Hg.
  assert (Hm : is_msgk (f_kind f) = false) by (destruct (f_kind f); try discriminate Hk; reflexivity).
  unfold wt_entry in Hw. destruct x as [v|cm|l|kv].
  - assert (Hc : (wt sc (f_kind f) (FS v) && populated f (FS v)) = true /\
                 match f_card f with Singular | Optional => True | _ => False end).
    { destruct (f_card f); try discriminate Hw; split; auto. }
    destruct Hc as [Hw' Hcard]. apply andb_prop in Hw'. destruct Hw' as [Hwt _].
    cbn [wt] in Hwt. apply andb_prop in Hwt. destruct Hwt as [_ Hv].
    rewrite pj_fval_FS, (pj_scalar_eq_gj _ v Hk Hv Hnf) in Hj.
    destruct (gj_scalar_good (f_kind f) v j Hg Hv Hnf Hj) as [Hgu _].
    unfold un_value. destruct (f_card f); try contradiction; rewrite (gj_un_scalar n _ j Hm), Hgu; reflexivity.
  - exfalso. assert (Hwt : wt sc (f_kind f) (FM cm) = true) by (destruct (f_card f); try discriminate Hw; exact Hw).
    destruct (f_kind f); try discriminate Hwt. discriminate Hm.
  - destruct l as [|e0 l]; [destruct (f_card f); discriminate Hw|].
    assert (Hc : f_card f = Repeated) by (destruct (f_card f); try discriminate Hw; reflexivity).
    rewrite Hc in Hw. rewrite nonfinite_FL in Hnf.
    rewrite pj_fval_FL in Hj. apply rbind_ok in Hj. destruct Hj as [js [Hjs Hj]]. inversion Hj; subst j.
    unfold un_value. rewrite Hc. unfold list_un. rewrite (pj_list_un (f_kind f) n (e0 :: l) Hk Hw Hnf js Hjs). reflexivity.
  - destruct kv as [|e0 kv]; [destruct (f_card f); discriminate Hw|].
    destruct (f_card f) as [| | |kk] eqn:Hc; try discriminate Hw.
    apply andb_prop in Hw. destruct Hw as [Hs Hw]. rewrite nonfinite_FMap in Hnf.
    rewrite pj_fval_FMap in Hj. apply rbind_ok in Hj. destruct Hj as [es [Hes Hj]]. inversion Hj; subst j.
    pose proof (not_boolmap_kk kk Hbm) as Hb.
    unfold un_value. rewrite Hc. unfold map_un.
    rewrite (proj1 (Bool.negb_true_iff _) Hb), (pj_map_un kk (f_kind f) n (e0 :: kv) Hk Hw Hnf es Hes).
    cbn [rbind]. rewrite (sorted_key_sort _ Hs). reflexivity.
Qed.

(* ---- a whole reflected struct ------------------------------------------------------------------------------------- *)
Definition empty_bytes (x : fval) : bool := match x with FS (VBytes []) => true | _ => false end.

Lemma gj_msg_cons md name x r f :
  find_field (m_fields md) name = Some f -> empty_bytes x = false ->
  gj_msg md ((name, x) :: r) = gj_fval E sc (f_kind f) x >>= (fun j => gj_msg md r >>= (fun t => ROk ((name, j) :: t))).
Proof.
  intros Hf He. cbn [gj_msg]. rewrite Hf.
  destruct x as [[z|b|y|[|c y]|b|n]|cm|l|kv]; try reflexivity. discriminate He.
Qed.

Definition gj_ent (md : message) (e : str * fval) (e' : str * json) : Prop :=
  exists f, find_field (m_fields md) (fst e) = Some f /\ fst e' = fst e /\
            gj_fval E sc (f_kind f) (snd e) = ROk (snd e').

Lemma gj_msg_entries md m :
  forallb (fun e => negb (empty_bytes (snd e))) m = true ->
  forall ckv, gj_msg md m = ROk ckv -> Forall2 (gj_ent md) m ckv.
Proof.
  induction m as [|[name x] r IH]; intros Hne ckv H.
  - cbn in H. inversion H. constructor.
  - cbn [forallb snd] in Hne. apply andb_prop in Hne. destruct Hne as [Hx Hr]. apply Bool.negb_true_iff in Hx.
    destruct (find_field (m_fields md) name) as [f|] eqn:Ef; [|cbn [gj_msg] in H; rewrite Ef in H; discriminate H].
    rewrite (gj_msg_cons md name x r f Ef Hx) in H.
    apply rbind_ok in H. destruct H as [j [Hj H]]. apply rbind_ok in H. destruct H as [t [Ht H]]. inversion H; subst ckv.
    constructor; [|apply IH; assumption]. exists f. cbn [fst snd]. auto.
Qed.

Lemma gj_msg_noerr md m e :
  (forall name x, In (name, x) m -> exists f, find_field (m_fields md) name = Some f /\ empty_bytes x = false /\
                                              gj_fval E sc (f_kind f) x <> RErr e) ->
  gj_msg md m <> RErr e.
Proof.
  induction m as [|[name x] r IH]; intros Hall H; [discriminate H|].
  destruct (Hall name x (or_introl eq_refl)) as [f [Hf [He Hne]]].
  rewrite (gj_msg_cons md name x r f Hf He) in H.
  apply rbind_not_err in H. destruct H as [H|[j [_ H]]]; [exact (Hne H)|].
  apply rbind_not_err in H. destruct H as [H|[t [_ H]]]; [|discriminate H].
  apply IH; [intros n' x' Hin; apply Hall; right; exact Hin|exact H].
Qed.

Lemma Forall2_impl_in {A B} (P Q : A -> B -> Prop) l l' :
  Forall2 P l l' -> (forall a b, In a l -> In b l' -> P a b -> Q a b) -> Forall2 Q l l'.
Proof.
  induction 1 as [|a b r r' Hab _ IH]; intros H; constructor.
  - apply H; [left; reflexivity|left; reflexivity|exact Hab].
  - apply IH. intros a' b' Ha Hb. apply H; right; assumption.
Qed.

Lemma msg_ok_no_oneof md f : msg_ok md = true -> In f (m_fields md) -> f_oneof f = None.
Proof.
  unfold msg_ok. intros H Hin. apply andb_prop in H. destruct H as [_ H]. rewrite forallb_forall in H.
  specialize (H f Hin). apply andb_prop in H. destruct H as [_ H]. destruct (f_oneof f); [discriminate H|reflexivity].
Qed.
Lemma msg_ok_no_real_oneof md : msg_ok md = true -> has_real_oneof md = false.
Proof.
  intros Hok. unfold has_real_oneof. destruct (existsb _ (m_fields md)) eqn:Ex; [|reflexivity].
  apply existsb_exists in Ex. destruct Ex as [f [Hin Hf]]. rewrite (msg_ok_no_oneof md f Hok Hin) in Hf. discriminate Hf.
Qed.
Lemma msg_ok_no_oneof_set md m : msg_ok md = true -> real_oneof_set md m = false.
Proof.
  intros Hok. unfold real_oneof_set. destruct (existsb _ (m_fields md)) eqn:Ex; [|reflexivity].
  apply existsb_exists in Ex. destruct Ex as [f [Hin Hf]]. rewrite (msg_ok_no_oneof md f Hok Hin) in Hf. discriminate Hf.
Qed.

(* a field is the first one carrying its name *)
Lemma find_self fs f : NullableFacts.nodup_str (map jn fs) = true -> In f fs -> find_field fs (f_name f) = Some f.
Proof.
  intros Hnd Hin. destruct (find_field fs (f_name f)) as [g|] eqn:Eg.
  - destruct (find_field_spec _ _ _ Eg) as [Hg Hn]. f_equal.
    apply (NullableFacts.nodup_jn_inj fs g f Hnd Hg Hin). unfold jn. rewrite Hn. reflexivity.
  - exfalso. clear Hnd. induction fs as [|h r IH]; [destruct Hin|]. cbn [find_field] in Eg.
    destruct (str_eqb (f_name h) (f_name f)) eqn:Eh; [discriminate Eg|].
    destruct Hin as [Hin|Hin]; [subst h; rewrite str_eqb_refl in Eh; discriminate Eh|exact (IH Hin Eg)].
Qed.

Lemma single_word_json n : multiword n = false -> json_name n = n.
Proof. unfold multiword. intros H. apply Bool.negb_false_iff in H. apply str_eqb_eq. exact H. Qed.

Section Child.
Variable ctn : str.
Variable cmd : message.
Variable cm : mval.
Hypothesis Hts : str_eqb ctn ts_name = false.
Hypothesis Hwk : is_wkt_other ctn = false.
Hypothesis Hfm : find_message (all_messages sc) ctn = Some cmd.
Hypothesis Hown : owner_of sc cmd = OwnNone.
Hypothesis Hok : msg_ok cmd = true.
Hypothesis Hsorted : sorted_Z (map (fun e => num_of cmd (fst e)) cm) = true.
Hypothesis Hwf : wt_fields sc cmd cm = true.

Lemma child_lookup : lookup_message sc ctn = Some cmd.
Proof. unfold lookup_message. rewrite Hts. exact Hfm. Qed.

(* flattened: every populated field has a single-word name, a kind that is read back, finite floats, no bool-keyed
   map, and is not an empty byte string (omitempty) *)
Definition flat_child_ok : bool :=
  forallb (fun e => match find_field (m_fields cmd) (fst e) with
                    | Some f => negb (multiword (fst e)) && gj_entry_ok f (snd e) && negb (empty_bytes (snd e))
                    | None => false
                    end) cm.

Lemma flat_child_in name x : flat_child_ok = true -> In (name, x) cm ->
  exists f, find_field (m_fields cmd) name = Some f /\ In f (m_fields cmd) /\ f_name f = name /\ json_name name = name /\
            gj_entry_ok f x = true /\ empty_bytes x = false /\ wt_entry sc f x = true.
Proof.
  intros Hc Hin. unfold flat_child_ok in Hc. rewrite forallb_forall in Hc. specialize (Hc _ Hin). cbn [fst snd] in Hc.
  destruct (find_field (m_fields cmd) name) as [f|] eqn:Ef; [|discriminate Hc].
  apply andb_prop in Hc. destruct Hc as [Hc H3]. apply andb_prop in Hc. destruct Hc as [H1 H2].
  apply Bool.negb_true_iff in H1. apply Bool.negb_true_iff in H3.
  destruct (find_field_spec _ _ _ Ef) as [Hinf Hn].
  destruct (BytesFacts.wt_fields_in sc cmd cm name x Hwf Hin) as [g [Hg Hw]]. assert (g = f) by congruence. subst g.
  exists f. repeat split; try assumption. exact (single_word_json name H1).
Qed.

Lemma flat_nonempty : flat_child_ok = true -> forallb (fun e => negb (empty_bytes (snd e))) cm = true.
Proof.
  intros Hc. apply forallb_forall. intros [name x] Hin. destruct (flat_child_in name x Hc Hin) as [f [_ [_ [_ [_ [_ [He _]]]]]]].
  cbn [snd]. rewrite He. reflexivity.
Qed.

Lemma flat_gj_ok : flat_child_ok = true -> forall j, gj_fval E sc (KMessage ctn) (FM cm) = ROk j ->
  exists ckv, j = JObj ckv /\ Forall2 (gj_ent cmd) cm ckv.
Proof.
  intros Hc j Hj. rewrite (gj_fval_reflect ctn cmd cm Hwk child_lookup Hown), (msg_ok_no_oneof_set cmd cm Hok) in Hj.
  apply rbind_ok in Hj. destruct Hj as [ckv [Hckv Hj]]. inversion Hj; subst j. exists ckv. split; [reflexivity|].
  exact (gj_msg_entries cmd cm (flat_nonempty Hc) ckv Hckv).
Qed.

Lemma flat_gj_noerr e : flat_child_ok = true -> gj_fval E sc (KMessage ctn) (FM cm) <> RErr e.
Proof.
  intros Hc H. rewrite (gj_fval_reflect ctn cmd cm Hwk child_lookup Hown), (msg_ok_no_oneof_set cmd cm Hok) in H.
  apply rbind_not_err in H. destruct H as [H|[ckv [_ H]]]; [|discriminate H].
  apply (gj_msg_noerr cmd cm e); [|exact H].
  intros name x Hin. destruct (flat_child_in name x Hc Hin) as [f [Hf [_ [_ [_ [Hg [He Hw]]]]]]].
  exists f. repeat split; try assumption. exact (gj_value_noerr f x e Hg Hw).
Qed.

(* protojson reads the encoding/json form of the child *)
Lemma flat_pj_un ckv : flat_child_ok = true -> Forall2 (gj_ent cmd) cm ckv ->
  pj_un E sc (KMessage ctn) (JObj ckv) = ROk (FM cm).
Proof.
  intros Hc HF. apply (TimestampFacts.pj_un_entries E sc ctn cmd cm ckv Hts Hwk Hfm Hok Hsorted).
  eapply Forall2_impl_in; [exact HF|]. intros [name x] [k j] Hin _ [f [Hf [Hk Hj]]]. cbn [fst snd] in Hf, Hk, Hj. subst k.
  destruct (flat_child_in name x Hc Hin) as [g [Hg [_ [_ [Hjn [Hgo [_ Hw]]]]]]]. assert (g = f) by congruence. subst g.
  destruct (gj_value_good f x j O Hgo Hw Hj) as [_ [Hu _]].
  exists f. cbn [fst snd]. repeat split; [exact Hf|symmetry; exact Hjn|exact Hu|exact (wt_entry_populated sc f x Hw)].
Qed.

(* json.Unmarshal of the child's fields, collected in any order, rebuilds the child *)
Definition fv_ent (fv : field * fval) (e' : str * json) : Prop :=
  In (fst fv) (m_fields cmd) /\ fst e' = f_name (fst fv) /\ gj_fval E sc (f_kind (fst fv)) (snd fv) = ROk (snd e') /\
  gj_entry_ok (fst fv) (snd fv) = true /\ wt_entry sc (fst fv) (snd fv) = true.

Lemma flat_gj_un n fvs vmap :
  Forall2 fv_ent fvs vmap -> Permutation fvs (tags cmd cm) ->
  gj_un E sc (S (S n)) (KMessage ctn) (JObj vmap) = ROk (Some (FM cm)).
Proof.
  intros HF HP.
  rewrite (gj_un_reflect (S n) ctn cmd vmap Hwk child_lookup Hown (msg_ok_no_real_oneof cmd Hok)).
  pose proof (BytesFacts.msg_ok_nodup_jn cmd Hok) as Hnd.
  pose proof (BytesFacts.wt_fields_declared sc cmd cm Hwf) as Hd0.
  (* the keys address the fields of fvs, which are pairwise distinct *)
  assert (Hnames : NoDup (map (fun e : field * fval => f_name (fst e)) fvs)).
  { eapply Permutation_NoDup; [apply Permutation_map; apply Permutation_sym; exact HP|].
    assert (Heq : map (fun e : field * fval => f_name (fst e)) (tags cmd cm) = map fst cm).
    { rewrite <- (tags_names cmd cm Hd0) at 2. rewrite map_map. reflexivity. }
    rewrite Heq. exact (Int64Facts.sorted_names_nodup cmd cm Hsorted). }
  assert (Hkf : key_fields cmd vmap = map fst fvs).
  { clear HP Hnames. induction HF as [|[f x] [k j] r r' Hhd _ IH]; [reflexivity|].
    destruct Hhd as [Hin [Hk _]]. cbn [fst snd] in *. subst k.
    unfold key_fields in *. cbn [flat_map map fst]. unfold field_by_fold at 1. rewrite (find_self (m_fields cmd) f Hnd Hin).
    cbn [opt_list app]. rewrite IH. reflexivity. }
  rewrite Hkf, (clash_unm_nodup (map fst fvs)) by (rewrite map_map; exact Hnames).
  assert (Hr : rall (map (un_field (S n) cmd) vmap) = ROk (map Some fvs)).
  { apply rall_F2. clear HP Hnames Hkf. induction HF as [|[f x] [k j] r r' Hhd _ IH]; [constructor|]. cbn [map]. constructor; [|exact IH].
    destruct Hhd as [Hin [Hk [Hj [Hg Hw]]]]. cbn [fst snd] in *. subst k.
    unfold un_field. cbn [fst snd]. unfold field_by_fold. rewrite (find_self (m_fields cmd) f Hnd Hin).
    destruct (gj_value_good f x j n Hg Hw Hj) as [Hu _]. rewrite Hu. reflexivity. }
  rewrite Hr. cbn [rbind]. do 3 f_equal.
  assert (Hfl : flat_map opt_list (map Some fvs) = fvs).
  { clear. induction fvs as [|a r IH]; [reflexivity|]. cbn [map flat_map opt_list app]. rewrite IH. reflexivity. }
  rewrite Hfl, (last_wins_nodup fvs Hnames).
  pose proof (BytesFacts.wt_fields_declared sc cmd cm Hwf) as Hd.
  rewrite (assemble_perm fvs (tags cmd cm)).
  - apply tags_names. exact Hd.
  - eapply Permutation_Forall; [apply Permutation_sym; exact HP|]. exact (tags_populated sc cmd cm Hwf).
  - rewrite (tags_nums cmd cm Hd). exact Hsorted.
  - exact HP.
Qed.

(* non-flattened: the protojson form of the variant is handed to encoding/json; single-word fields must be of a kind
   whose protojson form encoding/json reads and not a bool-keyed map (map[bool]T is no target for json.Unmarshal),
   multi-word keys (lowerCamel) must not fold onto another field *)
Definition nonflat_child_ok : bool :=
  forallb (fun e => match find_field (m_fields cmd) (fst e) with
                    | Some f => if multiword (fst e)
                                then match field_by_fold cmd (json_name (fst e)) with None => true | Some _ => false end
                                else pj_kind_ok (f_kind f) && negb (nonfinite_in (f_kind f) (snd e)) &&
                                     negb (match f_card f with MapOf KBool => true | _ => false end)
                    | None => false
                    end) cm.

Lemma nonflat_gj_un n ces : nonflat_child_ok = true -> m_msg E sc cmd cm = ROk ces ->
  exists o, gj_un E sc (S (S n)) (KMessage ctn) (JObj ces) = ROk o.
Proof.
  intros Hc Hces.
  rewrite (gj_un_reflect (S n) ctn cmd ces Hwk child_lookup Hown (msg_ok_no_real_oneof cmd Hok)).
  pose proof (BytesFacts.msg_ok_nodup_jn cmd Hok) as Hnd.
  (* single-word keys address their own fields, multi-word keys address none: no field is addressed twice *)
  assert (Hcl : clash_unm (key_fields cmd ces) = false).
  { apply clash_unm_nodup. unfold key_fields.
    assert (Heq : flat_map (fun e : str * json => opt_list (field_by_fold cmd (fst e))) ces =
                  flat_map (fun e : str * fval => opt_list (field_by_fold cmd (json_name (fst e)))) cm).
    { rewrite (flat_map_via_map fst (fun k => opt_list (field_by_fold cmd k)) ces).
      rewrite (flat_map_via_map (fun e : str * fval => json_name (fst e)) (fun k => opt_list (field_by_fold cmd k)) cm).
      rewrite (NullableFacts.m_msg_keys E sc cmd cm ces Hces). reflexivity. }
    rewrite Heq. apply (key_fields_sub _ fst cm); [|exact (Int64Facts.sorted_names_nodup cmd cm Hsorted)].
    intros [name x] Hinm. cbn [fst].
    unfold nonflat_child_ok in Hc. rewrite forallb_forall in Hc. specialize (Hc _ Hinm). cbn [fst snd] in Hc.
    destruct (find_field (m_fields cmd) name) as [f|] eqn:Hf; [|discriminate Hc].
    destruct (multiword name) eqn:Emw.
    - left. destruct (field_by_fold cmd (json_name name)); [discriminate Hc|reflexivity].
    - right. exists f. rewrite (single_word_json name Emw). unfold field_by_fold. rewrite Hf. split; [reflexivity|].
      exact (proj2 (find_field_spec _ _ _ Hf)). }
  rewrite Hcl.
  destruct (rall_ok_ex (map (un_field (S n) cmd) ces)) as [ofs Hofs].
  - intros r Hr. apply in_map_iff in Hr. destruct Hr as [[k j] [Hr Hin]]. subst r.
    destruct (BytesFacts.m_msg_entry E sc cmd cm ces k j Hces Hin) as [name [x [f [Hinm [Hk [Hf Hj]]]]]].
    unfold nonflat_child_ok in Hc. rewrite forallb_forall in Hc. specialize (Hc _ Hinm). cbn [fst snd] in Hc. rewrite Hf in Hc.
    unfold un_field. cbn [fst snd]. subst k.
    destruct (multiword name) eqn:Emw.
    + destruct (field_by_fold cmd (json_name name)); [discriminate Hc|]. eexists. reflexivity.
    + apply andb_prop in Hc. destruct Hc as [Hc Hbm]. apply andb_prop in Hc. destruct Hc as [Hk Hnf].
      apply Bool.negb_true_iff in Hnf.
      rewrite (single_word_json name Emw). destruct (find_field_spec _ _ _ Hf) as [Hinf Hn].
      unfold field_by_fold. rewrite Hf.
      destruct (BytesFacts.wt_fields_in sc cmd cm name x Hwf Hinm) as [g [Hg Hw]]. assert (g = f) by congruence. subst g.
      rewrite (pj_value_un f x j n Hk Hnf Hbm Hw Hj). eexists. reflexivity.
  - rewrite Hofs. eexists. reflexivity.
Qed.
End Child.

(* MORE *)
End Reflect.
Close Scope Z_scope.
