(* FlattenFacts.v — the flatten codec (internal/httpgen/flatten.go; Codec.enc_flatten and the FtFlatten branch of
   Codec.gj_un) in general:
     flatten_roundtrip_unset(1)   : C04 for every message type whose codec is the flatten one, every schema, every
                                    well-typed value (wt; wt1 = the parent may declare plain oneofs) in the region
                                    defects_C04 = [] — there no flatten field is populated (D4FlattenReset fires for every
                                    populated one): MarshalJSON is protojson plus no-op folds, and UnmarshalJSON's
                                    extraction finds nothing PROVIDED the keys it probes (prefix ++ child JSON name) are
                                    not JSON names of the parent's own populated fields
                                    (annotations.ValidateFlattenCollisions refuses such schemas);
     pj_roundtrip_wt1             : protojson both ways on OneofPj.wt1 values (message types with plain oneofs, which
                                    ProtoJsonFacts.wt rejects); C04_roundtrip_plain1: C04 for every type without a codec;
     flatten_decode_drops         : what UnmarshalJSON returns for ANY object never has a flatten field populated unless
                                    a key of the object itself addresses that field;
     flatten_set_never_roundtrips : hence a value with a populated flatten field (empty child included) is never given
                                    back — C04_refuted_flatten_reset for all schemas and values, under a condition on the
                                    JSON the encoder wrote; _reflected: under schema-level conditions only, when the
                                    populated children are rendered by reflection. *)
From Coq Require Import Lia ZArith List.
From Sebuf Require Import CodecCases.
From SebufProofs Require Import TextFacts CodecTextFacts ProtoJsonFacts CodecExamples CodecFacts.
From SebufProofs Require NullableFacts Int64Facts BytesFacts TimestampFacts CodecCompose OneofPj UnwrapMapFacts.
Import ListNotations.

Open Scope Z_scope.

(* ================================================================================================================ *)
(* side conditions *)

(* the keys UnmarshalJSON looks up for the flatten field f: prefix ++ JSON name of every field of the child type *)
Definition probe_keys (sc : schema) (f : field) : list str :=
  match lookup_message sc (msg_name (f_kind f)) with
  | Some cmd => map (fun cf => flat_prefix f ++ jn cf) (m_fields cmd)
  | None => []
  end.

(* every flatten field is a field of a declared message type (annotations.ValidateFlattenField: "flatten is only
   valid on message fields"; protoc resolves the type) *)
Definition flatten_children_known (sc : schema) (md : message) : bool :=
  forallb (fun f => negb (is_flatten f) ||
                    match lookup_message sc (msg_name (f_kind f)) with Some _ => true | None => false end) (m_fields md).

(* no probed key is the JSON name of a populated field of the value (value level: the weakest form) *)
Definition flatten_probe_ok (sc : schema) (md : message) (m : mval) : bool :=
  forallb (fun f => negb (is_flatten f) ||
                    forallb (fun k => negb (existsb (fun e => str_eqb (json_name (fst e)) k) m)) (probe_keys sc f))
          (m_fields md).

(* the schema-level form, which is (part of) what annotations.ValidateFlattenCollisions enforces: no probed key is
   the JSON name of a non-flattened field of the parent *)
Definition flatten_no_collision (sc : schema) (md : message) : bool :=
  forallb (fun f => negb (is_flatten f) ||
                    forallb (fun k => negb (existsb (fun g => negb (is_flatten g) && str_eqb (jn g) k) (m_fields md)))
                            (probe_keys sc f))
          (m_fields md).

(* no flatten field is populated *)
Definition flatten_unset (md : message) (m : mval) : bool :=
  forallb (fun f => negb (is_flatten f) || match mget m (f_name f) with Some _ => false | None => true end) (m_fields md).

(* ================================================================================================================ *)
(* small facts *)

Lemma filter_nil_false {A} (p : A -> bool) l x : filter p l = [] -> In x l -> p x = false.
Proof.
  intros Hf Hin. destruct (p x) eqn:Ep; [|reflexivity]. exfalso.
  assert (Hx : In x (filter p l)) by (apply filter_In; split; assumption). rewrite Hf in Hx. exact Hx.
Qed.

(* a fold of Kleisli steps that has failed stays failed *)
Lemma fold_bind_fail {A B} (g : A -> B -> res A) l (acc : res A) :
  (forall a, acc <> ROk a) -> fold_left (fun acc b => acc >>= (fun a => g a b)) l acc = acc.
Proof.
  revert acc. induction l as [|b r IH]; intros acc Hacc; [reflexivity|]. cbn [fold_left].
  assert (Hstep : acc >>= (fun a => g a b) = acc).
  { destruct acc as [a|e|w]; [exfalso; exact (Hacc a eq_refl)|reflexivity|reflexivity]. }
  rewrite Hstep. apply IH. exact Hacc.
Qed.

(* an invariant carried through such a fold *)
Lemma fold_bind_inv {A B} (g : A -> B -> res A) (P : A -> A -> Prop) :
  (forall a, P a a) -> (forall a b c, P a b -> P b c -> P a c) ->
  (forall a b a', g a b = ROk a' -> P a a') ->
  forall l a a', fold_left (fun acc b => acc >>= (fun a => g a b)) l (ROk a) = ROk a' -> P a a'.
Proof.
  intros Hrefl Htrans Hstep. induction l as [|b r IH]; intros a a' H.
  - cbn [fold_left] in H. inversion H; subst. apply Hrefl.
  - cbn [fold_left rbind] in H. destruct (g a b) as [a1|e|w] eqn:Eg.
    + eapply Htrans; [exact (Hstep a b a1 Eg)|exact (IH a1 a' H)].
    + rewrite fold_bind_fail in H by (intros x; discriminate). discriminate H.
    + rewrite fold_bind_fail in H by (intros x; discriminate). discriminate H.
Qed.

Lemma raw_del_sub k r e : In e (raw_del k r) -> In e r.
Proof. unfold raw_del. intros H. apply filter_In in H. apply H. Qed.

Lemma raw_del_fold_sub {A} (key : A -> str) l : forall r e, In e (fold_left (fun r a => raw_del (key a) r) l r) -> In e r.
Proof.
  induction l as [|a t IH]; intros r e H; [exact H|]. cbn [fold_left] in H.
  apply (raw_del_sub (key a)). exact (IH _ _ H).
Qed.

Lemma raw_del_fold_notin {A} (key : A -> str) l : forall r,
  (forall a, In a l -> raw_has (key a) r = false) -> fold_left (fun r a => raw_del (key a) r) l r = r.
Proof.
  induction l as [|a t IH]; intros r H; [reflexivity|]. cbn [fold_left].
  rewrite (NullableFacts.raw_del_notin _ _ (H a (or_introl eq_refl))). apply IH. intros b Hb. apply H. right. exact Hb.
Qed.

Lemma mget_present (m : mval) name x : In (name, x) m -> exists y, mget m name = Some y.
Proof.
  intros Hin. destruct (mget m name) as [y|] eqn:Eg; [exists y; reflexivity|]. exfalso.
  apply (NullableFacts.mget_in m name); [|exact Eg]. apply (in_map fst) in Hin. exact Hin.
Qed.

(* ================================================================================================================ *)
(* the two bodies, unfolded *)
Section Bodies.
Variable E : ExtLib.
Variable sc : schema.

(* flatten.go:255-329, one flatten field *)
Definition dec_flat1 (n : nat) (raw : rawmap) (f : field) : res rawmap :=
  if is_flatten f then
    match lookup_message sc (msg_name (f_kind f)) with
    | None => RUnm (s "unknown message type")
    | Some cmd =>
        let child := flat_map (fun cf => match raw_get (flat_prefix f ++ jn cf) raw with
                                         | Some v => [(jn cf, v)] | None => [] end) (m_fields cmd) in
        let raw' := fold_left (fun r cf => raw_del (flat_prefix f ++ jn cf) r) (m_fields cmd) raw in
        match child with
        | [] => ROk raw'
        | _ => gj_un E sc n (f_kind f) (JObj child) >>= (fun _ => ROk raw')
        end
    end
  else ROk raw.

Definition dec_flat (n : nat) (md : message) (raw : rawmap) : res rawmap :=
  fold_left (fun acc f => acc >>= (fun raw => dec_flat1 n raw f)) (m_fields md) (ROk raw).

Lemma gj_un_flatten n tn md raw :
  is_wkt_other tn = false -> lookup_message sc tn = Some md -> owner_of sc md = Own FtFlatten ->
  gj_un E sc (S n) (KMessage tn) (JObj raw) =
  dec_flat n md raw >>= (fun raw' => pj_un E sc (KMessage tn) (JObj raw') >>= (fun v => ROk (Some v))).
Proof. intros H1 H2 H3. simpl. rewrite H1, H2, H3. reflexivity. Qed.

(* flatten.go:224-251, one flatten field *)
Definition enc_flat1 (m : mval) (ks : kids_t) (raw : rawmap) (f : field) : res rawmap :=
  if is_flatten f then
    match mget m (f_name f) with
    | Some _ =>
        kid ks (f_name f) >>= (fun cj =>
        match cj with
        | JObj ckv => ROk (fold_left (fun r e => raw_set (flat_prefix f ++ fst e) (snd e) r) ckv (raw_del (jn f) raw))
        | JNull => ROk (raw_del (jn f) raw)
        | _ => RErr (s "flatten child is not a JSON object")
        end)
    | None => ROk raw
    end
  else ROk raw.

Lemma enc_flatten_fold md m ks raw :
  enc_flatten md m ks raw = fold_left (fun acc f => acc >>= (fun raw => enc_flat1 m ks raw f)) (m_fields md) (ROk raw).
Proof. reflexivity. Qed.

(* nothing to flatten: both folds are the identity *)
Lemma enc_flat_unset m ks fs : forall raw,
  (forall f, In f fs -> is_flatten f = true -> mget m (f_name f) = None) ->
  fold_left (fun acc f => acc >>= (fun raw => enc_flat1 m ks raw f)) fs (ROk raw) = ROk raw.
Proof.
  induction fs as [|f r IH]; intros raw H; [reflexivity|]. cbn [fold_left rbind].
  assert (Hstep : enc_flat1 m ks raw f = ROk raw).
  { unfold enc_flat1. destruct (is_flatten f) eqn:Ef; [|reflexivity].
    rewrite (H f (or_introl eq_refl) Ef). reflexivity. }
  rewrite Hstep. apply IH. intros g Hg. apply H. right. exact Hg.
Qed.

Lemma dec_flat1_nohit n raw f cmd :
  lookup_message sc (msg_name (f_kind f)) = Some cmd ->
  (forall cf, In cf (m_fields cmd) -> raw_has (flat_prefix f ++ jn cf) raw = false) ->
  dec_flat1 n raw f = ROk raw.
Proof.
  intros Hl Hno. unfold dec_flat1. destruct (is_flatten f); [|reflexivity]. rewrite Hl. cbv zeta.
  assert (Hchild : flat_map (fun cf => match raw_get (flat_prefix f ++ jn cf) raw with
                                      | Some v => [(jn cf, v)] | None => [] end) (m_fields cmd) = []).
  { revert Hno. generalize (m_fields cmd). intros l. induction l as [|cf t IH]; intros Hno; [reflexivity|].
    cbn [flat_map]. rewrite (Int64Facts.raw_get_not_has _ _ (Hno cf (or_introl eq_refl))). cbn [app].
    apply IH. intros c Hc. apply Hno. right. exact Hc. }
  rewrite Hchild. f_equal. apply (raw_del_fold_notin (fun cf => flat_prefix f ++ jn cf)). exact Hno.
Qed.

Lemma dec_flat_nohit n fs : forall raw,
  (forall f, In f fs -> is_flatten f = true ->
     exists cmd, lookup_message sc (msg_name (f_kind f)) = Some cmd /\
                 forall cf, In cf (m_fields cmd) -> raw_has (flat_prefix f ++ jn cf) raw = false) ->
  fold_left (fun acc f => acc >>= (fun raw => dec_flat1 n raw f)) fs (ROk raw) = ROk raw.
Proof.
  induction fs as [|f r IH]; intros raw H; [reflexivity|]. cbn [fold_left rbind].
  assert (Hstep : dec_flat1 n raw f = ROk raw).
  { destruct (is_flatten f) eqn:Ef.
    - destruct (H f (or_introl eq_refl) Ef) as [cmd [Hl Hno]]. exact (dec_flat1_nohit n raw f cmd Hl Hno).
    - unfold dec_flat1. rewrite Ef. reflexivity. }
  rewrite Hstep. apply IH. intros g Hg. apply H. right. exact Hg.
Qed.

(* the extraction only ever deletes *)
Lemma dec_flat1_sub n raw f raw' : dec_flat1 n raw f = ROk raw' -> forall e, In e raw' -> In e raw.
Proof.
  unfold dec_flat1. destruct (is_flatten f); [|intros H; inversion H; subst; auto].
  destruct (lookup_message sc (msg_name (f_kind f))) as [cmd|]; [|discriminate]. cbv zeta.
  set (child := flat_map _ (m_fields cmd)). set (del := fold_left _ (m_fields cmd) raw).
  assert (Hdel : forall e, In e del -> In e raw).
  { intros e. apply (raw_del_fold_sub (fun cf => flat_prefix f ++ jn cf)). }
  destruct child as [|c0 ch].
  - intros H. inversion H; subst. exact Hdel.
  - intros H. apply rbind_ok in H. destruct H as [o [_ H]]. inversion H; subst. exact Hdel.
Qed.

Lemma dec_flat_sub n md raw raw' : dec_flat n md raw = ROk raw' -> forall e, In e raw' -> In e raw.
Proof.
  unfold dec_flat. intros H.
  apply (fold_bind_inv (fun raw f => dec_flat1 n raw f) (fun a b : rawmap => forall e, In e b -> In e a)) with (l := m_fields md).
  - auto.
  - intros a b c Hab Hbc e He. apply Hab, Hbc, He.
  - intros a b a' Hs. exact (dec_flat1_sub n a b a' Hs).
  - exact H.
Qed.

(* children handed to encoding/json: none when no flatten field is populated *)
Lemma kids_flatten_unset md m :
  (forall name x, In (name, x) m -> exists f, find_field (m_fields md) name = Some f /\ is_flatten f = false) ->
  NullableFacts.kids_loop E sc FtFlatten md m = ROk [].
Proof.
  induction m as [|[name x] r IH]; intros H; [reflexivity|]. cbn [NullableFacts.kids_loop].
  destruct (H name x (or_introl eq_refl)) as [f [Hf Hfl]]. rewrite Hf. cbn [needs_gj]. rewrite Hfl.
  apply IH. intros n y Hin. apply (H n y). right. exact Hin.
Qed.
End Bodies.

(* ================================================================================================================ *)
(* what defects_C04 = [] says about a flatten-owning message *)
Lemma defects_nil_flatten_unset sc tn md m :
  lookup_message sc tn = Some md -> owner_of sc md = Own FtFlatten ->
  defects_C04 sc tn m = [] ->
  forall f, In f (m_fields md) -> is_flatten f = true -> mget m (f_name f) = None.
Proof.
  intros Hlk Hown Hd f Hin Hfl.
  pose proof (CodecCompose.defects_nil_local sc tn md FtFlatten m Hlk Hown Hd) as Hloc.
  unfold local_defects in Hloc. rewrite Hown in Hloc. cbv zeta in Hloc.
  apply app_eq_nil in Hloc. destruct Hloc as [Hset _].
  destruct (filter (fun f0 => is_flatten f0 && match mget m (f_name f0) with Some _ => true | None => false end) (m_fields md))
    as [|f0 l0] eqn:Hfil; [|discriminate Hset].
  pose proof (filter_nil_false _ _ f Hfil Hin) as Hp. cbv beta in Hp. rewrite Hfl in Hp. cbn [andb] in Hp.
  destruct (mget m (f_name f)); [discriminate Hp|reflexivity].
Qed.

Lemma flatten_unset_spec md m :
  flatten_unset md m = true <-> (forall f, In f (m_fields md) -> is_flatten f = true -> mget m (f_name f) = None).
Proof.
  unfold flatten_unset. rewrite forallb_forall. split.
  - intros H f Hin Hfl. specialize (H f Hin). rewrite Hfl in H. cbn [negb orb] in H.
    destruct (mget m (f_name f)); [discriminate H|reflexivity].
  - intros H f Hin. destruct (is_flatten f) eqn:Hfl; [|reflexivity]. rewrite (H f Hin Hfl). reflexivity.
Qed.

(* the region defects_C04 = [] of a flatten owner is exactly "no flatten field is populated" *)
Lemma defects_nil_iff_flatten_unset sc tn md m :
  lookup_message sc tn = Some md -> owner_of sc md = Own FtFlatten ->
  defects_C04 sc tn m = [] -> flatten_unset md m = true.
Proof. intros Hlk Hown Hd. apply flatten_unset_spec. exact (defects_nil_flatten_unset sc tn md m Hlk Hown Hd). Qed.

(* the validator's schema-level check gives the value-level side condition *)
Lemma flatten_no_collision_probe_ok sc md m :
  (forall name x, In (name, x) m -> exists f, find_field (m_fields md) name = Some f /\ is_flatten f = false) ->
  flatten_no_collision sc md = true -> flatten_probe_ok sc md m = true.
Proof.
  intros Hm Hnc. unfold flatten_no_collision in Hnc. unfold flatten_probe_ok.
  rewrite forallb_forall in Hnc. apply forallb_forall. intros f Hin. specialize (Hnc f Hin).
  destruct (is_flatten f); [|reflexivity]. cbn [negb orb] in *.
  rewrite forallb_forall in Hnc. apply forallb_forall. intros k Hk. specialize (Hnc k Hk).
  apply Bool.negb_true_iff in Hnc. apply Bool.negb_true_iff.
  destruct (existsb (fun e : str * fval => str_eqb (json_name (fst e)) k) m) eqn:Hex; [|reflexivity]. exfalso.
  apply existsb_exists in Hex. destruct Hex as [[name x] [Hinm Heq]]. cbn [fst] in Heq.
  destruct (Hm name x Hinm) as [g [Hg Hgf]]. destruct (find_field_spec _ _ _ Hg) as [Hing Hname].
  assert (Ht : existsb (fun g0 => negb (is_flatten g0) && str_eqb (jn g0) k) (m_fields md) = true).
  { apply existsb_exists. exists g. split; [exact Hing|]. rewrite Hgf. cbn [negb andb]. unfold jn. rewrite Hname. exact Heq. }
  congruence.
Qed.

(* ================================================================================================================ *)
(* protojson on a message type that declares (plain) oneofs: ProtoJsonFacts.pj_roundtrip for OneofPj.wt1 values *)
Section PjWt1.
Variable E : ExtLib.
Hypothesis EL : ExtLaws E.
Variable sc : schema.

Lemma ent_enc_ent1 md : forall (l : mval) (es : list (str * json)),
  Forall2 (TimestampFacts.ent_enc E sc md) l es ->
  (forall e, In e l -> exists g, find_field (m_fields md) (fst e) = Some g /\ wt_entry sc g (snd e) = true) ->
  Forall2 (OneofPj.ent1 E sc md) (OneofPj.tags md l) es.
Proof.
  intros l es HF. induction HF as [|[name x] [k j] r r' Hab _ IH]; intros Hall; [constructor|].
  destruct Hab as [g [Hg [Hk Hj]]]. cbn [fst snd] in Hg, Hk, Hj. subst k.
  unfold OneofPj.tags. cbn [flat_map fst snd]. rewrite Hg. cbn [app].
  constructor; [|apply IH; intros e He; apply Hall; right; exact He].
  destruct (Hall (name, x) (or_introl eq_refl)) as [g' [Hg' Hw]]. cbn [fst snd] in Hg', Hw.
  assert (g' = g) by congruence. subst g'.
  destruct (find_field_spec _ _ _ Hg) as [Hin Hname].
  destruct (entry_rt E EL sc g x j (pj_roundtrip_fval E EL sc x) Hw Hj) as [Hu Hpop].
  unfold OneofPj.ent1. cbn [fst snd].
  repeat split; [exact Hin|unfold jn; rewrite Hname; reflexivity|exact Hu|exact Hpop|exact (pj_not_null E EL sc _ _ _ Hj)].
Qed.

Lemma pj_un_wt1 tn md m es :
  str_eqb tn ts_name = false -> is_wkt_other tn = false -> find_message (all_messages sc) tn = Some md ->
  OneofPj.msg_ok1 md = true -> sorted_Z (map (fun e => num_of md (fst e)) m) = true -> wt_fields sc md m = true ->
  NullableFacts.nodup_str (OneofPj.set_oneofs md m) = true ->
  m_msg E sc md m = ROk es -> pj_un E sc (KMessage tn) (JObj es) = ROk (FM m).
Proof.
  intros Hts Hwk Hfm Hok1 Hsorted Hwf Hex Hes.
  pose proof (BytesFacts.wt_fields_declared sc md m Hwf) as Hdecl.
  assert (HF : Forall2 (OneofPj.ent1 E sc md) (OneofPj.tags md m) es).
  { apply ent_enc_ent1; [exact (TimestampFacts.m_msg_entries E sc md m es Hes)|].
    intros [name x] Hin. exact (BytesFacts.wt_fields_in sc md m name x Hwf Hin). }
  rewrite (OneofPj.pj_un_perm E sc tn md (OneofPj.tags md m) es Hts Hwk Hfm Hok1 HF).
  - rewrite (assemble_canon (OneofPj.tags md m)).
    + rewrite (OneofPj.tags_names md m Hdecl). reflexivity.
    + rewrite (OneofPj.tags_nums md m Hdecl). exact Hsorted.
    + exact (OneofPj.tags_populated sc md m Hwf).
  - rewrite (OneofPj.tags_nums md m Hdecl). apply OneofPj.sorted_Z_NoDup. exact Hsorted.
  - assert (Hso : flat_map (fun fv : field * fval => opt_list (f_oneof (fst fv))) (OneofPj.tags md m) = OneofPj.set_oneofs md m).
    { unfold OneofPj.tags, OneofPj.set_oneofs. clear. induction m as [|e r IH]; [reflexivity|]. cbn [flat_map]. rewrite flat_map_app, IH. f_equal.
      destruct (find_field (m_fields md) (fst e)); [cbn [flat_map fst]; rewrite app_nil_r; reflexivity|reflexivity]. }
    rewrite Hso. apply TimestampFacts.nodup_str_NoDup. exact Hex.
Qed.

(* protojson.Unmarshal (protojson.Marshal m) = m for wt1 values: plain oneofs included *)
Theorem pj_roundtrip_wt1 : forall tn m j,
  OneofPj.wt1 sc tn m = true -> pj_marshal E sc tn m = ROk j -> pj_unmarshal E sc tn j = ROk m.
Proof.
  intros tn m j Hwt1 Hj.
  destruct (OneofPj.wt1_inv sc tn m Hwt1) as [Hts [Hwk [md [Hfm [Hlk [Hok1 [Hsorted [Hwf Hex]]]]]]]].
  unfold pj_marshal in Hj. rewrite pj_fval_FM, Hts, Hwk, Hfm in Hj.
  apply rbind_ok in Hj. destruct Hj as [es [Hes Hj]]. inversion Hj; subst j.
  unfold pj_unmarshal. rewrite (pj_un_wt1 tn md m es Hts Hwk Hfm Hok1 Hsorted Hwf Hex Hes). reflexivity.
Qed.

(* C04 for every message type without a codec of its own, plain oneofs included (CodecFacts.C04_roundtrip_plain with
   wt1 in place of wt) *)
Theorem C04_roundtrip_plain1 : forall tn m j,
  owns sc tn = false -> OneofPj.wt1 sc tn m = true ->
  encode E sc tn m = ROk j -> decode E sc tn j = ROk (norm sc tn m).
Proof.
  intros tn m j Hown Hwt1 Henc.
  unfold encode, decode in *. rewrite Hown in *. rewrite (norm_not_owned sc tn m Hown).
  exact (pj_roundtrip_wt1 tn m j Hwt1 Henc).
Qed.
End PjWt1.

(* ================================================================================================================ *)
(* (1) the round trip with every flatten field unset *)
(* wt1 in place of wt: the parent may declare plain oneofs beside its flatten fields *)
Theorem flatten_roundtrip_unset1 : forall E, ExtLaws E -> forall sc tn md m j,
  find_message (all_messages sc) tn = Some md -> owner_of sc md = Own FtFlatten ->
  OneofPj.wt1 sc tn m = true -> defects_C04 sc tn m = [] ->
  flatten_children_known sc md = true -> flatten_probe_ok sc md m = true ->
  encode E sc tn m = ROk j -> decode E sc tn j = ROk (norm sc tn m).
Proof.
  intros E EL sc tn md m j Hfm Hown Hwt1 Hdef Hknown Hprobe Henc.
  destruct (OneofPj.wt1_inv sc tn m Hwt1) as [Hts [Hwk [md' [Hfm' [Hlk [Hok1 [Hsorted [Hwf Hex]]]]]]]].
  assert (md' = md) by congruence. subst md'.
  assert (Howns : owns sc tn = true) by (unfold owns; rewrite Hlk, Hown; reflexivity).
  assert (Hnorm : norm sc tn m = m) by (unfold norm; rewrite Hlk, Hown; reflexivity).
  rewrite Hnorm.
  pose proof (defects_nil_flatten_unset sc tn md m Hlk Hown Hdef) as Hunset.
  (* the populated fields are not flatten fields *)
  assert (Hpop : forall name x, In (name, x) m -> exists f, find_field (m_fields md) name = Some f /\ is_flatten f = false).
  { intros name x Hin. destruct (Int64Facts.wt_fields_in sc md m name x Hwf Hin) as [f [Hf _]].
    exists f. split; [exact Hf|]. destruct (is_flatten f) eqn:Hfl; [exfalso|reflexivity].
    destruct (find_field_spec _ _ _ Hf) as [Hinf Hname].
    destruct (mget_present m name x Hin) as [y Hy]. rewrite <- Hname, (Hunset f Hinf Hfl) in Hy. discriminate Hy. }
  (* MarshalJSON *)
  unfold encode in Henc. rewrite Howns in Henc.
  rewrite (NullableFacts.gj_fval_owned E sc tn md FtFlatten m Hwk Hlk Hown), (kids_flatten_unset E sc md m Hpop), rbind_ROk in Henc.
  unfold codec_body in Henc. cbn [buildable negb] in Henc. cbv iota in Henc.
  apply rbind_ok in Henc. destruct Henc as [raw [Hraw Henc]].
  apply rbind_ok in Hraw. destruct Hraw as [j0 [Hpj Hobj]].
  pose proof Hpj as Hpj'. unfold pj_marshal in Hpj'. rewrite pj_fval_FM, Hts, Hwk, Hfm in Hpj'.
  apply rbind_ok in Hpj'. destruct Hpj' as [es [Hes Hj0]]. inversion Hj0; subst j0.
  cbn [as_obj] in Hobj. inversion Hobj; subst raw. clear Hobj Hj0.
  rewrite enc_flatten_fold, (enc_flat_unset m [] (m_fields md) es Hunset), rbind_ROk in Henc.
  inversion Henc; subst j. clear Henc.
  (* UnmarshalJSON: no probed key is present *)
  pose proof (NullableFacts.m_msg_keys E sc md m es Hes) as Hkeys.
  assert (Hno : forall f, In f (m_fields md) -> is_flatten f = true ->
            exists cmd, lookup_message sc (msg_name (f_kind f)) = Some cmd /\
                        forall cf, In cf (m_fields cmd) -> raw_has (flat_prefix f ++ jn cf) es = false).
  { intros f Hin Hfl.
    unfold flatten_children_known in Hknown. rewrite forallb_forall in Hknown. specialize (Hknown f Hin).
    rewrite Hfl in Hknown. cbn [negb orb] in Hknown.
    destruct (lookup_message sc (msg_name (f_kind f))) as [cmd|] eqn:Hl; [|discriminate Hknown].
    exists cmd. split; [reflexivity|]. intros cf Hcf.
    unfold flatten_probe_ok in Hprobe. rewrite forallb_forall in Hprobe. specialize (Hprobe f Hin).
    rewrite Hfl in Hprobe. cbn [negb orb] in Hprobe. rewrite forallb_forall in Hprobe.
    assert (Hk : In (flat_prefix f ++ jn cf) (probe_keys sc f)).
    { unfold probe_keys. rewrite Hl. apply (in_map (fun c => flat_prefix f ++ jn c)). exact Hcf. }
    specialize (Hprobe _ Hk). apply Bool.negb_true_iff in Hprobe.
    destruct (raw_has (flat_prefix f ++ jn cf) es) eqn:Eh; [exfalso|reflexivity].
    apply NullableFacts.raw_has_keys in Eh. rewrite Hkeys in Eh. apply in_map_iff in Eh. destruct Eh as [e [He Hine]].
    assert (Ht : existsb (fun e0 : str * fval => str_eqb (json_name (fst e0)) (flat_prefix f ++ jn cf)) m = true).
    { apply existsb_exists. exists e. split; [exact Hine|]. rewrite He. apply str_eqb_refl. }
    congruence. }
  unfold decode. rewrite Howns. cbv beta iota.
  rewrite (gj_un_flatten E sc _ tn md es Hwk Hlk Hown).
  unfold dec_flat. rewrite (dec_flat_nohit E sc _ (m_fields md) es Hno), rbind_ROk.
  rewrite (pj_un_wt1 E EL sc tn md m es Hts Hwk Hfm Hok1 Hsorted Hwf Hex Hes). reflexivity.
Qed.

Theorem flatten_roundtrip_unset : forall E, ExtLaws E -> forall sc tn md m j,
  find_message (all_messages sc) tn = Some md -> owner_of sc md = Own FtFlatten ->
  wt sc (KMessage tn) (FM m) = true -> defects_C04 sc tn m = [] ->
  flatten_children_known sc md = true -> flatten_probe_ok sc md m = true ->
  encode E sc tn m = ROk j -> decode E sc tn j = ROk (norm sc tn m).
Proof.
  intros E EL sc tn md m j Hfm Hown Hwt Hdef Hknown Hprobe Henc.
  destruct (str_eqb tn ts_name) eqn:Hts.
  - (* a type named like Timestamp is Timestamp: protojson both ways *)
    apply str_eqb_eq in Hts. subst tn.
    exact (C04_roundtrip_plain E EL sc ts_name m j (CodecCompose.owns_ts_name sc) Hwt Henc).
  - exact (flatten_roundtrip_unset1 E EL sc tn md m j Hfm Hown (OneofPj.wt_wt1 sc tn m Hts Hwt) Hdef Hknown Hprobe Henc).
Qed.

(* the same under the validator's schema-level collision check *)
Theorem flatten_roundtrip_unset_schema : forall E, ExtLaws E -> forall sc tn md m j,
  find_message (all_messages sc) tn = Some md -> owner_of sc md = Own FtFlatten ->
  wt sc (KMessage tn) (FM m) = true -> defects_C04 sc tn m = [] ->
  flatten_children_known sc md = true -> flatten_no_collision sc md = true ->
  encode E sc tn m = ROk j -> decode E sc tn j = ROk (norm sc tn m).
Proof.
  intros E EL sc tn md m j Hfm Hown Hwt Hdef Hknown Hnc Henc.
  destruct (str_eqb tn ts_name) eqn:Hts.
  { apply str_eqb_eq in Hts. subst tn.
    exact (C04_roundtrip_plain E EL sc ts_name m j (CodecCompose.owns_ts_name sc) Hwt Henc). }
  apply (flatten_roundtrip_unset E EL sc tn md m j Hfm Hown Hwt Hdef Hknown); [|exact Henc].
  destruct (CodecCompose.wt_top sc tn m Hts Hwt) as [Hwk [md' [Hfm' [Hlk [Hok [Hsorted Hwf]]]]]].
  assert (md' = md) by congruence. subst md'.
  pose proof (defects_nil_flatten_unset sc tn md m Hlk Hown Hdef) as Hunset.
  apply flatten_no_collision_probe_ok; [|exact Hnc].
  intros name x Hin. destruct (Int64Facts.wt_fields_in sc md m name x Hwf Hin) as [f [Hf _]].
  exists f. split; [exact Hf|]. destruct (is_flatten f) eqn:Hfl; [exfalso|reflexivity].
  destruct (find_field_spec _ _ _ Hf) as [Hinf Hname].
  destruct (mget_present m name x Hin) as [y Hy]. rewrite <- Hname, (Hunset f Hinf Hfl) in Hy. discriminate Hy.
Qed.

(* ================================================================================================================ *)
(* (1b) the complementary refutation, in general *)

Lemma assemble_in fvs name x :
  In (name, x) (assemble fvs) -> exists fv, In fv fvs /\ f_name (fst fv) = name /\ snd fv = x.
Proof.
  unfold assemble. intros H. apply in_map_iff in H. destruct H as [[n e] [He Hin]]. cbn [snd] in He. subst e.
  revert Hin. induction fvs as [|fv r IH]; intros Hin; [destruct Hin|]. cbn [fold_right] in Hin.
  destruct (populated (fst fv) (snd fv)).
  - apply OneofPj.insert_in in Hin. destruct Hin as [Heq|Hin].
    + inversion Heq; subst. exists fv. split; [left; reflexivity|split; reflexivity].
    + destruct (IH Hin) as [fv' [H1 H2]]. exists fv'. split; [right; exact H1|exact H2].
  - destruct (IH Hin) as [fv' [H1 H2]]. exists fv'. split; [right; exact H1|exact H2].
Qed.

Lemma u_fields_in E sc md kv : forall fvs, u_fields E sc md kv = ROk fvs ->
  forall fv, In fv fvs -> exists e, In e kv /\ field_of_key md (fst e) = Some (fst fv).
Proof.
  induction kv as [|[key jv] r IH]; intros fvs H fv Hin.
  - cbn [u_fields] in H. inversion H; subst. destruct Hin.
  - cbn [u_fields] in H. destruct (field_of_key md key) as [f|] eqn:Ek; [|discriminate H].
    apply rbind_ok in H. destruct H as [ov [Hov H]]. apply rbind_ok in H. destruct H as [rest [Hrest H]].
    inversion H; subst fvs. clear H.
    assert (Hcase : fv = (f, match ov with Some v => v | None => snd fv end) /\ ov <> None \/ In fv rest).
    { destruct ov as [v|]; [destruct Hin as [Hin|Hin]; [left; subst fv; split; [reflexivity|discriminate]|right; exact Hin]|right; exact Hin]. }
    destruct Hcase as [[Hfv _]|Hr].
    + exists (key, jv). split; [left; reflexivity|]. cbn [fst]. rewrite Ek, Hfv. reflexivity.
    + destruct (IH rest Hrest fv Hr) as [e [He Hk]]. exists e. split; [right; exact He|exact Hk].
Qed.

(* no key of the object addresses a populated flatten field of m *)
Definition keys_off_set_flatten (md : message) (m : mval) (j : json) : bool :=
  match j with
  | JObj kv => forallb (fun e => match field_of_key md (fst e) with
                                 | Some g => negb (is_flatten g && match mget m (f_name g) with Some _ => true | None => false end)
                                 | None => true
                                 end) kv
  | _ => true
  end.

(* the decoder, on ANY object: a field of the result is addressed by a key of the object itself *)
Lemma flatten_decode_keys E sc tn md kv m' :
  str_eqb tn ts_name = false -> is_wkt_other tn = false ->
  find_message (all_messages sc) tn = Some md -> owner_of sc md = Own FtFlatten ->
  decode E sc tn (JObj kv) = ROk m' ->
  forall name x, In (name, x) m' ->
  exists e g, In e kv /\ field_of_key md (fst e) = Some g /\ f_name g = name.
Proof.
  intros Hts Hwk Hfm Hown Hdec name x Hin.
  assert (Hlk : lookup_message sc tn = Some md) by (unfold lookup_message; rewrite Hts; exact Hfm).
  assert (Howns : owns sc tn = true) by (unfold owns; rewrite Hlk, Hown; reflexivity).
  unfold decode in Hdec. rewrite Howns in Hdec. cbv beta iota in Hdec.
  rewrite (gj_un_flatten E sc _ tn md kv Hwk Hlk Hown) in Hdec.
  apply rbind_ok in Hdec. destruct Hdec as [o [Hun Hfin]].
  apply rbind_ok in Hun. destruct Hun as [raw' [Hflat Hpj]].
  apply rbind_ok in Hpj. destruct Hpj as [v [Hv Ho]]. inversion Ho; subst o. clear Ho.
  rewrite (pj_un_msg E sc tn (JObj raw') Hts Hwk), Hfm in Hv.
  destruct (dup_check md raw'); [discriminate Hv|].
  apply rbind_ok in Hv. destruct Hv as [fvs [Hfvs Hv]]. inversion Hv; subst v. clear Hv.
  cbv iota in Hfin. inversion Hfin; subst m'. clear Hfin.
  destruct (assemble_in fvs name x Hin) as [fv [Hfv [Hn _]]].
  destruct (u_fields_in E sc md raw' fvs Hfvs fv Hfv) as [e [He Hk]].
  exists e, (fst fv). split; [exact (dec_flat_sub E sc _ md kv raw' Hflat e He)|]. split; [exact Hk|exact Hn].
Qed.

(* so it never has a flatten field populated unless a key of the object addresses that field *)
Theorem flatten_decode_drops : forall E sc tn md kv m',
  str_eqb tn ts_name = false -> is_wkt_other tn = false ->
  find_message (all_messages sc) tn = Some md -> owner_of sc md = Own FtFlatten ->
  forallb (fun e => match field_of_key md (fst e) with Some g => negb (is_flatten g) | None => true end) kv = true ->
  decode E sc tn (JObj kv) = ROk m' ->
  forall name x g, In (name, x) m' -> In g (m_fields md) -> f_name g = name -> OneofPj.msg_ok1 md = true -> is_flatten g = false.
Proof.
  intros E sc tn md kv m' Hts Hwk Hfm Hown Hoff Hdec name x g Hin Hg Hname Hok.
  destruct (flatten_decode_keys E sc tn md kv m' Hts Hwk Hfm Hown Hdec name x Hin) as [e [g' [He [Hk Hn]]]].
  rewrite forallb_forall in Hoff. specialize (Hoff e He). rewrite Hk in Hoff.
  assert (g' = g).
  { pose proof (OneofPj.msg_ok1_key_in md g Hok Hg) as H1.
    pose proof (OneofPj.msg_ok1_key_in md g' Hok (field_of_key_in md _ _ Hk)) as H2.
    unfold jn in H1, H2. rewrite Hn, <- Hname in H2. congruence. }
  subst g'. apply Bool.negb_true_iff in Hoff. exact Hoff.
Qed.

(* MarshalJSON of a flatten owner answers with an object *)
Lemma encode_flatten_obj E sc tn md m j :
  is_wkt_other tn = false -> lookup_message sc tn = Some md -> owner_of sc md = Own FtFlatten ->
  encode E sc tn m = ROk j -> exists kv, j = JObj kv.
Proof.
  intros Hwk Hlk Hown Henc.
  assert (Howns : owns sc tn = true) by (unfold owns; rewrite Hlk, Hown; reflexivity).
  unfold encode in Henc. rewrite Howns, (NullableFacts.gj_fval_owned E sc tn md FtFlatten m Hwk Hlk Hown) in Henc.
  apply rbind_ok in Henc. destruct Henc as [ks [_ Henc]].
  unfold codec_body in Henc. cbn [buildable negb] in Henc. cbv iota in Henc.
  apply rbind_ok in Henc. destruct Henc as [raw [_ Henc]].
  apply rbind_ok in Henc. destruct Henc as [r [_ Henc]]. inversion Henc. exists r. reflexivity.
Qed.

(* C04_refuted_flatten_reset for all schemas and values: whenever some flatten field is populated (with any child,
   the empty one included) the value is not given back.  Side condition, on the JSON the encoder wrote: no key of it
   addresses a populated flatten field (a flattened child key named like the flatten field itself would) *)
Theorem flatten_set_never_roundtrips1 : forall E sc tn md m j,
  lookup_message sc tn = Some md -> owner_of sc md = Own FtFlatten ->
  OneofPj.wt1 sc tn m = true ->
  flatten_unset md m = false ->
  encode E sc tn m = ROk j ->
  keys_off_set_flatten md m j = true ->
  decode E sc tn j <> ROk (norm sc tn m).
Proof.
  intros E sc tn md m j Hlk Hown Hwt1 Hset Henc Hoff Hdec.
  destruct (OneofPj.wt1_inv sc tn m Hwt1) as [Hts [Hwk [md' [Hfm [Hlk' [Hok1 [Hsorted [Hwf Hexo]]]]]]]].
  assert (md' = md) by congruence. subst md'.
  assert (Hnorm : norm sc tn m = m) by (unfold norm; rewrite Hlk, Hown; reflexivity).
  rewrite Hnorm in Hdec.
  destruct (encode_flatten_obj E sc tn md m j Hwk Hlk Hown Henc) as [kv Hj]. subst j.
  (* a populated flatten field *)
  assert (Hex : exists f y, In f (m_fields md) /\ is_flatten f = true /\ mget m (f_name f) = Some y).
  { unfold flatten_unset in Hset.
    destruct (forallb_forall (fun f => negb (is_flatten f) || match mget m (f_name f) with Some _ => false | None => true end) (m_fields md)) as [_ Hall].
    destruct (existsb (fun f => is_flatten f && match mget m (f_name f) with Some _ => true | None => false end) (m_fields md)) eqn:Hexb.
    - apply existsb_exists in Hexb. destruct Hexb as [f [Hin Hp]]. apply andb_prop in Hp. destruct Hp as [Hfl Hg].
      destruct (mget m (f_name f)) as [y|] eqn:Eg; [|discriminate Hg]. exists f, y. repeat split; assumption.
    - exfalso. rewrite Hall in Hset; [discriminate Hset|]. intros f Hin.
      pose proof (TimestampFacts.existsb_false_in _ _ f Hexb Hin) as Hp. cbv beta in Hp.
      destruct (is_flatten f); [|reflexivity]. cbn [andb negb orb] in *.
      destruct (mget m (f_name f)); [discriminate Hp|reflexivity]. }
  destruct Hex as [f [y [Hinf [Hfl Hy]]]].
  assert (Hinm : In (f_name f, y) m).
  { clear -Hy. induction m as [|[k v] r IH]; [discriminate Hy|]. cbn [mget] in Hy.
    destruct (str_eqb (f_name f) k) eqn:Ek.
    - apply str_eqb_eq in Ek. inversion Hy; subst. left. reflexivity.
    - right. apply IH. exact Hy. }
  destruct (flatten_decode_keys E sc tn md kv m Hts Hwk Hfm Hown Hdec (f_name f) y Hinm) as [e [g [He [Hk Hn]]]].
  assert (g = f).
  { pose proof (OneofPj.msg_ok1_key_in md f Hok1 Hinf) as H1.
    pose proof (OneofPj.msg_ok1_key_in md g Hok1 (field_of_key_in md _ _ Hk)) as H2.
    unfold jn in H1, H2. rewrite Hn in H2. congruence. }
  subst g. cbn [keys_off_set_flatten] in Hoff. rewrite forallb_forall in Hoff. specialize (Hoff e He).
  rewrite Hk, Hfl, Hy in Hoff. discriminate Hoff.
Qed.

Theorem flatten_set_never_roundtrips : forall E sc tn md m j,
  lookup_message sc tn = Some md -> owner_of sc md = Own FtFlatten ->
  wt sc (KMessage tn) (FM m) = true ->
  flatten_unset md m = false ->
  encode E sc tn m = ROk j ->
  keys_off_set_flatten md m j = true ->
  decode E sc tn j <> ROk (norm sc tn m).
Proof.
  intros E sc tn md m j Hlk Hown Hwt Hset Henc Hoff.
  destruct (str_eqb tn ts_name) eqn:Hts.
  { unfold lookup_message in Hlk. rewrite Hts in Hlk. inversion Hlk; subst md.
    rewrite CodecCompose.ts_message_unowned in Hown. discriminate Hown. }
  exact (flatten_set_never_roundtrips1 E sc tn md m j Hlk Hown (OneofPj.wt_wt1 sc tn m Hts Hwt) Hset Henc Hoff).
Qed.

(* ================================================================================================================ *)
(* (1c) the side condition of flatten_set_never_roundtrips from the schema, when the populated flatten children are
   rendered by reflection (their types own no codec): the flattened keys are prefix ++ PROTO name of a child field *)

Lemma raw_set_keys k k' v r : In k (map fst (raw_set k' v r)) -> k = k' \/ In k (map fst r).
Proof.
  unfold raw_set. destruct (raw_has k' r).
  - intros H. apply in_map_iff in H. destruct H as [e [He Hin]]. apply in_map_iff in Hin. destruct Hin as [e0 [He0 Hin0]].
    subst e. destruct (str_eqb (fst e0) k').
    + left. cbn [fst] in He. symmetry. exact He.
    + right. subst k. apply in_map. exact Hin0.
  - rewrite map_app, in_app_iff. intros [H|H]; [right; exact H|left]. cbn [map fst] in H. destruct H as [H|[]]. symmetry. exact H.
Qed.

Lemma raw_del_keys k k' r : In k (map fst (raw_del k' r)) -> In k (map fst r) /\ k <> k'.
Proof.
  unfold raw_del. intros H. apply in_map_iff in H. destruct H as [e [He Hin]]. apply filter_In in Hin. destruct Hin as [Hin Hp].
  subst k. split; [apply in_map; exact Hin|]. intros Heq. rewrite Heq, str_eqb_refl in Hp. discriminate Hp.
Qed.

Lemma fold_set_keys p (ckv : rawmap) : forall r0 k,
  In k (map fst (fold_left (fun r e => raw_set (p ++ fst e) (snd e) r) ckv r0)) ->
  In k (map fst r0) \/ exists ck, In ck (map fst ckv) /\ k = p ++ ck.
Proof.
  induction ckv as [|e t IH]; intros r0 k H; [left; exact H|]. cbn [fold_left] in H.
  destruct (IH _ _ H) as [H1|[ck [Hck Hk]]].
  - apply raw_set_keys in H1. destruct H1 as [H1|H1]; [right; exists (fst e); split; [left; reflexivity|exact H1]|left; exact H1].
  - right. exists ck. split; [right; exact Hck|exact Hk].
Qed.

Section EncKeys.
Variable E : ExtLib.
Variable sc : schema.
Variable md : message.
Variable m : mval.
Variable ks : kids_t.

(* a key contributed by a populated flatten field *)
Definition child_key (k : str) : Prop :=
  exists f ckv ck, In f (m_fields md) /\ is_flatten f = true /\ mget m (f_name f) <> None /\
                   kid ks (f_name f) = ROk (JObj ckv) /\ In ck (map fst ckv) /\ k = flat_prefix f ++ ck.

Lemma enc_flat_keys fs : forall raw r,
  (forall f, In f fs -> In f (m_fields md)) ->
  fold_left (fun acc f => acc >>= (fun raw => enc_flat1 m ks raw f)) fs (ROk raw) = ROk r ->
  forall k, In k (map fst r) ->
  (In k (map fst raw) /\ forall f, In f fs -> is_flatten f = true -> mget m (f_name f) <> None -> k <> jn f) \/ child_key k.
Proof.
  induction fs as [|f t IH]; intros raw r Hsub H k Hk.
  - cbn [fold_left] in H. inversion H; subst. left. split; [exact Hk|]. intros f [].
  - cbn [fold_left rbind] in H. destruct (enc_flat1 m ks raw f) as [raw1|e|w] eqn:Estep.
    2:{ rewrite fold_bind_fail in H by (intros x; discriminate). discriminate H. }
    2:{ rewrite fold_bind_fail in H by (intros x; discriminate). discriminate H. }
    destruct (IH raw1 r (fun g Hg => Hsub g (or_intror Hg)) H k Hk) as [[Hk1 Hrest]|Hck]; [|right; exact Hck].
    unfold enc_flat1 in Estep. destruct (is_flatten f) eqn:Hfl.
    + destruct (mget m (f_name f)) as [x|] eqn:Hg.
      * apply rbind_ok in Estep. destruct Estep as [cj [Hkid Hcj]].
        assert (Hcase : (In k (map fst raw) /\ k <> jn f) \/ child_key k).
        { destruct cj as [| | | | |ckv]; try discriminate Hcj.
          - inversion Hcj; subst raw1. left. exact (raw_del_keys _ _ _ Hk1).
          - inversion Hcj; subst raw1. destruct (fold_set_keys _ _ _ _ Hk1) as [H1|[ck [Hck Hkk]]].
            + left. exact (raw_del_keys _ _ _ H1).
            + right. exists f, ckv, ck. repeat split; try assumption.
              * apply Hsub. left. reflexivity.
              * rewrite Hg. discriminate. }
        destruct Hcase as [[Hin Hne]|Hck]; [|right; exact Hck].
        left. split; [exact Hin|]. intros g [Hgf|Hgt] Hgfl Hgp; [subst g; exact Hne|exact (Hrest g Hgt Hgfl Hgp)].
      * inversion Estep; subst raw1. left. split; [exact Hk1|].
        intros g [Hgf|Hgt] Hgfl Hgp; [subst g; exfalso; apply Hgp; exact Hg|exact (Hrest g Hgt Hgfl Hgp)].
    + inversion Estep; subst raw1. left. split; [exact Hk1|].
      intros g [Hgf|Hgt] Hgfl Hgp; [subst g; rewrite Hfl in Hgfl; discriminate Hgfl|exact (Hrest g Hgt Hgfl Hgp)].
Qed.

(* what the body handed to json.Marshal for a populated flatten field *)
Lemma kids_flatten_kid : forall (l : mval) ks0,
  NullableFacts.kids_loop E sc FtFlatten md l = ROk ks0 ->
  NullableFacts.nodup_str (map fst l) = true ->
  forall name x f, In (name, x) l -> find_field (m_fields md) name = Some f -> is_flatten f = true ->
  kid ks0 name = gj_fval E sc (f_kind f) x.
Proof.
  induction l as [|[n0 x0] r IH]; intros ks0 Hks Hnd name x f Hin Hf Hfl; [destruct Hin|].
  cbn [NullableFacts.kids_loop] in Hks. cbn [map fst] in Hnd.
  pose proof (NullableFacts.nodup_head_notin n0 (map fst r) Hnd) as Hhead.
  assert (Hndr : NullableFacts.nodup_str (map fst r) = true) by (cbn [NullableFacts.nodup_str] in Hnd; apply andb_prop in Hnd; apply Hnd).
  destruct (find_field (m_fields md) n0) as [f0|] eqn:Ef0; [|discriminate Hks].
  destruct (str_eqb name n0) eqn:Eq.
  - apply str_eqb_eq in Eq. subst n0. assert (f0 = f) by congruence. subst f0.
    assert (x0 = x).
    { destruct Hin as [Hin|Hin]; [inversion Hin; reflexivity|]. exfalso. apply Hhead. apply (in_map fst) in Hin. exact Hin. }
    subst x0. cbn [needs_gj] in Hks. rewrite Hfl in Hks.
    destruct (gj_fval E sc (f_kind f) x) as [j0|e0|w0] eqn:Egj; [| |discriminate Hks].
    + apply rbind_ok in Hks. destruct Hks as [t [_ Hks]]. inversion Hks; subst ks0. cbn [kid]. rewrite str_eqb_refl. reflexivity.
    + apply rbind_ok in Hks. destruct Hks as [t [_ Hks]]. inversion Hks; subst ks0. cbn [kid]. rewrite str_eqb_refl. reflexivity.
  - assert (Hinr : In (name, x) r).
    { destruct Hin as [Hin|Hin]; [|exact Hin]. inversion Hin; subst. rewrite str_eqb_refl in Eq. discriminate Eq. }
    destruct (needs_gj sc FtFlatten md f0).
    + destruct (gj_fval E sc (f_kind f0) x0) as [j0|e0|w0]; [| |discriminate Hks];
        apply rbind_ok in Hks; destruct Hks as [t [Ht Hks]]; inversion Hks; subst ks0; cbn [kid]; rewrite Eq;
        exact (IH t Ht Hndr name x f Hinr Hf Hfl).
    + exact (IH ks0 Hks Hndr name x f Hinr Hf Hfl).
Qed.

(* encoding/json's reflection writes the proto names of declared fields *)
Lemma g_msg_keys cmd : forall cm ckv, UnwrapMapFacts.g_msg E sc cmd cm = ROk ckv ->
  forall ck, In ck (map fst ckv) -> exists cf, find_field (m_fields cmd) ck = Some cf.
Proof.
  induction cm as [|[name x] r IH]; intros ckv H ck Hck.
  - cbn [UnwrapMapFacts.g_msg] in H. inversion H; subst. destruct Hck.
  - cbn [UnwrapMapFacts.g_msg] in H. destruct (find_field (m_fields cmd) name) as [cf|] eqn:Ecf; [|discriminate H].
    assert (Hcase : UnwrapMapFacts.g_msg E sc cmd r = ROk ckv \/
                    exists j t, UnwrapMapFacts.g_msg E sc cmd r = ROk t /\ ckv = (name, j) :: t).
    { destruct x as [[z|b|sx|[|c bs]|b|n]|cm0|l|kv]; try (left; exact H);
        (apply rbind_ok in H; destruct H as [j [_ H]]; apply rbind_ok in H; destruct H as [t [Ht H]]; inversion H; subst ckv;
         right; exists j, t; split; [exact Ht|reflexivity]). }
    destruct Hcase as [Hr|[j [t [Ht Hckv]]]].
    + exact (IH ckv Hr ck Hck).
    + subst ckv. cbn [map fst] in Hck. destruct Hck as [Hck|Hck]; [subst ck; exists cf; exact Ecf|exact (IH t Ht ck Hck)].
Qed.
End EncKeys.

(* every populated flatten field is a singular / optional field whose (declared, non-well-known or Timestamp) message
   type owns no codec: the child is rendered by reflection over the Go struct *)
Definition flatten_children_reflected (sc : schema) (md : message) (m : mval) : bool :=
  forallb (fun f => negb (is_flatten f) ||
                    match mget m (f_name f) with
                    | None => true
                    | Some _ =>
                        match f_card f with Singular | Optional => true | _ => false end &&
                        is_msg_kind (f_kind f) && negb (is_wkt_other (msg_name (f_kind f))) &&
                        match lookup_message sc (msg_name (f_kind f)) with
                        | Some cmd => match owner_of sc cmd with OwnNone => true | _ => false end
                        | None => false
                        end
                    end) (m_fields md).

(* no flattened key prefix ++ proto name of a child field addresses a flatten field of the parent *)
Definition flatten_self_free (sc : schema) (md : message) : bool :=
  forallb (fun f => negb (is_flatten f) ||
                    match lookup_message sc (msg_name (f_kind f)) with
                    | Some cmd => forallb (fun cf => match field_of_key md (flat_prefix f ++ f_name cf) with
                                                     | Some g => negb (is_flatten g)
                                                     | None => true
                                                     end) (m_fields cmd)
                    | None => true
                    end) (m_fields md).

Lemma flatten_keys_off_reflected E sc tn md m j :
  lookup_message sc tn = Some md -> owner_of sc md = Own FtFlatten ->
  OneofPj.wt1 sc tn m = true ->
  flatten_children_reflected sc md m = true -> flatten_self_free sc md = true ->
  encode E sc tn m = ROk j -> keys_off_set_flatten md m j = true.
Proof.
  intros Hlk Hown Hwt1 Hrefl Hfree Henc.
  destruct (OneofPj.wt1_inv sc tn m Hwt1) as [Hts [Hwk [md' [Hfm [Hlk' [Hok1 [Hsorted [Hwf Hexo]]]]]]]].
  assert (md' = md) by congruence. subst md'.
  assert (Howns : owns sc tn = true) by (unfold owns; rewrite Hlk, Hown; reflexivity).
  pose proof (TimestampFacts.sorted_names_nodup md m Hsorted) as Hnames.
  unfold encode in Henc. rewrite Howns, (NullableFacts.gj_fval_owned E sc tn md FtFlatten m Hwk Hlk Hown) in Henc.
  apply rbind_ok in Henc. destruct Henc as [ks [Hks Henc]].
  unfold codec_body in Henc. cbn [buildable negb] in Henc. cbv iota in Henc.
  apply rbind_ok in Henc. destruct Henc as [raw [Hraw Henc]].
  apply rbind_ok in Hraw. destruct Hraw as [j0 [Hpj Hobj]].
  unfold pj_marshal in Hpj. rewrite pj_fval_FM, Hts, Hwk, Hfm in Hpj.
  apply rbind_ok in Hpj. destruct Hpj as [es [Hes Hj0]]. inversion Hj0; subst j0. cbn [as_obj] in Hobj. inversion Hobj; subst raw.
  apply rbind_ok in Henc. destruct Henc as [r [Hr Hj]]. inversion Hj; subst j. clear Hj Hobj Hj0.
  pose proof (NullableFacts.m_msg_keys E sc md m es Hes) as Hkeys.
  cbn [keys_off_set_flatten]. apply forallb_forall. intros e He.
  destruct (field_of_key md (fst e)) as [g|] eqn:Hkg; [|reflexivity].
  destruct (is_flatten g) eqn:Hgfl; [|reflexivity]. destruct (mget m (f_name g)) as [y|] eqn:Hgy; [exfalso|reflexivity].
  pose proof (field_of_key_in md _ _ Hkg) as Hing.
  rewrite enc_flatten_fold in Hr.
  destruct (enc_flat_keys md m ks (m_fields md) es r (fun f Hf => Hf) Hr (fst e) (in_map fst _ _ He)) as [[Hin Hne]|Hck].
  - (* a key protojson wrote: it names a populated field, and that of a flatten field was deleted *)
    rewrite Hkeys in Hin. apply in_map_iff in Hin. destruct Hin as [[name x] [Hn Hinm]]. cbn [fst] in Hn.
    destruct (BytesFacts.wt_fields_in sc md m name x Hwf Hinm) as [h [Hh _]].
    pose proof (OneofPj.msg_ok1_key md name h Hok1 Hh) as Hkh. rewrite Hn, Hkg in Hkh. inversion Hkh; subst h.
    destruct (find_field_spec _ _ _ Hh) as [_ Hname].
    apply (Hne g Hing Hgfl); [rewrite Hgy; discriminate|]. unfold jn. rewrite Hname. symmetry. exact Hn.
  - (* a flattened child key *)
    destruct Hck as [f [ckv [ck [Hinf [Hfl [Hpop [Hkid [Hck Hk]]]]]]]].
    destruct (mget m (f_name f)) as [x|] eqn:Hx; [|exfalso; apply Hpop; reflexivity].
    assert (Hinm : In (f_name f, x) m).
    { clear -Hx. induction m as [|[k v] r0 IH]; [discriminate Hx|]. cbn [mget] in Hx.
      destruct (str_eqb (f_name f) k) eqn:Ek.
      - apply str_eqb_eq in Ek. inversion Hx; subst. left. reflexivity.
      - right. apply IH. exact Hx. }
    destruct (BytesFacts.wt_fields_in sc md m (f_name f) x Hwf Hinm) as [f' [Hf' Hwe]].
    assert (f' = f).
    { destruct (find_field_spec _ _ _ Hf') as [Hinf' Hname'].
      pose proof (OneofPj.msg_ok1_key_in md f Hok1 Hinf) as H1. pose proof (OneofPj.msg_ok1_key_in md f' Hok1 Hinf') as H2.
      unfold jn in H1, H2. rewrite Hname' in H2. congruence. }
    subst f'.
    rewrite (kids_flatten_kid E sc md m ks Hks Hnames (f_name f) x f Hinm Hf' Hfl) in Hkid.
    unfold flatten_children_reflected in Hrefl. rewrite forallb_forall in Hrefl. specialize (Hrefl f Hinf).
    rewrite Hfl, Hx in Hrefl. cbn [negb orb] in Hrefl.
    apply andb_prop in Hrefl. destruct Hrefl as [Hrefl Hcl]. apply andb_prop in Hrefl. destruct Hrefl as [Hrefl Hcwk].
    apply andb_prop in Hrefl. destruct Hrefl as [Hcard Hmk]. apply Bool.negb_true_iff in Hcwk.
    destruct (lookup_message sc (msg_name (f_kind f))) as [cmd|] eqn:Hcmd; [|discriminate Hcl].
    destruct (owner_of sc cmd) eqn:Hcown; try discriminate Hcl.
    destruct (f_kind f) as [| | | | | | | | | | | | | | | etn | ctn] eqn:Hkind; try discriminate Hmk. cbn [msg_name] in Hcmd, Hcwk.
    assert (Hxm : exists cm, x = FM cm).
    { unfold wt_entry in Hwe. rewrite Hkind in Hwe.
      destruct x as [sx|cm|l|kv]; [|exists cm; reflexivity| |];
        destruct (f_card f); try discriminate Hcard; discriminate Hwe. }
    destruct Hxm as [cm Hxm]. subst x.
    rewrite (UnwrapMapFacts.gj_fval_reflect E sc ctn cmd cm Hcwk Hcmd Hcown) in Hkid.
    destruct (real_oneof_set cmd cm); [discriminate Hkid|].
    apply rbind_ok in Hkid. destruct Hkid as [ckv' [Hg Hkid]]. inversion Hkid; subst ckv'.
    destruct (g_msg_keys E sc cmd cm ckv Hg ck Hck) as [cf Hcf].
    destruct (find_field_spec _ _ _ Hcf) as [Hincf Hcfn].
    unfold flatten_self_free in Hfree. rewrite forallb_forall in Hfree. specialize (Hfree f Hinf).
    rewrite Hfl, Hkind in Hfree. cbn [negb orb msg_name] in Hfree. rewrite Hcmd in Hfree.
    rewrite forallb_forall in Hfree. specialize (Hfree cf Hincf). rewrite Hcfn, <- Hk, Hkg, Hgfl in Hfree. discriminate Hfree.
Qed.

(* C04_refuted_flatten_reset for all schemas and values, schema-level side conditions only *)
Theorem flatten_set_never_roundtrips_reflected : forall E sc tn md m j,
  lookup_message sc tn = Some md -> owner_of sc md = Own FtFlatten ->
  OneofPj.wt1 sc tn m = true ->
  flatten_unset md m = false ->
  flatten_children_reflected sc md m = true -> flatten_self_free sc md = true ->
  encode E sc tn m = ROk j ->
  decode E sc tn j <> ROk (norm sc tn m).
Proof.
  intros E sc tn md m j Hlk Hown Hwt1 Hset Hrefl Hfree Henc.
  exact (flatten_set_never_roundtrips1 E sc tn md m j Hlk Hown Hwt1 Hset Henc
           (flatten_keys_off_reflected E sc tn md m j Hlk Hown Hwt1 Hrefl Hfree Henc)).
Qed.

(* ================================================================================================================ *)
(* witnesses *)
Definition set_prefix (p : string) (f : field) : field :=
  {| f_name := f_name f; f_number := f_number f; f_kind := f_kind f; f_card := f_card f; f_oneof := f_oneof f; f_query := f_query f;
     f_unwrap := f_unwrap f; f_int64 := f_int64 f; f_enumenc := f_enumenc f; f_nullable := f_nullable f; f_empty := f_empty f;
     f_tsfmt := f_tsfmt f; f_bytesenc := f_bytesenc f; f_oneof_value := f_oneof_value f; f_flatten := f_flatten f; f_flatten_prefix := Some (s p) |}.

Definition fls : schema :=
  [ {| fl_path := s "x/f.proto"; fl_package := s "x.v1"; fl_gopkg := s "x"; fl_generate := true;
       fl_messages :=
         [ msg "Addr" [fld "street" 1 KString Singular; fld "zip_code" 2 KString Singular] [];
           (* the parent's own "street" is a key the decoder probes for the child *)
           msg "Clash" [fld "street" 1 KString Singular; set_flatten (fld "home" 2 (T "Addr") Singular)] [];
           (* the same with a prefix: no clash *)
           msg "Pre" [fld "street" 1 KString Singular; set_prefix "h_" (set_flatten (fld "home" 2 (T "Addr") Singular));
                      set_prefix "w_" (set_flatten (fld "work" 3 (T "Addr") Singular))] [];
           (* flatten on a scalar field / on a field of an undeclared type *)
           msg "Scalar" [fld "id" 1 KString Singular; set_flatten (fld "x" 2 KString Singular)] [];
           msg "Gone" [fld "id" 1 KString Singular; set_flatten (fld "g" 2 (T "Missing") Singular)] [];
           (* a flattened child key that addresses the flatten field itself (by its proto name) *)
           msg "Inner" [fld "a_b" 1 KString Singular] [];
           msg "Self" [set_flatten (fld "a_b" 1 (T "Inner") Singular)] [] ];
       fl_enums := []; fl_services := [] |} ].

(* every hypothesis of flatten_roundtrip_unset holds for (tn, m), and so does its conclusion *)
Definition flat_case_ok (sc : schema) (tn : str) (m : mval) (j : json) : Prop :=
  (exists md, find_message (all_messages sc) tn = Some md /\ owner_of sc md = Own FtFlatten /\
              flatten_children_known sc md = true /\ flatten_probe_ok sc md m = true /\ flatten_no_collision sc md = true) /\
  wt sc (KMessage tn) (FM m) = true /\ defects_C04 sc tn m = [] /\
  encode Ex sc tn m = ROk j /\ norm sc tn m = m /\ decode Ex sc tn j = ROk m.

Ltac flatok := split; [eexists; repeat split; vm_compute; reflexivity|repeat split; vm_compute; reflexivity].

(* non-vacuity: the shared schema xs (Person, Post: the flatten field is unset, the other fields are populated) and
   two prefixed flatten fields side by side *)
Example flatten_roundtrip_unset_nonvacuous :
  flat_case_ok xs (q "Person") [(s "id", vstr "1")] (JObj [(s "id", JStr (s "1"))]) /\
  flat_case_ok xs (q "Post") [(s "id", vstr "p")] (JObj [(s "id", JStr (s "p"))]) /\
  flat_case_ok fls (q "Pre") [(s "street", vstr "s")] (JObj [(s "street", JStr (s "s"))]).
Proof. split; [flatok|]. split; flatok. Qed.

(* flatten_probe_ok is needed: the parent's own "street" is taken for the child's, deleted from the object, decoded
   into a child — and protojson.Unmarshal(remaining, x) then resets x: the parent's field is lost although no flatten
   field was populated and no defect class fires.  (annotations.ValidateFlattenCollisions refuses this schema:
   "flattened child ... collides with parent field".) *)
Example flatten_roundtrip_unset_needs_probe_ok :
  let m := [(s "street", vstr "s")] in
  (exists md, find_message (all_messages fls) (q "Clash") = Some md /\ owner_of fls md = Own FtFlatten /\
              flatten_children_known fls md = true /\ flatten_probe_ok fls md m = false /\ flatten_no_collision fls md = false) /\
  wt fls (KMessage (q "Clash")) (FM m) = true /\ defects_C04 fls (q "Clash") m = [] /\
  encode Ex fls (q "Clash") m = ROk (JObj [(s "street", JStr (s "s"))]) /\
  decode Ex fls (q "Clash") (JObj [(s "street", JStr (s "s"))]) = ROk [] /\
  norm fls (q "Clash") m = m.
Proof. cbv zeta. split; [eexists; repeat split; vm_compute; reflexivity|repeat split; vm_compute; reflexivity]. Qed.

(* flatten_children_known is needed in the MODEL: for a flatten field that is no field of a declared message type the
   decoder model declines (RUnm).  (annotations.ValidateFlattenField refuses flatten on a scalar field; protoc
   refuses an undeclared type.) *)
Example flatten_roundtrip_unset_needs_children_known :
  let m := [(s "id", vstr "1")] in
  (exists md, find_message (all_messages fls) (q "Scalar") = Some md /\ owner_of fls md = Own FtFlatten /\
              flatten_children_known fls md = false /\ flatten_probe_ok fls md m = true) /\
  wt fls (KMessage (q "Scalar")) (FM m) = true /\ defects_C04 fls (q "Scalar") m = [] /\
  encode Ex fls (q "Scalar") m = ROk (JObj [(s "id", JStr (s "1"))]) /\
  decode Ex fls (q "Scalar") (JObj [(s "id", JStr (s "1"))]) = RUnm (s "unknown message type") /\
  (exists md, find_message (all_messages fls) (q "Gone") = Some md /\ owner_of fls md = Own FtFlatten /\
              flatten_children_known fls md = false /\ flatten_probe_ok fls md m = true) /\
  wt fls (KMessage (q "Gone")) (FM m) = true /\ defects_C04 fls (q "Gone") m = [] /\
  encode Ex fls (q "Gone") m = ROk (JObj [(s "id", JStr (s "1"))]) /\
  decode Ex fls (q "Gone") (JObj [(s "id", JStr (s "1"))]) = RUnm (s "unknown message type").
Proof.
  cbv zeta. split; [eexists; repeat split; vm_compute; reflexivity|].
  do 4 (split; [vm_compute; reflexivity|]).
  split; [eexists; repeat split; vm_compute; reflexivity|repeat split; vm_compute; reflexivity].
Qed.

(* defects_C04 = [] is needed: C04_refuted_flatten_reset, and in general flatten_set_never_roundtrips.  Non-vacuity of
   the latter: every hypothesis holds on the shared schema xs, child non-empty and child empty *)
Example flatten_set_never_nonvacuous :
  (let m := [(s "id", vstr "1"); (s "home", FM [(s "street", vstr "s")])] in
   let j := JObj [(s "id", JStr (s "1")); (s "street", JStr (s "s"))] in
   (exists md, lookup_message xs (q "Person") = Some md /\ owner_of xs md = Own FtFlatten /\
               flatten_unset md m = false /\ keys_off_set_flatten md m j = true) /\
   wt xs (KMessage (q "Person")) (FM m) = true /\ defects_C04 xs (q "Person") m = [D4FlattenReset] /\
   encode Ex xs (q "Person") m = ROk j /\ decode Ex xs (q "Person") j = ROk [(s "id", vstr "1")]) /\
  (let m := [(s "id", vstr "1"); (s "home", FM [])] in
   let j := JObj [(s "id", JStr (s "1"))] in
   (exists md, lookup_message xs (q "Person") = Some md /\ owner_of xs md = Own FtFlatten /\
               flatten_unset md m = false /\ keys_off_set_flatten md m j = true) /\
   wt xs (KMessage (q "Person")) (FM m) = true /\ defects_C04 xs (q "Person") m = [D4FlattenReset] /\
   encode Ex xs (q "Person") m = ROk j /\ decode Ex xs (q "Person") j = ROk [(s "id", vstr "1")]).
Proof.
  cbv zeta. split; (split; [eexists; repeat split; vm_compute; reflexivity|repeat split; vm_compute; reflexivity]).
Qed.

(* the side condition keys_off_set_flatten of flatten_set_never_roundtrips is a limit of the proof, not a known
   exception: here it fails (the flattened child key "a_b" is the proto name of the flatten field itself, so the
   decoder's protojson pass reads it as that field) and the value is still not given back *)
Example flatten_set_never_keys_off_limit :
  let m := [(s "a_b", FM [(s "a_b", vstr "x")])] in
  let j := JObj [(s "a_b", JStr (s "x"))] in
  (exists md, lookup_message fls (q "Self") = Some md /\ owner_of fls md = Own FtFlatten /\
              flatten_unset md m = false /\ keys_off_set_flatten md m j = false) /\
  wt fls (KMessage (q "Self")) (FM m) = true /\
  encode Ex fls (q "Self") m = ROk j /\ decode Ex fls (q "Self") j = RErr (s "expected object").
Proof. cbv zeta. split; [eexists; repeat split; vm_compute; reflexivity|repeat split; vm_compute; reflexivity]. Qed.

(* flatten_set_never_roundtrips_reflected: its hypotheses hold on the shared schema (Person: single-word child field;
   Post: a multi-word child field, where D4FlattenChildKeys fires as well and the decoder rejects the object); on Self the
   schema condition flatten_self_free fails, as keys_off_set_flatten does *)
Example flatten_set_never_reflected_nonvacuous :
  (let m := [(s "id", vstr "1"); (s "home", FM [(s "street", vstr "s")])] in
   (exists md, lookup_message xs (q "Person") = Some md /\ owner_of xs md = Own FtFlatten /\ flatten_unset md m = false /\
               flatten_children_reflected xs md m = true /\ flatten_self_free xs md = true) /\
   OneofPj.wt1 xs (q "Person") m = true) /\
  (let m := [(s "id", vstr "1"); (s "detail", FM [(s "body_text", vstr "b")])] in
   (exists md, lookup_message xs (q "Post") = Some md /\ owner_of xs md = Own FtFlatten /\ flatten_unset md m = false /\
               flatten_children_reflected xs md m = true /\ flatten_self_free xs md = true) /\
   OneofPj.wt1 xs (q "Post") m = true /\
   encode Ex xs (q "Post") m = ROk (JObj [(s "id", JStr (s "1")); (s "body_text", JStr (s "b"))]) /\
   decode Ex xs (q "Post") (JObj [(s "id", JStr (s "1")); (s "body_text", JStr (s "b"))]) = RErr (s "unknown field")) /\
  (exists md, lookup_message fls (q "Self") = Some md /\ flatten_self_free fls md = false).
Proof.
  cbv zeta. split; [split; [eexists; repeat split; vm_compute; reflexivity|vm_compute; reflexivity]|].
  split; [split; [eexists; repeat split; vm_compute; reflexivity|repeat split; vm_compute; reflexivity]|].
  eexists; split; vm_compute; reflexivity.
Qed.
Close Scope Z_scope.
