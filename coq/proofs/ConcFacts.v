From Sebuf Require Import Conc.
From Coq Require Import Lia.

(* invariant: at most one validator instance is ever built, every thread that got one got instance 0 *)
Definition thread_ok (p : nat * tstate) : Prop :=
  match snd p with
  | TStart => True
  | TGot v => v = 0
  | TDone (r, v) => r = fst p /\ v = 0
  end.

Definition inv (sh : shared) (ts : threads) : Prop :=
  (sh_validator sh = None /\ sh_next sh = 0 \/ sh_validator sh = Some 0 /\ sh_next sh = 1) /\
  Forall thread_ok ts /\
  (sh_validator sh = None -> Forall (fun p => snd p = TStart) ts).

Lemma step_inv sh req st sh' st' :
  (sh_validator sh = None /\ sh_next sh = 0 \/ sh_validator sh = Some 0 /\ sh_next sh = 1) ->
  thread_ok (req, st) -> (sh_validator sh = None -> st = TStart) ->
  step sh req st = (sh', st') ->
  (sh_validator sh' = None /\ sh_next sh' = 0 \/ sh_validator sh' = Some 0 /\ sh_next sh' = 1) /\
  thread_ok (req, st') /\ (sh_validator sh' = None -> st' = TStart /\ sh' = sh).
Proof.
  intros Hsh Hok Hstart E. unfold step in E. destruct st as [|v|r].
  - destruct (sh_validator sh) as [v|] eqn:Ev.
    + inversion E; subst. destruct Hsh as [[H _]|[H Hn]]; [congruence|].
      split; [right; split; congruence|]. split; [cbn; congruence|]. intros H'. congruence.
    + inversion E; subst. destruct Hsh as [[_ Hn]|[H _]]; [|congruence].
      cbn. rewrite Hn. split; [right; auto|]. split; [reflexivity|]. intros H'. discriminate.
  - inversion E; subst. split; [exact Hsh|]. split.
    + cbn in *. split; [reflexivity|exact Hok].
    + intros H. specialize (Hstart H). discriminate.
  - inversion E; subst. split; [exact Hsh|]. split; [exact Hok|].
    intros H. specialize (Hstart H). discriminate.
Qed.

Lemma step_at_inv : forall ts sh i sh' ts', inv sh ts -> step_at sh ts i = (sh', ts') -> inv sh' ts'.
Proof.
  induction ts as [|[req st] ts IH]; intros sh i sh' ts' [Hsh [Hok Hnone]] E.
  - cbn in E. inversion E; subst. repeat split; auto.
  - destruct i as [|j]; cbn in E.
    + destruct (step sh req st) as [sh1 st1] eqn:Es. inversion E; subst.
      inversion Hok as [|? ? Hok1 Hokr]; subst.
      assert (Hst : sh_validator sh = None -> st = TStart).
      { intros H. specialize (Hnone H). inversion Hnone; subst. assumption. }
      destruct (step_inv sh req st sh' st1 Hsh Hok1 Hst Es) as [Hsh' [Hok' Hn']].
      split; [exact Hsh'|]. split; [constructor; assumption|].
      intros H. destruct (Hn' H) as [-> ->]. constructor; [reflexivity|].
      specialize (Hnone H). inversion Hnone; subst. assumption.
    + destruct (step_at sh ts j) as [sh1 ts1] eqn:Es. inversion E; subst.
      inversion Hok as [|? ? Hok1 Hokr]; subst.
      assert (Hi : inv sh ts).
      { split; [exact Hsh|]. split; [exact Hokr|]. intros H. specialize (Hnone H). inversion Hnone; subst. assumption. }
      destruct (IH sh j sh' ts1 Hi Es) as [Hsh' [Hok' Hn']].
      split; [exact Hsh'|]. split; [constructor; assumption|].
      intros H. constructor; [|apply Hn'; exact H].
      (* the head thread did not move; if no validator exists now none existed before *)
      assert (Hb : sh_validator sh = None).
      { destruct Hsh as [[Hv _]|[Hv Hn]]; [exact Hv|].
        (* a built validator is never un-built *)
        exfalso. clear - Es Hv H. revert sh sh' ts1 j Es Hv H.
        induction ts as [|[r s] ts IHt]; intros sh sh' ts1 j Es Hv H.
        - cbn in Es. inversion Es; subst. congruence.
        - destruct j as [|k]; cbn in Es.
          + destruct (step sh r s) as [a b] eqn:Est. inversion Es; subst.
            unfold step in Est. destruct s; [rewrite Hv in Est|..]; inversion Est; subst; congruence.
          + destruct (step_at sh ts k) as [a b] eqn:Est. inversion Es; subst. eapply IHt; eauto. }
      specialize (Hnone Hb). inversion Hnone; subst. assumption.
Qed.

Lemma run_inv : forall sched sh ts sh' ts', inv sh ts -> run_sched sh ts sched = (sh', ts') -> inv sh' ts'.
Proof.
  induction sched as [|i r IH]; intros sh ts sh' ts' Hi E; cbn in E.
  - inversion E; subst. exact Hi.
  - destruct (step_at sh ts i) as [sh1 ts1] eqn:Es. eapply IH; [|exact E]. eapply step_at_inv; eauto.
Qed.

Lemma init_inv reqs : inv init_shared (init_threads reqs).
Proof.
  split; [left; split; reflexivity|]. split.
  - unfold init_threads. apply Forall_forall. intros p Hp. apply in_map_iff in Hp as [r [<- _]]. exact I.
  - intros _. unfold init_threads. apply Forall_forall. intros p Hp. apply in_map_iff in Hp as [r [<- _]]. reflexivity.
Qed.

(* Under ANY schedule: at most one validator instance is built and every finished call reports
   its own request with that one instance — exactly what the call would report when run alone. *)
Theorem isolation reqs sched sh' ts' :
  run_sched init_shared (init_threads reqs) sched = (sh', ts') ->
  sh_next sh' <= 1 /\
  forall req r v, In (req, TDone (r, v)) ts' -> r = req /\ v = 0.
Proof.
  intros E. destruct (run_inv sched _ _ _ _ (init_inv reqs) E) as [Hsh [Hok _]]. split.
  - destruct Hsh as [[_ H]|[_ H]]; lia.
  - intros req r v Hin. rewrite Forall_forall in Hok. specialize (Hok _ Hin). exact Hok.
Qed.

(* the same call alone *)
Lemma alone req : snd (run_sched init_shared (init_threads [req]) [0; 0]) = [(req, TDone (req, 0))].
Proof. reflexivity. Qed.

(* registration: every route keeps the headers computed for ITS method *)
Lemma register_spec methods get : forall var acc,
  register var methods get acc = rev acc ++ map (fun m => (m, get m)) methods.
Proof.
  induction methods as [|m r IH]; intros var acc; cbn.
  - now rewrite app_nil_r.
  - rewrite IH. cbn. now rewrite <- app_assoc.
Qed.

Theorem routes_unshared methods get var m h :
  In (m, h) (register var methods get []) -> h = get m.
Proof.
  rewrite register_spec. cbn. intros Hin. apply in_map_iff in Hin as [x [E _]]. now inversion E.
Qed.

(* per-call options: a call's headers are a function of the client's defaults and its own options *)
Theorem call_options_local defaults c1 c2 ct :
  call_headers defaults c1 ct = (s "Content-Type", ct) :: defaults ++ c1 /\
  (c1 = c2 -> call_headers defaults c1 ct = call_headers defaults c2 ct).
Proof. split; [reflexivity|now intros ->]. Qed.

(* ================================================================================================
   Sibling routes and call sequences (model: second half of Conc.v)
   ================================================================================================ *)
From Sebuf Require Import Headers.
From SebufProofs Require Import TextFacts.

Definition mk_route (svc : list header) (mh : str * list header) : route :=
  {| rt_name := fst mh; rt_svc := svc; rt_mth := snd mh |}.

Lemma register_routes_spec svc methods : forall var acc,
  register_routes svc var methods acc = rev acc ++ map (mk_route svc) methods.
Proof.
  induction methods as [|[m hs] r IH]; intros var acc; cbn.
  - now rewrite app_nil_r.
  - rewrite IH. cbn. now rewrite <- app_assoc.
Qed.

Lemma find_route_nodup svc methods m hs :
  NoDup (map fst methods) -> In (m, hs) methods ->
  find_route (map (mk_route svc) methods) m = Some (mk_route svc (m, hs)).
Proof.
  unfold find_route. induction methods as [|[m' hs'] r IH]; intros Hnd Hin; [contradiction|].
  cbn in Hnd. inversion Hnd as [|? ? Hnotin Hnd']; subst. cbn.
  destruct (str_eqb m' m) eqn:E.
  - apply str_eqb_eq in E. subst m'. destruct Hin as [Heq|Hin].
    + now inversion Heq.
    + exfalso. apply Hnotin. apply in_map_iff. exists (m, hs). split; [reflexivity|exact Hin].
  - destruct Hin as [Heq|Hin].
    + inversion Heq; subst. rewrite str_eqb_refl in E. discriminate.
    + apply IH; assumption.
Qed.

(* Per-route configuration is never shared: whatever else the service registers (before or after,
   with whatever headers), a request on route m is judged by the service's declaration and m's OWN
   declaration only. *)
Theorem routes_config_isolated svc var methods m hs rq bv bok :
  NoDup (map fst methods) -> In (m, hs) methods ->
  serve_route (register_routes svc var methods []) m rq bv bok = Some (go_serve svc hs rq bv bok).
Proof.
  intros Hnd Hin. unfold serve_route. rewrite register_routes_spec.
  change (rev (@nil route)) with (@nil route). rewrite app_nil_l.
  rewrite (find_route_nodup svc methods m hs Hnd Hin). reflexivity.
Qed.

(* ... which is the outcome of the same request on a service that registers m alone *)
Corollary route_as_alone svc var var' methods m hs rq bv bok :
  NoDup (map fst methods) -> In (m, hs) methods ->
  serve_route (register_routes svc var methods []) m rq bv bok =
  serve_route (register_routes svc var' [(m, hs)] []) m rq bv bok.
Proof.
  intros Hnd Hin. rewrite (routes_config_isolated svc var methods m hs rq bv bok Hnd Hin).
  unfold serve_route, find_route. cbn. now rewrite str_eqb_refl.
Qed.

(* ---- call sequences ------------------------------------------------------------------------------ *)
Lemma do_call_world w c : fst (do_call w c) = w.
Proof. unfold do_call. destruct (nth_error w (cc_client c)); reflexivity. Qed.

Lemma run_calls_cons w c r : run_calls w (c :: r) = snd (do_call w c) :: run_calls w r.
Proof.
  cbn. pose proof (do_call_world w c) as Hw. destruct (do_call w c) as [w' o]. cbn in *. now subst.
Qed.

Lemma run_calls_app w pre : forall post, run_calls w (pre ++ post) = run_calls w pre ++ run_calls w post.
Proof.
  induction pre as [|c r IH]; intros post; [reflexivity|].
  rewrite <- app_comm_cons. rewrite !run_calls_cons. cbn. now rewrite IH.
Qed.

Lemma run_calls_length w cs : List.length (run_calls w cs) = List.length cs.
Proof. induction cs as [|c r IH]; [reflexivity|]. rewrite run_calls_cons. cbn. now rewrite IH. Qed.

(* History independence: whatever was called before (and however those calls ended: not marshalled,
   not created, transport failure, 4xx, 5xx, undecodable answer, success; with whatever per-call
   options; on whichever instance) and whatever is called afterwards, a call observes exactly what
   it observes when it is the only call made on freshly constructed clients. *)
Theorem history_independent w pre c post :
  nth_error (run_calls w (pre ++ c :: post)) (List.length pre) = nth_error (run_calls w [c]) 0.
Proof.
  rewrite run_calls_app. rewrite nth_error_app2; rewrite run_calls_length; [|lia].
  rewrite Nat.sub_diag. rewrite !run_calls_cons. reflexivity.
Qed.

(* ... and it depends on its own client instance only *)
Theorem own_instance_only w w' c :
  nth_error w (cc_client c) = nth_error w' (cc_client c) -> snd (do_call w c) = snd (do_call w' c).
Proof. intros E. unfold do_call. rewrite E. destruct (nth_error w' (cc_client c)); reflexivity. Qed.

(* a call without per-call options puts exactly Content-Type and the instance's defaults on the wire *)
Theorem plain_call_defaults w c cl :
  nth_error w (cc_client c) = Some cl -> cc_ct c = [] -> cc_headers c = [] -> stage_sends (cc_stage c) = true ->
  snd (do_call w c) =
  Some {| co_sent := Some (hset_all ((s "Content-Type", cl_ct cl) :: cl_defaults cl)); co_ok := stage_ok (cc_stage c) |}.
Proof.
  intros E Hct Hh Hs. unfold do_call. rewrite E. cbn. rewrite Hs.
  unfold wire_headers, eff_ct, call_headers. rewrite Hct, Hh. now rewrite app_nil_r.
Qed.

(* ================================================================================================
   Routes over a shared request message (model: last part of Conc.v)
   ================================================================================================ *)
Lemma find_sroute_nodup table r :
  NoDup (map sr_name table) -> In r table -> find_sroute table (sr_name r) = Some r.
Proof.
  unfold find_sroute. induction table as [|r' t IH]; intros Hnd Hin; [contradiction|].
  cbn in Hnd. inversion Hnd as [|? ? Hnotin Hnd']; subst. cbn.
  destruct (str_eqb (sr_name r') (sr_name r)) eqn:E.
  - apply str_eqb_eq in E. destruct Hin as [->|Hin]; [reflexivity|].
    exfalso. apply Hnotin. rewrite E. now apply in_map.
  - destruct Hin as [->|Hin].
    + rewrite str_eqb_refl in E. discriminate.
    + now apply IH.
Qed.

(* Whatever else is registered (routes over the SAME request message with other path-variable sets,
   other verbs), and whatever was requested before or is requested afterwards, a request addressed to
   route r is bound with r's OWN path variables and query parameters. *)
Theorem shared_message_isolated table r pre rq post :
  NoDup (map sr_name table) -> In r table -> sq_route rq = sr_name r ->
  nth_error (run_shared table (pre ++ rq :: post)) (List.length pre) = Some (Some (serve_shared r rq)).
Proof.
  intros Hnd Hin Hr. unfold run_shared. rewrite map_app. rewrite nth_error_app2; rewrite map_length; [|lia].
  rewrite Nat.sub_diag. cbn. unfold serve_shared_in. rewrite Hr, (find_sroute_nodup table r Hnd Hin). reflexivity.
Qed.

(* ... which is what the same request gets from a server that registers r alone *)
Corollary shared_message_as_alone table r pre rq post :
  NoDup (map sr_name table) -> In r table -> sq_route rq = sr_name r ->
  nth_error (run_shared table (pre ++ rq :: post)) (List.length pre) = nth_error (run_shared [r] [rq]) 0.
Proof.
  intros Hnd Hin Hr. rewrite (shared_message_isolated table r pre rq post Hnd Hin Hr).
  cbn. unfold serve_shared_in, find_sroute. cbn. rewrite Hr, str_eqb_refl. reflexivity.
Qed.

(* a path variable the route does not declare is never bound: the field keeps what the body gave it *)
Lemma fset_other k v k' m : str_eqb k k' = false -> flookup k' (fset k v m) = flookup k' m.
Proof.
  intros Hne. induction m as [|[a b] t IH]; cbn.
  - rewrite Hne. reflexivity.
  - destruct (str_eqb a k) eqn:E; cbn.
    + destruct (str_eqb a k') eqn:E'; [|reflexivity].
      apply str_eqb_eq in E. apply str_eqb_eq in E'. subst. rewrite str_eqb_refl in Hne. discriminate.
    + destruct (str_eqb a k'); [reflexivity|exact IH].
Qed.

Lemma bind_path_undeclared params pv f : ~ In f params -> forall m m',
  bind_path params pv m = SDispatch m' -> flookup f m' = flookup f m.
Proof.
  intros Hnot. induction params as [|p r IH]; intros m m' H; cbn in H.
  - now inversion H.
  - destruct (flookup p pv) as [[|c v]|]; try discriminate.
    assert (Hp : str_eqb p f = false).
    { destruct (str_eqb p f) eqn:E; [|reflexivity]. apply str_eqb_eq in E. subst. exfalso. apply Hnot. now left. }
    rewrite (IH (fun Hin => Hnot (or_intror Hin)) _ _ H). now apply fset_other.
Qed.

(* ---- registration histories (C17g) ------------------------------------------------------------------ *)
Lemma key_eqb_eq a b : key_eqb a b = true -> a = b.
Proof.
  destruct a as [a1 a2], b as [b1 b2]; unfold key_eqb; cbn. intro H.
  apply andb_prop in H. destruct H as [H1 H2]. apply str_eqb_eq in H1. apply str_eqb_eq in H2. now subst.
Qed.
Lemma key_eqb_refl a : key_eqb a a = true.
Proof. destruct a; unfold key_eqb; cbn. now rewrite !str_eqb_refl. Qed.

Lemma find_mounted_unique t m : NoDup (map mkey t) -> In m t -> find_mounted t (mkey m) = Some m.
Proof.
  induction t as [|a t IH]; intros Hnd Hin; [destruct Hin|].
  unfold find_mounted. cbn. inversion Hnd as [|x l Hnot Hnd']; subst.
  destruct (key_eqb (mkey a) (mkey m)) eqn:E.
  - destruct Hin as [->|Hin]; [reflexivity|]. apply key_eqb_eq in E. exfalso. apply Hnot. rewrite E. now apply in_map.
  - destruct Hin as [->|Hin]; [rewrite key_eqb_refl in E; discriminate|]. now apply IH.
Qed.

Lemma register_all_nth regs : forall k i r,
  nth_error regs i = Some r -> nth_error (register_all k regs) i = Some (mount (k + i) r).
Proof.
  induction regs as [|a t IH]; intros k i r H; destruct i; cbn in *; try discriminate.
  - inversion H; subst. now rewrite Nat.add_0_r.
  - rewrite (IH (S k) i r H). cbn. now rewrite Nat.add_succ_r.
Qed.

(* registration i of ANY history answers a request addressed to it exactly as when it is the only
   Register call the process ever made: whatever options the calls before and after it were given *)
Theorem registration_as_alone regs i r q :
  NoDup (map mkey (register_all 0 regs)) -> nth_error regs i = Some r ->
  rq_key q = mkey (mount i r) ->
  serve_reg (register_all 0 regs) q = serve_reg [mount i r] q.
Proof.
  intros Hnd Hi Hk. unfold serve_reg. rewrite Hk.
  rewrite (find_mounted_unique _ (mount i r) Hnd).
  - unfold find_mounted. cbn. now rewrite key_eqb_refl.
  - apply (nth_error_In _ i). exact (register_all_nth regs 0 i r Hi).
Qed.

(* a Register call without WithErrorHandler / WithMux has no error handler / the default mux, whatever
   else the process registered *)
Definition is_hook (o : sopt) : bool := match o with OHook _ _ => true | _ => false end.
Definition is_mux (o : sopt) : bool := match o with OMux _ => true | _ => false end.
Lemma fold_no_hook opts : forall c, (forall o, In o opts -> is_hook o = false) ->
  sc_hook (fold_left apply_sopt opts c) = sc_hook c.
Proof.
  induction opts as [|a t IH]; intros c H; cbn; [reflexivity|].
  rewrite IH by (intros o Ho; apply H; now right).
  specialize (H a (or_introl eq_refl)). destruct a; cbn in *; [reflexivity|discriminate].
Qed.
Lemma fold_no_mux opts : forall c, (forall o, In o opts -> is_mux o = false) ->
  sc_mux (fold_left apply_sopt opts c) = sc_mux c.
Proof.
  induction opts as [|a t IH]; intros c H; cbn; [reflexivity|].
  rewrite IH by (intros o Ho; apply H; now right).
  specialize (H a (or_introl eq_refl)). destruct a; cbn in *; [discriminate|reflexivity].
Qed.
Theorem own_options_only k svc opts :
  ((forall o, In o opts -> is_hook o = false) -> mt_hook (mount k (svc, opts)) = None) /\
  ((forall o, In o opts -> is_mux o = false) -> mt_mux (mount k (svc, opts)) = []).
Proof.
  split; intro H; unfold mount, get_configuration; cbn.
  - now rewrite fold_no_hook.
  - now rewrite fold_no_mux.
Qed.
