From Sebuf Require Import Conc.
From Coq Require Import Lia.

(* invariant: at most one validator instance is ever built, every thread that got one got instance 0 *)
Definition thread_ok (p : nat * tstate) : Prop :=
  match snd p with
  | TStart => True
  | TGot v => v = 0
  | TDone (r, v) => r = fst p /\ v = 0
  end.

Definition inv (sh : shared) (ts : threads) : Prop :=
  (sh_validator sh = None /\ sh_next sh = 0 \/ sh_validator sh = Some 0 /\ sh_next sh = 1) /\
  Forall thread_ok ts /\
  (sh_validator sh = None -> Forall (fun p => snd p = TStart) ts).

Lemma step_inv sh req st sh' st' :
  (sh_validator sh = None /\ sh_next sh = 0 \/ sh_validator sh = Some 0 /\ sh_next sh = 1) ->
  thread_ok (req, st) -> (sh_validator sh = None -> st = TStart) ->
  step sh req st = (sh', st') ->
  (sh_validator sh' = None /\ sh_next sh' = 0 \/ sh_validator sh' = Some 0 /\ sh_next sh' = 1) /\
  thread_ok (req, st') /\ (sh_validator sh' = None -> st' = TStart /\ sh' = sh).
Proof.
  intros Hsh Hok Hstart E. unfold step in E. destruct st as [|v|r].
  - destruct (sh_validator sh) as [v|] eqn:Ev.
    + inversion E; subst. destruct Hsh as [[H _]|[H Hn]]; [congruence|].
      split; [right; split; congruence|]. split; [cbn; congruence|]. intros H'. congruence.
    + inversion E; subst. destruct Hsh as [[_ Hn]|[H _]]; [|congruence].
      cbn. rewrite Hn. split; [right; auto|]. split; [reflexivity|]. intros H'. discriminate.
  - inversion E; subst. split; [exact Hsh|]. split.
    + cbn in *. split; [reflexivity|exact Hok].
    + intros H. specialize (Hstart H). discriminate.
  - inversion E; subst. split; [exact Hsh|]. split; [exact Hok|].
    intros H. specialize (Hstart H). discriminate.
Qed.

Lemma step_at_inv : forall ts sh i sh' ts', inv sh ts -> step_at sh ts i = (sh', ts') -> inv sh' ts'.
Proof.
  induction ts as [|[req st] ts IH]; intros sh i sh' ts' [Hsh [Hok Hnone]] E.
  - cbn in E. inversion E; subst. repeat split; auto.
  - destruct i as [|j]; cbn in E.
    + destruct (step sh req st) as [sh1 st1] eqn:Es. inversion E; subst.
      inversion Hok as [|? ? Hok1 Hokr]; subst.
      assert (Hst : sh_validator sh = None -> st = TStart).
      { intros H. specialize (Hnone H). inversion Hnone; subst. assumption. }
      destruct (step_inv sh req st sh' st1 Hsh Hok1 Hst Es) as [Hsh' [Hok' Hn']].
      split; [exact Hsh'|]. split; [constructor; assumption|].
      intros H. destruct (Hn' H) as [-> ->]. constructor; [reflexivity|].
      specialize (Hnone H). inversion Hnone; subst. assumption.
    + destruct (step_at sh ts j) as [sh1 ts1] eqn:Es. inversion E; subst.
      inversion Hok as [|? ? Hok1 Hokr]; subst.
      assert (Hi : inv sh ts).
      { split; [exact Hsh|]. split; [exact Hokr|]. intros H. specialize (Hnone H). inversion Hnone; subst. assumption. }
      destruct (IH sh j sh' ts1 Hi Es) as [Hsh' [Hok' Hn']].
      split; [exact Hsh'|]. split; [constructor; assumption|].
      intros H. constructor; [|apply Hn'; exact H].
      (* the head thread did not move; if no validator exists now none existed before *)
      assert (Hb : sh_validator sh = None).
      { destruct Hsh as [[Hv _]|[Hv Hn]]; [exact Hv|].
        (* a built validator is never un-built *)
        exfalso. clear - Es Hv H. revert sh sh' ts1 j Es Hv H.
        induction ts as [|[r s] ts IHt]; intros sh sh' ts1 j Es Hv H.
        - cbn in Es. inversion Es; subst. congruence.
        - destruct j as [|k]; cbn in Es.
          + destruct (step sh r s) as [a b] eqn:Est. inversion Es; subst.
            unfold step in Est. destruct s; [rewrite Hv in Est|..]; inversion Est; subst; congruence.
          + destruct (step_at sh ts k) as [a b] eqn:Est. inversion Es; subst. eapply IHt; eauto. }
      specialize (Hnone Hb). inversion Hnone; subst. assumption.
Qed.

Lemma run_inv : forall sched sh ts sh' ts', inv sh ts -> run_sched sh ts sched = (sh', ts') -> inv sh' ts'.
Proof.
  induction sched as [|i r IH]; intros sh ts sh' ts' Hi E; cbn in E.
  - inversion E; subst. exact Hi.
  - destruct (step_at sh ts i) as [sh1 ts1] eqn:Es. eapply IH; [|exact E]. eapply step_at_inv; eauto.
Qed.

Lemma init_inv reqs : inv init_shared (init_threads reqs).
Proof.
  split; [left; split; reflexivity|]. split.
  - unfold init_threads. apply Forall_forall. intros p Hp. apply in_map_iff in Hp as [r [<- _]]. exact I.
  - intros _. unfold init_threads. apply Forall_forall. intros p Hp. apply in_map_iff in Hp as [r [<- _]]. reflexivity.
Qed.

(* Under ANY schedule: at most one validator instance is built and every finished call reports
   its own request with that one instance — exactly what the call would report when run alone. *)
Theorem isolation reqs sched sh' ts' :
  run_sched init_shared (init_threads reqs) sched = (sh', ts') ->
  sh_next sh' <= 1 /\
  forall req r v, In (req, TDone (r, v)) ts' -> r = req /\ v = 0.
Proof.
  intros E. destruct (run_inv sched _ _ _ _ (init_inv reqs) E) as [Hsh [Hok _]]. split.
  - destruct Hsh as [[_ H]|[_ H]]; lia.
  - intros req r v Hin. rewrite Forall_forall in Hok. specialize (Hok _ Hin). exact Hok.
Qed.

(* the same call alone *)
Lemma alone req : snd (run_sched init_shared (init_threads [req]) [0; 0]) = [(req, TDone (req, 0))].
Proof. reflexivity. Qed.

(* registration: every route keeps the headers computed for ITS method *)
Lemma register_spec methods get : forall var acc,
  register var methods get acc = rev acc ++ map (fun m => (m, get m)) methods.
Proof.
  induction methods as [|m r IH]; intros var acc; cbn.
  - now rewrite app_nil_r.
  - rewrite IH. cbn. now rewrite <- app_assoc.
Qed.

Theorem routes_unshared methods get var m h :
  In (m, h) (register var methods get []) -> h = get m.
Proof.
  rewrite register_spec. cbn. intros Hin. apply in_map_iff in Hin as [x [E _]]. now inversion E.
Qed.

(* per-call options: a call's headers are a function of the client's defaults and its own options *)
Theorem call_options_local defaults c1 c2 ct :
  call_headers defaults c1 ct = (s "Content-Type", ct) :: defaults ++ c1 /\
  (c1 = c2 -> call_headers defaults c1 ct = call_headers defaults c2 ct).
Proof. split; [reflexivity|now intros ->]. Qed.
