(* OpenApiRefsFacts.v — C18: EVERY `$ref` and every discriminator mapping target of the document
   resolves to a component of the same document.
     1. reference analysis of the field schemas and of the five object-schema builders
        (plain, root unwrap, flatten, flattened and nested discriminated oneof);
     2. closure of the message collection: what a collected component refers to is collected;
     3. assembly over the document (info, paths, components). *)
From Sebuf Require Import JsonSchema Yaml Rules Route OpenApi OasCheck.
From SebufProofs Require Import JsonSchemaFacts OpenApiFacts OpenApiExamples.

(* ================================================================================================ *)
(*  1. Generic facts about refs_of                                                                    *)
(* ================================================================================================ *)
Definition key_plain (k : str) : bool :=
  negb (str_eqb k (s "$ref")) && negb (str_eqb k (s "discriminator")) && negb (str_eqb k (s "mapping")).

(* a node that no key can turn into a reference: not a string, and without a `mapping` table *)
Definition plain_node (x : ynode) : Prop := (forall t, x <> YStr t) /\ mapping_targets x = None.

Lemma entry_refs_plainkey k x inner : key_plain k = true -> entry_refs k x inner = inner.
Proof.
  unfold key_plain, entry_refs. intros H.
  apply andb_prop in H as [H Hm]. apply andb_prop in H as [Hr Hd].
  apply negb_true_iff in Hr, Hd. now rewrite Hr, Hd.
Qed.

Lemma entry_refs_plainnode k x : plain_node x -> entry_refs k x (refs_of x) = refs_of x.
Proof.
  intros [Hs Hm]. unfold entry_refs. rewrite Hm.
  destruct (str_eqb k (s "$ref")).
  - destruct x; try reflexivity. exfalso. now apply (Hs x).
  - destruct (str_eqb k (s "discriminator")); reflexivity.
Qed.

Lemma find_none_forall {A} (p : A -> bool) l : (forall a, In a l -> p a = false) -> find p l = None.
Proof.
  induction l as [|a l IH]; intros H; [reflexivity|]. cbn [find].
  rewrite (H a (or_introl eq_refl)). apply IH. intros b Hb. apply H. now right.
Qed.

Lemma plain_map kv : Forall (fun e => str_eqb (fst e) (s "mapping") = false) kv -> plain_node (YMap kv).
Proof.
  intros H. split; [discriminate|]. unfold mapping_targets.
  rewrite find_none_forall; [reflexivity|]. rewrite Forall_forall in H. exact H.
Qed.

Lemma key_plain_not_mapping k : key_plain k = true -> str_eqb k (s "mapping") = false.
Proof. unfold key_plain. intros H. apply andb_prop in H as [_ H]. now apply negb_true_iff in H. Qed.

Lemma refs_seq_map {A} (g : A -> ynode) l : (forall a, refs_of (g a) = []) -> refs_of (YSeq (map g l)) = [].
Proof.
  intros Hg. cbn [refs_of]. induction l as [|a l IH]; [reflexivity|]. cbn [map flat_map]. now rewrite Hg, IH.
Qed.

Section Good.
Variable ok : str -> Prop.

Definition good_node (n : ynode) : Prop := forall t, In t (refs_of n) -> ok t.
Definition gentry (e : str * ynode) : Prop :=
  forall t, In t (entry_refs (fst e) (snd e) (refs_of (snd e))) -> ok t.
Definition fine (n : ynode) : Prop := good_node n /\ plain_node n.
(* an entry under a key that is not `$ref`, `discriminator` or `mapping` *)
Definition pentry (e : str * ynode) : Prop := key_plain (fst e) = true /\ good_node (snd e).
(* ... whose value holds no reference at all *)
Definition flat_entry (e : str * ynode) : Prop := key_plain (fst e) = true /\ refs_of (snd e) = [].

Lemma good_nil n : refs_of n = [] -> good_node n.
Proof. intros H t Ht. rewrite H in Ht. destruct Ht. Qed.

Lemma good_map kv : Forall gentry kv -> good_node (YMap kv).
Proof.
  intros H t Ht. cbn [refs_of] in Ht. apply in_flat_map in Ht as [e [He Ht]].
  rewrite Forall_forall in H. exact (H e He t Ht).
Qed.

Lemma good_seq l : Forall good_node l -> good_node (YSeq l).
Proof.
  intros H t Ht. cbn [refs_of] in Ht. apply in_flat_map in Ht as [n [Hn Ht]].
  rewrite Forall_forall in H. exact (H n Hn t Ht).
Qed.

Lemma gentry_of_pentry e : pentry e -> gentry e.
Proof. intros [Hk Hg] t Ht. rewrite entry_refs_plainkey in Ht by assumption. now apply Hg. Qed.

Lemma gentry_of_fine k x : fine x -> gentry (k, x).
Proof. intros [Hg Hp] t Ht. cbn [fst snd] in Ht. rewrite entry_refs_plainnode in Ht by assumption. now apply Hg. Qed.

Lemma pentry_of_flat e : flat_entry e -> pentry e.
Proof. intros [Hk Hr]. split; [assumption|now apply good_nil]. Qed.

Lemma gentry_disc x :
  (forall l, mapping_targets x = Some l -> Forall ok l) -> (mapping_targets x = None -> good_node x) ->
  gentry (s "discriminator", x).
Proof.
  intros Hl Hg t Ht. cbn [fst snd] in Ht. unfold entry_refs in Ht.
  change (str_eqb (s "discriminator") (s "$ref")) with false in Ht.
  change (str_eqb (s "discriminator") (s "discriminator")) with true in Ht. cbv iota in Ht.
  destruct (mapping_targets x) as [l|] eqn:E.
  - specialize (Hl l eq_refl). rewrite Forall_forall in Hl. now apply Hl.
  - now apply (Hg eq_refl).
Qed.

(* an entry of a map that is itself not a `mapping` table *)
Definition mentry (e : str * ynode) : Prop := gentry e /\ str_eqb (fst e) (s "mapping") = false.
Lemma mentry_of_pentry e : pentry e -> mentry e.
Proof. intros H. split; [now apply gentry_of_pentry|apply key_plain_not_mapping, (proj1 H)]. Qed.
Lemma fine_map_gen kv : Forall mentry kv -> fine (YMap kv).
Proof.
  intros H. split.
  - apply good_map. eapply Forall_impl; [|exact H]. intros e He. exact (proj1 He).
  - apply plain_map. eapply Forall_impl; [|exact H]. intros e He. exact (proj2 He).
Qed.

(* a map all of whose keys are plain *)
Lemma fine_map_plain kv : Forall pentry kv -> fine (YMap kv).
Proof.
  intros H. split.
  - apply good_map. eapply Forall_impl; [|exact H]. intros e. apply gentry_of_pentry.
  - apply plain_map. eapply Forall_impl; [|exact H]. intros e [Hk _]. now apply key_plain_not_mapping.
Qed.

Lemma fine_map_flat kv : Forall flat_entry kv -> fine (YMap kv).
Proof. intros H. apply fine_map_plain. eapply Forall_impl; [|exact H]. intros e. apply pentry_of_flat. Qed.

Lemma refs_map_flat kv : Forall flat_entry kv -> refs_of (YMap kv) = [].
Proof.
  intros H. cbn [refs_of]. induction H as [|e kv [Hk Hr] _ IH]; [reflexivity|].
  cbn [flat_map]. rewrite entry_refs_plainkey by assumption. now rewrite Hr, IH.
Qed.

(* a map under arbitrary keys (property names, component names, paths) whose values are fine *)
Lemma good_map_anykey kv : Forall (fun e => fine (snd e)) kv -> good_node (YMap kv).
Proof.
  intros H. apply good_map. eapply Forall_impl; [|exact H]. intros [k x] Hx. now apply gentry_of_fine.
Qed.

End Good.

(* ---- ordered maps keep entries of their input ---------------------------------------------------- *)
Lemma omap_set_in {A} k (v : A) l e : In e (omap_set k v l) -> e = (k, v) \/ In e l.
Proof.
  induction l as [|[k' v'] r IH]; cbn [omap_set]; intros H.
  - destruct H as [<-|[]]. now left.
  - destruct (str_eqb k k').
    + destruct H as [<-|H]; [now left|right; now right].
    + destruct H as [<-|H]; [right; now left|]. destruct (IH H) as [->|H']; [now left|right; now right].
Qed.

Lemma omap_of_in {A} (l : list (str * A)) e : In e (omap_of l) -> In e l.
Proof.
  unfold omap_of.
  assert (G : forall acc, In e (fold_left (fun acc e => omap_set (fst e) (snd e) acc) l acc) -> In e acc \/ In e l).
  { induction l as [|[k v] r IH]; intros acc H; cbn [fold_left] in H; [now left|].
    apply IH in H as [H|H]; [|right; now right]. cbn [fst snd] in H.
    apply omap_set_in in H as [->|H]; [right; now left|now left]. }
  intros H. apply G in H as [[]|H]. exact H.
Qed.

(* ================================================================================================ *)
(*  2. Entry lists without references (Rules.v, types.go scalar branches)                             *)
(* ================================================================================================ *)
Ltac flat_tac :=
  repeat first
    [ apply Forall_nil
    | apply Forall_app; split
    | apply Forall_cons; [split; [reflexivity | first [reflexivity | apply refs_seq_map; intros; reflexivity]] |]
    | match goal with |- Forall _ (match ?x with _ => _ end) => destruct x end ].

Lemma base_entries_flat k b : Forall flat_entry (base_entries k b).
Proof. destruct k, b; cbn [base_entries]; flat_tac. Qed.
Lemma bytes_entries_flat f : Forall flat_entry (bytes_entries f).
Proof. unfold bytes_entries. flat_tac. Qed.
Lemma string_entries_flat r : Forall flat_entry (string_entries r).
Proof. unfold string_entries, oent. flat_tac. Qed.
Lemma numeric_entries_flat r : Forall flat_entry (numeric_entries r).
Proof. unfold numeric_entries, oent. flat_tac. Qed.
Lemma scalar_entries_flat k r : Forall flat_entry (scalar_entries k r).
Proof.
  destruct k; cbn [scalar_entries]; try apply Forall_nil;
    first [apply string_entries_flat | apply numeric_entries_flat].
Qed.
Lemma repeated_entries_flat r : Forall flat_entry (repeated_entries r).
Proof. unfold repeated_entries, oent. flat_tac. Qed.
Lemma map_entries_flat r : Forall flat_entry (map_entries r).
Proof. unfold map_entries, oent. flat_tac. Qed.
Lemma constraint_entries_flat k l m r : Forall flat_entry (constraint_entries k l m r).
Proof.
  unfold constraint_entries. apply Forall_app; split; [|apply Forall_app; split].
  - destruct (l || m); [apply Forall_nil|apply scalar_entries_flat].
  - destruct l; [apply repeated_entries_flat|apply Forall_nil].
  - destruct m; [apply map_entries_flat|apply Forall_nil].
Qed.
Lemma example_entries_flat exs : Forall flat_entry (example_entries exs).
Proof. unfold example_entries. flat_tac. Qed.

(* ================================================================================================ *)
(*  3. The schema builders                                                                            *)
(* ================================================================================================ *)
Section Builders.
Variables (sc : schema) (sd : side).
Variable cs : list (str * ynode).       (* the components of the document *)
Variable V : list str.                   (* full names of messages that have a component ... *)
Hypothesis HV : forall x, In x V -> In (short_name x) (map fst cs).
(* ... closed under "is the type of a field of" *)
Hypothesis Hclosed : forall x m, In x V -> lookup_message sc x = Some m -> incl (field_targets m) V.

Definition ok (t : str) : Prop := ref_resolves cs t = true.
Definition kind_ok (k : kind) : Prop := match k with KMessage tn => In tn V | _ => True end.

Lemma ok_name n : In n (map fst cs) -> ok (ref_prefix ++ n).
Proof. apply ref_resolves_name. Qed.
Lemma ok_short x : In x V -> ok (ref_prefix ++ short_name x).
Proof. intros H. apply ok_name, HV, H. Qed.

Lemma ref_to_fine x : ok (ref_prefix ++ x) -> fine ok (ref_to x).
Proof.
  intros H. split.
  - intros t Ht. change (refs_of (ref_to x)) with [ref_prefix ++ x] in Ht. destruct Ht as [<-|[]]. exact H.
  - split; [discriminate|reflexivity].
Qed.

Lemma field_kind_ok m f : incl (field_targets m) V -> In f (m_fields m) -> kind_ok (f_kind f).
Proof.
  intros Hm Hf. unfold kind_ok. destruct (f_kind f) as [| | | | | | | | | | | | | | |tn|tn] eqn:Ek; try exact I.
  apply Hm. unfold field_targets. apply in_flat_map. exists f. split; [assumption|]. rewrite Ek. now left.
Qed.

Lemma lookup_fields_ok tn m f : In tn V -> lookup_message sc tn = Some m -> In f (m_fields m) -> kind_ok (f_kind f).
Proof. intros Ht Hl Hf. eapply field_kind_ok; [|exact Hf]. exact (Hclosed tn m Ht Hl). Qed.

(* ---- types.go convertScalarField ------------------------------------------------------------- *)
Lemma enum_schema_fine f tn : fine ok (enum_schema sc f tn).
Proof.
  unfold enum_schema. destruct (find_enum (all_enums sc) tn) as [e|].
  - destruct (f_enumenc f) as [[| |]|]; apply fine_map_flat; flat_tac.
  - apply fine_map_flat; flat_tac.
Qed.
Lemma timestamp_schema_fine f : fine ok (timestamp_schema f).
Proof. unfold timestamp_schema. destruct (f_tsfmt f) as [[| | | |]|]; apply fine_map_flat; flat_tac. Qed.

Lemma convert_scalar_fine mn f : kind_ok (f_kind f) -> fine ok (convert_scalar sc sd mn f).
Proof.
  intros Hk. unfold convert_scalar.
  destruct (f_kind f) as [| | | | | | | | | | | | | | |tn|tn] eqn:Ek;
    try (apply fine_map_flat; apply Forall_app; split;
         [first [apply bytes_entries_flat|apply base_entries_flat]
         |apply Forall_app; split; [apply constraint_entries_flat|apply example_entries_flat]]).
  - apply enum_schema_fine.
  - destruct (is_timestamp (KMessage tn)); [apply timestamp_schema_fine|].
    apply ref_to_fine, ok_short. exact Hk.
Qed.

Lemma array_of_fine x : fine ok x -> fine ok (array_of x).
Proof.
  intros [Hx _]. unfold array_of. apply fine_map_plain.
  apply Forall_cons; [apply pentry_of_flat; split; reflexivity|].
  apply Forall_cons; [split; [reflexivity|exact Hx]|apply Forall_nil].
Qed.

(* ---- types.go getMapValueSchema --------------------------------------------------------------- *)
Lemma unwrap_field_in m uf : find_unwrap_field m = Some uf -> In uf (m_fields m).
Proof. unfold find_unwrap_field. intros H. now apply find_some in H as [H _]. Qed.

Lemma map_value_schema_fine f : kind_ok (f_kind f) -> fine ok (map_value_schema sc sd f).
Proof.
  intros Hk. unfold map_value_schema.
  assert (Hp : fine ok (convert_scalar sc sd [] (bare_value_field f))) by (apply convert_scalar_fine; exact Hk).
  destruct (f_kind f) as [| | | | | | | | | | | | | | |tn|tn] eqn:Ek; try exact Hp.
  destruct (lookup_message sc tn) as [vm|] eqn:El; [|exact Hp].
  destruct (find_unwrap_field vm) as [uf|] eqn:Eu; [|exact Hp].
  apply array_of_fine, convert_scalar_fine.
  eapply lookup_fields_ok; [exact Hk|exact El|]. now apply unwrap_field_in.
Qed.

(* ---- types.go makeNullableSchema -------------------------------------------------------------- *)
Lemma add_null_type_fine n : fine ok n -> fine ok (add_null_type n).
Proof.
  intros [Hg [Hs Hm]]. destruct n as [x|x|x|d|b| |l|kv]; try (split; [assumption|split; assumption]).
  cbn [add_null_type].
  set (g := fun e : str * ynode =>
              if str_eqb (fst e) (s "type")
              then (fst e, match snd e with
                           | YStr t => YSeq [YGoStr t; YGoStr (s "null")]
                           | YSeq l => YSeq (l ++ [YGoStr (s "null")])
                           | x => x end)
              else e).
  split; [|split; [discriminate|]].
  - intros t Ht. apply Hg. cbn [refs_of] in Ht |- *. apply in_flat_map in Ht as [e' [He' Ht]].
    apply in_map_iff in He' as [e [<- He]]. apply in_flat_map. exists e. split; [assumption|].
    unfold g in Ht. destruct (str_eqb (fst e) (s "type")) eqn:Et; [|exact Ht].
    apply str_eqb_eq in Et. destruct e as [k x]. cbn [fst snd] in *. subst k.
    rewrite entry_refs_plainkey in Ht |- * by reflexivity.
    destruct x as [x|x|x|d|b| |l|kv']; try exact Ht.
    cbn [refs_of] in Ht |- *. rewrite flat_map_app in Ht. cbn [refs_of flat_map app] in Ht. now rewrite app_nil_r in Ht.
  - unfold mapping_targets in Hm |- *.
    assert (E : find (fun e => str_eqb (fst e) (s "mapping")) (map g kv) = find (fun e => str_eqb (fst e) (s "mapping")) kv).
    { clear. induction kv as [|e kv IH]; [reflexivity|]. cbn [map find].
      assert (Hf : fst (g e) = fst e) by (unfold g; destruct (str_eqb (fst e) (s "type")); reflexivity).
      rewrite Hf. destruct (str_eqb (fst e) (s "mapping")) eqn:Em; [|exact IH].
      apply str_eqb_eq in Em. unfold g. rewrite Em. reflexivity. }
    rewrite E. exact Hm.
Qed.

Lemma add_null_enum_fine n : fine ok n -> fine ok (add_null_enum n).
Proof.
  intros [Hg [Hs Hm]]. destruct n as [x|x|x|d|b| |l|kv]; try (split; [assumption|split; assumption]).
  cbn [add_null_enum].
  set (g := fun e : str * ynode =>
              if str_eqb (fst e) (s "enum")
              then (fst e, match snd e with
                           | YSeq (a :: l) => YSeq ((a :: l) ++ [YNull])
                           | x => x end)
              else e).
  split; [|split; [discriminate|]].
  - intros t Ht. apply Hg. cbn [refs_of] in Ht |- *. apply in_flat_map in Ht as [e' [He' Ht]].
    apply in_map_iff in He' as [e [<- He]]. apply in_flat_map. exists e. split; [assumption|].
    unfold g in Ht. destruct (str_eqb (fst e) (s "enum")) eqn:Et; [|exact Ht].
    apply str_eqb_eq in Et. destruct e as [k x]. cbn [fst snd] in *. subst k.
    rewrite entry_refs_plainkey in Ht |- * by reflexivity.
    destruct x as [x|x|x|d|b| |l|kv']; try exact Ht.
    destruct l as [|a l]; [exact Ht|].
    cbn [refs_of] in Ht |- *. rewrite flat_map_app in Ht. cbn [refs_of flat_map app] in Ht. now rewrite app_nil_r in Ht.
  - unfold mapping_targets in Hm |- *.
    assert (E : find (fun e => str_eqb (fst e) (s "mapping")) (map g kv) = find (fun e => str_eqb (fst e) (s "mapping")) kv).
    { clear. induction kv as [|e kv IH]; [reflexivity|]. cbn [map find].
      assert (Hf : fst (g e) = fst e) by (unfold g; destruct (str_eqb (fst e) (s "enum")); reflexivity).
      rewrite Hf. destruct (str_eqb (fst e) (s "mapping")) eqn:Em; [|exact IH].
      apply str_eqb_eq in Em. unfold g. rewrite Em. reflexivity. }
    rewrite E. exact Hm.
Qed.

Lemma make_nullable_fine n : fine ok n -> fine ok (make_nullable n).
Proof. intros H. unfold make_nullable. now apply add_null_enum_fine, add_null_type_fine. Qed.

(* ---- types.go convertField -------------------------------------------------------------------- *)
Lemma convert_field_fine mn f : kind_ok (f_kind f) -> fine ok (convert_field sc sd mn f).
Proof.
  intros Hk. pose proof (convert_scalar_fine mn f Hk) as Hb.
  assert (Hsing : fine ok (match f_nullable f with
                           | Some true => make_nullable (convert_scalar sc sd mn f)
                           | _ => if is_msg_kind (f_kind f) && match f_empty f with Some EBNull => true | _ => false end
                                  then YMap [(s "oneOf", YSeq [convert_scalar sc sd mn f; YMap [(s "type", ystr "null")]])]
                                  else convert_scalar sc sd mn f
                           end)).
  { assert (Hone : fine ok (if is_msg_kind (f_kind f) && match f_empty f with Some EBNull => true | _ => false end
                            then YMap [(s "oneOf", YSeq [convert_scalar sc sd mn f; YMap [(s "type", ystr "null")]])]
                            else convert_scalar sc sd mn f)).
    { destruct (is_msg_kind (f_kind f) && match f_empty f with Some EBNull => true | _ => false end); [|exact Hb].
      apply fine_map_plain. apply Forall_cons; [|apply Forall_nil]. split; [reflexivity|].
      apply good_seq. apply Forall_cons; [exact (proj1 Hb)|]. apply Forall_cons; [|apply Forall_nil].
      apply good_nil. reflexivity. }
    destruct (f_nullable f) as [[|]|]; [now apply make_nullable_fine|exact Hone|exact Hone]. }
  unfold convert_field. destruct (f_card f) as [| | |key].
  - exact Hsing.
  - exact Hsing.
  - apply fine_map_plain. apply Forall_app; split.
    + apply Forall_cons; [apply pentry_of_flat; split; reflexivity|].
      apply Forall_cons; [split; [reflexivity|exact (proj1 Hb)]|apply Forall_nil].
    + eapply Forall_impl; [|apply constraint_entries_flat]. intros e. apply pentry_of_flat.
  - apply fine_map_plain. apply Forall_app; split.
    + apply Forall_cons; [apply pentry_of_flat; split; reflexivity|].
      apply Forall_cons; [split; [reflexivity|exact (proj1 (map_value_schema_fine f Hk))]|apply Forall_nil].
    + eapply Forall_impl; [|apply constraint_entries_flat]. intros e. apply pentry_of_flat.
Qed.


(* ---- object_of ---------------------------------------------------------------------------------- *)
Lemma props_fine (kf : field -> str) mn fs : (forall f, In f fs -> kind_ok (f_kind f)) ->
  Forall (fun e => fine ok (snd e)) (map (fun f => (kf f, convert_field sc sd mn f)) fs).
Proof.
  intros H. apply Forall_forall. intros e He. apply in_map_iff in He as [f [<- Hf]]. cbn [snd].
  apply convert_field_fine, H, Hf.
Qed.

Lemma object_of_entries props req : Forall (fun e => fine ok (snd e)) props ->
  exists kv, object_of props req = YMap kv /\ Forall (pentry ok) kv.
Proof.
  intros H. unfold object_of. eexists. split; [reflexivity|].
  apply Forall_app; split; [|apply Forall_app; split].
  - apply Forall_cons; [apply pentry_of_flat; split; reflexivity|apply Forall_nil].
  - destruct props as [|p ps] eqn:E; [apply Forall_nil|]. rewrite <- E in *.
    apply Forall_cons; [|apply Forall_nil]. split; [reflexivity|]. cbn [snd].
    apply good_map_anykey. apply Forall_forall. intros e He. apply omap_of_in in He.
    rewrite Forall_forall in H. now apply H.
  - destruct req as [|r rs]; [apply Forall_nil|]. apply Forall_cons; [|apply Forall_nil].
    apply pentry_of_flat. split; [reflexivity|]. apply refs_seq_map. reflexivity.
Qed.

Lemma object_of_fine props req : Forall (fun e => fine ok (snd e)) props -> fine ok (object_of props req).
Proof. intros H. destruct (object_of_entries props req H) as [kv [-> Hkv]]. now apply fine_map_plain. Qed.

Lemma opt_seq_forall (k : str) (l : list ynode) :
  key_plain k = true -> Forall (good_node ok) l -> Forall (pentry ok) (match l with [] => [] | _ => [(k, YSeq l)] end).
Proof.
  intros Hk Hl. destruct l as [|a l]; [apply Forall_nil|].
  apply Forall_cons; [|apply Forall_nil]. split; [exact Hk|]. now apply good_seq.
Qed.

(* ---- plain object (generator.go buildObjectSchema, default branch) -------------------------------- *)
Lemma plain_object_schema_fine m : incl (field_targets m) V -> fine ok (plain_object_schema sc sd m).
Proof.
  intros Hm. unfold plain_object_schema. apply object_of_fine, props_fine.
  intros f Hf. now apply (field_kind_ok m).
Qed.

(* ---- root unwrap (generator.go:553-663) ---------------------------------------------------------- *)
Lemma root_unwrap_field_in m f : root_unwrap_field m = Some f -> In f (m_fields m).
Proof.
  unfold root_unwrap_field. destruct (m_fields m) as [|a [|b r]]; try discriminate.
  destruct (f_unwrap a && (is_map a || is_list a)); [|discriminate]. intros [= <-]. now left.
Qed.

Lemma root_unwrap_schema_fine m f : incl (field_targets m) V -> In f (m_fields m) ->
  fine ok (root_unwrap_schema sc sd m f).
Proof.
  intros Hm Hf. pose proof (field_kind_ok m f Hm Hf) as Hk. unfold root_unwrap_schema.
  destruct (is_map f); [|now apply array_of_fine, convert_scalar_fine].
  apply fine_map_plain. apply Forall_cons; [apply pentry_of_flat; split; reflexivity|].
  apply Forall_cons; [|apply Forall_nil]. split; [reflexivity|]. cbn [snd].
  assert (Hp : good_node ok (convert_scalar sc sd [] (bare_value_field f))) by (apply convert_scalar_fine; exact Hk).
  destruct (f_kind f) as [| | | | | | | | | | | | | | |tn|tn] eqn:Ek; try exact Hp.
  assert (Hr : good_node ok (ref_to (short_name tn))) by (apply ref_to_fine, ok_short; exact Hk).
  destruct (lookup_message sc tn) as [vm|] eqn:El; [|exact Hr].
  destruct (find_unwrap_field vm) as [uf|] eqn:Eu; [|exact Hr].
  apply array_of_fine, convert_scalar_fine.
  eapply lookup_fields_ok; [exact Hk|exact El|]. now apply unwrap_field_in.
Qed.

(* ---- flatten (generator.go:479-551) -------------------------------------------------------------- *)
Lemma flattened_object_schema_fine m : incl (field_targets m) V -> fine ok (flattened_object_schema sc sd m).
Proof.
  intros Hm. cbv beta zeta delta [flattened_object_schema].
  match goal with |- fine ok (YMap (match ?l with _ => _ end)) =>
    assert (Hl : Forall (good_node ok) l); [|destruct l as [|a l']] end.
  - apply Forall_app; split.
    + match goal with |- Forall _ (match ?p with _ => _ end) => destruct p as [|p0 ps] eqn:Ep end; [apply Forall_nil|].
      rewrite <- Ep. apply Forall_cons; [|apply Forall_nil].
      apply object_of_fine, props_fine. intros f Hf. apply filter_In in Hf as [Hf _]. now apply (field_kind_ok m).
    + apply Forall_forall. intros x Hx. apply in_flat_map in Hx as [f [Hf Hx]].
      destruct (is_flatten_field f); [|destruct Hx].
      pose proof (field_kind_ok m f Hm Hf) as Hk.
      destruct (f_kind f) as [| | | | | | | | | | | | | | |tn|tn] eqn:Ek; try (destruct Hx; fail).
      destruct (lookup_message sc tn) as [cm|] eqn:El; destruct Hx as [<-|[]].
      * apply object_of_fine, props_fine. intros c Hc. now apply (lookup_fields_ok tn cm).
      * apply object_of_fine. apply Forall_nil.
  - apply fine_map_plain. apply Forall_nil.
  - apply fine_map_plain. apply Forall_cons; [|apply Forall_nil]. split; [reflexivity|]. now apply good_seq.
Qed.

(* ---- discriminator tables ------------------------------------------------------------------------- *)
Lemma disc_node_targets p l :
  mapping_targets (YMap [(s "propertyName", p); (s "mapping", mapping_node l)]) =
  Some (flat_map (fun e => match snd e with YStr t => [t] | _ => [] end)
                 (omap_of (map (fun e => (fst e, YStr (snd e))) l))).
Proof. reflexivity. Qed.

Lemma mapping_node_targets (l : list (str * str)) t :
  In t (flat_map (fun e : str * ynode => match snd e with YStr t => [t] | _ => [] end)
                 (omap_of (map (fun e => (fst e, YStr (snd e))) l))) -> In t (map snd l).
Proof.
  intros H. apply in_flat_map in H as [e [He Ht]]. apply omap_of_in in He.
  apply in_map_iff in He as [e0 [<- He0]]. cbn [snd] in Ht. destruct Ht as [<-|[]]. now apply in_map.
Qed.

Lemma gentry_disc_mapping p (l : list (str * str)) : Forall ok (map snd l) ->
  gentry ok (s "discriminator", YMap [(s "propertyName", p); (s "mapping", mapping_node l)]).
Proof.
  intros H. apply gentry_disc.
  - intros l' Hl. rewrite disc_node_targets in Hl. injection Hl as <-.
    apply Forall_forall. intros t Ht. apply mapping_node_targets in Ht.
    rewrite Forall_forall in H. now apply H.
  - intros Hn. rewrite disc_node_targets in Hn. discriminate.
Qed.

(* ---- flattened discriminated oneof (generator.go:222-352) ---------------------------------------- *)
Lemma variant_in_fields m o v : In v (variants m o) -> In v (m_fields m).
Proof. unfold variants. intros H. now apply filter_In in H as [H _]. Qed.

Lemma flattened_variant_sets_fine m o : incl (field_targets m) V ->
  forall e, In e (flattened_variant_sets sc sd m o) -> fine ok (snd e).
Proof.
  intros Hm e He. unfold flattened_variant_sets in He. apply in_map_iff in He as [v [<- Hv]]. cbn [snd].
  apply object_of_fine. apply Forall_app; split; [|apply Forall_app; split].
  - apply props_fine. intros f Hf. apply filter_In in Hf as [Hf _]. now apply (field_kind_ok m).
  - apply Forall_cons; [|apply Forall_nil]. cbn [snd]. apply fine_map_flat. flat_tac.
  - destruct (fields_of_kind sc (f_kind v)) as [[cn cfs]|] eqn:Ef; [|apply Forall_nil].
    unfold fields_of_kind in Ef.
    pose proof (field_kind_ok m v Hm (variant_in_fields m o v Hv)) as Hk.
    destruct (f_kind v) as [| | | | | | | | | | | | | | |tn|tn] eqn:Ek; try discriminate.
    destruct (lookup_message sc tn) as [cm|] eqn:El; [|discriminate]. injection Ef as <- <-.
    apply props_fine. intros c Hc. now apply (lookup_fields_ok tn cm).
Qed.

Lemma flattened_oneof_schema_fine m :
  (forall o v, In o (filter o_flatten (disc_oneofs m)) -> In v (variants m o) ->
               ok (ref_prefix ++ variant_schema_name (short_name (m_name m)) v)) ->
  fine ok (flattened_oneof_schema m).
Proof.
  intros Hvar. cbv beta zeta delta [flattened_oneof_schema].
  set (fos := filter o_flatten (disc_oneofs m)) in *.
  apply fine_map_gen. apply Forall_app; split.
  - eapply Forall_impl; [intros e; apply mentry_of_pentry|].
    match goal with |- Forall _ (match ?l with _ => _ end) =>
      assert (Hl : Forall (good_node ok) l); [|destruct l as [|a l']] end.
    + apply Forall_forall. intros x Hx. apply in_flat_map in Hx as [o [Ho Hx]].
      apply in_map_iff in Hx as [v [<- Hv]]. apply ref_to_fine. now apply (Hvar o v).
    + apply Forall_nil.
    + apply Forall_cons; [|apply Forall_nil]. split; [reflexivity|]. now apply good_seq.
  - destruct fos as [|o fos'] eqn:Efos; [apply Forall_nil|].
    apply Forall_cons; [|apply Forall_nil]. split; [|reflexivity].
    apply gentry_disc_mapping.
    apply Forall_forall. intros t Ht. rewrite map_map in Ht. cbn [snd] in Ht.
    apply in_map_iff in Ht as [v [<- Hv]]. apply (Hvar o v); [now left|exact Hv].
Qed.

(* ---- nested discriminated oneof (generator.go:370-477) ------------------------------------------- *)
Lemma nested_oneof_schema_fine m : incl (field_targets m) V -> fine ok (nested_oneof_schema sc sd m).
Proof.
  intros Hm. cbv beta zeta delta [nested_oneof_schema].
  match goal with |- context [object_of ?p ?r] =>
    destruct (object_of_entries p r) as [base [Eb Hbase]]; [|rewrite Eb] end.
  { apply Forall_app; split.
    - apply props_fine. intros f Hf. apply filter_In in Hf as [Hf _]. now apply (field_kind_ok m).
    - apply Forall_forall. intros e He. apply in_map_iff in He as [o [<- Ho]]. cbn [snd].
      apply fine_map_flat. flat_tac. }
  assert (Hvk : forall o v, In v (variants m o) -> kind_ok (f_kind v)).
  { intros o v Hv. exact (field_kind_ok m v Hm (variant_in_fields m o v Hv)). }
  apply fine_map_gen. apply Forall_app; split; [|apply Forall_app; split].
  - eapply Forall_impl; [intros e; apply mentry_of_pentry|exact Hbase].
  - eapply Forall_impl; [intros e; apply mentry_of_pentry|].
    match goal with |- Forall _ (match ?l with _ => _ end) =>
      assert (Hl : Forall (good_node ok) l); [|destruct l as [|a l']] end.
    + apply Forall_forall. intros x Hx. apply in_flat_map in Hx as [o [Ho Hx]].
      apply in_map_iff in Hx as [v [<- Hv]]. apply object_of_fine.
      apply Forall_cons; [|apply Forall_nil]. cbn [snd]. specialize (Hvk o v Hv).
      destruct (f_kind v) as [| | | | | | | | | | | | | | |tn|tn] eqn:Ek;
        try (apply convert_scalar_fine; rewrite Ek; exact I).
      apply ref_to_fine, ok_short. exact Hvk.
    + apply Forall_nil.
    + apply Forall_cons; [|apply Forall_nil]. split; [reflexivity|]. now apply good_seq.
  - destruct (disc_oneofs m) as [|o0 os'] eqn:Eos; [apply Forall_nil|].
    set (o := last (o0 :: os') _).
    apply Forall_cons; [|apply Forall_nil]. split; [|reflexivity].
    destruct (filter (fun v => is_msg_kind (f_kind v)) (variants m o)) as [|v0 mv] eqn:Emv.
    + apply gentry_disc; [intros l Hl; discriminate|]. intros _. apply good_nil. reflexivity.
    + match goal with |- gentry _ (_, YMap ([?a] ++ [?b])) => change ([a] ++ [b]) with [a; b] end.
      apply gentry_disc_mapping.
      apply Forall_forall. intros t Ht. rewrite map_map in Ht. cbn [snd] in Ht.
      apply in_map_iff in Ht as [v [<- Hv]]. rewrite <- Emv in Hv. apply filter_In in Hv as [Hv Hmk].
      specialize (Hvk o v Hv).
      destruct (f_kind v) as [| | | | | | | | | | | | | | |tn|tn] eqn:Ek; try discriminate.
      apply ok_short. exact Hvk.
Qed.

(* ---- generator.go:175-220 buildObjectSchema: every component a message registers ------------------ *)
Lemma variant_name_in m o v : In v (variants m o) ->
  In (variant_schema_name (short_name (m_name m)) v) (map fst (flattened_variant_sets sc sd m o)).
Proof.
  intros Hv. unfold flattened_variant_sets. rewrite map_map. apply in_map_iff. exists v. split; [reflexivity|exact Hv].
Qed.

Theorem object_schema_sets_fine M :
  incl (field_targets M) V ->
  incl (map fst (object_schema_sets sc sd M)) (map fst cs) ->
  forall e, In e (object_schema_sets sc sd M) -> fine ok (snd e).
Proof.
  intros Hm Hnames e He. unfold object_schema_sets in *.
  destruct (root_unwrap_field M) as [f|] eqn:Er.
  { destruct He as [<-|[]]. cbn [snd]. apply root_unwrap_schema_fine; [exact Hm|now apply root_unwrap_field_in]. }
  destruct (has_flatten_fields M).
  { destruct He as [<-|[]]. cbn [snd]. now apply flattened_object_schema_fine. }
  destruct (has_disc_oneof M).
  2:{ destruct He as [<-|[]]. cbn [snd]. now apply plain_object_schema_fine. }
  destruct (has_flattened_oneof M).
  2:{ destruct He as [<-|[]]. cbn [snd]. now apply nested_oneof_schema_fine. }
  apply in_app_or in He as [He|[<-|[]]].
  - apply in_flat_map in He as [o [Ho He]]. now apply (flattened_variant_sets_fine M o).
  - cbn [snd]. apply flattened_oneof_schema_fine. intros o v Ho Hv. apply ok_name, Hnames.
    rewrite map_app. apply in_or_app. left.
    pose proof (variant_name_in M o v Hv) as Hn. apply in_map_iff in Hn as [e0 [E0 He0]].
    apply in_map_iff. exists e0. split; [exact E0|]. apply in_flat_map. exists o. split; assumption.
Qed.

End Builders.

(* ================================================================================================ *)
(*  4. The collection: provenance of every registered component, closure of the visited set           *)
(* ================================================================================================ *)
Section Collect.
Variables (sc : schema) (sd : side).

Notation oss := (object_schema_sets sc sd).

(* D is P or a message declared (transitively) inside P *)
Inductive desc (P : message) : message -> Prop :=
  | desc_refl : desc P P
  | desc_step D C : desc P D -> In C (declared_nested sc D) -> desc P C.

Lemma desc_child P C D : In C (declared_nested sc P) -> desc C D -> desc P D.
Proof.
  intros HC H. induction H as [|D E _ IH HE].
  - eapply desc_step; [apply desc_refl|exact HC].
  - eapply desc_step; [exact IH|exact HE].
Qed.

(* the messages whose object schemas processMessage registers for P: descendants and their map entries *)
Definition fam (P M : message) : Prop := exists D, desc P D /\ (M = D \/ In M (entry_messages D)).

Lemma process_message_prov n : forall m e, In e (process_message sc sd n m) ->
  exists M, fam m M /\ In e (oss M) /\ incl (oss M) (process_message sc sd n m).
Proof.
  induction n as [|n IH]; intros m e He; [destruct He|].
  cbn [process_message] in *. apply in_app_or in He as [He|He]; [|apply in_app_or in He as [He|He]].
  - exists m. split; [exists m; split; [apply desc_refl|now left]|]. split; [exact He|].
    intros x Hx. apply in_or_app. now left.
  - apply in_flat_map in He as [em [Hem He]]. exists em.
    split; [exists m; split; [apply desc_refl|now right]|]. split; [exact He|].
    intros x Hx. apply in_or_app. right. apply in_or_app. left. apply in_flat_map. exists em. now split.
  - apply in_flat_map in He as [c [Hc He]]. destruct (IH c e He) as [M [[D [HD HM]] [HeM Hincl]]].
    exists M. split; [exists D; split; [now apply (desc_child m c D)|exact HM]|]. split; [exact HeM|].
    intros x Hx. apply in_or_app. right. apply in_or_app. right. apply in_flat_map. exists c. split; [exact Hc|now apply Hincl].
Qed.

(* state invariant *)
Definition J (st : cstate) : Prop :=
  (forall x, In x (cs_visited st) -> lookup_message sc x = None -> In x (cs_unknown st)) /\
  (forall e, In e (cs_sets st) ->
     exists P M, In (m_name P) (cs_visited st) /\ lookup_message sc (m_name P) = Some P /\ fam P M /\
                 In e (oss M) /\ incl (oss M) (cs_sets st)) /\
  (forall x m, In x (cs_visited st) -> lookup_message sc x = Some m -> incl (oss m) (cs_sets st)).

(* x's field types and nested declarations have been visited *)
Definition closed2 (b : cstate) (x : str) : Prop :=
  forall m, lookup_message sc x = Some m ->
    incl (field_targets m) (cs_visited b) /\ (forall c, In c (declared_nested sc m) -> In (m_name c) (cs_visited b)).

Definition G (a b : cstate) : Prop :=
  incl (cs_visited a) (cs_visited b) /\ incl (cs_sets a) (cs_sets b) /\
  (forall x, In x (cs_visited b) -> ~ In x (cs_visited a) -> closed2 b x).

Lemma closed2_mono a b x : incl (cs_visited a) (cs_visited b) -> closed2 a x -> closed2 b x.
Proof.
  intros Hv H m Hm. destruct (H m Hm) as [H1 H2]. split.
  - intros t Ht. apply Hv, H1, Ht.
  - intros c Hc. apply Hv, H2, Hc.
Qed.

Lemma G_refl a : G a a.
Proof. split; [apply incl_refl|split; [apply incl_refl|]]. intros x H1 H2. contradiction. Qed.

Lemma G_trans a b c : G a b -> G b c -> G a c.
Proof.
  intros [V1 [S1 C1]] [V2 [S2 C2]]. split; [|split].
  - eapply incl_tran; eassumption.
  - eapply incl_tran; eassumption.
  - intros x Hx Hnx. destruct (in_dec (list_eq_dec Ascii.ascii_dec) x (cs_visited b)) as [Hb|Hb].
    + apply (closed2_mono b c); [assumption|]. apply (C1 x Hb Hnx).
    + apply (C2 x Hx Hb).
Qed.

(* a fold of partial steps *)
Lemma fold_opt_none {X} (step : option cstate -> X -> option cstate) :
  (forall x, step None x = None) -> forall xs, fold_left step xs None = None.
Proof. intros H xs. induction xs as [|x xs IH]; [reflexivity|]. cbn [fold_left]. now rewrite H. Qed.

Lemma fold_opt {X} (step : option cstate -> X -> option cstate) (Pre : cstate -> Prop) (Post : X -> cstate -> Prop) :
  (forall x, step None x = None) ->
  (forall x c b, Post x c -> G c b -> Post x b) ->
  (forall a b, Pre a -> G a b -> J b -> Pre b) ->
  forall xs,
  (forall x a c, In x xs -> step (Some a) x = Some c -> Pre a -> J a -> J c /\ G a c /\ Post x c) ->
  forall a b, fold_left step xs (Some a) = Some b -> Pre a -> J a ->
  J b /\ G a b /\ forall x, In x xs -> Post x b.
Proof.
  intros Hnone Hmono Hpre xs. induction xs as [|x xs IH]; intros Hstep a b Hab Ha HJ.
  - injection Hab as <-. split; [exact HJ|]. split; [apply G_refl|intros x []].
  - cbn [fold_left] in Hab. destruct (step (Some a) x) as [c|] eqn:Ec.
    2:{ rewrite (fold_opt_none step Hnone) in Hab. discriminate. }
    destruct (Hstep x a c (or_introl eq_refl) Ec Ha HJ) as [Jc [Gac Px]].
    assert (Hc : Pre c) by (apply (Hpre a c); assumption).
    destruct (IH (fun y a' c' Hy => Hstep y a' c' (or_intror Hy)) c b Hab Hc Jc) as [Jb [Gcb Pxs]].
    split; [exact Jb|]. split; [eapply G_trans; eassumption|].
    intros y [<-|Hy]; [now apply (Hmono _ c b)|now apply Pxs].
Qed.

Lemma J_add_sets a l :
  J a ->
  (forall e, In e l -> exists P M, In (m_name P) (cs_visited a) /\ lookup_message sc (m_name P) = Some P /\ fam P M /\
                                   In e (oss M) /\ incl (oss M) (cs_sets a ++ l)) ->
  J {| cs_visited := cs_visited a; cs_sets := cs_sets a ++ l; cs_unknown := cs_unknown a |}.
Proof.
  intros [J1 [J3 J4]] Hl. split; [exact J1|split]; cbn [cs_visited cs_sets cs_unknown].
  - intros e He. apply in_app_or in He as [He|He].
    + destruct (J3 e He) as [P [M [H1 [H2 [H3 [H4 H5]]]]]]. exists P, M. repeat split; try assumption.
      intros x Hx. apply in_or_app. left. now apply H5.
    + exact (Hl e He).
  - intros x m Hx Hm y Hy. apply in_or_app. left. exact (J4 x m Hx Hm y Hy).
Qed.

Theorem collect_inv f : forall st fq st', collect sc sd f st fq = Some st' -> J st ->
  J st' /\ G st st' /\ In fq (cs_visited st').
Proof.
  induction f as [|f IH]; intros st fq st' H HJ; [discriminate|].
  rewrite collect_S in H.
  destruct (mem_str fq (cs_visited st)) eqn:Ev.
  { injection H as <-. split; [exact HJ|]. split; [apply G_refl|now apply mem_str_In]. }
  assert (Hnv : ~ In fq (cs_visited st)) by (intros Hin; apply mem_str_In in Hin; congruence).
  destruct (lookup_message sc fq) as [m|] eqn:El.
  2:{ injection H as <-. destruct HJ as [J1 [J3 J4]]. split; [|split; [|now left]].
      - split; [|split]; cbn [cs_visited cs_sets cs_unknown].
        + intros x [<-|Hx] Hl; [now left|right; now apply J1].
        + intros e He. destruct (J3 e He) as [P [M [H1 [H2 [H3 [H4 H5]]]]]]. exists P, M.
          repeat split; try assumption. now right.
        + intros x m [<-|Hx] Hm; [congruence|]. exact (J4 x m Hx Hm).
      - split; [|split]; cbn [cs_visited cs_sets].
        + intros x Hx. now right.
        + apply incl_refl.
        + intros x [<-|Hx] Hnx; [|contradiction]. intros m Hm. congruence. }
  pose proof (lookup_name sc fq m El) as Hname.
  set (N := S (List.length (all_messages sc))) in H.
  set (st1 := {| cs_visited := fq :: cs_visited st;
                 cs_sets := cs_sets st ++ process_message sc sd N m;
                 cs_unknown := cs_unknown st |}) in H.
  (* the state after registering m's components *)
  assert (J1st : J st1).
  { destruct HJ as [J1 [J3 J4]]. split; [|split]; cbn [st1 cs_visited cs_sets cs_unknown].
    - intros x [<-|Hx] Hl; [congruence|now apply J1].
    - intros e He. apply in_app_or in He as [He|He].
      + destruct (J3 e He) as [P [M [H1 [H2 [H3 [H4 H5]]]]]]. exists P, M. repeat split; try assumption.
        * now right.
        * intros x Hx. apply in_or_app. left. now apply H5.
      + destruct (process_message_prov N m e He) as [M [HM [HeM Hincl]]]. exists m, M.
        rewrite Hname. repeat split; try assumption; [now left|].
        intros x Hx. apply in_or_app. right. now apply Hincl.
    - intros x m' [<-|Hx] Hm' y Hy.
      + assert (m' = m) by congruence. subst m'. apply in_or_app. right. unfold N. cbn [process_message].
        apply in_or_app. now left.
      + apply in_or_app. left. exact (J4 x m' Hx Hm' y Hy). }
  assert (G01 : incl (cs_visited st) (cs_visited st1) /\ incl (cs_sets st) (cs_sets st1)).
  { split; cbn [st1 cs_visited cs_sets]; intros x Hx; [now right|apply in_or_app; now left]. }
  (* the fields *)
  destruct (fold_left (step_field sc sd f m) (m_fields m) (Some st1)) as [st2|] eqn:E2.
  2:{ rewrite (fold_opt_none (step_msg sc sd f)) in H by reflexivity. discriminate. }
  destruct (fold_opt (step_field sc sd f m) (fun a => In fq (cs_visited a))
              (fun fd b => forall tn, f_kind fd = KMessage tn -> In tn (cs_visited b))) with (xs := m_fields m) (a := st1) (b := st2)
    as [J2 [G12 T2]]; try assumption.
  { reflexivity. }
  { intros fd c b Hc [Vcb _] tn Hk. apply Vcb. now apply Hc. }
  { intros a b Ha [Vab _] _. now apply Vab. }
  { intros fd a c Hfd Hstep Hfq Ja. unfold step_field in Hstep.
    set (a' := if is_map fd then {| cs_visited := cs_visited a; cs_sets := cs_sets a ++ oss (entry_message m fd); cs_unknown := cs_unknown a |} else a) in Hstep.
    assert (Ha' : J a' /\ G a a').
    { unfold a'. destruct (is_map fd) eqn:Emap; [|split; [exact Ja|apply G_refl]]. split.
      - apply J_add_sets; [exact Ja|]. intros e He. exists m, (entry_message m fd). rewrite Hname.
        repeat split; try assumption.
        + exists m. split; [apply desc_refl|]. right. unfold entry_messages. apply in_map. apply filter_In. now split.
        + intros x Hx. apply in_or_app. now right.
      - split; [apply incl_refl|split]; cbn [cs_visited cs_sets].
        + intros x Hx. apply in_or_app. now left.
        + intros x Hx Hnx. contradiction. }
    destruct Ha' as [Ja' Gaa'].
    destruct (f_kind fd) as [| | | | | | | | | | | | | | |tn|tn] eqn:Ek;
      try (injection Hstep as <-; split; [exact Ja'|split; [exact Gaa'|intros tn' Hk'; discriminate]]).
    destruct (IH _ _ _ Hstep Ja') as [Jc [Ga'c Hin]].
    split; [exact Jc|]. split; [eapply G_trans; eassumption|]. intros tn' [= <-]. exact Hin. }
  { now left. }
  (* the nested declarations *)
  destruct (fold_opt (step_msg sc sd f) (fun _ => True) (fun t b => In t (cs_visited b)))
    with (xs := map m_name (declared_nested sc m)) (a := st2) (b := st') as [J' [G2' T']]; try assumption; try exact I.
  { reflexivity. }
  { intros t c b Hc [Vcb _]. now apply Vcb. }
  { intros; exact I. }
  { intros t a c _ Hstep _ Ja. cbn [step_msg] in Hstep. exact (IH _ _ _ Hstep Ja). }
  pose proof (G_trans _ _ _ G12 G2') as G1'. destruct G1' as [V1 [S1 C1]].
  split; [exact J'|]. split; [|apply V1; now left].
  split; [|split].
  - intros x Hx. apply V1, (proj1 G01), Hx.
  - intros x Hx. apply S1, (proj2 G01), Hx.
  - intros x Hx Hnx. destruct (str_eqb x fq) eqn:Ex.
    + apply str_eqb_eq in Ex. subst x. intros m' Hm'. assert (m' = m) by congruence. subst m'. split.
      * intros t Ht. unfold field_targets in Ht. apply in_flat_map in Ht as [fd [Hfd Hk]].
        destruct (f_kind fd) as [| | | | | | | | | | | | | | |tn|tn] eqn:Ek; try (destruct Hk; fail).
        destruct Hk as [<-|[]]. apply (proj1 G2'). exact (T2 fd Hfd tn Ek).
      * intros c Hc. apply T'. now apply in_map.
    + apply C1; [exact Hx|]. cbn [st1 cs_visited]. intros [<-|Hx1]; [now rewrite str_eqb_refl in Ex|contradiction].
Qed.

Definition empty_state : cstate := {| cs_visited := []; cs_sets := []; cs_unknown := [] |}.

Theorem collect_service_inv sv st : collect_service sc sd sv = Some st ->
  J st /\ (forall x, In x (cs_visited st) -> closed2 st x) /\ (forall r, In r (method_roots sv) -> In r (cs_visited st)).
Proof.
  intros H. unfold collect_service in H.
  destruct (fold_opt (fun acc t => match acc with Some a => collect sc sd (collect_fuel sc) a t | None => None end)
              (fun _ => True) (fun r b => In r (cs_visited b)))
    with (xs := method_roots sv) (a := empty_state) (b := st) as [Jst [Gst Hroots]]; try exact I; try exact H.
  { reflexivity. }
  { intros t c b Hc [Vcb _]. now apply Vcb. }
  { intros; exact I. }
  { intros t a c _ Hstep _ Ja. exact (collect_inv _ _ _ _ Hstep Ja). }
  { split; [intros x []|split; [intros e []|intros x m []]]. }
  split; [exact Jst|]. split; [|exact Hroots].
  intros x Hx. apply (proj2 (proj2 Gst) x Hx). intros [].
Qed.

End Collect.

(* ================================================================================================ *)
(*  5. Assembly                                                                                       *)
(* ================================================================================================ *)
(* What protoc guarantees about a request and the Schema.v AST does not enforce: full names of
   messages are unique, and a map key is never a message. *)
Definition unique_message_names (sc : schema) : bool := negb (has_dup (map m_name (all_messages sc))).
Definition scalar_map_key (f : field) : bool := match f_card f with MapOf (KMessage _) => false | _ => true end.
Definition scalar_map_keys (sc : schema) : bool :=
  forallb (fun m => forallb scalar_map_key (m_fields m)) (all_messages sc).

Lemma find_message_in ms n m : find_message ms n = Some m -> In m ms.
Proof.
  induction ms as [|a ms IH]; [discriminate|]. cbn [find_message].
  destruct (str_eqb (m_name a) n); [intros [= <-]; now left|intros H; right; now apply IH].
Qed.

Lemma find_message_unique ms c : NoDup (map m_name ms) -> In c ms -> find_message ms (m_name c) = Some c.
Proof.
  induction ms as [|a ms IH]; intros Hnd Hc; [destruct Hc|]. cbn [find_message map] in *.
  inversion Hnd as [|? ? Ha Hms]; subst. destruct Hc as [->|Hc]; [now rewrite str_eqb_refl|].
  destruct (str_eqb (m_name a) (m_name c)) eqn:E; [|now apply IH].
  apply str_eqb_eq in E. exfalso. apply Ha. rewrite E. now apply in_map.
Qed.

Lemma lookup_unique sc c : unique_message_names sc = true -> In c (all_messages sc) ->
  lookup_message sc (m_name c) = Some c.
Proof.
  intros Hu Hc. unfold lookup_message. rewrite find_message_unique; [reflexivity| |exact Hc].
  apply has_dup_NoDup. unfold unique_message_names in Hu. now apply negb_true_iff in Hu.
Qed.

Lemma lookup_cases sc x m : lookup_message sc x = Some m -> In m (all_messages sc) \/ m = timestamp_message.
Proof.
  unfold lookup_message. destruct (find_message (all_messages sc) x) as [m'|] eqn:E.
  - intros [= <-]. left. now apply (find_message_in _ x).
  - destruct (str_eqb x timestamp_fq); [intros [= <-]; now right|discriminate].
Qed.

Lemma declared_nested_in sc D C : In C (declared_nested sc D) -> In C (all_messages sc).
Proof. unfold declared_nested. intros H. now apply filter_In in H as [H _]. Qed.

Section Resolve.
Variables (sc : schema) (sd : side) (sv : service) (st : cstate).
Hypothesis unique : unique_message_names sc = true.
Hypothesis mapkeys : scalar_map_keys sc = true.
Hypothesis collected : collect_service sc sd sv = Some st.
Hypothesis known : cs_unknown st = [].

Let cs := components_of_sets (cs_sets st).
Let V := cs_visited st.

Lemma visited_known x : In x V -> exists m, lookup_message sc x = Some m.
Proof.
  intros Hx. destruct (collect_service_inv sc sd sv st collected) as [[J1 _] _].
  destruct (lookup_message sc x) as [m|] eqn:El; [now exists m|].
  specialize (J1 x Hx El). rewrite known in J1. destruct J1.
Qed.

Lemma set_names_in_components n : In n (map fst (cs_sets st)) -> In n (map fst cs).
Proof. intros H. unfold cs, components_of_sets. apply omap_of_keys. rewrite map_app. apply in_or_app. now right. Qed.

Lemma visited_have_components x : In x V -> In (short_name x) (map fst cs).
Proof.
  intros Hx. destruct (visited_known x Hx) as [m Hm].
  destruct (collect_service_inv sc sd sv st collected) as [[_ [_ J4]] _].
  apply set_names_in_components. rewrite <- (lookup_name sc x m Hm).
  pose proof (object_schema_sets_has_name sc sd m) as Hn. apply in_map_iff in Hn as [e [E He]].
  apply in_map_iff. exists e. split; [exact E|]. exact (J4 x m Hx Hm e He).
Qed.

Lemma visited_closed x m : In x V -> lookup_message sc x = Some m -> incl (field_targets m) V.
Proof.
  intros Hx Hm. destruct (collect_service_inv sc sd sv st collected) as [_ [Hcl _]].
  exact (proj1 (Hcl x Hx m Hm)).
Qed.

(* a descendant of a collected message is collected and is the message its name denotes *)
Lemma desc_visited P D : In (m_name P) V -> lookup_message sc (m_name P) = Some P -> desc sc P D ->
  In (m_name D) V /\ lookup_message sc (m_name D) = Some D.
Proof.
  intros HP HlP H. induction H as [|D C _ [HD HlD] HC]; [now split|].
  destruct (collect_service_inv sc sd sv st collected) as [_ [Hcl _]].
  split; [exact (proj2 (Hcl (m_name D) HD D HlD) C HC)|].
  apply lookup_unique; [exact unique|]. now apply (declared_nested_in sc D).
Qed.

Lemma fam_targets P M : In (m_name P) V -> lookup_message sc (m_name P) = Some P -> fam sc P M ->
  incl (field_targets M) V.
Proof.
  intros HP HlP [D [HD HM]]. destruct (desc_visited P D HP HlP HD) as [HDv HDl].
  pose proof (visited_closed (m_name D) D HDv HDl) as HDt.
  destruct HM as [->|HM]; [exact HDt|].
  unfold entry_messages in HM. apply in_map_iff in HM as [fd [<- Hfd]]. apply filter_In in Hfd as [Hfd Hmap].
  (* the key is not a message *)
  assert (Hkey : scalar_map_key fd = true).
  { destruct (lookup_cases sc _ _ HDl) as [Hin| ->].
    - unfold scalar_map_keys in mapkeys. rewrite forallb_forall in mapkeys. specialize (mapkeys D Hin).
      rewrite forallb_forall in mapkeys. now apply mapkeys.
    - destruct Hfd as [<-|[<-|[]]]; reflexivity. }
  intros t Ht. unfold field_targets, entry_message in Ht. cbn [m_fields flat_map] in Ht.
  apply in_app_or in Ht as [Ht|Ht]; [|apply in_app_or in Ht as [Ht|[]]].
  - exfalso. cbn [bare_key_field plain_field f_kind] in Ht. unfold scalar_map_key in Hkey.
    destruct (f_card fd) as [| | |[| | | | | | | | | | | | | | |tn|tn]]; try discriminate; destruct Ht.
  - cbn [bare_value_field plain_field f_kind] in Ht. apply HDt. unfold field_targets. apply in_flat_map.
    exists fd. now split.
Qed.

Theorem components_fine : forall e, In e cs -> fine (ok cs) (snd e).
Proof.
  intros e He. unfold cs, components_of_sets in He. apply omap_of_in in He. apply in_app_or in He as [He|He].
  - assert (Hfv : ok cs (ref_prefix ++ s "FieldViolation")).
    { apply ok_name. unfold cs, components_of_sets. apply omap_of_keys. rewrite map_app. apply in_or_app. left.
      right. now left. }
    destruct He as [<-|[<-|[<-|[]]]]; cbn [snd].
    + split; [apply good_nil; reflexivity|split; [discriminate|reflexivity]].
    + split; [apply good_nil; reflexivity|split; [discriminate|reflexivity]].
    + split; [|split; [discriminate|reflexivity]]. intros t Ht.
      change (In t [ref_prefix ++ s "FieldViolation"]) in Ht. destruct Ht as [<-|[]]. exact Hfv.
  - destruct (collect_service_inv sc sd sv st collected) as [[_ [J3 _]] _].
    destruct (J3 e He) as [P [M [HP [HlP [HM [HeM Hincl]]]]]].
    apply (object_schema_sets_fine sc sd cs V visited_have_components visited_closed M).
    + now apply (fam_targets P M).
    + intros n Hn. apply set_names_in_components. apply in_map_iff in Hn as [e0 [<- He0]]. apply in_map. now apply Hincl.
    + exact HeM.
Qed.

Lemma doc_ops_in e : In e (doc_ops sv) -> In (snd e) (sv_methods sv).
Proof.
  unfold doc_ops.
  assert (Hg : forall ms acc, In e (fold_left (fun acc md => assign_op (method_key sv md) md acc) ms acc) ->
                 In e acc \/ In (snd e) ms).
  { induction ms as [|md ms IH]; intros acc H; cbn [fold_left] in H; [now left|].
    apply IH in H as [H|H]; [|right; now right].
    apply assign_op_in in H as [->|H]; [right; now left|now left]. }
  intros H. apply Hg in H as [[]|H]. exact H.
Qed.

Lemma verb_key_plain v : key_plain (verb_key v) = true.
Proof. destruct v; reflexivity. Qed.

Lemma operations_good md : In md (sv_methods sv) -> good_node (ok cs) (operation_node sc sv md).
Proof.
  intros Hmd t Ht.
  destruct (collect_service_inv sc sd sv st collected) as [_ [_ Hroots]].
  assert (Hroot : forall r, In r [md_in md; md_out md] -> lookup_message sc r <> None).
  { intros r Hr. assert (Hv : In r V).
    { apply Hroots. unfold method_roots. apply in_flat_map. exists md. now split. }
    destruct (visited_known r Hv) as [m ->]. discriminate. }
  apply (refs_resolve_operations sc sd sv st collected md Hmd); [apply Hroot; now left|apply Hroot; right; now left|exact Ht].
Qed.

Lemma paths_good : good_node (ok cs) (paths_y sc sv).
Proof.
  unfold paths_y. apply good_map_anykey. apply Forall_forall. intros e He.
  apply in_map_iff in He as [p [<- _]]. cbn [snd]. apply fine_map_plain.
  apply Forall_forall. intros e' He'. apply in_map_iff in He' as [e0 [<- He0]].
  apply filter_In in He0 as [He0 _]. split; cbn [fst snd]; [apply verb_key_plain|].
  apply operations_good. now apply doc_ops_in.
Qed.

Theorem refs_resolve_all d : document_y sc sd sv = Some d ->
  forall t, In t (refs_of d) -> ref_resolves cs t = true.
Proof.
  intros Hd. unfold document_y, components_y in Hd. rewrite collected in Hd. injection Hd as <-.
  fold cs. change (good_node (ok cs) (YMap [(s "info", YMap [(s "title", YStr (sv_name sv ++ s " API"))]);
                                             (s "paths", paths_y sc sv);
                                             (s "components", YMap [(s "schemas", YMap cs)])])).
  apply good_map. apply Forall_cons; [|apply Forall_cons; [|apply Forall_cons; [|apply Forall_nil]]];
    apply gentry_of_pentry; (split; [reflexivity|]); cbn [snd].
  - apply good_nil. reflexivity.
  - exact paths_good.
  - apply good_map. apply Forall_cons; [|apply Forall_nil]. apply gentry_of_pentry. split; [reflexivity|]. cbn [snd].
    apply good_map_anykey. apply Forall_forall. exact components_fine.
Qed.

End Resolve.

(* The statement of C18_refs_resolve_full with the two side conditions; the defect hypothesis is not
   needed for this clause (a short-name collision merges components, it does not remove one). *)
Theorem refs_resolve_full sc sd sv st d :
  unique_message_names sc = true -> scalar_map_keys sc = true ->
  collect_service sc sd sv = Some st -> document_y sc sd sv = Some d -> cs_unknown st = [] ->
  forall t, In t (refs_of d) -> ref_resolves (components_of_sets (cs_sets st)) t = true.
Proof. intros Hu Hk Hc Hd Hn. exact (refs_resolve_all sc sd sv st Hu Hk Hc Hn d Hd). Qed.

(* ================================================================================================ *)
(*  6. Examples: non-vacuity, and the two side conditions are needed                                   *)
(* ================================================================================================ *)
Section Examples.
Local Open Scope string_scope.
Local Open Scope list_scope.

Definition ofld (name : string) (num : Z) (k : kind) (o : string) : field :=
  {| f_name := s name; f_number := num; f_kind := k; f_card := Singular; f_oneof := Some (s o);
     f_query := None; f_unwrap := false; f_int64 := None; f_enumenc := None; f_nullable := None; f_empty := None;
     f_tsfmt := None; f_bytesenc := None; f_oneof_value := None; f_flatten := None; f_flatten_prefix := None |}.
Definition ufld (name : string) (num : Z) (k : kind) (c : card) : field :=
  {| f_name := s name; f_number := num; f_kind := k; f_card := c; f_oneof := None;
     f_query := None; f_unwrap := true; f_int64 := None; f_enumenc := None; f_nullable := None; f_empty := None;
     f_tsfmt := None; f_bytesenc := None; f_oneof_value := None; f_flatten := None; f_flatten_prefix := None |}.
Definition flfld (name : string) (num : Z) (k : kind) (pre : string) : field :=
  {| f_name := s name; f_number := num; f_kind := k; f_card := Singular; f_oneof := None;
     f_query := None; f_unwrap := false; f_int64 := None; f_enumenc := None; f_nullable := None; f_empty := None;
     f_tsfmt := None; f_bytesenc := None; f_oneof_value := None; f_flatten := Some true; f_flatten_prefix := Some (s pre) |}.
Definition omsg (fq : string) (path : list string) (fs : list field) (os : list oneof) : message :=
  {| m_name := s fq; m_path := map s path; m_fields := fs; m_oneofs := os |}.

Definition refs_messages : list message :=
  [ msg "a.Tree" ["Tree"] [fld "label" 1 KString Singular; fld "kids" 2 (KMessage (s "a.Tree")) Repeated;
                           fld "leaf" 3 (KMessage (s "a.Tree.Leaf")) Singular;
                           fld "attrs" 4 (KMessage (s "a.Tree.Leaf")) (MapOf KString);
                           fld "seen" 5 (KMessage (s "google.protobuf.Timestamp")) Singular];
    msg "a.Tree.Leaf" ["Tree"; "Leaf"] [fld "weight" 1 KDouble Singular];
    (* nested discriminated oneof *)
    omsg "a.Event" ["Event"] [fld "id" 1 KString Singular;
                              ofld "click" 2 (KMessage (s "a.Click")) "payload";
                              ofld "scroll" 3 (KMessage (s "a.Scroll")) "payload";
                              ofld "note" 4 KString "payload"]
         [{| o_name := s "payload"; o_has_cfg := true; o_discriminator := s "type"; o_flatten := false |}];
    msg "a.Click" ["Click"] [fld "x" 1 KInt32 Singular; fld "target" 2 (KMessage (s "a.Tree")) Singular];
    msg "a.Scroll" ["Scroll"] [fld "dy" 1 KInt32 Singular];
    (* flattened discriminated oneof *)
    omsg "a.Shape" ["Shape"] [fld "name" 1 KString Singular;
                              ofld "circle" 2 (KMessage (s "a.Circle")) "kind";
                              ofld "square" 3 (KMessage (s "a.Square")) "kind"]
         [{| o_name := s "kind"; o_has_cfg := true; o_discriminator := s "kind"; o_flatten := true |}];
    msg "a.Circle" ["Circle"] [fld "radius" 1 KDouble Singular; fld "center" 2 (KMessage (s "a.Point")) Singular];
    msg "a.Square" ["Square"] [fld "side" 1 KDouble Singular];
    msg "a.Point" ["Point"] [fld "px" 1 KDouble Singular; fld "py" 2 KDouble Singular];
    (* flatten *)
    msg "a.Wrapper" ["Wrapper"] [fld "id" 1 KString Singular; flfld "meta" 2 (KMessage (s "a.Meta")) "m_"];
    msg "a.Meta" ["Meta"] [fld "owner" 1 (KMessage (s "a.Owner")) Singular; fld "rev" 2 KInt64 Singular];
    msg "a.Owner" ["Owner"] [fld "login" 1 KString Singular];
    (* root unwrap, and unwrap as a map value *)
    msg "a.ItemList" ["ItemList"] [ufld "items" 1 (KMessage (s "a.Item")) Repeated];
    msg "a.Item" ["Item"] [fld "sku" 1 KString Singular];
    msg "a.Req" ["Req"] [fld "tree" 1 (KMessage (s "a.Tree")) Singular; fld "event" 2 (KMessage (s "a.Event")) Singular;
                         fld "shapes" 3 (KMessage (s "a.Shape")) Repeated;
                         fld "wrapper" 4 (KMessage (s "a.Wrapper")) Singular;
                         fld "groups" 5 (KMessage (s "a.ItemList")) (MapOf KString)];
    msg "a.Resp" ["Resp"] [fld "items" 1 (KMessage (s "a.ItemList")) Singular] ].
Definition refs_service : service := svc "Shapes" "/v1" [] [rpc "Do" "a.Req" "a.Resp" "/do" 2].
Definition refs_schema : schema := file1 refs_messages [refs_service].


(* a recursive message with a nested declaration, a map of messages and a Timestamp; a nested and a
   flattened discriminated oneof; a flatten field with prefix; a root unwrap that is also a map value *)
Example refs_nonvacuous :
  unique_message_names refs_schema = true /\ scalar_map_keys refs_schema = true /\
  defects_C18 refs_schema no_side refs_service = [] /\
  exists st d, collect_service refs_schema no_side refs_service = Some st /\
    document_y refs_schema no_side refs_service = Some d /\ cs_unknown st = [] /\
    map fst (components_of_sets (cs_sets st))
    = map s ["Error"; "FieldViolation"; "ValidationError"; "Req"; "GroupsEntry"; "Tree"; "AttrsEntry"; "Leaf"; "Timestamp";
             "Event"; "Click"; "Scroll"; "Shape_circle"; "Shape_square"; "Shape"; "Circle"; "Point"; "Square";
             "Wrapper"; "Meta"; "Owner"; "ItemList"; "Item"; "Resp"] /\
    refs_of d
    = map (fun n => ref_prefix ++ s n)
          ["Req"; "Resp"; "ValidationError"; "Error"; "FieldViolation"; "Tree"; "Event"; "Shape"; "Wrapper"; "Item"; "ItemList";
           "Tree"; "Leaf"; "Leaf"; "Leaf"; "Click"; "Scroll"; "Click"; "Scroll"; "Tree"; "Point";
           "Shape_circle"; "Shape_square"; "Shape_circle"; "Shape_square"; "Point"; "Owner"; "Owner"; "Item"; "ItemList"].
Proof.
  split; [vm_compute; reflexivity|]. split; [vm_compute; reflexivity|]. split; [vm_compute; reflexivity|].
  eexists. eexists. split; [vm_compute; reflexivity|]. split; [vm_compute; reflexivity|].
  split; [reflexivity|]. split; vm_compute; reflexivity.
Qed.

(* Without unique full names: a.M.Inner is declared twice; the collection follows the fields of the first
   declaration only (and here visits it before a.M), while processMessage on a.M registers the schema
   of both declarations under "Inner", and the second one refers to Z. *)
Definition dup_schema : schema :=
  file1 [ msg "a.Req" ["Req"] [fld "inner" 1 (KMessage (s "a.M.Inner")) Singular; fld "m" 2 (KMessage (s "a.M")) Singular];
          msg "a.M" ["M"] [fld "x" 1 KString Singular];
          msg "a.M.Inner" ["M"; "Inner"] [fld "v" 1 KString Singular];
          msg "a.M.Inner" ["M"; "Inner"] [fld "z" 1 (KMessage (s "a.Z")) Singular];
          msg "a.Z" ["Z"] [fld "w" 1 KString Singular] ]
        [svc "S" "/s" [] [rpc "Do" "a.Req" "a.Req" "/do" 2]].
Definition dup_service : service := svc "S" "/s" [] [rpc "Do" "a.Req" "a.Req" "/do" 2].

Example refs_resolve_needs_unique_names :
  unique_message_names dup_schema = false /\ scalar_map_keys dup_schema = true /\
  defects_C18 dup_schema no_side dup_service = [] /\
  exists st d, collect_service dup_schema no_side dup_service = Some st /\
    document_y dup_schema no_side dup_service = Some d /\ cs_unknown st = [] /\
    In (ref_prefix ++ s "Z") (refs_of d) /\
    ref_resolves (components_of_sets (cs_sets st)) (ref_prefix ++ s "Z") = false.
Proof.
  split; [vm_compute; reflexivity|]. split; [vm_compute; reflexivity|]. split; [vm_compute; reflexivity|].
  eexists. eexists. split; [vm_compute; reflexivity|]. split; [vm_compute; reflexivity|].
  split; [reflexivity|]. split; [apply mem_str_In; vm_compute; reflexivity|vm_compute; reflexivity].
Qed.

(* With a message as map key: the entry schema refers to the key type, which the collection (it
   follows the value field only) never visits. *)
Definition mapkey_schema : schema :=
  file1 [ msg "a.Req" ["Req"] [fld "idx" 1 KString (MapOf (KMessage (s "a.K")))];
          msg "a.K" ["K"] [fld "w" 1 KString Singular] ]
        [svc "S" "/s" [] [rpc "Do" "a.Req" "a.Req" "/do" 2]].

Example refs_resolve_needs_scalar_map_keys :
  unique_message_names mapkey_schema = true /\ scalar_map_keys mapkey_schema = false /\
  defects_C18 mapkey_schema no_side dup_service = [] /\
  exists st d, collect_service mapkey_schema no_side dup_service = Some st /\
    document_y mapkey_schema no_side dup_service = Some d /\ cs_unknown st = [] /\
    In (ref_prefix ++ s "K") (refs_of d) /\
    ref_resolves (components_of_sets (cs_sets st)) (ref_prefix ++ s "K") = false.
Proof.
  split; [vm_compute; reflexivity|]. split; [vm_compute; reflexivity|]. split; [vm_compute; reflexivity|].
  eexists. eexists. split; [vm_compute; reflexivity|]. split; [vm_compute; reflexivity|].
  split; [reflexivity|]. split; [apply mem_str_In; vm_compute; reflexivity|vm_compute; reflexivity].
Qed.

End Examples.

(* the same under the hypotheses of props/C18.v's C18_refs_resolve_full (the defect hypothesis is unused) *)
Theorem refs_resolve_full_good sc sd sv st d :
  unique_message_names sc = true -> scalar_map_keys sc = true ->
  collect_service sc sd sv = Some st -> document_y sc sd sv = Some d ->
  cs_unknown st = [] -> defects_C18 sc sd sv = [] ->
  forall t, In t (refs_of d) -> ref_resolves (components_of_sets (cs_sets st)) t = true.
Proof. intros Hu Hk Hc Hd Hn _. exact (refs_resolve_full sc sd sv st d Hu Hk Hc Hd Hn). Qed.

(* ... and without the side conditions the statement is false in the model *)
Theorem refs_resolve_unconditional_refuted :
  ~ (forall sc sd sv st d, collect_service sc sd sv = Some st -> document_y sc sd sv = Some d ->
       cs_unknown st = [] -> defects_C18 sc sd sv = [] ->
       forall t, In t (refs_of d) -> ref_resolves (components_of_sets (cs_sets st)) t = true).
Proof.
  intros H.
  destruct refs_resolve_needs_scalar_map_keys as [_ [_ [Hd [st [d [Hc [Hdoc [Hu [Hin Hres]]]]]]]]].
  specialize (H _ _ _ _ _ Hc Hdoc Hu Hd _ Hin). congruence.
Qed.

Print Assumptions refs_resolve_full.
Print Assumptions refs_resolve_unconditional_refuted.
