From Sebuf Require Import Text.

Lemma str_eqb_refl x : str_eqb x x = true.
Proof. induction x as [|c x IH]; cbn; [reflexivity|]. now rewrite Ascii.eqb_refl, IH. Qed.

Lemma str_eqb_eq x y : str_eqb x y = true <-> x = y.
Proof.
  split.
  - revert y; induction x as [|c x IH]; intros [|d y] H; cbn in H; try discriminate; [reflexivity|].
    apply andb_true_iff in H as [H1 H2]. apply Ascii.eqb_eq in H1. subst. f_equal. now apply IH.
  - intros ->. apply str_eqb_refl.
Qed.

Lemma str_eqb_neq x y : str_eqb x y = false <-> x <> y.
Proof.
  split.
  - intros H E. apply str_eqb_eq in E. congruence.
  - intros H. destruct (str_eqb x y) eqn:E; [|reflexivity]. apply str_eqb_eq in E. contradiction.
Qed.

Lemma has_prefix_cons1 c x : has_prefix [c] x = true -> exists r, x = c :: r.
Proof.
  destruct x as [|d r]; cbn; [discriminate|]. rewrite andb_true_r. intros H.
  apply Ascii.eqb_eq in H. subst. now exists r.
Qed.

Lemma has_prefix_cons1_false c x : has_prefix [c] x = false -> forall r, x <> c :: r.
Proof.
  intros H r ->. cbn in H. now rewrite Ascii.eqb_refl in H.
Qed.

Lemma trim_prefix_cons1_hit c r : trim_prefix [c] (c :: r) = r.
Proof. unfold trim_prefix. cbn. now rewrite Ascii.eqb_refl. Qed.

Lemma trim_prefix_miss p x : has_prefix p x = false -> trim_prefix p x = x.
Proof. unfold trim_prefix. now intros ->. Qed.
