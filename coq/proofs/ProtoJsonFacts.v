(* ProtoJsonFacts.v — protojson round trip: unmarshal (marshal m) = m for every well-typed value of
   every schema (fragment: all scalar kinds, enums, nested messages, Timestamp, optional, repeated,
   maps; messages whose fields are not oneof members), under the library laws ExtLaws. *)
From Sebuf Require Import ProtoJson.
From Sebuf Require Import Url.
From SebufProofs Require Import TextFacts CodecTextFacts.

Open Scope Z_scope.

(* ---- well-typed values (computable) ------------------------------------------------------------------ *)
Definition is_msgk (k : kind) : bool := match k with KMessage _ => true | _ => false end.

Definition float_ok (is64 : bool) (b : Z) : bool :=
  match fclassify is64 b with
  | FNaN => b =? nan_bits is64
  | FPosInf => b =? pinf_bits is64
  | FNegInf => b =? ninf_bits is64
  | FFinite => 0 <=? b
  end.

Definition enum_rt (e : enum) (n : Z) : bool :=
  (- 2 ^ 31 <=? n) && (n <=? 2 ^ 31 - 1) &&
  match ev_by_number (e_values e) n with
  | Some v => match ev_by_name (e_values e) (ev_name v) with
              | Some v' => ev_number v' =? n
              | None => false
              end
  | None => true
  end.

Fixpoint lt_all_Z (x : Z) (l : list Z) : bool := match l with [] => true | y :: r => (x <? y) && lt_all_Z x r end.
Fixpoint sorted_Z (l : list Z) : bool := match l with [] => true | x :: r => lt_all_Z x r && sorted_Z r end.
Fixpoint lt_all_key (x : sval) (l : list sval) : bool := match l with [] => true | y :: r => sval_ltb x y && lt_all_key x r end.
Fixpoint sorted_key (l : list sval) : bool := match l with [] => true | x :: r => lt_all_key x r && sorted_key r end.

Definition wt_key (kk : kind) (v : sval) : bool :=
  match kk, v with
  | KString, VStr _ => true
  | KBool, VBool _ => true
  | _, VInt z => (is_int32_kind kk || is_int64_kind kk) && in_int_range kk z
  | _, _ => false
  end.

Definition ts_ok (m : mval) : bool :=
  match m with
  | [] => true
  | [(k, FS (VInt z))] =>
      (str_eqb k (s "seconds") && negb (z =? 0) && ts_in_range z 0) ||
      (str_eqb k (s "nanos") && negb (z =? 0) && ts_in_range 0 z)
  | [(k1, FS (VInt a)); (k2, FS (VInt b))] =>
      str_eqb k1 (s "seconds") && str_eqb k2 (s "nanos") && negb (a =? 0) && negb (b =? 0) && ts_in_range a b
  | _ => false
  end.

(* the message declares distinct field numbers, every field is found again by its json name, and no
   field is a oneof member *)
Fixpoint nodup_Z (l : list Z) : bool :=
  match l with [] => true | x :: r => negb (existsb (Z.eqb x) r) && nodup_Z r end.
Definition msg_ok (md : message) : bool :=
  nodup_Z (map f_number (m_fields md)) &&
  forallb (fun f => match field_of_key md (json_name (f_name f)) with
                    | Some f' => f_number f' =? f_number f
                    | None => false
                    end && match f_oneof f with None => true | Some _ => false end) (m_fields md).

Section WT.
Variable sc : schema.

Definition wt_scalar (k : kind) (v : sval) : bool :=
  match k, v with
  | KBool, VBool _ => true
  | KString, VStr _ => true
  | KBytes, VBytes _ => true
  | KDouble, VFloat b => float_ok true b
  | KFloat, VFloat b => float_ok false b
  | KEnum tn, VEnum n => match find_enum (all_enums sc) tn with Some e => enum_rt e n | None => false end
  | _, VInt z => (is_int32_kind k || is_int64_kind k) && in_int_range k z
  | _, _ => false
  end.

Definition num_of (md : message) (name : str) : Z :=
  match find_field (m_fields md) name with Some f => f_number f | None => 0 end.

(* [wt k v]: v is a singular value of kind k: populated fields only, in field-number order, maps in key
   order without duplicates, integers in range, canonical NaN, canonical Timestamp *)
Fixpoint wt (k : kind) (v : fval) {struct v} : bool :=
  match v with
  | FS x => negb (is_msgk k) && wt_scalar k x
  | FM m =>
      match k with
      | KMessage tn =>
          if str_eqb tn ts_name then ts_ok m
          else negb (is_wkt_other tn) &&
            match find_message (all_messages sc) tn with
            | None => false
            | Some md =>
                msg_ok md && sorted_Z (map (fun e => num_of md (fst e)) m) &&
                (fix go (m : list (str * fval)) : bool :=
                   match m with
                   | [] => true
                   | (name, x) :: r =>
                       match find_field (m_fields md) name with
                       | None => false
                       | Some f =>
                           match f_card f, x with
                           | Repeated, FL (e :: l) =>
                               (fix all (l : list fval) : bool :=
                                  match l with [] => true | y :: t => wt (f_kind f) y && all t end) (e :: l)
                           | MapOf kk, FMap (e :: kv) =>
                               sorted_key (map fst (e :: kv)) &&
                               (fix all (kv : list (sval * fval)) : bool :=
                                  match kv with
                                  | [] => true
                                  | (key, y) :: t => wt_key kk key && wt (f_kind f) y && all t
                                  end) (e :: kv)
                           | Singular, FS _ | Optional, FS _ => wt (f_kind f) x && populated f x
                           | Singular, FM _ | Optional, FM _ => wt (f_kind f) x
                           | _, _ => false
                           end && go r
                       end
                   end) m
            end
      | _ => false
      end
  | _ => false
  end.
End WT.

(* ---- the inner loops of ProtoJson.v, named ------------------------------------------------------------ *)
Section Loops.
Variable E : ExtLib.
Variable sc : schema.

Definition m_list (k : kind) : list fval -> res (list json) :=
  fix go (l : list fval) : res (list json) :=
    match l with
    | [] => ROk []
    | x :: r => pj_fval E sc k x >>= (fun j => go r >>= (fun t => ROk (j :: t)))
    end.
Definition m_map (k : kind) : list (sval * fval) -> res (list (str * json)) :=
  fix go (kv : list (sval * fval)) : res (list (str * json)) :=
    match kv with
    | [] => ROk []
    | (key, x) :: r => key_text key >>= (fun kt => pj_fval E sc k x >>= (fun j => go r >>= (fun t => ROk ((kt, j) :: t))))
    end.
Definition m_msg (md : message) : list (str * fval) -> res (list (str * json)) :=
  fix go (m : list (str * fval)) : res (list (str * json)) :=
    match m with
    | [] => ROk []
    | (name, x) :: r =>
        match find_field (m_fields md) name with
        | None => RUnm (s "value names an undeclared field")
        | Some f => pj_fval E sc (f_kind f) x >>= (fun j => go r >>= (fun t => ROk ((json_name name, j) :: t)))
        end
    end.

Lemma pj_fval_FS k x : pj_fval E sc k (FS x) = pj_scalar E sc k x.
Proof. reflexivity. Qed.
Lemma pj_fval_FL k l : pj_fval E sc k (FL l) = m_list k l >>= (fun js => ROk (JArr js)).
Proof. reflexivity. Qed.
Lemma pj_fval_FMap k kv : pj_fval E sc k (FMap kv) = m_map k kv >>= (fun es => ROk (JObj es)).
Proof. reflexivity. Qed.
Lemma pj_fval_FM tn m :
  pj_fval E sc (KMessage tn) (FM m) =
  if str_eqb tn ts_name then pj_timestamp E m
  else if is_wkt_other tn then RUnm (s "well-known type other than Timestamp")
  else match find_message (all_messages sc) tn with
       | None => RUnm (s "unknown message type")
       | Some md => m_msg md m >>= (fun es => ROk (JObj es))
       end.
Proof. reflexivity. Qed.

Definition u_elems (k : kind) : list json -> res (list fval) :=
  fix elems (l : list json) : res (list fval) :=
    match l with
    | [] => ROk []
    | x :: t => pj_un E sc k x >>= (fun v => elems t >>= (fun vs => ROk (v :: vs)))
    end.
Definition u_ents (kk k : kind) : list (str * json) -> res (list (sval * fval)) :=
  fix ents (mkv : list (str * json)) : res (list (sval * fval)) :=
    match mkv with
    | [] => ROk []
    | (mk, x) :: t =>
        key_of_text kk mk >>= (fun kvv => pj_un E sc k x >>= (fun v => ents t >>= (fun vs => ROk ((kvv, v) :: vs))))
    end.
Definition u_value (f : field) (jv : json) : res (option fval) :=
  match jv with
  | JNull => ROk None
  | _ =>
      match f_card f with
      | Repeated =>
          match jv with
          | JArr l => u_elems (f_kind f) l >>= (fun vs => ROk (Some (FL vs)))
          | _ => RErr (s "expected array")
          end
      | MapOf kk =>
          match jv with
          | JObj mkv =>
              u_ents kk (f_kind f) mkv >>= (fun es =>
              if has_dup_key (map fst es) then RErr (s "duplicate map key")
              else ROk (Some (FMap (sort_entries es))))
          | _ => RErr (s "expected object")
          end
      | _ => pj_un E sc (f_kind f) jv >>= (fun v => ROk (Some v))
      end
  end.
Definition u_fields (md : message) : list (str * json) -> res (list (field * fval)) :=
  fix fields (kv : list (str * json)) : res (list (field * fval)) :=
    match kv with
    | [] => ROk []
    | (key, jv) :: r =>
        match field_of_key md key with
        | None => RErr (s "unknown field")
        | Some f =>
            u_value f jv >>= (fun ov =>
            fields r >>= (fun rest => ROk (match ov with Some v => (f, v) :: rest | None => rest end)))
        end
    end.

Lemma pj_un_msg tn j :
  str_eqb tn ts_name = false -> is_wkt_other tn = false ->
  pj_un E sc (KMessage tn) j =
  match find_message (all_messages sc) tn with
  | None => RUnm (s "unknown message type")
  | Some md =>
      match j with
      | JObj kv =>
          if dup_check md kv then RErr (s "duplicate field or oneof already set")
          else u_fields md kv >>= (fun fvs => ROk (FM (assemble fvs)))
      | _ => RErr (s "expected object")
      end
  end.
Proof.
  intros H1 H2. destruct j; simpl; rewrite H1, H2; reflexivity.
Qed.

Lemma pj_un_ts j : pj_un E sc (KMessage ts_name) j = ts_of_json E j.
Proof. destruct j; reflexivity. Qed.

Lemma pj_un_scalar k j : is_msgk k = false -> pj_un E sc k j = pj_unscalar E sc k j >>= (fun v => ROk (FS v)).
Proof. intros H. destruct k; try discriminate H; destruct j; reflexivity. Qed.
End Loops.
Close Scope Z_scope.

(* ======================================= proofs ========================================================= *)
Open Scope Z_scope.

(* ---- induction principle for the nested value type --------------------------------------------------- *)
Section FvalInd.
Variable P : fval -> Prop.
Hypothesis HS : forall x, P (FS x).
Hypothesis HM : forall m, Forall (fun e => P (snd e)) m -> P (FM m).
Hypothesis HL : forall l, Forall P l -> P (FL l).
Hypothesis HMap : forall kv, Forall (fun e => P (snd e)) kv -> P (FMap kv).
Fixpoint fval_ind' (v : fval) : P v :=
  match v with
  | FS x => HS x
  | FM m => HM m ((fix go (m : list (str * fval)) : Forall (fun e => P (snd e)) m :=
                     match m with
                     | [] => Forall_nil _
                     | e :: r => Forall_cons e (fval_ind' (snd e)) (go r)
                     end) m)
  | FL l => HL l ((fix go (l : list fval) : Forall P l :=
                     match l with [] => Forall_nil _ | x :: r => Forall_cons x (fval_ind' x) (go r) end) l)
  | FMap kv => HMap kv ((fix go (kv : list (sval * fval)) : Forall (fun e => P (snd e)) kv :=
                           match kv with
                           | [] => Forall_nil _
                           | e :: r => Forall_cons e (fval_ind' (snd e)) (go r)
                           end) kv)
  end.
End FvalInd.

(* ---- small facts --------------------------------------------------------------------------------------- *)
Lemma rbind_ok {A B} (x : res A) (f : A -> res B) b : x >>= f = ROk b -> exists a, x = ROk a /\ f a = ROk b.
Proof. destruct x; simpl; intros H; try discriminate. eauto. Qed.

Lemma rbind_ROk {A B} (a : A) (f : A -> res B) : ROk a >>= f = f a.
Proof. reflexivity. Qed.

Lemma find_field_spec fs n f : find_field fs n = Some f -> In f fs /\ f_name f = n.
Proof.
  induction fs as [|g r IH]; simpl; [discriminate|].
  destruct (str_eqb (f_name g) n) eqn:Eq; intros H.
  - inversion H; subst. split; [left; reflexivity|]. apply str_eqb_eq. exact Eq.
  - destruct (IH H) as [Hin Hn]. split; [right; exact Hin|exact Hn].
Qed.

Lemma field_by_json_in fs x f : field_by_json fs x = Some f -> In f fs.
Proof.
  induction fs as [|g r IH]; simpl; [discriminate|].
  destruct (str_eqb (json_name (f_name g)) x); intros H.
  - inversion H. left. reflexivity.
  - right. apply IH. exact H.
Qed.

Lemma field_of_key_in md x f : field_of_key md x = Some f -> In f (m_fields md).
Proof.
  unfold field_of_key. destruct (field_by_json (m_fields md) x) eqn:Eb; intros H.
  - inversion H; subst. eapply field_by_json_in. exact Eb.
  - apply find_field_spec in H. apply H.
Qed.

Lemma nodup_num_inj fs a b :
  nodup_Z (map f_number fs) = true -> In a fs -> In b fs -> f_number a = f_number b -> a = b.
Proof.
  induction fs as [|g r IH]; simpl; [intros _ []|].
  intros Hn Ha Hb Heq. apply andb_prop in Hn. destruct Hn as [Hg Hr].
  assert (Hnot : forall c, In c r -> f_number g <> f_number c).
  { intros c Hc E. apply Bool.negb_true_iff in Hg.
    assert (existsb (Z.eqb (f_number g)) (map f_number r) = true).
    { apply existsb_exists. exists (f_number c). split; [apply in_map; exact Hc|apply Z.eqb_eq; exact E]. }
    congruence. }
  destruct Ha as [Ha|Ha], Hb as [Hb|Hb]; subst.
  - reflexivity.
  - exfalso. eapply Hnot; eauto.
  - exfalso. eapply Hnot; eauto.
  - apply IH; auto.
Qed.

Lemma msg_ok_key md name f :
  msg_ok md = true -> find_field (m_fields md) name = Some f ->
  field_of_key md (json_name name) = Some f /\ f_oneof f = None.
Proof.
  intros Hok Hf. unfold msg_ok in Hok. apply andb_prop in Hok. destruct Hok as [Hnd Hall].
  destruct (find_field_spec _ _ _ Hf) as [Hin Hn]. subst name.
  rewrite forallb_forall in Hall. specialize (Hall f Hin). apply andb_prop in Hall. destruct Hall as [Hk Ho].
  destruct (field_of_key md (json_name (f_name f))) as [f'|] eqn:Ek; [|discriminate].
  split.
  - f_equal. eapply nodup_num_inj; eauto.
    + eapply field_of_key_in. exact Ek.
    + apply Z.eqb_eq. exact Hk.
  - destruct (f_oneof f); [discriminate|reflexivity].
Qed.

Lemma lt_all_no_dup x l : lt_all_Z x l = true -> existsb (Z.eqb x) l = false.
Proof.
  induction l as [|y r IH]; simpl; [reflexivity|].
  intros H. apply andb_prop in H. destruct H as [H1 H2].
  rewrite (IH H2). apply Z.ltb_lt in H1.
  destruct (Z.eqb_spec x y); [lia|reflexivity].
Qed.
Lemma sorted_no_dup l : sorted_Z l = true -> dup_nums l = false.
Proof.
  induction l as [|x r IH]; simpl; [reflexivity|].
  intros H. apply andb_prop in H. destruct H as [H1 H2].
  rewrite (lt_all_no_dup _ _ H1), (IH H2). reflexivity.
Qed.

Lemma sval_ltb_neq a b : sval_ltb a b = true -> sval_eqb a b = false.
Proof.
  destruct a, b; simpl; try discriminate.
  - intros H. apply Z.ltb_lt in H. destruct (Z.eqb_spec z z0); [lia|reflexivity].
  - destruct b, b0; simpl; try discriminate; reflexivity.
  - intros H. apply andb_prop in H. destruct H as [_ H]. apply Bool.negb_true_iff in H. exact H.
Qed.
Lemma lt_all_key_no_dup x l : lt_all_key x l = true -> existsb (sval_eqb x) l = false.
Proof.
  induction l as [|y r IH]; simpl; [reflexivity|].
  intros H. apply andb_prop in H. destruct H as [H1 H2].
  rewrite (IH H2), (sval_ltb_neq _ _ H1). reflexivity.
Qed.
Lemma sorted_key_no_dup l : sorted_key l = true -> has_dup_key l = false.
Proof.
  induction l as [|x r IH]; simpl; [reflexivity|].
  intros H. apply andb_prop in H. destruct H as [H1 H2].
  rewrite (lt_all_key_no_dup _ _ H1), (IH H2). reflexivity.
Qed.
Lemma sorted_key_sort (es : list (sval * fval)) : sorted_key (map fst es) = true -> sort_entries es = es.
Proof.
  induction es as [|e r IH]; simpl; [reflexivity|].
  intros H. apply andb_prop in H. destruct H as [H1 H2].
  unfold sort_entries in *. simpl. rewrite (IH H2).
  destruct r as [|e' r']; [reflexivity|].
  simpl in H1. apply andb_prop in H1. destruct H1 as [H1 _].
  simpl. rewrite H1. reflexivity.
Qed.

(* ---- assemble of an already canonical field list ---------------------------------------------------------- *)
Definition step (fv : field * fval) (acc : list (Z * (str * fval))) :=
  if populated (fst fv) (snd fv) then insert_by_num (f_number (fst fv)) (f_name (fst fv), snd fv) acc else acc.
Lemma assemble_sorted fvs :
  sorted_Z (map (fun fv => f_number (fst fv)) fvs) = true ->
  Forall (fun fv => populated (fst fv) (snd fv) = true) fvs ->
  fold_right step [] fvs = map (fun fv => (f_number (fst fv), (f_name (fst fv), snd fv))) fvs.
Proof.
  induction fvs as [|fv r IH]; simpl; [reflexivity|].
  intros Hs Hp. apply andb_prop in Hs. destruct Hs as [H1 H2].
  inversion Hp; subst. rewrite (IH H2 H4). unfold step at 1. rewrite H3.
  destruct r as [|fv' r']; [reflexivity|].
  simpl in H1. apply andb_prop in H1. destruct H1 as [H1 _]. apply Z.ltb_lt in H1.
  simpl. destruct (Z.leb_spec (f_number (fst fv)) (f_number (fst fv'))); [reflexivity|lia].
Qed.
Lemma assemble_canon fvs :
  sorted_Z (map (fun fv => f_number (fst fv)) fvs) = true ->
  Forall (fun fv => populated (fst fv) (snd fv) = true) fvs ->
  assemble fvs = map (fun fv => (f_name (fst fv), snd fv)) fvs.
Proof.
  intros Hs Hp. unfold assemble.
  change (fold_right _ [] fvs) with (fold_right step [] fvs).
  rewrite (assemble_sorted fvs Hs Hp). rewrite map_map. reflexivity.
Qed.

(* ---- base64 as protojson reads it -------------------------------------------------------------------------- *)
Definition std_charb (c : ascii) : bool :=
  negb ((code c =? 10)%N || (code c =? 13)%N) && negb (Ascii.eqb c "-"%char || Ascii.eqb c "_"%char).
Lemma std_char_b64 x : std_charb (b64_char false x) = true.
Proof. destruct x as [[[[[a b] c] d] e] f]. destruct a, b, c, d, e, f; reflexivity. Qed.

Lemma b64_std_chars x : forallb std_charb (b64_enc false true x) = true.
Proof.
  induction x as [|a|a b|a b c r IH] using list_ind3.
  - reflexivity.
  - destruct a. simpl. rewrite !std_char_b64. reflexivity.
  - destruct a, b. simpl. rewrite !std_char_b64. reflexivity.
  - change (b64_enc false true (a :: b :: c :: r)) with (enc3 false a b c ++ b64_enc false true r).
    rewrite forallb_app, IH. destruct a, b, c. simpl. rewrite !std_char_b64. reflexivity.
Qed.
Lemma b64_std_len x : exists q, List.length (b64_enc false true x) = (4 * q)%nat.
Proof.
  induction x as [|a|a b|a b c r [q IH]] using list_ind3.
  - exists 0%nat. reflexivity.
  - exists 1%nat. destruct a. reflexivity.
  - exists 1%nat. destruct a, b. reflexivity.
  - exists (S q). change (b64_enc false true (a :: b :: c :: r)) with (enc3 false a b c ++ b64_enc false true r).
    rewrite app_length, IH. destruct a, b, c. simpl. lia.
Qed.
Lemma existsb_false_of_forallb {A} (f g : A -> bool) l :
  (forall c, g c = true -> f c = false) -> forallb g l = true -> existsb f l = false.
Proof.
  intros H. induction l as [|c r IH]; simpl; [reflexivity|].
  intros Hg. apply andb_prop in Hg. destruct Hg as [H1 H2]. rewrite (H c H1), (IH H2). reflexivity.
Qed.
Lemma pj_b64_roundtrip x : pj_b64_dec (b64_enc false true x) = ROk x.
Proof.
  unfold pj_b64_dec.
  assert (Hc : has_crlf (b64_enc false true x) = false).
  { unfold has_crlf. eapply existsb_false_of_forallb; [|apply b64_std_chars].
    intros c Hc. unfold std_charb in Hc. apply andb_prop in Hc. destruct Hc as [Hc _].
    apply Bool.negb_true_iff in Hc. exact Hc. }
  rewrite Hc.
  assert (Hu : existsb (fun c => Ascii.eqb c "-"%char || Ascii.eqb c "_"%char) (b64_enc false true x) = false).
  { eapply existsb_false_of_forallb; [|apply b64_std_chars].
    intros c Hc'. unfold std_charb in Hc'. apply andb_prop in Hc'. destruct Hc' as [_ Hc'].
    apply Bool.negb_true_iff in Hc'. exact Hc'. }
  rewrite Hu.
  destruct (b64_std_len x) as [q Hq]. rewrite Hq.
  replace (Nat.modulo (4 * q) 4 =? 0)%nat with true.
  - rewrite b64_roundtrip. reflexivity.
  - symmetry. apply Nat.eqb_eq. rewrite Nat.mul_comm. apply Nat.mod_mul. discriminate.
Qed.

(* ---- scalars ------------------------------------------------------------------------------------------------- *)
Section RT.
Variable E : ExtLib.
Hypothesis EL : ExtLaws E.
Variable sc : schema.

Lemma float_rt is64 b j :
  float_ok is64 b = true -> float_json E is64 b = ROk j -> float_of_json E is64 j = ROk (VFloat b).
Proof.
  unfold float_ok, float_json. destruct (fclassify is64 b) eqn:Ec; intros Hok Hj.
  - inversion Hj; subst. apply Z.eqb_eq in Hok. subst. reflexivity.
  - inversion Hj; subst. apply Z.eqb_eq in Hok. subst. reflexivity.
  - inversion Hj; subst. apply Z.eqb_eq in Hok. subst. reflexivity.
  - destruct (x_fprint E is64 b) as [j'|] eqn:Ep; [|discriminate]. inversion Hj; subst j'.
    apply Z.leb_le in Hok.
    destruct (law_fprint_num E EL _ _ _ Ep) as [[z Hz]|[f Hf]]; subst j.
    + unfold float_of_json. simpl is_jnumber. cbv iota.
      destruct is64.
      * destruct (law_f64 E EL _ _ Ep) as [b32 Hs]. rewrite Hs.
        destruct (Z.ltb_spec b 0); [lia|reflexivity].
      * destruct (law_f32 E EL _ _ Ep) as [b64 Hs]. rewrite Hs.
        destruct (Z.ltb_spec b 0); [lia|reflexivity].
    + unfold float_of_json, jflt.
      assert (Hn : is_jnumber (JObj [(s "$f", JNum f)]) = true) by reflexivity.
      rewrite Hn.
      destruct is64.
      * destruct (law_f64 E EL _ _ Ep) as [b32 Hs]. unfold jflt in Hs. rewrite Hs.
        destruct (Z.ltb_spec b 0); [lia|reflexivity].
      * destruct (law_f32 E EL _ _ Ep) as [b64 Hs]. unfold jflt in Hs. rewrite Hs.
        destruct (Z.ltb_spec b 0); [lia|reflexivity].
Qed.

Lemma int_rt k z j :
  (is_int32_kind k || is_int64_kind k) = true -> in_int_range k z = true ->
  (if is_int32_kind k then ROk (JNum z) else if is_int64_kind k then ROk (JStr (show_Z z)) else RUnm (s "ill-typed value")) = ROk j ->
  int_of_json k j = ROk (VInt z).
Proof.
  intros Hk Hr Hj. destruct (is_int32_kind k) eqn:E32.
  - inversion Hj; subst. simpl. rewrite Hr. reflexivity.
  - simpl in Hk. rewrite Hk in Hj. inversion Hj; subst. simpl.
    rewrite decimal_roundtrip, Hr. reflexivity.
Qed.

Lemma scalar_rt k x j :
  is_msgk k = false -> wt_scalar sc k x = true -> pj_scalar E sc k x = ROk j -> pj_unscalar E sc k j = ROk x.
Proof.
  intros Hk Hwt Hj.
  destruct x as [z|b|x|x|b|n].
  - (* VInt *)
    assert (Hw : (is_int32_kind k || is_int64_kind k) = true /\ in_int_range k z = true).
    { destruct k; try discriminate Hwt; apply andb_prop; exact Hwt. }
    destruct Hw as [Hw1 Hw2].
    assert (Hj' : (if is_int32_kind k then ROk (JNum z) else if is_int64_kind k then ROk (JStr (show_Z z)) else RUnm (s "ill-typed value")) = ROk j).
    { destruct k; simpl in Hw1; try discriminate; exact Hj. }
    pose proof (int_rt k z j Hw1 Hw2 Hj') as Hi.
    destruct k; simpl in Hw1; try discriminate; exact Hi.
  - destruct k; simpl in Hwt; try discriminate. inversion Hj; subst. reflexivity.
  - destruct k; simpl in Hwt; try discriminate. inversion Hj; subst. reflexivity.
  - destruct k; simpl in Hwt; try discriminate. inversion Hj; subst. simpl.
    rewrite pj_b64_roundtrip. reflexivity.
  - destruct k; simpl in Hwt; try discriminate.
    + simpl in Hj. simpl. apply float_rt; assumption.
    + simpl in Hj. simpl. apply float_rt; assumption.
  - destruct k; simpl in Hwt; try discriminate.
    simpl in Hj. unfold enum_json in Hj. simpl. unfold enum_of_json.
    destruct (find_enum (all_enums sc) tn) as [e|]; [|discriminate].
    unfold enum_rt in Hwt. apply andb_prop in Hwt. destruct Hwt as [Hr Hv].
    destruct (ev_by_number (e_values e) n) as [v|] eqn:Ev.
    + inversion Hj; subst j.
      destruct (ev_by_name (e_values e) (ev_name v)) as [v'|]; [|discriminate].
      apply Z.eqb_eq in Hv. rewrite Hv. reflexivity.
    + inversion Hj; subst j. rewrite Hr. reflexivity.
Qed.

Lemma key_rt kk key t : wt_key kk key = true -> key_text key = ROk t -> key_of_text kk t = ROk key.
Proof.
  intros Hw Ht. destruct key as [z|b|x|x|b|n]; simpl in Ht; try discriminate; inversion Ht; subst t.
  - assert (Hw' : (is_int32_kind kk || is_int64_kind kk) = true /\ in_int_range kk z = true).
    { destruct kk; try discriminate Hw; apply andb_prop; exact Hw. }
    destruct Hw' as [H1 H2].
    destruct kk; simpl in H1; try discriminate; simpl; rewrite decimal_roundtrip, H2; reflexivity.
  - destruct kk; simpl in Hw; try discriminate. destruct b; reflexivity.
  - destruct kk; simpl in Hw; try discriminate. reflexivity.
Qed.

(* ---- timestamps ------------------------------------------------------------------------------------------------ *)
Lemma ts_ok_canon m :
  ts_ok m = true ->
  ts_in_range (mget_int m (s "seconds")) (mget_int m (s "nanos")) = true /\
  FM m = ts_value (mget_int m (s "seconds")) (mget_int m (s "nanos")).
Proof.
  unfold ts_ok. destruct m as [|[k1 v1] [|[k2 v2] [|e3 r]]].
  - intros _. split; reflexivity.
  - destruct v1 as [[z| | | | | ]| | | ]; try discriminate.
    intros H. apply Bool.orb_true_iff in H. destruct H as [H|H].
    + apply andb_prop in H. destruct H as [H Hr]. apply andb_prop in H. destruct H as [Hk Hz].
      apply str_eqb_eq in Hk. subst k1. apply Bool.negb_true_iff in Hz.
      unfold mget_int, ts_value. simpl. rewrite Hz. split; [exact Hr|reflexivity].
    + apply andb_prop in H. destruct H as [H Hr]. apply andb_prop in H. destruct H as [Hk Hz].
      apply str_eqb_eq in Hk. subst k1. apply Bool.negb_true_iff in Hz.
      unfold mget_int, ts_value. simpl. rewrite Hz. split; [exact Hr|reflexivity].
  - destruct v1 as [[a| | | | | ]| | | ]; try discriminate.
    destruct v2 as [[b| | | | | ]| | | ]; try discriminate.
    intros H. repeat (apply andb_prop in H; destruct H as [H ?]).
    apply str_eqb_eq in H. apply str_eqb_eq in H3. subst k1 k2.
    apply Bool.negb_true_iff in H2. apply Bool.negb_true_iff in H1.
    unfold mget_int, ts_value. simpl. rewrite H2, H1. split; [assumption|reflexivity].
  - destruct v1 as [[a| | | | | ]| | | ]; try discriminate.
    destruct v2 as [[b| | | | | ]| | | ]; discriminate.
Qed.

(* ---- the round trip ----------------------------------------------------------------------------------------------- *)
Definition Q (v : fval) : Prop :=
  forall k j, wt sc k v = true -> pj_fval E sc k v = ROk j -> pj_un E sc k j = ROk v.
Definition PP (v : fval) : Prop :=
  match v with
  | FL l => Forall Q l
  | FMap kv => Forall (fun e => Q (snd e)) kv
  | _ => Q v
  end.

Lemma Q_of_PP v : PP v -> Q v.
Proof.
  destruct v; simpl; auto; intros _ k j Hwt; simpl in Hwt; discriminate.
Qed.

Lemma pj_not_null k v j : pj_fval E sc k v = ROk j -> j <> JNull.
Proof.
  destruct v as [x|m|l|kv].
  - rewrite pj_fval_FS. intros H Hn. subst j.
    destruct x, k; simpl in H; try discriminate;
      try (unfold float_json in H; destruct (fclassify _ _); try discriminate;
           destruct (x_fprint E _ _) eqn:Ep; try discriminate; inversion H; subst;
           destruct (law_fprint_num E EL _ _ _ Ep) as [[? ?]|[? ?]]; discriminate).
    unfold enum_json in H. destruct (find_enum _ _); try discriminate. destruct (ev_by_number _ _); discriminate.
  - destruct k; try (intros H; discriminate H). rewrite pj_fval_FM.
    destruct (str_eqb tn ts_name).
    + unfold pj_timestamp. destruct (ts_in_range _ _); intros H; inversion H; discriminate.
    + destruct (is_wkt_other tn); [discriminate|]. destruct (find_message _ _); [|discriminate].
      intros H. apply rbind_ok in H. destruct H as [es [_ H]]. inversion H. discriminate.
  - rewrite pj_fval_FL. intros H. apply rbind_ok in H. destruct H as [js [_ H]]. inversion H. discriminate.
  - rewrite pj_fval_FMap. intros H. apply rbind_ok in H. destruct H as [js [_ H]]. inversion H. discriminate.
Qed.

Lemma list_rt k l js :
  Forall Q l ->
  (fix all (l : list fval) : bool := match l with [] => true | y :: t => wt sc k y && all t end) l = true ->
  m_list E sc k l = ROk js -> u_elems E sc k js = ROk l.
Proof.
  intros HQ. revert js. induction HQ as [|x r Hx Hr IH]; intros js Hw Hm.
  - simpl in Hm. inversion Hm. reflexivity.
  - apply andb_prop in Hw. destruct Hw as [Hwx Hwr].
    simpl in Hm. apply rbind_ok in Hm. destruct Hm as [j [Hj Hm]].
    apply rbind_ok in Hm. destruct Hm as [t [Ht Hm]]. inversion Hm; subst js.
    simpl. rewrite (Hx k j Hwx Hj). simpl. rewrite (IH t Hwr Ht). reflexivity.
Qed.

Lemma map_rt kk k kv es :
  Forall (fun e => Q (snd e)) kv ->
  (fix all (kv : list (sval * fval)) : bool :=
     match kv with [] => true | (key, y) :: t => wt_key kk key && wt sc k y && all t end) kv = true ->
  m_map E sc k kv = ROk es -> u_ents E sc kk k es = ROk kv.
Proof.
  intros HQ. revert es. induction HQ as [|[key x] r Hx Hr IH]; intros es Hw Hm.
  - simpl in Hm. inversion Hm. reflexivity.
  - apply andb_prop in Hw. destruct Hw as [Hw Hwr]. apply andb_prop in Hw. destruct Hw as [Hwk Hwx].
    simpl in Hm. apply rbind_ok in Hm. destruct Hm as [kt [Hkt Hm]].
    apply rbind_ok in Hm. destruct Hm as [j [Hj Hm]].
    apply rbind_ok in Hm. destruct Hm as [t [Ht Hm]]. inversion Hm; subst es.
    simpl. rewrite (key_rt kk key kt Hwk Hkt). simpl. simpl in Hx. rewrite (Hx k j Hwx Hj). simpl.
    rewrite (IH t Hwr Ht). reflexivity.
Qed.

(* one populated field *)
Definition wt_entry (f : field) (x : fval) : bool :=
  match f_card f, x with
  | Repeated, FL (e :: l) =>
      (fix all (l : list fval) : bool := match l with [] => true | y :: t => wt sc (f_kind f) y && all t end) (e :: l)
  | MapOf kk, FMap (e :: kv) =>
      sorted_key (map fst (e :: kv)) &&
      (fix all (kv : list (sval * fval)) : bool :=
         match kv with [] => true | (key, y) :: t => wt_key kk key && wt sc (f_kind f) y && all t end) (e :: kv)
  | Singular, FS _ | Optional, FS _ => wt sc (f_kind f) x && populated f x
  | Singular, FM _ | Optional, FM _ => wt sc (f_kind f) x
  | _, _ => false
  end.

Lemma entry_rt f x j :
  PP x -> wt_entry f x = true -> pj_fval E sc (f_kind f) x = ROk j ->
  u_value E sc f j = ROk (Some x) /\ populated f x = true.
Proof.
  intros HP Hw Hj.
  pose proof (pj_not_null _ _ _ Hj) as Hnn.
  unfold wt_entry in Hw.
  destruct x as [sx|cm|l|kv].
  - (* scalar *)
    assert (Hc : (wt sc (f_kind f) (FS sx) && populated f (FS sx)) = true /\
                 match f_card f with Singular | Optional => True | _ => False end).
    { destruct (f_card f); try discriminate; split; auto. }
    destruct Hc as [Hw' Hcard]. apply andb_prop in Hw'. destruct Hw' as [Hwt Hpop].
    split; [|exact Hpop].
    pose proof (HP (f_kind f) j Hwt Hj) as Hu.
    unfold u_value. destruct j; try (exfalso; apply Hnn; reflexivity);
      destruct (f_card f); try contradiction; rewrite Hu; reflexivity.
  - assert (Hc : wt sc (f_kind f) (FM cm) = true /\
                 match f_card f with Singular | Optional => True | _ => False end).
    { destruct (f_card f); try discriminate; split; auto. }
    destruct Hc as [Hwt Hcard]. split; [|reflexivity].
    pose proof (HP (f_kind f) j Hwt Hj) as Hu.
    unfold u_value. destruct j; try (exfalso; apply Hnn; reflexivity);
      destruct (f_card f); try contradiction; rewrite Hu; reflexivity.
  - destruct l as [|e l]; [destruct (f_card f); discriminate|].
    assert (Hc : f_card f = Repeated) by (destruct (f_card f); try discriminate; reflexivity).
    rewrite Hc in Hw. split; [|reflexivity].
    rewrite pj_fval_FL in Hj. apply rbind_ok in Hj. destruct Hj as [js [Hjs Hj]]. inversion Hj; subst j.
    unfold u_value. rewrite Hc.
    rewrite (list_rt (f_kind f) (e :: l) js HP Hw Hjs). reflexivity.
  - destruct kv as [|e kv]; [destruct (f_card f); discriminate|].
    destruct (f_card f) as [| | |kk] eqn:Hc; try discriminate.
    apply andb_prop in Hw. destruct Hw as [Hs Hw]. split; [|reflexivity].
    rewrite pj_fval_FMap in Hj. apply rbind_ok in Hj. destruct Hj as [es [Hes Hj]]. inversion Hj; subst j.
    unfold u_value. rewrite Hc.
    rewrite (map_rt kk (f_kind f) (e :: kv) es HP Hw Hes). rewrite rbind_ROk.
    rewrite (sorted_key_no_dup _ Hs), (sorted_key_sort _ Hs). reflexivity.
Qed.

Definition wt_fields (md : message) : list (str * fval) -> bool :=
  fix go (m : list (str * fval)) : bool :=
    match m with
    | [] => true
    | (name, x) :: r =>
        match find_field (m_fields md) name with
        | None => false
        | Some f => wt_entry f x && go r
        end
    end.

Lemma wt_FM tn m :
  wt sc (KMessage tn) (FM m) =
  if str_eqb tn ts_name then ts_ok m
  else negb (is_wkt_other tn) &&
    match find_message (all_messages sc) tn with
    | None => false
    | Some md => msg_ok md && sorted_Z (map (fun e => num_of md (fst e)) m) && wt_fields md m
    end.
Proof. reflexivity. Qed.

Definition rel (md : message) (e : str * fval) (fv : field * fval) : Prop :=
  find_field (m_fields md) (fst e) = Some (fst fv) /\ snd e = snd fv /\ populated (fst fv) (snd fv) = true.

Lemma fields_rt md m es :
  msg_ok md = true -> Forall (fun e => PP (snd e)) m -> wt_fields md m = true ->
  m_msg E sc md m = ROk es ->
  exists fvs, u_fields E sc md es = ROk fvs /\ Forall2 (rel md) m fvs /\
              flat_map (fun e => match field_of_key md (fst e) with Some f => [(f, snd e)] | None => [] end) es
              = map (fun p => (fst (fst p), snd p)) (combine fvs (map snd es)) /\
              List.length es = List.length fvs.
Proof.
  intros Hok HP. revert es. induction HP as [|[name x] r Hx Hr IH]; intros es Hw Hm.
  - simpl in Hm. inversion Hm; subst. exists []. repeat split; constructor.
  - simpl in Hw. destruct (find_field (m_fields md) name) as [f|] eqn:Ef; [|discriminate].
    apply andb_prop in Hw. destruct Hw as [Hwe Hwr].
    simpl in Hm. rewrite Ef in Hm. apply rbind_ok in Hm. destruct Hm as [j [Hj Hm]].
    apply rbind_ok in Hm. destruct Hm as [t [Ht Hm]]. inversion Hm; subst es.
    destruct (IH t Hwr Ht) as [fvs [Hu [Hrel [Hfm Hlen]]]].
    destruct (msg_ok_key md name f Hok Ef) as [Hkey _].
    destruct (entry_rt f x j Hx Hwe Hj) as [Huv Hpop].
    exists ((f, x) :: fvs). repeat split.
    + simpl. rewrite Hkey, Huv. simpl. rewrite Hu. reflexivity.
    + constructor; [|exact Hrel]. unfold rel. simpl. auto.
    + simpl. rewrite Hkey. simpl. rewrite Hfm. reflexivity.
    + simpl. rewrite Hlen. reflexivity.
Qed.

Lemma rel_names md m fvs : Forall2 (rel md) m fvs -> map (fun fv => (f_name (fst fv), snd fv)) fvs = m.
Proof.
  induction 1 as [|[n x] [f v] r r' [H1 [H2 _]] _ IH]; [reflexivity|].
  simpl in *. subst v. apply find_field_spec in H1. destruct H1 as [_ H1]. rewrite H1, IH. reflexivity.
Qed.
Lemma rel_nums md m fvs : Forall2 (rel md) m fvs ->
  map (fun fv => f_number (fst fv)) fvs = map (fun e => num_of md (fst e)) m.
Proof.
  induction 1 as [|[n x] [f v] r r' [H1 _] _ IH]; [reflexivity|].
  simpl in *. unfold num_of at 1. rewrite H1, IH. reflexivity.
Qed.
Lemma rel_pop md m fvs : Forall2 (rel md) m fvs -> Forall (fun fv => populated (fst fv) (snd fv) = true) fvs.
Proof. induction 1 as [|e fv r r' [_ [_ H]] _ IH]; constructor; auto. Qed.
Lemma rel_oneof md m fvs : msg_ok md = true -> Forall2 (rel md) m fvs -> Forall (fun fv => f_oneof (fst fv) = None) fvs.
Proof.
  intros Hok. induction 1 as [|e fv r r' [H _] _ IH]; constructor; auto.
  eapply msg_ok_key; eauto.
Qed.

Lemma no_oneof_marks (l : list (field * json)) :
  Forall (fun p => f_oneof (fst p) = None) l ->
  flat_map (fun p => match snd p, f_oneof (fst p) with JNull, _ => [] | _, Some o => [o] | _, None => [] end) l = [].
Proof.
  induction 1 as [|p r Hp _ IH]; [reflexivity|]. simpl. rewrite Hp, IH. destruct (snd p); reflexivity.
Qed.

Lemma combine_fst_map {A B C} (g : A -> C) (l1 : list A) (l2 : list B) :
  List.length l1 = List.length l2 -> map (fun x => g (fst x)) (combine l1 l2) = map g l1.
Proof.
  revert l2. induction l1 as [|a r IH]; intros [|b l] Hl; simpl in *; try discriminate; [reflexivity|].
  f_equal. apply IH. injection Hl as Hl. exact Hl.
Qed.
Lemma Forall_combine_fst {A B} (P : A -> Prop) (l1 : list A) (l2 : list B) :
  Forall P l1 -> Forall (fun p => P (fst p)) (combine l1 l2).
Proof.
  intros H. revert l2. induction H as [|a r Ha _ IH]; intros [|b l]; simpl; constructor; auto.
Qed.

Theorem pj_roundtrip_fval : forall v, PP v.
Proof.
  apply fval_ind'.
  - (* scalar *)
    intros x k j Hwt Hj. simpl in Hwt. apply andb_prop in Hwt. destruct Hwt as [Hk Hwt].
    apply Bool.negb_true_iff in Hk. rewrite pj_fval_FS in Hj.
    rewrite pj_un_scalar by exact Hk. rewrite (scalar_rt k x j Hk Hwt Hj). reflexivity.
  - (* message *)
    intros m HP k j Hwt Hj.
    destruct k as [| | | | | | | | | | | | | | | tn0 | tn]; try (simpl in Hwt; discriminate).
    rewrite wt_FM in Hwt. rewrite pj_fval_FM in Hj.
    destruct (str_eqb tn ts_name) eqn:Ets.
    + apply str_eqb_eq in Ets. subst tn. rewrite pj_un_ts.
      destruct (ts_ok_canon m Hwt) as [Hr Hc]. unfold pj_timestamp in Hj.
      remember (mget_int m (s "seconds")) as sec. remember (mget_int m (s "nanos")) as nn.
      cbv zeta in Hj. rewrite Hr in Hj.
      assert (Hjj : j = JStr (x_ts_text E sec nn)) by congruence. subst j.
      unfold ts_of_json. rewrite (law_ts E EL _ _ Hr), Hr, Hc. reflexivity.
    + apply andb_prop in Hwt. destruct Hwt as [Hwk Hwt]. apply Bool.negb_true_iff in Hwk.
      rewrite Hwk in Hj. rewrite (pj_un_msg E sc tn j Ets Hwk).
      destruct (find_message (all_messages sc) tn) as [md|]; [|discriminate].
      apply andb_prop in Hwt. destruct Hwt as [Hwt Hwf]. apply andb_prop in Hwt. destruct Hwt as [Hok Hsorted].
      apply rbind_ok in Hj. destruct Hj as [es [Hes Hj]]. inversion Hj; subst j.
      destruct (fields_rt md m es Hok HP Hwf Hes) as [fvs [Hu [Hrel [Hfm Hlen]]]].
      assert (Hdup : dup_check md es = false).
      { unfold dup_check. rewrite Hfm.
        rewrite map_map. simpl.
        assert (Hn : map (fun x => f_number (fst (fst x))) (combine fvs (map snd es)) = map (fun fv => f_number (fst fv)) fvs).
        { apply (combine_fst_map (fun fv : field * fval => f_number (fst fv))). rewrite map_length. symmetry. exact Hlen. }
        rewrite Hn, (rel_nums md m fvs Hrel), (sorted_no_dup _ Hsorted). simpl.
        rewrite no_oneof_marks; [reflexivity|].
        apply Forall_map. simpl.
        apply (Forall_combine_fst (fun fv : field * fval => f_oneof (fst fv) = None)).
        exact (rel_oneof md m fvs Hok Hrel). }
      rewrite Hdup, Hu. simpl.
      rewrite assemble_canon.
      * rewrite (rel_names md m fvs Hrel). reflexivity.
      * rewrite (rel_nums md m fvs Hrel). exact Hsorted.
      * exact (rel_pop md m fvs Hrel).
  - (* list *)
    intros l HP. simpl. eapply Forall_impl; [|exact HP]. intros a. apply Q_of_PP.
  - (* map *)
    intros kv HP. simpl. eapply Forall_impl; [|exact HP]. intros a. apply Q_of_PP.
Qed.

Theorem pj_roundtrip : forall tn m j,
  wt sc (KMessage tn) (FM m) = true -> pj_marshal E sc tn m = ROk j -> pj_unmarshal E sc tn j = ROk m.
Proof.
  intros tn m j Hwt Hj. unfold pj_unmarshal, pj_marshal in *.
  rewrite (Q_of_PP _ (pj_roundtrip_fval (FM m)) (KMessage tn) j Hwt Hj). reflexivity.
Qed.
End RT.
Close Scope Z_scope.
