(* ConformFacts.v — C06: the wire JSON of the Go server / Go client validates against the schema the
   OpenAPI document of the same service publishes.
     part 1  reading the emitted tree, the validator on small keyword lists
     part 2  C06_scalar_valid: every scalar kind, every typed value outside the defect classes
     part 3  cardinalities and whole messages (plain fragment), no undescribed property
     part 4  satisfiability, error bodies, URL values
     part 5  refutation witnesses and the non-vacuity example *)
From Sebuf Require Import Conform.
From SebufProofs Require Import JsonSchemaFacts RulesFacts OpenApiFacts TextFacts CodecTextFacts ProtoJsonFacts CodecExamples MappingFacts.

(* ================================================================================================ *)
(*  Part 1                                                                                           *)
(* ================================================================================================ *)
Definition rd (fu : nat) (n : ynode) : jschema := schema_of_jv (S fu) (denote reader12 n).

Lemma typed_rd n : typed n = rd 7 n.
Proof. reflexivity. Qed.

Lemma rd_ymap fu es : rd fu (YMap es) = SObj (map (kw12 fu) es).
Proof. apply schema_of_ymap. Qed.

Lemma denote_map_go (kv : list (str * ynode)) :
  (fix go (kv : list (str * ynode)) : list (str * jv) :=
     match kv with
     | [] => []
     | (k, x) :: r => (key_of_jv k (rd_str reader12 k), denote reader12 x) :: go r
     end) kv = map (fun e => (fst e, denote reader12 (snd e))) kv.
Proof. induction kv as [|[k x] r IH]; [reflexivity|]. cbn [map fst snd]. now rewrite IH. Qed.

Lemma kw_properties fu ps :
  kw12 fu (s "properties", YMap ps) = KwProperties (map (fun e => (fst e, schema_of_jv fu (denote reader12 (snd e)))) ps).
Proof.
  unfold kw12. cbn [fst snd denote]. rewrite denote_map_go.
  change (kw_of_entry (schema_of_jv fu) (s "properties") (JVObj (map (fun e => (fst e, denote reader12 (snd e))) ps)))
    with (KwProperties (map (fun e => (fst e, schema_of_jv fu (snd e))) (map (fun e => (fst e, denote reader12 (snd e))) ps))).
  now rewrite map_map.
Qed.

Lemma kw_type_object fu : kw12 fu (s "type", ystr "object") = KwType [TObject].
Proof. reflexivity. Qed.
Lemma kw_type_array fu : kw12 fu (s "type", ystr "array") = KwType [TArray].
Proof. reflexivity. Qed.
Lemma kw_type_string fu : kw12 fu (s "type", ystr "string") = KwType [TString].
Proof. reflexivity. Qed.
Lemma kw12_items fu n : kw12 (S fu) (s "items", n) = KwItems (rd fu n).
Proof. reflexivity. Qed.
Lemma kw12_additional fu n : kw12 (S fu) (s "additionalProperties", n) = KwAdditional (rd fu n).
Proof. reflexivity. Qed.

Lemma rd_ref fu short : rd fu (ref_to short) = SObj [KwRef short].
Proof.
  unfold ref_to. rewrite rd_ymap. cbn [map]. unfold kw12. cbn [fst snd denote rd_str reader12].
  change (kw_of_entry (schema_of_jv fu) (s "$ref") (JVStr (ref_prefix ++ short)))
    with (if has_prefix ref_prefix (ref_prefix ++ short)
          then KwRef (skipn (List.length ref_prefix) (ref_prefix ++ short)) else KwRefOther (ref_prefix ++ short)).
  now rewrite has_prefix_app, skipn_app_len.
Qed.

(* ---- the validator, one level ------------------------------------------------------------------- *)
Lemma validates_S P cs n kws v :
  validates P cs (S n) (SObj kws) v =
  vall (map (fun kw => check_kw P cs (validates P cs n) (declared_props kws) kw v) kws).
Proof. reflexivity. Qed.

Lemma vall_all_true {A} (f : A -> vres) (l : list A) :
  (forall a, In a l -> f a = VOk true) -> vall (map f l) = VOk true.
Proof.
  intros H. rewrite (vall_all_ok f (fun _ => true) l H). now rewrite forallb_forall_true.
Qed.

Lemma vall_cons_true r l : r = VOk true -> vall l = VOk true -> vall (r :: l) = VOk true.
Proof. intros -> H. unfold vall in *. cbn [fold_right]. now rewrite H. Qed.

Lemma find_comp_map {A B} (g : A -> B) (cs : list (str * A)) name :
  find_comp (map (fun e => (fst e, g (snd e))) cs) name = option_map g (find_comp cs name).
Proof.
  unfold find_comp. induction cs as [|[k a] r IH]; [reflexivity|]. cbn [map find fst snd].
  destruct (str_eqb k name); [reflexivity|exact IH].
Qed.

Lemma find_comp_find {A} (cs : list (str * A)) name a :
  find_comp cs name = Some a -> exists e, find (fun e => str_eqb (fst e) name) cs = Some e /\ snd e = a.
Proof.
  unfold find_comp. destruct (find _ cs) as [e|]; [|discriminate]. intros H. injection H as <-. now exists e.
Qed.

(* a $ref to a registered component *)
Lemma validates_ref P cs n short t v :
  find_comp cs short = Some t ->
  validates P cs (S n) (SObj [KwRef short]) v = vand (validates P cs n t v) (VOk true).
Proof.
  intros H. destruct (find_comp_find _ _ _ H) as [e [He <-]].
  rewrite validates_S. cbn [map declared_props flat_map check_kw]. rewrite He. reflexivity.
Qed.

Lemma vand_true_r r : r = VOk true -> vand r (VOk true) = VOk true.
Proof. now intros ->. Qed.

(* ---- wire_jv -------------------------------------------------------------------------------------- *)
Lemma wire_go (kv : list (str * json)) :
  (fix go (kv : list (str * json)) : list (str * jv) :=
     match kv with [] => [] | (k, x) :: r => (k, wire_jv x) :: go r end) kv
  = map (fun e => (fst e, wire_jv (snd e))) kv.
Proof. induction kv as [|[k x] r IH]; [reflexivity|]. cbn [map fst snd]. now rewrite IH. Qed.

Lemma wire_jv_obj kv : is_jflt (JObj kv) = false ->
  wire_jv (JObj kv) = JVObj (map (fun e => (fst e, wire_jv (snd e))) kv).
Proof.
  intros H. rewrite <- wire_go.
  destruct kv as [|[k x] [|e r]]; try reflexivity; destruct x; try reflexivity.
  cbn [is_jflt] in H. change (wire_jv (JObj [(k, JNum z)])) with
    (if str_eqb k fmark then JVNum (f64_dec z) else JVObj [(k, wire_jv (JNum z))]).
  unfold fmark. now rewrite H.
Qed.

Lemma wire_jv_jflt b : wire_jv (jflt b) = JVNum (f64_dec b).
Proof. reflexivity. Qed.

Lemma assoc_jv_map_wire k (es : list (str * json)) x :
  assoc_jv k (map (fun e => (fst e, wire_jv (snd e))) es) = Some x ->
  exists e, In e es /\ fst e = k /\ x = wire_jv (snd e).
Proof.
  induction es as [|[k' j] r IH]; [discriminate|]. cbn [map assoc_jv fst snd].
  destruct (str_eqb k k') eqn:E.
  - intros H. injection H as <-. apply str_eqb_eq in E. subst. exists (k', j). split; [now left|now split].
  - intros H. destruct (IH H) as [e [Hin He]]. exists e. split; [now right|exact He].
Qed.

(* ================================================================================================ *)
(*  Part 2: scalars                                                                                  *)
(* ================================================================================================ *)
(* formats that describe the wire encoding of a kind: a format checker must treat them as annotations
   (JSON Schema 2020-12: format is an annotation unless the format-assertion vocabulary is required) *)
Definition wire_formats : list str :=
  [s "int32"; s "int64"; s "uint64"; s "float"; s "double"; s "byte"; s "date-time"].
Definition wire_formats_are_annotations (P : vparams) : Prop :=
  forall name x, mem_str name wire_formats = true -> vp_format P name x = true.

(* the one library law the proofs use (Ext.law_fprint_num): a finite float prints as a JSON number *)
Definition fprint_is_number (E : ExtLib) : Prop :=
  forall w b j, x_fprint E w b = Some j -> (exists z, j = JNum z) \/ (exists f, j = jflt f).
Lemma ext_laws_fprint E : ExtLaws E -> fprint_is_number E.
Proof. intros EL w b j. apply (law_fprint_num E EL). Qed.

Definition is_scalar_kind (k : kind) : bool := match k with KEnum _ | KMessage _ => false | _ => true end.

(* the schema of one element of kind k: what convertScalarField gives for a field without annotations
   and without validation rules *)
Definition elem_node (sc : schema) (k : kind) : ynode :=
  convert_scalar sc no_side [] (OpenApi.plain_field [] 0 k Singular).

Definition scalar_kws (k : kind) : list keyword :=
  match k with
  | KBool => [KwType [TBoolean]]
  | KInt32 | KSint32 | KSfixed32 => [KwType [TInteger]; KwFormat (s "int32")]
  | KUint32 | KFixed32 => [KwType [TInteger]; KwFormat (s "int32"); KwMinimum (dec_of_Z 0)]
  | KInt64 | KSint64 | KSfixed64 => [KwType [TString]; KwFormat (s "int64")]
  | KUint64 | KFixed64 => [KwType [TString]; KwFormat (s "uint64")]
  | KFloat => [KwType [TNumber]; KwFormat (s "float")]
  | KDouble => [KwType [TNumber]; KwFormat (s "double")]
  | KString => [KwType [TString]]
  | KBytes => [KwType [TString]; KwFormat (s "byte")]
  | _ => []
  end.

Lemma rd_scalar_node sc fu k : is_scalar_kind k = true -> rd fu (elem_node sc k) = SObj (scalar_kws k).
Proof. destruct k; try discriminate; intros _; reflexivity. Qed.

Lemma constraint_entries_none k l m : constraint_entries k l m no_rules = [].
Proof. destruct k, l, m; reflexivity. Qed.

(* a field without annotations publishes, for its elements, the schema of its kind *)
Lemma convert_scalar_plain sc mn f :
  MappingFacts.plain_field f = true -> convert_scalar sc no_side mn f = elem_node sc (f_kind f).
Proof.
  intros Hp. destruct (plain_field_facts f Hp) as [_ [Hi [He [_ [_ [Ht [Hb _]]]]]]].
  unfold elem_node, convert_scalar. cbn [f_kind OpenApi.plain_field f_name].
  unfold side_rules, side_examples. cbn [sd_rules sd_examples no_side find].
  rewrite !constraint_entries_none.
  destruct (f_kind f) eqn:Ek; cbn [example_entries app];
    unfold i64_number, bytes_entries; cbn [f_int64 f_bytesenc OpenApi.plain_field]; rewrite ?Hi, ?Hb; try reflexivity.
  - unfold enum_schema. cbn [f_enumenc OpenApi.plain_field]. now rewrite He.
  - unfold timestamp_schema. cbn [f_tsfmt OpenApi.plain_field f_kind]. rewrite Ht. reflexivity.
Qed.

Lemma dec_leb_0 z : (0 <= z)%Z -> dec_leb (dec_of_Z 0) (dec_of_Z z) = true.
Proof. intros H. unfold dec_of_Z. rewrite dec_leb_int. now apply Z.leb_le. Qed.

Section Scalars.
Variable E : ExtLib.
Hypothesis EL : fprint_is_number E.
Variable sc : schema.
Variable P : vparams.
Hypothesis Hfmt : wire_formats_are_annotations P.
Variable cst : list (str * jschema).

(* the JSON protojson writes for a typed scalar outside the defect classes, by shape *)
Lemma pj_scalar_shape k x j :
  is_scalar_kind k = true -> wt_scalar sc k x = true -> scalar_issues sc k x = [] ->
  pj_scalar E sc k x = ROk j ->
  match k with
  | KBool => exists b, wire_jv j = JVBool b
  | KString | KBytes => exists t, wire_jv j = JVStr t
  | KFloat | KDouble => exists d, wire_jv j = JVNum d
  | _ => if ProtoJson.is_int32_kind k
         then exists z, wire_jv j = JVNum (dec_of_Z z) /\ (ProtoJson.int_lo k <= z)%Z
         else exists t, wire_jv j = JVStr t
  end.
Proof.
  intros Hk Hwt Hiss Hj.
  destruct k; try discriminate Hk; destruct x; cbn in Hwt; try discriminate Hwt; cbn in Hj.
  (* floats *)
  1,2: unfold float_json in Hj; cbn [scalar_issues] in Hiss; unfold float_is_finite in Hiss;
       destruct (fclassify _ bits); try discriminate Hiss;
       destruct (x_fprint E _ bits) as [j0|] eqn:Ep; try discriminate Hj; injection Hj as <-;
       destruct (EL _ _ _ Ep) as [[z ->]|[f ->]]; eexists; reflexivity.
  (* integers *)
  all: try (injection Hj as <-; cbn [ProtoJson.is_int32_kind];
            first [ eexists; reflexivity
                  | exists z; split; [reflexivity|];
                    unfold in_int_range in Hwt; apply andb_prop in Hwt as [Hlo _]; now apply Z.leb_le in Hlo ]).
Qed.

Theorem scalar_valid k x j fu n :
  is_scalar_kind k = true -> wt_scalar sc k x = true -> scalar_issues sc k x = [] ->
  pj_scalar E sc k x = ROk j ->
  validates P cst (S n) (rd fu (elem_node sc k)) (wire_jv j) = VOk true.
Proof.
  intros Hk Hwt Hiss Hj. rewrite (rd_scalar_node sc fu k Hk).
  pose proof (pj_scalar_shape k x j Hk Hwt Hiss Hj) as Hs.
  rewrite validates_S.
  destruct k; try discriminate Hk; cbn [ProtoJson.is_int32_kind] in Hs;
    try (destruct Hs as [z [-> Hlo]]); try (destruct Hs as [t ->]);
    cbn [scalar_kws map check_kw declared_props flat_map app];
    rewrite ?Hfmt by reflexivity;
    try reflexivity.
  all: cbn in Hlo; unfold vall; cbn [fold_right has_type existsb orb]; rewrite (dec_leb_0 z Hlo); reflexivity.
Qed.

(* enums: the value's name is one of the listed names *)
Theorem enum_valid tn n0 j fu n :
  wt_scalar sc (KEnum tn) (VEnum n0) = true -> scalar_issues sc (KEnum tn) (VEnum n0) = [] ->
  plain_enum sc (KEnum tn) = true ->
  pj_scalar E sc (KEnum tn) (VEnum n0) = ROk j ->
  validates P cst (S n) (rd fu (elem_node sc (KEnum tn))) (wire_jv j) = VOk true.
Proof.
  intros Hwt Hiss Hpl Hj. cbn in Hwt, Hiss, Hpl, Hj. unfold enum_json in Hj.
  unfold elem_node, convert_scalar. cbn [f_kind OpenApi.plain_field]. unfold enum_schema. cbn [f_enumenc OpenApi.plain_field].
  destruct (find_enum (all_enums sc) tn) as [e|]; [|discriminate Hwt].
  destruct (ev_by_number (e_values e) n0) as [v|] eqn:Ev; [|discriminate Hiss].
  injection Hj as <-. cbn [wire_jv].
  destruct (reads_as_string reader12 (ev_name v)) eqn:Er; [|discriminate Hiss].
  assert (Hin : In v (e_values e)).
  { clear -Ev. induction (e_values e) as [|a r IH]; [discriminate|]. cbn in Ev.
    destruct (ev_number a =? n0)%Z; [injection Ev as <-; now left|right; now apply IH]. }
  assert (Hnames : map (fun v0 => YPlain (match ev_custom v0 with
                                          | Some c => match c with [] => ev_name v0 | _ :: _ => c end
                                          | None => ev_name v0 end)) (e_values e)
                   = map YPlain (map ev_name (e_values e))).
  { rewrite map_map. apply map_ext_in. intros a Ha. rewrite forallb_forall in Hpl. specialize (Hpl a Ha).
    destruct (ev_custom a); [discriminate|reflexivity]. }
  rewrite Hnames, rd_ymap. cbn [map]. rewrite kw_type_string, kw_enum. rewrite validates_S.
  cbn [map check_kw declared_props flat_map has_type existsb orb].
  apply vall_cons_true; [reflexivity|]. apply vall_cons_true; [|reflexivity]. f_equal.
  apply existsb_exists. exists (JVStr (ev_name v)). split.
  - rewrite <- (reads_as_string_eq _ Er). apply in_map. now apply in_map.
  - cbn [jv_eqb]. apply str_eqb_refl.
Qed.
End Scalars.

Theorem scalar_valid_all : forall (E : ExtLib) (sc : schema) (P : vparams) (cst : list (str * jschema))
    (k : kind) (x : sval) (j : json) (fu n : nat),
  fprint_is_number E -> wire_formats_are_annotations P ->
  is_scalar_kind k = true -> wt_scalar sc k x = true -> scalar_issues sc k x = [] ->
  pj_scalar E sc k x = ROk j ->
  validates P cst (S n) (rd fu (elem_node sc k)) (wire_jv j) = VOk true.
Proof. intros E sc P cst k x j fu n EL Hf. exact (scalar_valid E EL sc P Hf cst k x j fu n). Qed.

(* the same, against what convertScalarField publishes for any field of that kind without annotations *)
Theorem scalar_valid_field : forall (E : ExtLib) (sc : schema) (P : vparams) (cst : list (str * jschema)) (mn : str) (f : field) (x : sval) (j : json) (fu n : nat),
  fprint_is_number E -> wire_formats_are_annotations P ->
  MappingFacts.plain_field f = true -> is_msgk (f_kind f) = false ->
  wt_scalar sc (f_kind f) x = true -> scalar_issues sc (f_kind f) x = [] -> plain_enum sc (f_kind f) = true ->
  pj_scalar E sc (f_kind f) x = ROk j ->
  validates P cst (S n) (rd fu (convert_scalar sc no_side mn f)) (wire_jv j) = VOk true.
Proof.
  intros E sc P cst mn f x j fu n EL Hfmt Hpf Hk Hwt Hiss Hpe Hj.
  rewrite (convert_scalar_plain sc mn f Hpf).
  destruct (is_scalar_kind (f_kind f)) eqn:Es.
  - now apply (scalar_valid E EL sc P Hfmt cst (f_kind f) x j fu n).
  - destruct (f_kind f) eqn:Ek; try discriminate Es; [|discriminate Hk].
    destruct x; try discriminate Hwt. now apply (enum_valid E sc P cst tn n0 j fu n).
Qed.

(* ================================================================================================ *)
(*  Part 3: cardinalities and whole messages                                                          *)
(* ================================================================================================ *)
Lemma ynode_eqb_eq a : forall b, ynode_eqb a b = true -> a = b.
Proof.
  induction a as [x|x|x|d|b0| |l IH|kv IH] using ynode_ind'; intros b H; destruct b; try discriminate H; cbn [ynode_eqb] in H.
  - apply str_eqb_eq in H. now subst.
  - apply str_eqb_eq in H. now subst.
  - apply str_eqb_eq in H. now subst.
  - apply andb_prop in H as [H1 H2]. apply Z.eqb_eq in H1, H2. destruct d, d0. cbn in *. now subst.
  - apply Bool.eqb_prop in H. now subst.
  - reflexivity.
  - f_equal. revert l0 H. induction l as [|a l IHl]; intros [|b l0] H; try discriminate H; [reflexivity|].
    inversion IH as [|? ? Ha Hl]; subst. apply andb_prop in H as [H1 H2]. f_equal; [now apply Ha|now apply IHl].
  - f_equal. revert kv0 H. induction kv as [|[k a] kv IHl]; intros [|[k' b] kv0] H; try discriminate H; [reflexivity|].
    inversion IH as [|? ? Ha Hl]; subst. cbn [snd] in Ha.
    apply andb_prop in H as [H1 H3]. apply andb_prop in H1 as [H1 H2]. apply str_eqb_eq in H1. subst.
    f_equal; [f_equal; now apply Ha|now apply IHl].
Qed.

Lemma find_message_name ms tn md : find_message ms tn = Some md -> m_name md = tn.
Proof.
  induction ms as [|a r IH]; [discriminate|]. cbn. destruct (str_eqb (m_name a) tn) eqn:Eq.
  - intros H. injection H as <-. now apply str_eqb_eq.
  - exact IH.
Qed.

Lemma omap_set_incl {A} k (v : A) l e : In e (omap_set k v l) -> e = (k, v) \/ In e l.
Proof.
  induction l as [|[k' v'] r IH]; cbn.
  - intros [H|[]]. now left.
  - destruct (str_eqb k k'); cbn; intros [H|H]; auto.
    destruct (IH H); auto.
Qed.

Lemma omap_of_incl {A} (l : list (str * A)) e : In e (omap_of l) -> In e l.
Proof.
  unfold omap_of.
  assert (G : forall acc, In e (fold_left (fun acc e => omap_set (fst e) (snd e) acc) l acc) -> In e acc \/ In e l).
  { induction l as [|a r IH]; intros acc H; [now left|]. cbn [fold_left] in H.
    destruct (IH _ H) as [H1|H1]; [|right; now right].
    destruct (omap_set_incl _ _ _ _ H1) as [H2|H2]; [right; left; destruct a; now subst|now left]. }
  intros H. destruct (G [] H) as [[]|H1]. exact H1.
Qed.

(* ---- named inner loops ------------------------------------------------------------------------------ *)
Definition walk_fields (sc : schema) (sd : side) (cs : list (str * ynode)) (md : message) : list (str * fval) -> list c06_defect :=
  fix go (m0 : list (str * fval)) : list c06_defect :=
    match m0 with
    | [] => []
    | (name, x) :: r =>
        match find_field (m_fields md) name with
        | Some f => walk sc sd cs (f_kind f) x ++ go r
        | None => go r
        end
    end.
Definition walk_list (sc : schema) (sd : side) (cs : list (str * ynode)) (k : kind) : list fval -> list c06_defect :=
  fix go (l : list fval) : list c06_defect := match l with [] => [] | x :: r => walk sc sd cs k x ++ go r end.
Definition walk_map (sc : schema) (sd : side) (cs : list (str * ynode)) (k : kind) : list (sval * fval) -> list c06_defect :=
  fix go (kv : list (sval * fval)) : list c06_defect :=
    match kv with [] => [] | (key, x) :: r => key_issues key ++ walk sc sd cs k x ++ go r end.

Lemma walk_FM sc sd cs tn m :
  walk sc sd cs (KMessage tn) (FM m) =
  if str_eqb tn ts_name then [] else
  match find_message (all_messages sc) tn with
  | None => []
  | Some md => msg_issues sc sd cs md m ++ walk_fields sc sd cs md m
  end.
Proof. reflexivity. Qed.
Lemma walk_FL sc sd cs k l : walk sc sd cs k (FL l) = walk_list sc sd cs k l.
Proof. reflexivity. Qed.
Lemma walk_FMap sc sd cs k kv : walk sc sd cs k (FMap kv) = walk_map sc sd cs k kv.
Proof. reflexivity. Qed.

Definition plain_fields (sc : schema) (md : message) : list (str * fval) -> bool :=
  fix go (m : list (str * fval)) : bool :=
    match m with
    | [] => true
    | (name, x) :: r =>
        match find_field (m_fields md) name with
        | Some f => plain_in sc (f_kind f) x && go r
        | None => go r
        end
    end.
Definition plain_list (sc : schema) (k : kind) : list fval -> bool :=
  fix go (l : list fval) : bool := match l with [] => true | x :: r => plain_in sc k x && go r end.
Definition plain_map (sc : schema) (k : kind) : list (sval * fval) -> bool :=
  fix go (kv : list (sval * fval)) : bool := match kv with [] => true | (_, x) :: r => plain_in sc k x && go r end.

Lemma plain_in_FM sc tn m :
  plain_in sc (KMessage tn) (FM m) =
  if str_eqb tn ts_name then true else
  match find_message (all_messages sc) tn with
  | None => true
  | Some md => plain_msg md && plain_fields sc md m
  end.
Proof. reflexivity. Qed.
Lemma plain_in_FL sc k l : plain_in sc k (FL l) = plain_list sc k l.
Proof. reflexivity. Qed.
Lemma plain_in_FMap sc k kv : plain_in sc k (FMap kv) = plain_map sc k kv.
Proof. reflexivity. Qed.

(* validation fuel a value needs: three levels per message (the $ref, the component, the property) *)
Fixpoint need (v : fval) : nat :=
  match v with
  | FS _ => 1
  | FM m => 3 + (fix go (m : list (str * fval)) : nat := match m with [] => 0 | e :: r => Nat.max (need (snd e)) (go r) end) m
  | FL l => (fix go (l : list fval) : nat := match l with [] => 0 | x :: r => Nat.max (need x) (go r) end) l
  | FMap kv => (fix go (kv : list (sval * fval)) : nat := match kv with [] => 0 | e :: r => Nat.max (need (snd e)) (go r) end) kv
  end.
Definition need_fields : list (str * fval) -> nat :=
  fix go (m : list (str * fval)) : nat := match m with [] => 0 | e :: r => Nat.max (need (snd e)) (go r) end.
Definition need_list : list fval -> nat :=
  fix go (l : list fval) : nat := match l with [] => 0 | x :: r => Nat.max (need x) (go r) end.
Definition need_map : list (sval * fval) -> nat :=
  fix go (kv : list (sval * fval)) : nat := match kv with [] => 0 | e :: r => Nat.max (need (snd e)) (go r) end.
Lemma need_FM m : need (FM m) = 3 + need_fields m. Proof. reflexivity. Qed.
Lemma need_FL l : need (FL l) = need_list l. Proof. reflexivity. Qed.
Lemma need_FMap kv : need (FMap kv) = need_map kv. Proof. reflexivity. Qed.
Lemma need_fields_in m e : In e m -> need (snd e) <= need_fields m.
Proof. induction m as [|a r IH]; [intros []|]. cbn. intros [->|H]; [lia|]. specialize (IH H). lia. Qed.

(* ---- facts about a message without annotations -------------------------------------------------------- *)
Lemma plain_msg_no_unwrap md : plain_msg md = true -> forall f, In f (m_fields md) -> f_unwrap f = false.
Proof.
  unfold plain_msg. intros H f Hf. apply andb_prop in H as [H _]. rewrite forallb_forall in H.
  now destruct (plain_field_facts f (H f Hf)) as [Hu _].
Qed.

Lemma plain_msg_object sc sd md : plain_msg md = true -> object_schema sc sd md = plain_object_schema sc sd md.
Proof.
  intros Hp. pose proof (plain_msg_no_unwrap md Hp) as Hu.
  unfold plain_msg in Hp. apply andb_prop in Hp as [Hf Ho]. rewrite forallb_forall in Hf, Ho.
  unfold object_schema, object_schema_sets.
  assert (H1 : root_unwrap_field md = None).
  { unfold root_unwrap_field. destruct (m_fields md) as [|f [|g r]] eqn:Em; try reflexivity.
    rewrite (Hu f) by (now left). reflexivity. }
  assert (H2 : has_flatten_fields md = false).
  { unfold has_flatten_fields. apply existsb_none. intros f Hin.
    destruct (plain_field_facts f (Hf f Hin)) as [_ [_ [_ [_ [_ [_ [_ [_ [H _]]]]]]]]]. unfold is_flatten_field. now rewrite H. }
  assert (H3 : has_disc_oneof md = false).
  { unfold has_disc_oneof, disc_oneofs.
    assert (Hnil : filter discriminated (m_oneofs md) = []).
    { induction (m_oneofs md) as [|o r IH]; [reflexivity|]. cbn [filter].
      unfold discriminated at 1. pose proof (Ho o (or_introl eq_refl)) as Ho1. apply Bool.negb_true_iff in Ho1. rewrite Ho1. cbn [andb].
      apply IH. intros o' Ho'. apply Ho. now right. }
    now rewrite Hnil. }
  now rewrite H1, H2, H3.
Qed.

Lemma plain_object_no_side sc md :
  plain_object_schema sc no_side md =
  object_of (map (fun f => (jname f, convert_field sc no_side (m_name md) f)) (m_fields md)) [].
Proof.
  unfold plain_object_schema. f_equal.
  induction (m_fields md) as [|f r IH]; [reflexivity|]. cbn [filter map]. exact IH.
Qed.

Lemma msg_issues_nil sc sd cs md m : msg_issues sc sd cs md m = [] ->
  comp_ok sc sd cs (m_name md) = true /\ existsb (fun f => is_marker (json_name (f_name f))) (m_fields md) = false.
Proof.
  unfold msg_issues. intros H. apply app_eq_nil in H as [H1 H2]. apply app_eq_nil in H2 as [H2 _].
  split.
  - destruct (comp_ok sc sd cs (m_name md)); [reflexivity|discriminate H1].
  - destruct (existsb _ (m_fields md)); [discriminate H2|reflexivity].
Qed.

Lemma msg_ok_jname_inj md f f' :
  msg_ok md = true -> In f (m_fields md) -> In f' (m_fields md) ->
  json_name (f_name f) = json_name (f_name f') -> f = f'.
Proof.
  intros Hok Hf Hf' Heq. unfold msg_ok in Hok. apply andb_prop in Hok as [Hnd Hall]. rewrite forallb_forall in Hall.
  pose proof (Hall f Hf) as H1. pose proof (Hall f' Hf') as H2.
  apply andb_prop in H1 as [H1 _]. apply andb_prop in H2 as [H2 _]. rewrite Heq in H1.
  destruct (field_of_key md (json_name (f_name f'))) as [g|] eqn:Eg; [|discriminate H1].
  apply Z.eqb_eq in H1, H2. eapply nodup_num_inj; eauto. congruence.
Qed.

Lemma m_msg_in E sc md m es :
  m_msg E sc md m = ROk es -> forall key j, In (key, j) es ->
  exists name x f, In (name, x) m /\ find_field (m_fields md) name = Some f /\ key = json_name name /\
                   pj_fval E sc (f_kind f) x = ROk j.
Proof.
  revert es. induction m as [|[name x] r IH]; intros es H key j Hin.
  - cbn in H. injection H as <-. destruct Hin.
  - cbn [m_msg] in H. destruct (find_field (m_fields md) name) as [f|] eqn:Ef; [|discriminate H].
    apply rbind_ok in H as [j0 [Hj0 H]]. apply rbind_ok in H as [t [Ht H]]. injection H as <-.
    destruct Hin as [Hin|Hin].
    + injection Hin as <- <-. exists name, x, f. repeat split; auto. now left.
    + destruct (IH t Ht key j Hin) as [n' [x' [f' [Hi [Hf' [Hk Hp]]]]]]. exists n', x', f'. repeat split; auto. now right.
Qed.

Lemma wt_fields_in sc md m name x f :
  wt_fields sc md m = true -> In (name, x) m -> find_field (m_fields md) name = Some f -> wt_entry sc f x = true.
Proof.
  induction m as [|[n0 x0] r IH]; [intros _ []|]. cbn [wt_fields]. intros H Hin Hf.
  destruct (find_field (m_fields md) n0) as [f0|] eqn:E0; [|discriminate H]. apply andb_prop in H as [H1 H2].
  destruct Hin as [Hin|Hin]; [injection Hin as -> ->; rewrite Hf in E0; injection E0 as <-; exact H1|now apply IH].
Qed.
Lemma plain_fields_in sc md m name x f :
  plain_fields sc md m = true -> In (name, x) m -> find_field (m_fields md) name = Some f -> plain_in sc (f_kind f) x = true.
Proof.
  induction m as [|[n0 x0] r IH]; [intros _ []|]. cbn [plain_fields]. intros H Hin Hf.
  destruct Hin as [Hin|Hin].
  - injection Hin as -> ->. rewrite Hf in H. now apply andb_prop in H as [H1 _].
  - destruct (find_field (m_fields md) n0); [apply andb_prop in H as [_ H]|]; now apply IH.
Qed.
Lemma walk_fields_in sc sd cs md m name x f :
  walk_fields sc sd cs md m = [] -> In (name, x) m -> find_field (m_fields md) name = Some f -> walk sc sd cs (f_kind f) x = [].
Proof.
  induction m as [|[n0 x0] r IH]; [intros _ []|]. cbn [walk_fields]. intros H Hin Hf.
  destruct Hin as [Hin|Hin].
  - injection Hin as -> ->. rewrite Hf in H. now apply app_eq_nil in H as [H1 _].
  - destruct (find_field (m_fields md) n0); [apply app_eq_nil in H as [_ H]|]; now apply IH.
Qed.

Lemma is_jflt_not_marker kt j r : is_marker kt = false -> is_jflt (JObj ((kt, j) :: r)) = false.
Proof. intros H. destruct r; [|destruct j; reflexivity]. destruct j; try reflexivity. exact H. Qed.

Section Messages.
Variable E : ExtLib.
Hypothesis EL : fprint_is_number E.
Variable sc : schema.
Variable P : vparams.
Hypothesis Hfmt : wire_formats_are_annotations P.
Variable cs : list (str * ynode).
(* the request does not itself define google.protobuf.Timestamp *)
Hypothesis Hts : find_message (all_messages sc) ts_name = None.
Let cst := doc_components reader12 cs.

Definition Qe (v : fval) : Prop :=
  forall k j fu n, need v <= n ->
    wt sc k v = true -> plain_in sc k v = true -> walk sc no_side cs k v = [] ->
    pj_fval E sc k v = ROk j ->
    validates P cst n (rd fu (elem_node sc k)) (wire_jv j) = VOk true.
Definition PPe (v : fval) : Prop :=
  match v with
  | FL l => Forall Qe l
  | FMap kv => Forall (fun e => Qe (snd e)) kv
  | _ => Qe v
  end.
Lemma Qe_of_PPe v : PPe v -> Qe v.
Proof. destruct v; cbn; auto; intros _ k j fu n _ Hwt; cbn in Hwt; discriminate. Qed.

Lemma Qe_scalar x : Qe (FS x).
Proof.
  intros k j fu n Hn Hwt Hpl Hw Hj. cbn in Hn. destruct n as [|n]; [lia|].
  cbn [wt] in Hwt. apply andb_prop in Hwt as [Hk Hwt]. rewrite pj_fval_FS in Hj. cbn [walk] in Hw. cbn [plain_in] in Hpl.
  destruct (is_scalar_kind k) eqn:Es.
  - now apply (scalar_valid E EL sc P Hfmt cst k x j fu n).
  - destruct k; try discriminate Es; [|discriminate Hk].
    destruct x; try discriminate Hwt. now apply (enum_valid E sc P cst tn n0 j fu n).
Qed.

(* elements of a repeated field *)
Lemma list_valid k fu n : forall l js,
  Forall Qe l -> need_list l <= n ->
  (fix all (l : list fval) : bool := match l with [] => true | y :: t => wt sc k y && all t end) l = true ->
  plain_list sc k l = true -> walk_list sc no_side cs k l = [] ->
  m_list E sc k l = ROk js ->
  vall (map (validates P cst n (rd fu (elem_node sc k))) (map wire_jv js)) = VOk true.
Proof.
  induction l as [|x r IH]; intros js HQ Hn Hwt Hpl Hw Hm.
  - cbn in Hm. injection Hm as <-. reflexivity.
  - cbn [m_list] in Hm. apply rbind_ok in Hm as [j [Hj Hm]]. apply rbind_ok in Hm as [t [Ht Hm]]. injection Hm as <-.
    inversion HQ as [|? ? Hx Hr]; subst. cbn in Hn. apply andb_prop in Hwt as [Hwx Hwr].
    cbn [plain_list] in Hpl. apply andb_prop in Hpl as [Hpx Hpr]. cbn [walk_list] in Hw. apply app_eq_nil in Hw as [Hwkx Hwkr].
    cbn [map]. apply vall_cons_true.
    + apply Hx; auto. lia.
    + apply IH; auto. lia.
Qed.

(* values of a map field *)
Lemma map_valid kk k fu n : forall kv es,
  Forall (fun e => Qe (snd e)) kv -> need_map kv <= n ->
  (fix all (kv : list (sval * fval)) : bool :=
     match kv with [] => true | (key, y) :: t => wt_key kk key && wt sc k y && all t end) kv = true ->
  plain_map sc k kv = true -> walk_map sc no_side cs k kv = [] ->
  m_map E sc k kv = ROk es ->
  vall (map (fun e => validates P cst n (rd fu (elem_node sc k)) (snd e)) (map (fun e => (fst e, wire_jv (snd e))) es)) = VOk true /\
  match es with [] => True | (kt, _) :: _ => is_marker kt = false end.
Proof.
  induction kv as [|[key x] r IH]; intros es HQ Hn Hwt Hpl Hw Hm.
  - cbn in Hm. injection Hm as <-. now split.
  - cbn [m_map] in Hm. apply rbind_ok in Hm as [kt [Hkt Hm]]. apply rbind_ok in Hm as [j [Hj Hm]].
    apply rbind_ok in Hm as [t [Ht Hm]]. injection Hm as <-.
    inversion HQ as [|? ? Hx Hr]; subst. cbn [snd] in Hx. cbn in Hn.
    apply andb_prop in Hwt as [Hwx Hwr]. apply andb_prop in Hwx as [Hwk Hwx].
    cbn [plain_map] in Hpl. apply andb_prop in Hpl as [Hpx Hpr].
    cbn [walk_map] in Hw. apply app_eq_nil in Hw as [Hki Hw]. apply app_eq_nil in Hw as [Hwkx Hwkr].
    destruct (IH t Hr ltac:(lia) Hwr Hpr Hwkr Ht) as [IH1 _].
    split.
    + cbn [map fst snd]. apply vall_cons_true; [|exact IH1]. apply Hx; auto. lia.
    + unfold key_issues in Hki. rewrite Hkt in Hki. destruct (is_marker kt); [discriminate Hki|reflexivity].
Qed.

Lemma find_unwrap_none md : plain_msg md = true -> find_unwrap_field md = None.
Proof.
  intros Hp. pose proof (plain_msg_no_unwrap md Hp) as Hu. unfold find_unwrap_field.
  induction (m_fields md) as [|f r IH]; [reflexivity|]. cbn [find]. rewrite (Hu f) by now left. cbn [andb].
  apply IH. intros g Hg. apply Hu. now right.
Qed.

Lemma bare_value_plain f : MappingFacts.plain_field (bare_value_field f) = true.
Proof. reflexivity. Qed.

(* the value schema of a map field whose values are un-annotated *)
Lemma map_value_schema_eq f x :
  wt sc (f_kind f) x = true -> plain_in sc (f_kind f) x = true ->
  map_value_schema sc no_side f = elem_node sc (f_kind f).
Proof.
  intros Hwt Hpl. unfold map_value_schema.
  assert (Hplain : convert_scalar sc no_side [] (bare_value_field f) = elem_node sc (f_kind f)).
  { rewrite (convert_scalar_plain sc [] (bare_value_field f) (bare_value_plain f)). reflexivity. }
  rewrite Hplain. destruct (f_kind f) as [| | | | | | | | | | | | | | |tn|tn] eqn:Ek; try reflexivity.
  unfold OpenApi.lookup_message.
  destruct x as [sx|m|l|kv]; try discriminate Hwt.
  rewrite wt_FM in Hwt. rewrite plain_in_FM in Hpl.
  destruct (str_eqb tn ts_name) eqn:Ets.
  - apply str_eqb_eq in Ets. subst tn. rewrite Hts. change (str_eqb ts_name timestamp_fq) with (str_eqb ts_name ts_name).
    rewrite str_eqb_refl. reflexivity.
  - apply andb_prop in Hwt as [_ Hwt]. destruct (find_message (all_messages sc) tn) as [md|]; [|discriminate Hwt].
    apply andb_prop in Hpl as [Hpm _]. now rewrite (find_unwrap_none md Hpm).
Qed.

(* one populated field of a message without annotations *)
Lemma entry_valid mn f x j fu n :
  MappingFacts.plain_field f = true -> PPe x -> need x <= n ->
  wt_entry sc f x = true -> plain_in sc (f_kind f) x = true -> walk sc no_side cs (f_kind f) x = [] ->
  pj_fval E sc (f_kind f) x = ROk j ->
  validates P cst (S n) (rd (S fu) (convert_field sc no_side mn f)) (wire_jv j) = VOk true.
Proof.
  intros Hpf HP Hn Hwt Hpl Hw Hj.
  destruct (plain_field_facts f Hpf) as [_ [_ [_ [Hnul [Hemp _]]]]].
  assert (Hsing : match f_card f with Singular | Optional => True | _ => False end ->
                  convert_field sc no_side mn f = elem_node sc (f_kind f)).
  { intros Hc. unfold convert_field. rewrite Hnul, Hemp, Bool.andb_false_r.
    destruct (f_card f); try contradiction; apply convert_scalar_plain; exact Hpf. }
  unfold wt_entry in Hwt.
  destruct x as [sx|cm|l|kv].
  - assert (Hc : (wt sc (f_kind f) (FS sx) && populated f (FS sx)) = true /\
                 match f_card f with Singular | Optional => True | _ => False end).
    { destruct (f_card f); try discriminate; split; auto. }
    destruct Hc as [Hw' Hcard]. apply andb_prop in Hw' as [Hwt' _]. rewrite (Hsing Hcard).
    apply HP; auto.
  - assert (Hc : wt sc (f_kind f) (FM cm) = true /\ match f_card f with Singular | Optional => True | _ => False end).
    { destruct (f_card f); try discriminate; split; auto. }
    destruct Hc as [Hwt' Hcard]. rewrite (Hsing Hcard). apply HP; auto.
  - destruct l as [|e l]; [destruct (f_card f); discriminate|].
    assert (Hc : f_card f = Repeated) by (destruct (f_card f); try discriminate; reflexivity).
    rewrite Hc in Hwt. unfold convert_field. rewrite Hc.
    unfold side_rules. cbn [sd_rules no_side find]. rewrite constraint_entries_none, app_nil_r.
    rewrite (convert_scalar_plain sc mn f Hpf).
    rewrite rd_ymap. cbn [map]. rewrite kw_type_array, kw12_items.
    rewrite pj_fval_FL in Hj. apply rbind_ok in Hj as [js [Hjs Hj]]. injection Hj as <-.
    change (wire_jv (JArr js)) with (JVArr (map wire_jv js)).
    rewrite validates_S. cbn [map check_kw declared_props flat_map has_type existsb orb].
    apply vall_cons_true; [reflexivity|]. apply vall_cons_true; [|reflexivity].
    rewrite need_FL in Hn. rewrite plain_in_FL in Hpl. rewrite walk_FL in Hw.
    now apply (list_valid (f_kind f) fu n (e :: l) js).
  - destruct kv as [|e kv]; [destruct (f_card f); discriminate|].
    destruct (f_card f) as [| | |kk] eqn:Hc; try discriminate.
    apply andb_prop in Hwt as [_ Hwt].
    unfold convert_field. rewrite Hc.
    unfold side_rules. cbn [sd_rules no_side find]. rewrite constraint_entries_none, app_nil_r.
    assert (Hmv : map_value_schema sc no_side f = elem_node sc (f_kind f)).
    { destruct e as [key0 x0]. rewrite plain_in_FMap in Hpl. cbn [plain_map] in Hpl. apply andb_prop in Hpl as [Hp0 _].
      apply andb_prop in Hwt as [Hw0 _]. apply andb_prop in Hw0 as [_ Hw0].
      exact (map_value_schema_eq f x0 Hw0 Hp0). }
    rewrite Hmv, rd_ymap. cbn [map]. rewrite kw_type_object, kw12_additional.
    rewrite pj_fval_FMap in Hj. apply rbind_ok in Hj as [es [Hes Hj]]. injection Hj as <-.
    rewrite need_FMap in Hn. rewrite plain_in_FMap in Hpl. rewrite walk_FMap in Hw.
    destruct (map_valid kk (f_kind f) fu n (e :: kv) es HP Hn Hwt Hpl Hw Hes) as [Hall Hmk].
    assert (Hnf : is_jflt (JObj es) = false).
    { destruct es as [|[kt j0] r]; [reflexivity|]. now apply is_jflt_not_marker. }
    rewrite (wire_jv_obj es Hnf).
    rewrite validates_S. cbn [map check_kw declared_props flat_map has_type existsb orb app].
    apply vall_cons_true; [reflexivity|]. apply vall_cons_true; [|reflexivity].
    cbn [mem_str existsb]. exact Hall.
Qed.

(* a message value *)
Lemma Qe_message m : Forall (fun e => PPe (snd e)) m -> Qe (FM m).
Proof.
  intros HF k j fu n Hn Hwt Hpl Hw Hj.
  destruct k as [| | | | | | | | | | | | | | |tn|tn]; try discriminate Hwt.
  rewrite need_FM in Hn. rewrite wt_FM in Hwt. rewrite plain_in_FM in Hpl. rewrite walk_FM in Hw. rewrite pj_fval_FM in Hj.
  destruct n as [|[|[|n]]]; try lia.
  unfold elem_node, convert_scalar. cbn [f_kind OpenApi.plain_field is_timestamp].
  change (s "google.protobuf.Timestamp") with ts_name.
  destruct (str_eqb tn ts_name) eqn:Ets.
  - (* Timestamp: RFC 3339 text against type string, format date-time *)
    unfold pj_timestamp in Hj. destruct (ts_in_range _ _); [|discriminate Hj]. injection Hj as <-.
    unfold timestamp_schema. cbn [f_tsfmt OpenApi.plain_field].
    rewrite rd_ymap. cbn [map]. rewrite kw_type_string. unfold ystr. rewrite kw_format. rewrite validates_S.
    cbn [map check_kw declared_props flat_map has_type existsb orb wire_jv].
    rewrite Hfmt by reflexivity. reflexivity.
  - apply andb_prop in Hwt as [Hwkt Hwt]. apply Bool.negb_true_iff in Hwkt. rewrite Hwkt in Hj.
    destruct (find_message (all_messages sc) tn) as [md|] eqn:Efm; [|discriminate Hwt].
    apply andb_prop in Hwt as [Hwt Hwf]. apply andb_prop in Hwt as [Hok _].
    apply andb_prop in Hpl as [Hpm Hpf]. apply app_eq_nil in Hw as [Hmi Hwf'].
    destruct (msg_issues_nil _ _ _ _ _ Hmi) as [Hcomp Hmark].
    apply rbind_ok in Hj as [es [Hes Hj]]. injection Hj as <-.
    pose proof (find_message_name _ _ _ Efm) as Hname.
    (* the component *)
    rewrite rd_ref.
    unfold comp_ok in Hcomp. rewrite Hname in Hcomp. unfold OpenApi.lookup_message in Hcomp. rewrite Efm in Hcomp.
    destruct (find_comp cs (short_name tn)) as [n0|] eqn:Efc; [|discriminate Hcomp].
    apply ynode_eqb_eq in Hcomp. subst n0.
    assert (Hfct : find_comp cst (short_name tn) = Some (typed (object_schema sc no_side md))).
    { unfold cst. change (doc_components reader12 cs) with (map (fun e : str * ynode => (fst e, typed (snd e))) cs).
      rewrite (find_comp_map typed cs (short_name tn)), Efc. reflexivity. }
    rewrite (validates_ref P cst _ _ _ _ Hfct). apply vand_true_r.
    rewrite (plain_msg_object sc no_side md Hpm), plain_object_no_side, typed_rd.
    (* the wire object *)
    assert (Hnf : is_jflt (JObj es) = false).
    { destruct es as [|[key j0] r]; [reflexivity|]. apply is_jflt_not_marker.
      destruct (m_msg_in E sc md m _ Hes key j0 (or_introl eq_refl)) as [name [x [f [_ [Hf [-> _]]]]]].
      destruct (find_field_spec _ _ _ Hf) as [Hin Hfn]. subst name.
      destruct (is_marker (json_name (f_name f))) eqn:Em; [|reflexivity].
      assert (existsb (fun f0 => is_marker (json_name (f_name f0))) (m_fields md) = true)
        by (apply existsb_exists; now exists f). congruence. }
    rewrite (wire_jv_obj es Hnf).
    unfold object_of. cbn [app].
    set (props := map (fun f => (jname f, convert_field sc no_side (m_name md) f)) (m_fields md)).
    assert (Hprops : forall p, In p (omap_of props) -> exists f, In f (m_fields md) /\ fst p = jname f /\
                                                            snd p = convert_field sc no_side (m_name md) f).
    { intros p Hp. apply omap_of_incl in Hp. unfold props in Hp. apply in_map_iff in Hp as [f [<- Hf]]. now exists f. }
    destruct props as [|p0 props'] eqn:Eprops.
    + rewrite rd_ymap. cbn [map]. rewrite kw_type_object. rewrite validates_S. reflexivity.
    + cbv iota. rewrite <- Eprops in *. clear Eprops p0 props'.
      rewrite rd_ymap. cbn [map app]. rewrite kw_type_object, kw_properties. rewrite validates_S.
      cbn [map check_kw declared_props flat_map has_type existsb orb app].
      apply vall_cons_true; [reflexivity|]. apply vall_cons_true; [|reflexivity].
      rewrite map_map. apply vall_all_true. intros p Hp. cbn [fst snd].
      destruct (Hprops p Hp) as [f [Hf [Hk Hs]]]. rewrite Hk, Hs.
      destruct (assoc_jv (jname f) _) as [xw|] eqn:Ea; [|reflexivity].
      destruct (assoc_jv_map_wire _ _ _ Ea) as [[key j'] [Hin [Hkey ->]]]. cbn [fst snd] in *.
      destruct (m_msg_in E sc md m _ Hes key j' Hin) as [name [x [f' [Him [Hf' [Hkn Hpj]]]]]].
      destruct (find_field_spec _ _ _ Hf') as [Hin' Hfn']. 
      assert (f' = f).
      { apply (msg_ok_jname_inj md f' f Hok Hin' Hf). unfold jname in Hkey. rewrite Hfn'. congruence. }
      subst f'.
      assert (Hplf : MappingFacts.plain_field f = true).
      { unfold plain_msg in Hpm. apply andb_prop in Hpm as [Hpm _]. rewrite forallb_forall in Hpm. now apply Hpm. }
      rewrite Forall_forall in HF. pose proof (HF (name, x) Him) as HPx. cbn [snd] in HPx.
      pose proof (need_fields_in m (name, x) Him) as Hnx. cbn [snd] in Hnx.
      change (schema_of_jv 7 (denote reader12 (convert_field sc no_side (m_name md) f)))
        with (rd (S 5) (convert_field sc no_side (m_name md) f)).
      apply (entry_valid (m_name md) f x j' 5 n Hplf HPx); auto.
      * lia.
      * exact (wt_fields_in sc md m name x f Hwf Him Hf').
      * exact (plain_fields_in sc md m name x f Hpf Him Hf').
      * exact (walk_fields_in sc no_side cs md m name x f Hwf' Him Hf').
Qed.

Theorem value_valid : forall v, PPe v.
Proof.
  apply fval_ind'.
  - exact Qe_scalar.
  - exact Qe_message.
  - intros l H. cbn [PPe]. rewrite Forall_forall in *. intros x Hx. apply Qe_of_PPe. now apply H.
  - intros kv H. cbn [PPe]. rewrite Forall_forall in *. intros x Hx. apply Qe_of_PPe. now apply H.
Qed.
End Messages.

(* cardinalities: one populated field (singular, optional, repeated, map) of an un-annotated message,
   against the schema convertField publishes for it *)
Theorem field_valid : forall (E : ExtLib) (sc : schema) (P : vparams) (cs : list (str * ynode)) (mn : str) (f : field) (x : fval) (j : json) (fu n : nat),
  fprint_is_number E -> wire_formats_are_annotations P ->
  find_message (all_messages sc) ts_name = None ->
  MappingFacts.plain_field f = true -> need x <= n ->
  wt_entry sc f x = true -> plain_in sc (f_kind f) x = true -> walk sc no_side cs (f_kind f) x = [] ->
  pj_fval E sc (f_kind f) x = ROk j ->
  validates P (doc_components reader12 cs) (S n) (rd (S fu) (convert_field sc no_side mn f)) (wire_jv j) = VOk true.
Proof.
  intros E sc P cs mn f x j fu n EL Hfmt Hts Hpf Hn Hwt Hpl Hw Hj.
  eapply entry_valid; eauto. now apply value_valid.
Qed.

(* ---- no property the schema does not describe --------------------------------------------------------- *)
Definition is_leaf (v : jv) : bool := match v with JVObj _ | JVArr _ => false | _ => true end.

Lemma und_leaf P cst uf vf sch v : is_leaf v = true -> und P cst uf vf sch v = 0.
Proof. destruct uf; [reflexivity|]. destruct v; try discriminate; reflexivity. Qed.

Lemma fold_sum_zero {A} (g : A -> nat) (l : list A) :
  (forall a, In a l -> g a = 0) -> fold_right (fun e acc => g e + acc) 0 l = 0.
Proof.
  induction l as [|a r IH]; intros H; [reflexivity|]. cbn [fold_right].
  rewrite (H a (or_introl eq_refl)), IH; [reflexivity|]. intros b Hb. apply H. now right.
Qed.

Lemma find_comp_in {A} (l : list (str * A)) k v : find_comp l k = Some v -> In (k, v) l.
Proof.
  intros H. destruct (find_comp_find _ _ _ H) as [e [He <-]]. apply find_some in He as [Hin Hk].
  apply str_eqb_eq in Hk. subst. now destruct e.
Qed.
Lemma find_comp_some {A} (l : list (str * A)) k : In k (map fst l) -> exists v, find_comp l k = Some v.
Proof.
  unfold find_comp. induction l as [|[k' a] r IH]; [intros []|]. cbn [map fst find].
  destruct (str_eqb k' k) eqn:Eq; [intros _; now exists a|].
  intros [H|H]; [subst; now rewrite str_eqb_refl in Eq|now apply IH].
Qed.

Lemma elem_node_ymap sc k : exists es, elem_node sc k = YMap es.
Proof.
  unfold elem_node, convert_scalar. cbn [f_kind OpenApi.plain_field].
  destruct k; try (eexists; reflexivity).
  - unfold enum_schema. destruct (find_enum _ _); [destruct (f_enumenc _) as [[| |]|]|]; eexists; reflexivity.
  - destruct (is_timestamp _); [unfold timestamp_schema; destruct (f_tsfmt _) as [[| | | |]|]|unfold ref_to]; eexists; reflexivity.
Qed.
Lemma rd_elem_sobj sc fu k : exists kws, rd fu (elem_node sc k) = SObj kws.
Proof. destruct (elem_node_ymap sc k) as [es ->]. rewrite rd_ymap. eexists; reflexivity. Qed.

Lemma elem_node_message sc fu tn : str_eqb tn ts_name = false -> rd fu (elem_node sc (KMessage tn)) = body_schema tn.
Proof.
  intros H. unfold elem_node, convert_scalar. cbn [f_kind OpenApi.plain_field is_timestamp].
  change (s "google.protobuf.Timestamp") with ts_name. rewrite H. apply rd_ref.
Qed.

Section Undescribed.
Variable E : ExtLib.
Hypothesis EL : fprint_is_number E.
Variable sc : schema.
Variable P : vparams.
Variable cs : list (str * ynode).
Hypothesis Hts : find_message (all_messages sc) ts_name = None.
Let cst := doc_components reader12 cs.

Lemma pj_scalar_leaf k x j : pj_scalar E sc k x = ROk j -> is_leaf (wire_jv j) = true.
Proof.
  intros Hj. destruct k, x; cbn in Hj; try discriminate Hj; try (injection Hj as <-; reflexivity).
  1,2: unfold float_json in Hj; destruct (fclassify _ bits); try (injection Hj as <-; reflexivity);
       destruct (x_fprint E _ bits) as [j0|] eqn:Ep; try discriminate Hj; injection Hj as <-;
       destruct (EL _ _ _ Ep) as [[z ->]|[f ->]]; reflexivity.
  unfold enum_json in Hj. destruct (find_enum _ _); [|discriminate Hj].
  destruct (ev_by_number _ _); injection Hj as <-; reflexivity.
Qed.

Definition Ue (v : fval) : Prop :=
  forall k j fu uf vf,
    wt sc k v = true -> plain_in sc k v = true -> walk sc no_side cs k v = [] ->
    pj_fval E sc k v = ROk j ->
    und P cst uf vf (rd fu (elem_node sc k)) (wire_jv j) = 0.
Definition UUe (v : fval) : Prop :=
  match v with
  | FL l => Forall Ue l
  | FMap kv => Forall (fun e => Ue (snd e)) kv
  | _ => Ue v
  end.
Lemma Ue_of_UUe v : UUe v -> Ue v.
Proof. destruct v; cbn; auto; intros _ k j fu uf vf Hwt; cbn in Hwt; discriminate. Qed.

Lemma Ue_scalar x : Ue (FS x).
Proof.
  intros k j fu uf vf Hwt Hpl Hw Hj. rewrite pj_fval_FS in Hj. apply und_leaf. now apply (pj_scalar_leaf k x).
Qed.

Lemma list_und k fu uf vf : forall l js,
  Forall Ue l ->
  (fix all (l : list fval) : bool := match l with [] => true | y :: t => wt sc k y && all t end) l = true ->
  plain_list sc k l = true -> walk_list sc no_side cs k l = [] ->
  m_list E sc k l = ROk js ->
  forall xw, In xw (map wire_jv js) -> und P cst uf vf (rd fu (elem_node sc k)) xw = 0.
Proof.
  induction l as [|x r IH]; intros js HQ Hwt Hpl Hw Hm xw Hin.
  - cbn in Hm. injection Hm as <-. destruct Hin.
  - cbn [m_list] in Hm. apply rbind_ok in Hm as [j [Hj Hm]]. apply rbind_ok in Hm as [t [Ht Hm]]. injection Hm as <-.
    inversion HQ as [|? ? Hx Hr]; subst. apply andb_prop in Hwt as [Hwx Hwr].
    cbn [plain_list] in Hpl. apply andb_prop in Hpl as [Hpx Hpr]. cbn [walk_list] in Hw. apply app_eq_nil in Hw as [Hwkx Hwkr].
    destruct Hin as [<-|Hin]; [now apply Hx|now apply (IH t)].
Qed.

Lemma map_und kk k fu uf vf : forall kv es,
  Forall (fun e => Ue (snd e)) kv ->
  (fix all (kv : list (sval * fval)) : bool :=
     match kv with [] => true | (key, y) :: t => wt_key kk key && wt sc k y && all t end) kv = true ->
  plain_map sc k kv = true -> walk_map sc no_side cs k kv = [] ->
  m_map E sc k kv = ROk es ->
  (forall e, In e (map (fun e => (fst e, wire_jv (snd e))) es) -> und P cst uf vf (rd fu (elem_node sc k)) (snd e) = 0) /\
  match es with [] => True | (kt, _) :: _ => is_marker kt = false end.
Proof.
  induction kv as [|[key x] r IH]; intros es HQ Hwt Hpl Hw Hm.
  - cbn in Hm. injection Hm as <-. split; [intros e []|exact I].
  - cbn [m_map] in Hm. apply rbind_ok in Hm as [kt [Hkt Hm]]. apply rbind_ok in Hm as [j [Hj Hm]].
    apply rbind_ok in Hm as [t [Ht Hm]]. injection Hm as <-.
    inversion HQ as [|? ? Hx Hr]; subst. cbn [snd] in Hx.
    apply andb_prop in Hwt as [Hwx Hwr]. apply andb_prop in Hwx as [Hwk Hwx].
    cbn [plain_map] in Hpl. apply andb_prop in Hpl as [Hpx Hpr].
    cbn [walk_map] in Hw. apply app_eq_nil in Hw as [Hki Hw]. apply app_eq_nil in Hw as [Hwkx Hwkr].
    destruct (IH t Hr Hwr Hpr Hwkr Ht) as [IH1 _].
    split.
    + intros e [<-|Hin]; [cbn [snd]; now apply Hx|now apply IH1].
    + unfold key_issues in Hki. rewrite Hkt in Hki. destruct (is_marker kt); [discriminate Hki|reflexivity].
Qed.

Lemma entry_und mn f x j fu uf vf :
  MappingFacts.plain_field f = true -> UUe x ->
  wt_entry sc f x = true -> plain_in sc (f_kind f) x = true -> walk sc no_side cs (f_kind f) x = [] ->
  pj_fval E sc (f_kind f) x = ROk j ->
  und P cst uf vf (rd (S fu) (convert_field sc no_side mn f)) (wire_jv j) = 0.
Proof.
  intros Hpf HP Hwt Hpl Hw Hj.
  destruct (plain_field_facts f Hpf) as [_ [_ [_ [Hnul [Hemp _]]]]].
  assert (Hsing : match f_card f with Singular | Optional => True | _ => False end ->
                  convert_field sc no_side mn f = elem_node sc (f_kind f)).
  { intros Hc. unfold convert_field. rewrite Hnul, Hemp, Bool.andb_false_r.
    destruct (f_card f); try contradiction; apply convert_scalar_plain; exact Hpf. }
  unfold wt_entry in Hwt.
  destruct x as [sx|cm|l|kv].
  - assert (Hc : (wt sc (f_kind f) (FS sx) && populated f (FS sx)) = true /\
                 match f_card f with Singular | Optional => True | _ => False end).
    { destruct (f_card f); try discriminate; split; auto. }
    destruct Hc as [Hw' Hcard]. apply andb_prop in Hw' as [Hwt' _]. rewrite (Hsing Hcard). apply HP; auto.
  - assert (Hc : wt sc (f_kind f) (FM cm) = true /\ match f_card f with Singular | Optional => True | _ => False end).
    { destruct (f_card f); try discriminate; split; auto. }
    destruct Hc as [Hwt' Hcard]. rewrite (Hsing Hcard). apply HP; auto.
  - destruct l as [|e l]; [destruct (f_card f); discriminate|].
    assert (Hc : f_card f = Repeated) by (destruct (f_card f); try discriminate; reflexivity).
    rewrite Hc in Hwt. unfold convert_field. rewrite Hc.
    unfold side_rules. cbn [sd_rules no_side find]. rewrite constraint_entries_none, app_nil_r.
    rewrite (convert_scalar_plain sc mn f Hpf).
    rewrite rd_ymap. cbn [map]. rewrite kw_type_array, kw12_items.
    rewrite pj_fval_FL in Hj. apply rbind_ok in Hj as [js [Hjs Hj]]. injection Hj as <-.
    change (wire_jv (JArr js)) with (JVArr (map wire_jv js)).
    destruct uf as [|uf]; [reflexivity|].
    destruct (rd_elem_sobj sc fu (f_kind f)) as [ikws Hik]. rewrite Hik.
    cbn [und resolve0 resolve_kws first_ref find branches kw_allof kw_oneof flat_map map app first_some Conform.kw_items find].
    rewrite <- Hik. apply fold_sum_zero.
    rewrite plain_in_FL in Hpl. rewrite walk_FL in Hw.
    now apply (list_und (f_kind f) fu uf vf (e :: l) js).
  - destruct kv as [|e kv]; [destruct (f_card f); discriminate|].
    destruct (f_card f) as [| | |kk] eqn:Hc; try discriminate.
    apply andb_prop in Hwt as [_ Hwt].
    destruct uf as [|uf]; [reflexivity|].
    unfold convert_field. rewrite Hc.
    unfold side_rules. cbn [sd_rules no_side find]. rewrite constraint_entries_none, app_nil_r.
    assert (Hmv : map_value_schema sc no_side f = elem_node sc (f_kind f)).
    { destruct e as [key0 x0]. rewrite plain_in_FMap in Hpl. cbn [plain_map] in Hpl. apply andb_prop in Hpl as [Hp0 _].
      apply andb_prop in Hwt as [Hw0 _]. apply andb_prop in Hw0 as [_ Hw0].
      exact (map_value_schema_eq sc Hts f x0 Hw0 Hp0). }
    rewrite Hmv, rd_ymap. cbn [map]. rewrite kw_type_object, kw12_additional.
    rewrite pj_fval_FMap in Hj. apply rbind_ok in Hj as [es [Hes Hj]]. injection Hj as <-.
    rewrite plain_in_FMap in Hpl. rewrite walk_FMap in Hw.
    destruct (map_und kk (f_kind f) fu uf vf (e :: kv) es HP Hwt Hpl Hw Hes) as [Hall Hmk].
    assert (Hnf : is_jflt (JObj es) = false).
    { destruct es as [|[kt j0] r]; [reflexivity|]. now apply is_jflt_not_marker. }
    rewrite (wire_jv_obj es Hnf).
    destruct (rd_elem_sobj sc fu (f_kind f)) as [akws Hak]. rewrite Hak.
    cbn [und resolve0 resolve_kws first_ref find branches kw_allof kw_oneof flat_map map app].
    apply fold_sum_zero. intros e0 He0.
    unfold describe. cbn [branches kw_allof kw_oneof map first_some kw_props flat_map app find_comp find kw_addl].
    rewrite <- Hak. now apply Hall.
Qed.

Lemma Ue_message m : Forall (fun e => UUe (snd e)) m -> Ue (FM m).
Proof.
  intros HF k j fu uf vf Hwt Hpl Hw Hj.
  destruct k as [| | | | | | | | | | | | | | |tn|tn]; try discriminate Hwt.
  rewrite wt_FM in Hwt. rewrite plain_in_FM in Hpl. rewrite walk_FM in Hw. rewrite pj_fval_FM in Hj.
  destruct (str_eqb tn ts_name) eqn:Ets.
  - unfold pj_timestamp in Hj. destruct (ts_in_range _ _); [|discriminate Hj]. injection Hj as <-. now apply und_leaf.
  - rewrite (elem_node_message sc fu tn Ets).
    apply andb_prop in Hwt as [Hwkt Hwt]. apply Bool.negb_true_iff in Hwkt. rewrite Hwkt in Hj.
    destruct (find_message (all_messages sc) tn) as [md|] eqn:Efm; [|discriminate Hwt].
    apply andb_prop in Hwt as [Hwt Hwf]. apply andb_prop in Hwt as [Hok _].
    apply andb_prop in Hpl as [Hpm Hpf]. apply app_eq_nil in Hw as [Hmi Hwf'].
    destruct (msg_issues_nil _ _ _ _ _ Hmi) as [Hcomp Hmark].
    apply rbind_ok in Hj as [es [Hes Hj]]. injection Hj as <-.
    pose proof (find_message_name _ _ _ Efm) as Hname.
    unfold comp_ok in Hcomp. rewrite Hname in Hcomp. unfold OpenApi.lookup_message in Hcomp. rewrite Efm in Hcomp.
    destruct (find_comp cs (short_name tn)) as [n0|] eqn:Efc; [|discriminate Hcomp].
    apply ynode_eqb_eq in Hcomp. subst n0.
    assert (Hfct : find_comp cst (short_name tn) = Some (typed (object_schema sc no_side md))).
    { unfold cst. change (doc_components reader12 cs) with (map (fun e : str * ynode => (fst e, typed (snd e))) cs).
      rewrite (find_comp_map typed cs (short_name tn)), Efc. reflexivity. }
    assert (Hnf : is_jflt (JObj es) = false).
    { destruct es as [|[key j0] r]; [reflexivity|]. apply is_jflt_not_marker.
      destruct (m_msg_in E sc md m _ Hes key j0 (or_introl eq_refl)) as [name [x [f [_ [Hf [-> _]]]]]].
      destruct (find_field_spec _ _ _ Hf) as [Hin Hfn]. subst name.
      destruct (is_marker (json_name (f_name f))) eqn:Em; [|reflexivity].
      assert (existsb (fun f0 => is_marker (json_name (f_name f0))) (m_fields md) = true)
        by (apply existsb_exists; now exists f). congruence. }
    rewrite (wire_jv_obj es Hnf).
    destruct uf as [|uf]; [reflexivity|].
    unfold body_schema.
    cbn [und resolve0 resolve_kws first_ref find]. rewrite Hfct.
    rewrite (plain_msg_object sc no_side md Hpm), plain_object_no_side, typed_rd.
    unfold object_of. cbn [app].
    set (props := map (fun f => (jname f, convert_field sc no_side (m_name md) f)) (m_fields md)).
    assert (Hprops : forall p, In p (omap_of props) -> exists f, In f (m_fields md) /\ fst p = jname f /\
                                                            snd p = convert_field sc no_side (m_name md) f).
    { intros p Hp. apply omap_of_incl in Hp. unfold props in Hp. apply in_map_iff in Hp as [f [<- Hf]]. now exists f. }
    assert (Hkeys : forall f, In f (m_fields md) -> In (jname f) (map fst (omap_of props))).
    { intros f Hf. apply omap_of_keys. unfold props. rewrite map_map. cbn [fst]. now apply (in_map jname). }
    apply fold_sum_zero. intros [key xw] Hin. cbn [fst snd].
    apply in_map_iff in Hin as [[key' j'] [Heq Hin]]. cbn [fst snd] in Heq. injection Heq as <- <-.
    destruct (m_msg_in E sc md m _ Hes key' j' Hin) as [name [x [f [Him [Hf [Hkn Hpj]]]]]].
    destruct (find_field_spec _ _ _ Hf) as [Hinf Hfn].
    assert (Hne : props <> []).
    { unfold props. destruct (m_fields md); [destruct Hinf|discriminate]. }
    destruct props as [|p0 props'] eqn:Eprops; [congruence|]. cbv iota. rewrite <- Eprops in *. clear Eprops p0 props' Hne.
    rewrite rd_ymap. cbn [map app]. rewrite kw_type_object, kw_properties.
    cbn [resolve_kws first_ref find branches kw_allof kw_oneof flat_map map app].
    unfold describe. cbn [branches kw_allof kw_oneof map first_some kw_props flat_map app].
    rewrite app_nil_r.
    rewrite (find_comp_map (fun n => schema_of_jv 7 (denote reader12 n)) (omap_of props) key').
    assert (Hk' : key' = jname f) by (unfold jname; rewrite Hfn; exact Hkn).
    destruct (find_comp_some (omap_of props) key') as [node Hnode]; [rewrite Hk'; now apply Hkeys|].
    rewrite Hnode. cbn [option_map].
    destruct (Hprops (key', node) (find_comp_in _ _ _ Hnode)) as [f' [Hf' [Hk2 Hs2]]]. cbn [fst snd] in Hk2, Hs2.
    assert (f' = f) by (apply (msg_ok_jname_inj md f' f Hok Hf' Hinf); unfold jname in *; congruence). subst f' node.
    assert (Hplf : MappingFacts.plain_field f = true).
    { unfold plain_msg in Hpm. apply andb_prop in Hpm as [Hpm _]. rewrite forallb_forall in Hpm. now apply Hpm. }
    rewrite Forall_forall in HF. pose proof (HF (name, x) Him) as HPx. cbn [snd] in HPx.
    change (schema_of_jv 7 (denote reader12 (convert_field sc no_side (m_name md) f)))
      with (rd (S 5) (convert_field sc no_side (m_name md) f)).
    apply (entry_und (m_name md) f x j' 5 uf vf Hplf HPx).
    + exact (wt_fields_in sc md m name x f Hwf Him Hf).
    + exact (plain_fields_in sc md m name x f Hpf Him Hf).
    + exact (walk_fields_in sc no_side cs md m name x f Hwf' Him Hf).
    + exact Hpj.
Qed.

Theorem value_described : forall v, UUe v.
Proof.
  apply fval_ind'.
  - exact Ue_scalar.
  - exact Ue_message.
  - intros l H. cbn [UUe]. rewrite Forall_forall in *. intros x Hx. apply Ue_of_UUe. now apply H.
  - intros kv H. cbn [UUe]. rewrite Forall_forall in *. intros x Hx. apply Ue_of_UUe. now apply H.
Qed.
End Undescribed.

(* ---- the statements about whole bodies ------------------------------------------------------------- *)
Lemma dedup6_nil l : dedup6 l = [] -> l = [].
Proof.
  destruct l as [|d r]; [reflexivity|]. unfold dedup6. cbn [fold_right].
  destruct (existsb _ (fold_right _ [] r)) eqn:Ee; [|discriminate].
  intros H. rewrite H in Ee. discriminate Ee.
Qed.

Lemma defects_C06_nil_walk sc sd cs tn m : defects_C06 sc sd cs tn m = [] -> walk sc sd cs (KMessage tn) (FM m) = [].
Proof. unfold defects_C06. intros H. apply dedup6_nil in H. now apply app_eq_nil in H as [H _]. Qed.

(* C06_message_valid (plain fragment): a body whose type and whose reachable value carry no sebuf
   annotation validates against the schema the operation refers to, for every fuel from need (FM m) on *)
Theorem message_valid : forall (E : ExtLib) (sc : schema) (P : vparams) (cs : list (str * ynode)) (tn : str) (m : mval) (j : json),
  fprint_is_number E -> wire_formats_are_annotations P ->
  find_message (all_messages sc) ts_name = None -> str_eqb tn ts_name = false ->
  plain_top sc tn = true -> plain_in sc (KMessage tn) (FM m) = true ->
  wt sc (KMessage tn) (FM m) = true ->
  defects_C06 sc no_side cs tn m = [] ->
  (encode E sc tn m = ROk j \/ Mapping.to_json E sc tn m = ROk j) ->
  forall fuel, need (FM m) <= fuel ->
  validates P (doc_components reader12 cs) fuel (body_schema tn) (wire_jv j) = VOk true.
Proof.
  intros E sc P cs tn m j EL Hfmt Hts Htn Htop Hpl Hwt Hd Hj fuel Hfuel.
  destruct (MappingFacts.C05_unannotated_is_proto3 E sc tn m Htop Hpl) as [He Ht].
  assert (Hpj : pj_fval E sc (KMessage tn) (FM m) = ROk j) by (destruct Hj as [Hj|Hj]; [rewrite He in Hj|rewrite Ht in Hj]; exact Hj).
  rewrite <- (elem_node_message sc 0 tn Htn).
  pose proof (value_valid E EL sc P Hfmt cs Hts (FM m)) as HQ. cbn [PPe] in HQ.
  apply HQ; auto. now apply defects_C06_nil_walk.
Qed.

(* C06_satisfiable, default value: the component of every un-annotated message accepts {} *)
Theorem default_valid : forall (E : ExtLib) (sc : schema) (P : vparams) (cs : list (str * ynode)) (tn : str) (md : message),
  fprint_is_number E -> wire_formats_are_annotations P ->
  find_message (all_messages sc) ts_name = None -> str_eqb tn ts_name = false -> is_wkt_other tn = false ->
  find_message (all_messages sc) tn = Some md -> msg_ok md = true ->
  plain_top sc tn = true ->
  defects_C06 sc no_side cs tn [] = [] ->
  encode E sc tn [] = ROk (JObj []) /\
  forall fuel, 3 <= fuel -> validates P (doc_components reader12 cs) fuel (body_schema tn) (wire_jv (JObj [])) = VOk true.
Proof.
  intros E sc P cs tn md EL Hfmt Hts Htn Hwk Hfm Hok Htop Hd.
  assert (Hpl : plain_in sc (KMessage tn) (FM []) = true).
  { rewrite plain_in_FM, Htn, Hfm. unfold plain_top in Htop. unfold ProtoJson.lookup_message in Htop. rewrite Htn, Hfm in Htop.
    apply andb_prop in Htop as [Hp _]. now rewrite Hp. }
  assert (Henc : encode E sc tn [] = ROk (JObj [])).
  { destruct (MappingFacts.C05_unannotated_is_proto3 E sc tn [] Htop Hpl) as [He _]. rewrite He.
    unfold pj_marshal. rewrite pj_fval_FM, Htn, Hwk, Hfm. reflexivity. }
  split; [exact Henc|]. intros fuel Hfuel.
  apply (message_valid E sc P cs tn [] (JObj []) EL Hfmt Hts Htn Htop Hpl); auto.
  rewrite wt_FM, Htn, Hwk, Hfm, Hok. reflexivity.
Qed.

(* C06_no_undeclared_property (plain fragment): at every depth, every key of the wire JSON is described by a
   `properties` entry (message fields) or by `additionalProperties` (map entries) of the schema in force there;
   und is the walk of the reference harness (0 = nothing undescribed), for every walk depth and fuel *)
Theorem message_described : forall (E : ExtLib) (sc : schema) (P : vparams) (cs : list (str * ynode)) (tn : str) (m : mval) (j : json),
  fprint_is_number E ->
  find_message (all_messages sc) ts_name = None -> str_eqb tn ts_name = false ->
  plain_top sc tn = true -> plain_in sc (KMessage tn) (FM m) = true ->
  wt sc (KMessage tn) (FM m) = true ->
  defects_C06 sc no_side cs tn m = [] ->
  (encode E sc tn m = ROk j \/ Mapping.to_json E sc tn m = ROk j) ->
  forall uf vf, und P (doc_components reader12 cs) uf vf (body_schema tn) (wire_jv j) = 0.
Proof.
  intros E sc P cs tn m j EL Hts Htn Htop Hpl Hwt Hd Hj uf vf.
  destruct (MappingFacts.C05_unannotated_is_proto3 E sc tn m Htop Hpl) as [He Ht].
  assert (Hpj : pj_fval E sc (KMessage tn) (FM m) = ROk j) by (destruct Hj as [Hj|Hj]; [rewrite He in Hj|rewrite Ht in Hj]; exact Hj).
  rewrite <- (elem_node_message sc 0 tn Htn).
  pose proof (value_described E EL sc P cs Hts (FM m)) as HQ. cbn [UUe] in HQ.
  apply HQ; auto. now apply defects_C06_nil_walk.
Qed.

(* the top-level keys, directly: every key of the wire object is a key of the component's `properties` *)
Definition component_property_names (sc : schema) (md : message) : list str :=
  map fst (omap_of (map (fun f => (jname f, convert_field sc no_side (m_name md) f)) (m_fields md))).
Theorem message_keys_declared : forall (E : ExtLib) (sc : schema) (tn : str) (md : message) (m : mval) (es : list (str * json)),
  str_eqb tn ts_name = false -> is_wkt_other tn = false ->
  find_message (all_messages sc) tn = Some md ->
  plain_top sc tn = true -> plain_in sc (KMessage tn) (FM m) = true ->
  encode E sc tn m = ROk (JObj es) ->
  forall key, In key (map fst es) -> In key (component_property_names sc md).
Proof.
  intros E sc tn md m es Htn Hwk Hfm Htop Hpl Hj key Hkey.
  destruct (MappingFacts.C05_unannotated_is_proto3 E sc tn m Htop Hpl) as [He _]. rewrite He in Hj.
  unfold pj_marshal in Hj. rewrite pj_fval_FM, Htn, Hwk, Hfm in Hj.
  apply rbind_ok in Hj as [es' [Hes Hj]]. injection Hj as <-.
  apply in_map_iff in Hkey as [[k j0] [<- Hin]]. cbn [fst].
  destruct (m_msg_in E sc md m _ Hes k j0 Hin) as [name [x [f [_ [Hf [-> _]]]]]].
  destruct (find_field_spec _ _ _ Hf) as [Hinf Hfn]. subst name.
  unfold component_property_names. apply omap_of_keys. rewrite map_map. cbn [fst]. now apply (in_map jname).
Qed.

(* ================================================================================================ *)
(*  Part 4: error bodies and URL values                                                               *)
(* ================================================================================================ *)
Definition builtin_ok (cst : list (str * jschema)) : Prop :=
  forall name n, In (name, n) builtin_sets -> find_comp cst name = Some (typed n).

Lemma find_comp_omap_set_other {A} k k' (v : A) acc : str_eqb k' k = false -> find_comp (omap_set k' v acc) k = find_comp acc k.
Proof.
  intros Hne. unfold find_comp. induction acc as [|[k0 v0] r IH]; cbn [omap_set find fst].
  - now rewrite Hne.
  - destruct (str_eqb k' k0) eqn:E0; cbn [find fst].
    + apply str_eqb_eq in E0. subst k0. now rewrite Hne.
    + destruct (str_eqb k0 k); [reflexivity|exact IH].
Qed.

Lemma find_comp_fold_other {A} k (l : list (str * A)) : forall acc,
  (forall e, In e l -> str_eqb (fst e) k = false) ->
  find_comp (fold_left (fun acc e => omap_set (fst e) (snd e) acc) l acc) k = find_comp acc k.
Proof.
  induction l as [|e r IH]; intros acc H; [reflexivity|]. cbn [fold_left].
  rewrite IH by (intros e' He'; apply H; now right).
  apply find_comp_omap_set_other. apply H. now left.
Qed.

(* the three built-in components are what generator.go:907-961 registers unless a collected schema takes
   one of their names (C18: builtin-schema-name-collision) *)
Theorem builtin_ok_no_collision (sets : list (str * ynode)) :
  (forall e, In e sets -> mem_str (fst e) builtin_names = false) ->
  builtin_ok (doc_components reader12 (components_of_sets sets)).
Proof.
  intros H name n Hin. unfold doc_components. fold typed.
  change (map (fun e : str * ynode => (fst e, schema_of_jv schema_fuel (denote reader12 (snd e)))) (components_of_sets sets))
    with (map (fun e : str * ynode => (fst e, typed (snd e))) (components_of_sets sets)).
  rewrite (find_comp_map typed). unfold components_of_sets, omap_of. rewrite fold_left_app.
  assert (Hname : mem_str name builtin_names = true).
  { destruct Hin as [Hin|[Hin|[Hin|[]]]]; injection Hin as <- _; reflexivity. }
  rewrite find_comp_fold_other.
  - destruct Hin as [Hin|[Hin|[Hin|[]]]]; injection Hin as <- <-; reflexivity.
  - intros e He. specialize (H e He). destruct (str_eqb (fst e) name) eqn:Eq; [|reflexivity].
    apply str_eqb_eq in Eq. congruence.
Qed.

Lemma error_body_shape msg :
  wire_jv (error_body msg) = match msg with [] => JVObj [] | _ => JVObj [(s "message", JVStr msg)] end.
Proof. destruct msg; reflexivity. Qed.

(* the default response: sebuf.http.Error with any text *)
Theorem error_body_valid : forall (P : vparams) (cst : list (str * jschema)) (msg : str),
  builtin_ok cst -> forall fuel, 3 <= fuel ->
  validates P cst fuel (SObj [KwRef (s "Error")]) (wire_jv (error_body msg)) = VOk true.
Proof.
  intros P cst msg Hb fuel Hfuel. destruct fuel as [|[|[|n]]]; try lia.
  assert (Hf : find_comp cst (s "Error") = Some (typed (object_of [(s "message", YMap [(s "type", ystr "string")])] []))).
  { apply Hb. now left. }
  rewrite (validates_ref P cst _ _ _ _ Hf). apply vand_true_r. rewrite error_body_shape.
  destruct msg; reflexivity.
Qed.

Definition violation_jv (fd : str * str) : jv := JVObj [(s "field", JVStr (fst fd)); (s "description", JVStr (snd fd))].

Lemma violation_wire fd : str_null (fst fd) = false -> str_null (snd fd) = false ->
  wire_jv (violation_json fd) = violation_jv fd.
Proof. destruct fd as [[|a f] [|b d]]; cbn; try discriminate; reflexivity. Qed.

(* the 400 response: sebuf.http.ValidationError with at least one violation, every violation naming a
   field and carrying a description *)
Theorem validation_body_valid : forall (P : vparams) (cst : list (str * jschema)) (vs : list (str * str)),
  builtin_ok cst -> defects_C06_verr vs = [] -> forall fuel, 6 <= fuel ->
  validates P cst fuel (SObj [KwRef (s "ValidationError")]) (wire_jv (validation_body vs)) = VOk true.
Proof.
  intros P cst vs Hb Hd fuel Hfuel. destruct fuel as [|[|[|[|[|[|n]]]]]]; try lia.
  unfold defects_C06_verr in Hd. apply app_eq_nil in Hd as [Hne Hmem].
  destruct vs as [|v0 vs0]; [discriminate Hne|]. set (vs := v0 :: vs0) in *.
  assert (Hall : forall fd, In fd vs -> str_null (fst fd) = false /\ str_null (snd fd) = false).
  { intros fd Hin. destruct (existsb _ vs) eqn:Ee; [discriminate Hmem|].
    rewrite <- Bool.not_true_iff_false in Ee. split.
    - destruct (str_null (fst fd)) eqn:E1; [|reflexivity]. exfalso. apply Ee. apply existsb_exists. exists fd. now rewrite E1.
    - destruct (str_null (snd fd)) eqn:E2; [|reflexivity]. exfalso. apply Ee. apply existsb_exists. exists fd. rewrite E2. now rewrite orb_true_r. }
  assert (Hf : find_comp cst (s "ValidationError") = Some (typed (object_of [(s "violations", array_of (ref_to (s "FieldViolation")))] [s "violations"]))).
  { apply Hb. right. right. now left. }
  assert (Hv : find_comp cst (s "FieldViolation") = Some (typed (object_of [(s "field", YMap [(s "type", ystr "string")]);
                                   (s "description", YMap [(s "type", ystr "string")])] [s "field"; s "description"]))).
  { apply Hb. right. now left. }
  rewrite (validates_ref P cst _ _ _ _ Hf). apply vand_true_r.
  assert (Hw : wire_jv (validation_body vs) = JVObj [(s "violations", JVArr (map violation_jv vs))]).
  { unfold validation_body. unfold vs at 1. cbv iota. fold vs.
    change (wire_jv (JObj [(s "violations", JArr (map violation_json vs))]))
      with (JVObj [(s "violations", JVArr (map wire_jv (map violation_json vs)))]).
    do 4 f_equal. rewrite map_map. apply map_ext_in. intros fd Hin. destruct (Hall fd Hin). now apply violation_wire. }
  rewrite Hw.
  change (typed (object_of [(s "violations", array_of (ref_to (s "FieldViolation")))] [s "violations"]))
    with (SObj [KwType [TObject];
                KwProperties [(s "violations", SObj [KwType [TArray]; KwItems (SObj [KwRef (s "FieldViolation")])])];
                KwRequired [s "violations"]]).
  rewrite validates_S. cbn [map check_kw declared_props flat_map has_type existsb orb app assoc_jv fst snd forallb].
  apply vall_cons_true; [reflexivity|]. apply vall_cons_true; [|reflexivity].
  rewrite str_eqb_refl. apply vall_cons_true; [|reflexivity].
  rewrite validates_S. cbn [map check_kw declared_props flat_map has_type existsb orb app].
  apply vall_cons_true; [reflexivity|]. apply vall_cons_true; [|reflexivity].
  rewrite map_map. apply vall_all_true. intros fd Hin.
  rewrite (validates_ref P cst _ _ _ _ Hv). apply vand_true_r. unfold violation_jv. reflexivity.
Qed.

Theorem error_bodies_valid : forall (P : vparams) (cst : list (str * jschema)), builtin_ok cst ->
  (forall msg fuel, 3 <= fuel ->
     validates P cst fuel (SObj [KwRef (s "Error")]) (wire_jv (error_body msg)) = VOk true) /\
  (forall vs fuel, defects_C06_verr vs = [] -> 6 <= fuel ->
     validates P cst fuel (SObj [KwRef (s "ValidationError")]) (wire_jv (validation_body vs)) = VOk true).
Proof.
  intros P cst Hb. split.
  - intros msg fuel. now apply error_body_valid.
  - intros vs fuel Hd. now apply validation_body_valid.
Qed.

(* the defect classes of error bodies are real: protojson omits what the component requires *)
Theorem refuted_validation_without_violations :
  defects_C06_verr [] = [s "validation-error-without-violations"] /\
  validates P06 (doc_components reader12 (components_of_sets [])) c06_fuel (SObj [KwRef (s "ValidationError")]) (wire_jv (validation_body [])) = VOk false.
Proof. split; vm_compute; reflexivity. Qed.
Theorem refuted_violation_empty_member :
  defects_C06_verr [(s "a", [])] = [s "violation-with-empty-member"] /\
  validates P06 (doc_components reader12 (components_of_sets [])) c06_fuel (SObj [KwRef (s "ValidationError")]) (wire_jv (validation_body [(s "a", [])])) = VOk false.
Proof. split; vm_compute; reflexivity. Qed.

(* URL values: every scalar kind the client can format, every typed value that is a number when
   its kind is float / double *)
Theorem param_valid : forall (P : vparams) (sc : schema) (k : kind) (v : sval),
  wire_formats_are_annotations P ->
  is_scalar_kind k = true -> k <> KBytes -> wt_scalar sc k v = true -> defects_C06_param k v = [] ->
  forall fuel, 1 <= fuel -> validates P [] fuel (typed (param_schema k)) (param_jv k v) = VOk true.
Proof.
  intros P sc k v Hfmt Hk Hnb Hwt Hd fuel Hfuel. destruct fuel as [|n]; [lia|].
  destruct k; try discriminate Hk; try congruence; destruct v; cbn in Hwt; try discriminate Hwt;
    cbn [defects_C06_param] in Hd; unfold param_jv; cbn [ProtoJson.is_int32_kind];
    try (destruct (float_is_finite _ bits); [|discriminate Hd]);
    change (typed (param_schema KDouble)) with (SObj [KwType [TNumber]; KwFormat (s "double")]);
    change (typed (param_schema KFloat)) with (SObj [KwType [TNumber]; KwFormat (s "float")]);
    change (typed (param_schema KInt32)) with (SObj [KwType [TInteger]; KwFormat (s "int32")]);
    change (typed (param_schema KSint32)) with (SObj [KwType [TInteger]; KwFormat (s "int32")]);
    change (typed (param_schema KSfixed32)) with (SObj [KwType [TInteger]; KwFormat (s "int32")]);
    change (typed (param_schema KUint32)) with (SObj [KwType [TInteger]; KwFormat (s "int32")]);
    change (typed (param_schema KFixed32)) with (SObj [KwType [TInteger]; KwFormat (s "int32")]);
    change (typed (param_schema KInt64)) with (SObj [KwType [TString]; KwFormat (s "int64")]);
    change (typed (param_schema KSint64)) with (SObj [KwType [TString]; KwFormat (s "int64")]);
    change (typed (param_schema KSfixed64)) with (SObj [KwType [TString]; KwFormat (s "int64")]);
    change (typed (param_schema KUint64)) with (SObj [KwType [TString]; KwFormat (s "uint64")]);
    change (typed (param_schema KFixed64)) with (SObj [KwType [TString]; KwFormat (s "uint64")]);
    change (typed (param_schema KBool)) with (SObj [KwType [TBoolean]]);
    change (typed (param_schema KString)) with (SObj [KwType [TString]]);
    rewrite validates_S; cbn [map check_kw declared_props flat_map]; rewrite ?Hfmt by reflexivity; reflexivity.
Qed.

(* ================================================================================================ *)
(*  Part 5: witnesses                                                                                *)
(* ================================================================================================ *)
Open Scope Z_scope.
Definition c6msg (n : string) (path : list str) (fs : list field) (os : list oneof) : message :=
  {| m_name := s "c.v1." ++ s n; m_path := path; m_fields := fs; m_oneofs := os |}.
Definition C6 (n : string) : kind := KMessage (s "c.v1." ++ s n).
Definition c6q (n : string) : str := s "c.v1." ++ s n.
Definition c6rpc (name msg : string) : method :=
  {| md_name := s name; md_in := c6q msg; md_out := c6q msg; md_has_cfg := true; md_path := s "/" ++ s name; md_verb := Some 2%nat; md_headers := [] |}.
Definition set_oneof_value (v : string) (f : field) : field :=
  {| f_name := f_name f; f_number := f_number f; f_kind := f_kind f; f_card := f_card f; f_oneof := f_oneof f; f_query := f_query f;
     f_unwrap := f_unwrap f; f_int64 := f_int64 f; f_enumenc := f_enumenc f; f_nullable := f_nullable f; f_empty := f_empty f;
     f_tsfmt := f_tsfmt f; f_bytesenc := f_bytesenc f; f_oneof_value := Some (s v); f_flatten := f_flatten f; f_flatten_prefix := f_flatten_prefix f |}.

Definition c6_color : enum :=
  {| e_name := c6q "Color"; e_values := [ {| ev_name := s "COLOR_UNSPECIFIED"; ev_number := 0; ev_custom := None |};
                                          {| ev_name := s "COLOR_RED"; ev_number := 1; ev_custom := None |} ] |}.
Definition c6_status : enum :=
  {| e_name := c6q "Status"; e_values := [ {| ev_name := s "STATUS_UNSPECIFIED"; ev_number := 0; ev_custom := None |};
                                           {| ev_name := s "STATUS_ACTIVE"; ev_number := 1; ev_custom := Some (s "active") |} ] |}.
Definition c6_tri : enum :=
  {| e_name := c6q "Tri"; e_values := [ {| ev_name := s "UNKNOWN"; ev_number := 0; ev_custom := None |};
                                        {| ev_name := s "TRUE"; ev_number := 1; ev_custom := None |} ] |}.

Definition c6_messages : list message :=
  [ c6msg "Leaf" [s "Leaf"] [fld "a" 1 KString Singular; fld "n" 2 KInt64 Singular] [];
    c6msg "Full" [s "Full"]
      [fld "id" 1 KString Singular; fld "count" 2 KInt32 Singular; fld "big" 3 KInt64 Singular; fld "ubig" 4 KUint64 Singular;
       fld "u32" 5 KUint32 Singular; fld "ratio" 6 KDouble Singular; fld "ok" 7 KBool Singular; fld "raw" 8 KBytes Singular;
       fld "color" 9 (KEnum (c6q "Color")) Singular; fld "leaf" 10 (C6 "Leaf") Singular; fld "items" 11 (C6 "Leaf") Repeated;
       fld "names" 12 KString Repeated; fld "by_key" 13 (C6 "Leaf") (MapOf KString); fld "counts" 14 KInt64 (MapOf KInt32);
       fld "opt_n" 15 KInt32 Optional; fld "at" 16 TS Singular; fld "multi_word_name" 17 KString Singular] [];
    c6msg "WithEnum" [s "WithEnum"] [fld "status" 1 (KEnum (c6q "Status")) Singular] [];
    c6msg "Flag" [s "Flag"] [fld "t" 1 (KEnum (c6q "Tri")) Singular] [];
    c6msg "Nums" [s "Nums"] [set_i64 (fld "big" 1 KInt64 Singular)] [];
    c6msg "NumsHolder" [s "NumsHolder"] [fld "inner" 1 (C6 "Nums") Singular] [];
    c6msg "TextP" [s "TextP"] [fld "body" 1 KString Singular] [];
    c6msg "ImageP" [s "ImageP"] [fld "url" 1 KString Singular] [];
    c6msg "Event" [s "Event"] [fld "eid" 1 KString Singular; set_oneof "content" (fld "text" 2 (C6 "TextP") Singular);
                             set_oneof "content" (fld "image" 3 (C6 "ImageP") Singular)]
      [{| o_name := s "content"; o_has_cfg := true; o_discriminator := s "type"; o_flatten := false |}];
    c6msg "FlatEvent" [s "FlatEvent"] [fld "eid" 1 KString Singular; set_oneof "content" (fld "text" 2 (C6 "TextP") Singular);
                                     set_oneof "content" (fld "image" 3 (C6 "ImageP") Singular)]
      [{| o_name := s "content"; o_has_cfg := true; o_discriminator := s "type"; o_flatten := true |}];
    c6msg "Strs" [s "Strs"] [set_unwrap (fld "vals" 1 KString Repeated)] [];
    c6msg "Outer" [s "Outer"] [fld "l" 1 (C6 "Leaf") Singular; fld "o" 2 (C6 "Outer.Leaf") Singular] [];
    c6msg "Outer.Leaf" [s "Outer"; s "Leaf"] [fld "z" 1 KString Singular] [] ].

Definition c6_service : service :=
  {| sv_name := s "Svc"; sv_base := s "/c"; sv_headers := [];
     sv_methods := [c6rpc "Full" "Full"; c6rpc "WithEnum" "WithEnum"; c6rpc "Flag" "Flag"; c6rpc "NumsHolder" "NumsHolder";
                    c6rpc "Event" "Event"; c6rpc "FlatEvent" "FlatEvent"; c6rpc "Strs" "Strs"] |}.
Definition c6_collide_service : service :=
  {| sv_name := s "Col"; sv_base := s "/c"; sv_headers := []; sv_methods := [c6rpc "Outer" "Outer"] |}.

Definition c6s : schema :=
  [ {| fl_path := s "c/a.proto"; fl_package := s "c.v1"; fl_gopkg := s "c"; fl_generate := true;
       fl_messages := c6_messages; fl_enums := [c6_color; c6_status; c6_tri]; fl_services := [c6_service; c6_collide_service] |} ].

Definition c6doc : c06_doc := Eval vm_compute in prepare_C06 c6s no_side 0 0.
Definition c6doc_col : c06_doc := Eval vm_compute in prepare_C06 c6s no_side 0 1.

Definition nan64 : Z := 9221120237041090561.

(* the wire JSON (Codec.encode under the witness library Ex) fails validation, or validates while
   carrying properties no schema describes; the case lies in exactly the class [tag] *)
Definition verdict6 (d : c06_doc) (tn : str) (m : mval) : res (vres * Z) :=
  match encode Ex (cd_sc d) tn m with
  | ROk j => ROk (validates P06 (cd_tcs d) c06_fuel (body_schema tn) (wire_jv j),
                  und_capped P06 (cd_tcs d) (body_schema tn) (wire_jv j))
  | RErr e => RErr e
  | RUnm w => RUnm w
  end.
Definition refuted6 (d : c06_doc) (tag : c06_defect) (tn : str) (m : mval) (valid : bool) (undescribed : Z) : Prop :=
  cd_ok d = true /\ defects_C06 (cd_sc d) (cd_sd d) (cd_cs d) tn m = [tag] /\
  verdict6 d tn m = ROk (VOk valid, undescribed) /\ (valid = false \/ 0 < undescribed).

Theorem refuted_nan : refuted6 c6doc D6NonFinite (c6q "Full") [(s "ratio", FS (VFloat nan64))] false 0.
Proof. vm_compute. repeat split; auto. Qed.
Theorem refuted_enum_custom_value : refuted6 c6doc (D6Wire D5EnumValue) (c6q "WithEnum") [(s "status", FS (VEnum 1))] false 0.
Proof. vm_compute. repeat split; auto. Qed.
Theorem refuted_enum_unknown_number : refuted6 c6doc D6EnumUnknownNumber (c6q "Full") [(s "color", FS (VEnum 7))] false 0.
Proof. vm_compute. repeat split; auto. Qed.
Theorem refuted_enum_name_untagged : refuted6 c6doc D6EnumNameUntagged (c6q "Flag") [(s "t", FS (VEnum 1))] false 0.
Proof. vm_compute. repeat split; auto. Qed.
Theorem refuted_nested_int64_number : refuted6 c6doc (D6Wire (D5Pj AInt64)) (c6q "NumsHolder") [(s "inner", FM [(s "big", vint 5)])] false 0.
Proof. vm_compute. repeat split; auto. Qed.
(* even the default value: the component is unsatisfiable *)
Theorem refuted_nested_oneof_ambiguous : refuted6 c6doc D6NestedOneofAmbiguous (c6q "Event") [] false 0.
Proof. vm_compute. repeat split; auto. Qed.
Theorem refuted_nested_oneof_ambiguous_set :
  refuted6 c6doc D6NestedOneofAmbiguous (c6q "Event") [(s "eid", vstr "e"); (s "text", FM [(s "body", vstr "b")])] false 0.
Proof. vm_compute. repeat split; auto. Qed.
Theorem refuted_flat_oneof_unset : refuted6 c6doc D6FlatOneofUnset (c6q "FlatEvent") [(s "eid", vstr "e")] false 1.
Proof. vm_compute. repeat split; auto. Qed.
Theorem refuted_root_unwrap_nil : refuted6 c6doc (D6Wire D5RootNull) (c6q "Strs") [] false 0.
Proof. vm_compute. repeat split; auto. Qed.
Theorem refuted_short_name_collision :
  refuted6 c6doc_col D6ShortNameCollision (c6q "Outer") [(s "l", FM [(s "a", vstr "x")])] true 1.
Proof. vm_compute. repeat split; auto. Qed.
(* ---- the witness library satisfies the law the theorems use ------------------------------------------ *)
Definition ptab_numeric (p : ptab) : bool :=
  forallb (fun e => match snd e with JNum _ => true | j => is_jflt j end) p.
Lemma E0_fprint_is_number p t : ptab_numeric p = true -> fprint_is_number (E0 p t).
Proof.
  intros Hp w b j. cbn [x_fprint E0]. induction p as [|[[w' b'] j'] r IH]; [discriminate|].
  cbn [ptab_find]. cbn [ptab_numeric forallb snd] in Hp. apply andb_prop in Hp as [Hj' Hr].
  destruct (Bool.eqb w w' && (b =? b')); [|now apply IH].
  intros H. injection H as <-.
  destruct j' as [| | z | | |kv]; try discriminate Hj'; [left; now exists z|].
  right. destruct kv as [|[k v] r']; [discriminate Hj'|]. destruct v; try (destruct r'; discriminate Hj').
  destruct r'; [|discriminate Hj']. cbn [is_jflt] in Hj'. apply str_eqb_eq in Hj'. subst k. now exists z.
Qed.
Lemma Ex_fprint_is_number : fprint_is_number Ex.
Proof. apply E0_fprint_is_number. reflexivity. Qed.

Lemma P06_formats : wire_formats_are_annotations P06.
Proof. intros name x _. reflexivity. Qed.

(* ---- non-vacuity: a fully populated value with nested, repeated and map fields ---------------------------- *)
Definition all_populated (md : message) (m : mval) : bool :=
  forallb (fun f => match mget m (f_name f) with Some _ => true | None => false end) (m_fields md).

Definition full_value : mval :=
  [(s "id", vstr "i"); (s "count", vint (-3)); (s "big", vint 9007199254740993); (s "ubig", vint 18446744073709551615);
   (s "u32", vint 7); (s "ratio", FS (VFloat 4609434218613702656)); (s "ok", FS (VBool true)); (s "raw", FS (VBytes [ch 1; ch 255]));
   (s "color", FS (VEnum 1)); (s "leaf", FM [(s "a", vstr "x"); (s "n", vint 9)]);
   (s "items", FL [FM [(s "a", vstr "y")]; FM []]); (s "names", FL [vstr "a"; vstr "b"]);
   (s "by_key", FMap [(VStr (s "k"), FM [(s "n", vint 1)])]); (s "counts", FMap [(VInt 1, vint 5)]);
   (s "opt_n", vint 0); (s "at", tsv 5 0); (s "multi_word_name", vstr "w")].

Definition hyps6 (tn : str) (m : mval) : Prop :=
  find_message (all_messages c6s) ts_name = None /\ str_eqb tn ts_name = false /\
  plain_top c6s tn = true /\ plain_in c6s (KMessage tn) (FM m) = true /\
  wt c6s (KMessage tn) (FM m) = true /\ defects_C06 c6s no_side (cd_cs c6doc) tn m = [].

Lemma full_value_hyps : hyps6 (c6q "Full") full_value.
Proof. vm_compute. repeat split; reflexivity. Qed.

Example nonvacuous :
  hyps6 (c6q "Full") full_value /\
  (exists md, find_message (all_messages c6s) (c6q "Full") = Some md /\ all_populated md full_value = true) /\
  cd_tcs c6doc = doc_components reader12 (cd_cs c6doc) /\
  exists j, encode Ex c6s (c6q "Full") full_value = ROk j /\
            (forall fuel, (need (FM full_value) <= fuel)%nat ->
               validates P06 (cd_tcs c6doc) fuel (body_schema (c6q "Full")) (wire_jv j) = VOk true) /\
            (forall uf vf, und P06 (cd_tcs c6doc) uf vf (body_schema (c6q "Full")) (wire_jv j) = 0%nat) /\
            need (FM full_value) = 7%nat.
Proof.
  pose proof full_value_hyps as H. split; [exact H|]. destruct H as [Hts [Htn [Htop [Hpl [Hwt Hd]]]]].
  split; [eexists; split; [reflexivity|vm_compute; reflexivity]|].
  split; [reflexivity|].
  destruct (encode Ex c6s (c6q "Full") full_value) as [j| |] eqn:Ej; [|vm_compute in Ej; discriminate Ej..].
  exists j. split; [reflexivity|]. split; [|split].
  - intros fuel Hfuel. change (cd_tcs c6doc) with (doc_components reader12 (cd_cs c6doc)).
    apply (message_valid Ex c6s P06 (cd_cs c6doc) (c6q "Full") full_value j Ex_fprint_is_number P06_formats Hts Htn Htop Hpl Hwt Hd); auto.
  - intros uf vf. change (cd_tcs c6doc) with (doc_components reader12 (cd_cs c6doc)).
    apply (message_described Ex c6s P06 (cd_cs c6doc) (c6q "Full") full_value j Ex_fprint_is_number Hts Htn Htop Hpl Hwt Hd); auto.
  - reflexivity.
Qed.

(* the same verdict computed directly by the model on the example (what predict_C06 evaluates) *)
Example nonvacuous_computed : verdict6 c6doc (c6q "Full") full_value = ROk (VOk true, 0).
Proof. vm_compute. reflexivity. Qed.
Close Scope Z_scope.
