From Sebuf Require Import Malformed.

Lemma bind_total b : status_of (go_bind_body b) = 200%N \/ status_of (go_bind_body b) = 400%N.
Proof. destruct (go_bind_body b); cbn; auto. Qed.

(* without a defect tag the emitted server decides exactly as the strict reading demands *)
Lemma no_partial b : defects_C11 b = [] -> go_bind_body b = strict_bind_body b.
Proof.
  unfold defects_C11, go_bind_body, strict_bind_body.
  destruct b as [fmt rd emp syn convs rest]; cbn.
  destruct fmt, rd, emp, syn, rest; cbn; try reflexivity; try discriminate;
    destruct (forallb (fun c : bool => c) convs); cbn; try reflexivity; discriminate.
Qed.

(* a dispatched body is always one the strict reading accepts, unless a defect tag applies; and a
   defect tag applies only to dispatches *)
Lemma dispatch_sound b : defects_C11 b = [] -> forall f, go_bind_body b = BDispatch f ->
  f = true /\ strict_bind_body b = BDispatch true.
Proof.
  intros Hd f Hg. pose proof (no_partial b Hd) as E. rewrite Hg in E.
  unfold defects_C11 in Hd. rewrite Hg in Hd. destruct f.
  - split; [reflexivity|now symmetry].
  - destruct (bc_fmt b); [discriminate|]. destruct (bc_empty b); discriminate.
Qed.

Lemma reject_complete b : strict_bind_body b = BReject -> defects_C11 b = [] -> go_bind_body b = BReject.
Proof. intros Hs Hd. now rewrite (no_partial b Hd). Qed.

Lemma client_total r :
  exists c, go_client_parse r = c /\
    ((rc_status r < 400)%N -> c = CResp \/ c = CErrDecode) /\
    ((400 <= rc_status r)%N -> c = CErrValidation \/ c = CErrSebuf \/ c = CErrOther).
Proof.
  exists (go_client_parse r). split; [reflexivity|]. unfold go_client_parse.
  destruct (400 <=? rc_status r)%N eqn:E.
  - apply N.leb_le in E. split; [lia|]. intros _.
    destruct ((rc_status r =? 400)%N && (rc_empty r || rc_as_validation r)); [auto|].
    destruct (rc_empty r || rc_as_error r); auto.
  - apply N.leb_gt in E. split; [|lia]. intros _.
    destruct (rc_empty r || rc_as_result r); auto.
Qed.

(* only a 400 can become a ValidationError *)
Lemma client_validation_only_400 r : go_client_parse r = CErrValidation -> rc_status r = 400%N.
Proof.
  unfold go_client_parse. destruct (400 <=? rc_status r)%N; [|destruct (rc_empty r || rc_as_result r); discriminate].
  destruct (rc_status r =? 400)%N eqn:E; cbn.
  - intros _. now apply N.eqb_eq.
  - destruct (rc_empty r || rc_as_error r); discriminate.
Qed.

(* behind any framing the client ends in exactly one of its result classes ... *)
Lemma client_framed_total f r :
  go_client_framed f r = FRTransport \/ go_client_framed f r = FRRead \/
  exists c, go_client_framed f r = FRParsed c /\ f = FrComplete /\
    ((rc_status r < 400)%N -> c = CResp \/ c = CErrDecode) /\
    ((400 <= rc_status r)%N -> c = CErrValidation \/ c = CErrSebuf \/ c = CErrOther).
Proof.
  destruct f; cbn; auto. right. right.
  destruct (client_total r) as [c [E [H1 H2]]].
  exists c. rewrite E. repeat split; assumption.
Qed.

(* ... and it hands a response value (or a typed sebuf error) to the caller only when net/http
   delivered the whole announced body: nothing is built from a response that was cut short or whose
   framing could not be read, whatever its status *)
Lemma client_framed_value_needs_complete f r c :
  go_client_framed f r = FRParsed c -> f = FrComplete /\ c = go_client_parse r.
Proof. destruct f; cbn; intro H; try discriminate. now inversion H. Qed.

Lemma client_framed_cut_is_error f r : f <> FrComplete ->
  go_client_framed f r = FRTransport \/ go_client_framed f r = FRRead.
Proof. destruct f; cbn; intro H; auto. now contradiction H. Qed.
