(* HeadersFacts.v — lemmas behind props/C09.v. *)
From Sebuf Require Import Text Num Schema Json Headers.
From SebufProofs Require Import TextFacts.

(* ---- header names: case-insensitive equality is an equivalence -------------------------------- *)
Lemma name_eqb_refl a : name_eqb a a = true.
Proof. unfold name_eqb. apply str_eqb_refl. Qed.
Lemma name_eqb_sym a b : name_eqb a b = name_eqb b a.
Proof.
  unfold name_eqb. destruct (str_eqb (lower_str a) (lower_str b)) eqn:E.
  - apply str_eqb_eq in E. rewrite E. symmetry. apply str_eqb_refl.
  - symmetry. apply str_eqb_neq. apply str_eqb_neq in E. congruence.
Qed.
Lemma name_eqb_trans a b c : name_eqb a b = true -> name_eqb b c = true -> name_eqb a c = true.
Proof. unfold name_eqb. intros H1 H2. apply str_eqb_eq in H1, H2. apply str_eqb_eq. congruence. Qed.
Lemma name_eqb_exact a b : str_eqb a b = true -> name_eqb a b = true.
Proof. intros H. apply str_eqb_eq in H. subst. apply name_eqb_refl. Qed.

(* ---- the merge ----------------------------------------------------------------------------------- *)
Lemma eff_find_upsert n h acc :
  eff_find n (upsert h acc) = if name_eqb (h_name h) n then Some h else eff_find n acc.
Proof.
  induction acc as [|a r IH]; cbn.
  - reflexivity.
  - destruct (name_eqb (h_name a) (h_name h)) eqn:Eah; cbn.
    + destruct (name_eqb (h_name h) n) eqn:Ehn; [reflexivity|].
      destruct (name_eqb (h_name a) n) eqn:Ean; [|reflexivity].
      exfalso. rewrite name_eqb_sym in Eah. pose proof (name_eqb_trans _ _ _ Eah Ean). congruence.
    + unfold eff_find in IH. rewrite IH.
      destruct (name_eqb (h_name a) n) eqn:Ean; [|reflexivity].
      destruct (name_eqb (h_name h) n) eqn:Ehn; [|reflexivity].
      exfalso. rewrite name_eqb_sym in Ehn. pose proof (name_eqb_trans _ _ _ Ean Ehn). congruence.
Qed.

Definition last_req_from (o : option header) (n : str) (hs : list header) : option header :=
  fold_left (fun o h => if h_required h && name_eqb (h_name h) n then Some h else o) hs o.

Lemma last_required_eq n hs : last_required n hs = last_req_from None n hs.
Proof. reflexivity. Qed.

Lemma last_req_from_split o n hs :
  last_req_from o n hs = match last_req_from None n hs with Some h => Some h | None => o end.
Proof.
  revert o. induction hs as [|h r IH]; intros o; [reflexivity|].
  change (last_req_from o n (h :: r))
    with (last_req_from (if h_required h && name_eqb (h_name h) n then Some h else o) n r).
  change (last_req_from None n (h :: r))
    with (last_req_from (if h_required h && name_eqb (h_name h) n then Some h else None) n r).
  rewrite IH. rewrite (IH (if h_required h && name_eqb (h_name h) n then Some h else None)).
  destruct (last_req_from None n r); [reflexivity|]. destruct (h_required h && name_eqb (h_name h) n); reflexivity.
Qed.

Lemma eff_find_add_required n hs acc :
  eff_find n (add_required acc hs) = last_req_from (eff_find n acc) n hs.
Proof.
  revert acc. induction hs as [|h r IH]; intros acc; [reflexivity|].
  change (add_required acc (h :: r)) with (add_required (if h_required h then upsert h acc else acc) r).
  rewrite IH.
  change (last_req_from (eff_find n acc) n (h :: r))
    with (last_req_from (if h_required h && name_eqb (h_name h) n then Some h else eff_find n acc) n r).
  f_equal. destruct (h_required h); [|reflexivity]. apply eff_find_upsert.
Qed.

Lemma add_required_app acc a b : add_required acc (a ++ b) = add_required (add_required acc a) b.
Proof. unfold add_required. apply fold_left_app. Qed.

Lemma go_effective_concat svc mth : go_effective svc mth = add_required [] (svc ++ mth).
Proof. unfold go_effective. now rewrite add_required_app. Qed.

Lemma eff_find_effective n svc mth :
  eff_find n (go_effective svc mth) =
  match last_required n mth with Some h => Some h | None => last_required n svc end.
Proof.
  unfold go_effective. rewrite eff_find_add_required, last_req_from_split.
  rewrite eff_find_add_required. cbn. reflexivity.
Qed.

(* a method-level required declaration replaces the service-level one of the same name, whatever the letter case *)
Lemma override_method_wins n svc mth m :
  last_required n mth = Some m -> eff_find n (go_effective svc mth) = Some m.
Proof. intros H. now rewrite eff_find_effective, H. Qed.
Lemma override_service_kept n svc mth :
  last_required n mth = None -> eff_find n (go_effective svc mth) = last_required n svc.
Proof. intros H. now rewrite eff_find_effective, H. Qed.

(* distinct names *)
Fixpoint distinct (l : list header) : Prop :=
  match l with
  | [] => True
  | a :: r => (forall b, In b r -> name_eqb (h_name a) (h_name b) = false) /\ distinct r
  end.

Lemma in_upsert b h acc : In b (upsert h acc) -> b = h \/ In b acc.
Proof.
  induction acc as [|a r IH]; cbn.
  - intros [H|[]]; auto.
  - destruct (name_eqb (h_name a) (h_name h)); cbn; intros [H|H]; auto.
    destruct (IH H); auto.
Qed.

Lemma in_upsert_other b h acc : In b acc -> name_eqb (h_name b) (h_name h) = false -> In b (upsert h acc).
Proof.
  induction acc as [|a r IH]; cbn; [tauto|].
  intros [H|H] E.
  - subst. rewrite E. now left.
  - destruct (name_eqb (h_name a) (h_name h)); cbn; auto.
Qed.

Lemma distinct_upsert h acc : distinct acc -> distinct (upsert h acc).
Proof.
  induction acc as [|a r IH]; cbn.
  - intros _. split; [intros b []|exact I].
  - intros [Ha Hr]. destruct (name_eqb (h_name a) (h_name h)) eqn:E; cbn.
    + split; [|exact Hr]. intros b Hb. specialize (Ha b Hb).
      destruct (name_eqb (h_name h) (h_name b)) eqn:E2; [|reflexivity].
      pose proof (name_eqb_trans _ _ _ E E2). congruence.
    + split; [|now apply IH]. intros b Hb. apply in_upsert in Hb as [->|Hb]; auto.
Qed.

Lemma distinct_add_required hs : forall acc, distinct acc -> distinct (add_required acc hs).
Proof.
  induction hs as [|h r IH]; intros acc H; cbn; [exact H|].
  unfold add_required in *. cbn. apply IH. destruct (h_required h); [now apply distinct_upsert|exact H].
Qed.

Lemma distinct_effective svc mth : distinct (go_effective svc mth).
Proof. unfold go_effective. apply distinct_add_required, distinct_add_required. exact I. Qed.

Lemma distinct_find l h : distinct l -> In h l -> eff_find (h_name h) l = Some h.
Proof.
  induction l as [|a r IH]; cbn; [tauto|].
  intros [Ha Hr] [->|Hin].
  - now rewrite name_eqb_refl.
  - rewrite (Ha h Hin). now apply IH.
Qed.

Lemma in_add_required b hs : forall acc, In b (add_required acc hs) -> In b acc \/ (In b hs /\ h_required b = true).
Proof.
  induction hs as [|h r IH]; intros acc H; cbn in *; [auto|].
  unfold add_required in *. cbn in H. apply IH in H as [H|[H1 H2]]; [|auto].
  destruct (h_required h) eqn:E; [|auto].
  apply in_upsert in H as [->|H]; auto.
Qed.

Lemma in_effective h svc mth : In h (go_effective svc mth) -> In h (svc ++ mth) /\ h_required h = true.
Proof.
  rewrite go_effective_concat. intros H. apply in_add_required in H as [[]|H]. exact H.
Qed.

Lemma effective_is_last h svc mth :
  In h (go_effective svc mth) -> last_required (h_name h) (svc ++ mth) = Some h.
Proof.
  intros H. pose proof (distinct_find _ _ (distinct_effective svc mth) H) as F.
  rewrite go_effective_concat, eff_find_add_required in F. exact F.
Qed.

(* exactly one entry per case-insensitive name: the names of the effective list are pairwise different *)
Lemma effective_names_distinct svc mth a b l1 l2 l3 :
  go_effective svc mth = l1 ++ a :: l2 ++ b :: l3 -> name_eqb (h_name a) (h_name b) = false.
Proof.
  intros E. pose proof (distinct_effective svc mth) as D. rewrite E in D. clear E.
  induction l1 as [|x l1 IH]; cbn in D.
  - destruct D as [D _]. apply D. apply in_or_app. right. now left.
  - apply IH. tauto.
Qed.

(* ---- small facts ------------------------------------------------------------------------------------ *)
Lemma is_s_eq x lit : is_s x lit = true -> x = s lit.
Proof. unfold is_s. apply str_eqb_eq. Qed.

Lemma filter_nil_forall {A} (f : A -> bool) l : filter f l = [] -> forall x, In x l -> f x = false.
Proof.
  induction l as [|a r IH]; cbn; [tauto|].
  destruct (f a) eqn:E; [discriminate|]. intros H x [->|Hx]; auto.
Qed.

Lemma flat_map_nil {A B} (f : A -> list B) l : flat_map f l = [] -> forall x, In x l -> f x = [].
Proof.
  induction l as [|a r IH]; cbn; [tauto|].
  intros H x [->|Hx]; apply app_eq_nil in H as [H1 H2]; auto.
Qed.

Lemma parse_digits_all d : forall acc, all_digits d = true -> exists n, parse_digits acc d = Some n.
Proof.
  induction d as [|c r IH]; intros acc H; cbn in *; [eauto|].
  apply andb_true_iff in H as [H1 H2]. unfold digit_val. rewrite H1. now apply IH.
Qed.

Lemma parse_digits_digits d : forall acc n, parse_digits acc d = Some n -> all_digits d = true.
Proof.
  induction d as [|c r IH]; intros acc n H; cbn in *; [reflexivity|].
  unfold digit_val in H. destruct (is_digit c); [|discriminate]. cbn. eapply IH; eauto.
Qed.

Lemma parse_nat_some d : nonempty d = true -> all_digits d = true -> exists n, parse_nat d = Some n.
Proof. destruct d; [discriminate|]. intros _ H. unfold parse_nat. now apply parse_digits_all. Qed.

Lemma parse_nat_digits d n : parse_nat d = Some n -> nonempty d = true /\ all_digits d = true.
Proof.
  destruct d as [|c r]; [discriminate|]. unfold parse_nat. intros H. split; [reflexivity|].
  eapply parse_digits_digits; eauto.
Qed.

Lemma digit_not_sign c : is_digit c = true -> ceq c "-" = false /\ ceq c "+" = false.
Proof.
  destruct c as [[] [] [] [] [] [] [] []]; vm_compute; intros; try discriminate; split; reflexivity.
Qed.

(* ---- integers ---------------------------------------------------------------------------------------- *)
Lemma pub_integer_go v : pub_integer v = true -> beyond_int64 v = false -> go_int_ok v = true.
Proof.
  unfold pub_integer, beyond_int64, go_int_ok, parse_int, split_minus.
  destruct v as [|c r]; [discriminate|].
  unfold ceq. destruct (Ascii.eqb c "-") eqn:Em.
  - intros H B. apply andb_true_iff in H as [H _]. apply andb_true_iff in H as [H1 H2].
    destruct (parse_nat_some _ H1 H2) as [n Hn]. rewrite Hn in *.
    change (64 - 1)%N with 63%N.
    destruct (N.ltb_spec (2 ^ 63) n) as [L|L]; [discriminate|].
    destruct (N.leb_spec n (2 ^ 63)) as [L'|L']; [reflexivity|lia].
  - intros H B. apply andb_true_iff in H as [H _]. apply andb_true_iff in H as [H1 H2].
    assert (Ep : Ascii.eqb c "+" = false).
    { cbn in H2. apply andb_true_iff in H2 as [Hd _]. apply digit_not_sign in Hd. unfold ceq in Hd. tauto. }
    rewrite Ep. destruct (parse_nat_some _ H1 H2) as [n Hn]. rewrite Hn in *.
    change (64 - 1)%N with 63%N.
    destruct (N.leb_spec (2 ^ 63) n) as [L|L]; [discriminate|].
    destruct (N.ltb_spec n (2 ^ 63)) as [L'|L']; [reflexivity|lia].
Qed.

Lemma go_int_wf v : go_int_ok v = true -> wf_integer v = true.
Proof.
  unfold go_int_ok, parse_int, wf_integer. destruct v as [|c r]; [discriminate|]. unfold ceq.
  destruct (Ascii.eqb c "-") eqn:Em; cbn [orb].
  - destruct (parse_nat r) eqn:P; [|discriminate]. intros _. apply parse_nat_digits in P as [P1 P2]. now rewrite P1, P2.
  - destruct (Ascii.eqb c "+") eqn:Ep; cbn [orb].
    + destruct (parse_nat r) eqn:P; [|discriminate]. intros _. apply parse_nat_digits in P as [P1 P2]. now rewrite P1, P2.
    + destruct (parse_nat (c :: r)) eqn:P; [|discriminate]. intros _. apply parse_nat_digits in P as [P1 P2]. now rewrite P1, P2.
Qed.

Lemma pub_integer_nonempty v : pub_integer v = true -> nonempty v = true.
Proof. destruct v; [discriminate|reflexivity]. Qed.

Lemma pub_integer_ts v : pub_integer v = true -> ts_integer v = true.
Proof.
  unfold pub_integer, ts_integer. destruct (split_minus v) as [ng d]. intros H.
  apply andb_true_iff in H as [H _]. exact H.
Qed.

(* ---- numbers ------------------------------------------------------------------------------------------- *)
Lemma num_tok_nonempty v t : num_tok v = Some t -> nonempty v = true.
Proof. destruct v; [vm_compute; discriminate|reflexivity]. Qed.

Lemma pub_number_go v t : num_tok v = Some t -> num_overflow t = false -> go_number_ok v = true.
Proof. intros H O. unfold go_number_ok. rewrite H, O. apply orb_true_r. Qed.

Lemma go_number_wf v : go_number_ok v = true -> go_special v = false -> wf_number v = true.
Proof. unfold go_number_ok, wf_number. intros H S. rewrite S in H. cbn in H. destruct (num_tok v); [reflexivity|discriminate]. Qed.

Lemma pub_number_ts v : pub_number v = true -> js_number_ok v = true.
Proof. unfold pub_number, js_number_ok. destruct (num_tok v); [reflexivity|discriminate]. Qed.

(* ---- booleans ------------------------------------------------------------------------------------------- *)
Lemma pub_boolean_cases v : pub_boolean v = true -> v = s "true" \/ v = s "false".
Proof.
  unfold pub_boolean, str_in. cbn. intros H. apply orb_true_iff in H as [H|H]; [left; now apply str_eqb_eq|].
  apply orb_true_iff in H as [H|H]; [right; now apply str_eqb_eq|discriminate].
Qed.
Lemma pub_boolean_go v : pub_boolean v = true -> nonempty v = true /\ go_bool_ok v = true /\ ts_boolean v = true.
Proof. intros H. apply pub_boolean_cases in H as [->| ->]; vm_compute; auto. Qed.

(* ---- uuid, email ------------------------------------------------------------------------------------------ *)
Lemma pub_uuid_go v : pub_uuid v = true -> go_uuid_ok v = true.
Proof. unfold pub_uuid, go_uuid_ok. intros H. now apply andb_true_iff in H as [H _]. Qed.

Lemma go_uuid_wf v : go_uuid_ok v = true -> (uuid_frame v && negb (uuid_hex_at 0 v)) = false -> pub_uuid v = true.
Proof.
  unfold go_uuid_ok, pub_uuid. intros H N. rewrite H in *. cbn in *. now destruct (uuid_hex_at 0 v).
Qed.

Lemma dotted_nonempty p x : dotted p x = true -> nonempty x = true.
Proof.
  unfold dotted. intros H. repeat (apply andb_true_iff in H as [H _]). exact H.
Qed.
Lemma dotted_chars p x : dotted p x = true -> forallb (fun c => p c || ceq c ".") x = true.
Proof.
  unfold dotted. intros H. do 3 (apply andb_true_iff in H as [H _]). now apply andb_true_iff in H as [_ H].
Qed.

Lemma pub_email_go v : pub_email v = true -> go_email_ok v = true.
Proof.
  unfold pub_email, go_email_ok. destruct (split_on "@" v) as [|a [|b [|c l]]]; try discriminate.
  intros H. do 4 (apply andb_true_iff in H as [H _]). apply andb_true_iff in H as [Ha Hb].
  now rewrite (dotted_nonempty _ _ Ha), (dotted_nonempty _ _ Hb).
Qed.

Lemma atext_not_ws c : is_atext c || ceq c "." = true -> is_js_ws c = false.
Proof. destruct c as [[] [] [] [] [] [] [] []]; vm_compute; intros; try discriminate; reflexivity. Qed.
Lemma ldh_not_ws c : is_ldh c || ceq c "." = true -> is_js_ws c = false.
Proof. destruct c as [[] [] [] [] [] [] [] []]; vm_compute; intros; try discriminate; reflexivity. Qed.

Lemma no_ws (q : ascii -> bool) x :
  (forall c, q c = true -> is_js_ws c = false) -> forallb q x = true -> existsb is_js_ws x = false.
Proof.
  intros Q. induction x as [|c r IH]; cbn; [reflexivity|].
  intros H. apply andb_true_iff in H as [H1 H2]. now rewrite (Q _ H1), IH.
Qed.

Lemma pub_email_ts v :
  pub_email v = true ->
  match split_on "@" v with [_; b] => inner_dot b = true | _ => True end ->
  ts_email v = true.
Proof.
  unfold pub_email, ts_email. destruct (split_on "@" v) as [|a [|b [|c l]]]; try discriminate.
  intros H D. do 4 (apply andb_true_iff in H as [H _]). apply andb_true_iff in H as [Ha Hb].
  rewrite (dotted_nonempty _ _ Ha), D.
  rewrite (no_ws _ a atext_not_ws (dotted_chars _ _ Ha)), (no_ws _ b ldh_not_ws (dotted_chars _ _ Hb)). reflexivity.
Qed.

(* ---- dates and times ---------------------------------------------------------------------------------------- *)
Lemma expect_some p x c r : expect p x = Some (c, r) -> p c = true.
Proof. destruct x as [|d x']; cbn; [discriminate|]. destruct (p d) eqn:E; [|discriminate]. intros H. now inversion H; subst. Qed.

Lemma tok_datetime_sep v d sep t : tok_datetime v = Some (d, sep, t) -> ceq sep "T" || ceq sep "t" = true.
Proof.
  unfold tok_datetime. destruct (tok_date_prefix v) as [[d' r]|]; [|discriminate].
  destruct (expect _ r) as [[c r']|] eqn:E; [|discriminate].
  destruct (tok_tod r'); [|discriminate]. intros H. inversion H; subst.
  now apply expect_some in E.
Qed.

Lemma tok_zone_zulu x c : tok_zone x = Some (ZZulu c) -> ceq c "Z" || ceq c "z" = true.
Proof.
  destruct x as [|a [|b r]]; cbv beta iota delta [tok_zone].
  - discriminate.
  - destruct (ceq a "Z" || ceq a "z") eqn:E; [|discriminate]. intros H. now inversion H; subst.
  - destruct (ceq a "+" || ceq a "-"); [|discriminate].
    destruct (two_digits (b :: r)) as [[hh r1]|]; [|discriminate].
    destruct (expect _ r1) as [[c1 r2]|]; [|discriminate].
    destruct (two_digits r2) as [[mm [|? ?]]|]; discriminate.
Qed.

Lemma tok_tod_zone v t : tok_tod v = Some t -> exists r, tok_zone r = Some (t_zone t).
Proof.
  unfold tok_tod. destruct (one_or_two_digits v) as [[[h nd] r]|]; [|discriminate].
  destruct (expect _ r) as [[c1 r1]|]; [|discriminate].
  destruct (two_digits r1) as [[mi r2]|]; [|discriminate].
  destruct (expect _ r2) as [[c2 r3]|]; [|discriminate].
  destruct (two_digits r3) as [[se r4]|]; [|discriminate].
  destruct (tok_frac r4) as [fr r5]. destruct (tok_zone r5) eqn:Z; [|discriminate].
  intros H. inversion H; subst. cbn. eauto.
Qed.

Lemma tok_datetime_tod v d sep t : tok_datetime v = Some (d, sep, t) -> exists r, tok_tod r = Some t.
Proof.
  unfold tok_datetime. destruct (tok_date_prefix v) as [[d' r]|]; [|discriminate].
  destruct (expect _ r) as [[c r']|]; [|discriminate].
  destruct (tok_tod r') eqn:E; [|discriminate]. intros H. inversion H; subst. eauto.
Qed.

Lemma pub_datetime_go v :
  pub_datetime v = true -> has_lower_tz v = false -> has_sec60 v = false -> go_datetime_ok v = true.
Proof.
  unfold pub_datetime, has_lower_tz, has_sec60, go_datetime_ok.
  destruct (tok_datetime v) as [[[d sep] t]|] eqn:T; [|discriminate].
  intros P L S. apply orb_true_iff. left. unfold go_dt_fast.
  apply andb_true_iff in P as [Pd Pt]. unfold pub_tod_ok in Pt.
  apply andb_true_iff in Pt as [Pt Pz]. apply andb_true_iff in Pt as [Pt Pf].
  apply andb_true_iff in Pt as [Pt Ps]. apply andb_true_iff in Pt as [Pn Phm].
  apply orb_false_iff in L as [L1 L2].
  pose proof (tok_datetime_sep _ _ _ _ T) as Sep. rewrite L1, orb_false_r in Sep.
  rewrite Sep, Pd, Pn, Pf. cbn [andb].
  assert (Hs : (t_sec t <? 60)%N = true).
  { rewrite S in Ps. cbn in Ps. now rewrite orb_false_r in Ps. }
  unfold hms_ok. rewrite Phm, Hs. cbn [andb].
  destruct (tok_datetime_tod _ _ _ _ T) as [r0 T0]. destruct (tok_tod_zone _ _ T0) as [r Z].
  destruct (t_zone t) as [|c|ng hh mm]; cbn in *; [discriminate| |exact Pz].
  apply tok_zone_zulu in Z. now rewrite L2, orb_false_r in Z.
Qed.

Lemma go_datetime_wf v :
  go_datetime_ok v = true ->
  match tok_datetime v with Some (_, _, t) => dt_lenient_shape t = false | None => True end ->
  pub_datetime v = true.
Proof.
  unfold go_datetime_ok, pub_datetime. destruct (tok_datetime v) as [[[d sep] t]|]; [|discriminate].
  intros G L. unfold dt_lenient_shape in L.
  apply orb_false_iff in L as [L Lz]. apply orb_false_iff in L as [Ln Lf].
  apply negb_false_iff in Ln, Lf.
  assert (G' : date_ok d = true /\ hms_ok t = true /\ go_zone_ok (t_zone t) = true).
  { apply orb_true_iff in G as [G|G].
    - unfold go_dt_fast in G.
      apply andb_true_iff in G as [G Gz]. apply andb_true_iff in G as [G _].
      apply andb_true_iff in G as [G Gh]. apply andb_true_iff in G as [G _].
      apply andb_true_iff in G as [_ Gd]. repeat split; auto.
      destruct (t_zone t) as [|c|ng hh mm]; cbn in *; auto.
      apply andb_true_iff in Gz as [H1 H2].
      apply N.leb_le in H1, H2. apply andb_true_iff. split; apply N.leb_le; lia.
    - unfold go_dt_general in G.
      apply andb_true_iff in G as [G Gz]. apply andb_true_iff in G as [G Gh].
      apply andb_true_iff in G as [_ Gd]. auto. }
  destruct G' as [Gd [Gh Gz]]. rewrite Gd. cbn [andb]. unfold pub_tod_ok. rewrite Ln, Lf.
  unfold hms_ok in Gh. apply andb_true_iff in Gh as [Gh Gs]. rewrite Gh, Gs. cbn.
  destruct (t_zone t) as [|c|ng hh mm]; cbn in *; [discriminate|reflexivity|].
  apply andb_true_iff in Gz as [G1 G2]. apply orb_false_iff in Lz as [Z1 Z2].
  apply N.leb_le in G1, G2. apply N.eqb_neq in Z1, Z2.
  apply andb_true_iff. split; apply N.leb_le; lia.
Qed.

Lemma pub_datetime_ts v : pub_datetime v = true -> has_lower_tz v = false -> ts_datetime v = true.
Proof.
  unfold pub_datetime, has_lower_tz, ts_datetime.
  destruct (tok_datetime v) as [[[d sep] t]|] eqn:T; [|discriminate].
  intros P L. apply andb_true_iff in P as [Pd Pt]. unfold pub_tod_ok in Pt.
  apply andb_true_iff in Pt as [Pt Pz]. apply andb_true_iff in Pt as [Pt Pf].
  apply andb_true_iff in Pt as [Pt Ps]. apply andb_true_iff in Pt as [Pn Phm].
  apply orb_false_iff in L as [L1 L2].
  pose proof (tok_datetime_sep _ _ _ _ T) as Sep. rewrite L1, orb_false_r in Sep.
  rewrite Sep, Pn, Pf. cbn [andb].
  destruct (tok_datetime_tod _ _ _ _ T) as [r0 T0]. destruct (tok_tod_zone _ _ T0) as [r Z].
  destruct (t_zone t) as [|c|ng hh mm]; cbn in *; [discriminate| |reflexivity].
  apply tok_zone_zulu in Z. now rewrite L2, orb_false_r in Z.
Qed.

Lemma go_time_wf v :
  go_time_ok v = true ->
  match tok_tod v with Some t => (negb (Nat.eqb (t_hour_nd t) 2) || negb (frac_sep_is "." t)) = false | None => True end ->
  doc_time v = true.
Proof.
  unfold go_time_ok, doc_time. destruct (tok_tod v) as [t|]; [|discriminate].
  intros G L. apply orb_false_iff in L as [L1 L2]. apply negb_false_iff in L1, L2.
  apply andb_true_iff in G as [G1 G2]. now rewrite L1, L2, G1, G2.
Qed.

Lemma pub_date_ts v : pub_date v = true -> ts_date v = true.
Proof. unfold pub_date, go_date_ok, ts_date. destruct (tok_date v); [reflexivity|discriminate]. Qed.

(* ---- dispatch on type and format ------------------------------------------------------------------------------ *)
Lemma go_value_ok_other ty fmt v :
  is_s ty "integer" = false -> is_s ty "number" = false -> is_s ty "boolean" = false -> is_s ty "array" = false ->
  go_value_ok ty fmt v = go_string_ok fmt v.
Proof. intros A B C D. unfold go_value_ok. rewrite A, B, C, D. now destruct (is_s ty "string"). Qed.

Lemma is_s_excl ty (a b : string) : s a <> s b -> is_s ty a = true -> is_s ty b = false.
Proof. intros N H. apply is_s_eq in H. subst. unfold is_s. apply str_eqb_neq. exact N. Qed.

Ltac other_types ty H :=
  match type of H with
  | is_s _ ?a = true =>
    repeat match goal with
    | |- context [is_s ty ?b] =>
        let N := fresh "N" in
        assert (N : is_s ty b = false)
          by (apply (is_s_excl ty a b); [let E := fresh "E" in vm_compute; intros E; discriminate E | exact H]);
        rewrite N; clear N
    end
  end.

Lemma format_reject_sound fmt v :
  pub_format_ok fmt v = true -> format_reject_defects fmt v = [] -> nonempty v = true /\ go_format_ok fmt v = true.
Proof.
  unfold format_reject_defects, pub_format_ok, go_format_ok. intros P D.
  apply app_eq_nil in D as [D1 D]. apply app_eq_nil in D as [D2 D3].
  split; [destruct (nonempty v); [reflexivity|discriminate]|].
  destruct (is_s fmt "uuid") eqn:Eu; [now apply pub_uuid_go|].
  destruct (is_s fmt "email") eqn:Ee; [now apply pub_email_go|].
  destruct (is_s fmt "date-time") eqn:Ed.
  { apply app_eq_nil in D3 as [Da Db].
    apply pub_datetime_go; auto.
    - destruct (has_lower_tz v); [discriminate|reflexivity].
    - destruct (has_sec60 v); [discriminate|reflexivity]. }
  destruct (is_s fmt "date") eqn:Ey; [exact P|].
  destruct (is_s fmt "time") eqn:Et; [discriminate|reflexivity].
Qed.

(* published-conforming values outside the reject classes pass the Go validator *)
Lemma reject_sound ty fmt v :
  published_ok ty fmt v = true -> value_reject_defects ty fmt v = [] ->
  nonempty v = true /\ go_value_ok ty fmt v = true.
Proof.
  intros P D. unfold value_reject_defects in D. rewrite P in D. cbn [negb] in D. unfold published_ok in P.
  destruct (is_s ty "integer") eqn:Ti.
  { unfold go_value_ok. other_types ty Ti. rewrite Ti. split; [now apply pub_integer_nonempty|].
    apply pub_integer_go; auto. destruct (beyond_int64 v); [discriminate|reflexivity]. }
  destruct (is_s ty "number") eqn:Tn.
  { unfold go_value_ok. other_types ty Tn. rewrite Tn. unfold pub_number in P.
    destruct (num_tok v) as [t|] eqn:T; [|discriminate]. split; [eapply num_tok_nonempty; eauto|].
    eapply pub_number_go; eauto. destruct (num_overflow t); [discriminate|reflexivity]. }
  destruct (is_s ty "boolean") eqn:Tb.
  { unfold go_value_ok. other_types ty Tb. rewrite Tb. apply pub_boolean_go in P. tauto. }
  destruct (is_s ty "array") eqn:Ta.
  { unfold go_value_ok. other_types ty Ta. rewrite Ta. unfold go_array_ok.
    destruct (nonempty v); [|discriminate]. destruct (all_space v); [discriminate|auto]. }
  rewrite go_value_ok_other by assumption. unfold go_string_ok.
  apply andb_true_iff in P as [Pu Pf]. rewrite Pu. cbn [andb]. now apply format_reject_sound.
Qed.

Lemma format_accept_sound fmt v :
  go_format_ok fmt v = true -> format_accept_defects fmt v = [] -> wf_format_ok fmt v = true.
Proof.
  unfold go_format_ok, format_accept_defects, wf_format_ok. intros G D.
  destruct (is_s fmt "uuid") eqn:Eu.
  { apply go_uuid_wf; auto. destruct (uuid_frame v && negb (uuid_hex_at 0 v)); [discriminate|reflexivity]. }
  destruct (is_s fmt "email") eqn:Ee; [exact G|].
  destruct (is_s fmt "date-time") eqn:Ed.
  { apply go_datetime_wf; auto. destruct (tok_datetime v) as [[[d sep] t]|]; [|exact I].
    destruct (dt_lenient_shape t); [discriminate|reflexivity]. }
  destruct (is_s fmt "date") eqn:Ey; [exact G|].
  destruct (is_s fmt "time") eqn:Et; [|reflexivity].
  apply orb_true_iff. right. apply go_time_wf; auto. destruct (tok_tod v) as [t|]; [|exact I].
  destruct (negb (Nat.eqb (t_hour_nd t) 2) || negb (frac_sep_is "." t)); [discriminate|reflexivity].
Qed.

(* values the Go validator accepts outside the accept classes are well-formed *)
Lemma accept_sound ty fmt v :
  go_value_ok ty fmt v = true -> value_accept_defects ty fmt v = [] -> wf_value ty fmt v = true.
Proof.
  intros G D. unfold value_accept_defects in D. unfold wf_value.
  destruct (is_s ty "string") eqn:Ts.
  { unfold go_value_ok in G. rewrite Ts in G. other_types ty Ts. unfold go_string_ok in G.
    apply andb_true_iff in G as [Gu Gf]. rewrite Gu. cbn [andb]. now apply format_accept_sound. }
  destruct (is_s ty "integer") eqn:Ti.
  { unfold go_value_ok in G. rewrite Ts, Ti in G. now apply go_int_wf. }
  destruct (is_s ty "number") eqn:Tn.
  { unfold go_value_ok in G. rewrite Ts, Ti, Tn in G. apply go_number_wf; auto.
    destruct (go_special v); [discriminate|reflexivity]. }
  destruct (is_s ty "boolean") eqn:Tb.
  { unfold go_value_ok in G. now rewrite Ts, Ti, Tn, Tb in G. }
  destruct (is_s ty "array") eqn:Ta.
  { unfold go_value_ok in G. now rewrite Ts, Ti, Tn, Tb, Ta in G. }
  rewrite go_value_ok_other in G by assumption. unfold go_string_ok in G.
  apply andb_true_iff in G as [Gu Gf]. rewrite Gu. cbn [andb]. now apply format_accept_sound.
Qed.

(* published-conforming values are well-formed in the lenient sense (the two notions are nested) *)
Lemma published_wf ty fmt v : published_ok ty fmt v = true -> nonempty v = true -> negb (all_space v) = true \/ is_s ty "array" = false ->
  wf_value ty fmt v = true.
Proof.
  unfold published_ok, wf_value. intros P NE AS.
  destruct (is_s ty "integer").
  { unfold pub_integer in P. unfold wf_integer. destruct v as [|c r]; [discriminate|]. unfold split_minus in P.
    unfold ceq in *. destruct (Ascii.eqb c "-"); cbn [orb].
    - apply andb_true_iff in P as [P _]. exact P.
    - apply andb_true_iff in P as [P _]. apply andb_true_iff in P as [P1 P2].
      assert (Ep : Ascii.eqb c "+" = false).
      { cbn in P2. apply andb_true_iff in P2 as [Hd _]. apply digit_not_sign in Hd. unfold ceq in Hd. tauto. }
      rewrite Ep. now rewrite P1, P2. }
  destruct (is_s ty "number").
  { unfold pub_number in P. unfold wf_number. destruct (num_tok v); [reflexivity|discriminate]. }
  destruct (is_s ty "boolean"); [now apply pub_boolean_go in P|].
  destruct (is_s ty "array"); [destruct AS as [AS|AS]; [exact AS|discriminate]|].
  apply andb_true_iff in P as [Pu Pf]. rewrite Pu. cbn [andb]. unfold pub_format_ok in Pf. unfold wf_format_ok.
  destruct (is_s fmt "uuid"); [exact Pf|]. destruct (is_s fmt "email"); [now apply pub_email_go|].
  destruct (is_s fmt "date-time"); [exact Pf|]. destruct (is_s fmt "date"); [exact Pf|].
  destruct (is_s fmt "time"); [now rewrite Pf|reflexivity].
Qed.

(* TS *)
Lemma unknown_format_ts fmt v : known_format fmt = false -> ts_format_ok fmt v = true.
Proof.
  unfold known_format, str_in, ts_format_ok, is_s. cbn [existsb]. intros H.
  apply orb_false_iff in H as [E1 H]. apply orb_false_iff in H as [E2 H]. apply orb_false_iff in H as [E3 H].
  apply orb_false_iff in H as [E4 H]. apply orb_false_iff in H as [E5 _]. now rewrite E1, E2, E3, E4, E5.
Qed.

Lemma ts_sound ty fmt v :
  published_ok ty fmt v = true -> ts_value_defects ty fmt v = [] -> ts_value_ok ty fmt v = true.
Proof.
  intros P D. unfold ts_value_defects in D. rewrite P in D. cbn [negb] in D. unfold published_ok in P. unfold ts_value_ok.
  destruct (string_typed ty) eqn:St; cbn [negb] in D.
  - (* string-typed: the type switch does nothing *)
    assert (Ti : is_s ty "integer" = false /\ is_s ty "number" = false /\ is_s ty "boolean" = false /\ is_s ty "array" = false).
    { unfold string_typed in St. apply orb_true_iff in St as [St|St]; repeat split; other_types ty St; reflexivity. }
    destruct Ti as [Ti [Tn [Tb Ta]]]. rewrite Ti, Tn, Tb, Ta in P. rewrite Ti, Tn, Tb. cbn [andb].
    apply andb_true_iff in P as [_ Pf]. unfold pub_format_ok in Pf. unfold ts_format_ok.
    apply app_eq_nil in D as [D1 D]. apply app_eq_nil in D as [D2 D3].
    destruct (is_s fmt "uuid"); [exact Pf|].
    destruct (is_s fmt "email").
    { apply pub_email_ts; auto. destruct (split_on "@" v) as [|a [|b [|c l]]]; auto. destruct (inner_dot b); [reflexivity|discriminate]. }
    destruct (is_s fmt "date-time").
    { apply pub_datetime_ts; auto. destruct (has_lower_tz v); [discriminate|reflexivity]. }
    destruct (is_s fmt "date"); [now apply pub_date_ts|].
    destruct (is_s fmt "time"); [discriminate|reflexivity].
  - assert (F : ts_format_ok fmt v = true).
    { apply unknown_format_ts. destruct (known_format fmt); [discriminate|reflexivity]. }
    rewrite F, andb_true_r.
    destruct (is_s ty "integer"); [now apply pub_integer_ts|].
    destruct (is_s ty "number"); [now apply pub_number_ts|].
    destruct (is_s ty "boolean"); [now apply pub_boolean_go in P|reflexivity].
Qed.

(* ---- the gate -------------------------------------------------------------------------------------------------- *)
Lemma gate_go svc mth rq bv bok :
  o_handler (go_serve svc mth rq bv bok) = true ->
  forall h, In h (go_effective svc mth) ->
    nonempty (go_value_of rq (h_name h)) = true /\
    go_value_ok (h_type h) (h_format h) (go_value_of rq (h_name h)) = true.
Proof.
  unfold go_serve. destruct (go_offending svc mth rq) eqn:O.
  - intros _ h Hin. unfold go_offending in O. pose proof (filter_nil_forall _ _ O h Hin) as B.
    unfold go_header_bad in B. apply orb_false_iff in B as [B1 B2]. apply negb_false_iff in B1, B2. auto.
  - cbn. discriminate.
Qed.

Lemma value_of_some rq n : nonempty (go_value_of rq n) = true -> hdr_get rq n = Some (go_value_of rq n).
Proof. unfold go_value_of. destruct (hdr_get rq n); [reflexivity|discriminate]. Qed.

Lemma gate_wellformed svc mth rq bv bok :
  o_handler (go_serve svc mth rq bv bok) = true -> accept_defects_C09 svc mth rq = [] ->
  forall h, In h (go_effective svc mth) ->
    exists v, hdr_get rq (h_name h) = Some v /\ nonempty v = true /\ wf_value (h_type h) (h_format h) v = true.
Proof.
  intros H A h Hin. destruct (gate_go _ _ _ _ _ H h Hin) as [NE OK].
  exists (go_value_of rq (h_name h)). pose proof (value_of_some _ _ NE) as G. split; [exact G|]. split; [exact NE|].
  apply accept_sound; [exact OK|].
  pose proof (flat_map_nil _ _ A h Hin) as D. cbv beta in D. now rewrite G in D.
Qed.

Lemma distinct_filter f l : distinct l -> distinct (filter f l).
Proof.
  induction l as [|a r IH]; cbn; [auto|]. intros [Ha Hr]. destruct (f a); cbn; [|auto].
  split; [|auto]. intros b Hb. apply filter_In in Hb as [Hb _]. auto.
Qed.

Lemma reject_400 svc mth rq bv bok :
  go_offending svc mth rq <> [] ->
  let o := go_serve svc mth rq bv bok in
  o_status o = 400%Z /\ o_violations o = map h_name (go_offending svc mth rq) /\
  o_handler o = false /\ o_body_read o = false /\ distinct (go_offending svc mth rq) /\
  (forall h, In h (go_offending svc mth rq) <->
             In h (go_effective svc mth) /\
             (nonempty (go_value_of rq (h_name h)) = false \/
              go_value_ok (h_type h) (h_format h) (go_value_of rq (h_name h)) = false)).
Proof.
  intros N. cbv zeta.
  assert (S : go_serve svc mth rq bv bok =
              {| o_status := 400; o_violations := map h_name (go_offending svc mth rq); o_handler := false; o_body_read := false |}).
  { unfold go_serve. destruct (go_offending svc mth rq); [congruence|reflexivity]. }
  rewrite S. cbn.
  split; [reflexivity|]. split; [reflexivity|]. split; [reflexivity|]. split; [reflexivity|].
  split; [unfold go_offending; apply distinct_filter, distinct_effective|].
  intros h. unfold go_offending. rewrite filter_In. unfold go_header_bad. split.
  - intros [Hin H]. split; [exact Hin|]. apply orb_true_iff in H as [H|H]; apply negb_true_iff in H; auto.
  - intros [Hin Hb]. split; [exact Hin|]. destruct Hb as [Hb|Hb]; rewrite Hb; cbn; auto using orb_true_r.
Qed.

(* ---- the published list keeps, for an effective header outside the override shape, that very declaration ----- *)
Definition last_exact_from (o : option header) (n : str) (hs : list header) : option header :=
  fold_left (fun o h => if str_eqb (h_name h) n then Some h else o) hs o.

Lemma last_agree n L : forall h p,
  last_req_from None n L = Some h -> h_name h = n -> last_exact_from None n L = Some p -> h_required p = true -> p = h.
Proof.
  induction L as [|x L IH] using rev_ind; intros h p; [discriminate|].
  unfold last_req_from, last_exact_from. rewrite !fold_left_app. cbn.
  fold (last_req_from None n L). fold (last_exact_from None n L).
  destruct (str_eqb (h_name x) n) eqn:Ex.
  - intros Hr Hn Hp Rp. inversion Hp; subst p. rewrite Rp in Hr. rewrite (name_eqb_exact _ _ Ex) in Hr. cbn in Hr. congruence.
  - destruct (h_required x && name_eqb (h_name x) n) eqn:Er.
    + intros Hr Hn. inversion Hr; subst h. apply str_eqb_neq in Ex. congruence.
    + intros Hr Hn Hp Rp. eapply IH; eauto.
Qed.

Lemma last_exact_in n L : forall o p, last_exact_from o n L = Some p -> o = Some p \/ In p L.
Proof.
  induction L as [|x L IH]; intros o p; cbn; [auto|].
  intros H. apply IH in H as [H|H]; [|auto]. destruct (str_eqb (h_name x) n); [inversion H; auto|auto].
Qed.

Definition exact_find (n : str) (l : list header) : option header := find (fun a => str_eqb (h_name a) n) l.

Lemma exact_find_upsert n h acc :
  exact_find n (upsert_exact h acc) = if str_eqb (h_name h) n then Some h else exact_find n acc.
Proof.
  induction acc as [|a r IH]; cbn; [reflexivity|].
  destruct (str_eqb (h_name a) (h_name h)) eqn:Eah; cbn.
  - apply str_eqb_eq in Eah. rewrite Eah. destruct (str_eqb (h_name h) n); reflexivity.
  - unfold exact_find in IH. rewrite IH.
    destruct (str_eqb (h_name a) n) eqn:Ean; [|reflexivity].
    destruct (str_eqb (h_name h) n) eqn:Ehn; [|reflexivity].
    apply str_eqb_eq in Ean, Ehn. apply str_eqb_neq in Eah. congruence.
Qed.

Lemma exact_find_fold n L : nonempty n = true -> forall acc,
  exact_find n (fold_left (fun acc h => if nonempty (h_name h) then upsert_exact h acc else acc) L acc)
  = last_exact_from (exact_find n acc) n L.
Proof.
  intros NE. induction L as [|x L IH]; intros acc; [reflexivity|].
  cbn [fold_left]. rewrite IH. unfold last_exact_from. cbn [fold_left]. f_equal.
  destruct (nonempty (h_name x)) eqn:Nx.
  - apply exact_find_upsert.
  - destruct (str_eqb (h_name x) n) eqn:E; [|reflexivity]. apply str_eqb_eq in E. rewrite E in Nx. congruence.
Qed.

Lemma combine_keeps svc mth n p :
  nonempty n = true -> last_exact n (svc ++ mth) = Some p -> In p (combine_headers svc mth).
Proof.
  intros NE H. change (last_exact n (svc ++ mth)) with (last_exact_from None n (svc ++ mth)) in H.
  unfold combine_headers. destruct svc as [|s0 svc'].
  - cbn in H. apply last_exact_in in H as [H|H]; [discriminate|exact H].
  - destruct mth as [|m0 mth'].
    + rewrite app_nil_r in H. apply last_exact_in in H as [H|H]; [discriminate|exact H].
    + pose proof (exact_find_fold n ((s0 :: svc') ++ m0 :: mth') NE []) as F. cbn [exact_find find] in F.
      rewrite H in F. unfold exact_find in F. apply find_some in F as [F _]. exact F.
Qed.

Lemma last_exact_exists n L h : In h L -> h_name h = n -> exists p, last_exact_from None n L = Some p.
Proof.
  induction L as [|x L IH] using rev_ind; [intros []|].
  intros Hin Hn. unfold last_exact_from. rewrite fold_left_app. cbn. fold (last_exact_from None n L).
  destruct (str_eqb (h_name x) n) eqn:E; [eauto|].
  apply in_app_or in Hin as [Hin|[->|[]]]; [now apply IH|]. apply str_eqb_neq in E. congruence.
Qed.

(* Go: a request that satisfies the published parameter list and lies outside the reject classes
   passes the header gate *)
Lemma published_passes_go svc mth rq :
  forallb (fun h => nonempty (h_name h)) (svc ++ mth) = true ->
  reject_defects_C09 svc mth rq = [] -> published_request_ok svc mth rq = true ->
  go_offending svc mth rq = [].
Proof.
  intros NE R P. unfold go_offending.
  assert (A : forall h, In h (go_effective svc mth) -> go_header_bad rq h = false).
  { intros h Hin. pose proof (flat_map_nil _ _ R h Hin) as D. cbv beta in D.
    destruct (optional_override_shape svc mth h) eqn:OV; [discriminate|].
    destruct (in_effective _ _ _ Hin) as [HinL Req].
    pose proof (effective_is_last _ _ _ Hin) as Last.
    destruct (last_exact_exists _ _ _ HinL eq_refl) as [p Hp].
    unfold optional_override_shape in OV. change (last_exact (h_name h) (svc ++ mth)) with (last_exact_from None (h_name h) (svc ++ mth)) in OV.
    rewrite Hp in OV. apply negb_false_iff in OV.
    pose proof (last_agree _ _ _ _ Last eq_refl Hp OV). subst p.
    assert (NEh : nonempty (h_name h) = true). { rewrite forallb_forall in NE. now apply NE. }
    pose proof (combine_keeps _ _ _ _ NEh Hp) as InP.
    unfold published_request_ok in P. rewrite forallb_forall in P. specialize (P _ InP). unfold pub_param_ok in P.
    unfold go_header_bad, go_value_of.
    destruct (hdr_get rq (h_name h)) as [v|]; [|rewrite Req in P; discriminate].
    destruct (reject_sound _ _ _ P D) as [N1 N2]. now rewrite N1, N2. }
  induction (go_effective svc mth) as [|a r IH]; [reflexivity|]. cbn.
  rewrite (A a (or_introl eq_refl)). apply IH. intros h Hh. apply A. now right.
Qed.

(* TS: the same outside the TS classes *)
Lemma published_passes_ts svc mth rq :
  defects_C09_ts svc mth rq = [] -> published_request_ok svc mth rq = true -> ts_violations svc mth rq = [].
Proof.
  intros D P. unfold ts_violations.
  assert (A : forall h, In h (ts_configs svc mth) -> ts_header_bad rq h = false).
  { intros h Hin. pose proof (flat_map_nil _ _ D h Hin) as Dh. cbv beta in Dh.
    destruct (in_published svc mth h) eqn:IP; [|discriminate]. cbn [negb] in Dh.
    unfold in_published in IP. apply existsb_exists in IP as [p [Hp E]].
    apply andb_true_iff in E as [E Er]. apply andb_true_iff in E as [E Ef]. apply andb_true_iff in E as [En Et].
    apply str_eqb_eq in En, Et, Ef. apply Bool.eqb_prop in Er.
    unfold published_request_ok in P. rewrite forallb_forall in P. specialize (P _ Hp). unfold pub_param_ok in P.
    rewrite En, Et, Ef, Er in P. unfold ts_header_bad.
    destruct (hdr_get rq (h_name h)) as [v|]; [|now apply negb_true_iff in P].
    apply negb_false_iff. now apply ts_sound. }
  induction (ts_configs svc mth) as [|a r IH]; [reflexivity|]. cbn.
  rewrite (A a (or_introl eq_refl)). apply IH. intros h Hh. apply A. now right.
Qed.
