From Sebuf Require Import Text Traverse.
From Coq Require Import Lia.

(* ---- counting with filter -------------------------------------------------------------------- *)
Lemma filter_le {A} (p q : A -> bool) (l : list A) :
  (forall x, In x l -> q x = true -> p x = true) -> List.length (filter q l) <= List.length (filter p l).
Proof.
  induction l as [|a l IH]; intros H; cbn; [lia|].
  assert (IH' : List.length (filter q l) <= List.length (filter p l)).
  { apply IH. intros x Hx. apply H. now right. }
  destruct (q a) eqn:Eq.
  - rewrite (H a (or_introl eq_refl) Eq). cbn. lia.
  - destruct (p a); cbn; lia.
Qed.

Lemma filter_lt {A} (p q : A -> bool) (l : list A) (a : A) :
  (forall x, In x l -> q x = true -> p x = true) -> In a l -> p a = true -> q a = false ->
  List.length (filter q l) < List.length (filter p l).
Proof.
  induction l as [|b l IH]; intros H Hin Hp Hq; [contradiction|]. cbn.
  assert (Hl : forall x, In x l -> q x = true -> p x = true) by (intros x Hx; apply H; now right).
  destruct Hin as [->|Hin].
  - rewrite Hp, Hq. cbn. pose proof (filter_le p q l Hl). lia.
  - specialize (IH Hl Hin Hp Hq).
    destruct (q b) eqn:Eq.
    + rewrite (H b (or_introl eq_refl) Eq). cbn. lia.
    + destruct (p b); cbn; lia.
Qed.

Lemma mem_nat_In n l : mem_nat n l = true <-> In n l.
Proof.
  unfold mem_nat. rewrite existsb_exists. split.
  - intros [x [Hin Heq]]. apply Nat.eqb_eq in Heq. now subst.
  - intros H. exists n. split; [exact H|apply Nat.eqb_refl].
Qed.

(* number of graph nodes (indices below k) not in [visited] *)
Definition unv (k : nat) (visited : list nat) : nat :=
  List.length (filter (fun j => negb (mem_nat j visited)) (seq 0 k)).

Lemma unv_le k : forall v, unv k v <= k.
Proof.
  intros v. unfold unv.
  pose proof (filter_le (fun _ => true) (fun j => negb (mem_nat j v)) (seq 0 k)) as H.
  assert (E : filter (fun _ : nat => true) (seq 0 k) = seq 0 k).
  { generalize (seq 0 k). intros l. induction l as [|a l IH]; cbn; [reflexivity|now rewrite IH]. }
  rewrite E, seq_length in H. apply H. auto.
Qed.

Lemma unv_mono k v w : (forall x, In x v -> In x w) -> unv k w <= unv k v.
Proof.
  intros Hsub. unfold unv. apply filter_le. intros x _ Hq.
  apply negb_true_iff in Hq. apply negb_true_iff.
  destruct (mem_nat x v) eqn:E; [|reflexivity].
  apply mem_nat_In in E. apply Hsub in E. apply mem_nat_In in E. congruence.
Qed.

Lemma unv_cons k v n : n < k -> mem_nat n v = false -> unv k (n :: v) < unv k v.
Proof.
  intros Hlt Hnv. unfold unv. apply (filter_lt _ _ _ n).
  - intros x _ Hq. apply negb_true_iff in Hq. apply negb_true_iff.
    destruct (mem_nat x v) eqn:E; [|reflexivity].
    apply mem_nat_In in E. assert (In x (n :: v)) as H by now right.
    apply mem_nat_In in H. congruence.
  - apply in_seq. lia.
  - now rewrite Hnv.
  - apply negb_false_iff. apply mem_nat_In. now left.
Qed.

(* ---- the guarded walk terminates ------------------------------------------------------------- *)
Lemma collect_total g : wf_graph g ->
  forall fuel visited n, n < List.length g -> unv (List.length g) visited < fuel ->
  exists v', collect fuel g visited n = Some v' /\ (forall x, In x visited -> In x v').
Proof.
  intros Hwf. induction fuel as [|f IH]; intros visited n Hn Hfuel; [lia|].
  cbn [collect]. destruct (mem_nat n visited) eqn:Em.
  - exists visited. split; [reflexivity|auto].
  - assert (Hstep : unv (List.length g) (n :: visited) < f).
    { pose proof (unv_cons (List.length g) visited n Hn Em). lia. }
    assert (Hedges : forall e, In e (edges_of g n) -> fst e < List.length g).
    { intros [t b] Hin. apply (Hwf n t b Hin). }
    revert Hedges.
    generalize (edges_of g n) as es.
    assert (Hacc : forall x, In x (n :: visited) -> In x (n :: visited)) by auto.
    revert Hacc Hstep. generalize (n :: visited) at 2 3 4 as acc.
    intros acc Hacc Hstep es. revert acc Hacc Hstep.
    induction es as [|e es IHes]; intros acc Hacc Hstep Hedges; cbn [fold_left].
    + exists acc. split; [reflexivity|]. intros x Hx. apply Hacc. now right.
    + destruct (IH acc (fst e) (Hedges e (or_introl eq_refl)) Hstep) as [v1 [E1 Hsub1]].
      rewrite E1. apply IHes.
      * intros x Hx. apply Hsub1. now apply Hacc.
      * pose proof (unv_mono (List.length g) acc v1 Hsub1). lia.
      * intros e' He'. apply Hedges. now right.
Qed.

Theorem guarded_walk_terminates g n : wf_graph g -> n < List.length g ->
  collect (S (List.length g)) g [] n <> None.
Proof.
  intros Hwf Hn.
  destruct (collect_total g Hwf (S (List.length g)) [] n Hn) as [v' [E _]].
  - pose proof (unv_le (List.length g) []). lia.
  - rewrite E. discriminate.
Qed.

(* ---- the mock walk ---------------------------------------------------------------------------- *)
Definition mock_step (f : nat) (g : graph) :=
  fun (acc : option nat) (e : nat * bool) =>
    match acc with
    | None => None
    | Some k => if snd e then match mock_assign f g (fst e) with
                              | Some j => Some (k + j + 1)
                              | None => None end
                else Some (k + 1)
    end.

Lemma mock_assign_S f g n : mock_assign (S f) g n = fold_left (mock_step f g) (edges_of g n) (Some 0).
Proof. reflexivity. Qed.

Lemma fold_none f g es : fold_left (mock_step f g) es None = None.
Proof. induction es as [|e es IH]; cbn; auto. Qed.

Lemma fold_hits_none f g es m : In (m, true) es -> mock_assign f g m = None ->
  forall acc, fold_left (mock_step f g) es acc = None.
Proof.
  induction es as [|e es IH]; intros Hin Hm acc; [contradiction|]. cbn [fold_left].
  destruct Hin as [->|Hin].
  - destruct acc as [k|]; cbn; [rewrite Hm|]; apply fold_none.
  - apply IH; assumption.
Qed.

(* a set of nodes each of which has a followed edge back into the set never finishes *)
Theorem mock_cycle_diverges g (C : list nat) :
  (forall n, In n C -> exists m, In m C /\ In (m, true) (edges_of g n)) ->
  forall fuel n, In n C -> mock_assign fuel g n = None.
Proof.
  intros Hc. induction fuel as [|f IH]; intros n Hn; [reflexivity|].
  rewrite mock_assign_S. destruct (Hc n Hn) as [m [HmC Hedge]].
  apply (fold_hits_none f g _ m Hedge). apply IH. exact HmC.
Qed.

Corollary mock_self_loop_diverges g n :
  In (n, true) (edges_of g n) -> forall fuel, mock_assign fuel g n = None.
Proof.
  intros H fuel. apply (mock_cycle_diverges g [n]); [|now left].
  intros x [<-|[]]. exists n. split; [now left|exact H].
Qed.

(* reaching a diverging node through a followed edge diverges too *)
Theorem mock_reaches_diverging g n m :
  In (m, true) (edges_of g n) -> (forall fuel, mock_assign fuel g m = None) ->
  forall fuel, mock_assign fuel g n = None.
Proof.
  intros Hedge Hm [|f]; [reflexivity|]. rewrite mock_assign_S.
  apply (fold_hits_none f g _ m Hedge). apply Hm.
Qed.

(* with a rank that decreases along followed edges (an acyclic response type) the walk finishes *)
Theorem mock_ranked_terminates g (rank : nat -> nat) :
  (forall n m, In (m, true) (edges_of g n) -> rank m < rank n) ->
  forall fuel n, rank n < fuel -> exists k, mock_assign fuel g n = Some k.
Proof.
  intros Hr. induction fuel as [|f IH]; intros n Hlt; [lia|].
  rewrite mock_assign_S.
  assert (He : forall m, In (m, true) (edges_of g n) -> rank m < f).
  { intros m Hm. specialize (Hr n m Hm). lia. }
  revert He. generalize (edges_of g n) as es. generalize 0 as k0.
  intros k0 es. revert k0. induction es as [|[t b] es IHes]; intros k0 He; cbn [fold_left].
  - now exists k0.
  - unfold mock_step at 2. cbn [snd fst]. destruct b.
    + destruct (IH t (He t (or_introl eq_refl))) as [j Ej]. rewrite Ej.
      apply IHes. intros m Hm. apply He. now right.
    + apply IHes. intros m Hm. apply He. now right.
Qed.

(* ---- the repaired mock walk terminates on every finite graph ---------------------------------- *)
Lemma mock_path_total g : wf_graph g ->
  forall fuel path n, n < List.length g -> mem_nat n path = false -> unv (List.length g) path < fuel ->
  exists k, mock_path fuel g path n = Some k.
Proof.
  intros Hwf. induction fuel as [|f IH]; intros path n Hn Hnp Hfuel; [lia|].
  cbn [mock_path].
  assert (Hstep : unv (List.length g) (n :: path) < f).
  { pose proof (unv_cons (List.length g) path n Hn Hnp). lia. }
  assert (Hedges : forall e, In e (edges_of g n) -> fst e < List.length g).
  { intros [t b] Hin. apply (Hwf n t b Hin). }
  revert Hedges. generalize (edges_of g n) as es. intros es Hedges.
  enough (H : forall k0, exists k,
    fold_left (fun (acc : option nat) (e : nat * bool) =>
                 match acc with
                 | None => None
                 | Some k =>
                     if snd e then
                       (if mem_nat (fst e) (n :: path) then Some (k + 1)
                        else match mock_path f g (n :: path) (fst e) with
                             | Some j => Some (k + j + 1)
                             | None => None end)
                     else Some (k + 1)
                 end) es (Some k0) = Some k) by apply H.
  induction es as [|[t b] es IHes]; intros k0; cbn [fold_left].
  - now exists k0.
  - assert (Hes : forall e, In e es -> fst e < List.length g) by (intros e He; apply Hedges; now right).
    cbn [snd fst]. destruct b.
    + destruct (mem_nat t (n :: path)) eqn:Em.
      * apply (IHes Hes).
      * destruct (IH (n :: path) t (Hedges (t, true) (or_introl eq_refl)) Em Hstep) as [j Ej].
        rewrite Ej. apply (IHes Hes).
    + apply (IHes Hes).
Qed.

Theorem mock_path_terminates g n : wf_graph g -> n < List.length g ->
  mock_path (S (List.length g)) g [] n <> None.
Proof.
  intros Hwf Hn.
  destruct (mock_path_total g Hwf (S (List.length g)) [] n Hn eq_refl) as [k E].
  - pose proof (unv_le (List.length g) []). lia.
  - rewrite E. discriminate.
Qed.

(* ---- the path-guarded mock walk is exponential on layered acyclic graphs ---------------------- *)
Lemma dag2_edges d i : i <= d ->
  edges_of (dag2 d) i = if i <? d then [(S i, true); (S i, true)] else [].
Proof.
  intros Hi. unfold edges_of, dag2.
  rewrite nth_error_map.
  assert (E : nth_error (seq 0 (S d)) i = Some i).
  { rewrite (nth_error_nth' _ 0) by (rewrite seq_length; lia). rewrite seq_nth by lia. reflexivity. }
  rewrite E. reflexivity.
Qed.

Lemma dag2_wf d : wf_graph (dag2 d).
Proof.
  intros n t b Hin. unfold dag2 at 1. rewrite map_length, seq_length.
  destruct (le_lt_dec n d) as [Hle|Hgt].
  - rewrite (dag2_edges d n Hle) in Hin. destruct (n <? d) eqn:E.
    + apply Nat.ltb_lt in E. destruct Hin as [H|[H|[]]]; inversion H; lia.
    + contradiction.
  - unfold edges_of, dag2 in Hin. rewrite nth_error_map in Hin.
    assert (E : nth_error (seq 0 (S d)) n = None) by (apply nth_error_None; rewrite seq_length; lia).
    rewrite E in Hin. contradiction.
Qed.

Lemma mem_nat_below i path : (forall x, In x path -> x < i) -> mem_nat (S i) (i :: path) = false.
Proof.
  intros H. destruct (mem_nat (S i) (i :: path)) eqn:E; [|reflexivity].
  apply mem_nat_In in E. destruct E as [E|E]; [lia|]. apply H in E. lia.
Qed.

(* exact count: 2^(m+1) - 2 assignments below a node that has m levels under it *)
Lemma mock_path_dag2_level d : forall m i fuel path k,
  i + m = d -> (forall x, In x path -> x < i) ->
  mock_path fuel (dag2 d) path i = Some k -> k + 2 = 2 ^ (S m).
Proof.
  induction m as [|m IH]; intros i fuel path k Hd Hp Hk.
  - destruct fuel as [|f]; [discriminate|]. cbn [mock_path] in Hk.
    rewrite dag2_edges in Hk by lia.
    assert (E : (i <? d) = false) by (apply Nat.ltb_ge; lia). rewrite E in Hk.
    cbn in Hk. inversion Hk. reflexivity.
  - destruct fuel as [|f]; [discriminate|]. cbn [mock_path] in Hk.
    rewrite dag2_edges in Hk by lia.
    assert (E : (i <? d) = true) by (apply Nat.ltb_lt; lia). rewrite E in Hk.
    cbn [fold_left snd fst] in Hk. rewrite (mem_nat_below i path Hp) in Hk.
    destruct (mock_path f (dag2 d) (i :: path) (S i)) as [j|] eqn:Ej; [|discriminate].
    assert (Hj : j + 2 = 2 ^ (S m)).
    { apply (IH (S i) f (i :: path) j); [lia| |exact Ej].
      intros x [<-|Hx]; [lia|]. apply Hp in Hx. lia. }
    inversion Hk. subst k. rewrite (Nat.pow_succ_r' 2 (S m)). lia.
Qed.

Theorem mock_path_dag2 d : exists k,
  mock_path (S (List.length (dag2 d))) (dag2 d) [] 0 = Some k /\ k + 2 = 2 ^ (S d).
Proof.
  destruct (mock_path (S (List.length (dag2 d))) (dag2 d) [] 0) as [k|] eqn:E.
  - exists k. split; [reflexivity|].
    apply (mock_path_dag2_level d d 0 (S (List.length (dag2 d))) [] k); [lia| intros x [] | exact E].
  - exfalso. apply (mock_path_terminates (dag2 d) 0 (dag2_wf d)); [|exact E].
    unfold dag2. rewrite map_length, seq_length. lia.
Qed.

Corollary mock_path_dag2_exponential d k : 1 <= d ->
  mock_path (S (List.length (dag2 d))) (dag2 d) [] 0 = Some k -> 2 ^ d <= k.
Proof.
  intros Hd Hk. destruct (mock_path_dag2 d) as [k' [E Hk']]. rewrite Hk in E. inversion E. subst k'.
  rewrite Nat.pow_succ_r' in Hk'.
  assert (2 <= 2 ^ d).
  { destruct d as [|d']; [lia|]. rewrite Nat.pow_succ_r'. pose proof (Nat.pow_nonzero 2 d'). lia. }
  lia.
Qed.

(* ---- the step-budgeted evaluation of the path-guarded walk ------------------------------------- *)
Definition path_step (f : nat) (g : graph) (path' : list nat) :=
  fun (acc : option nat) (e : nat * bool) =>
    match acc with
    | None => None
    | Some k =>
        if snd e then
          (if mem_nat (fst e) path' then Some (k + 1)
           else match mock_path f g path' (fst e) with
                | Some j => Some (k + j + 1)
                | None => None end)
        else Some (k + 1)
    end.
Definition cost_step (f : nat) (lim : N) (g : graph) (path' : list nat) :=
  fun (a : N) (e : nat * bool) =>
    if (lim <? a)%N then a
    else if snd e then
           (if mem_nat (fst e) path' then (a + 1)%N
            else mock_cost f lim g path' (fst e) (a + 1)%N)
         else (a + 1)%N.

Lemma mock_path_S f g path n :
  mock_path (S f) g path n = fold_left (path_step f g (n :: path)) (edges_of g n) (Some 0).
Proof. reflexivity. Qed.
Lemma mock_cost_S f lim g path n acc :
  mock_cost (S f) lim g path n acc = fold_left (cost_step f lim g (n :: path)) (edges_of g n) acc.
Proof. reflexivity. Qed.

Lemma path_fold_none f g p es : fold_left (path_step f g p) es None = None.
Proof. induction es as [|e es IH]; cbn; auto. Qed.

Lemma cost_fold_saturated f lim g p es : forall a, (lim < a)%N -> fold_left (cost_step f lim g p) es a = a.
Proof.
  induction es as [|e es IH]; intros a Ha; [reflexivity|]. cbn [fold_left].
  assert (E : cost_step f lim g p a e = a).
  { unfold cost_step. apply N.ltb_lt in Ha. now rewrite Ha. }
  rewrite E. now apply IH.
Qed.

Lemma mock_cost_spec lim g : forall fuel path n k acc,
  mock_path fuel g path n = Some k ->
  ((acc + N.of_nat k <= lim)%N -> mock_cost fuel lim g path n acc = (acc + N.of_nat k)%N) /\
  ((lim < acc + N.of_nat k)%N -> (lim < mock_cost fuel lim g path n acc)%N).
Proof.
  induction fuel as [|f IH]; intros path n k acc Hk; [discriminate|].
  rewrite mock_path_S in Hk. rewrite mock_cost_S.
  set (p := n :: path) in *.
  assert (H : forall es k0 k1 a, fold_left (path_step f g p) es (Some k0) = Some k1 ->
            exists d, k1 = k0 + d /\
              ((a + N.of_nat d <= lim)%N -> fold_left (cost_step f lim g p) es a = (a + N.of_nat d)%N) /\
              ((lim < a + N.of_nat d)%N -> (lim < fold_left (cost_step f lim g p) es a)%N)).
  { induction es as [|e es IHes]; intros k0 k1 a Hf.
    - cbn in Hf. inversion Hf. exists 0. split; [lia|]. cbn. split; intros; [lia|lia].
    - cbn [fold_left] in Hf.
      (* the three ways an edge adds to the count *)
      assert (Hone : forall k0', path_step f g p (Some k0) e = Some k0' -> k0' = k0 + 1 ->
                cost_step f lim g p a e = (if (lim <? a)%N then a else (a + 1)%N) ->
                exists d, k1 = k0 + d /\
                  ((a + N.of_nat d <= lim)%N -> fold_left (cost_step f lim g p) (e :: es) a = (a + N.of_nat d)%N) /\
                  ((lim < a + N.of_nat d)%N -> (lim < fold_left (cost_step f lim g p) (e :: es) a)%N)).
      { intros k0' Ep -> Ec. rewrite Ep in Hf.
        destruct (lim <? a)%N eqn:El.
        - apply N.ltb_lt in El.
          destruct (IHes (k0 + 1) k1 a Hf) as [d' [-> _]].
          exists (1 + d'). split; [lia|]. cbn [fold_left]. rewrite Ec.
          rewrite (cost_fold_saturated f lim g p es a El). split; intros; lia.
        - apply N.ltb_ge in El.
          destruct (IHes (k0 + 1) k1 (a + 1)%N Hf) as [d' [-> [H1 H2]]].
          exists (1 + d'). split; [lia|]. cbn [fold_left]. rewrite Ec. split; intros Hb.
          + rewrite H1 by lia. lia.
          + apply H2. lia. }
      unfold path_step at 2 in Hf. unfold path_step in Hone. unfold cost_step in Hone.
      destruct (snd e) eqn:Es.
      + destruct (mem_nat (fst e) p) eqn:Em.
        * apply (Hone (k0 + 1)); [reflexivity|reflexivity|]. destruct (lim <? a)%N; reflexivity.
        * clear Hone.
          destruct (mock_path f g p (fst e)) as [j|] eqn:Ej; [|rewrite path_fold_none in Hf; discriminate].
          destruct (IH p (fst e) j (a + 1)%N Ej) as [C1 C2].
          cbn [fold_left]. unfold cost_step at 2 4. rewrite Es, Em.
          destruct (lim <? a)%N eqn:El.
          -- apply N.ltb_lt in El.
             destruct (IHes (k0 + j + 1) k1 a Hf) as [d' [-> _]].
             exists (j + 1 + d'). split; [lia|].
             rewrite (cost_fold_saturated f lim g p es a El). split; intros; lia.
          -- apply N.ltb_ge in El.
             destruct (N.le_gt_cases (a + 1 + N.of_nat j) lim) as [Hle|Hgt].
             ++ rewrite (C1 Hle).
                destruct (IHes (k0 + j + 1) k1 (a + 1 + N.of_nat j)%N Hf) as [d' [-> [H1 H2]]].
                exists (j + 1 + d'). split; [lia|]. split; intros Hb.
                ** rewrite H1 by lia. lia.
                ** apply H2. lia.
             ++ specialize (C2 Hgt).
                destruct (IHes (k0 + j + 1) k1 a Hf) as [d' [-> _]].
                exists (j + 1 + d'). split; [lia|].
                rewrite (cost_fold_saturated f lim g p es _ C2). split; intros; lia.
      + apply (Hone (k0 + 1)); [reflexivity|reflexivity|]. destruct (lim <? a)%N; reflexivity. }
  destruct (H (edges_of g n) 0 k acc Hk) as [d [-> [H1 H2]]]. cbn [Nat.add]. split; assumption.
Qed.
